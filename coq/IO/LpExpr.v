(* IO/LpExpr.v -- second layer of the LP round trip: expressions.

   [expr_roundtrip]: for every well-formed list of items (terms as ILLwrite_lp_state_append_coef prints them,
   line breaks at ARBITRARY places, the look-ahead "+" before or after a break - IO/LpWrite.item) the loop of
   ILLread_constraint_expr (IO/LpRead.read_expr) started anywhere in front of the text reads exactly the terms
   written, in order, each with the value [rd_coef c] == c, and stops in front of what follows the expression.
   The writer's own wrapping rules ([row_items], [obj_items]) produce well-formed lists: [row_items_ok],
   [obj_items_ok]. *)
From Coq Require Import QArith List Ascii String Bool Arith NArith Lia Lqa.
From Coq Require Decimal DecimalString DecimalZ DecimalN DecimalPos.
From QSX Require Import Base.QSum LP.User IO.Num IO.NumSound IO.Bounds IO.Lex IO.Equiv IO.LpWrite IO.LpRead IO.LpTok.
Import ListNotations.
Local Open Scope Q_scope.

(* ---- signs ------------------------------------------------------------------------------------------ *)

Lemma sign_none st b x c : cur st = b ++ x :: c -> all_blank b -> is_blank x = false ->
  x <> "+"%char -> x <> "-"%char -> sign st = (fst (skip_blanks true st), None).
Proof.
  intros E AB NB N1 N2. destruct (skip_to st b x c E AB NB) as (st1 & SK & (P1 & C1 & _) & _).
  unfold sign. rewrite SK. cbn [fst]. rewrite C1.
  destruct (Ascii.eqb_spec x "+"); [congruence|]. destruct (Ascii.eqb_spec x "-"); [congruence|].
  all_ascii x; try reflexivity; congruence.
Qed.

Lemma sign_some st b (neg : bool) c : cur st = b ++ (if neg then "-"%char else "+"%char) :: c -> all_blank b ->
  exists st', sign st = (st', Some neg) /\ moved st st' (b ++ [if neg then "-"%char else "+"%char]) c.
Proof.
  intros E AB.
  assert (NB : is_blank (if neg then "-"%char else "+"%char) = false) by (destruct neg; reflexivity).
  destruct (skip_to st b _ c E AB NB) as (st1 & SK & (P1 & C1 & R1 & E1 & L1) & _).
  unfold sign. rewrite SK, C1.
  exists (advn 1 st1). split; [destruct neg; reflexivity|].
  unfold advn. rewrite C1. cbn [adv]. unfold moved, set_pos. cbn [pre cur rest eof fld first lnum].
  repeat split; try assumption. rewrite P1, rev_app_distr. reflexivity.
Qed.

Lemma chars_of_uint_head_digit d x t : chars_of_uint d = x :: t -> is_digit x = true.
Proof. destruct d; simpl; intros H; inversion H; reflexivity. Qed.

Lemma print_num_nonneg_head a : 0 <= a -> exists x t, print_num a = x :: t /\ is_digit x = true.
Proof.
  intros H. assert (H' : (0 <= Qnum (Qred a))%Z).
  { rewrite <- (Qred_correct a) in H. unfold Qle in H. simpl in H. lia. }
  unfold print_num, print_Z. destruct (Qnum (Qred a)) as [|p|p] eqn:EN; [| |lia].
  - destruct (Qden (Qred a)); eexists _, _; (split; [reflexivity|reflexivity]).
  - cbn [Z.to_int]. pose proof (DecimalPos.Unsigned.to_uint_nonnil p) as NN.
    destruct (chars_of_uint (Pos.to_uint p)) as [|x t] eqn:EC; [now apply chars_of_uint_nonnil in EC|].
    pose proof (chars_of_uint_head_digit _ _ _ EC) as D.
    destruct (Qden (Qred a)); exists x; eexists; (split; [reflexivity|exact D]).
Qed.

Lemma digit_not_sign x : is_digit x = true -> is_blank x = false /\ x <> "+"%char /\ x <> "-"%char /\ is_space x = false.
Proof. all_ascii x; vm_compute; intros H; try discriminate H; repeat split; discriminate. Qed.

Section Expr.
  Variable M : Q.
  Hypothesis HM : 0 < M.

  Definition absq (c : Q) : Q := if Qltb c 0 then - c else c.
  Definition coef_ok (c : Q) : Prop := Qeq_bool (absq c) M = false.
  Definition rd_abs (a : Q) : Q := if Qeq_bool a 1 then 1 else rr a.
  (* the value read back for a written coefficient *)
  Definition rd_coef (c : Q) : Q := if Qltb c 0 then - rd_abs (absq c) else rd_abs (absq c).
  Definition numtext (a : Q) : list ascii := if Qeq_bool a 1 then [] else print_val M a.

  Lemma absq_nonneg c : 0 <= absq c.
  Proof. unfold absq. destruct (Qltb c 0) eqn:E; [apply Qltb_lt in E|apply Qltb_false in E]; lra. Qed.

  Lemma rd_abs_eq a : rd_abs a == a.
  Proof.
    unfold rd_abs. destruct (Qeq_bool a 1) eqn:E; [apply Qeq_bool_iff in E; now symmetry|].
    apply (rr_spec a [] I).
  Qed.
  Theorem rd_coef_eq c : rd_coef c == c.
  Proof.
    unfold rd_coef, absq. destruct (Qltb c 0); rewrite rd_abs_eq; ring.
  Qed.

  Lemma print_val_nonneg a : 0 <= a -> Qeq_bool a M = false -> print_val M a = print_num a.
  Proof.
    intros A E. unfold print_val. rewrite E.
    destruct (Qeq_bool a (- M)) eqn:E2; [|reflexivity]. apply Qeq_bool_iff in E2. lra.
  Qed.

  Lemma coef_text_eq c f :
    coef_text M c f = (if Qltb c 0 then s2l " - " else if f then s2l " " else s2l " + ") ++ numtext (absq c).
  Proof. reflexivity. Qed.

  (* ---- what is left to read: the suffix form of LpWrite.layout ----------------------------------------- *)
  Section Tail.
  Variable tc : line.            (* what follows the expression on its last line (raw) *)
  Variable tl : list line.       (* the lines after it *)

  Fixpoint rem (its : list item) : line * list line :=
    match its with
    | [] => (tc, tl)
    | ITerm f c nm :: r => let (cu, re) := rem r in (term_text M c f nm ++ cu, re)
    | IPlus :: r => let (cu, re) := rem r in (s2l " +" ++ cu, re)
    | IBreak n :: r => let (cu, re) := rem r in ([], (blanks n ++ cu) :: re)
    end.

  Lemma layout_rem its : forall cur0,
    let (ls, c') := layout M cur0 its in
    let (cu, re) := rem its in (cur0 ++ cu) :: re = ls ++ (c' ++ tc) :: tl.
  Proof.
    induction its as [|[f c nm| |n] r IH]; intros cur0; cbn [layout rem].
    - reflexivity.
    - specialize (IH (cur0 ++ term_text M c f nm)). destruct (layout M (cur0 ++ term_text M c f nm) r) as [ls c'].
      destruct (rem r) as [cu re]. rewrite <- app_assoc in IH. exact IH.
    - specialize (IH (cur0 ++ s2l " +")). destruct (layout M (cur0 ++ s2l " +") r) as [ls c'].
      destruct (rem r) as [cu re]. rewrite <- app_assoc in IH. exact IH.
    - specialize (IH (blanks n)). destruct (layout M (blanks n) r) as [ls c'].
      destruct (rem r) as [cu re]. rewrite app_nil_r. cbn [app]. now rewrite IH.
  Qed.
  End Tail.

  Fixpoint terms_of (its : list item) : list (name * Q) :=
    match its with
    | ITerm _ c nm :: r => (nm, rd_coef c) :: terms_of r
    | _ :: r => terms_of r
    | [] => []
    end.
  Definition add_terms (rw : raw) (ts : list (name * Q)) : raw := fold_left (fun rw t => add_var rw (fst t) (snd t)) ts rw.
  Fixpoint count_terms (its : list item) : nat :=
    match its with ITerm _ _ _ :: r => S (count_terms r) | _ :: r => count_terms r | [] => O end.

  (* well-formed item lists: MFirst = no term yet, MNeed = a term was written (the next one needs its sign),
     MHave = a "+" was written (the next term comes without sign and is not negative) *)
  Inductive mode := MFirst | MNeed | MHave.
  Fixpoint items_ok (m : mode) (its : list item) : Prop :=
    match its with
    | [] => m = MNeed
    | IBreak _ :: r => items_ok m r
    | IPlus :: r => m = MNeed /\ items_ok MHave r
    | ITerm f c nm :: r =>
      match m with MFirst => True | MNeed => f = false \/ c < 0 | MHave => f = true /\ ~ c < 0 end /\
      coef_ok c /\ name_ok nm /\ items_ok MNeed r
    end.

  (* ---- the loop body after the sign ---------------------------------------------------------------------- *)
  Definition read_tail (k : nat) (st1 : rst) (rw : raw) (neg : bool) : res (rst * raw) :=
    match value true st1 with
    | inr _ => PrFlt
    | inl (st2, co) =>
      let c := match co with Some q => q | None => 1 end in
      match next_var st2 with
      | (st3, VOk) => read_expr true k st3 (add_var rw (fld st3) (if neg then - c else c)) false
      | (st3, _) => match co with Some _ => PrErr | None => PrOk (st3, rw) end
      end
    end.

  Lemma read_expr_unfold k st rw ft :
    read_expr true (S k) st rw ft =
    let (st1, sg) := sign st in
    match sg, ft with
    | None, false => PrOk (st1, rw)
    | _, _ => read_tail k st1 rw (match sg with Some true => true | _ => false end)
    end.
  Proof.
    cbn [read_expr]. destruct (sign st) as [st1 sg]. unfold read_tail.
    destruct sg as [[|]|]; destruct ft; try reflexivity;
      destruct (value true st1) as [[st2 co]|]; try reflexivity; destruct (next_var st2) as [st3 []]; reflexivity.
  Qed.

  Lemma read_expr_sbeq k st st' rw ft : sbeq st st' -> read_expr true (S k) st rw ft = read_expr true (S k) st' rw ft.
  Proof. intros H. rewrite !read_expr_unfold, (sign_sbeq _ _ H). reflexivity. Qed.
  Lemma read_tail_sbeq k st st' rw neg : sbeq st st' -> read_tail k st rw neg = read_tail k st' rw neg.
  Proof. intros H. unfold read_tail. rewrite (value_sbeq true _ _ H). reflexivity. Qed.

  Lemma stops_blank c : stops (" "%char :: c).
  Proof. reflexivity. Qed.

  (* one term after its sign: [a] = the absolute value, [b] blanks *)
  Lemma read_tail_term k st rw neg a nm b c' :
    cur st = b ++ numtext a ++ " "%char :: nm ++ c' -> all_blank b -> Qeq_bool a M = false -> 0 <= a ->
    name_ok nm -> stop_name c' ->
    exists st3, cur st3 = c' /\ rest st3 = rest st /\ eof st3 = eof st /\
      read_tail k st rw neg = read_expr true k st3 (add_var rw nm (if neg then - rd_abs a else rd_abs a)) false.
  Proof.
    intros E AB NM A NO ST. unfold numtext, rd_abs in *. destruct (Qeq_bool a 1) eqn:E1.
    - assert (E' : cur st = (b ++ [" "%char]) ++ nm ++ c') by (rewrite E, <- app_assoc; reflexivity).
      assert (AB' : all_blank (b ++ [" "%char])) by (apply all_blank_app; [exact AB|reflexivity]).
      destruct (value_name st _ nm c' E' AB' NO) as (st2 & V & (P2 & C2 & R2 & E2 & L2) & F2).
      assert (C2' : cur st2 = [] ++ nm ++ c') by exact C2.
      destruct (next_var_name st2 [] nm c' C2' eq_refl NO ST) as (st3 & NV & (P3 & C3 & R3 & E3 & L3) & F3).
      { right. rewrite P2, rev_app_distr. simpl. discriminate. }
      exists st3. repeat split; try congruence.
      unfold read_tail. rewrite V, NV, F3. reflexivity.
    - rewrite (print_val_nonneg a A NM) in E.
      assert (E' : cur st = b ++ print_num a ++ (" "%char :: nm ++ c')) by exact E.
      destruct (value_num st b a _ E' AB (stops_blank _)) as (st2 & V & (P2 & C2 & R2 & E2 & L2)).
      assert (C2' : cur st2 = [" "%char] ++ nm ++ c') by exact C2.
      destruct (next_var_name st2 [" "%char] nm c' C2' eq_refl NO ST) as (st3 & NV & (P3 & C3 & R3 & E3 & L3) & F3).
      { left. discriminate. }
      exists st3. repeat split; try congruence.
      unfold read_tail. rewrite V, NV, F3. reflexivity.
  Qed.

  (* the first byte of numtext a ++ " " ++ name is no blank, "+" or "-" when a >= 0 *)
  Lemma bare_head a nm c' : 0 <= a -> Qeq_bool a M = false -> name_ok nm ->
    exists b x t, all_blank b /\ s2l " " ++ numtext a ++ " "%char :: nm ++ c' = b ++ x :: t /\
                  is_blank x = false /\ x <> "+"%char /\ x <> "-"%char /\ is_space x = false.
  Proof.
    intros A NM NO. unfold numtext. destruct (Qeq_bool a 1).
    - destruct nm as [|x r]; [destruct NO|]. destruct NO as [H _].
      destruct (name_start_facts x H) as (_ & NB & NSP & _ & _ & N1 & N2 & _).
      exists [" "%char; " "%char], x, (r ++ c'). repeat split; auto.
    - rewrite (print_val_nonneg a A NM). destruct (print_num_nonneg_head a A) as (x & t & EP & D).
      destruct (digit_not_sign x D) as (NB & N1 & N2 & NSP).
      exists [" "%char], x, (t ++ " "%char :: nm ++ c'). rewrite EP. repeat split; auto.
  Qed.

  Section Read.
  Variable tc : line.
  Variable tl : list line.
  (* after the expression no sign follows (possibly on a later line), and its last name ends there *)
  Hypothesis Htail : forall st, cur st = cutline tc -> rest st = tl -> eof st = false -> snd (sign st) = None.
  Hypothesis Hstop : stop_name (cutline tc).

  Lemma term_text_clean c f nm : coef_ok c -> name_ok nm -> clean (term_text M c f nm).
  Proof.
    intros CO NO. unfold term_text. rewrite coef_text_eq. apply clean_app.
    - apply clean_app; [destruct (Qltb c 0); [reflexivity|destruct f; reflexivity]|].
      unfold numtext. destruct (Qeq_bool (absq c) 1); [reflexivity|].
      rewrite (print_val_nonneg _ (absq_nonneg c) CO). apply numchars_clean, print_num_numchar.
    - apply clean_cons; [reflexivity|now apply name_clean].
  Qed.

  Lemma term_text_head c f nm : exists t, term_text M c f nm = " "%char :: t.
  Proof. unfold term_text. rewrite coef_text_eq. destruct (Qltb c 0); [|destruct f]; eexists; reflexivity. Qed.

  Lemma rem_stop its : items_ok MNeed its \/ items_ok MHave its \/ items_ok MFirst its ->
    forall cu re, rem tc tl its = (cu, re) -> stop_name (cutline cu).
  Proof.
    destruct its as [|[f c nm| |n] r]; simpl; intros OK cu re RM.
    - inversion RM; subst. exact Hstop.
    - destruct (rem tc tl r) as [cu' re']. inversion RM; subst.
      destruct (term_text_head c f nm) as (t & ->). reflexivity.
    - destruct (rem tc tl r) as [cu' re']. inversion RM; subst. reflexivity.
    - destruct (rem tc tl r) as [cu' re']. inversion RM; subst. exact I.
  Qed.

  (* one term, in each of the three situations the loop can be in *)
  Lemma term_step m st rw k f c nm cu' :
    match m with MFirst => True | MNeed => f = false \/ c < 0 | MHave => f = true /\ ~ c < 0 end ->
    coef_ok c -> name_ok nm -> stop_name (cutline cu') ->
    cur st = cutline (term_text M c f nm ++ cu') ->
    exists st3, cur st3 = cutline cu' /\ rest st3 = rest st /\ eof st3 = eof st /\
      match m with
      | MFirst => read_expr true (S k) st rw true
      | MNeed => read_expr true (S k) st rw false
      | MHave => read_tail k st rw false
      end = read_expr true k st3 (add_var rw nm (rd_coef c)) false.
  Proof.
    intros MD CO NO ST CU.
    rewrite (cutline_app _ _ (term_text_clean c f nm CO NO)) in CU.
    unfold term_text in CU. rewrite coef_text_eq, <- !app_assoc in CU. cbn [app] in CU.
    pose proof (absq_nonneg c) as A.
    unfold rd_coef.
    destruct (Qltb c 0) eqn:NEG.
    - (* " - " |c| name : the sign is read by [sign] *)
      destruct m; try (destruct MD as [_ MD]; apply Qltb_lt in NEG; contradiction).
      all: assert (E : cur st = [" "%char] ++ (if true then "-"%char else "+"%char) :: (" "%char :: numtext (absq c) ++ " "%char :: nm ++ cutline cu')) by exact CU;
        destruct (sign_some st [" "%char] true _ E eq_refl) as (st1 & SG & (P1 & C1 & R1 & E1 & L1));
        assert (C1' : cur st1 = [" "%char] ++ numtext (absq c) ++ " "%char :: nm ++ cutline cu') by exact C1;
        destruct (read_tail_term k st1 rw true (absq c) nm _ _ C1' eq_refl CO A NO ST) as (st3 & C3 & R3 & E3 & RT);
        exists st3; (split; [exact C3|]); (split; [congruence|]); (split; [congruence|]);
        rewrite read_expr_unfold, SG; exact RT.
    - assert (NN : ~ c < 0) by (apply Qltb_false in NEG; lra).
      destruct f.
      + (* bare: " " |c| name *)
        destruct (bare_head (absq c) nm (cutline cu') A CO NO) as (b & x & t & AB & EB & NB & N1 & N2 & _).
        assert (E : cur st = b ++ x :: t) by (rewrite CU; exact EB).
        assert (C0 : cur st = [" "%char] ++ numtext (absq c) ++ " "%char :: nm ++ cutline cu') by exact CU.
        destruct (read_tail_term k st rw false (absq c) nm _ _ C0 eq_refl CO A NO ST) as (st3 & C3 & R3 & E3 & RT).
        exists st3. repeat split; try assumption.
        destruct m.
        * rewrite read_expr_unfold, (sign_none st b x t E AB NB N1 N2).
          rewrite (read_tail_sbeq k _ st rw false (sb_idem st)). exact RT.
        * destruct MD as [MD|MD]; [discriminate|contradiction].
        * exact RT.
      + (* " + " |c| name *)
        destruct m; try (destruct MD as [MD _]; discriminate).
        all: assert (E : cur st = [" "%char] ++ (if false then "-"%char else "+"%char) :: (" "%char :: numtext (absq c) ++ " "%char :: nm ++ cutline cu')) by exact CU;
          destruct (sign_some st [" "%char] false _ E eq_refl) as (st1 & SG & (P1 & C1 & R1 & E1 & L1));
          assert (C1' : cur st1 = [" "%char] ++ numtext (absq c) ++ " "%char :: nm ++ cutline cu') by exact C1;
          destruct (read_tail_term k st1 rw false (absq c) nm _ _ C1' eq_refl CO A NO ST) as (st3 & C3 & R3 & E3 & RT);
          exists st3; (split; [exact C3|]); (split; [congruence|]); (split; [congruence|]);
          rewrite read_expr_unfold, SG; exact RT.
  Qed.

  Lemma expr_read : forall its m st rw k cu re,
    rem tc tl its = (cu, re) -> items_ok m its ->
    cur st = cutline cu -> rest st = re -> eof st = false -> (count_terms its <= k)%nat ->
    exists st_t, cur st_t = cutline tc /\ rest st_t = tl /\ eof st_t = false /\
      match m with
      | MFirst => read_expr true (S k) st rw true
      | MNeed => read_expr true (S k) st rw false
      | MHave => read_tail k st rw false
      end = PrOk (fst (sign st_t), add_terms rw (terms_of its)).
  Proof.
    induction its as [|it its IH]; intros m st rw k cu re RM OK CU RS EO FU.
    - simpl in RM. injection RM as Hcu Hre; rewrite <- Hcu in CU; rewrite <- Hre in RS; clear Hcu Hre. simpl in OK. subst m.
      exists st. repeat split; try assumption.
      rewrite read_expr_unfold. pose proof (Htail st CU RS EO) as H.
      destruct (sign st) as [st1 sg]. simpl in H. subst sg. reflexivity.
    - destruct it as [f c nm| |n].
      + cbn [rem] in RM. destruct (rem tc tl its) as [cu' re'] eqn:RM'. injection RM as Hcu Hre; rewrite <- Hcu in CU; rewrite <- Hre in RS; clear Hcu Hre.
        cbn [items_ok] in OK. destruct OK as (MD & CO & NO & OK').
        assert (ST : stop_name (cutline cu')) by (eapply rem_stop; [left; exact OK'|exact RM']).
        destruct (term_step m st rw k f c nm cu' MD CO NO ST CU) as (st3 & C3 & R3 & E3 & STEP).
        cbn [count_terms] in FU. destruct k as [|k']; [lia|].
        destruct (IH MNeed st3 (add_var rw nm (rd_coef c)) k' cu' re' eq_refl OK' C3 ltac:(congruence) ltac:(congruence) ltac:(lia))
          as (st_t & T1 & T2 & T3 & RES).
        exists st_t. repeat split; try assumption. rewrite STEP. exact RES.
      + cbn [rem] in RM. destruct (rem tc tl its) as [cu' re'] eqn:RM'. injection RM as Hcu Hre; rewrite <- Hcu in CU; rewrite <- Hre in RS; clear Hcu Hre.
        cbn [items_ok] in OK. destruct OK as (-> & OK').
        assert (E : cur st = [" "%char] ++ (if false then "-"%char else "+"%char) :: cutline cu') by (rewrite CU; reflexivity).
        destruct (sign_some st [" "%char] false _ E eq_refl) as (st1 & SG & (P1 & C1 & R1 & E1 & L1)).
        destruct (IH MHave st1 rw k cu' re' eq_refl OK' C1 ltac:(congruence) ltac:(congruence) FU) as (st_t & T1 & T2 & T3 & RES).
        exists st_t. repeat split; try assumption. rewrite read_expr_unfold, SG. exact RES.
      + cbn [rem] in RM. destruct (rem tc tl its) as [cu' re'] eqn:RM'. injection RM as Hcu Hre; rewrite <- Hcu in CU; rewrite <- Hre in RS; clear Hcu Hre.
        cbn [items_ok] in OK. cbn [cutline] in CU.
        assert (AB0 : all_blank (cur st)) by (rewrite CU; reflexivity).
        pose proof (sbeq_newline st _ _ AB0 EO RS) as S1.
        set (st1 := mk_rst [] (cutline (blanks n ++ cu')) re' false (fld st) (first st) (S (lnum st))) in *.
        assert (C1 : cur st1 = blanks n ++ cutline cu') by (unfold st1; cbn [cur]; apply cutline_app, blanks_clean).
        pose proof (sbeq_blanks st1 _ _ (all_blank_blanks n) C1) as S2.
        set (st2 := set_pos st1 (rev (blanks n) ++ pre st1) (cutline cu')) in *.
        destruct (IH m st2 rw k cu' re' eq_refl OK eq_refl eq_refl eq_refl FU) as (st_t & T1 & T2 & T3 & RES).
        exists st_t. repeat split; try assumption. cbn [terms_of]. rewrite <- RES.
        pose proof (sbeq_trans _ _ _ S1 S2) as S12.
        destruct m; [apply read_expr_sbeq|apply read_expr_sbeq|apply read_tail_sbeq]; exact S12.
  Qed.
  End Read.

  (* terms only: what the tail lemmas need *)
  Fixpoint items_wf (its : list item) : Prop :=
    match its with
    | [] => True
    | ITerm _ c nm :: r => coef_ok c /\ name_ok nm /\ items_wf r
    | _ :: r => items_wf r
    end.
  Lemma items_ok_wf its : forall m, items_ok m its -> items_wf its.
  Proof.
    induction its as [|[f c nm| |n] r IH]; intros m OK; cbn [items_ok items_wf] in *; [exact I| | |].
    - destruct OK as (_ & CO & NO & OK). eauto.
    - destruct OK as (_ & OK). eauto.
    - eauto.
  Qed.

  Lemma term_text_no_colon c f nm : coef_ok c -> name_ok nm -> existsb (Ascii.eqb ":") (term_text M c f nm) = false.
  Proof.
    intros CO NO. unfold term_text. rewrite coef_text_eq, !existsb_app. cbn [existsb].
    rewrite (name_no_colon nm NO). unfold numtext.
    replace (existsb (Ascii.eqb ":") (if Qeq_bool (absq c) 1 then [] else print_val M (absq c))) with false.
    - destruct (Qltb c 0); [reflexivity|destruct f; reflexivity].
    - destruct (Qeq_bool (absq c) 1); [reflexivity|]. rewrite (print_val_nonneg _ (absq_nonneg c) CO).
      symmetry. apply numchars_no_colon, print_num_numchar.
  Qed.

  Lemma rem_no_colon tc tl its : items_wf its -> existsb (Ascii.eqb ":") (cutline tc) = false ->
    existsb (Ascii.eqb ":") (cutline (fst (rem tc tl its))) = false.
  Proof.
    intros WF TC. induction its as [|[f c nm| |n] r IH]; cbn [rem items_wf] in *; [exact TC| | |].
    - destruct WF as (CO & NO & WF). specialize (IH WF). destruct (rem tc tl r) as [cu re]. cbn [fst] in *.
      rewrite (cutline_app _ _ (term_text_clean c f nm CO NO)), existsb_app, (term_text_no_colon c f nm CO NO), IH. reflexivity.
    - specialize (IH WF). destruct (rem tc tl r) as [cu re]. cbn [fst] in *. exact IH.
    - destruct (rem tc tl r) as [cu re]. reflexivity.
  Qed.

  (* ---- the theorem of this layer -------------------------------------------------------------------------- *)
  (* [its] any well-formed item list with at least one term, written after [hdr] (whose text has been consumed:
     the reader stands anywhere on the first line in front of the expression), followed on its last line by [tc]
     and then by the lines [tl].  Reading the expression appends exactly the terms written. *)
  Theorem expr_roundtrip tc tl its st rw k cu re :
    (forall st, cur st = cutline tc -> rest st = tl -> eof st = false -> snd (sign st) = None) ->
    stop_name (cutline tc) ->
    items_ok MFirst its -> rem tc tl its = (cu, re) ->
    cur st = cutline cu -> rest st = re -> eof st = false -> (count_terms its <= k)%nat ->
    exists st_t, cur st_t = cutline tc /\ rest st_t = tl /\ eof st_t = false /\
      read_expr true (S k) st rw true = PrOk (fst (sign st_t), add_terms rw (terms_of its)).
  Proof.
    intros HT HS OK RM CU RS EO FU.
    exact (expr_read tc tl HT HS its MFirst st rw k cu re RM OK CU RS EO FU).
  Qed.

  (* ---- the writer's own item lists are well formed ------------------------------------------------------------ *)
  Definition terms_ok (ts : list (Q * name)) : Prop := Forall (fun t => coef_ok (fst t) /\ name_ok (snd t)) ts.

  Lemma row_items_ok startlen : forall ts total b,
    terms_ok ts -> (ts <> [] \/ b = false) ->
    items_ok (if b then MFirst else MNeed) (row_items M startlen ts total b b).
  Proof.
    induction ts as [|[c nm] ts IH]; intros total b OK NE.
    - destruct NE as [NE|NE]; [congruence|subst b; reflexivity].
    - inversion OK as [|? ? [CO NO] OK']; subst. cbn [fst snd] in *. cbn [row_items].
      assert (TAIL : forall tot, items_ok MNeed (row_items M startlen ts tot false false))
        by (intros tot; apply (IH tot false OK'); now right).
      destruct (LINE_LEN <=? total)%nat.
      + destruct b; cbn [negb andb app items_ok].
        * repeat split; auto.
        * destruct (Qltb c 0) eqn:NEG; cbn [negb app items_ok].
          -- repeat split; auto. right. now apply Qltb_lt.
          -- split; [reflexivity|]. repeat split; auto. apply Qltb_false in NEG. lra.
      + cbn [items_ok]. destruct b; repeat split; auto.
  Qed.

  Lemma obj_items_ok startlen : forall ts total var m,
    terms_ok ts ->
    match m with
    | MFirst => var = O /\ ts <> []
    | MNeed => var <> O \/ match ts with (c, _) :: _ => c < 0 | [] => True end
    | MHave => var = O /\ match ts with (c, _) :: _ => ~ c < 0 | [] => False end
    end -> items_ok m (obj_items M startlen ts total var).
  Proof.
    induction ts as [|[c nm] r IH]; intros total var m OK MD.
    - cbn [obj_items items_ok]. destruct m; [destruct MD as [_ MD]; congruence|reflexivity|destruct MD as [_ []]].
    - inversion OK as [|? ? [CO NO] OK']; subst. cbn [fst snd] in *. cbn [obj_items].
      assert (HEAD : match m with MFirst => True | MNeed => (var =? 0)%nat = false \/ c < 0 | MHave => (var =? 0)%nat = true /\ ~ c < 0 end).
      { destruct m; [exact I| |].
        - destruct MD as [MD|MD]; [left; now apply Nat.eqb_neq|right; exact MD].
        - destruct MD as [-> MD]. split; [reflexivity|exact MD]. }
      destruct ((LINE_LEN <=? total + List.length (term_text M c (var =? 0)%nat nm))%nat && (4 <=? S var)%nat).
      + destruct r as [|[c2 nm2] r'].
        * cbn [items_ok]. repeat split; auto.
        * cbn [items_ok]. split; [exact HEAD|]. split; [exact CO|]. split; [exact NO|].
          destruct (Qltb c2 0) eqn:NEG; cbn [app items_ok].
          -- apply (IH startlen O MNeed OK'). right. now apply Qltb_lt.
          -- split; [reflexivity|]. apply (IH startlen O MHave OK'). split; [reflexivity|]. apply Qltb_false in NEG. lra.
      + cbn [items_ok]. split; [exact HEAD|]. split; [exact CO|]. split; [exact NO|].
        apply (IH _ (S var) MNeed OK'). left. discriminate.
  Qed.

  (* the terms an item list of the writer carries are the terms it was given *)
  Lemma row_items_terms startlen : forall ts total b1 b2,
    terms_of (row_items M startlen ts total b1 b2) = map (fun t => (snd t, rd_coef (fst t))) ts.
  Proof.
    induction ts as [|[c nm] ts IH]; intros total b1 b2; [reflexivity|]. cbn [row_items map fst snd].
    destruct (LINE_LEN <=? total)%nat.
    - destruct (negb b2 && negb (Qltb c 0)); cbn [app terms_of]; now rewrite IH.
    - cbn [terms_of]. now rewrite IH.
  Qed.
  Lemma obj_items_terms startlen : forall ts total var,
    terms_of (obj_items M startlen ts total var) = map (fun t => (snd t, rd_coef (fst t))) ts.
  Proof.
    induction ts as [|[c nm] r IH]; intros total var; [reflexivity|]. cbn [obj_items map fst snd].
    destruct ((LINE_LEN <=? total + List.length (term_text M c (var =? 0)%nat nm))%nat && (4 <=? S var)%nat).
    - destruct r as [|[c2 nm2] r']; [reflexivity|].
      destruct (Qltb c2 0); cbn [app terms_of]; now rewrite IH.
    - cbn [terms_of]. now rewrite IH.
  Qed.
  Lemma row_items_count startlen : forall ts total b1 b2,
    count_terms (row_items M startlen ts total b1 b2) = List.length ts.
  Proof.
    induction ts as [|[c nm] ts IH]; intros total b1 b2; [reflexivity|]. cbn [row_items List.length].
    destruct (LINE_LEN <=? total)%nat.
    - destruct (negb b2 && negb (Qltb c 0)); cbn [app count_terms]; now rewrite IH.
    - cbn [count_terms]. now rewrite IH.
  Qed.
  Lemma obj_items_count startlen : forall ts total var,
    count_terms (obj_items M startlen ts total var) = List.length ts.
  Proof.
    induction ts as [|[c nm] r IH]; intros total var; [reflexivity|]. cbn [obj_items List.length].
    destruct ((LINE_LEN <=? total + List.length (term_text M c (var =? 0)%nat nm))%nat && (4 <=? S var)%nat).
    - destruct r as [|[c2 nm2] r']; [reflexivity|].
      destruct (Qltb c2 0); cbn [app count_terms]; now rewrite IH.
    - cbn [count_terms]. now rewrite IH.
  Qed.
End Expr.
