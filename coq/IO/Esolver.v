(* IO/Esolver.v -- what the program esolver (esolver/esolver.c) does around the library:
     getopt        ILLutil_bix_getopt (qsopt_ex/bgetopt.c) on the option string "b:B:d:EILm:O:p:P:R:Sv", one call
     parse_args    parseargs: the loop over the options, the usage errors (unknown option, -E, -I, a missing file
                   name, more than one file name), "-v" alone (prints the version and exits 0)
     get_ftype     the format by extension: EGioNParse on '.', an optional gz / GZ / bz2 / BZ2 suffix, then lp / LP
     run           main after the options: format choice (-L or extension), reading, -B basis, parameters (-p / -d
                   pricing values are validated by mpq_QSset_param), QSexact_solver, the first line of the solution
                   file (-O), the basis file (-b, only after an OPTIMAL solve - repair 8146872), the exit code
   The library calls are parameters ([env]): whether the file reads in each format, whether the basis file loads, the
   return value and status of the solver, the return values of QSexact_print_sol and mpq_QSwrite_basis.
   Theorems: the format is LP iff -L was given or the extension says so (format_by_flag_or_extension, get_ftype_ext);
   the exit code is 0 iff every step returned 0 (exit_zero_iff), in particular with -b on an infeasible or unbounded LP
   (exit_zero_nonoptimal_basis); a solution file is written iff the solver returned 0 and -O was given, its first line
   is a function of the status (first_line_spec); well-formed option lists are parsed to the configuration they spell
   (parse_wf). *)
From Coq Require Import ZArith List Ascii String Bool Arith Lia.
From QSX Require Import Gen.Consts IO.Num IO.Lex IO.LpWrite.
Import ListNotations.
Local Open Scope Z_scope.

Definition arg := list ascii.

(* ---- ILLutil_bix_getopt ------------------------------------------------------------------------------------------ *)
Definition optdef : list ascii := s2l "b:B:d:EILm:O:p:P:R:Sv".

(* position of the option character in the definition string: Some true = takes an argument *)
Fixpoint lookup_opt (c : ascii) (def : list ascii) : option bool :=
  match def with
  | [] => None
  | d :: r => if Ascii.eqb c d then Some (match r with ":"%char :: _ => true | _ => false end) else lookup_opt c r
  end.

(* the arguments from av[optind] on; GEof rest: EOF with optind at the head of rest; GAll: EOF with optind = ac *)
Inductive gres := GEof (rest : list arg) | GAll | GUnknown | GOpt (c : ascii) (oa : option arg) (rest : list arg).
Definition getopt (rest : list arg) : gres :=
  match rest with
  | [] => GAll
  | a :: r =>
    match a with
    | "-"%char :: "-"%char :: _ => GEof r
    | "-"%char :: c :: tail =>
      match lookup_opt c optdef with
      | None => GUnknown
      | Some false => GOpt c None (match tail with [] => r | _ => ("-"%char :: tail) :: r end)
      | Some true => match tail with
                     | _ :: _ => GOpt c (Some tail) r
                     | [] => match r with [] => GAll | a2 :: r2 => GOpt c (Some a2) r2 end
                     end
      end
    | ["-"%char] => GUnknown                       (* the option character is the terminator: "Illegal option" *)
    | _ => GEof rest
    end
  end.

(* atoi: white space, an optional sign, digits (values beyond int are out of scope) *)
Fixpoint digits_val (l : list ascii) (acc : Z) : Z :=
  match l with
  | c :: r => if is_digit c then digits_val r (10 * acc + (Z.of_N (N_of_ascii c) - 48)) else acc
  | [] => acc
  end.
Definition atoi (l : list ascii) : Z :=
  match skip_space l with
  | "-"%char :: r => - digits_val r 0
  | "+"%char :: r => digits_val r 0
  | r => digits_val r 0
  end.

Record cfg := { e_fname : arg; e_lp : bool; e_scaling : bool; e_version : bool; e_algo : Z; e_pstrat : Z; e_dstrat : Z;
                e_prec : Z; e_sol : option arg; e_rbasis : option arg; e_wbasis : option arg;
                e_mem : option arg; e_rtime : option arg }.
Definition cfg0 : cfg :=
  {| e_fname := []; e_lp := false; e_scaling := true; e_version := false; e_algo := c_PRIMAL_SIMPLEX;
     e_pstrat := c_QS_PRICE_PSTEEP; e_dstrat := c_QS_PRICE_DSTEEP; e_prec := 128; e_sol := None; e_rbasis := None;
     e_wbasis := None; e_mem := None; e_rtime := None |}.

Definition oarg (o : option arg) : arg := match o with Some a => a | None => [] end.

(* the switch of parseargs; None = usage error *)
Definition set_opt (c : cfg) (o : ascii) (oa : option arg) : option cfg :=
  let mk f l sc v al ps ds pr so rb wb me rt :=
    Some {| e_fname := f; e_lp := l; e_scaling := sc; e_version := v; e_algo := al; e_pstrat := ps; e_dstrat := ds; e_prec := pr;
            e_sol := so; e_rbasis := rb; e_wbasis := wb; e_mem := me; e_rtime := rt |} in
  let f := e_fname c in let l := e_lp c in let sc := e_scaling c in let v := e_version c in let al := e_algo c in
  let ps := e_pstrat c in let ds := e_dstrat c in let pr := e_prec c in let so := e_sol c in let rb := e_rbasis c in
  let wb := e_wbasis c in let me := e_mem c in let rt := e_rtime c in
  if Ascii.eqb o "m" then mk f l sc v al ps ds pr so rb wb oa rt
  else if Ascii.eqb o "R" then mk f l sc v al ps ds pr so rb wb me oa
  else if Ascii.eqb o "b" then mk f l sc v al ps ds pr so rb oa me rt
  else if Ascii.eqb o "B" then mk f l sc v al ps ds pr so oa wb me rt
  else if Ascii.eqb o "P" then mk f l sc v al ps ds (atoi (oarg oa)) so rb wb me rt
  else if Ascii.eqb o "d" then mk f l sc v c_DUAL_SIMPLEX ps (atoi (oarg oa)) pr so rb wb me rt
  else if Ascii.eqb o "L" then mk f true sc v al ps ds pr so rb wb me rt
  else if Ascii.eqb o "O" then mk f l sc v al ps ds pr oa rb wb me rt
  else if Ascii.eqb o "p" then mk f l sc v c_PRIMAL_SIMPLEX (atoi (oarg oa)) ds pr so rb wb me rt
  else if Ascii.eqb o "S" then mk f l false v al ps ds pr so rb wb me rt
  else if Ascii.eqb o "v" then mk f l sc true al ps ds pr so rb wb me rt
  else None.                                        (* 'E', 'I', ':' are in the option string but not in the switch *)

Inductive pres := PCfg (c : cfg) | PUsage | PVersion.

Definition finish_args (c : cfg) (rest : list arg) : pres :=
  match rest with
  | [] => if e_version c then PVersion else PUsage
  | [f] => PCfg {| e_fname := f; e_lp := e_lp c; e_scaling := e_scaling c; e_version := e_version c; e_algo := e_algo c;
                   e_pstrat := e_pstrat c; e_dstrat := e_dstrat c; e_prec := e_prec c; e_sol := e_sol c; e_rbasis := e_rbasis c;
                   e_wbasis := e_wbasis c; e_mem := e_mem c; e_rtime := e_rtime c |}
  | _ => PUsage
  end.

(* every call of getopt that returns an option shortens the text of the remaining arguments *)
Fixpoint parse_loop (fuel : nat) (c : cfg) (rest : list arg) : pres :=
  match fuel with
  | O => PUsage
  | S k =>
    match getopt rest with
    | GEof r => finish_args c r
    | GAll => finish_args c []
    | GUnknown => PUsage
    | GOpt o oa r => match set_opt c o oa with Some c' => parse_loop k c' r | None => PUsage end
    end
  end.
Definition args_size (l : list arg) : nat := fold_right (fun a n => (S (List.length a) + n)%nat) 0%nat l.
Definition parse_args (av : list arg) : pres := parse_loop (S (args_size av)) cfg0 av.

(* ---- get_ftype ------------------------------------------------------------------------------------------------------ *)
(* EGioNParse (buff, 128, ".", " ", ..): class of a byte: token character, delimiter, end of input *)
Inductive cclass := CTok | CDelim | CEnd.
Definition cls (c : ascii) : cclass :=
  let n := N_of_ascii c in
  if (n =? 0)%N || (n =? 32)%N then CEnd
  else if (n <? 32)%N || (127 <=? n)%N || (n =? 46)%N then CDelim
  else CTok.
(* the tokens; [left] = how many more may start (max_argc); the last one allowed is not cut *)
Fixpoint nparse (l : list ascii) (intok : bool) (cur : list ascii) (left : nat) : list (list ascii) :=
  match l with
  | [] => if intok then [rev cur] else []
  | c :: r =>
    match cls c with
    | CEnd => if intok then [rev cur] else []
    | CDelim => if intok then rev cur :: nparse r false [] left else nparse r false [] left
    | CTok => if intok then nparse r true (c :: cur) left
              else match left with
                   | O => []
                   | 1%nat => [c :: r]                   (* the 128th token: the parser stops, the rest of the text stays *)
                   | S k => nparse r true [c] k
                   end
    end
  end.
(* the C string a token is when read back: up to the first NUL *)
Fixpoint cstr (l : list ascii) : list ascii :=
  match l with c :: r => if Ascii.eqb c "000" then [] else c :: cstr r | [] => [] end.
Definition tokens (name : list ascii) : list (list ascii) := map cstr (nparse (firstn 4095 (cstr name)) false [] 128).

Inductive ftype := FMps | FLp | FFault.     (* FFault: no token at all - the code then reads argv[-1] *)
Definition is_zsuffix (t : list ascii) : bool := existsb (leqb t) (map s2l ["gz"; "GZ"; "bz2"; "BZ2"]%string).
Definition is_lpext (t : list ascii) : bool := leqb t (s2l "lp") || leqb t (s2l "LP").
Definition get_ftype (name : list ascii) : ftype :=
  match rev (tokens name) with
  | [] => FFault
  | [_] => FMps                                       (* argc = 0 *)
  | last :: prev :: more =>
    if is_zsuffix last then
      match more with
      | [] => FMps                                    (* argc became 0 *)
      | _ => if is_lpext prev then FLp else FMps
      end
    else if is_lpext last then FLp else FMps
  end.

(* ---- main after the options -------------------------------------------------------------------------------------------- *)
Record env := { v_read_lp : bool; v_read_mps : bool;        (* mpq_QSread_prob (fname, "LP" / "MPS") delivers a problem *)
                v_basis : Z;                                (* mpq_QSread_and_load_basis *)
                v_solver : Z; v_status : Z;                 (* QSexact_solver: return value, status *)
                v_printsol : Z; v_writebasis : Z }.         (* QSexact_print_sol, mpq_QSwrite_basis *)

Definition the_ftype (c : cfg) : ftype := if e_lp c then FLp else get_ftype (e_fname c).

Definition pprice_ok (k : Z) : bool :=
  (k =? c_QS_PRICE_PDANTZIG) || (k =? c_QS_PRICE_PDEVEX) || (k =? c_QS_PRICE_PSTEEP) || (k =? c_QS_PRICE_PMULTPARTIAL).
Definition dprice_ok (k : Z) : bool :=
  (k =? c_QS_PRICE_DDANTZIG) || (k =? c_QS_PRICE_DSTEEP) || (k =? c_QS_PRICE_DMULTPARTIAL) || (k =? c_QS_PRICE_DDEVEX).

Definition status_line (st : Z) : list ascii :=
  if st =? c_QS_LP_OPTIMAL then s2l "status = OPTIMAL"
  else if st =? c_QS_LP_INFEASIBLE then s2l "status = INFEASIBLE"
  else if st =? c_QS_LP_UNBOUNDED then s2l "status = UNBOUNDED"
  else s2l "status = UNDEFINED".

(* what the run leaves behind: exit code, first line of the solution file (None: no file written), basis file written *)
Record outcome := { o_exit : Z; o_line : option (list ascii); o_basis : bool }.
Definition out (x : Z) (l : option (list ascii)) (b : bool) : outcome := {| o_exit := x; o_line := l; o_basis := b |}.

Definition read_ok (c : cfg) (e : env) : bool := match the_ftype c with FLp => v_read_lp e | _ => v_read_mps e end.

Definition run_core (c : cfg) (e : env) : outcome :=
  if negb (read_ok c e) then out 1 None false
  else if match e_rbasis c with Some _ => negb (v_basis e =? 0) | None => false end then out (v_basis e) None false
  else if negb (pprice_ok (e_pstrat c) && dprice_ok (e_dstrat c)) then out 1 None false
  else if negb (v_solver e =? 0) then out (v_solver e) None false
  else
    let line := match e_sol c with Some _ => Some (status_line (v_status e)) | None => None end in
    let r1 := match e_sol c with Some _ => if v_status e =? c_QS_LP_OPTIMAL then v_printsol e else 0 | None => 0 end in
    (* CHECKRVALG after QSexact_print_sol jumps to CLEANUP: the file was written *)
    match e_wbasis c with
    | Some _ => if (r1 =? 0) && (v_status e =? c_QS_LP_OPTIMAL) then out (v_writebasis e) line true else out r1 line false
    | None => out r1 line false
    end.

Definition run (c : cfg) (e : env) : option outcome :=        (* None: get_ftype reads argv[-1] *)
  match the_ftype c with FFault => None | _ => Some (run_core c e) end.

(* the whole program on an argument list *)
Inductive result := RUsage | RVersion | RFault | RRun (c : cfg) (o : outcome).
Definition esolver (av : list arg) (e : env) : result :=
  match parse_args av with
  | PUsage => RUsage
  | PVersion => RVersion
  | PCfg c => match run c e with Some o => RRun c o | None => RFault end
  end.
Definition exit_code (r : result) : option Z :=
  match r with RUsage => Some 1 | RVersion => Some 0 | RFault => None | RRun _ o => Some (o_exit o) end.

(* ---- theorems ---------------------------------------------------------------------------------------------------------------- *)
Theorem format_by_flag_or_extension c : the_ftype c = FLp <-> e_lp c = true \/ get_ftype (e_fname c) = FLp.
Proof. unfold the_ftype. destruct (e_lp c); split; auto. intros [H|H]; [discriminate|exact H]. Qed.

(* plain components: bytes 33..126 without the dot *)
Definition plainc (c : ascii) : bool := match cls c with CTok => true | _ => false end.
Definition plain (w : list ascii) : Prop := w <> [] /\ forallb plainc w = true.

Lemma nparse_tok w : forallb plainc w = true -> forall rest cur left,
  nparse (w ++ rest) true cur left = nparse rest true (rev w ++ cur) left.
Proof.
  induction w as [|c w IH]; intros H rest cur left; [reflexivity|]. cbn [forallb] in H. apply andb_true_iff in H as [A B].
  cbn [app nparse]. unfold plainc in A. destruct (cls c); try discriminate. rewrite (IH B). cbn [rev]. now rewrite <- app_assoc.
Qed.

Lemma cstr_plain w : forallb plainc w = true -> cstr w = w.
Proof.
  induction w as [|c w IH]; intros H; [reflexivity|]. cbn [forallb] in H. apply andb_true_iff in H as [A B]. cbn [cstr].
  assert (NZ : Ascii.eqb c "000" = false).
  { destruct (Ascii.eqb_spec c "000") as [->|]; [discriminate A|reflexivity]. }
  now rewrite NZ, (IH B).
Qed.

Lemma cstr_dot a b : forallb plainc a = true -> cstr b = b -> cstr (a ++ "."%char :: b) = a ++ "."%char :: b.
Proof.
  induction a as [|c a IH]; intros PA CB; cbn [app cstr]; [now rewrite CB|].
  cbn [forallb] in PA. apply andb_true_iff in PA as [A B]. assert (N0 : Ascii.eqb c "000" = false) by (destruct (Ascii.eqb_spec c "000") as [->|]; [discriminate A|reflexivity]).
  now rewrite N0, (IH B CB).
Qed.

(* a name base.ext (no further dot, blank or control byte; not longer than the buffer): the format is LP iff ext is lp / LP;
   with a compression suffix: base.ext.gz *)
Theorem get_ftype_ext base ext : plain base -> plain ext -> (List.length (base ++ "."%char :: ext) <= 4095)%nat ->
  get_ftype (base ++ "."%char :: ext) = if is_zsuffix ext then FMps else if is_lpext ext then FLp else FMps.
Proof.
  intros [NB PB] [NE PE] LEN. unfold get_ftype, tokens.
  assert (PA : forallb plainc (base ++ ext) = true) by now rewrite forallb_app, PB, PE.
  assert (CS : cstr (base ++ "."%char :: ext) = base ++ "."%char :: ext) by (apply cstr_dot; [exact PB|now apply cstr_plain]).
  rewrite CS, firstn_all2 by exact LEN.
  destruct base as [|b0 base']; [congruence|]. cbn [app nparse]. cbn [forallb] in PB. apply andb_true_iff in PB as [A0 B0].
  unfold plainc in A0. destruct (cls b0) eqn:C0; try discriminate.
  rewrite (nparse_tok base' B0). cbn [nparse]. change (cls ".") with CDelim. cbv iota.
  destruct ext as [|e0 ext']; [congruence|]. cbn [nparse]. cbn [forallb] in PE. apply andb_true_iff in PE as [A1 B1].
  unfold plainc in A1. destruct (cls e0) eqn:C1; try discriminate.
  pose proof (nparse_tok ext' B1 [] [e0] 126) as NT. rewrite app_nil_r in NT. rewrite NT. cbn [nparse map rev app].
  rewrite rev_app_distr, rev_involutive. cbn [rev app].
  assert (P2 : forallb plainc (e0 :: ext') = true) by (cbn [forallb]; unfold plainc at 1; now rewrite C1, B1).
  rewrite (cstr_plain _ P2). destruct (is_zsuffix (e0 :: ext')); reflexivity.
Qed.

Theorem get_ftype_ext_z base ext z : plain base -> plain ext -> is_zsuffix z = true ->
  (List.length (base ++ "."%char :: ext ++ "."%char :: z) <= 4095)%nat ->
  get_ftype (base ++ "."%char :: ext ++ "."%char :: z) = if is_lpext ext then FLp else FMps.
Proof.
  intros [NB PB] [NE PE] Z LEN. unfold get_ftype, tokens.
  assert (PZ : forallb plainc z = true /\ z <> []).
  { pose proof Z as Z'. unfold is_zsuffix in Z'. cbn [map existsb] in Z'. repeat (apply orb_true_iff in Z' as [Z'|Z']); try discriminate;
      match type of Z' with leqb z ?k = true => destruct (leqb_spec z k) as [E|]; [|discriminate] end; rewrite E; split; (reflexivity || discriminate). }
  destruct PZ as [PZ NZ].
  rewrite (cstr_dot base (ext ++ "."%char :: z) PB (cstr_dot ext z PE (cstr_plain z PZ))), firstn_all2 by exact LEN.
  destruct base as [|b0 base']; [congruence|]. cbn [app nparse]. cbn [forallb] in PB. apply andb_true_iff in PB as [A0 B0].
  unfold plainc in A0. destruct (cls b0) eqn:C0; try discriminate.
  rewrite (nparse_tok base' B0). cbn [nparse]. change (cls ".") with CDelim. cbv iota.
  destruct ext as [|e0 ext']; [congruence|]. cbn [app nparse]. cbn [forallb] in PE. apply andb_true_iff in PE as [A1 B1].
  unfold plainc in A1. destruct (cls e0) eqn:C1; try discriminate.
  rewrite (nparse_tok ext' B1). cbn [nparse]. change (cls ".") with CDelim. cbv iota.
  destruct z as [|z0 z']; [congruence|]. cbn [nparse]. cbn [forallb] in PZ. apply andb_true_iff in PZ as [A2 B2].
  unfold plainc in A2. destruct (cls z0) eqn:C2; try discriminate.
  pose proof (nparse_tok z' B2 [] [z0] 125) as NT. rewrite app_nil_r in NT. rewrite NT. cbn [nparse map rev app].
  rewrite !rev_app_distr, !rev_involutive. cbn [rev app].
  assert (P1 : forallb plainc (b0 :: base') = true) by (cbn [forallb]; unfold plainc at 1; now rewrite C0, B0).
  assert (P2 : forallb plainc (e0 :: ext') = true) by (cbn [forallb]; unfold plainc at 1; now rewrite C1, B1).
  assert (P3 : forallb plainc (z0 :: z') = true) by (cbn [forallb]; unfold plainc at 1; now rewrite C2, B2).
  rewrite (cstr_plain _ P2), (cstr_plain _ P3), Z. reflexivity.
Qed.

(* the exit code: 0 iff every step taken returned 0 *)
Definition steps_ok (c : cfg) (e : env) : Prop :=
  read_ok c e = true /\
  (e_rbasis c <> None -> v_basis e = 0) /\
  pprice_ok (e_pstrat c) = true /\ dprice_ok (e_dstrat c) = true /\
  v_solver e = 0 /\
  (e_sol c <> None -> v_status e = c_QS_LP_OPTIMAL -> v_printsol e = 0) /\
  (e_wbasis c <> None -> v_status e = c_QS_LP_OPTIMAL -> v_writebasis e = 0).

Lemma run_some c e o : run c e = Some o -> o = run_core c e.
Proof. unfold run. destruct (the_ftype c); intros H; inversion H; reflexivity. Qed.

Theorem exit_zero_iff c e o : run c e = Some o -> (o_exit o = 0 <-> steps_ok c e).
Proof.
  intros R. rewrite (run_some c e o R). clear R o. unfold run_core, steps_ok.
  destruct (read_ok c e); cbn [negb]; [|cbn; split; [discriminate|intros (X & _); discriminate]].
  destruct (e_rbasis c) as [rb|] eqn:RB.
  - destruct (v_basis e =? 0) eqn:VB; cbn [negb].
    2:{ apply Z.eqb_neq in VB. cbn. split; [congruence|]. intros (_ & X & _). exfalso. apply VB, X. discriminate. }
    apply Z.eqb_eq in VB.
    destruct (pprice_ok (e_pstrat c)); cbn [andb negb]; [|cbn; split; [discriminate|intros (_ & _ & X & _); discriminate]].
    destruct (dprice_ok (e_dstrat c)); cbn [andb negb]; [|cbn; split; [discriminate|intros (_ & _ & _ & X & _); discriminate]].
    destruct (v_solver e =? 0) eqn:VS; cbn [negb]; [apply Z.eqb_eq in VS|apply Z.eqb_neq in VS; cbn; split; [congruence|intros (_ & _ & _ & _ & X & _); congruence]].
    destruct (e_sol c) as [so|]; destruct (e_wbasis c) as [wb|];
      (destruct (v_status e =? c_QS_LP_OPTIMAL) eqn:ST; [apply Z.eqb_eq in ST|apply Z.eqb_neq in ST]);
      (destruct (v_printsol e =? 0) eqn:PS; [apply Z.eqb_eq in PS|apply Z.eqb_neq in PS]);
      cbn [andb out o_exit]; rewrite ?PS; cbn [Z.eqb andb out o_exit];
      (split; [intros X; repeat split; auto; try congruence; try (intros; congruence)
              | intros (_ & _ & _ & _ & _ & X1 & X2); auto; try congruence;
                try (apply X2; congruence); try (apply X1; congruence); try (exfalso; apply PS; apply X1; congruence)]).
  - destruct (pprice_ok (e_pstrat c)); cbn [andb negb]; [|cbn; split; [discriminate|intros (_ & _ & X & _); discriminate]].
    destruct (dprice_ok (e_dstrat c)); cbn [andb negb]; [|cbn; split; [discriminate|intros (_ & _ & _ & X & _); discriminate]].
    destruct (v_solver e =? 0) eqn:VS; cbn [negb]; [apply Z.eqb_eq in VS|apply Z.eqb_neq in VS; cbn; split; [congruence|intros (_ & _ & _ & _ & X & _); congruence]].
    destruct (e_sol c) as [so|]; destruct (e_wbasis c) as [wb|];
      (destruct (v_status e =? c_QS_LP_OPTIMAL) eqn:ST; [apply Z.eqb_eq in ST|apply Z.eqb_neq in ST]);
      (destruct (v_printsol e =? 0) eqn:PS; [apply Z.eqb_eq in PS|apply Z.eqb_neq in PS]);
      cbn [andb out o_exit]; rewrite ?PS; cbn [Z.eqb andb out o_exit];
      (split; [intros X; repeat split; auto; try congruence; try (intros; congruence)
              | intros (_ & _ & _ & _ & _ & X1 & X2); auto; try congruence;
                try (apply X2; congruence); try (apply X1; congruence); try (exfalso; apply PS; apply X1; congruence)]).
Qed.

(* -b on an infeasible or unbounded LP: no basis is written and the program exits 0 (repair 8146872) *)
Theorem exit_zero_nonoptimal_basis c e o wb : run c e = Some o -> e_wbasis c = Some wb -> v_status e <> c_QS_LP_OPTIMAL ->
  read_ok c e = true -> (e_rbasis c <> None -> v_basis e = 0) ->
  pprice_ok (e_pstrat c) = true -> dprice_ok (e_dstrat c) = true -> v_solver e = 0 -> o_exit o = 0 /\ o_basis o = false.
Proof.
  intros R WB ST RD RB PP DP VS. split.
  - apply (exit_zero_iff c e o R). repeat split; auto; intros; congruence.
  - rewrite (run_some c e o R). unfold run_core. rewrite RD. cbn [negb].
    assert (B0 : match e_rbasis c with Some _ => negb (v_basis e =? 0) | None => false end = false).
    { destruct (e_rbasis c); [|reflexivity]. rewrite (RB ltac:(discriminate)). reflexivity. }
    rewrite B0, PP, DP, VS, WB. cbn. apply Z.eqb_neq in ST. rewrite ST, andb_false_r. reflexivity.
Qed.

(* the solution file: written iff the run reached the end of the solve with return value 0 and -O was given; its first line *)
Theorem first_line_spec c e o : run c e = Some o ->
  read_ok c e = true -> (e_rbasis c <> None -> v_basis e = 0) ->
  pprice_ok (e_pstrat c) = true -> dprice_ok (e_dstrat c) = true -> v_solver e = 0 ->
  o_line o = match e_sol c with Some _ => Some (status_line (v_status e)) | None => None end.
Proof.
  intros R RD RB PP DP VS. rewrite (run_some c e o R). unfold run_core. rewrite RD. cbn [negb].
  assert (B0 : match e_rbasis c with Some _ => negb (v_basis e =? 0) | None => false end = false).
  { destruct (e_rbasis c); [|reflexivity]. rewrite (RB ltac:(discriminate)). reflexivity. }
  rewrite B0, PP, DP, VS. cbn. destruct (e_wbasis c); destruct (e_sol c); cbn; repeat match goal with |- context [if ?b then _ else _] => destruct b end; reflexivity.
Qed.

Theorem no_file_unless_solved c e o l : run c e = Some o -> o_line o = Some l -> read_ok c e = true /\ v_solver e = 0 /\ e_sol c <> None.
Proof.
  intros R. rewrite (run_some c e o R). unfold run_core.
  destruct (read_ok c e); cbn [negb]; [|discriminate].
  destruct (match e_rbasis c with Some _ => negb (v_basis e =? 0) | None => false end); [discriminate|].
  destruct (negb (pprice_ok (e_pstrat c) && dprice_ok (e_dstrat c))); [discriminate|].
  destruct (v_solver e =? 0) eqn:VS; cbn [negb]; [|discriminate]. apply Z.eqb_eq in VS.
  destruct (e_sol c); [|destruct (e_wbasis c); cbn; repeat match goal with |- context [if ?b then _ else _] => destruct b end; discriminate].
  intros _. repeat split; auto. discriminate.
Qed.

(* ---- well-formed option lists ------------------------------------------------------------------------------------------------------ *)
Inductive opt := OL | OS | OV | OO (f : arg) | Ob (f : arg) | OB (f : arg) | Op (k : arg) | Od (k : arg) | OP (k : arg).
Definition render_opt (o : opt) : list arg :=
  match o with
  | OL => [s2l "-L"] | OS => [s2l "-S"] | OV => [s2l "-v"]
  | OO f => [s2l "-O"; f] | Ob f => [s2l "-b"; f] | OB f => [s2l "-B"; f]
  | Op k => [s2l "-p"; k] | Od k => [s2l "-d"; k] | OP k => [s2l "-P"; k]
  end.
Definition opt_char (o : opt) : ascii :=
  match o with OL => "L" | OS => "S" | OV => "v" | OO _ => "O" | Ob _ => "b" | OB _ => "B" | Op _ => "p" | Od _ => "d" | OP _ => "P" end%char.
Definition opt_arg (o : opt) : option arg :=
  match o with OL | OS | OV => None | OO f | Ob f | OB f | Op f | Od f | OP f => Some f end.
Definition apply_opt (c : cfg) (o : opt) : cfg := match set_opt c (opt_char o) (opt_arg o) with Some c' => c' | None => c end.

Lemma getopt_opt o rest : getopt (render_opt o ++ rest) = GOpt (opt_char o) (opt_arg o) rest.
Proof. destruct o; reflexivity. Qed.

Lemma set_opt_some c o : set_opt c (opt_char o) (opt_arg o) = Some (apply_opt c o).
Proof. unfold apply_opt. destruct o; reflexivity. Qed.

Lemma args_size_app a b : args_size (a ++ b) = (args_size a + args_size b)%nat.
Proof. unfold args_size. induction a as [|x a IH]; cbn [app fold_right]; [reflexivity|]. rewrite IH. lia. Qed.

Lemma parse_loop_opts : forall os c fname fuel, (List.length os < fuel)%nat ->
  (match fname with "-"%char :: _ => False | _ => True end) ->
  parse_loop fuel c (flat_map render_opt os ++ [fname]) = finish_args (fold_left apply_opt os c) [fname].
Proof.
  induction os as [|o os IH]; intros c fname fuel L NF.
  - destruct fuel as [|k]; [lia|]. cbn [flat_map app parse_loop fold_left]. unfold getopt.
    destruct fname as [|x f]; [reflexivity|]. destruct (Ascii.eqb_spec x "-") as [->|NE]; [destruct NF|].
    destruct x as [[|] [|] [|] [|] [|] [|] [|] [|]]; try reflexivity; congruence.
  - destruct fuel as [|k]; [cbn in L; lia|]. cbn [flat_map parse_loop fold_left]. rewrite <- app_assoc, getopt_opt, set_opt_some.
    apply IH; [cbn in L; lia|exact NF].
Qed.

(* options given one per argument, each value as its own argument, then the file name: the configuration they spell *)
Theorem parse_wf os fname : (match fname with "-"%char :: _ => False | _ => True end) ->
  parse_args (flat_map render_opt os ++ [fname]) = finish_args (fold_left apply_opt os cfg0) [fname].
Proof.
  intros NF. unfold parse_args. apply parse_loop_opts; [|exact NF].
  rewrite args_size_app. assert (G : (List.length os <= args_size (flat_map render_opt os))%nat).
  { induction os as [|o os IH]; [cbn; lia|]. cbn [flat_map List.length]. rewrite args_size_app. destruct o; cbn; lia. }
  lia.
Qed.

(* -L forces the LP reader whatever the extension; -E is a usage error *)
Example esolver_examples :
  (match parse_args (map s2l ["-L"; "x.mps"]%string) with PCfg c => the_ftype c | _ => FFault end) = FLp /\
  (match parse_args (map s2l ["-O"; "s.sol"; "a.b.lp.gz"]%string) with PCfg c => the_ftype c | _ => FFault end) = FLp /\
  (match parse_args (map s2l ["-SLp"; "4"; "-Oout"; "f"]%string) with PCfg c => (e_lp c, e_scaling c, e_pstrat c, e_sol c) | _ => (false, true, 0, None) end)
    = (true, false, 4, Some (s2l "out")) /\
  parse_args (map s2l ["-E"; "x.lp"]%string) = PUsage /\ parse_args (map s2l ["-h"; "x.lp"]%string) = PUsage /\
  parse_args (map s2l ["x.lp"; "y.lp"]%string) = PUsage /\ parse_args (map s2l ["-v"]%string) = PVersion /\
  parse_args (map s2l ["-O"]%string) = PUsage /\ get_ftype (s2l ".lp") = FMps /\ get_ftype (s2l "my file.lp") = FMps /\
  get_ftype (s2l ".") = FFault.
Proof. repeat split; vm_compute; reflexivity. Qed.
