(* IO/LpTok.v -- lemmas about numbers, characters and the tokenizer of IO/LpRead.v on known text; first layer of
   the round-trip proof (IO/LpExpr.v, IO/LpRoundtrip.v).
     rr_spec   what print_num prints is read as [rr q] == q, whatever follows (a byte the scanner does not accept)
   The scanner variant is the repaired one ([strict = true], /repo HEAD): with the scanner as found a name that
   starts with a slash is taken for a number. *)
From Coq Require Import QArith List Ascii String Bool Arith NArith Lia Lqa.
From Coq Require Decimal DecimalString DecimalZ DecimalN DecimalPos.
From QSX Require Import Base.QSum LP.User IO.Num IO.NumSound IO.Bounds IO.Lex IO.Equiv IO.LpWrite IO.LpRead.
Import ListNotations.
Local Open Scope Q_scope.

(* ================================================================================================= *)
(* numbers                                                                                           *)
(* ================================================================================================= *)

Lemma scan_app strict p rest : stops rest -> forall st n, scan strict (p ++ rest) st n = scan strict p st n.
Proof.
  intros ST. induction p as [|c p IH]; intros st n; simpl.
  - rewrite (scan_stops strict rest st n ST). destruct rest; reflexivity.
  - destruct (accept strict st c); [|reflexivity]. destruct (step st c); [apply IH|reflexivity].
Qed.

Lemma read_num_app strict p rest : stops rest -> read_num_gen strict (p ++ rest) = read_num_gen strict p.
Proof. intros ST. unfold read_num_gen. now rewrite scan_app. Qed.

(* the value the (repaired) scanner delivers for the text print_num writes *)
Definition rr (q : Q) : Q := match fst (read_num_gen true (print_num q)) with Val v => v | NFault _ => 0 end.

Theorem rr_spec q rest : stops rest ->
  read_num_gen true (print_num q ++ rest) = (Val (rr q), List.length (print_num q)) /\ rr q == q.
Proof.
  intros ST. rewrite (read_num_app true _ rest ST).
  destruct (read_print_num true q [] I) as (q' & R & E). rewrite app_nil_r in R.
  unfold rr. rewrite R. simpl. split; [reflexivity|exact E].
Qed.

Lemma chars_of_uint_nonnil d : d <> Decimal.Nil -> chars_of_uint d <> [].
Proof. destruct d; simpl; congruence. Qed.

Lemma print_Z_nonempty z : print_Z z <> [].
Proof.
  unfold print_Z. pose proof (to_int_nonnil z) as H. destruct (Z.to_int z); [now apply chars_of_uint_nonnil|discriminate].
Qed.

Lemma print_num_nonempty q : print_num q <> [].
Proof.
  unfold print_num. destruct (Qden (Qred q)); try (intros E; apply app_eq_nil in E; destruct E as [E _]; now apply print_Z_nonempty in E).
  apply print_Z_nonempty.
Qed.

(* ================================================================================================= *)
(* characters                                                                                        *)
(* ================================================================================================= *)

Definition special (c : ascii) : bool := Ascii.eqb c "\" || Ascii.eqb c "010" || Ascii.eqb c "000".
Definition clean (l : list ascii) : Prop := forallb (fun c => negb (special c)) l = true.

Lemma cutline_app a b : clean a -> cutline (a ++ b) = a ++ cutline b.
Proof.
  unfold clean. induction a as [|c a IH]; simpl; intros H; [reflexivity|].
  apply andb_true_iff in H. destruct H as [H1 H2]. unfold special in H1. apply negb_true_iff in H1. rewrite H1.
  now rewrite IH.
Qed.
Lemma cutline_clean a : clean a -> cutline a = a.
Proof. intros H. rewrite <- (app_nil_r a) at 1. rewrite cutline_app by exact H. simpl. apply app_nil_r. Qed.
Lemma clean_app a b : clean a -> clean b -> clean (a ++ b).
Proof. unfold clean. intros. now rewrite forallb_app, H, H0. Qed.
Lemma clean_cons c a : special c = false -> clean a -> clean (c :: a).
Proof. unfold clean. simpl. intros -> ->. reflexivity. Qed.
Lemma clean_app_inv a b : clean (a ++ b) -> clean a /\ clean b.
Proof. unfold clean. rewrite forallb_app. intros H. now apply andb_true_iff in H. Qed.

Ltac all_ascii c := destruct c as [[|] [|] [|] [|] [|] [|] [|] [|]].

(* what a character that may start a name is not *)
Lemma name_start_facts c : is_name_char c true = true ->
  accept true st_init c = false /\ is_blank c = false /\ is_space c = false /\ special c = false /\
  c <> ":"%char /\ c <> "+"%char /\ c <> "-"%char /\ is_name_char c false = true.
Proof. all_ascii c; vm_compute; intros H; try discriminate H; repeat split; discriminate. Qed.

Lemma name_char_facts c : is_name_char c false = true ->
  is_blank c = false /\ is_space c = false /\ special c = false /\ c <> ":"%char.
Proof. all_ascii c; vm_compute; intros H; try discriminate H; repeat split; discriminate. Qed.

Lemma digit_facts c : (is_digit c || Ascii.eqb c "/" || Ascii.eqb c "-")%bool = true ->
  is_blank c = false /\ is_space c = false /\ special c = false /\ c <> ":"%char /\ c <> "+"%char.
Proof. all_ascii c; vm_compute; intros H; try discriminate H; repeat split; discriminate. Qed.

(* names: a start character followed by name characters *)
Definition name_ok (nm : name) : Prop :=
  match nm with
  | [] => False
  | c :: r => is_name_char c true = true /\ forallb (fun x => is_name_char x false) r = true
  end.
(* what may follow a name: the end of the line or a byte that is no name character *)
Definition stop_name (rest : list ascii) : Prop :=
  match rest with [] => True | c :: _ => is_name_char c false = false end.

Lemma scan_name_rest r rest : forallb (fun x => is_name_char x false) r = true -> stop_name rest ->
  scan_name (r ++ rest) false = (r, rest).
Proof.
  induction r as [|c r IH]; simpl; intros H ST.
  - destruct rest as [|c t]; [reflexivity|]. simpl in *. now rewrite ST.
  - apply andb_true_iff in H. destruct H as [H1 H2]. rewrite H1, (IH H2 ST). reflexivity.
Qed.

Lemma scan_name_ok nm rest : name_ok nm -> stop_name rest -> scan_name (nm ++ rest) true = (nm, rest).
Proof.
  destruct nm as [|c r]; [intros []|]. intros [H1 H2] ST. simpl. rewrite H1, (scan_name_rest r rest H2 ST). reflexivity.
Qed.

Lemma name_not_number nm rest : name_ok nm -> read_num_gen true (nm ++ rest) = (Val 0, O).
Proof.
  destruct nm as [|c r]; [intros []|]. intros [H1 _].
  destruct (name_start_facts c H1) as (A & _). unfold read_num_gen. simpl. rewrite A. reflexivity.
Qed.

Lemma name_clean nm : name_ok nm -> clean nm.
Proof.
  destruct nm as [|c r]; [intros []|]. intros [H1 H2].
  apply clean_cons; [apply (name_start_facts c H1)|].
  unfold clean. apply forallb_forall. intros x IN. rewrite forallb_forall in H2. specialize (H2 x IN).
  destruct (name_char_facts x H2) as (_ & _ & S & _). now rewrite S.
Qed.

Lemma name_no_colon nm : name_ok nm -> existsb (Ascii.eqb ":") nm = false.
Proof.
  destruct nm as [|c r]; [intros []|]. intros [H1 H2]. cbn [existsb].
  destruct (name_start_facts c H1) as (_ & _ & _ & _ & NC & _).
  destruct (Ascii.eqb_spec ":" c) as [E|_]; [congruence|]. cbn [orb].
  apply not_true_is_false. intros E. apply existsb_exists in E. destruct E as (x & IN & E).
  rewrite forallb_forall in H2. specialize (H2 x IN). apply Ascii.eqb_eq in E. subst x.
  destruct (name_char_facts _ H2) as (_ & _ & _ & N). congruence.
Qed.

Lemma name_no_space nm : name_ok nm -> forallb (fun c => negb (is_space c)) nm = true.
Proof.
  destruct nm as [|c r]; [intros []|]. intros [H1 H2]. simpl.
  destruct (name_start_facts c H1) as (_ & _ & S & _). rewrite S. simpl.
  apply forallb_forall. intros x IN. rewrite forallb_forall in H2. specialize (H2 x IN).
  destruct (name_char_facts x H2) as (_ & S' & _). now rewrite S'.
Qed.

(* the characters of printed numbers *)
Definition numchar (c : ascii) : bool := is_digit c || Ascii.eqb c "/" || Ascii.eqb c "-".
Lemma chars_of_uint_numchar d : forallb numchar (chars_of_uint d) = true.
Proof. induction d; simpl; try rewrite IHd; reflexivity. Qed.
Lemma print_Z_numchar z : forallb numchar (print_Z z) = true.
Proof. unfold print_Z. destruct (Z.to_int z); simpl; apply chars_of_uint_numchar. Qed.
Lemma print_num_numchar q : forallb numchar (print_num q) = true.
Proof.
  unfold print_num. destruct (Qden (Qred q)); try apply print_Z_numchar;
    rewrite forallb_app; simpl; unfold print_pos; now rewrite print_Z_numchar, chars_of_uint_numchar.
Qed.

Lemma numchars_clean l : forallb numchar l = true -> clean l.
Proof.
  intros H. unfold clean. apply forallb_forall. intros x IN. rewrite forallb_forall in H. specialize (H x IN).
  destruct (digit_facts x H) as (_ & _ & S & _). now rewrite S.
Qed.
Lemma numchars_no_colon l : forallb numchar l = true -> existsb (Ascii.eqb ":") l = false.
Proof.
  intros H. apply not_true_is_false. intros E. apply existsb_exists in E. destruct E as (x & IN & E).
  rewrite forallb_forall in H. specialize (H x IN). apply Ascii.eqb_eq in E. subst x. discriminate H.
Qed.

(* the first character of a printed number is a digit or '-' : no blank, and for a non-negative number no sign *)
Lemma print_num_head q : exists c t, print_num q = c :: t /\ numchar c = true.
Proof.
  pose proof (print_num_nonempty q) as NE. pose proof (print_num_numchar q) as NC.
  destruct (print_num q) as [|c t]; [congruence|]. simpl in NC. apply andb_true_iff in NC. exists c, t. tauto.
Qed.

(* ================================================================================================= *)
(* the tokenizer on known text                                                                       *)
(* ================================================================================================= *)

Definition all_blank (b : list ascii) : Prop := forallb is_blank b = true.

Lemma skipb_blanks b : all_blank b -> forall p c,
  (match c with [] => True | x :: _ => is_blank x = false end) -> skipb p (b ++ c) = (rev b ++ p, c).
Proof.
  unfold all_blank. induction b as [|x b IH]; simpl; intros H p c NB.
  - destruct c as [|y c]; [reflexivity|]. simpl. now rewrite NB.
  - apply andb_true_iff in H. destruct H as [H1 H2]. rewrite H1, (IH H2 (x :: p) c NB), <- app_assoc. reflexivity.
Qed.

Lemma all_blank_app a b : all_blank a -> all_blank b -> all_blank (a ++ b).
Proof. unfold all_blank. intros. now rewrite forallb_app, H, H0. Qed.
Lemma all_blank_blanks n : all_blank (blanks n).
Proof. unfold all_blank, blanks. induction n; simpl; auto. Qed.
Lemma blanks_clean n : clean (blanks n).
Proof. unfold clean, blanks. induction n; simpl; auto. Qed.

(* states that differ only in what skip_blanks normalises away *)
Definition sbeq (st st' : rst) : Prop := skip_blanks true st = skip_blanks true st'.

Lemma sign_sbeq st st' : sbeq st st' -> sign st = sign st'.
Proof. unfold sbeq, sign. now intros ->. Qed.
Lemma value_sbeq strict st st' : sbeq st st' -> value strict st = value strict st'.
Proof. unfold sbeq, value. now intros ->. Qed.
Lemma next_var_sbeq st st' : sbeq st st' -> next_var st = next_var st'.
Proof. unfold sbeq, next_var. now intros ->. Qed.
Lemma colon_sbeq st st' : sbeq st st' -> colon st = colon st'.
Proof. unfold sbeq, colon. now intros ->. Qed.
Lemma row_sense_sbeq st st' : sbeq st st' -> row_sense st = row_sense st'.
Proof. unfold sbeq, row_sense. now intros ->. Qed.
Lemma bound_sense_sbeq st st' : sbeq st st' -> bound_sense st = bound_sense st'.
Proof. unfold sbeq, bound_sense. now intros ->. Qed.

(* a state whose current line starts with blanks is equivalent to the state behind them *)
Lemma sbeq_blanks st b c : all_blank b -> cur st = b ++ c -> sbeq st (set_pos st (rev b ++ pre st) c).
Proof.
  intros AB E. unfold sbeq, skip_blanks. rewrite E. cbn [pre cur set_pos].
  assert (G : forall p, skipb p (b ++ c) = skipb (rev b ++ p) c).
  { clear E. unfold all_blank in AB. induction b as [|x b IH]; intros p; simpl; [reflexivity|].
    simpl in AB. apply andb_true_iff in AB. destruct AB as [A1 A2]. rewrite A1, (IH A2), <- app_assoc. reflexivity. }
  rewrite G. destruct (skipb (rev b ++ pre st) c) as [p' c'] eqn:S. unfold set_pos. cbn. reflexivity.
Qed.

(* at the end of the current line the state is equivalent to the start of the next line *)
Lemma sbeq_newline st l ls : all_blank (cur st) -> eof st = false -> rest st = l :: ls ->
  sbeq st (mk_rst [] (cutline l) ls false (fld st) (first st) (S (lnum st))).
Proof.
  intros AB EO RS. unfold sbeq, skip_blanks.
  assert (S1 : skipb (pre st) (cur st) = (rev (cur st) ++ pre st, [])).
  { rewrite <- (app_nil_r (cur st)) at 1. apply skipb_blanks; [exact AB|exact I]. }
  rewrite S1. cbn [pre cur]. unfold next_line. cbn [eof set_pos rest lnum fld first]. rewrite EO, RS. cbn [next_line_from].
  destruct (skipb [] (cutline l)) as [p c] eqn:S2. destruct c as [|x c].
  - cbn [eof rest lnum fld first set_pos]. reflexivity.
  - reflexivity.
Qed.

Lemma skip_blanks_here st x c : cur st = x :: c -> is_blank x = false -> skip_blanks true st = (st, true) /\ skip_blanks false st = (st, true).
Proof.
  intros E NB. unfold skip_blanks. rewrite E. simpl. rewrite NB. destruct st; simpl in *; subst; split; reflexivity.
Qed.

Lemma adv_app w : forall p c, adv (List.length w) p (w ++ c) = (rev w ++ p, c).
Proof. induction w as [|x w IH]; intros p c; simpl; [reflexivity|]. rewrite IH, <- app_assoc. reflexivity. Qed.

(* [st'] is [st] moved over [consumed] on the same line *)
Definition moved (st st' : rst) (consumed c' : list ascii) : Prop :=
  pre st' = rev consumed ++ pre st /\ cur st' = c' /\ rest st' = rest st /\ eof st' = eof st /\ lnum st' = lnum st.

Lemma skipb_nonblank_head p c : match snd (skipb p c) with [] => True | x :: _ => is_blank x = false end.
Proof.
  revert p. induction c as [|x c IH]; intros p; simpl; [exact I|].
  destruct (is_blank x) eqn:E; [apply IH|]. simpl. exact E.
Qed.

Lemma skipb_fix p x c : is_blank x = false -> skipb p (x :: c) = (p, x :: c).
Proof. intros H. simpl. now rewrite H. Qed.

(* skip_blanks true is idempotent *)
Lemma sb_idem st : sbeq (fst (skip_blanks true st)) st.
Proof.
  unfold sbeq. unfold skip_blanks at 2 3.
  pose proof (skipb_nonblank_head (pre st) (cur st)) as NB.
  destruct (skipb (pre st) (cur st)) as [p c] eqn:S. cbn [snd] in NB.
  destruct c as [|x c].
  - unfold next_line. cbn [eof set_pos rest lnum fld first].
    destruct (eof st) eqn:EO.
    + cbn [fst]. unfold skip_blanks. cbn [pre cur set_pos skipb]. unfold next_line. cbn [eof set_pos]. now rewrite EO.
    + destruct (next_line_from (rest st) (lnum st)) as [[[[p' c'] r']|] ln] eqn:NL; cbn [fst].
      * assert (NB' : match c' with [] => False | y :: _ => is_blank y = false end).
        { clear - NL. revert NL. generalize (lnum st). induction (rest st) as [|l ls IH]; intros n NL; simpl in NL; [discriminate|].
          pose proof (skipb_nonblank_head [] (cutline l)) as H. destruct (skipb [] (cutline l)) as [p0 c0]. cbn [snd] in H.
          destruct c0; [eapply IH; eauto|]. inversion NL; subst. exact H. }
        destruct c' as [|y c']; [destruct NB'|]. unfold skip_blanks. cbn [pre cur]. rewrite (skipb_fix _ _ _ NB'). reflexivity.
      * unfold skip_blanks. cbn [pre cur skipb set_pos]. unfold next_line. cbn [eof]. reflexivity.
  - cbn [fst]. unfold skip_blanks. cbn [pre cur set_pos]. rewrite (skipb_fix _ _ _ NB). reflexivity.
Qed.

Lemma sbeq_sym a b : sbeq a b -> sbeq b a.
Proof. unfold sbeq. congruence. Qed.
Lemma sbeq_trans a b c : sbeq a b -> sbeq b c -> sbeq a c.
Proof. unfold sbeq. congruence. Qed.

(* ---- single tokens --------------------------------------------------------------------------- *)

Lemma skip_to st b x c : cur st = b ++ x :: c -> all_blank b -> is_blank x = false ->
  exists st', skip_blanks true st = (st', true) /\ moved st st' b (x :: c) /\ fld st' = fld st /\ first st' = first st.
Proof.
  intros E AB NB. unfold skip_blanks. rewrite E, (skipb_blanks b AB (pre st) (x :: c) NB).
  eexists. split; [reflexivity|]. unfold moved, set_pos. cbn. repeat split; reflexivity.
Qed.

Lemma next_var_name st b nm c' : cur st = b ++ nm ++ c' -> all_blank b -> name_ok nm -> stop_name c' ->
  (b <> [] \/ pre st <> []) ->
  exists st', next_var st = (st', VOk) /\ moved st st' (b ++ nm) c' /\ fld st' = nm.
Proof.
  intros E AB NM ST NE.
  destruct nm as [|x r] eqn:EN; [destruct NM|]. rewrite <- EN in *.
  assert (NB : is_blank x = false) by (subst nm; destruct NM as [H _]; apply (name_start_facts x H)).
  assert (E' : cur st = b ++ x :: (r ++ c')) by (rewrite E, EN; reflexivity).
  destruct (skip_to st b x (r ++ c') E' AB NB) as (st1 & SK & (P1 & C1 & R1 & E1 & L1) & F1 & _).
  unfold next_var. rewrite SK. cbn [negb].
  assert (C1' : cur st1 = nm ++ c') by (rewrite C1, EN; reflexivity).
  cbn [set_first cur]. rewrite C1', (scan_name_ok nm c' NM ST). cbn [fst].
  assert (NC0 : at_col0 st1 = false).
  { unfold at_col0. rewrite P1. destruct NE as [H|H].
    - destruct b as [|y b]; [congruence|]. simpl. destruct (rev b ++ [y]) eqn:Z; [now destruct (rev b)|]. reflexivity.
    - destruct (pre st); [congruence|]. destruct (rev b); reflexivity. }
  subst nm. cbv beta iota. cbn [first set_first]. rewrite NC0. cbn [andb].
  eexists. split; [reflexivity|].
  unfold advn, set_fld, set_first. cbn [pre cur rest eof fld first lnum]. rewrite C1', adv_app. unfold moved, set_pos. cbn [pre cur rest eof fld first lnum].
  repeat split; try assumption; try reflexivity.
  rewrite P1, rev_app_distr, <- app_assoc. reflexivity.
Qed.

Lemma value_num st b q c' : cur st = b ++ print_num q ++ c' -> all_blank b -> stops c' ->
  exists st', value true st = inl (st', Some (rr q)) /\ moved st st' (b ++ print_num q) c'.
Proof.
  intros E AB ST.
  destruct (print_num_head q) as (x & t & EP & NC).
  assert (NB : is_blank x = false) by apply (digit_facts x NC).
  assert (E' : cur st = b ++ x :: (t ++ c')) by (rewrite E, EP; reflexivity).
  destruct (skip_to st b x (t ++ c') E' AB NB) as (st1 & SK & (P1 & C1 & R1 & E1 & L1) & _).
  unfold value. rewrite SK. cbn [negb set_first cur].
  assert (C1' : cur st1 = print_num q ++ c') by (rewrite C1, EP; reflexivity).
  rewrite C1'. destruct (rr_spec q c' ST) as [RD _]. rewrite RD.
  replace (List.length (print_num q)) with (S (List.length t)) by (rewrite EP; reflexivity).
  eexists. split; [reflexivity|].
  unfold advn, set_first. cbn [pre cur]. rewrite C1'.
  change (S (List.length t)) with (List.length (x :: t)). rewrite <- EP, adv_app.
  unfold moved, set_pos, set_first. cbn [pre cur rest eof fld first lnum]. repeat split; try assumption.
  rewrite P1, rev_app_distr, <- app_assoc. reflexivity.
Qed.

Lemma value_name st b nm c' : cur st = b ++ nm ++ c' -> all_blank b -> name_ok nm ->
  exists st', value true st = inl (st', None) /\ moved st st' b (nm ++ c') /\ fld st' = fld st.
Proof.
  intros E AB NM.
  destruct nm as [|x r] eqn:EN; [destruct NM|]. rewrite <- EN in *.
  assert (NB : is_blank x = false) by (subst nm; destruct NM as [H _]; apply (name_start_facts x H)).
  assert (E' : cur st = b ++ x :: (r ++ c')) by (rewrite E, EN; reflexivity).
  destruct (skip_to st b x (r ++ c') E' AB NB) as (st1 & SK & (P1 & C1 & R1 & E1 & L1) & F1 & _).
  unfold value. rewrite SK. cbn [negb set_first cur].
  assert (C1' : cur st1 = nm ++ c') by (rewrite C1, EN; reflexivity).
  rewrite C1', (name_not_number nm c' NM).
  eexists. split; [reflexivity|]. unfold moved. cbn. repeat split; assumption.
Qed.
