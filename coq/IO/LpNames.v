(* IO/LpNames.v -- the name repair of the LP writer (qsopt_ex/lp.c fix_names with ILLsymboltab_uname / _rename of
   symtab.c): names that are not valid in LP format (empty, a byte outside the name alphabet, a digit or '.' first,
   the words inf / infinity / free) are replaced by a generated name that no other name of the table carries.

     fix_names_ok   the repaired names are valid LP names, none is inf / infinity / free, and they are pairwise
                    different - for every list of pairwise different names (what a symbol table holds)
   The model is compared on every run with the renames the writer announces (checks/C08.py). *)
From Coq Require Import QArith List Ascii String Bool Arith NArith Lia FinFun Permutation.
From Coq Require Decimal DecimalString DecimalZ DecimalN DecimalPos.
From QSX Require Import Base.QSum IO.Num IO.Lex IO.LpWrite IO.LpRead IO.LpTok IO.LpBounds IO.LpFinish.
Import ListNotations.

(* the text fix_names continues with: the name itself, or its index when the name has a byte outside the alphabet
   (or is empty), or is one of the words the bounds reader knows *)
Definition repair_text (i : nat) (old : name) : name :=
  let bad := match old with
             | [] => true
             | c :: r => negb (is_name_char c false && forallb (fun x => is_name_char x false) r)
             end in
  let buf := if bad then dec_nat i else old in
  if reserved buf then dec_nat i else buf.

(* ILLsymboltab_uname: prefix1 + name, prefix2 + name, else prefix1 + name + "_" + k for the first free k *)
Definition uname (tab : list name) (nm : name) (p1 : list ascii) (p2 : option (list ascii)) : name :=
  let c1 := p1 ++ nm in
  if negb (mem c1 tab) then c1
  else match p2 with
       | Some p => if negb (mem (p ++ nm) tab) then p ++ nm else first_free (List.length tab) 0 c1 tab
       | None => first_free (List.length tab) 0 c1 tab
       end.

Fixpoint set_nth {A} (i : nat) (x : A) (l : list A) : list A :=
  match l, i with
  | [], _ => []
  | _ :: t, O => x :: t
  | a :: t, S k => a :: set_nth k x t
  end.

(* the table after all renames = the new names *)
Fixpoint fix_loop (pref : ascii) (i : nat) (todo : list name) (tab : list name) : list name :=
  match todo with
  | [] => tab
  | old :: t =>
    let buf := repair_text i old in
    let tab' := match buf with
                | c :: _ => if is_name_char c true then tab
                            else set_nth i (uname tab buf [pref] (Some [pref; "_"%char])) tab
                | [] => tab
                end in
    fix_loop pref (S i) t tab'
  end.
Definition fix_names (pref : ascii) (names : list name) : list name := fix_loop pref 0 names names.

(* the objective name the writers invent when the problem has none: "obj" made unique against the row names *)
Definition default_objname (rownames : list name) : name := uname rownames (s2l "obj") [] None.

(* ---- decimal texts are different for different numbers -------------------------------------------------------------- *)

Lemma chars_of_uint_inj d : forall d', chars_of_uint d = chars_of_uint d' -> d = d'.
Proof.
  induction d; intros d' H; destruct d'; simpl in H; try discriminate H; try reflexivity;
    injection H as H; f_equal; auto.
Qed.

Lemma dec_nat_inj a b : dec_nat a = dec_nat b -> a = b.
Proof.
  unfold dec_nat, print_Z. intros H.
  assert (G : forall n, exists d, Z.to_int (Z.of_nat n) = Decimal.Pos d).
  { intros n. destruct (Z.of_nat n) eqn:E; cbn; eauto. lia. }
  destruct (G a) as (da & Ea), (G b) as (db & Eb). rewrite Ea, Eb in H. apply chars_of_uint_inj in H. subst db.
  apply Nat2Z.inj. rewrite <- (DecimalZ.of_to (Z.of_nat a)), <- (DecimalZ.of_to (Z.of_nat b)). now rewrite Ea, Eb.
Qed.

(* ---- first_free finds a name that is not taken ------------------------------------------------------------------------ *)

Definition cand (base : name) (k : nat) : name := base ++ "_"%char :: dec_nat k.

Lemma cand_inj base a b : cand base a = cand base b -> a = b.
Proof. unfold cand. intros H. apply app_inv_head in H. injection H as H. now apply dec_nat_inj. Qed.

Lemma first_free_spec base taken : forall fuel k,
  exists j, first_free fuel k base taken = cand base j /\ (k <= j <= k + fuel)%nat /\
            (forall j', (k <= j' < j)%nat -> mem (cand base j') taken = true) /\
            ((j < k + fuel)%nat -> mem (cand base j) taken = false).
Proof.
  induction fuel as [|f IH]; intros k; cbn [first_free]; fold (cand base k).
  - exists k. repeat split; try lia; try (intros j' H; lia).
  - destruct (mem (cand base k) taken) eqn:E.
    + destruct (IH (S k)) as (j & EQ & R & ALL & FR). exists j. rewrite EQ. repeat split; try lia.
      * intros j' H. destruct (Nat.eq_dec j' k) as [->|NE]; [exact E|]. apply ALL. lia.
      * intros H. apply FR. lia.
    + exists k. repeat split; try lia; try (intros j' H; lia). intros _. exact E.
Qed.

Lemma first_free_fresh base taken : mem (first_free (List.length taken) 0 base taken) taken = false.
Proof.
  destruct (first_free_spec base taken (List.length taken) 0) as (j & EQ & R & ALL & FR). rewrite EQ.
  destruct (Nat.eq_dec j (List.length taken)) as [->|NE]; [|apply FR; lia].
  apply not_true_is_false. intros IN.
  (* all of cand 0 .. cand n are taken: n+1 different names in a list of length n *)
  set (cs := map (cand base) (seq 0 (S (List.length taken)))).
  assert (ND : NoDup cs).
  { unfold cs. apply FinFun.Injective_map_NoDup; [intros a b; apply cand_inj|apply seq_NoDup]. }
  assert (INC : incl cs taken).
  { intros x H. unfold cs in H. apply in_map_iff in H. destruct H as (k & <- & H). apply in_seq in H. apply mem_In.
    destruct (Nat.eq_dec k (List.length taken)) as [->|NE]; [exact IN|apply ALL; lia]. }
  pose proof (NoDup_incl_length ND INC) as L. unfold cs in L. rewrite map_length, seq_length in L. lia.
Qed.

Lemma uname_fresh tab nm p1 p2 : mem (uname tab nm p1 p2) tab = false.
Proof.
  unfold uname. destruct (mem (p1 ++ nm) tab) eqn:E1; cbn [negb]; [|exact E1].
  destruct p2 as [p|]; [|apply first_free_fresh].
  destruct (mem (p ++ nm) tab) eqn:E2; cbn [negb]; [apply first_free_fresh|exact E2].
Qed.

(* the generated name: prefix + text (+ "_" + digits) *)
Lemma uname_shape tab nm p1 p2 : exists pre suf, uname tab nm p1 (Some p2) = pre ++ nm ++ suf /\ (pre = p1 \/ pre = p2) /\
  (suf = [] \/ exists k, suf = "_"%char :: dec_nat k).
Proof.
  unfold uname. destruct (negb (mem (p1 ++ nm) tab)).
  - exists p1, []. rewrite app_nil_r. split; [reflexivity|]. split; [now left|now left].
  - destruct (negb (mem (p2 ++ nm) tab)).
    + exists p2, []. rewrite app_nil_r. split; [reflexivity|]. split; [now right|now left].
    + destruct (first_free_spec (p1 ++ nm) tab (List.length tab) 0) as (j & EQ & _). rewrite EQ. unfold cand.
      exists p1, ("_"%char :: dec_nat j). split; [now rewrite <- app_assoc|]. split; [now left|right; eauto].
Qed.

(* ---- the repaired names are good names ------------------------------------------------------------------------------------ *)

Definition tail_chars (l : list ascii) : Prop := forallb (fun x => is_name_char x false) l = true.

Lemma dec_nat_tail i : tail_chars (dec_nat i).
Proof.
  unfold tail_chars, dec_nat. pose proof (print_Z_numchar (Z.of_nat i)) as H.
  assert (NN : exists d, Z.to_int (Z.of_nat i) = Decimal.Pos d) by (destruct (Z.of_nat i) eqn:E; cbn; eauto; lia).
  destruct NN as (d & E). unfold print_Z in *. rewrite E in *. clear E.
  induction d; simpl in *; try reflexivity; auto.
Qed.

Lemma dec_nat_nonempty i : dec_nat i <> [].
Proof. apply print_Z_nonempty. Qed.

Lemma repair_text_tail i old : tail_chars (repair_text i old) /\ repair_text i old <> [] /\
  (match repair_text i old with c :: _ => is_name_char c true = true | [] => False end -> repair_text i old = old /\ reserved old = false).
Proof.
  unfold repair_text.
  set (bad := match old with [] => true | c :: r => negb (is_name_char c false && forallb (fun x => is_name_char x false) r) end).
  assert (DIG : match dec_nat i with c :: _ => is_name_char c true = true | [] => False end -> False).
  { pose proof (dec_nat_nonempty i) as NE. unfold dec_nat, print_Z in *.
    assert (NN : exists d, Z.to_int (Z.of_nat i) = Decimal.Pos d) by (destruct (Z.of_nat i) eqn:E; cbn; eauto; lia).
    destruct NN as (d & E). rewrite E in *. destruct d; cbn; try congruence; intros H; discriminate H. }
  destruct bad eqn:B.
  - destruct (reserved (dec_nat i)); (split; [apply dec_nat_tail|]); (split; [apply dec_nat_nonempty|]); intros H; destruct (DIG H).
  - assert (OLD : tail_chars old /\ old <> []).
    { unfold bad in B. destruct old as [|c r]; [discriminate|]. apply negb_false_iff in B. split; [exact B|discriminate]. }
    destruct (reserved old) eqn:RS.
    + (split; [apply dec_nat_tail|]); (split; [apply dec_nat_nonempty|]); intros H; destruct (DIG H).
    + split; [apply OLD|]. split; [apply OLD|]. auto.
Qed.

(* a prefix that starts a name and continues with name characters, e.g. "x", "x_", "c", "c_" *)
Definition prefix_ok (p : list ascii) : Prop :=
  match p with c :: r => is_name_char c true = true /\ tail_chars r /\ Ascii.eqb (to_lower c) "i" = false /\ Ascii.eqb (to_lower c) "f" = false | [] => False end.

Lemma prefixed_good p body : prefix_ok p -> tail_chars body -> name_ok (p ++ body) /\ reserved (p ++ body) = false.
Proof.
  destruct p as [|c r]; [intros []|]. intros (C & R & NI & NF) B. split.
  - cbn [app name_ok]. split; [exact C|]. unfold tail_chars in *. now rewrite forallb_app, R, B.
  - unfold reserved, INF3, INF8, FREE4. cbn [app s2l list_ascii_of_string ieq].
    change (to_lower "I") with "i"%char. change (to_lower "F") with "f"%char.
    rewrite (Ascii.eqb_sym "i" (to_lower c)), (Ascii.eqb_sym "f" (to_lower c)), NI, NF. reflexivity.
Qed.

Section Fix.
  Variable pref : ascii.
  Hypothesis PREF : prefix_ok [pref].

  Lemma pref2_ok : prefix_ok [pref; "_"%char].
  Proof. destruct PREF as (A & _ & C & D). repeat split; auto. Qed.

  Definition good (n : name) : Prop := name_ok n /\ reserved n = false.

  Lemma renamed_good tab buf : tail_chars buf -> good (uname tab buf [pref] (Some [pref; "_"%char])).
  Proof.
    intros TB. destruct (uname_shape tab buf [pref] [pref; "_"%char]) as (pre & suf & -> & PR & SF).
    assert (POK : prefix_ok pre) by (destruct PR as [->| ->]; [exact PREF|exact pref2_ok]).
    apply (prefixed_good pre (buf ++ suf) POK). unfold tail_chars in *. rewrite forallb_app, TB.
    destruct SF as [->|(k & ->)]; [reflexivity|]. cbn [forallb]. change (is_name_char "_" false) with true.
    exact (dec_nat_tail k).
  Qed.

  Lemma set_nth_app {A} (x : A) a b y : set_nth (List.length a) x (a ++ y :: b) = a ++ x :: b.
  Proof. induction a as [|z a IH]; cbn; [reflexivity|]. now rewrite IH. Qed.

  (* invariant of the loop: [done] are final, [todo] still carry their old names; all different *)
  Lemma fix_loop_ok : forall todo done,
    NoDup (done ++ todo) -> Forall good done ->
    let res := fix_loop pref (List.length done) todo (done ++ todo) in
    NoDup res /\ Forall good res /\ List.length res = List.length (done ++ todo).
  Proof.
    induction todo as [|old todo IH]; intros done ND GD; cbn [fix_loop].
    - rewrite app_nil_r in *. auto.
    - destruct (repair_text_tail (List.length done) old) as (TL & NE & KEEP).
      destruct (repair_text (List.length done) old) as [|c r] eqn:ER; [congruence|].
      assert (STEP : forall nw, good nw -> ~ In nw (done ++ old :: todo) \/ nw = old ->
                let res := fix_loop pref (S (List.length done)) todo (done ++ nw :: todo) in
                NoDup res /\ Forall good res /\ List.length res = List.length (done ++ old :: todo)).
      { intros nw GN FRESH.
        assert (E1 : done ++ nw :: todo = (done ++ [nw]) ++ todo) by (rewrite <- app_assoc; reflexivity).
        assert (L1 : S (List.length done) = List.length (done ++ [nw])) by (rewrite app_length; simpl; lia).
        rewrite E1, L1.
        destruct (IH (done ++ [nw])) as (A & B & C).
        - rewrite <- E1. destruct FRESH as [NI| ->]; [|exact ND].
          apply (Permutation.Permutation_NoDup (Permutation.Permutation_middle done todo nw)).
          constructor; [|apply (NoDup_remove_1 _ _ _ ND)].
          intros H. apply NI. apply in_app_or in H. apply in_or_app. destruct H as [H|H]; [now left|right; now right].
        - apply Forall_app. split; [exact GD|]. constructor; [exact GN|constructor].
        - split; [exact A|]. split; [exact B|]. rewrite C, <- E1, !app_length. simpl. lia. }
      destruct (is_name_char c true) eqn:CS.
      + (* kept *)
        destruct (KEEP eq_refl) as [EO RS]. apply (STEP old); [|now right].
        split; [|exact RS]. rewrite <- EO. split; [exact CS|]. unfold tail_chars in TL. cbn [forallb] in TL. now apply andb_true_iff in TL.
      + (* renamed to a name that is not in the table *)
        rewrite set_nth_app. apply STEP.
        * apply renamed_good. exact TL.
        * left. intros IN. apply mem_In in IN. rewrite uname_fresh in IN. discriminate IN.
  Qed.

  Theorem fix_names_ok names : NoDup names ->
    NoDup (fix_names pref names) /\ Forall good (fix_names pref names) /\ List.length (fix_names pref names) = List.length names.
  Proof. intros ND. apply (fix_loop_ok names [] ND). constructor. Qed.
End Fix.

Example fix_names_example :
  map string_of_list_ascii (fix_names "x" (map s2l ["a"; "1b"; "x1b"; "in f"; "free"; ""; "x_1b"; "3"; "x7"]%string)) =
  ["a"; "x1b_0"; "x1b"; "x3"; "x4"; "x5"; "x_1b"; "x_3"; "x7"]%string /\
  string_of_list_ascii (default_objname (map s2l ["obj"; "c1"; "obj_0"]%string)) = "obj_1"%string /\
  prefix_ok ["x"%char] /\ prefix_ok ["c"%char].
Proof. vm_compute. repeat split; reflexivity. Qed.
