(* IO/Bounds.v -- the default-bound elision of the LP writer (lp.c write_bounds with
   ILLraw_default_lower / ILLraw_default_upper, rawlp.c:796-845) and the reader's bound rules
   (ILLraw_set_lowerBound / set_upperBound / set_fixedBound / set_unbound and
   ILLraw_fill_in_bounds, rawlp.c:623-757), per column, at the level of bound statements.
   M is the sentinel (+-M print as "inf"/"-inf" and read back as +-M). *)
From QSX Require Import Base.QSum.
Local Open Scope Q_scope.

Inductive bstmt :=
| BFix (v : Q)                 (*  " x = v"        *)
| BFreeS                       (*  " x free"       *)
| BLo (v : Q)                  (*  " v <= x"       *)
| BUp (v : Q)                  (*  " x <= v"       *)
| BLoUp (l u : Q).             (*  " l <= x <= u"  *)

Section Bounds.
  Variable M : Q.

  Definition default_lower (lo up : Q) : bool :=
    (Qeq_bool lo 0 && negb (Qltb up 0)) || (Qeq_bool lo (- M) && Qltb up 0).
  Definition default_upper (lo up : Q) (isint : bool) : bool :=
    if isint && Qeq_bool lo 0 then Qeq_bool up 1 else Qeq_bool up M.

  (* what write_bounds prints for one column: at most one line *)
  Definition encode_bounds (lo up : Q) (isint : bool) : list bstmt :=
    if Qeq_bool lo up then [BFix up]
    else if Qeq_bool lo (- M) && Qeq_bool up M then [BFreeS]
    else
      match negb (default_lower lo up), negb (default_upper lo up isint) with
      | true, true => [BLoUp lo up]
      | true, false => [BLo lo]
      | false, true => [BUp up]
      | false, false => []
      end.

  (* reader state of one column: lower, lbind, upper, ubind *)
  Record bst := { b_lo : Q; b_lb : bool; b_up : Q; b_ub : bool }.
  Definition bst0 : bst := {| b_lo := 0; b_lb := false; b_up := 0; b_ub := false |}.

  Definition set_lower (s : bst) (v : Q) : bst :=
    if b_lb s then s else {| b_lo := v; b_lb := true; b_up := b_up s; b_ub := b_ub s |}.
  Definition set_upper (s : bst) (v : Q) : bst :=
    if b_ub s then s else {| b_lo := b_lo s; b_lb := b_lb s; b_up := v; b_ub := true |}.
  Definition apply_stmt (s : bst) (b : bstmt) : bst :=
    match b with
    | BFix v => if b_ub s || b_lb s then s else {| b_lo := v; b_lb := true; b_up := v; b_ub := true |}
    | BFreeS => if b_lb s || b_ub s then s else {| b_lo := - M; b_lb := true; b_up := M; b_ub := true |}
    | BLo v => set_lower s v
    | BUp v => set_upper s v
    | BLoUp l u => set_upper (set_lower s l) u
    end.

  (* ILLraw_fill_in_bounds *)
  Definition fill_in (s : bst) (isint : bool) : Q * Q :=
    let lo := if negb (b_lb s) && b_ub s && Qltb (b_up s) 0 then - M else b_lo s in
    let up := if b_ub s then b_up s else if isint && negb (b_lb s) then 1 else M in
    (lo, up).

  Definition decode_bounds (l : list bstmt) (isint : bool) : Q * Q := fill_in (fold_left apply_stmt l bst0) isint.

  Theorem bounds_roundtrip lo up isint :
    0 < M -> lo <= up ->
    let r := decode_bounds (encode_bounds lo up isint) isint in fst r == lo /\ snd r == up.
  Proof.
    intros HM LE. unfold decode_bounds, encode_bounds.
    destruct (Qeq_bool lo up) eqn:E1.
    { apply Qeq_bool_iff in E1. cbn. split; [symmetry; exact E1 | reflexivity]. }
    destruct (Qeq_bool lo (- M) && Qeq_bool up M) eqn:E2.
    { apply andb_true_iff in E2. destruct E2 as [A B]. apply Qeq_bool_iff in A, B. cbn. split; symmetry; assumption. }
    unfold default_lower, default_upper.
    destruct (Qeq_bool lo 0) eqn:L0; destruct (Qltb up 0) eqn:U0; destruct (Qeq_bool lo (- M)) eqn:LM;
      destruct isint; destruct (Qeq_bool up 1) eqn:U1; destruct (Qeq_bool up M) eqn:UM;
      cbn -[Qltb]; rewrite ?U0; cbn;
      repeat match goal with
             | H : Qeq_bool _ _ = true |- _ => apply Qeq_bool_iff in H
             | H : Qeq_bool _ _ = false |- _ => apply Qeq_bool_neq in H
             | H : Qltb _ _ = true |- _ => apply Qltb_lt in H
             | H : Qltb _ _ = false |- _ => apply Qltb_false in H
             end;
      try (split; (reflexivity || (symmetry; assumption) || lra)); try (exfalso; lra).
  Qed.

  (* the precondition matters: an inverted pair is not reproduced (the writer elides a lower bound 0
     when up < 0 only if lo = -M) -- kept as an executable witness *)
End Bounds.

Example bounds_roundtrip_example :
  decode_bounds 1000 (encode_bounds 1000 (-1000) (-3) false) false = (-1000, -3) /\
  encode_bounds 1000 (-1000) (-3) false = [BUp (-3)] /\
  encode_bounds 1000 0 1 true = [] /\ decode_bounds 1000 [] true = (0, 1) /\
  encode_bounds 1000 0 1000 true = [BUp 1000].
Proof. vm_compute. repeat split; reflexivity. Qed.
