(* IO/MpsRead.v -- the MPS reader (qsopt_ex/read_mps.c: ILLmps_next_line, mps_skip_comment, ILLmps_next_field,
   get_double / ILLmps_next_coef, ILLmps_next_bound, ILLmps_possibly_blank_name, ILLmps_int_sos_mode;
   qsopt_ex/mps.c: ILLread_mps, read_mps_section, check_section_order, read_mps_objnamesense, read_mps_refrow,
   read_mps_line_in_section, add_row, add_col (is_marker_line, mps_read_marker_line, mps_read_col_line), add_rhs,
   add_ranges, add_bounds, mps_set_bound, mps_fill_in; qsopt_ex/rawlp.c: set_field_name, ILLraw_fill_in_bounds,
   ILLcheck_rawlpdata, whichColsAreUsed / whichRowsAreUsed, transferRanges) as a total function from the lines the
   line reader delivers to a column-wise problem by name ([MpsWrite.mlp]) or a rejection reason.

   A line is cut at the first newline / NUL ([mcut]); the tokenizer state [tk] is state->p (the text from the
   pointer on), state->line, state->key, state->field, state->field_num.  A '*' in column 1 makes a comment line,
   a '$' met where a field is looked for makes the rest of the line a comment once field_num >= 2.
   Every error of the C code makes the final answer "rejected" (ILLread_mps counts errors and skips mps_fill_in);
   the model stops at the first one and names it ([mreason]).  Warnings are not modelled.
   The loops over the (row, value) pairs of a record run on fuel (length of the line + 1), the loop over lines on
   the number of lines + 1; [MFuel] is excluded by IO/MpsTotal.v.  [MFlt] is a fault of the number scanner.

   The blank-set-name heuristic is modelled as the code has it ([possibly_blank]): when the field where a set name
   is expected is itself a row name (column name in BOUNDS) and a number follows, the set name is taken to be
   blank and the field is the row / column. *)
From Coq Require Import QArith List Ascii String Bool Arith NArith Lia.
From QSX Require Import Base.QSum LP.User IO.Num IO.Bounds IO.Ranges IO.Lex IO.Equiv IO.LpWrite IO.LpRead IO.MpsWrite.
Import ListNotations.
Local Open Scope Q_scope.

Inductive mreason :=
| EBadKey            (* "%s" is not a key *)
| ETwoSections       (* Two %s sections *)
| ESectionOrder      (* %s section after / before ROWS / COLUMNS section *)
| EMissingObjLine    (* Missing %s line at end of file *)
| EBadObjRecord      (* Bad row name / objective sense in %s record *)
| EBadObjsense       (* "%s" is no OBJSENSE *)
| EBadRefrow         (* Bad row name in REFROW section *)
| ENoSection         (* Line is in no section *)
| ERowSense          (* Unknown rowsense *)
| ERowRepeated       (* Repeated row definition *)
| ERowMissingName    (* Missing rowname in ROWS record *)
| EMarkerBad         (* Bad 'MARKER' line *)
| EMarkerMissing     (* Missing field on 'MARKER' line *)
| EMarkerField       (* %s is not a MARKER field *)
| ESosOther          (* "%s" is a member of SOS set #%d *)
| EColMissingFields  (* Missing fields in COLUMNS record *)
| EColNotRow         (* "%s" is not a row name (COLUMNS) *)
| EColBadCoef        (* Missing/Bad coefficient in COLUMNS record *)
| ERhsMissingRow     (* Missing row name in RHS record *)
| ERhsNotRow         (* "%s" is not a row name (RHS) *)
| ERhsBadCoef        (* Missing/Bad coefficient in RHS record *)
| ERhsTwice          (* Two rhs values for row *)
| ERngMissingRow     (* Missing row name in RANGES record *)
| ERngNotRow         (* "%s" is not a row name (RANGES) *)
| ERngBadCoef        (* Missing/Bad coefficient in RANGES record *)
| EBndType           (* "%s" is not a BOUNDS type *)
| EBndNoIdent        (* No bounds/column identifier in BOUNDS record *)
| EBndMissingCol     (* Missing column field in BOUNDS record *)
| EBndNotCol         (* "%s" is not a column name *)
| EBndBadValue       (* Missing/Bad bound field in BOUNDS record *)
| EObjNameUnknown    (* Bad objective name *)
| ENoNRow            (* No N-row in lp definition *)
| ERefrowUnknown     (* REFROW "%s" is not a row name *)
| ENoCols            (* There are no variables (ILLcheck_rawlpdata) *)
| ESosInt            (* SOS set member is an integer/binary variable *)
| ESosWeight         (* two members of a SOS set have the same weight *)
| EBoundsCross       (* Lower bound is bigger than upper bound *)
| ENoUsedCols        (* There are no variables (whichColsAreUsed) *)
| ENoRows            (* There are no constraints *)
| ERangeOnN.         (* No range for N-row (transferRanges) *)

Inductive mres (A : Type) := MOk (a : A) | MErr (e : mreason) | MFlt | MFuel.
Arguments MOk {A} a. Arguments MErr {A} e. Arguments MFlt {A}. Arguments MFuel {A}.

(* ---- lines and the tokenizer ------------------------------------------------------------------------------ *)

(* the C string in the line buffer, without its newline *)
Fixpoint mcut (l : line) : list ascii :=
  match l with
  | [] => []
  | c :: r => if Ascii.eqb c "010" || Ascii.eqb c "000" then [] else c :: mcut r
  end.

Record tk := mk_tk { t_cur : list ascii; t_line : list ascii; t_key : list ascii; t_fld : list ascii; t_fnum : nat }.
Definition tk_cur (t : tk) (c : list ascii) : tk := mk_tk c (t_line t) (t_key t) (t_fld t) (t_fnum t).
Definition tk_fld (t : tk) (w : list ascii) : tk := mk_tk (t_cur t) (t_line t) (t_key t) w (t_fnum t).
Definition tk_bump (t : tk) : tk := mk_tk (t_cur t) (t_line t) (t_key t) (t_fld t) (S (t_fnum t)).

(* sscanf (p, "%s", buf): the word, [] when the conversion fails *)
Definition sword (p : list ascii) : list ascii := fst (take_word (skip_space p)).

(* one pass of the loop of ILLmps_next_line over a line: LSkip = comment or blank line (continue), LStop = the
   "should almost never happen" exit (a line whose first byte is NUL or that holds only vertical tabs: the function
   returns 1 as at end of file), LTok = the function returns 0 with key and first field set *)
Inductive lres := LSkip | LStop | LTok (t : tk).
Definition scan_line (l : line) : lres :=
  match l with
  | [] => LSkip
  | x :: _ =>
    let c := mcut l in
    if is_blank x then
      let p := Lex.skip_blanks c in
      match sword p with
      | [] => LSkip                              (* nothing more on line *)
      | w => LTok (mk_tk (skipn (List.length w) p) c [] w 1)
      end
    else if Ascii.eqb x "*" || Ascii.eqb x "010" then LSkip
    else match sword c with
         | [] => LStop
         | k => let p := Lex.skip_blanks (skipn (List.length k) c) in
                let w := sword p in
                LTok (mk_tk (skipn (List.length w) p) c k w 1)
         end
  end.

(* ILLmps_next_line: (Some t, lines left) when it returns 0 *)
Fixpoint mnext_line (ls : list line) : option tk * list line :=
  match ls with
  | [] => (None, [])
  | l :: r => match scan_line l with
              | LSkip => mnext_line r
              | LStop => (None, r)
              | LTok t => (Some t, r)
              end
  end.

(* mps_skip_comment: skips blanks; true = the rest of the line is a comment *)
Definition skipc (t : tk) : tk * bool :=
  let c := Lex.skip_blanks (t_cur t) in
  (tk_cur t c, match c with x :: _ => Ascii.eqb x "$" && (2 <=? t_fnum t)%nat | [] => false end).

(* ILLmps_next_field: true = a field was read (the C function returns 0) *)
Definition mnext_field (t : tk) : tk * bool :=
  let (t1, com) := skipc (tk_fld t []) in
  if com then (t1, false)
  else match sword (t_cur t1) with
       | [] => (t1, false)
       | w => (mk_tk (tl (skipn (List.length w) (t_cur t1))) (t_line t1) (t_key t1) w (S (t_fnum t1)), true)
       end.

Section Reader.
  Variable strict : bool.        (* variant of the number scanner, see IO/Num.v *)
  Variable M : Q.

  Inductive dres := DVal (t : tk) (q : Q) | DNone (t : tk) | DFlt.

  (* get_double (state, 0, &coef) = ILLmps_next_coef *)
  Definition get_double (t : tk) : dres :=
    let (t1, com) := skipc t in
    if com then DNone t1
    else match read_num_gen strict (t_cur t1) with
         | (Val q, S n) => DVal (tk_bump (tk_cur t1 (skipn (S n) (t_cur t1)))) q
         | (Val _, O) => DNone t1
         | (NFault _, _) => DFlt
         end.

  (* ILLmps_next_field_is_number (peek) *)
  Inductive pk := PkNum (t : tk) | PkNo (t : tk) | PkFlt.
  Definition peek_number (t : tk) : pk :=
    let (t1, com) := skipc t in
    if com then PkNo t1
    else match read_num_gen strict (t_cur t1) with
         | (Val _, S _) => PkNum t1
         | (Val _, O) => PkNo t1
         | (NFault _, _) => PkFlt
         end.

  (* ILLmps_next_bound *)
  Definition next_bound (t : tk) : dres :=
    let (t1, com) := skipc t in
    if com then DNone t1
    else
      let c := t_cur t1 in
      let neg := match c with x :: _ => Ascii.eqb x "-" | [] => false end in
      let len0 := match c with x :: _ => if Ascii.eqb x "-" || Ascii.eqb x "+" then 1%nat else 0%nat | [] => 0%nat end in
      let c1 := skipn len0 c in
      let len := if iprefix (s2l "INFINITY") c1 then (len0 + 8)%nat else if iprefix (s2l "INF") c1 then (len0 + 3)%nat else len0 in
      if (1 <? len)%nat then
        let c2 := skipn len c in
        let c3 := Lex.skip_blanks c2 in
        let endl := match c3 with [] => true | x :: _ => Ascii.eqb x "$" end in
        if negb endl && (List.length c3 =? List.length c2)%nat then DNone t1      (* INF is the prefix of something else *)
        else DVal (tk_bump (tk_cur t1 c3)) (if neg then - M else M)
      else get_double t1.

  (* ---- the raw problem and the reader's flags ---------------------------------------------------------------- *)
  Inductive skey := KName | KObjsense | KObjname | KRows | KCols | KRhs | KRanges | KBounds | KRefrow.
  Inductive msec := ANone | ARows | ACols | ARhs | ARanges | ABounds.
  Definition skey_eqb (a b : skey) : bool :=
    match a, b with
    | KName, KName | KObjsense, KObjsense | KObjname, KObjname | KRows, KRows | KCols, KCols | KRhs, KRhs
    | KRanges, KRanges | KBounds, KBounds | KRefrow, KRefrow => true
    | _, _ => false
    end.
  Definition key_of (k : list ascii) : option skey :=
    if leqb k (s2l "NAME") then Some KName else if leqb k (s2l "OBJSENSE") then Some KObjsense
    else if leqb k (s2l "OBJNAME") then Some KObjname else if leqb k (s2l "ROWS") then Some KRows
    else if leqb k (s2l "COLUMNS") then Some KCols else if leqb k (s2l "RHS") then Some KRhs
    else if leqb k (s2l "RANGES") then Some KRanges else if leqb k (s2l "BOUNDS") then Some KBounds
    else if leqb k (s2l "REFROW") then Some KRefrow else None.

  (* xw_sense = None: an N row; xw_rng: the RANGES value kept for the row (rangesind) *)
  Record xrow := { xw_name : name; xw_sense : option sense; xw_rhs : Q; xw_rhsind : bool; xw_rng : option Q }.
  (* xc_ent: the colptr list, newest first; xc_sos: is_sos_member *)
  Record xcol := { xc_name : name; xc_int : bool; xc_sos : option nat; xc_ent : list (name * Q); xc_bnd : bst }.
  (* set names: None = not yet given, Some None = the blank name " " *)
  Record xraw := { x_name : option name; x_max : bool; x_obj : option name; x_refrow : option name;
                   x_rows : list xrow; x_cols : list xcol;
                   x_rhsname : option (option name); x_rngname : option (option name); x_bndname : option (option name);
                   x_nsos : nat; x_seen : list skey; x_active : msec; x_intvar : bool; x_sosvar : bool }.

  Definition xraw0 : xraw :=
    {| x_name := None; x_max := false; x_obj := None; x_refrow := None; x_rows := []; x_cols := [];
       x_rhsname := None; x_rngname := None; x_bndname := None; x_nsos := 0; x_seen := []; x_active := ANone;
       x_intvar := false; x_sosvar := false |}.

  Definition has_row (nm : name) (x : xraw) : bool := existsb (fun r => leqb (xw_name r) nm) (x_rows x).
  Definition has_col (nm : name) (x : xraw) : bool := existsb (fun c => leqb (xc_name c) nm) (x_cols x).
  Definition find_row (nm : name) (x : xraw) : option xrow := find (fun r => leqb (xw_name r) nm) (x_rows x).
  Definition find_col (nm : name) (x : xraw) : option xcol := find (fun c => leqb (xc_name c) nm) (x_cols x).

  Definition set_rows (x : xraw) (rows : list xrow) : xraw :=
    {| x_name := x_name x; x_max := x_max x; x_obj := x_obj x; x_refrow := x_refrow x; x_rows := rows; x_cols := x_cols x;
       x_rhsname := x_rhsname x; x_rngname := x_rngname x; x_bndname := x_bndname x; x_nsos := x_nsos x; x_seen := x_seen x;
       x_active := x_active x; x_intvar := x_intvar x; x_sosvar := x_sosvar x |}.
  Definition set_cols (x : xraw) (cols : list xcol) : xraw :=
    {| x_name := x_name x; x_max := x_max x; x_obj := x_obj x; x_refrow := x_refrow x; x_rows := x_rows x; x_cols := cols;
       x_rhsname := x_rhsname x; x_rngname := x_rngname x; x_bndname := x_bndname x; x_nsos := x_nsos x; x_seen := x_seen x;
       x_active := x_active x; x_intvar := x_intvar x; x_sosvar := x_sosvar x |}.
  Definition set_names (x : xraw) (rh rg bn : option (option name)) : xraw :=
    {| x_name := x_name x; x_max := x_max x; x_obj := x_obj x; x_refrow := x_refrow x; x_rows := x_rows x; x_cols := x_cols x;
       x_rhsname := rh; x_rngname := rg; x_bndname := bn; x_nsos := x_nsos x; x_seen := x_seen x;
       x_active := x_active x; x_intvar := x_intvar x; x_sosvar := x_sosvar x |}.
  (* the marker state: intvar, sosvar, nsos *)
  Definition set_marks (x : xraw) (iv sv : bool) (ns : nat) : xraw :=
    {| x_name := x_name x; x_max := x_max x; x_obj := x_obj x; x_refrow := x_refrow x; x_rows := x_rows x; x_cols := x_cols x;
       x_rhsname := x_rhsname x; x_rngname := x_rngname x; x_bndname := x_bndname x; x_nsos := ns; x_seen := x_seen x;
       x_active := x_active x; x_intvar := iv; x_sosvar := sv |}.
  (* what a section header changes *)
  Definition set_head (x : xraw) (nm : option name) (mx : bool) (ob rf : option name) (seen : list skey) (act : msec) : xraw :=
    {| x_name := nm; x_max := mx; x_obj := ob; x_refrow := rf; x_rows := x_rows x; x_cols := x_cols x;
       x_rhsname := x_rhsname x; x_rngname := x_rngname x; x_bndname := x_bndname x; x_nsos := x_nsos x; x_seen := seen;
       x_active := act; x_intvar := x_intvar x; x_sosvar := x_sosvar x |}.

  Definition upd_row (nm : name) (f : xrow -> xrow) (rows : list xrow) : list xrow :=
    map (fun r => if leqb (xw_name r) nm then f r else r) rows.
  Definition upd_col (nm : name) (f : xcol -> xcol) (cols : list xcol) : list xcol :=
    map (fun c => if leqb (xc_name c) nm then f c else c) cols.

  (* ---- ROWS ---------------------------------------------------------------------------------------------------- *)
  Definition sense_of_field (f : list ascii) : option (option sense) :=
    match f with
    | [c] => if Ascii.eqb c "L" then Some (Some SL) else if Ascii.eqb c "G" then Some (Some SG)
             else if Ascii.eqb c "E" then Some (Some SE) else if Ascii.eqb c "N" then Some None else None
    | _ => None
    end.

  Definition add_row (t : tk) (x : xraw) : mres xraw :=
    match sense_of_field (t_fld t) with
    | None => MErr ERowSense
    | Some s =>
      match mnext_field t with
      | (t1, true) =>
        if has_row (t_fld t1) x then MErr ERowRepeated
        else MOk (set_rows x (x_rows x ++ [{| xw_name := t_fld t1; xw_sense := s; xw_rhs := 0; xw_rhsind := false; xw_rng := None |}]))
      | (_, false) => MErr ERowMissingName
      end
    end.

  (* ---- COLUMNS -------------------------------------------------------------------------------------------------- *)
  Fixpoint prefixb (k s : list ascii) : bool :=
    match k, s with
    | [], _ => true
    | a :: k', b :: s' => Ascii.eqb a b && prefixb k' s'
    | _ :: _, [] => false
    end.
  (* is_marker_line: at the first quote of a blank-separated stretch the text must read 'MARKER' *)
  Fixpoint has_marker_aux (skipping : bool) (l : list ascii) : bool :=
    match l with
    | [] => false
    | c :: r =>
      if skipping then has_marker_aux (negb (is_blank c)) r
      else if Ascii.eqb c "'" then prefixb (s2l "'MARKER'") l || has_marker_aux true r
      else has_marker_aux false r
    end.
  Definition has_marker (l : list ascii) : bool := has_marker_aux false l.

  (* mps_read_marker_line + ILLmps_int_sos_mode (a marker that repeats the current mode only logs a message) *)
  Definition read_marker_line (t : tk) (x : xraw) : mres xraw :=
    let sos_line := leqb (t_fld t) (s2l "S1") || leqb (t_fld t) (s2l "S2") in
    let '(t1, ok1) := if sos_line then mnext_field t else (t, true) in
    let '(t2, _) := if ok1 then mnext_field t1 else (t1, false) in
    if negb (leqb (t_fld t2) (s2l "'MARKER'")) then MErr EMarkerBad
    else match mnext_field t2 with
         | (_, false) => MErr EMarkerMissing
         | (t3, true) =>
           let f := t_fld t3 in
           if leqb f (s2l "'INTORG'") then MOk (set_marks x true (x_sosvar x) (x_nsos x))
           else if leqb f (s2l "'INTEND'") then MOk (set_marks x false (x_sosvar x) (x_nsos x))
           else if leqb f (s2l "'SOSORG'") then
             MOk (if x_sosvar x then x else set_marks x (x_intvar x) true (S (x_nsos x)))
           else if leqb f (s2l "'SOSEND'") then MOk (set_marks x (x_intvar x) false (x_nsos x))
           else MErr EMarkerField
         end.

  Definition add_ent (x : xraw) (cn rn : name) (v : Q) : xraw :=
    set_cols x (upd_col cn (fun c => {| xc_name := xc_name c; xc_int := xc_int c; xc_sos := xc_sos c;
                                        xc_ent := (rn, v) :: xc_ent c; xc_bnd := xc_bnd c |}) (x_cols x)).

  (* the loop over the (row, value) pairs; the current field is a row name *)
  Fixpoint col_pairs (fuel : nat) (t : tk) (x : xraw) (cn : name) : mres xraw :=
    match fuel with
    | O => MFuel
    | S k =>
      if negb (has_row (t_fld t) x) then MErr EColNotRow
      else match get_double t with
           | DFlt => MFlt
           | DNone _ => MErr EColBadCoef
           | DVal t1 q =>
             let x1 := add_ent x cn (t_fld t) q in
             match mnext_field t1 with
             | (t2, true) => col_pairs k t2 x1 cn
             | (_, false) => MOk x1
             end
           end
    end.

  Definition line_fuel (t : tk) : nat := S (List.length (t_cur t)).

  Definition read_col_line (t : tk) (x : xraw) : mres xraw :=
    let cn := t_fld t in
    let cols1 :=
      if has_col cn x
      then (if x_intvar x then upd_col cn (fun c => {| xc_name := xc_name c; xc_int := true; xc_sos := xc_sos c; xc_ent := xc_ent c; xc_bnd := xc_bnd c |}) (x_cols x)
            else x_cols x)
      else x_cols x ++ [{| xc_name := cn; xc_int := x_intvar x; xc_sos := None; xc_ent := []; xc_bnd := bst0 |}] in
    let x1 := set_cols x cols1 in
    let sos :=
      if x_sosvar x then
        match find_col cn x1 with
        | Some c => match xc_sos c with
                    | Some k => if (S k =? x_nsos x)%nat then MOk x1 else MErr ESosOther
                    | None => MOk (set_cols x1 (upd_col cn (fun c => {| xc_name := xc_name c; xc_int := xc_int c; xc_sos := Some (pred (x_nsos x));
                                                                         xc_ent := xc_ent c; xc_bnd := xc_bnd c |}) cols1))
                    end
        | None => MOk x1
        end
      else MOk x1 in
    match sos with
    | MOk x2 =>
      match mnext_field t with
      | (_, false) => MErr EColMissingFields
      | (t1, true) => col_pairs (line_fuel t) t1 x2 cn
      end
    | e => e
    end.

  Definition add_col (t : tk) (x : xraw) : mres xraw :=
    if has_marker (t_line t) then read_marker_line t x else read_col_line t x.

  (* ---- set names ---------------------------------------------------------------------------------------------------- *)
  (* ILLmps_possibly_blank_name: None = fault, Some (t, None) = the blank name " " *)
  Definition possibly_blank (known : bool) (t : tk) : option (tk * option name) :=
    if known then
      match peek_number t with
      | PkNum t1 => Some (t1, None)
      | PkNo t1 => Some (t1, Some (t_fld t))
      | PkFlt => None
      end
    else Some (t, Some (t_fld t)).
  Definition oname_eqb (a b : option name) : bool :=
    match a, b with None, None => true | Some x, Some y => leqb x y | _, _ => false end.
  (* set_field_name: (the set name kept, skip) *)
  Definition set_field_name (cur : option (option name)) (nm : option name) : option (option name) * bool :=
    match cur with
    | None => (Some nm, false)
    | Some c => (cur, negb (oname_eqb c nm))
    end.

  (* ---- RHS ------------------------------------------------------------------------------------------------------------ *)
  Fixpoint rhs_pairs (fuel : nat) (t : tk) (x : xraw) : mres xraw :=
    match fuel with
    | O => MFuel
    | S k =>
      match find_row (t_fld t) x with
      | None => MErr ERhsNotRow
      | Some r =>
        match get_double t with
        | DFlt => MFlt
        | DNone _ => MErr ERhsBadCoef
        | DVal t1 q =>
          if xw_rhsind r then MErr ERhsTwice
          else
            let x1 := match xw_sense r with
                      | None => x                     (* Ignoring right hand side for N-row *)
                      | Some _ => set_rows x (upd_row (t_fld t) (fun r => {| xw_name := xw_name r; xw_sense := xw_sense r; xw_rhs := q;
                                                                             xw_rhsind := true; xw_rng := xw_rng r |}) (x_rows x))
                      end in
            match mnext_field t1 with
            | (t2, true) => rhs_pairs k t2 x1
            | (_, false) => MOk x1
            end
        end
      end
    end.

  Definition add_rhs (t : tk) (x : xraw) : mres xraw :=
    match possibly_blank (has_row (t_fld t) x) t with
    | None => MFlt
    | Some (t1, nm) =>
      let (keep, skip) := set_field_name (x_rhsname x) nm in
      let x1 := set_names x keep (x_rngname x) (x_bndname x) in
      if skip then MOk x1
      else
        match nm with
        | Some _ => match mnext_field t1 with
                    | (t2, true) => rhs_pairs (line_fuel t) t2 x1
                    | (_, false) => MErr ERhsMissingRow
                    end
        | None => rhs_pairs (line_fuel t) t1 x1
        end
    end.

  (* ---- RANGES --------------------------------------------------------------------------------------------------------- *)
  Fixpoint rng_pairs (fuel : nat) (t : tk) (x : xraw) : mres xraw :=
    match fuel with
    | O => MFuel
    | S k =>
      match find_row (t_fld t) x with
      | None => MErr ERngNotRow
      | Some r =>
        match get_double t with
        | DFlt => MFlt
        | DNone _ => MErr ERngBadCoef
        | DVal t1 q =>
          let x1 := match xw_rng r, xw_sense r with
                    | None, Some _ => set_rows x (upd_row (t_fld t) (fun r => {| xw_name := xw_name r; xw_sense := xw_sense r; xw_rhs := xw_rhs r;
                                                                                 xw_rhsind := xw_rhsind r; xw_rng := Some q |}) (x_rows x))
                    | _, _ => x                       (* second RANGE value / RANGE value for N-row: ignored *)
                    end in
          match mnext_field t1 with
          | (t2, true) => rng_pairs k t2 x1
          | (_, false) => MOk x1
          end
        end
      end
    end.

  Definition add_ranges (t : tk) (x : xraw) : mres xraw :=
    match possibly_blank (has_row (t_fld t) x) t with
    | None => MFlt
    | Some (t1, nm) =>
      let (keep, skip) := set_field_name (x_rngname x) nm in
      let x1 := set_names x (x_rhsname x) keep (x_bndname x) in
      if skip then MOk x1
      else
        match nm with
        | Some _ => match mnext_field t1 with
                    | (t2, true) => rng_pairs (line_fuel t) t2 x1
                    | (_, false) => MErr ERngMissingRow
                    end
        | None => rng_pairs (line_fuel t) t1 x1
        end
    end.

  (* ---- BOUNDS --------------------------------------------------------------------------------------------------------- *)
  Inductive btype := TLO | TUP | TFX | TFR | TMI | TPL | TBV | TUI | TLI.
  Definition btype_of (f : list ascii) : option btype :=
    if leqb f (s2l "LO") then Some TLO else if leqb f (s2l "UP") then Some TUP else if leqb f (s2l "FX") then Some TFX
    else if leqb f (s2l "FR") then Some TFR else if leqb f (s2l "MI") then Some TMI else if leqb f (s2l "PL") then Some TPL
    else if leqb f (s2l "BV") then Some TBV else if leqb f (s2l "UI") then Some TUI else if leqb f (s2l "LI") then Some TLI
    else None.
  Definition needs_value (ty : btype) : bool := match ty with TFR | TBV | TMI | TPL => false | _ => true end.

  (* mps_set_bound: new bound state and integer mark *)
  Definition set_bound (ty : btype) (v : Q) (b : bst) (isint : bool) : bst * bool :=
    match ty with
    | TLO => (set_lower b v, isint)
    | TUP => (set_upper b v, isint)
    | TFX => (apply_stmt M b (BFix v), isint)
    | TFR => (apply_stmt M b BFreeS, isint)
    | TMI => (set_lower b (- M), isint)
    | TPL => (set_upper b M, isint)
    | TBV => if b_lb b || b_ub b then (b, isint) else ({| b_lo := 0; b_lb := true; b_up := 1; b_ub := true |}, true)
    | TUI => (set_upper b v, isint || negb (b_ub b))
    | TLI => (set_lower b v, isint || negb (b_lb b))
    end.

  Definition add_bounds (t : tk) (x : xraw) : mres xraw :=
    match btype_of (t_fld t) with
    | None => MErr EBndType
    | Some ty =>
      match mnext_field t with
      | (_, false) => MErr EBndNoIdent
      | (t1, true) =>
        match possibly_blank (has_col (t_fld t1) x) t1 with
        | None => MFlt
        | Some (t2, nm) =>
          let (keep, skip) := set_field_name (x_bndname x) nm in
          let x1 := set_names x (x_rhsname x) (x_rngname x) keep in
          if skip then MOk x1
          else
            let r3 := match nm with
                      | Some _ => mnext_field t2
                      | None => (t2, true)
                      end in
            match r3 with
            | (_, false) => MErr EBndMissingCol
            | (t3, true) =>
              let cn := t_fld t3 in
              if negb (has_col cn x1) then MErr EBndNotCol
              else
                let app v := MOk (set_cols x1 (upd_col cn (fun c => let (b, i) := set_bound ty v (xc_bnd c) (xc_int c) in
                                                                    {| xc_name := xc_name c; xc_int := i; xc_sos := xc_sos c; xc_ent := xc_ent c; xc_bnd := b |})
                                                       (x_cols x1))) in
                if needs_value ty then
                  match next_bound t3 with
                  | DFlt => MFlt
                  | DNone _ => MErr EBndBadValue
                  | DVal _ v => app v
                  end
                else app 0
            end
        end
      end
    end.

  (* ---- read_mps_line_in_section ----------------------------------------------------------------------------------------- *)
  Definition line_in_section (t : tk) (x : xraw) : mres xraw :=
    match x_active x with
    | ANone => MErr ENoSection
    | ARows => add_row t x
    | ACols => add_col t x
    | ARhs => add_rhs t x
    | ARanges => add_ranges t x
    | ABounds => add_bounds t x
    end.

  (* ---- read_mps_section ------------------------------------------------------------------------------------------------- *)
  Definition seen (k : skey) (x : xraw) : bool := existsb (skey_eqb k) (x_seen x).
  Definition order_ok (k : skey) (x : xraw) : bool :=
    match k with
    | KRefrow => negb (seen KRows x)
    | KCols | KRhs | KRanges => seen KRows x
    | KBounds => seen KCols x
    | _ => true
    end.
  Definition maxmin (f : list ascii) : option bool :=
    if existsb (leqb f) (map s2l ["MAX"; "Max"; "max"; "MAXIMIZE"; "Maximize"; "maximize"]%string) then Some true
    else if existsb (leqb f) (map s2l ["MIN"; "Min"; "min"; "MINIMIZE"; "Minimize"; "minimize"]%string) then Some false
    else None.

  Definition read_section (t : tk) (rest : list line) (x : xraw) : mres (xraw * list line) :=
    match key_of (t_key t) with
    | None => MErr EBadKey
    | Some k =>
      if seen k x then MErr ETwoSections
      else if negb (order_ok k x) then MErr ESectionOrder
      else
        let sn := k :: x_seen x in
        let hd nm mx ob rf act := set_head x nm mx ob rf sn act in
        match k with
        | KName => MOk (hd (match t_fld t with [] => x_name x | f => Some f end) (x_max x) (x_obj x) (x_refrow x) ANone, rest)
        | KRows => MOk (hd (x_name x) (x_max x) (x_obj x) (x_refrow x) ARows, rest)
        | KCols => MOk (hd (x_name x) (x_max x) (x_obj x) (x_refrow x) ACols, rest)
        | KRhs => MOk (hd (x_name x) (x_max x) (x_obj x) (x_refrow x) ARhs, rest)
        | KRanges => MOk (hd (x_name x) (x_max x) (x_obj x) (x_refrow x) ARanges, rest)
        | KBounds => MOk (hd (x_name x) (x_max x) (x_obj x) (x_refrow x) ABounds, rest)
        | KObjsense | KObjname =>
          match mnext_line rest with
          | (None, _) => MErr EMissingObjLine
          | (Some t2, rest2) =>
            if negb (is_nil (t_key t2)) || is_nil (t_fld t2) then MErr EBadObjRecord
            else match k with
                 | KObjname => MOk (hd (x_name x) (x_max x) (Some (t_fld t2)) (x_refrow x) ANone, rest2)
                 | _ => match maxmin (t_fld t2) with
                        | Some mx => MOk (hd (x_name x) mx (x_obj x) (x_refrow x) ANone, rest2)
                        | None => MErr EBadObjsense
                        end
                 end
          end
        | KRefrow =>
          match mnext_line rest with
          | (Some t2, rest2) =>
            if is_nil (t_key t2) && negb (is_nil (t_fld t2))
            then MOk (hd (x_name x) (x_max x) (x_obj x) (Some (t_fld t2)) ANone, rest2)
            else MErr EBadRefrow
          | (None, _) => MErr EBadRefrow
          end
        end
    end.

  (* ---- the loop of ILLread_mps -------------------------------------------------------------------------------------------- *)
  Fixpoint mloop (fuel : nat) (ls : list line) (x : xraw) : mres xraw :=
    match fuel with
    | O => MFuel
    | S k =>
      match mnext_line ls with
      | (None, _) => MOk x                            (* Missing ENDATA: a warning *)
      | (Some t, rest) =>
        match t_key t with
        | [] => match line_in_section t x with
                | MOk x1 => mloop k rest x1
                | e => e
                end
        | key =>
          if leqb key (s2l "ENDATA") then MOk x
          else match read_section t rest x with
               | MOk (x1, rest1) => mloop k rest1 x1
               | MErr e => MErr e | MFlt => MFlt | MFuel => MFuel
               end
        end
      end
    end.

  (* ---- mps_fill_in + ILLrawlpdata_to_lpdata --------------------------------------------------------------------------------- *)
  Definition row_is_N (rows : list xrow) (nm : name) : bool :=
    match find (fun r => leqb (xw_name r) nm) rows with
    | Some r => match xw_sense r with None => true | Some _ => false end
    | None => false
    end.
  Fixpoint qnodup (l : list Q) : bool :=
    match l with [] => true | a :: t => negb (existsb (Qeq_bool a) t) && qnodup t end.
  Definition sos_weight (rf : option name) (c : xcol) (pos : nat) : Q :=
    match rf with
    | None => inject_Z (Z.of_nat pos)
    | Some r => match find (fun e => leqb (fst e) r) (xc_ent c) with Some e => snd e | None => 0 end
    end.
  Fixpoint number_from {A} (i : nat) (l : list A) : list (nat * A) :=
    match l with [] => [] | a :: t => (i, a) :: number_from (S i) t end.

  Definition finish (x : xraw) : mres mlp :=
    let objr :=
      match x_obj x with
      | Some on => if has_row on x then MOk on else MErr EObjNameUnknown
      | None => match find (fun r => match xw_sense r with None => true | Some _ => false end) (x_rows x) with
                | Some r => MOk (xw_name r)
                | None => MErr ENoNRow
                end
      end in
    match objr with
    | MOk on =>
      let rows := upd_row on (fun r => {| xw_name := xw_name r; xw_sense := None; xw_rhs := xw_rhs r; xw_rhsind := xw_rhsind r; xw_rng := xw_rng r |}) (x_rows x) in
      if match x_refrow x with Some rn => negb (has_row rn x) | None => false end then MErr ERefrowUnknown
      else if is_nil (x_cols x) then MErr ENoCols
      else
        let members := filter (fun c => match xc_sos c with Some _ => true | None => false end) (x_cols x) in
        let sets := map (fun si => filter (fun c => match xc_sos c with Some k => (k =? si)%nat | None => false end) (x_cols x)) (seq 0 (x_nsos x)) in
        let sos_int := (1 <? List.length members)%nat && existsb xc_int members in
        let sos_w := (1 <? List.length members)%nat &&
                     existsb (fun s => negb (qnodup (map (fun ic => sos_weight (x_refrow x) (snd ic) (fst ic)) (number_from 1 s)))) sets in
        let bnd c := fill_in M (xc_bnd c) (xc_int c) in
        if sos_int then MErr ESosInt
        else if sos_w then MErr ESosWeight
        else if existsb (fun c => Qltb (snd (bnd c)) (fst (bnd c))) (x_cols x) then MErr EBoundsCross
        else
          let used c := existsb (fun e => leqb (fst e) on || negb (row_is_N rows (fst e))) (xc_ent c) in
          let ucols := filter used (x_cols x) in
          let crows := filter (fun r => match xw_sense r with Some _ => true | None => false end) rows in
          if is_nil ucols then MErr ENoUsedCols
          else if is_nil crows then MErr ENoRows
          else if existsb (fun r => match xw_sense r, xw_rng r with None, Some _ => true | _, _ => false end) rows then MErr ERangeOnN
          else
            let mcols := map (fun c => {| mc_name := xc_name c; mc_obj := coefS (xc_ent c) on; mc_lo := fst (bnd c); mc_up := snd (bnd c);
                                          mc_int := xc_int c;
                                          mc_ent := rev (filter (fun e => negb (row_is_N rows (fst e))) (xc_ent c)) |}) ucols in
            let mrows := map (fun r => match xw_sense r, xw_rng r with
                                       | Some s, Some g => let tr := transfer (msense_of s) (xw_rhs r) g in
                                                           {| mr_name := xw_name r; mr_sense := SR; mr_rhs := fst tr; mr_range := snd tr |}
                                       | Some s, None => {| mr_name := xw_name r; mr_sense := s; mr_rhs := xw_rhs r; mr_range := 0 |}
                                       | None, _ => {| mr_name := xw_name r; mr_sense := SE; mr_rhs := 0; mr_range := 0 |}
                                       end) crows in
            MOk {| m_probname := match x_name x with Some n => n | None => s2l "unnamed" end; m_max := x_max x; m_objname := on;
                   m_intmarker := existsb mc_int mcols;
                   m_rangeval := existsb (fun r => match xw_rng r with Some _ => true | None => false end) rows;
                   m_cols := mcols; m_rows := mrows |}
    | MErr e => MErr e | MFlt => MFlt | MFuel => MFuel
    end.

  Definition read_mps_res (ls : list line) : mres mlp :=
    match mloop (S (List.length ls)) ls xraw0 with
    | MOk x => finish x
    | MErr e => MErr e | MFlt => MFlt | MFuel => MFuel
    end.

  Definition read_mps (ls : list line) : option mlp := match read_mps_res ls with MOk P => Some P | _ => None end.
End Reader.

(* ---- the problem by name (row-wise, names as numbers) of IO/Equiv.v ----------------------------------------------- *)
Definition mrow_ent (cols : list mcol) (rn : name) : list (N * Q) :=
  flat_map (fun c => flat_map (fun e => if leqb (fst e) rn then [(N_of_name (mc_name c), snd e)] else []) (mc_ent c)) cols.
Definition mlp_to_nlp (P : mlp) : nlp :=
  {| n_max := m_max P;
     n_cols := map (fun c => {| nc_name := N_of_name (mc_name c); nc_obj := mc_obj c; nc_lo := mc_lo c; nc_up := mc_up c; nc_int := mc_int c |}) (m_cols P);
     n_rows := map (fun r => {| nr_name := N_of_name (mr_name r); nr_sense := mr_sense r; nr_rhs := mr_rhs r; nr_range := mr_range r;
                               nr_ent := mrow_ent (m_cols P) (mr_name r) |}) (m_rows P) |}.

Example read_mps_example :
  let text := ["NAME    p"; "* a comment"; "OBJSENSE"; "  MAX"; "ROWS"; " N  obj"; " G  c1"; " L  c2"; " E  c3"; "COLUMNS";
               " MARK0qs      'MARKER'    'INTORG'"; "  x    obj    3   c1  1"; " MARK1qs      'MARKER'    'INTEND'";
               "  y    c1    -2/3"; "  y    c2    5  $ a comment"; "  y c3 1e1";
               "RHS"; " RHS    c1    1   obj  -7"; " RHS c3 .5"; "RANGES"; "     c1    2"; "    c3  -4";
               "BOUNDS"; " PL BOUND    x"; " MI BOUND    y"; " UP BOUND    y    4"; "ENDATA"]%string in
  match read_mps true 1000 (map s2l text) with
  | Some P => (map (fun c => (string_of_list_ascii (mc_name c), Qred (mc_obj c), mc_lo c, mc_up c, mc_int c,
                              map (fun e => (string_of_list_ascii (fst e), Qred (snd e))) (mc_ent c))) (m_cols P),
               map (fun r => (string_of_list_ascii (mr_name r), mr_sense r, Qred (mr_rhs r), Qred (mr_range r))) (m_rows P), m_max P)
  | None => ([], [], false)
  end =
  ([("x", 3, 0, 1000, true, [("c1", 1)]); ("y", 0, -1000, 4, false, [("c1", - (2 # 3)); ("c2", 5); ("c3", 10)])]%string,
   [("c1", SR, 1, 2); ("c2", SL, 0, 0); ("c3", SR, - (7 # 2), 4)]%string, true).
Proof. vm_compute. reflexivity. Qed.
