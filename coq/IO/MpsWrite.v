(* IO/MpsWrite.v -- the MPS writer ILLwrite_mps (qsopt_ex/mps.c: ILLwrite_mps, mps_write_col) at the level of lines,
   and what the reader-side semantics already modelled (IO/Ranges.v transferRanges, IO/Bounds.v the bound setters
   and ILLraw_fill_in_bounds) makes of the sections written.

   The writer walks the matrix column by column in storage order: the problem is given column-wise
   ([mc_ent] = the entries of a column by row name, in storage order).  The sections are first built as data
   ([sections_of]: ROWS, COLUMNS with the integer markers, RHS, RANGES, BOUNDS records) and then rendered;
   [write_mps] is the composition and is compared byte for byte with mpq_QSwrite_prob (.., "MPS") on every run.

   Theorems (record level, no tokenizer):
     mps_bounds_roundtrip   the BOUNDS records of a column (FX FR MI LO PL UP), applied with the reader's setters to a
                            fresh column and completed by fill_in_bounds, give back the column's bounds
     mps_range_roundtrip    an R row is written as G + RANGES entry and transferRanges makes it the same R row
     mps_markers_roundtrip  the INTORG / INTEND markers written around the columns give back the integrality marks
     mps_sections_roundtrip all sections together denote the problem written (rows without entries dropped) *)
From Coq Require Import QArith List Ascii String Bool Arith NArith Lia Lqa.
From QSX Require Import Base.QSum LP.User IO.Num IO.Bounds IO.Ranges IO.LpWrite.
Import ListNotations.
Local Open Scope Q_scope.

Record mcol := { mc_name : name; mc_obj : Q; mc_lo : Q; mc_up : Q; mc_int : bool; mc_ent : list (name * Q) }.
Record mrow := { mr_name : name; mr_sense : sense; mr_rhs : Q; mr_range : Q }.
(* m_intmarker: lp->intmarker != NULL; m_rangeval: lp->rangeval != NULL *)
Record mlp := { m_probname : name; m_max : bool; m_objname : name; m_intmarker : bool; m_rangeval : bool;
                m_cols : list mcol; m_rows : list mrow }.

Definition dec_nat (i : nat) : list ascii := print_Z (Z.of_nat i).

(* ---- sections as data ------------------------------------------------------------------------------------------- *)

Inductive mrec := MFX (v : Q) | MFR | MMI | MLO (v : Q) | MPL | MUP (v : Q).
Inductive citem :=
| CMark (i : nat) (org : bool)              (* " MARK<i>qs      'MARKER'    'INTORG'|'INTEND'" *)
| CEnt (col row : name) (v : Q).            (* "  col    row    value" *)

Record msections := { sec_name : name; sec_max : bool; sec_objname : name;
                      sec_rows : list (sense * name);           (* ROWS after the N row; R rows appear as G *)
                      sec_cols : list citem;
                      sec_rhs : list (name * Q);
                      sec_ranges : option (list (name * Q));    (* None: no RANGES section *)
                      sec_bounds : list (mrec * name) }.

Section W.
  Variable M : Q.

  (* rowcnt[i] != 0 *)
  Definition row_used (cols : list mcol) (r : mrow) : bool :=
    existsb (fun c => existsb (fun e => leqb (fst e) (mr_name r)) (mc_ent c)) cols.

  Definition mps_records (lo up : Q) (isint : bool) : list mrec :=
    if Qeq_bool lo up then [MFX lo]
    else if Qeq_bool lo (- M) && Qeq_bool up M then [MFR]
    else
      (if negb (default_lower M lo up) then [if Qeq_bool lo (- M) then MMI else MLO lo] else []) ++
      (if negb (default_upper M lo up isint) then [if Qeq_bool up M then MPL else MUP up] else []).

  (* the columns with their markers: [ri] index of the column, [intmode] the marker state *)
  Fixpoint col_items (hasint : bool) (objname : name) (cols : list mcol) (ri : nat) (intmode : bool) : list citem :=
    match cols with
    | [] => if intmode then [CMark ri false] else []
    | c :: t =>
      let flip := hasint && negb (Bool.eqb (mc_int c) intmode) in
      (if flip then [CMark ri (mc_int c)] else []) ++
      (if Qeq_bool (mc_obj c) 0 then [] else [CEnt (mc_name c) objname (mc_obj c)]) ++
      map (fun e => CEnt (mc_name c) (fst e) (snd e)) (mc_ent c) ++
      col_items hasint objname t (S ri) (if flip then mc_int c else intmode)
    end.

  Definition opt_entries (g : mrow -> option Q) (rows : list mrow) : list (name * Q) :=
    flat_map (fun r => match g r with Some v => [(mr_name r, v)] | None => [] end) rows.
  Definition rhs_entry (r : mrow) : option Q := if Qeq_bool (mr_rhs r) 0 then None else Some (mr_rhs r).
  (* an R row keeps its RANGES entry even when the range is 0; other rows get one only for a (stale) non-zero range *)
  Definition range_entry (r : mrow) : option Q :=
    match mr_sense r with
    | SR => Some (mr_range r)
    | _ => if Qeq_bool (mr_range r) 0 then None else Some (mr_range r)
    end.

  Definition sections_of (P : mlp) : msections :=
    let used := filter (row_used (m_cols P)) (m_rows P) in
    {| sec_name := m_probname P; sec_max := m_max P; sec_objname := m_objname P;
       sec_rows := map (fun r => (match mr_sense r with SR => SG | s => s end, mr_name r)) used;
       sec_cols := col_items (m_intmarker P) (m_objname P) (m_cols P) 0 false;
       sec_rhs := opt_entries rhs_entry used;
       sec_ranges := if m_rangeval P then Some (opt_entries range_entry used) else None;
       sec_bounds := flat_map (fun c => map (fun r => (r, mc_name c)) (mps_records (mc_lo c) (mc_up c) (mc_int c))) (m_cols P) |}.

  (* ---- rendering ------------------------------------------------------------------------------------------------- *)
  Definition sense_key (s : sense) : list ascii :=
    match s with SG => s2l " G  " | SL => s2l " L  " | SE => s2l " E  " | SR => s2l " G  " end.
  Definition citem_line (it : citem) : line :=
    match it with
    | CMark i org => s2l " MARK" ++ dec_nat i ++ s2l "qs      'MARKER'    '" ++ (if org then s2l "INTORG" else s2l "INTEND") ++ s2l "'"
    | CEnt c r v => s2l "  " ++ c ++ s2l "    " ++ r ++ s2l "    " ++ print_num v
    end.
  (* [bn] is the name of the BOUNDS set (the writer as found: "BOUND") *)
  Definition mrec_line_gen (bn : name) (rn : mrec * name) : line :=
    match fst rn with
    | MFX v => s2l " FX " ++ bn ++ s2l "    " ++ snd rn ++ s2l "    " ++ print_num v
    | MFR => s2l " FR " ++ bn ++ s2l "    " ++ snd rn
    | MMI => s2l " MI " ++ bn ++ s2l "    " ++ snd rn
    | MLO v => s2l " LO " ++ bn ++ s2l "    " ++ snd rn ++ s2l "    " ++ print_num v
    | MPL => s2l " PL " ++ bn ++ s2l "    " ++ snd rn
    | MUP v => s2l " UP " ++ bn ++ s2l "    " ++ snd rn ++ s2l "    " ++ print_num v
    end.
  Definition mrec_line : mrec * name -> line := mrec_line_gen (s2l "BOUND").

  (* [rh] [rg] [bn]: the names of the RHS, RANGES and BOUNDS sets *)
  Definition render_gen (rh rg bn : name) (S : msections) : list line :=
    [s2l "NAME    " ++ sec_name S; s2l "OBJSENSE"; if sec_max S then s2l "  MAX" else s2l "  MIN";
     s2l "OBJNAME"; s2l "  " ++ sec_objname S; s2l "ROWS"; s2l " N  " ++ sec_objname S] ++
    map (fun sr => sense_key (fst sr) ++ snd sr) (sec_rows S) ++
    [s2l "COLUMNS"] ++ map citem_line (sec_cols S) ++
    [s2l "RHS"] ++ map (fun e => " "%char :: rh ++ s2l "    " ++ fst e ++ s2l "    " ++ print_num (snd e)) (sec_rhs S) ++
    (match sec_ranges S with
     | Some l => s2l "RANGES" :: map (fun e => " "%char :: rg ++ s2l "    " ++ fst e ++ s2l "    " ++ print_num (snd e)) l
     | None => []
     end) ++
    (match sec_bounds S with [] => [] | l => s2l "BOUNDS" :: map (mrec_line_gen bn) l end) ++
    [s2l "ENDATA"].
  (* the writer as found: fixed set names *)
  Definition render : msections -> list line := render_gen (s2l "RHS") (s2l "RANGE") (s2l "BOUND").

  Definition write_mps (P : mlp) : list line := render (sections_of P).

  (* ---- what the reader's semantics makes of the sections -------------------------------------------------------------- *)

  (* mps_set_bound *)
  Definition apply_rec (s : bst) (r : mrec) : bst :=
    match r with
    | MFX v => apply_stmt M s (BFix v)
    | MFR => apply_stmt M s BFreeS
    | MMI => set_lower s (- M)
    | MLO v => set_lower s v
    | MPL => set_upper s M
    | MUP v => set_upper s v
    end.
  Definition decode_records (l : list mrec) (isint : bool) : Q * Q := fill_in M (fold_left apply_rec l bst0) isint.

  Theorem mps_bounds_roundtrip lo up isint :
    0 < M -> lo <= up ->
    let r := decode_records (mps_records lo up isint) isint in fst r == lo /\ snd r == up.
  Proof.
    intros HM LE. unfold decode_records, mps_records.
    destruct (Qeq_bool lo up) eqn:E1.
    { apply Qeq_bool_iff in E1. cbn. split; [reflexivity|exact E1]. }
    destruct (Qeq_bool lo (- M) && Qeq_bool up M) eqn:E2.
    { apply andb_true_iff in E2. destruct E2 as [A B]. apply Qeq_bool_iff in A, B. cbn. split; symmetry; assumption. }
    unfold default_lower, default_upper.
    destruct (Qeq_bool lo 0) eqn:L0; destruct (Qltb up 0) eqn:U0; destruct (Qeq_bool lo (- M)) eqn:LM;
      destruct isint; destruct (Qeq_bool up 1) eqn:U1; destruct (Qeq_bool up M) eqn:UM;
      cbn -[Qltb]; rewrite ?U0; cbn;
      repeat match goal with
             | H : Qeq_bool _ _ = true |- _ => apply Qeq_bool_iff in H
             | H : Qeq_bool _ _ = false |- _ => apply Qeq_bool_neq in H
             | H : Qltb _ _ = true |- _ => apply Qltb_lt in H
             | H : Qltb _ _ = false |- _ => apply Qltb_false in H
             end;
      try (split; (reflexivity || (symmetry; assumption) || lra));
      try (exfalso; lra);
      try (destruct (Qltb M 0) eqn:MM; [apply Qltb_lt in MM; lra|]; cbn; split; (reflexivity || (symmetry; assumption) || lra)).
  Qed.

  (* an R row (rhs, range >= 0) is written as a G row with RANGES entry [range]; transferRanges gives it back *)
  Theorem mps_range_roundtrip rhs g : 0 <= g -> fst (transfer MG rhs g) == rhs /\ snd (transfer MG rhs g) == g.
  Proof. intros G. simpl. split; [reflexivity|]. now apply Qabs_pos. Qed.

  (* the markers: columns between INTORG and INTEND are integer *)
  Fixpoint marks_denote (its : list citem) (intmode : bool) (seen : list name) : list (name * bool) :=
    match its with
    | [] => []
    | CMark _ org :: t => marks_denote t org seen
    | CEnt c _ _ :: t =>
      if existsb (leqb c) seen then marks_denote t intmode seen else (c, intmode) :: marks_denote t intmode (c :: seen)
    end.

  Lemma marks_skip c mode seen ents : existsb (leqb c) seen = true -> forall rest,
    marks_denote (map (fun e => CEnt c (fst e) (snd e)) ents ++ rest) mode seen = marks_denote rest mode seen.
  Proof.
    intros IN. induction ents as [|e ents IH]; intros rest; [reflexivity|]. cbn [map app marks_denote]. rewrite IN. apply IH.
  Qed.

  (* a column that has something to print: an objective coefficient or an entry *)
  Definition col_nonempty (c : mcol) : bool := negb (Qeq_bool (mc_obj c) 0) || match mc_ent c with [] => false | _ => true end.

  Theorem mps_markers_roundtrip hasint objname : forall cols ri mode seen,
    (hasint = true \/ (mode = false /\ forallb (fun c => negb (mc_int c)) cols = true)) ->
    forallb col_nonempty cols = true ->
    NoDup (map mc_name cols) -> (forall c, In c cols -> existsb (leqb (mc_name c)) seen = false) ->
    marks_denote (col_items hasint objname cols ri mode) mode seen = map (fun c => (mc_name c, mc_int c)) cols.
  Proof.
    induction cols as [|c cols IH]; intros ri mode seen HI NE ND FR.
    - cbn [col_items map]. destruct mode; reflexivity.
    - cbn [forallb] in NE. apply andb_true_iff in NE. destruct NE as [NEc NE].
      inversion ND as [|? ? NI ND']; subst.
      cbn [col_items map].
      set (flip := hasint && negb (Bool.eqb (mc_int c) mode)).
      set (mode' := if flip then mc_int c else mode).
      assert (MI : mode' = mc_int c).
      { unfold mode', flip. destruct HI as [->|[-> ALL]].
        - cbn [andb]. destruct (mc_int c), mode; reflexivity.
        - cbn [forallb] in ALL. apply andb_true_iff in ALL. destruct ALL as [A _]. apply negb_true_iff in A. rewrite A.
          destruct hasint; reflexivity. }
      assert (HEAD : forall its, marks_denote ((if flip then [CMark ri (mc_int c)] else []) ++ its) mode seen = marks_denote its mode' seen).
      { intros its. unfold mode'. destruct flip; reflexivity. }
      rewrite HEAD.
      assert (NS : existsb (leqb (mc_name c)) seen = false) by (apply FR; now left).
      assert (SEEN' : existsb (leqb (mc_name c)) (mc_name c :: seen) = true) by (cbn [existsb]; now rewrite leqb_refl).
      assert (REST : marks_denote (col_items hasint objname cols (S ri) mode') mode' (mc_name c :: seen) = map (fun c0 => (mc_name c0, mc_int c0)) cols).
      { apply IH; auto.
        - destruct HI as [->|[-> ALL]]; [now left|right]. cbn [forallb] in ALL. apply andb_true_iff in ALL. destruct ALL as [A B].
          split; [|exact B]. rewrite MI. now apply negb_true_iff in A.
        - intros c0 IN. cbn [existsb]. rewrite (FR c0 (or_intror IN)), orb_false_r.
          destruct (leqb_spec (mc_name c0) (mc_name c)) as [E|E]; [|reflexivity]. exfalso. apply NI. rewrite <- E. now apply in_map. }
      unfold col_nonempty in NEc.
      destruct (Qeq_bool (mc_obj c) 0) eqn:Z; cbn [negb orb] in NEc.
      + destruct (mc_ent c) as [|e ents]; [discriminate|]. cbn [app map marks_denote]. rewrite NS.
        rewrite (marks_skip _ _ _ ents SEEN'), REST, MI. reflexivity.
      + cbn [app marks_denote]. rewrite NS. rewrite (marks_skip _ _ _ (mc_ent c) SEEN'), REST, MI. reflexivity.
  Qed.

  (* ---- rows ---------------------------------------------------------------------------------------------------------------- *)
  Fixpoint lookupQ (k : name) (l : list (name * Q)) : option Q :=
    match l with [] => None | (n, v) :: t => if leqb n k then Some v else lookupQ k t end.
  Definition msense_of (s : sense) : msense := match s with SL => ML | SG => MG | SE => ME | SR => MG end.
  (* the row the reader builds: RHS entry or 0; with a RANGES entry the row becomes ranged (transferRanges) *)
  Definition denote_row (S : msections) (sr : sense * name) : mrow :=
    let rhs := match lookupQ (snd sr) (sec_rhs S) with Some v => v | None => 0 end in
    match (match sec_ranges S with Some l => lookupQ (snd sr) l | None => None end) with
    | Some r => let t := transfer (msense_of (fst sr)) rhs r in
                {| mr_name := snd sr; mr_sense := SR; mr_rhs := fst t; mr_range := snd t |}
    | None => {| mr_name := snd sr; mr_sense := fst sr; mr_rhs := rhs; mr_range := 0 |}
    end.

  Lemma lookup_opt_entries g : forall rows r, NoDup (map mr_name rows) -> In r rows ->
    lookupQ (mr_name r) (opt_entries g rows) = g r.
  Proof.
    induction rows as [|r0 rows IH]; intros r ND IN; [destruct IN|]. inversion ND as [|? ? NI ND']; subst.
    unfold opt_entries in *. cbn [flat_map].
    assert (NOTIN : forall l, ~ In (mr_name r0) (map mr_name l) ->
              lookupQ (mr_name r0) (flat_map (fun r1 => match g r1 with Some v => [(mr_name r1, v)] | None => [] end) l) = None).
    { induction l as [|a l IHl]; intros H; [reflexivity|]. cbn [flat_map]. cbn [map In] in H.
      destruct (g a); cbn [app lookupQ]; [|apply IHl; tauto].
      destruct (leqb_spec (mr_name a) (mr_name r0)) as [E|E]; [exfalso; apply H; now left|apply IHl; tauto]. }
    destruct IN as [<-|IN].
    - destruct (g r0); cbn [app lookupQ]; [now rewrite leqb_refl|now apply NOTIN].
    - destruct (g r0); cbn [app lookupQ]; [|now apply IH].
      destruct (leqb_spec (mr_name r0) (mr_name r)) as [E|E]; [|now apply IH]. exfalso. apply NI. rewrite E. now apply in_map.
  Qed.

  Definition row_same_q (r r' : mrow) : Prop :=
    mr_name r = mr_name r' /\ mr_sense r = mr_sense r' /\ mr_rhs r == mr_rhs r' /\ (mr_sense r = SR -> mr_range r == mr_range r').

  Definition rows_wf (P : mlp) : Prop :=
    NoDup (map mr_name (m_rows P)) /\
    (forall r, In r (m_rows P) -> match mr_sense r with SR => 0 <= mr_range r /\ m_rangeval P = true | _ => mr_range r == 0 end).

  Theorem mps_rows_roundtrip P : rows_wf P ->
    Forall2 row_same_q (filter (row_used (m_cols P)) (m_rows P))
            (map (denote_row (sections_of P)) (sec_rows (sections_of P))).
  Proof.
    intros (ND & WF). cbn [sections_of sec_rows]. set (used := filter (row_used (m_cols P)) (m_rows P)).
    assert (NDU : NoDup (map mr_name used)).
    { unfold used. clear WF. induction (m_rows P) as [|r l IH]; [constructor|]. cbn [map] in ND. inversion ND as [|? ? NI ND']; subst. cbn [filter].
      destruct (row_used (m_cols P) r); [|now apply IH]. cbn [map]. constructor; [|now apply IH].
      intros H. apply NI. apply in_map_iff in H. destruct H as (x & E & IN). apply filter_In in IN. rewrite <- E. apply in_map, IN. }
    assert (SUB : forall r, In r used -> In r (m_rows P)) by (intros r IN; apply filter_In in IN; apply IN).
    rewrite map_map.
    assert (G : forall l, (forall r, In r l -> In r used) ->
              Forall2 row_same_q l (map (fun r => denote_row (sections_of P) (match mr_sense r with SR => SG | s0 => s0 end, mr_name r)) l)).
    { induction l as [|r l IH]; intros INC; [constructor|]. cbn [map]. constructor; [|apply IH; intros; apply INC; now right].
      assert (INr : In r used) by (apply INC; now left).
      unfold denote_row. cbn [sections_of sec_rhs sec_ranges fst snd]. fold used.
      rewrite (lookup_opt_entries rhs_entry used r NDU INr).
      pose proof (WF r (SUB r INr)) as W.
      assert (RHS : match rhs_entry r with Some v => v | None => 0 end == mr_rhs r).
      { unfold rhs_entry. destruct (Qeq_bool (mr_rhs r) 0) eqn:Z; [apply Qeq_bool_iff in Z; now symmetry|reflexivity]. }
      destruct (mr_sense r) eqn:ES.
      - destruct (m_rangeval P); [rewrite (lookup_opt_entries range_entry used r NDU INr); unfold range_entry; rewrite ES|];
          try (rewrite (proj2 (Qeq_bool_iff _ _) W)); unfold row_same_q; cbn; rewrite ES; repeat split; auto; try (symmetry; exact RHS); discriminate.
      - destruct (m_rangeval P); [rewrite (lookup_opt_entries range_entry used r NDU INr); unfold range_entry; rewrite ES|];
          try (rewrite (proj2 (Qeq_bool_iff _ _) W)); unfold row_same_q; cbn; rewrite ES; repeat split; auto; try (symmetry; exact RHS); discriminate.
      - destruct (m_rangeval P); [rewrite (lookup_opt_entries range_entry used r NDU INr); unfold range_entry; rewrite ES|];
          try (rewrite (proj2 (Qeq_bool_iff _ _) W)); unfold row_same_q; cbn; rewrite ES; repeat split; auto; try (symmetry; exact RHS); discriminate.
      - destruct W as [W1 W2]. rewrite W2, (lookup_opt_entries range_entry used r NDU INr). unfold range_entry. rewrite ES.
        unfold row_same_q. cbn. rewrite ES. repeat split; auto; [symmetry; exact RHS|]. intros _. symmetry. now apply Qabs_pos. }
    apply G. auto.
  Qed.

  (* ---- columns -------------------------------------------------------------------------------------------------------------- *)
  Definition records_of (S : msections) (nm : name) : list mrec :=
    map fst (filter (fun rn => leqb (snd rn) nm) (sec_bounds S)).
  Definition ents_of (S : msections) (nm : name) : list (name * Q) :=
    flat_map (fun it => match it with CEnt c r v => if leqb c nm then [(r, v)] else [] | CMark _ _ => [] end) (sec_cols S).
  (* the column the reader builds from the COLUMNS entries, the markers and the BOUNDS records *)
  Definition denote_col (S : msections) (ni : name * bool) : mcol :=
    let es := ents_of S (fst ni) in
    let b := decode_records (records_of S (fst ni)) (snd ni) in
    {| mc_name := fst ni; mc_obj := coefS es (sec_objname S); mc_lo := fst b; mc_up := snd b; mc_int := snd ni;
       mc_ent := filter (fun e => negb (leqb (fst e) (sec_objname S))) es |}.

  Definition col_same_q (c c' : mcol) : Prop :=
    mc_name c = mc_name c' /\ mc_obj c == mc_obj c' /\ mc_lo c == mc_lo c' /\ mc_up c == mc_up c' /\
    mc_int c = mc_int c' /\ mc_ent c = mc_ent c'.

  Lemma records_of_col (cols : list mcol) c : NoDup (map mc_name cols) -> In c cols ->
    map fst (filter (fun rn => leqb (snd rn) (mc_name c))
                    (flat_map (fun c0 => map (fun r => (r, mc_name c0)) (mps_records (mc_lo c0) (mc_up c0) (mc_int c0))) cols))
    = mps_records (mc_lo c) (mc_up c) (mc_int c).
  Proof.
    intros ND IN. induction cols as [|c0 cols IH]; [destruct IN|]. inversion ND as [|? ? NI ND']; subst.
    cbn [flat_map]. rewrite filter_app, map_app. unfold name in *.
    assert (OWN : forall (n : list ascii) (l : list mrec), map fst (filter (fun rn : mrec * list ascii => leqb (snd rn) n) (map (fun r => (r, n)) l)) = l).
    { intros n l. induction l as [|r l IHl]; [reflexivity|]. cbn [map filter snd]. rewrite leqb_refl. cbn [map fst]. now rewrite IHl. }
    assert (OTHER : forall (n m : list ascii) (l : list mrec), n <> m -> filter (fun rn : mrec * list ascii => leqb (snd rn) n) (map (fun r => (r, m)) l) = []).
    { intros n m l NE. induction l as [|r l IHl]; [reflexivity|]. cbn [map filter snd].
      destruct (leqb_spec m n); [congruence|exact IHl]. }
    assert (NONE : forall l, ~ In (mc_name c0) (map mc_name l) ->
              filter (fun rn : mrec * list ascii => leqb (snd rn) (mc_name c0))
                     (flat_map (fun c1 => map (fun r => (r, mc_name c1)) (mps_records (mc_lo c1) (mc_up c1) (mc_int c1))) l) = []).
    { induction l as [|a l IHl]; intros H; [reflexivity|]. cbn [flat_map]. rewrite filter_app.
      match goal with |- ?x ++ ?y = [] => assert (EX : x = []); [|assert (EY : y = []); [|rewrite EX, EY; reflexivity]] end.
      - apply OTHER. intros E. apply H. left. symmetry. exact E.
      - apply IHl. intros X. apply H. right. exact X. }
    destruct IN as [<-|IN].
    - match goal with |- ?x ++ map fst ?y = _ => assert (EX : x = mps_records (mc_lo c0) (mc_up c0) (mc_int c0)); [apply OWN|];
                                                  assert (EY : y = []); [apply (NONE cols NI)|]; rewrite EX, EY; apply app_nil_r end.
    - match goal with |- map fst ?x ++ ?y = _ => assert (EX : x = []); [|assert (EY : y = mps_records (mc_lo c) (mc_up c) (mc_int c)); [apply (IH ND' IN)|rewrite EX, EY; reflexivity]] end.
      apply OTHER. intros E. apply NI. rewrite <- E. now apply in_map.
  Qed.

  Lemma ents_of_col hasint objname : forall cols ri mode c, NoDup (map mc_name cols) -> In c cols ->
    flat_map (fun it => match it with CEnt c0 r v => if leqb c0 (mc_name c) then [(r, v)] else [] | CMark _ _ => [] end)
             (col_items hasint objname cols ri mode)
    = (if Qeq_bool (mc_obj c) 0 then [] else [(objname, mc_obj c)]) ++ mc_ent c.
  Proof.
    induction cols as [|c0 cols IH]; intros ri mode c ND IN; [destruct IN|]. inversion ND as [|? ? NI ND']; subst.
    cbn [col_items]. rewrite !flat_map_app.
    set (F := fun it => match it with CEnt c1 r v => if leqb c1 (mc_name c) then [(r, v)] else [] | CMark _ _ => [] end).
    assert (MK : flat_map F (if hasint && negb (Bool.eqb (mc_int c0) mode) then [CMark ri (mc_int c0)] else []) = [])
      by (destruct (hasint && negb (Bool.eqb (mc_int c0) mode)); reflexivity).
    rewrite MK. cbn [app].
    assert (NONE : forall l ri' mode', ~ In (mc_name c) (map mc_name l) -> flat_map F (col_items hasint objname l ri' mode') = []).
    { induction l as [|a l IHl]; intros ri' mode' H.
      - cbn [col_items]. destruct mode'; reflexivity.
      - cbn [col_items map In] in *. rewrite !flat_map_app, IHl by tauto.
        assert (NE : leqb (mc_name a) (mc_name c) = false) by (destruct (leqb_spec (mc_name a) (mc_name c)); [exfalso; apply H; now left|reflexivity]).
        replace (flat_map F (if hasint && negb (Bool.eqb (mc_int a) mode') then [CMark ri' (mc_int a)] else [])) with (@nil (name * Q))
          by (destruct (hasint && negb (Bool.eqb (mc_int a) mode')); reflexivity).
        replace (flat_map F (if Qeq_bool (mc_obj a) 0 then [] else [CEnt (mc_name a) objname (mc_obj a)])) with (@nil (name * Q))
          by (destruct (Qeq_bool (mc_obj a) 0); [reflexivity|cbn; now rewrite NE]).
        replace (flat_map F (map (fun e => CEnt (mc_name a) (fst e) (snd e)) (mc_ent a))) with (@nil (name * Q)); [reflexivity|].
        induction (mc_ent a) as [|e l0 IH0]; [reflexivity|]. cbn [map flat_map F]. rewrite NE. exact IH0. }
    destruct IN as [<-|IN].
    - rewrite (NONE cols _ _ NI), app_nil_r. f_equal.
      + destruct (Qeq_bool (mc_obj c0) 0); [reflexivity|]. cbn. now rewrite leqb_refl.
      + induction (mc_ent c0) as [|e l0 IH0]; [reflexivity|]. cbn [map flat_map F]. rewrite leqb_refl. cbn [app]. destruct e. cbn [fst snd]. now rewrite IH0.
    - assert (NE : leqb (mc_name c0) (mc_name c) = false).
      { destruct (leqb_spec (mc_name c0) (mc_name c)) as [E|E]; [|reflexivity]. exfalso. apply NI. rewrite E. now apply in_map. }
      replace (flat_map F (if Qeq_bool (mc_obj c0) 0 then [] else [CEnt (mc_name c0) objname (mc_obj c0)])) with (@nil (name * Q))
        by (destruct (Qeq_bool (mc_obj c0) 0); [reflexivity|cbn; now rewrite NE]).
      replace (flat_map F (map (fun e => CEnt (mc_name c0) (fst e) (snd e)) (mc_ent c0))) with (@nil (name * Q)).
      + cbn [app]. apply (IH _ _ c ND' IN).
      + induction (mc_ent c0) as [|e l0 IH0]; [reflexivity|]. cbn [map flat_map F]. rewrite NE. exact IH0.
  Qed.

  Definition cols_wf (P : mlp) : Prop :=
    NoDup (map mc_name (m_cols P)) /\
    (forall c, In c (m_cols P) -> mc_lo c <= mc_up c /\ forallb (fun e => negb (leqb (fst e) (m_objname P))) (mc_ent c) = true) /\
    forallb col_nonempty (m_cols P) = true /\
    (m_intmarker P = true \/ forallb (fun c => negb (mc_int c)) (m_cols P) = true).

  (* all sections together: what the reader-side semantics builds from them is the problem written (rows without
     entries dropped), every number equal as a rational *)
  Theorem mps_sections_roundtrip P : 0 < M -> cols_wf P -> rows_wf P ->
    let S := sections_of P in
    Forall2 col_same_q (m_cols P) (map (denote_col S) (marks_denote (sec_cols S) false [])) /\
    Forall2 row_same_q (filter (row_used (m_cols P)) (m_rows P)) (map (denote_row S) (sec_rows S)).
  Proof.
    intros HM (ND & CW & NE & HI) RW. cbv zeta. split; [|apply mps_rows_roundtrip, RW].
    change (sec_cols (sections_of P)) with (col_items (m_intmarker P) (m_objname P) (m_cols P) 0 false).
    match goal with |- Forall2 _ _ (map _ ?x) => assert (EM : x = map (fun c => (mc_name c, mc_int c)) (m_cols P)) end.
    { apply mps_markers_roundtrip; auto. destruct HI as [H|H]; [now left|right; auto]. }
    rewrite EM.
    rewrite map_map.
    assert (G : forall l, (forall c, In c l -> In c (m_cols P)) ->
              Forall2 col_same_q l (map (fun c => denote_col (sections_of P) (mc_name c, mc_int c)) l)).
    { induction l as [|c l IH]; intros INC; [constructor|]. cbn [map]. constructor; [|apply IH; intros; apply INC; now right].
      assert (INc : In c (m_cols P)) by (apply INC; now left). destruct (CW c INc) as [LE NOBJ].
      unfold denote_col, records_of, ents_of. cbn [sections_of sec_bounds sec_cols sec_objname fst snd].
      rewrite (records_of_col (m_cols P) c ND INc), (ents_of_col (m_intmarker P) (m_objname P) (m_cols P) 0 false c ND INc).
      pose proof (mps_bounds_roundtrip (mc_lo c) (mc_up c) (mc_int c) HM LE) as [BL BU].
      assert (NOOBJ : coefS (mc_ent c) (m_objname P) == 0).
      { clear - NOBJ. induction (mc_ent c) as [|e l IH]; [reflexivity|]. cbn [forallb] in NOBJ. apply andb_true_iff in NOBJ. destruct NOBJ as [A B].
        cbn [coefS fold_right]. apply negb_true_iff in A. rewrite A. unfold coefS in IH. rewrite (IH B). ring. }
      assert (FIL : filter (fun e : name * Q => negb (leqb (fst e) (m_objname P))) (mc_ent c) = mc_ent c).
      { clear - NOBJ. induction (mc_ent c) as [|e l IH]; [reflexivity|]. cbn [forallb] in NOBJ. apply andb_true_iff in NOBJ. destruct NOBJ as [A B].
        destruct e as [n0 v0]. cbn [fst] in A. cbn [filter fst]. rewrite A. now rewrite (IH B). }
      unfold col_same_q. cbn [mc_name mc_obj mc_lo mc_up mc_int mc_ent]. repeat split; try (symmetry; assumption).
      - destruct (Qeq_bool (mc_obj c) 0) eqn:Z; cbn [app].
        + rewrite NOOBJ. now apply Qeq_bool_iff in Z.
        + cbn [coefS fold_right fst snd]. rewrite leqb_refl. unfold coefS in NOOBJ. rewrite NOOBJ. ring.
      - destruct (Qeq_bool (mc_obj c) 0); cbn [app filter fst]; [symmetry; exact FIL|]. rewrite leqb_refl. cbn [negb]. symmetry. exact FIL. }
    apply G. auto.
  Qed.
End W.

Example write_mps_example :
  let c1 := {| mc_name := s2l "x"; mc_obj := 3; mc_lo := 0; mc_up := 1000; mc_int := true; mc_ent := [(s2l "c1", 1)] |} in
  let c2 := {| mc_name := s2l "y"; mc_obj := 0; mc_lo := -1000; mc_up := 4; mc_int := false; mc_ent := [(s2l "c1", -2 # 3); (s2l "c2", 5)] |} in
  let r1 := {| mr_name := s2l "c1"; mr_sense := SR; mr_rhs := 1; mr_range := 2 |} in
  let r2 := {| mr_name := s2l "c2"; mr_sense := SL; mr_rhs := 0; mr_range := 0 |} in
  let r3 := {| mr_name := s2l "unused"; mr_sense := SE; mr_rhs := 7; mr_range := 0 |} in
  let P := {| m_probname := s2l "p"; m_max := false; m_objname := s2l "obj"; m_intmarker := true; m_rangeval := true;
              m_cols := [c1; c2]; m_rows := [r1; r2; r3] |} in
  map string_of_list_ascii (write_mps 1000 P) =
  ["NAME    p"; "OBJSENSE"; "  MIN"; "OBJNAME"; "  obj"; "ROWS"; " N  obj"; " G  c1"; " L  c2"; "COLUMNS";
   " MARK0qs      'MARKER'    'INTORG'"; "  x    obj    3"; "  x    c1    1";
   " MARK1qs      'MARKER'    'INTEND'"; "  y    c1    -2/3"; "  y    c2    5";
   "RHS"; " RHS    c1    1"; "RANGES"; " RANGE    c1    2";
   "BOUNDS"; " PL BOUND    x"; " MI BOUND    y"; " UP BOUND    y    4"; "ENDATA"]%string /\
  cols_wf P /\ rows_wf P.
Proof.
  cbv zeta. split; [vm_compute; reflexivity|]. split.
  - unfold cols_wf. cbn [m_cols m_objname m_intmarker]. split; [repeat constructor; cbn; intuition discriminate|].
    split; [|split; [reflexivity|now left]].
    intros c [<-|[<-|[]]]; (split; [unfold Qle; cbn; lia|reflexivity]).
  - unfold rows_wf. cbn [m_rows m_rangeval]. split; [repeat constructor; cbn; intuition discriminate|].
    intros r [<-|[<-|[<-|[]]]]; cbn; (reflexivity || (split; [unfold Qle; cbn; lia|reflexivity])).
Qed.
