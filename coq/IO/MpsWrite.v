(* IO/MpsWrite.v -- the MPS writer ILLwrite_mps (qsopt_ex/mps.c: ILLwrite_mps, mps_write_col) at the level of lines,
   and what the reader-side semantics already modelled (IO/Ranges.v transferRanges, IO/Bounds.v the bound setters
   and ILLraw_fill_in_bounds) makes of the sections written.

   The writer walks the matrix column by column in storage order: the problem is given column-wise
   ([mc_ent] = the entries of a column by row name, in storage order).  The sections are first built as data
   ([sections_of]: ROWS, COLUMNS with the integer markers, RHS, RANGES, BOUNDS records) and then rendered;
   [write_mps] is the composition and is compared byte for byte with mpq_QSwrite_prob (.., "MPS") on every run.

   Theorems (record level, no tokenizer):
     mps_bounds_roundtrip   the BOUNDS records of a column (FX FR MI LO PL UP), applied with the reader's setters to a
                            fresh column and completed by fill_in_bounds, give back the column's bounds
     mps_range_roundtrip    an R row is written as G + RANGES entry and transferRanges makes it the same R row
     mps_markers_roundtrip  the INTORG / INTEND markers written around the columns give back the integrality marks
     mps_sections_roundtrip all sections together denote the problem written (rows without entries dropped) *)
From Coq Require Import QArith List Ascii String Bool Arith NArith Lia Lqa.
From QSX Require Import Base.QSum LP.User IO.Num IO.Bounds IO.Ranges IO.LpWrite.
Import ListNotations.
Local Open Scope Q_scope.

Record mcol := { mc_name : name; mc_obj : Q; mc_lo : Q; mc_up : Q; mc_int : bool; mc_ent : list (name * Q) }.
Record mrow := { mr_name : name; mr_sense : sense; mr_rhs : Q; mr_range : Q }.
(* m_intmarker: lp->intmarker != NULL; m_rangeval: lp->rangeval != NULL *)
Record mlp := { m_probname : name; m_max : bool; m_objname : name; m_intmarker : bool; m_rangeval : bool;
                m_cols : list mcol; m_rows : list mrow }.

Definition dec_nat (i : nat) : list ascii := print_Z (Z.of_nat i).

(* ---- sections as data ------------------------------------------------------------------------------------------- *)

Inductive mrec := MFX (v : Q) | MFR | MMI | MLO (v : Q) | MPL | MUP (v : Q).
Inductive citem :=
| CMark (i : nat) (org : bool)              (* " MARK<i>qs      'MARKER'    'INTORG'|'INTEND'" *)
| CEnt (col row : name) (v : Q).            (* "  col    row    value" *)

Record msections := { sec_name : name; sec_max : bool; sec_objname : name;
                      sec_rows : list (sense * name);           (* ROWS after the N row; R rows appear as G *)
                      sec_cols : list citem;
                      sec_rhs : list (name * Q);
                      sec_ranges : option (list (name * Q));    (* None: no RANGES section *)
                      sec_bounds : list (mrec * name) }.

Section W.
  Variable M : Q.

  (* rowcnt[i] != 0 *)
  Definition row_used (cols : list mcol) (r : mrow) : bool :=
    existsb (fun c => existsb (fun e => leqb (fst e) (mr_name r)) (mc_ent c)) cols.

  Definition mps_records (lo up : Q) (isint : bool) : list mrec :=
    if Qeq_bool lo up then [MFX lo]
    else if Qeq_bool lo (- M) && Qeq_bool up M then [MFR]
    else
      (if negb (default_lower M lo up) then [if Qeq_bool lo (- M) then MMI else MLO lo] else []) ++
      (if negb (default_upper M lo up isint) then [if Qeq_bool up M then MPL else MUP up] else []).

  (* the columns with their markers: [ri] index of the column, [intmode] the marker state *)
  Fixpoint col_items (hasint : bool) (objname : name) (cols : list mcol) (ri : nat) (intmode : bool) : list citem :=
    match cols with
    | [] => if intmode then [CMark ri false] else []
    | c :: t =>
      let flip := hasint && negb (Bool.eqb (mc_int c) intmode) in
      (if flip then [CMark ri (mc_int c)] else []) ++
      (if Qeq_bool (mc_obj c) 0 then [] else [CEnt (mc_name c) objname (mc_obj c)]) ++
      map (fun e => CEnt (mc_name c) (fst e) (snd e)) (mc_ent c) ++
      col_items hasint objname t (S ri) (if flip then mc_int c else intmode)
    end.

  Definition sections_of (P : mlp) : msections :=
    let used := filter (row_used (m_cols P)) (m_rows P) in
    {| sec_name := m_probname P; sec_max := m_max P; sec_objname := m_objname P;
       sec_rows := map (fun r => (match mr_sense r with SR => SG | s => s end, mr_name r)) used;
       sec_cols := col_items (m_intmarker P) (m_objname P) (m_cols P) 0 false;
       sec_rhs := flat_map (fun r => if Qeq_bool (mr_rhs r) 0 then [] else [(mr_name r, mr_rhs r)]) used;
       sec_ranges := if m_rangeval P
                     then Some (flat_map (fun r => match mr_sense r with
                                                   | SR => [(mr_name r, mr_range r)]
                                                   | _ => if Qeq_bool (mr_range r) 0 then [] else [(mr_name r, mr_range r)]
                                                   end) used)
                     else None;
       sec_bounds := flat_map (fun c => map (fun r => (r, mc_name c)) (mps_records (mc_lo c) (mc_up c) (mc_int c))) (m_cols P) |}.

  (* ---- rendering ------------------------------------------------------------------------------------------------- *)
  Definition sense_key (s : sense) : list ascii :=
    match s with SG => s2l " G  " | SL => s2l " L  " | SE => s2l " E  " | SR => s2l " G  " end.
  Definition citem_line (it : citem) : line :=
    match it with
    | CMark i org => s2l " MARK" ++ dec_nat i ++ s2l "qs      'MARKER'    '" ++ (if org then s2l "INTORG" else s2l "INTEND") ++ s2l "'"
    | CEnt c r v => s2l "  " ++ c ++ s2l "    " ++ r ++ s2l "    " ++ print_num v
    end.
  Definition mrec_line (rn : mrec * name) : line :=
    match fst rn with
    | MFX v => s2l " FX BOUND    " ++ snd rn ++ s2l "    " ++ print_num v
    | MFR => s2l " FR BOUND    " ++ snd rn
    | MMI => s2l " MI BOUND    " ++ snd rn
    | MLO v => s2l " LO BOUND    " ++ snd rn ++ s2l "    " ++ print_num v
    | MPL => s2l " PL BOUND    " ++ snd rn
    | MUP v => s2l " UP BOUND    " ++ snd rn ++ s2l "    " ++ print_num v
    end.

  Definition render (S : msections) : list line :=
    [s2l "NAME    " ++ sec_name S; s2l "OBJSENSE"; if sec_max S then s2l "  MAX" else s2l "  MIN";
     s2l "OBJNAME"; s2l "  " ++ sec_objname S; s2l "ROWS"; s2l " N  " ++ sec_objname S] ++
    map (fun sr => sense_key (fst sr) ++ snd sr) (sec_rows S) ++
    [s2l "COLUMNS"] ++ map citem_line (sec_cols S) ++
    [s2l "RHS"] ++ map (fun e => s2l " RHS    " ++ fst e ++ s2l "    " ++ print_num (snd e)) (sec_rhs S) ++
    (match sec_ranges S with
     | Some l => s2l "RANGES" :: map (fun e => s2l " RANGE    " ++ fst e ++ s2l "    " ++ print_num (snd e)) l
     | None => []
     end) ++
    (match sec_bounds S with [] => [] | l => s2l "BOUNDS" :: map mrec_line l end) ++
    [s2l "ENDATA"].

  Definition write_mps (P : mlp) : list line := render (sections_of P).

  (* ---- what the reader's semantics makes of the sections -------------------------------------------------------------- *)

  (* mps_set_bound *)
  Definition apply_rec (s : bst) (r : mrec) : bst :=
    match r with
    | MFX v => apply_stmt M s (BFix v)
    | MFR => apply_stmt M s BFreeS
    | MMI => set_lower s (- M)
    | MLO v => set_lower s v
    | MPL => set_upper s M
    | MUP v => set_upper s v
    end.
  Definition decode_records (l : list mrec) (isint : bool) : Q * Q := fill_in M (fold_left apply_rec l bst0) isint.

  Theorem mps_bounds_roundtrip lo up isint :
    0 < M -> lo <= up ->
    let r := decode_records (mps_records lo up isint) isint in fst r == lo /\ snd r == up.
  Proof.
    intros HM LE. unfold decode_records, mps_records.
    destruct (Qeq_bool lo up) eqn:E1.
    { apply Qeq_bool_iff in E1. cbn. split; [reflexivity|exact E1]. }
    destruct (Qeq_bool lo (- M) && Qeq_bool up M) eqn:E2.
    { apply andb_true_iff in E2. destruct E2 as [A B]. apply Qeq_bool_iff in A, B. cbn. split; symmetry; assumption. }
    unfold default_lower, default_upper.
    destruct (Qeq_bool lo 0) eqn:L0; destruct (Qltb up 0) eqn:U0; destruct (Qeq_bool lo (- M)) eqn:LM;
      destruct isint; destruct (Qeq_bool up 1) eqn:U1; destruct (Qeq_bool up M) eqn:UM;
      cbn -[Qltb]; rewrite ?U0; cbn;
      repeat match goal with
             | H : Qeq_bool _ _ = true |- _ => apply Qeq_bool_iff in H
             | H : Qeq_bool _ _ = false |- _ => apply Qeq_bool_neq in H
             | H : Qltb _ _ = true |- _ => apply Qltb_lt in H
             | H : Qltb _ _ = false |- _ => apply Qltb_false in H
             end;
      try (split; (reflexivity || (symmetry; assumption) || lra));
      try (exfalso; lra);
      try (destruct (Qltb M 0) eqn:MM; [apply Qltb_lt in MM; lra|]; cbn; split; (reflexivity || (symmetry; assumption) || lra)).
  Qed.

  (* an R row (rhs, range >= 0) is written as a G row with RANGES entry [range]; transferRanges gives it back *)
  Theorem mps_range_roundtrip rhs g : 0 <= g -> fst (transfer MG rhs g) == rhs /\ snd (transfer MG rhs g) == g.
  Proof. intros G. simpl. split; [reflexivity|]. now apply Qabs_pos. Qed.

  (* the markers: columns between INTORG and INTEND are integer *)
  Fixpoint marks_denote (its : list citem) (intmode : bool) (seen : list name) : list (name * bool) :=
    match its with
    | [] => []
    | CMark _ org :: t => marks_denote t org seen
    | CEnt c _ _ :: t =>
      if existsb (leqb c) seen then marks_denote t intmode seen else (c, intmode) :: marks_denote t intmode (c :: seen)
    end.
End W.
