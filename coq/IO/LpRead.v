(* IO/LpRead.v -- the LP reader (qsopt_ex/read_lp.c: the line-oriented tokenizer ILLread_lp_state_xxx;
   qsopt_ex/lp.c: ILLread_lp, read_problem_name, read_minmax, read_objective, ILLread_constraint_expr,
   read_constraints, read_bounds, read_integer; qsopt_ex/rawlp.c: the raw problem, ILLraw_fill_in_rownames,
   ILLraw_fill_in_bounds, the checks of ILLrawlpdata_to_lpdata) as a function from the lines delivered by the
   line reader to a problem by name.

   State of the tokenizer: the current line is cut at the first backslash / newline / NUL (END_LINE) and kept as
   a zipper ([pre] = the bytes before state->p, reversed; [cur] = the bytes from state->p on), [rest] are the
   lines not yet fetched, [fld] is state->field, [first] is state->fieldOnFirstCol.  A keyword is recognised
   only in column 0 (state->line == state->p).  Numbers are read by IO/Num.read_num_gen.
   The three loops (terms of an expression, constraints, bound statements, integer names) run on fuel; [PrFuel]
   is the answer "fuel exhausted" (every iteration consumes at least one byte, read_lp supplies more fuel than
   there are bytes).  [PrFlt] is a fault of the number scanner (division by zero / int overflow of an exponent). *)
From Coq Require Import QArith List Ascii String Bool Arith NArith Lia.
From QSX Require Import Base.QSum LP.User IO.Num IO.Bounds IO.Lex IO.LpWrite.
Import ListNotations.
Local Open Scope Q_scope.

Inductive res (A : Type) := PrOk (a : A) | PrErr | PrFlt | PrFuel.
Arguments PrOk {A} a. Arguments PrErr {A}. Arguments PrFlt {A}. Arguments PrFuel {A}.

(* ---- characters -------------------------------------------------------------------------------- *)

Definition to_lower (c : ascii) : ascii :=
  let n := N_of_ascii c in if ((65 <=? n) && (n <=? 90))%N then ascii_of_N (n + 32) else c.
Fixpoint ieq (a b : list ascii) : bool :=
  match a, b with
  | [], [] => true
  | x :: a', y :: b' => Ascii.eqb (to_lower x) (to_lower y) && ieq a' b'
  | _, _ => false
  end.
(* strncasecmp (s, kw, strlen kw) == 0 *)
Fixpoint iprefix (kw s : list ascii) : bool :=
  match kw, s with
  | [], _ => true
  | k :: kw', c :: s' => Ascii.eqb (to_lower k) (to_lower c) && iprefix kw' s'
  | _ :: _, [] => false
  end.

Definition is_alpha (c : ascii) : bool :=
  let n := N_of_ascii c in (((65 <=? n) && (n <=? 90)) || ((97 <=? n) && (n <=? 122)))%N.
Definition name_sym (c : ascii) : bool := existsb (Ascii.eqb c) (s2l "!""#$%&()/,;?@_`'{}|~").
(* ILLis_lp_name_char (c, pos): pos0 <-> pos = 0 *)
Definition is_name_char (c : ascii) (pos0 : bool) : bool :=
  is_alpha c || (negb pos0 && (is_digit c || Ascii.eqb c ".")) || name_sym c.

Fixpoint scan_name (l : list ascii) (pos0 : bool) : list ascii * list ascii :=
  match l with
  | c :: r => if is_name_char c pos0 then let (w, t) := scan_name r false in (c :: w, t) else ([], l)
  | [] => ([], [])
  end.

Definition all_keywords : list (list ascii) :=
  map s2l ["MIN"; "MINIMUM"; "MINIMIZE"; "MAX"; "MAXIMUM"; "MAXIMIZE"; "SUBJECT"; "ST"; "PROBLEM"; "PROB";
           "BOUNDS"; "BOUND"; "INTEGER"; "INT"; "END"]%string.
Definition is_keyword (w : list ascii) : bool := existsb (ieq w) all_keywords.

(* END_LINE: the line as the tokenizer sees it *)
Fixpoint cutline (l : line) : list ascii :=
  match l with
  | [] => []
  | c :: r => if Ascii.eqb c "\" || Ascii.eqb c "010" || Ascii.eqb c "000" then [] else c :: cutline r
  end.

(* ---- tokenizer state ----------------------------------------------------------------------------- *)

Record rst := mk_rst { pre : list ascii; cur : list ascii; rest : list line; eof : bool;
                       fld : list ascii; first : bool; lnum : nat }.
Definition set_pos (st : rst) (p c : list ascii) : rst := mk_rst p c (rest st) (eof st) (fld st) (first st) (lnum st).
Definition set_first (st : rst) (b : bool) : rst := mk_rst (pre st) (cur st) (rest st) (eof st) (fld st) b (lnum st).
Definition set_fld (st : rst) (w : list ascii) : rst := mk_rst (pre st) (cur st) (rest st) (eof st) w (first st) (lnum st).
Definition is_nil {A} (l : list A) : bool := match l with [] => true | _ => false end.
Definition at_col0 (st : rst) : bool := is_nil (pre st).

Fixpoint adv (n : nat) (p c : list ascii) : list ascii * list ascii :=
  match n, c with
  | S k, x :: r => adv k (x :: p) r
  | _, _ => (p, c)
  end.
Definition advn (n : nat) (st : rst) : rst := let (p, c) := adv n (pre st) (cur st) in set_pos st p c.

Fixpoint skipb (p c : list ascii) : list ascii * list ascii :=
  match c with
  | x :: r => if is_blank x then skipb (x :: p) r else (p, c)
  | [] => (p, [])
  end.

(* the loop of ILLread_lp_state_next_line over the remaining lines: the first line that is not blank *)
Fixpoint next_line_from (ls : list line) (ln : nat) : option (list ascii * list ascii * list line) * nat :=
  match ls with
  | [] => (None, S ln)
  | l :: r =>
    let (p, c) := skipb [] (cutline l) in
    match c with
    | [] => next_line_from r (S ln)
    | _ => (Some (p, c, r), S ln)
    end
  end.

(* true <-> the C function returns 0 *)
Definition next_line (st : rst) : rst * bool :=
  if eof st then (st, false)
  else match next_line_from (rest st) (lnum st) with
       | (Some (p, c, r), ln) => (mk_rst p c r false (fld st) (first st) ln, true)
       | (None, ln) => (mk_rst [] [] [] true [] false ln, false)
       end.

Definition skip_blanks (wrap : bool) (st : rst) : rst * bool :=
  let (p, c) := skipb (pre st) (cur st) in
  let st1 := set_pos st p c in
  match c with
  | _ :: _ => (st1, true)
  | [] => if wrap then next_line st1 else (st1, true)
  end.

(* next_field: sscanf ("%s") skips white space itself, the pointer advances by strlen (field) *)
Definition next_field (across : bool) (st : rst) : rst * bool :=
  let (st1, _) := skip_blanks across st in
  if eof st1 then (st1, false)
  else
    let st2 := set_first st1 (at_col0 st1) in
    match fst (take_word (skip_space (cur st2))) with
    | [] => (st2, false)
    | w => (advn (List.length w) (set_fld st2 w), true)
    end.

Definition head_blank (c : list ascii) : bool := match c with x :: _ => is_blank x | [] => false end.
Fixpoint back_blank (p c : list ascii) : list ascii * list ascii :=
  match p with
  | [] => (p, c)
  | x :: p' => if head_blank c then back_blank p' (x :: c) else (p, c)
  end.
Fixpoint back_nonblank (p c : list ascii) : list ascii * list ascii :=
  match p with
  | [] => (p, c)
  | x :: p' => if head_blank c then (p, c) else back_nonblank p' (x :: c)
  end.
Definition prev_field (st : rst) : rst :=
  let (p1, c1) := match pre st with x :: p' => (p', x :: cur st) | [] => ([], cur st) end in
  let (p2, c2) := back_blank p1 c1 in
  let (p3, c3) := back_nonblank p2 c2 in
  set_first (set_pos st p3 c3) (is_nil p3).

Inductive vres := VOk | VNone | VKey.
Definition next_var (st : rst) : rst * vres :=
  let (st1, ok) := skip_blanks true st in
  if negb ok then (st1, VNone)
  else
    let st2 := set_first st1 (at_col0 st1) in
    match fst (scan_name (cur st2) true) with
    | [] => (st2, VNone)
    | w => if first st2 && is_keyword w then (st2, VKey)
           else (advn (List.length w) (set_fld st2 w), VOk)
    end.

(* ILLtest_lp_state_keyword / ILLread_lp_state_keyword (the latter also logs an error when the field is not in column 0) *)
Definition kw_test (st : rst) (kws : list string) : bool :=
  negb (eof st) && first st && existsb (fun k => ieq (fld st) (s2l k)) kws.

Definition colon (st : rst) : rst * bool :=
  let (st1, ok) := skip_blanks true st in
  match ok, cur st1 with
  | true, ":"%char :: _ => (advn 1 st1, true)
  | _, _ => (st1, false)
  end.

Definition has_colon (st : rst) : rst * bool :=
  let (st1, _) := skip_blanks false st in (st1, existsb (Ascii.eqb ":") (cur st1)).

(* true <-> another constraint follows (the C function returns 0) *)
Definition next_constraint (st : rst) : rst * bool :=
  let ln := lnum st in
  let (st1, _) := skip_blanks true st in
  if eof st1 then (st1, false)
  else if (ln =? lnum st1)%nat then (st1, false)           (* "Constraints must start on a new line." *)
  else
    match next_field true st1 with
    | (st2, true) =>
      let kw := negb (eof st2) && first st2 && is_keyword (fld st2) in
      (prev_field st2, negb kw)
    | (st2, false) => (st2, true)
    end.

(* Some true = '-' *)
Definition sign (st : rst) : rst * option bool :=
  let (st1, ok) := skip_blanks true st in
  match ok, cur st1 with
  | true, "+"%char :: _ => (advn 1 st1, Some false)
  | true, "-"%char :: _ => (advn 1 st1, Some true)
  | _, _ => (st1, None)
  end.

Section Reader.
  Variable strict : bool.        (* variant of the number scanner, see IO/Num.v *)
  Variable M : Q.

  (* ILLread_lp_state_value; inr = fault of the number scanner *)
  Definition value (st : rst) : (rst * option Q) + unit :=
    let (st1, ok) := skip_blanks true st in
    if negb ok then inl (st1, None)
    else
      let st2 := set_first st1 (at_col0 st1) in
      match read_num_gen strict (cur st2) with
      | (Val q, S n) => inl (advn (S n) st2, Some q)
      | (Val _, O) => inl (st2, None)
      | (NFault _, _) => inr tt
      end.

  Definition test_next_is_free (st : rst) : rst * bool :=
    let (st1, _) := skip_blanks false st in
    if iprefix (s2l "FREE") (cur st1)
    then match snd (adv 4 [] (cur st1)) with
         | [] => (advn 4 st1, true)
         | x :: _ => if is_blank x then (advn 4 st1, true) else (st1, false)
         end
    else (st1, false).

  Definition possible_bound_value (st : rst) : (rst * option Q) + unit :=
    let (st1, sg) := sign st in
    let neg := match sg with Some true => true | _ => false end in
    let len := if iprefix (s2l "INFINITY") (cur st1) then 8%nat else if iprefix (s2l "INF") (cur st1) then 3%nat else 0%nat in
    match len with
    | S _ =>
      let st2 := advn len st1 in
      match cur st2 with
      | x :: _ => if is_blank x then inl (fst (skip_blanks false st2), Some (if neg then - M else M))
                  else inl (st1, None)                  (* INF is the prefix of something else *)
      | [] => inl (st2, Some (if neg then - M else M))
      end
    | O =>
      match value st1 with
      | inl (st2, Some v) => inl (st2, Some (if neg then - v else v))
      | r => r
      end
    end.

  (* ILLtest_lp_state_sense (state, 1) *)
  Definition row_sense (st : rst) : rst * option sense :=
    let (st1, ok) := skip_blanks true st in
    if negb ok then (st1, None)
    else match cur st1 with
         | "<"%char :: "="%char :: _ => (advn 2 st1, Some SL)
         | "<"%char :: _ => (advn 1 st1, Some SL)
         | ">"%char :: "="%char :: _ => (advn 2 st1, Some SG)
         | ">"%char :: _ => (advn 1 st1, Some SG)
         | "="%char :: "<"%char :: _ => (advn 2 st1, Some SL)
         | "="%char :: ">"%char :: _ => (advn 2 st1, Some SG)
         | "="%char :: _ => (advn 1 st1, Some SE)
         | _ => (st1, None)
         end.
  (* ILLtest_lp_state_bound_sense: '=' and '<=' only *)
  Definition bound_sense (st : rst) : rst * option sense :=
    let (st1, ok) := skip_blanks true st in
    if negb ok then (st1, None)
    else match cur st1 with
         | "="%char :: _ => (advn 1 st1, Some SE)
         | "<"%char :: "="%char :: _ => (advn 2 st1, Some SL)
         | _ => (st1, None)
         end.

  (* ---- the raw problem ------------------------------------------------------------------------- *)
  (* rr_sense = None: an 'N' row (the objective); terms, rows and columns are kept newest first *)
  Record rrow := { rr_name : option name; rr_sense : option sense; rr_rhs : Q; rr_terms : list (name * Q) }.
  Record raw := { r_name : option name; r_max : bool; r_cols : list name; r_rows : list rrow;
                  r_bnd : list (name * bst); r_int : list name }.

  Definition mem (nm : name) (l : list name) : bool := existsb (leqb nm) l.
  Definition row_names (rw : raw) : list name :=
    flat_map (fun r => match rr_name r with Some n => [n] | None => [] end) (r_rows rw).

  Definition add_row (rw : raw) (nm : option name) : raw :=
    {| r_name := r_name rw; r_max := r_max rw; r_cols := r_cols rw;
       r_rows := {| rr_name := nm; rr_sense := None; rr_rhs := 0; rr_terms := [] |} :: r_rows rw;
       r_bnd := r_bnd rw; r_int := r_int rw |}.
  (* add_var: ILLraw_add_col for a new name, ILLraw_add_col_coef for the row being read (the newest) *)
  Definition add_var (rw : raw) (nm : name) (c : Q) : raw :=
    {| r_name := r_name rw; r_max := r_max rw;
       r_cols := if mem nm (r_cols rw) then r_cols rw else nm :: r_cols rw;
       r_rows := match r_rows rw with
                 | r :: t => {| rr_name := rr_name r; rr_sense := rr_sense r; rr_rhs := rr_rhs r; rr_terms := (nm, c) :: rr_terms r |} :: t
                 | [] => []
                 end;
       r_bnd := r_bnd rw; r_int := r_int rw |}.
  Definition set_sense_rhs (rw : raw) (s : sense) (rhs : Q) : raw :=
    {| r_name := r_name rw; r_max := r_max rw; r_cols := r_cols rw;
       r_rows := match r_rows rw with
                 | r :: t => {| rr_name := rr_name r; rr_sense := Some s; rr_rhs := rhs; rr_terms := rr_terms r |} :: t
                 | [] => []
                 end;
       r_bnd := r_bnd rw; r_int := r_int rw |}.
  Fixpoint lookup_bnd (b : list (name * bst)) (nm : name) : bst :=
    match b with
    | [] => bst0
    | (n, s) :: t => if leqb n nm then s else lookup_bnd t nm
    end.
  Definition upd_bnd (rw : raw) (nm : name) (f : bst -> bst) : raw :=
    {| r_name := r_name rw; r_max := r_max rw; r_cols := r_cols rw; r_rows := r_rows rw;
       r_bnd := (nm, f (lookup_bnd (r_bnd rw) nm)) :: r_bnd rw; r_int := r_int rw |}.
  Definition mark_int (rw : raw) (nm : name) : raw :=
    {| r_name := r_name rw; r_max := r_max rw; r_cols := r_cols rw; r_rows := r_rows rw;
       r_bnd := r_bnd rw; r_int := nm :: r_int rw |}.

  (* ---- ILLread_constraint_expr ---------------------------------------------------------------------- *)
  Fixpoint read_expr (fuel : nat) (st : rst) (rw : raw) (firstTerm : bool) : res (rst * raw) :=
    match fuel with
    | O => PrFuel
    | S k =>
      let (st1, sg) := sign st in
      match sg, firstTerm with
      | None, false => PrOk (st1, rw)               (* no sign after a term: the expression ends *)
      | _, _ =>
        let neg := match sg with Some true => true | _ => false end in
        match value st1 with                       (* possible_coef, default 1 *)
        | inr _ => PrFlt
        | inl (st2, co) =>
          let c := match co with Some q => q | None => 1 end in
          match next_var st2 with
          | (st3, VOk) => read_expr k st3 (add_var rw (fld st3) (if neg then - c else c)) false
          | (st3, _) => match co with Some _ => PrErr          (* "Coefficient without variable." *)
                                    | None => PrOk (st3, rw) end
          end
        end
      end
    end.

  (* ILLread_constraint_name *)
  Definition read_constraint_name (st : rst) : res (rst * option name) :=
    let (st1, hc) := has_colon st in
    if hc then
      match next_var st1 with
      | (st2, VOk) => match colon st2 with
                      | (st3, true) => PrOk (st3, Some (fld st2))
                      | (_, false) => PrErr
                      end
      | _ => PrErr
      end
    else PrOk (st1, None).

  (* ILLread_one_constraint *)
  Definition read_one_constraint (fuel : nat) (st : rst) (rw : raw) (nm : option name) : res (rst * raw) :=
    if match nm with Some n => mem n (row_names rw) | None => false end then PrErr    (* "Repeated row name" *)
    else
      match read_expr fuel st (add_row rw nm) true with
      | PrOk (st1, rw1) =>
        match row_sense st1 with
        | (st2, Some s) =>
          match value st2 with
          | inl (st3, Some d) => PrOk (st3, set_sense_rhs rw1 s d)
          | inl (_, None) => PrErr                  (* "No right hand side value in constraint." *)
          | inr _ => PrFlt
          end
        | (_, None) => PrErr
        end
      | e => e
      end.

  (* ILLcheck_subject_to: "ST" in column 0, or "SUBJECT" followed by "TO" (in column 0), or - as the code
     has it - "SUBJECT" alone anywhere *)
  Definition check_subject_to (st : rst) : rst * bool :=
    match next_field true st with
    | (st1, true) =>
      let ok_st1 :=
        if ieq (fld st1) (s2l "ST") then (st1, first st1)
        else if ieq (fld st1) (s2l "SUBJECT") then
          let (p, c) := skipb (pre st1) (cur st1) in
          if iprefix (s2l "TO") c
          then if first st1 then (advn 2 (set_pos st1 p c), true) else (st1, false)
          else (st1, true)
        else (st1, false) in
      let (st2, ok) := ok_st1 in
      if ok then (fst (skip_blanks true st2), true) else (prev_field st2, false)
    | (st1, false) => (st1, false)
    end.

  Fixpoint read_constraint_loop (fuel fuel_e : nat) (st : rst) (rw : raw) : res (rst * raw) :=
    match fuel with
    | O => PrFuel
    | S k =>
      match read_constraint_name st with
      | PrOk (st1, nm) =>
        match read_one_constraint fuel_e st1 rw nm with
        | PrOk (st2, rw2) =>
          match next_constraint st2 with
          | (st3, true) => read_constraint_loop k fuel_e st3 rw2
          | (st3, false) => PrOk (st3, rw2)
          end
        | e => e
        end
      | PrErr => PrErr | PrFlt => PrFlt | PrFuel => PrFuel
      end
    end.

  Definition read_constraints (fuel : nat) (st : rst) (rw : raw) : res (rst * raw) :=
    match check_subject_to st with
    | (st1, true) =>
      match read_constraint_loop fuel fuel st1 rw with
      | PrOk (st2, rw2) => PrOk (fst (next_field true st2), rw2)
      | e => e
      end
    | (_, false) => PrErr                           (* "Constraint section expected." *)
    end.

  (* ---- read_bounds ---------------------------------------------------------------------------------- *)
  Inductive cres := COk (st : rst) (nm : name) | CKey (st : rst) | CErr.
  Definition read_colname (mustHave : bool) (st : rst) (rw : raw) : cres :=
    match next_var st with
    | (st1, VOk) => if mem (fld st1) (r_cols rw) then COk st1 (fld st1) else CErr
    | (st1, VKey) => if mustHave then CErr else CKey st1
    | (st1, VNone) => CErr
    end.

  (* the part of the loop body after the column name is known *)
  Definition after_colname (st : rst) (rw : raw) (nm : name) (haveBound : bool) : res (rst * raw) :=
    match bound_sense st with
    | (st1, Some s) =>
      match possible_bound_value st1 with
      | inl (st2, Some v) =>
        PrOk (st2, upd_bnd rw nm (fun b => match s with SE => apply_stmt M b (BFix v) | _ => set_upper b v end))
      | inl (_, None) => PrErr                      (* "Expecting bound value." *)
      | inr _ => PrFlt
      end
    | (st1, None) =>
      let (st2, fr) := test_next_is_free st1 in
      if fr then PrOk (st2, upd_bnd rw nm (fun b => apply_stmt M b BFreeS))
      else if haveBound then PrOk (st2, rw) else PrErr      (* "Not a bound expression." *)
    end.

  Fixpoint read_bounds_loop (fuel : nat) (st : rst) (rw : raw) : res (rst * raw) :=
    match fuel with
    | O => PrFuel
    | S k =>
      match possible_bound_value st with
      | inr _ => PrFlt
      | inl (st1, Some v) =>                      (* this must be for a lower bound *)
        match bound_sense st1 with
        | (st2, Some SL) =>
          match read_colname true st2 rw with
          | COk st3 nm =>
            match after_colname st3 (upd_bnd rw nm (fun b => set_lower b v)) nm true with
            | PrOk (st4, rw4) => read_bounds_loop k st4 rw4
            | e => e
            end
          | _ => PrErr
          end
        | _ => PrErr                                (* "Expecting <=" *)
        end
      | inl (st1, None) =>
        match read_colname false st1 rw with
        | COk st2 nm =>
          match after_colname st2 rw nm false with
          | PrOk (st3, rw3) => read_bounds_loop k st3 rw3
          | e => e
          end
        | CKey st2 => PrOk (st2, rw)                 (* found a keyword and that's OK *)
        | CErr => PrErr
        end
      end
    end.

  Definition read_bounds (fuel : nat) (st : rst) (rw : raw) : res (rst * raw) :=
    match read_bounds_loop fuel st rw with
    | PrOk (st1, rw1) => PrOk (fst (next_field true st1), rw1)
    | e => e
    end.

  (* ---- read_integer --------------------------------------------------------------------------------- *)
  Fixpoint read_integer_loop (fuel : nat) (st : rst) (rw : raw) : res (rst * raw) :=
    match fuel with
    | O => PrFuel
    | S k =>
      match read_colname false st rw with
      | COk st1 nm => read_integer_loop k st1 (mark_int rw nm)
      | CKey st1 => PrOk (st1, rw)
      | CErr => PrErr
      end
    end.
  Definition read_integer (fuel : nat) (st : rst) (rw : raw) : res (rst * raw) :=
    match read_integer_loop fuel st rw with
    | PrOk (st1, rw1) => PrOk (fst (next_field true st1), rw1)
    | e => e
    end.

  (* ---- header ---------------------------------------------------------------------------------------- *)
  (* read_problem_name + read_minmax, after the first field was fetched *)
  Definition read_header (st : rst) : res (rst * option name * bool) :=
    if negb (first st) then PrErr
    else
      let r :=
        if ieq (fld st) (s2l "PROBLEM") || ieq (fld st) (s2l "PROB")
        then match next_field true st with
             | (st1, true) => PrOk (fst (next_field true st1), Some (fld st1))
             | (_, false) => PrErr
             end
        else PrOk (st, None) in
      match r with
      | PrOk (st2, nm) =>
        if negb (first st2) then PrErr
        else if existsb (fun k => ieq (fld st2) (s2l k)) ["MAX"; "MAXIMUM"; "MAXIMIZE"]%string then PrOk (st2, nm, true)
        else if existsb (fun k => ieq (fld st2) (s2l k)) ["MIN"; "MINIMUM"; "MINIMIZE"]%string then PrOk (st2, nm, false)
        else PrErr
      | PrErr => PrErr | PrFlt => PrFlt | PrFuel => PrFuel
      end.

  (* read_objective *)
  Definition read_objective (fuel : nat) (st : rst) (nm : option name) (mx : bool) : res (rst * raw) :=
    let (st1, _) := skip_blanks true st in
    let (st2, hc) := has_colon st1 in
    let named :=
      if hc then
        match next_var st2 with
        | (st3, VOk) => match colon st3 with
                        | (st4, true) => PrOk (st4, fld st3)
                        | (_, false) => PrErr
                        end
        | _ => PrErr                                 (* "Bad objective function name." *)
        end
      else PrOk (st2, s2l "obj") in
    match named with
    | PrOk (st5, on) =>
      read_expr fuel st5 {| r_name := nm; r_max := mx; r_cols := [];
                            r_rows := [{| rr_name := Some on; rr_sense := None; rr_rhs := 0; rr_terms := [] |}];
                            r_bnd := []; r_int := [] |} true
    | PrErr => PrErr | PrFlt => PrFlt | PrFuel => PrFuel
    end.

  (* ---- ILLraw_fill_in_rownames: "c<i>", or "c<i>_<k>" for the first k that is free ---------------------- *)
  Definition dec_nat (i : nat) : list ascii := print_Z (Z.of_nat i).
  Fixpoint first_free (fuel k : nat) (base : name) (taken : list name) : name :=
    let cand := base ++ "_"%char :: dec_nat k in
    match fuel with
    | O => cand
    | S f => if mem cand taken then first_free f (S k) base taken else cand
    end.
  Definition gen_rowname (taken : list name) (i : nat) : name :=
    let base := "c"%char :: dec_nat i in
    if mem base taken then first_free (List.length taken) 0 base taken else base.
  (* rows oldest first, i = index of the head *)
  Fixpoint fill_names (rows : list rrow) (i : nat) (taken : list name) : list (name * rrow) :=
    match rows with
    | [] => []
    | r :: t =>
      match rr_name r with
      | Some n => (n, r) :: fill_names t (S i) taken
      | None => let n := gen_rowname taken i in (n, r) :: fill_names t (S i) (n :: taken)
      end
    end.

  (* ---- conversion (ILLraw_fill_in_bounds, ILLcheck_rawlpdata, convert_rawlpdata_to_lpdata) ------------- *)
  Definition finish (rw : raw) : option llp :=
    match rev (r_rows rw) with
    | [] => None
    | objrow :: crows =>
      let cols := rev (r_cols rw) in
      let isint nm := mem nm (r_int rw) in
      let scols := map (fun nm =>
                          let b := fill_in M (lookup_bnd (r_bnd rw) nm) (isint nm) in
                          {| lc_name := nm; lc_obj := coefS (rev (rr_terms objrow)) nm;
                             lc_lo := fst b; lc_up := snd b; lc_int := isint nm |}) cols in
      let named := fill_names (objrow :: crows) 0 (row_names rw) in
      let srows := flat_map (fun nr => match rr_sense (snd nr) with
                                       | Some s => [{| lr_name := fst nr; lr_sense := s; lr_rhs := rr_rhs (snd nr);
                                                       lr_range := 0; lr_ent := rev (rr_terms (snd nr)) |}]
                                       | None => []
                                       end) named in
      if is_nil scols || is_nil srows then None
      else if existsb (fun c => Qltb (lc_up c) (lc_lo c)) scols then None       (* "Lower bound is bigger than upper bound" *)
      else Some {| l_probname := Some (match r_name rw with Some n => n | None => s2l "unnamed" end);
                   l_max := r_max rw;
                   l_objname := match rr_name objrow with Some n => n | None => s2l "obj" end;
                   l_intmarker := existsb lc_int scols;
                   l_cols := scols; l_rows := srows |}
    end.

  (* ---- ILLread_lp ------------------------------------------------------------------------------------ *)
  Definition total_fuel (ls : list line) : nat := S (List.length ls + fold_right (fun l a => (List.length l + a)%nat) 0%nat ls).

  Definition st_start (ls : list line) : rst := fst (skip_blanks true (mk_rst [] [] ls false [] false 0)).

  Definition read_lp_res (ls : list line) : res llp :=
    let fuel := total_fuel ls in
    match next_field true (st_start ls) with
    | (_, false) => PrErr                            (* "Empty file." *)
    | (st0, true) =>
      match read_header st0 with
      | PrOk (st1, nm, mx) =>
        match read_objective fuel st1 nm mx with
        | PrOk (st2, rw2) =>
          match read_constraints fuel st2 rw2 with
          | PrOk (st3, rw3) =>
            if is_nil (r_cols rw3) then PrErr        (* "Problem must contain at least one non empty constraint." *)
            else
              let rb := if kw_test st3 ["BOUNDS"; "BOUND"]%string then read_bounds fuel st3 rw3 else PrOk (st3, rw3) in
              match rb with
              | PrOk (st4, rw4) =>
                let ri := if kw_test st4 ["INTEGER"; "INT"]%string then read_integer fuel st4 rw4 else PrOk (st4, rw4) in
                match ri with
                | PrOk (st5, rw5) =>
                  if kw_test st5 ["END"]%string
                  then match finish rw5 with Some P => PrOk P | None => PrErr end
                  else PrErr                          (* Missing "End" / unknown keyword *)
                | PrErr => PrErr | PrFlt => PrFlt | PrFuel => PrFuel
                end
              | PrErr => PrErr | PrFlt => PrFlt | PrFuel => PrFuel
              end
          | PrErr => PrErr | PrFlt => PrFlt | PrFuel => PrFuel
          end
        | PrErr => PrErr | PrFlt => PrFlt | PrFuel => PrFuel
        end
      | PrErr => PrErr | PrFlt => PrFlt | PrFuel => PrFuel
      end
    end.

  Definition read_lp (ls : list line) : option llp := match read_lp_res ls with PrOk P => Some P | _ => None end.
End Reader.

(* the line reader: fgets with a buffer of ILL_namebufsize - 2 bytes: a line ends after a newline or after
   ILL_namebufsize - 3 = 131069 bytes.  [left] counts the bytes that still fit *)
Fixpoint split_lines_aux (limit : N) (s : list ascii) (acc : list ascii) (left : N) : list line :=
  match s with
  | [] => match acc with [] => [] | _ => [rev acc] end
  | c :: r =>
    if Ascii.eqb c "010" || (left =? 1)%N then rev (c :: acc) :: split_lines_aux limit r [] limit
    else split_lines_aux limit r (c :: acc) (N.pred left)
  end.
Definition split_lines (s : list ascii) : list line := split_lines_aux 131069 s [] 131069.

Example read_lp_example :
  let text := ["Problem"; " p"; "Maximize"; " obj:  3 x - 1/2 end"; "Subject To";
               " c1:   x - 2/3 end >= 1 " ++ String "009" "\ RANGE (1, 3)"; "     x - 2/3 end <= 3";
               "Bounds"; " -inf  <= end <= 4"; "Integer"; " end"; "End"]%string in
  match read_lp true 1000 (map s2l text) with
  | Some P => (map (fun c => (string_of_list_ascii (lc_name c), Qred (lc_obj c), lc_lo c, lc_up c, lc_int c)) (l_cols P),
               map (fun r => (string_of_list_ascii (lr_name r), lr_sense r, lr_rhs r, map (fun e => (string_of_list_ascii (fst e), Qred (snd e))) (lr_ent r))) (l_rows P),
               l_max P)
  | None => ([], [], false)
  end =
  ([("x", 3, 0, 1000, false); ("end", - (1 # 2), -1000, 4, true)]%string,
   [("c1", SG, 1 / 1, [("x", 1); ("end", - (2 # 3))]); ("c2", SL, 3 / 1, [("x", 1); ("end", - (2 # 3))])]%string,
   true).
Proof. vm_compute. reflexivity. Qed.
