(* Reduced-precision copies (C16): the value of mpq_get_d as an exact rational.
   GMP documents mpq_get_d as truncation (rounding toward zero) to the 53-bit
   significand of an IEEE double; the model computes that with integer arithmetic only.
   Range: 2^-1074 .. 2^1024 (below: subnormal handling by the fixed exponent -1074;
   above: out of scope, the library maps its own infinity sentinel separately). *)
From Coq Require Import ZArith QArith Qabs Lia Lqa.
Local Open Scope Z_scope.

Definition pow2 (e : Z) : Q := if 0 <=? e then inject_Z (2 ^ e) else / inject_Z (2 ^ (- e)).

(* floor ((n/d) / 2^e) for n >= 0, d > 0 *)
Definition floor_scaled (n d e : Z) : Z :=
  if 0 <=? e then n / (d * 2 ^ e) else (n * 2 ^ (- e)) / d.

(* exponent of the unit in the last place of the double nearest below n/d *)
Definition expo (n d : Z) : Z :=
  let e0 := Z.log2 n - Z.log2 d - 52 in
  let e := if floor_scaled n d e0 <? 2 ^ 52 then e0 - 1 else e0 in
  Z.max e (-1074).

Definition to_double_pos (n : Z) (d : positive) : Q :=
  let e := expo n (Zpos d) in inject_Z (floor_scaled n (Zpos d) e) * pow2 e.

Definition to_double (q : Q) : Q :=
  match Qnum q with
  | Z0 => 0%Q
  | Zpos n => to_double_pos (Zpos n) (Qden q)
  | Zneg n => (- to_double_pos (Zpos n) (Qden q))%Q
  end.

Definition ulp_of (q : Q) : Q :=
  match Qnum q with
  | Z0 => 0%Q
  | Zpos n | Zneg n => pow2 (expo (Zpos n) (Zpos (Qden q)))
  end.

(* ---- properties ------------------------------------------------------------------ *)

Lemma pow2_pos e : (0 < pow2 e)%Q.
Proof.
  unfold pow2. destruct (0 <=? e) eqn:E.
  - apply Z.leb_le in E. assert (0 < 2 ^ e) by (apply Z.pow_pos_nonneg; lia).
    unfold Qlt. simpl. lia.
  - apply Z.leb_gt in E. assert (H : 0 < 2 ^ (- e)) by (apply Z.pow_pos_nonneg; lia).
    apply Qinv_lt_0_compat. unfold Qlt. simpl. lia.
Qed.

Lemma floor_scaled_spec n d e : 0 <= n -> 0 < d ->
  (inject_Z (floor_scaled n d e) * pow2 e <= inject_Z n / inject_Z d /\
   inject_Z n / inject_Z d < (inject_Z (floor_scaled n d e) + 1) * pow2 e)%Q.
Proof.
  intros Hn Hd. unfold floor_scaled, pow2.
  assert (Hdq : (0 < inject_Z d)%Q) by (unfold Qlt; simpl; lia).
  destruct (0 <=? e) eqn:E.
  - apply Z.leb_le in E. set (p := 2 ^ e). assert (Hp : 0 < p) by (apply Z.pow_pos_nonneg; lia).
    set (m := n / (d * p)). assert (HD : 0 < d * p) by nia.
    assert (L : m * (d * p) <= n) by (pose proof (Z.mul_div_le n (d * p) HD); unfold m; nia).
    assert (U : n < (m + 1) * (d * p)) by (pose proof (Z.mul_succ_div_gt n (d * p) HD); unfold m; nia).
    split.
    + apply Qle_shift_div_l; [exact Hdq|]. rewrite <- !inject_Z_mult. rewrite <- Zle_Qle. nia.
    + apply Qlt_shift_div_r; [exact Hdq|].
      setoid_replace (inject_Z m + 1)%Q with (inject_Z (m + 1)) by (rewrite inject_Z_plus; reflexivity).
      rewrite <- !inject_Z_mult. rewrite <- Zlt_Qlt. nia.
  - apply Z.leb_gt in E. set (p := 2 ^ (- e)). assert (Hp : 0 < p) by (apply Z.pow_pos_nonneg; lia).
    set (m := (n * p) / d).
    assert (L : m * d <= n * p) by (pose proof (Z.mul_div_le (n * p) d Hd); unfold m; nia).
    assert (U : n * p < (m + 1) * d) by (pose proof (Z.mul_succ_div_gt (n * p) d Hd); unfold m; nia).
    assert (Hpq : (0 < inject_Z p)%Q) by (unfold Qlt; simpl; lia).
    split.
    + apply Qle_shift_div_l; [exact Hdq|].
      setoid_replace (inject_Z m * / inject_Z p * inject_Z d)%Q with ((inject_Z m * inject_Z d) / inject_Z p)%Q by (field; lra).
      apply Qle_shift_div_r; [exact Hpq|]. rewrite <- !inject_Z_mult. rewrite <- Zle_Qle. exact L.
    + apply Qlt_shift_div_r; [exact Hdq|].
      setoid_replace ((inject_Z m + 1) * / inject_Z p * inject_Z d)%Q with ((inject_Z (m + 1) * inject_Z d) / inject_Z p)%Q
        by (rewrite inject_Z_plus; field; lra).
      apply Qlt_shift_div_l; [exact Hpq|]. rewrite <- !inject_Z_mult. rewrite <- Zlt_Qlt. exact U.
Qed.

Lemma floor_scaled_nonneg n d e : 0 <= n -> 0 < d -> 0 <= floor_scaled n d e.
Proof.
  intros Hn Hd. unfold floor_scaled. destruct (0 <=? e) eqn:E.
  - apply Z.leb_le in E. assert (0 < 2 ^ e) by (apply Z.pow_pos_nonneg; lia). apply Z.div_pos; nia.
  - apply Z.leb_gt in E. assert (0 < 2 ^ (- e)) by (apply Z.pow_pos_nonneg; lia). apply Z.div_pos; nia.
Qed.

Lemma Qmake_div n d : (n # d == inject_Z n / inject_Z (Zpos d))%Q.
Proof. rewrite Qmake_Qdiv. reflexivity. Qed.

(* truncation toward zero with error below one unit in the last place *)
Theorem to_double_pos_bound n d : 0 < n ->
  (to_double_pos n d <= n # d /\ (n # d) - to_double_pos n d < pow2 (expo n (Zpos d)))%Q.
Proof.
  intros Hn. unfold to_double_pos. set (e := expo n (Zpos d)).
  destruct (floor_scaled_spec n (Zpos d) e ltac:(lia) ltac:(lia)) as [L U].
  rewrite Qmake_div. split; [exact L|]. lra.
Qed.

Theorem to_double_bound q :
  (Qabs (to_double q) <= Qabs q /\ Qabs (q - to_double q) < ulp_of q \/ q == 0)%Q.
Proof.
  destruct q as [[|n|n] d]; [right; reflexivity| |]; left; unfold to_double, ulp_of; cbn [Qnum Qden].
  - destruct (to_double_pos_bound (Zpos n) d ltac:(lia)) as [L U].
    assert (P : (0 <= to_double_pos (Zpos n) d)%Q).
    { unfold to_double_pos. apply Qmult_le_0_compat; [|apply Qlt_le_weak; apply pow2_pos].
      change 0%Q with (inject_Z 0). rewrite <- Zle_Qle. apply floor_scaled_nonneg; lia. }
    assert (Q0 : (0 < Z.pos n # d)%Q) by (unfold Qlt; simpl; lia).
    rewrite !Qabs_pos by lra. split; lra.
  - destruct (to_double_pos_bound (Zpos n) d ltac:(lia)) as [L U].
    assert (P : (0 <= to_double_pos (Zpos n) d)%Q).
    { unfold to_double_pos. apply Qmult_le_0_compat; [|apply Qlt_le_weak; apply pow2_pos].
      change 0%Q with (inject_Z 0). rewrite <- Zle_Qle. apply floor_scaled_nonneg; lia. }
    assert (E : (Z.neg n # d == - (Z.pos n # d))%Q) by reflexivity.
    assert (Q0 : (0 < Z.pos n # d)%Q) by (unfold Qlt; simpl; lia).
    rewrite E. rewrite !Qabs_neg by lra. split; lra.
Qed.

Theorem to_double_zero : to_double 0 = 0%Q.
Proof. reflexivity. Qed.

Theorem to_double_opp q : (to_double (- q) == - to_double q)%Q.
Proof. destruct q as [[|n|n] d]; unfold to_double; simpl; ring. Qed.

(* non-vacuity / sanity: 1/3 truncates to 6004799503160661 / 2^54, 0.1 to 3602879701896396 / 2^55 *)
Example to_double_third : Qred (to_double (1 # 3)) = (6004799503160661 # 18014398509481984)%Q.
Proof. vm_compute. reflexivity. Qed.
Example to_double_tenth : Qred (to_double (1 # 10)) = (7205759403792793 # 72057594037927936)%Q.
Proof. vm_compute. reflexivity. Qed.
