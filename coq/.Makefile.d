Base/QSum.vo Base/QSum.glob Base/QSum.v.beautified Base/QSum.required_vo: Base/QSum.v 
Base/QSum.vio: Base/QSum.v 
Base/QSum.vos Base/QSum.vok Base/QSum.required_vos: Base/QSum.v 
LP/ILP.vo LP/ILP.glob LP/ILP.v.beautified LP/ILP.required_vo: LP/ILP.v Base/QSum.vo
LP/ILP.vio: LP/ILP.v Base/QSum.vio
LP/ILP.vos LP/ILP.vok LP/ILP.required_vos: LP/ILP.v Base/QSum.vos
LP/Cert.vo LP/Cert.glob LP/Cert.v.beautified LP/Cert.required_vo: LP/Cert.v LP/ILP.vo
LP/Cert.vio: LP/Cert.v LP/ILP.vio
LP/Cert.vos LP/Cert.vok LP/Cert.required_vos: LP/Cert.v LP/ILP.vos
LP/CertSound.vo LP/CertSound.glob LP/CertSound.v.beautified LP/CertSound.required_vo: LP/CertSound.v LP/Cert.vo
LP/CertSound.vio: LP/CertSound.v LP/Cert.vio
LP/CertSound.vos LP/CertSound.vok LP/CertSound.required_vos: LP/CertSound.v LP/Cert.vos
LP/Unique.vo LP/Unique.glob LP/Unique.v.beautified LP/Unique.required_vo: LP/Unique.v LP/CertSound.vo
LP/Unique.vio: LP/Unique.v LP/CertSound.vio
LP/Unique.vos LP/Unique.vok LP/Unique.required_vos: LP/Unique.v LP/CertSound.vos
LP/User.vo LP/User.glob LP/User.v.beautified LP/User.required_vo: LP/User.v LP/ILP.vo
LP/User.vio: LP/User.v LP/ILP.vio
LP/User.vos LP/User.vok LP/User.required_vos: LP/User.v LP/ILP.vos
LP/UserSound.vo LP/UserSound.glob LP/UserSound.v.beautified LP/UserSound.required_vo: LP/UserSound.v LP/User.vo LP/OptTest.vo
LP/UserSound.vio: LP/UserSound.v LP/User.vio LP/OptTest.vio
LP/UserSound.vos LP/UserSound.vok LP/UserSound.required_vos: LP/UserSound.v LP/User.vos LP/OptTest.vos
LP/OptTest.vo LP/OptTest.glob LP/OptTest.v.beautified LP/OptTest.required_vo: LP/OptTest.v LP/Cert.vo
LP/OptTest.vio: LP/OptTest.v LP/Cert.vio
LP/OptTest.vos LP/OptTest.vok LP/OptTest.required_vos: LP/OptTest.v LP/Cert.vos
LP/OptTestSound.vo LP/OptTestSound.glob LP/OptTestSound.v.beautified LP/OptTestSound.required_vo: LP/OptTestSound.v LP/OptTest.vo LP/CertSound.vo
LP/OptTestSound.vio: LP/OptTestSound.v LP/OptTest.vio LP/CertSound.vio
LP/OptTestSound.vos LP/OptTestSound.vok LP/OptTestSound.required_vos: LP/OptTestSound.v LP/OptTest.vos LP/CertSound.vos
LP/Driver.vo LP/Driver.glob LP/Driver.v.beautified LP/Driver.required_vo: LP/Driver.v LP/OptTest.vo
LP/Driver.vio: LP/Driver.v LP/OptTest.vio
LP/Driver.vos LP/Driver.vok LP/Driver.required_vos: LP/Driver.v LP/OptTest.vos
LP/DriverSound.vo LP/DriverSound.glob LP/DriverSound.v.beautified LP/DriverSound.required_vo: LP/DriverSound.v LP/Driver.vo LP/OptTestSound.vo
LP/DriverSound.vio: LP/DriverSound.v LP/Driver.vio LP/OptTestSound.vio
LP/DriverSound.vos LP/DriverSound.vok LP/DriverSound.required_vos: LP/DriverSound.v LP/Driver.vos LP/OptTestSound.vos
LP/Agree.vo LP/Agree.glob LP/Agree.v.beautified LP/Agree.required_vo: LP/Agree.v LP/DriverSound.vo LP/Unique.vo
LP/Agree.vio: LP/Agree.v LP/DriverSound.vio LP/Unique.vio
LP/Agree.vos LP/Agree.vok LP/Agree.required_vos: LP/Agree.v LP/DriverSound.vos LP/Unique.vos
IO/Num.vo IO/Num.glob IO/Num.v.beautified IO/Num.required_vo: IO/Num.v 
IO/Num.vio: IO/Num.v 
IO/Num.vos IO/Num.vok IO/Num.required_vos: IO/Num.v 
IO/NumSound.vo IO/NumSound.glob IO/NumSound.v.beautified IO/NumSound.required_vo: IO/NumSound.v IO/Num.vo
IO/NumSound.vio: IO/NumSound.v IO/Num.vio
IO/NumSound.vos IO/NumSound.vok IO/NumSound.required_vos: IO/NumSound.v IO/Num.vos
IO/Equiv.vo IO/Equiv.glob IO/Equiv.v.beautified IO/Equiv.required_vo: IO/Equiv.v Base/QSum.vo LP/User.vo
IO/Equiv.vio: IO/Equiv.v Base/QSum.vio LP/User.vio
IO/Equiv.vos IO/Equiv.vok IO/Equiv.required_vos: IO/Equiv.v Base/QSum.vos LP/User.vos
IO/Bounds.vo IO/Bounds.glob IO/Bounds.v.beautified IO/Bounds.required_vo: IO/Bounds.v Base/QSum.vo
IO/Bounds.vio: IO/Bounds.v Base/QSum.vio
IO/Bounds.vos IO/Bounds.vok IO/Bounds.required_vos: IO/Bounds.v Base/QSum.vos
IO/Ranges.vo IO/Ranges.glob IO/Ranges.v.beautified IO/Ranges.required_vo: IO/Ranges.v Base/QSum.vo
IO/Ranges.vio: IO/Ranges.v Base/QSum.vio
IO/Ranges.vos IO/Ranges.vok IO/Ranges.required_vos: IO/Ranges.v Base/QSum.vos
IO/Lex.vo IO/Lex.glob IO/Lex.v.beautified IO/Lex.required_vo: IO/Lex.v 
IO/Lex.vio: IO/Lex.v 
IO/Lex.vos IO/Lex.vok IO/Lex.required_vos: IO/Lex.v 
IO/Bas.vo IO/Bas.glob IO/Bas.v.beautified IO/Bas.required_vo: IO/Bas.v 
IO/Bas.vio: IO/Bas.v 
IO/Bas.vos IO/Bas.vok IO/Bas.required_vos: IO/Bas.v 
IO/Sol.vo IO/Sol.glob IO/Sol.v.beautified IO/Sol.required_vo: IO/Sol.v IO/Num.vo IO/NumSound.vo
IO/Sol.vio: IO/Sol.v IO/Num.vio IO/NumSound.vio
IO/Sol.vos IO/Sol.vok IO/Sol.required_vos: IO/Sol.v IO/Num.vos IO/NumSound.vos
