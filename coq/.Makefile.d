Base/QSum.vo Base/QSum.glob Base/QSum.v.beautified Base/QSum.required_vo: Base/QSum.v 
Base/QSum.vio: Base/QSum.v 
Base/QSum.vos Base/QSum.vok Base/QSum.required_vos: Base/QSum.v 
LP/ILP.vo LP/ILP.glob LP/ILP.v.beautified LP/ILP.required_vo: LP/ILP.v Base/QSum.vo
LP/ILP.vio: LP/ILP.v Base/QSum.vio
LP/ILP.vos LP/ILP.vok LP/ILP.required_vos: LP/ILP.v Base/QSum.vos
LP/Cert.vo LP/Cert.glob LP/Cert.v.beautified LP/Cert.required_vo: LP/Cert.v LP/ILP.vo
LP/Cert.vio: LP/Cert.v LP/ILP.vio
LP/Cert.vos LP/Cert.vok LP/Cert.required_vos: LP/Cert.v LP/ILP.vos
LP/CertSound.vo LP/CertSound.glob LP/CertSound.v.beautified LP/CertSound.required_vo: LP/CertSound.v LP/Cert.vo
LP/CertSound.vio: LP/CertSound.v LP/Cert.vio
LP/CertSound.vos LP/CertSound.vok LP/CertSound.required_vos: LP/CertSound.v LP/Cert.vos
LP/Unique.vo LP/Unique.glob LP/Unique.v.beautified LP/Unique.required_vo: LP/Unique.v LP/CertSound.vo
LP/Unique.vio: LP/Unique.v LP/CertSound.vio
LP/Unique.vos LP/Unique.vok LP/Unique.required_vos: LP/Unique.v LP/CertSound.vos
LP/User.vo LP/User.glob LP/User.v.beautified LP/User.required_vo: LP/User.v LP/ILP.vo
LP/User.vio: LP/User.v LP/ILP.vio
LP/User.vos LP/User.vok LP/User.required_vos: LP/User.v LP/ILP.vos
LP/UserSound.vo LP/UserSound.glob LP/UserSound.v.beautified LP/UserSound.required_vo: LP/UserSound.v LP/User.vo LP/OptTest.vo
LP/UserSound.vio: LP/UserSound.v LP/User.vio LP/OptTest.vio
LP/UserSound.vos LP/UserSound.vok LP/UserSound.required_vos: LP/UserSound.v LP/User.vos LP/OptTest.vos
LP/OptTest.vo LP/OptTest.glob LP/OptTest.v.beautified LP/OptTest.required_vo: LP/OptTest.v LP/Cert.vo
LP/OptTest.vio: LP/OptTest.v LP/Cert.vio
LP/OptTest.vos LP/OptTest.vok LP/OptTest.required_vos: LP/OptTest.v LP/Cert.vos
LP/OptTestSound.vo LP/OptTestSound.glob LP/OptTestSound.v.beautified LP/OptTestSound.required_vo: LP/OptTestSound.v LP/OptTest.vo LP/CertSound.vo
LP/OptTestSound.vio: LP/OptTestSound.v LP/OptTest.vio LP/CertSound.vio
LP/OptTestSound.vos LP/OptTestSound.vok LP/OptTestSound.required_vos: LP/OptTestSound.v LP/OptTest.vos LP/CertSound.vos
LP/Driver.vo LP/Driver.glob LP/Driver.v.beautified LP/Driver.required_vo: LP/Driver.v LP/OptTest.vo
LP/Driver.vio: LP/Driver.v LP/OptTest.vio
LP/Driver.vos LP/Driver.vok LP/Driver.required_vos: LP/Driver.v LP/OptTest.vos
LP/DriverSound.vo LP/DriverSound.glob LP/DriverSound.v.beautified LP/DriverSound.required_vo: LP/DriverSound.v LP/Driver.vo LP/OptTestSound.vo
LP/DriverSound.vio: LP/DriverSound.v LP/Driver.vio LP/OptTestSound.vio
LP/DriverSound.vos LP/DriverSound.vok LP/DriverSound.required_vos: LP/DriverSound.v LP/Driver.vos LP/OptTestSound.vos
LP/Agree.vo LP/Agree.glob LP/Agree.v.beautified LP/Agree.required_vo: LP/Agree.v LP/DriverSound.vo LP/Unique.vo
LP/Agree.vio: LP/Agree.v LP/DriverSound.vio LP/Unique.vio
LP/Agree.vos LP/Agree.vok LP/Agree.required_vos: LP/Agree.v LP/DriverSound.vos LP/Unique.vos
Store/Spec.vo Store/Spec.glob Store/Spec.v.beautified Store/Spec.required_vo: Store/Spec.v LP/User.vo
Store/Spec.vio: Store/Spec.v LP/User.vio
Store/Spec.vos Store/Spec.vok Store/Spec.required_vos: Store/Spec.v LP/User.vos
Store/SpecInv.vo Store/SpecInv.glob Store/SpecInv.v.beautified Store/SpecInv.required_vo: Store/SpecInv.v Store/Spec.vo
Store/SpecInv.vio: Store/SpecInv.v Store/Spec.vio
Store/SpecInv.vos Store/SpecInv.vok Store/SpecInv.required_vos: Store/SpecInv.v Store/Spec.vos
Store/SpecValid.vo Store/SpecValid.glob Store/SpecValid.v.beautified Store/SpecValid.required_vo: Store/SpecValid.v Store/Spec.vo Store/SpecInv.vo
Store/SpecValid.vio: Store/SpecValid.v Store/Spec.vio Store/SpecInv.vio
Store/SpecValid.vos Store/SpecValid.vok Store/SpecValid.required_vos: Store/SpecValid.v Store/Spec.vos Store/SpecInv.vos
Store/Api.vo Store/Api.glob Store/Api.v.beautified Store/Api.required_vo: Store/Api.v Store/Spec.vo Store/SpecInv.vo LP/Cert.vo LP/CertSound.vo LP/Unique.vo
Store/Api.vio: Store/Api.v Store/Spec.vio Store/SpecInv.vio LP/Cert.vio LP/CertSound.vio LP/Unique.vio
Store/Api.vos Store/Api.vok Store/Api.required_vos: Store/Api.v Store/Spec.vos Store/SpecInv.vos LP/Cert.vos LP/CertSound.vos LP/Unique.vos
Store/ApiInv.vo Store/ApiInv.glob Store/ApiInv.v.beautified Store/ApiInv.required_vo: Store/ApiInv.v Store/Spec.vo Store/SpecInv.vo Store/Api.vo LP/Cert.vo LP/CertSound.vo LP/Unique.vo
Store/ApiInv.vio: Store/ApiInv.v Store/Spec.vio Store/SpecInv.vio Store/Api.vio LP/Cert.vio LP/CertSound.vio LP/Unique.vio
Store/ApiInv.vos Store/ApiInv.vok Store/ApiInv.required_vos: Store/ApiInv.v Store/Spec.vos Store/SpecInv.vos Store/Api.vos LP/Cert.vos LP/CertSound.vos LP/Unique.vos
