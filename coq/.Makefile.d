Base/QSum.vo Base/QSum.glob Base/QSum.v.beautified Base/QSum.required_vo: Base/QSum.v 
Base/QSum.vio: Base/QSum.v 
Base/QSum.vos Base/QSum.vok Base/QSum.required_vos: Base/QSum.v 
LP/ILP.vo LP/ILP.glob LP/ILP.v.beautified LP/ILP.required_vo: LP/ILP.v Base/QSum.vo
LP/ILP.vio: LP/ILP.v Base/QSum.vio
LP/ILP.vos LP/ILP.vok LP/ILP.required_vos: LP/ILP.v Base/QSum.vos
LP/Cert.vo LP/Cert.glob LP/Cert.v.beautified LP/Cert.required_vo: LP/Cert.v LP/ILP.vo
LP/Cert.vio: LP/Cert.v LP/ILP.vio
LP/Cert.vos LP/Cert.vok LP/Cert.required_vos: LP/Cert.v LP/ILP.vos
LP/CertSound.vo LP/CertSound.glob LP/CertSound.v.beautified LP/CertSound.required_vo: LP/CertSound.v LP/Cert.vo
LP/CertSound.vio: LP/CertSound.v LP/Cert.vio
LP/CertSound.vos LP/CertSound.vok LP/CertSound.required_vos: LP/CertSound.v LP/Cert.vos
LP/Unique.vo LP/Unique.glob LP/Unique.v.beautified LP/Unique.required_vo: LP/Unique.v LP/CertSound.vo
LP/Unique.vio: LP/Unique.v LP/CertSound.vio
LP/Unique.vos LP/Unique.vok LP/Unique.required_vos: LP/Unique.v LP/CertSound.vos
LP/User.vo LP/User.glob LP/User.v.beautified LP/User.required_vo: LP/User.v LP/ILP.vo
LP/User.vio: LP/User.v LP/ILP.vio
LP/User.vos LP/User.vok LP/User.required_vos: LP/User.v LP/ILP.vos
LP/UserSound.vo LP/UserSound.glob LP/UserSound.v.beautified LP/UserSound.required_vo: LP/UserSound.v LP/User.vo LP/OptTest.vo
LP/UserSound.vio: LP/UserSound.v LP/User.vio LP/OptTest.vio
LP/UserSound.vos LP/UserSound.vok LP/UserSound.required_vos: LP/UserSound.v LP/User.vos LP/OptTest.vos
LP/OptTest.vo LP/OptTest.glob LP/OptTest.v.beautified LP/OptTest.required_vo: LP/OptTest.v LP/Cert.vo
LP/OptTest.vio: LP/OptTest.v LP/Cert.vio
LP/OptTest.vos LP/OptTest.vok LP/OptTest.required_vos: LP/OptTest.v LP/Cert.vos
LP/OptTestSound.vo LP/OptTestSound.glob LP/OptTestSound.v.beautified LP/OptTestSound.required_vo: LP/OptTestSound.v LP/OptTest.vo LP/CertSound.vo
LP/OptTestSound.vio: LP/OptTestSound.v LP/OptTest.vio LP/CertSound.vio
LP/OptTestSound.vos LP/OptTestSound.vok LP/OptTestSound.required_vos: LP/OptTestSound.v LP/OptTest.vos LP/CertSound.vos
LP/Driver.vo LP/Driver.glob LP/Driver.v.beautified LP/Driver.required_vo: LP/Driver.v LP/OptTest.vo
LP/Driver.vio: LP/Driver.v LP/OptTest.vio
LP/Driver.vos LP/Driver.vok LP/Driver.required_vos: LP/Driver.v LP/OptTest.vos
LP/DriverSound.vo LP/DriverSound.glob LP/DriverSound.v.beautified LP/DriverSound.required_vo: LP/DriverSound.v LP/Driver.vo LP/OptTestSound.vo
LP/DriverSound.vio: LP/DriverSound.v LP/Driver.vio LP/OptTestSound.vio
LP/DriverSound.vos LP/DriverSound.vok LP/DriverSound.required_vos: LP/DriverSound.v LP/Driver.vos LP/OptTestSound.vos
LP/Agree.vo LP/Agree.glob LP/Agree.v.beautified LP/Agree.required_vo: LP/Agree.v LP/DriverSound.vo LP/Unique.vo
LP/Agree.vio: LP/Agree.v LP/DriverSound.vio LP/Unique.vio
LP/Agree.vos LP/Agree.vok LP/Agree.required_vos: LP/Agree.v LP/DriverSound.vos LP/Unique.vos
Fac/Gauss.vo Fac/Gauss.glob Fac/Gauss.v.beautified Fac/Gauss.required_vo: Fac/Gauss.v Base/QSum.vo
Fac/Gauss.vio: Fac/Gauss.v Base/QSum.vio
Fac/Gauss.vos Fac/Gauss.vok Fac/Gauss.required_vos: Fac/Gauss.v Base/QSum.vos
Fac/GaussSound.vo Fac/GaussSound.glob Fac/GaussSound.v.beautified Fac/GaussSound.required_vo: Fac/GaussSound.v Fac/Gauss.vo
Fac/GaussSound.vio: Fac/GaussSound.v Fac/Gauss.vio
Fac/GaussSound.vos Fac/GaussSound.vok Fac/GaussSound.required_vos: Fac/GaussSound.v Fac/Gauss.vos
Fac/Basis.vo Fac/Basis.glob Fac/Basis.v.beautified Fac/Basis.required_vo: Fac/Basis.v Fac/Gauss.vo LP/OptTest.vo
Fac/Basis.vio: Fac/Basis.v Fac/Gauss.vio LP/OptTest.vio
Fac/Basis.vos Fac/Basis.vok Fac/Basis.required_vos: Fac/Basis.v Fac/Gauss.vos LP/OptTest.vos
Fac/BasisSound.vo Fac/BasisSound.glob Fac/BasisSound.v.beautified Fac/BasisSound.required_vo: Fac/BasisSound.v Fac/Basis.vo Fac/GaussSound.vo LP/OptTestSound.vo
Fac/BasisSound.vio: Fac/BasisSound.v Fac/Basis.vio Fac/GaussSound.vio LP/OptTestSound.vio
Fac/BasisSound.vos Fac/BasisSound.vok Fac/BasisSound.required_vos: Fac/BasisSound.v Fac/Basis.vos Fac/GaussSound.vos LP/OptTestSound.vos
Fac/Factor.vo Fac/Factor.glob Fac/Factor.v.beautified Fac/Factor.required_vo: Fac/Factor.v Fac/GaussSound.vo
Fac/Factor.vio: Fac/Factor.v Fac/GaussSound.vio
Fac/Factor.vos Fac/Factor.vok Fac/Factor.required_vos: Fac/Factor.v Fac/GaussSound.vos
Fac/FactorSound.vo Fac/FactorSound.glob Fac/FactorSound.v.beautified Fac/FactorSound.required_vo: Fac/FactorSound.v Fac/Factor.vo
Fac/FactorSound.vio: Fac/FactorSound.v Fac/Factor.vio
Fac/FactorSound.vos Fac/FactorSound.vok Fac/FactorSound.required_vos: Fac/FactorSound.v Fac/Factor.vos
