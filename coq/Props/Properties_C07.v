(* C07  Invalid arguments are rejected with an error and leave the problem untouched.

   Model level (Store.Spec): [valid_args M p op] is what the property text calls valid arguments
   (indices in the structural / row range, names new resp. known, senses in LGER, selectors in LUB,
   legal parameter ids and values, index lists without repetition; multi-item calls are valid only
   if every item is).  The theorems say that the reference semantics has exactly two outcomes,
   rejects exactly the invalid calls, and that a rejected call changes nothing - for every op.
   The library is compared with this on boundary probes by checks/C07.py (forked ASan children). *)
From Coq Require Import String Ascii ZArith.
From QSX Require Import Store.Spec Store.SpecInv Store.SpecValid.
Local Open Scope Q_scope.

Theorem C07_err_atomic : forall M p o, snd (pstep M p o) = RErr -> fst (pstep M p o) = p.
Proof. exact err_leaves_state. Qed.
Print Assumptions C07_err_atomic.

Theorem C07_rejects_iff_invalid : forall M p o, valid_args M p o = false <-> snd (pstep M p o) = RErr.
Proof. exact rejects_iff_invalid. Qed.
Print Assumptions C07_rejects_iff_invalid.

(* with several handles: a failed call on a live handle leaves that problem, and every other, as it was *)
Theorem C07_err_atomic_store : forall M s h o p,
  get_h s h = Some p -> snd (sstep M s (SOn h o)) = RErr -> get_h (fst (sstep M s (SOn h o))) h = Some p.
Proof. exact sstep_err_atomic. Qed.
Print Assumptions C07_err_atomic_store.

Theorem C07_frame : forall M s o h', target o <> h' -> get_h (fst (sstep M s o)) h' = get_h s h'.
Proof. exact frame. Qed.
Print Assumptions C07_frame.

(* the model never reads outside its lists: the invariant (every stored entry refers to an existing row,
   names distinct) survives every op, valid or not *)
Theorem C07_no_fault : forall M p o, wf_spec p -> wf_spec (fst (pstep M p o)).
Proof. exact pstep_wf. Qed.
Print Assumptions C07_no_fault.

(* what valid_args means, op family by op family (the case splits the probes are derived from) *)
Theorem C07_valid_index_pair : forall M p i j v,
  valid_args M p (ChgCoef i j v) = true <-> in_range (nrow p) i /\ in_range (ncol p) j.
Proof. exact valid_chgcoef. Qed.
Print Assumptions C07_valid_index_pair.

Theorem C07_valid_col_index : forall M p j v, valid_args M p (ChgObj j v) = true <-> in_range (ncol p) j.
Proof. exact valid_chgobj. Qed.
Print Assumptions C07_valid_col_index.

Theorem C07_valid_bounds : forall M p l,
  valid_args M p (ChgBnds l) = true <-> Forall (fun b => in_range (ncol p) (fst (fst b)) /\ lu_of_ascii (snd (fst b)) <> None) l.
Proof. exact valid_chgbnds. Qed.
Print Assumptions C07_valid_bounds.

Theorem C07_valid_senses : forall M p l,
  valid_args M p (ChgSenses l) = true <-> Forall (fun b => in_range (nrow p) (fst b) /\ sense_of_ascii (snd b) <> None) l.
Proof. exact valid_chgsenses. Qed.
Print Assumptions C07_valid_senses.

Theorem C07_valid_delete : forall M p l,
  valid_args M p (DelRows l) = true <-> Forall (in_range (nrow p)) l /\ NoDup l.
Proof. exact valid_delrows. Qed.
Print Assumptions C07_valid_delete.

Theorem C07_valid_new_name : forall M p obj lo up s,
  valid_args M p (NewCol obj lo up (Some s)) = true <-> ~ In s (colnames p).
Proof. exact valid_newcol_named. Qed.
Print Assumptions C07_valid_new_name.

Theorem C07_valid_known_name : forall M p s, valid_args M p (DelNRows [s]) = true <-> In s (rownames p).
Proof. exact valid_delnrow. Qed.
Print Assumptions C07_valid_known_name.

Theorem C07_valid_addrow : forall M p rhs sn rng s ent,
  valid_args M p (AddRow rhs sn rng (Some s) ent) = true <->
  sense_of_ascii sn <> None /\ ~ In s (rownames p) /\ Forall (fun e => in_range (ncol p) (fst e)) ent.
Proof. exact valid_addrow_named. Qed.
Print Assumptions C07_valid_addrow.

(* hypotheses satisfiable: one rejected and one accepted boundary probe on a 1 x 1 problem *)
Example C07_example :
  let p := prun 1000 (empty_prob 1000 false) [NewCol 1 0 5 None; NewRow 4 "L" None] in
  valid_args 1000 p (ChgBnds [(1%Z, "U"%char, 3)]) = false /\ valid_args 1000 p (ChgBnds [(0%Z, "U"%char, 3)]) = true /\
  valid_args 1000 p (NewRow 1 "X" None) = false /\ valid_args 1000 p (DelRows [0%Z; 0%Z]) = false.
Proof. vm_compute. repeat split; reflexivity. Qed.

(* ===== generated guard lemmas (DESIGN 3.1): the range checks of the CURRENT source =====
   tools/gen_guards.py (run by tools/gen_all.py and by checks/C07.py before compiling) extracts from the preprocessed
   qsopt_ex/lib.c and qsopt_ex/qsopt.c, for every function with an index parameter, the first range check of that parameter as
   a tree over (index, nrows, nstruct, ncols) -> coq/Gen/Guards.v.  Store/GuardsOk.v proves over that list: every guard rejects
   exactly the indices outside the range of the argument's role (row: 0 <= i < nrows; structural column: 0 <= j < nstruct;
   internal column: 0 <= j < ncols = nstruct + nrows); every public QS* function with an index argument reaches one
   (delegations, unguarded = []); nothing was left untranslated.  A weakened guard in the source breaks C07_guards_exact at the
   next run. *)
From QSX Require Import Store.GuardDefs Gen.Guards Store.GuardsOk.

Theorem C07_guards_exact : Forall guard_exact guards.
Proof. exact guards_exact. Qed.
Print Assumptions C07_guards_exact.

Theorem C07_guards_complete : unguarded = [] /\ untranslated = [].
Proof. exact guards_complete. Qed.
Print Assumptions C07_guards_complete.

Theorem C07_guards_classified : forallb (fun g => match g_role g with RUnknown => false | _ => true end) guards = true.
Proof. exact guards_classified. Qed.
Print Assumptions C07_guards_classified.

Theorem C07_guards_accept_iff_valid : Forall (fun g => forall i nrows nstruct, (0 <= nrows)%Z -> (0 <= nstruct)%Z ->
  guard_accepts g i nrows nstruct = role_accepts (g_role g) i nrows nstruct) guards.
Proof. exact guards_accept_iff_valid. Qed.
Print Assumptions C07_guards_accept_iff_valid.

(* the list is not empty and has the expected shape: e.g. the guard of ILLlib_chgbnd is `indx < 0 || indx >= nstruct` *)
Example C07_guards_example :
  (20 <= List.length guards)%nat /\
  existsb (fun g => String.eqb (g_fn g) "ILLlib_chgbnd" && negb (guard_accepts g 3 2 3) && guard_accepts g 2 2 3) guards = true.
Proof. vm_compute. split; [repeat constructor|reflexivity]. Qed.
