(* C12  Basis verdicts and returned bases are exact.
   Statements only: each closed by `exact`/a short term, each followed by Print Assumptions.
   Models: Fac/Gauss.v (exact solves), Fac/Basis.v (QSexact_basis_optimalstatus / _dualstatus / QSexact_verify
   without prestep, after exact.c / fct.c / basis.c).  The tie to the code is the correspondence of checks/C12.py. *)
From QSX Require Import Fac.GaussSound Fac.BasisSound Fac.BasisLoad.
Local Open Scope Q_scope.

(* 1. exact solves under the basis model, all dimensions: an answer is a solution; no answer comes with a
      non-zero left null vector; an answer exists exactly for non-singular matrices; solutions are unique *)
Theorem C12_solve_correct :
  forall n A b x, solve n A b = Some x -> is_solution n A x b /\ length x = n.
Proof. exact solve_correct. Qed.
Print Assumptions C12_solve_correct.

Theorem C12_solve_none_singular :
  forall n A b, solve n A b = None -> exists y, left_null n A y.
Proof. exact solve_none_singular. Qed.
Print Assumptions C12_solve_none_singular.

Theorem C12_solve_some_iff_nonsingular :
  forall n A b, (exists x, solve n A b = Some x) <-> nonsingular n A.
Proof. exact solve_some_iff_nonsingular. Qed.
Print Assumptions C12_solve_some_iff_nonsingular.

Theorem C12_solution_unique :
  forall n A b x x', nonsingular n A -> is_solution n A x b -> is_solution n A x' b ->
    forall j, (j < n)%nat -> qnth x j == qnth x' j.
Proof. exact solution_unique. Qed.
Print Assumptions C12_solution_unique.

(* 2. optimalstatus_iff: for a basis the loader accepts and whose matrix is non-singular, the verdict of the model of
      QSexact_basis_optimalstatus is 'optimal' iff THE basic solution (any x, pi solving B x = b - N x_N and
      pi B = c_B; they are unique by 1.) is primal feasible (basic variables within their bounds, a bound equal to the
      sentinel M counting as absent) and dual feasible (sign of every non-basic reduced cost admissible for its status,
      fixed/artificial columns exempt, free non-basic columns need dz = 0); it is 'not optimal' iff that fails. *)
Theorem C12_optimalstatus_iff :
  forall M P ns isR B, wf_ilp P = true -> forall x pi,
    load_ok P ns isR B = true -> nonsingular (bm P) (Bmat P B) ->
    is_solution (bm P) (Bmat P B) x (rhsN P B) -> is_left_solution (bm P) (Bmat P B) pi (cB P B) ->
    (basis_optimalstatus M P ns isR B = VRes true 0 <->
       primal_feasible_sem M P B (qnth x) /\ dual_feasible_sem M P ns B (qnth pi)) /\
    (basis_optimalstatus M P ns isR B = VRes false 0 <->
       ~ (primal_feasible_sem M P B (qnth x) /\ dual_feasible_sem M P ns B (qnth pi))).
Proof. exact optimalstatus_iff. Qed.
Print Assumptions C12_optimalstatus_iff.

(* 3. dualstatus: with any stack value other than PRIMAL_UNBOUNDED in the uninitialised fi.pstatus, the verdict is
      exactly dual feasibility of the basis and the reported bound is exactly its dual objective
      pi.b + sum over non-basic columns of dz_j * (bound the column sits at), in the internal minimisation form
      (c = -obj for a MAX problem: the reported number is minus the user's dual bound) *)
Theorem C12_dualstatus_iff :
  forall M P ns isR B, wf_ilp P = true -> forall g pi,
    load_ok P ns isR B = true -> nonsingular (bm P) (Bmat P B) -> g <> PRIMAL_UNBOUNDED ->
    is_left_solution (bm P) (Bmat P B) pi (cB P B) ->
    (dual_feasible_sem M P ns B (qnth pi) ->
       exists d, basis_dualstatus M P ns isR B g = VRes true d /\ d == dual_objective_sem P B (qnth pi)) /\
    (~ dual_feasible_sem M P ns B (qnth pi) -> basis_dualstatus M P ns isR B g = VRes false 0).
Proof. exact dualstatus_iff. Qed.
Print Assumptions C12_dualstatus_iff.

Theorem C12_dualstatus_value :
  forall M P ns isR B, wf_ilp P = true -> forall g d,
    load_ok P ns isR B = true -> basis_dualstatus M P ns isR B g = VRes true d ->
    exists pi, is_left_solution (bm P) (Bmat P B) pi (cB P B) /\ dual_feasible_sem M P ns B (qnth pi) /\
               d == dual_objective_sem P B (qnth pi).
Proof. exact dualstatus_value. Qed.
Print Assumptions C12_dualstatus_value.

(* 4. the uninitialised argument (DESIGN section 10 #15).  `dualstatus_ignores_pstatus` - the answer does not depend on
      the stack value - is REFUTED: value 5 turns a dual feasible basis into 'not dual feasible' (witness computed;
      checks/C12.py replays it on the real function with a prepared stack).  What holds is the _partial form:
      all values other than PRIMAL_UNBOUNDED give one answer.  Missing part: the case g = 5 (a code defect). *)
Theorem C12_dualstatus_ignores_pstatus_refuted :
  exists M P ns isR B g g', basis_dualstatus M P ns isR B g <> basis_dualstatus M P ns isR B g'.
Proof. exact dualstatus_ignores_pstatus_refuted. Qed.
Print Assumptions C12_dualstatus_ignores_pstatus_refuted.

Theorem C12_dualstatus_ignores_pstatus_partial :
  forall M P ns isR B g g', g <> PRIMAL_UNBOUNDED -> g' <> PRIMAL_UNBOUNDED ->
    basis_dualstatus M P ns isR B g = basis_dualstatus M P ns isR B g'.
Proof. exact dualstatus_ignores_pstatus_partial. Qed.
Print Assumptions C12_dualstatus_ignores_pstatus_partial.

(* 5. an 'optimal' verdict is backed by a certificate: when the statuses of the non-basic columns are consistent with
      their bounds (at-lower needs a finite lower bound, at-upper a finite upper bound, free needs 0 within the bounds),
      the basic solution together with the multipliers passes the verified KKT checker of LP/Cert.v (C01) under the
      reading "sentinel = no bound", hence is an optimum of the internal LP; under the literal reading when no bound
      of the LP is the sentinel *)
Theorem C12_basis_optimal_is_optimum :
  forall M P ns isR B, wf_ilp P = true -> basis_optimalstatus M P ns isR B = VRes true 0 -> nonbasic_ok M P B = true ->
  exists xB pi,
    xB_of P B = Some xB /\ pi_of P B = Some pi /\
    check_kkt (inf_sentinel M) P (zfull P B xB) (yuser P pi) (objval_l (i_cols P) (zfull P B xB)) = true /\
    is_optimum (inf_sentinel M) P (qnth (zfull P B xB)) (objval_l (i_cols P) (zfull P B xB)).
Proof. exact basis_optimal_is_optimum. Qed.
Print Assumptions C12_basis_optimal_is_optimum.

Theorem C12_basis_optimal_is_optimum_literal :
  forall M P ns isR B, wf_ilp P = true -> basis_optimalstatus M P ns isR B = VRes true 0 -> nonbasic_ok M P B = true ->
  no_sentinel_bounds M P = true ->
  exists xB pi,
    xB_of P B = Some xB /\ pi_of P B = Some pi /\
    check_kkt inf_none P (zfull P B xB) (yuser P pi) (objval_l (i_cols P) (zfull P B xB)) = true.
Proof. exact basis_optimal_is_optimum_literal. Qed.
Print Assumptions C12_basis_optimal_is_optimum_literal.

(* hypotheses of 2.-5. are satisfiable: a concrete LP and basis with verdict 'optimal' *)
Example C12_hypotheses_satisfiable :
  wf_ilp exP = true /\ load_ok exP 2 [false; false] exB = true /\ nonbasic_ok 1000 exP exB = true /\
  basis_optimalstatus 1000 exP 2 [false; false] exB = VRes true 0.
Proof. vm_compute. repeat split. Qed.

(* 6. singular bases: the model gives no verdict (the library repairs the basis in LU pivot order, not modelled);
      the check reports any 'optimal' answer of the library for a basis the model finds singular *)
Theorem C12_singular_no_verdict :
  forall M P ns isR B, load_ok P ns isR B = true -> ~ nonsingular (bm P) (Bmat P B) ->
    basis_optimalstatus M P ns isR B = VSingular /\ forall g, basis_dualstatus M P ns isR B g = VSingular.
Proof. exact singular_verdict. Qed.
Print Assumptions C12_singular_no_verdict.

(* 7. returned bases.  returned_basis_primal: the primal vector accepted by the library's own optimality test
      (QSexact_optimal_test, model LP/OptTest.v) is the exact basic solution of the basis it was accepted with, whenever that
      basis is non-singular and the non-basic components sit at the values their statuses name (at-lower: lower bound,
      at-upper: upper bound, free: 0 - the test itself clamps free columns, hence the hypothesis) *)
Theorem C12_returned_basis_primal :
  forall P ns isR B ps ds s xB,
    wf_logicals (skipn ns (i_cols P)) 0 = true ->
    opt_test P ns B ps ds = Some s -> load_ok P ns isR B = true ->
    nonsingular (bm P) (Bmat P B) -> xB_of P B = Some xB ->
    (forall j, (j < bn P)%nat -> basicb B j = false -> qnth (sx s ++ sslack s) j == xnb P B j) ->
    forall k, (k < bm P)%nat -> qnth (sx s ++ sslack s) (baz P B k) == qnth xB k.
Proof. exact returned_basis_primal. Qed.
Print Assumptions C12_returned_basis_primal.

(* a basis that passed the library's own optimality test has exactly one basic entry per row *)
Theorem C12_returned_basis_count :
  forall P ns B ps ds s, opt_test P ns B ps ds = Some s -> count_basic B = nrows P.
Proof. exact returned_basis_count. Qed.
Print Assumptions C12_returned_basis_count.

(* 8. the loader (ILLbasis_load after the repair basis_load_normalise).  The status of every non-basic structural column
      is normalised against its bounds when the basis is loaded (at-lower without a lower bound -> at-upper / free, ...;
      Fac/Basis.v [norm_stat], [loaded_basis]); the library's verdict functions are the evaluations of 2.-6. applied to
      the basis as loaded: [lib_optimalstatus], [lib_dualstatus].  checks/C12.py compares THESE with the real functions.
      The normalisation changes no basic entry and none of the loader's admissibility tests; it is idempotent and the
      identity on bases whose statuses name bounds the columns have. *)
Theorem C12_load_ok_loaded :
  forall M P ns isR B, load_ok P ns isR (loaded_basis M P B) = load_ok P ns isR B.
Proof. exact load_ok_loaded. Qed.
Print Assumptions C12_load_ok_loaded.

Theorem C12_loaded_same_basic_set :
  forall M P B, (forall j, basicb (loaded_basis M P B) j = basicb B j) /\ Bmat P (loaded_basis M P B) = Bmat P B.
Proof. intros M P B. split; [intros j; apply basicb_loaded|apply Bmat_loaded]. Qed.
Print Assumptions C12_loaded_same_basic_set.

Theorem C12_loaded_basis_idem :
  forall M P B, loaded_basis M P (loaded_basis M P B) = loaded_basis M P B.
Proof. exact loaded_basis_idem. Qed.
Print Assumptions C12_loaded_basis_idem.

Theorem C12_loaded_basis_id :
  forall M P B, (forall j, (j < length (cstat B))%nat -> stat_has_bound M (col P j) (nth j (cstat B) BOther) = true) ->
    loaded_basis M P B = B.
Proof. exact loaded_basis_id. Qed.
Print Assumptions C12_loaded_basis_id.

(* every status of the loaded basis names a bound its column has *)
Theorem C12_loaded_statuses_have_bounds :
  forall M P B j, (j < length (cstat B))%nat -> stat_has_bound M (col P j) (stat (loaded_basis M P B) j) = true.
Proof.
  intros M P B j Hj. rewrite stat_loaded. apply Nat.ltb_lt in Hj. rewrite Hj. apply norm_stat_has_bound.
Qed.
Print Assumptions C12_loaded_statuses_have_bounds.

(* 2'. and 3'. for the library functions *)
Theorem C12_lib_optimalstatus_iff :
  forall M P ns isR B, wf_ilp P = true -> forall x pi,
    load_ok P ns isR B = true ->
    nonsingular (bm P) (Bmat P (loaded_basis M P B)) ->
    is_solution (bm P) (Bmat P (loaded_basis M P B)) x (rhsN P (loaded_basis M P B)) ->
    is_left_solution (bm P) (Bmat P (loaded_basis M P B)) pi (cB P (loaded_basis M P B)) ->
    (lib_optimalstatus M P ns isR B = VRes true 0 <->
       primal_feasible_sem M P (loaded_basis M P B) (qnth x) /\ dual_feasible_sem M P ns (loaded_basis M P B) (qnth pi)) /\
    (lib_optimalstatus M P ns isR B = VRes false 0 <->
       ~ (primal_feasible_sem M P (loaded_basis M P B) (qnth x) /\ dual_feasible_sem M P ns (loaded_basis M P B) (qnth pi))).
Proof. exact lib_optimalstatus_iff. Qed.
Print Assumptions C12_lib_optimalstatus_iff.

Theorem C12_lib_dualstatus_iff :
  forall M P ns isR B, wf_ilp P = true -> forall g pi,
    load_ok P ns isR B = true -> nonsingular (bm P) (Bmat P (loaded_basis M P B)) -> g <> PRIMAL_UNBOUNDED ->
    is_left_solution (bm P) (Bmat P (loaded_basis M P B)) pi (cB P (loaded_basis M P B)) ->
    (dual_feasible_sem M P ns (loaded_basis M P B) (qnth pi) ->
       exists d, lib_dualstatus M P ns isR B g = VRes true d /\ d == dual_objective_sem P (loaded_basis M P B) (qnth pi)) /\
    (~ dual_feasible_sem M P ns (loaded_basis M P B) (qnth pi) -> lib_dualstatus M P ns isR B g = VRes false 0).
Proof. exact lib_dualstatus_iff. Qed.
Print Assumptions C12_lib_dualstatus_iff.

Theorem C12_lib_dualstatus_value :
  forall M P ns isR B, wf_ilp P = true -> forall g d,
    load_ok P ns isR B = true -> lib_dualstatus M P ns isR B g = VRes true d ->
    exists pi, is_left_solution (bm P) (Bmat P (loaded_basis M P B)) pi (cB P (loaded_basis M P B)) /\
               dual_feasible_sem M P ns (loaded_basis M P B) (qnth pi) /\
               d == dual_objective_sem P (loaded_basis M P B) (qnth pi).
Proof. exact lib_dualstatus_value. Qed.
Print Assumptions C12_lib_dualstatus_value.

(* 5'. an 'optimal' verdict of the library IS an optimum: the hypothesis nonbasic_ok on the basis (5.) is gone; what is
      left is a condition on the LP alone ([lp_bounds_ok]: no column with crossed finite bounds; the logical of every row
      has a finite lower bound and, for a ranged row, a finite upper bound - the shape the library gives them) *)
Theorem C12_nonbasic_ok_loaded :
  forall M P ns isR B, load_ok P ns isR B = true -> lp_bounds_ok M P ns isR = true ->
    nonbasic_ok M P (loaded_basis M P B) = true.
Proof. exact nonbasic_ok_loaded. Qed.
Print Assumptions C12_nonbasic_ok_loaded.

Theorem C12_lib_optimal_is_optimum :
  forall M P ns isR B, wf_ilp P = true -> lp_bounds_ok M P ns isR = true ->
    lib_optimalstatus M P ns isR B = VRes true 0 ->
    exists xB pi,
      xB_of P (loaded_basis M P B) = Some xB /\ pi_of P (loaded_basis M P B) = Some pi /\
      check_kkt (inf_sentinel M) P (zfull P (loaded_basis M P B) xB) (yuser P pi)
                (objval_l (i_cols P) (zfull P (loaded_basis M P B) xB)) = true /\
      is_optimum (inf_sentinel M) P (qnth (zfull P (loaded_basis M P B) xB))
                 (objval_l (i_cols P) (zfull P (loaded_basis M P B) xB)).
Proof. exact lib_optimal_is_optimum. Qed.
Print Assumptions C12_lib_optimal_is_optimum.

Theorem C12_lib_singular_no_verdict :
  forall M P ns isR B, load_ok P ns isR B = true -> ~ nonsingular (bm P) (Bmat P (loaded_basis M P B)) ->
    lib_optimalstatus M P ns isR B = VSingular /\ forall g, lib_dualstatus M P ns isR B g = VSingular.
Proof. exact lib_singular_verdict. Qed.
Print Assumptions C12_lib_singular_no_verdict.

(* satisfiable, and the normalisation does something: a bounded column marked free is loaded at-lower *)
Example C12_lib_hypotheses_satisfiable :
  wf_ilp exP = true /\ lp_bounds_ok 1000 exP 2 [false; false] = true /\
  lib_optimalstatus 1000 exP 2 [false; false] exB = VRes true 0 /\
  loaded_basis 1000 exP {| cstat := [BBasic; BFree]; rstat := [BBasic; BLower] |} =
    {| cstat := [BBasic; BLower]; rstat := [BBasic; BLower] |}.
Proof. vm_compute. repeat split. Qed.
