(* C12  Basis verdicts and returned bases are exact.
   Statements only: each closed by `exact`/a short term, each followed by Print Assumptions. *)
From QSX Require Import Fac.GaussSound.
Local Open Scope Q_scope.

(* 1. the exact solver under the basis model: an answer is a solution, no answer comes with a non-zero
      left null vector, and the answer exists exactly for non-singular matrices (all dimensions) *)
Theorem C12_solve_correct :
  forall n A b x, solve n A b = Some x -> is_solution n A x b /\ length x = n.
Proof. exact solve_correct. Qed.
Print Assumptions C12_solve_correct.

Theorem C12_solve_none_singular :
  forall n A b, solve n A b = None -> exists y, left_null n A y.
Proof. exact solve_none_singular. Qed.
Print Assumptions C12_solve_none_singular.

Theorem C12_solve_some_iff_nonsingular :
  forall n A b, (exists x, solve n A b = Some x) <-> nonsingular n A.
Proof. exact solve_some_iff_nonsingular. Qed.
Print Assumptions C12_solve_some_iff_nonsingular.

Theorem C12_solution_unique :
  forall n A b x x', nonsingular n A -> is_solution n A x b -> is_solution n A x' b ->
    forall j, (j < n)%nat -> qnth x j == qnth x' j.
Proof. exact solution_unique. Qed.
Print Assumptions C12_solution_unique.
