(* C04  The answer is a function of the LP only, not of how the solver is driven.
   A configuration of the exact driver is a pair of oracles + start algorithm + warm-start
   basis; the theorems quantify over two arbitrary configurations at once. *)
From QSX Require Import LP.Agree LP.Unique LP.CertSound.
Local Open Scope Q_scope.

Theorem C04_optimal_values_agree :
  forall M P ns, wf_ilp P = true -> wf_logicals (skipn ns (i_cols P)) 0 = true ->
  forall fs1 fs2 bs1 bs2 eb1 eb2 mi1 mi2 a1 a2,
    let r1 := exact_solver M P ns fs1 bs1 eb1 mi1 a1 in
    let r2 := exact_solver M P ns fs2 bs2 eb2 mi2 a2 in
    r_rval r1 = false -> r_status r1 = StOptimal -> r_rval r2 = false -> r_status r2 = StOptimal ->
    exists s1 s2, r_sol r1 = Some s1 /\ r_sol r2 = Some s2 /\ sval s1 == sval s2.
Proof. exact optimal_values_agree. Qed.
Print Assumptions C04_optimal_values_agree.

Theorem C04_optimal_infeasible_exclusive :
  forall M P ns, wf_ilp P = true -> wf_logicals (skipn ns (i_cols P)) 0 = true ->
  forall fs1 fs2 bs1 bs2 eb1 eb2 mi1 mi2 a1 a2,
    let r1 := exact_solver M P ns fs1 bs1 eb1 mi1 a1 in
    let r2 := exact_solver M P ns fs2 bs2 eb2 mi2 a2 in
    r_rval r1 = false -> r_status r1 = StOptimal -> r_rval r2 = false -> r_status r2 = StInfeasible -> False.
Proof. exact optimal_infeasible_exclusive. Qed.
Print Assumptions C04_optimal_infeasible_exclusive.

(* answers judged by the checkers (any entry point, incl. the direct rational simplex) cannot disagree *)
Theorem C04_certified_values_agree :
  forall I P z1 y1 v1 z2 y2 v2,
    check_kkt I P z1 y1 v1 = true -> check_kkt I P z2 y2 v2 = true -> v1 == v2.
Proof.
  intros I P z1 y1 v1 z2 y2 v2 H1 H2. apply (optimum_value_unique I P).
  - exists (qnth z1). exact (check_kkt_sound I P z1 y1 v1 H1).
  - exists (qnth z2). exact (check_kkt_sound I P z2 y2 v2 H2).
Qed.
Print Assumptions C04_certified_values_agree.

Theorem C04_certified_optimal_excludes_infeasible :
  forall I P z y v y', check_kkt I P z y v = true -> check_farkas I P y' = true -> False.
Proof.
  intros I P z y v y' H1 H2. destruct (check_kkt_sound I P z y v H1) as (F & _).
  exact (check_farkas_sound I P y' H2 _ F).
Qed.
Print Assumptions C04_certified_optimal_excludes_infeasible.
