(* C02  INFEASIBLE is only ever reported together with an exact Farkas certificate. *)
From QSX Require Import LP.CertSound LP.OptTestSound LP.UserSound LP.DriverSound.
Local Open Scope Q_scope.

Theorem C02_checker_sound : forall I P y, check_farkas I P y = true -> infeasible I P.
Proof. exact check_farkas_sound. Qed.
Print Assumptions C02_checker_sound.

Theorem C02_infeas_test_sound_user :
  forall M U y, infeas_test M (to_internal M U) y = true -> uinfeasible M U.
Proof.
  intros M U y T. apply user_infeasible.
  exact (infeas_test_sound M _ y (to_internal_wf M U) T).
Qed.
Print Assumptions C02_infeas_test_sound_user.

Theorem C02_driver_infeasible_sound :
  forall M P ns float_solve basis_status ebasis max_iter a,
    let r := exact_solver M P ns float_solve basis_status ebasis max_iter a in
    r_rval r = false -> r_status r = StInfeasible ->
    exists y, r_y r = Some y /\ infeas_test M P y = true.
Proof. exact driver_infeasible_sound. Qed.
Print Assumptions C02_driver_infeasible_sound.


Theorem C02_driver_user_infeasible :
  forall M U float_solve basis_status ebasis max_iter a,
    let r := exact_solver M (to_internal M U) (un U) float_solve basis_status ebasis max_iter a in
    r_rval r = false -> r_status r = StInfeasible -> uinfeasible M U.
Proof.
  intros M U fs bs eb mi a r H1 H2.
  destruct (driver_infeasible_sound M (to_internal M U) (un U) fs bs eb mi a H1 H2) as (y & _ & T).
  apply user_infeasible. exact (infeas_test_sound M _ y (to_internal_wf M U) T).
Qed.
Print Assumptions C02_driver_user_infeasible.
