(* C20  With a log handler installed the library writes nothing to stdout or stderr. *)
From Coq Require Import List String.
From QSX Require Import Gen.Sites Log.LogModel.

Theorem C20_no_site_can_write_std : offending = nil.
Proof. exact no_offending_site. Qed.
Print Assumptions C20_no_site_can_write_std.

Theorem C20_handler_installed_nothing_on_std_streams :
  forall trace, incl trace sites -> std_writes trace = nil.
Proof. exact handler_installed_nothing_on_std_streams. Qed.
Print Assumptions C20_handler_installed_nothing_on_std_streams.

(* the premise "a handler is installed" is preserved by the library: only the host's own entry point changes the registration *)
Theorem C20_handler_registration_only_by_host :
  forall s, In s sites -> is_handler_state s = true -> s_base s = "QSlog_set_handler"%string.
Proof. exact handler_registration_only_by_host. Qed.
Print Assumptions C20_handler_registration_only_by_host.
