(* C11  No input file can crash, hang or corrupt the reader.
   Level reached: proof on the modelled primitives + fault exploration of the real readers.
   PROVED on the models: the number scanner returns a result for every byte string and never consumes
   more than it was given (read_num_total), every loop iteration consumes one byte (scan_progress);
   the field splitter (sscanf %s iterated) is total, every successful field read consumes input, its
   fuel (= number of bytes) is never exhausted (fields_total, scan_field_progress).
   REFUTED for the code as found: "no fault" - the strings "1/0" and "/" divide by zero
   (no_fault_refuted_*; replayed against the library: SIGFPE) - and PROVED for the patched scanner
   (fixed_no_div_zero).
   NOT PROVED: memory safety / termination of ILLread_lp, ILLread_mps, ILLlib_readbasis themselves
   (no byte-level model of their buffers): explored under ASan+UBSan with a watchdog. *)
From Coq Require Import List Ascii String QArith.
Import ListNotations.
From QSX Require Import IO.Num IO.NumSound IO.Lex.

Theorem C11_read_num_total :
  forall strict s, exists r n, read_num_gen strict s = (r, n) /\ (n <= List.length s)%nat.
Proof. exact read_num_total. Qed.
Print Assumptions C11_read_num_total.

Theorem C11_scan_progress :
  forall strict c s st n,
  scan strict (c :: s) st n = (Run st, n) \/ (exists f, scan strict (c :: s) st n = (Flt f, S n)) \/
  exists st', scan strict (c :: s) st n = scan strict s st' (S n).
Proof. exact scan_progress. Qed.
Print Assumptions C11_scan_progress.

Theorem C11_no_fault_refuted_div_zero :
  read_num (list_ascii_of_string "1/0") = (NFault DivZero, 3%nat) /\
  read_num (list_ascii_of_string "/") = (NFault DivZero, 1%nat).
Proof. split; [exact no_fault_refuted_div_zero | exact no_fault_refuted_bare_slash]. Qed.
Print Assumptions C11_no_fault_refuted_div_zero.

Theorem C11_fixed_no_div_zero : forall s, fst (read_num_fixed s) <> NFault DivZero.
Proof. exact fixed_no_div_zero. Qed.
Print Assumptions C11_fixed_no_div_zero.

Theorem C11_fields_total : forall l, exists r, fields l = Some r.
Proof. exact fields_total. Qed.
Print Assumptions C11_fields_total.

Theorem C11_field_progress :
  forall l w t, scan_field l = Some (w, t) ->
  w <> [] /\ (List.length t < List.length l)%nat /\ forallb (fun c => negb (is_space c)) w = true.
Proof. exact scan_field_progress. Qed.
Print Assumptions C11_field_progress.
