(* C11  No input file can crash, hang or corrupt the reader.
   Level reached: proof on the modelled primitives and of the read_total half for the two reader models + fault
   exploration of the real readers.
   PROVED on the models: the number scanner returns a result for every byte string and never consumes
   more than it was given (read_num_total), every loop iteration consumes one byte (scan_progress);
   the field splitter (sscanf %s iterated) is total, every successful field read consumes input, its
   fuel (= number of bytes) is never exhausted (fields_total, scan_field_progress).
   read_total for the modelled readers: C11_lp_reader_total (IO/LpTotal.fuel_suffices) and C11_mps_reader_total
   (IO/MpsTotal.mps_reader_total): the line-level models of ILLread_lp and ILLread_mps - which agree with
   mpq_QSget_prob on every file of the correspondence checks of C10, accepted or rejected - answer for every list of
   lines; their loops run on fuel and the answer "fuel exhausted" is unreachable because every iteration consumes a byte
   or a line (the "never loops without consuming input" half of the property, for the control flow that is modelled).
   Every rejection reason of the MPS reader model (IO/MpsRead.mreason) is visited by a generated file under ASan+UBSan
   in checks/C11.py (family "mps-reasons").
   REFUTED for the code as found: "no fault" - the strings "1/0" and "/" divide by zero
   (no_fault_refuted_*; replayed against the library: SIGFPE) - and PROVED for the patched scanner
   (fixed_no_div_zero).
   NOT PROVED: memory safety of ILLread_lp, ILLread_mps, ILLlib_readbasis themselves (no byte-level model of their
   buffers, symbol tables and error paths) and termination of the code outside the modelled control flow (compression
   layer, conversion): explored under ASan+UBSan with a watchdog. *)
From Coq Require Import List Ascii String QArith.
Import ListNotations.
From QSX Require Import IO.Num IO.NumSound IO.Lex IO.LpRead IO.LpTotal IO.MpsRead IO.MpsTotal.

Theorem C11_read_num_total :
  forall strict s, exists r n, read_num_gen strict s = (r, n) /\ (n <= List.length s)%nat.
Proof. exact read_num_total. Qed.
Print Assumptions C11_read_num_total.

Theorem C11_scan_progress :
  forall strict c s st n,
  scan strict (c :: s) st n = (Run st, n) \/ (exists f, scan strict (c :: s) st n = (Flt f, S n)) \/
  exists st', scan strict (c :: s) st n = scan strict s st' (S n).
Proof. exact scan_progress. Qed.
Print Assumptions C11_scan_progress.

Theorem C11_no_fault_refuted_div_zero :
  read_num (list_ascii_of_string "1/0") = (NFault DivZero, 3%nat) /\
  read_num (list_ascii_of_string "/") = (NFault DivZero, 1%nat).
Proof. split; [exact no_fault_refuted_div_zero | exact no_fault_refuted_bare_slash]. Qed.
Print Assumptions C11_no_fault_refuted_div_zero.

Theorem C11_fixed_no_div_zero : forall s, fst (read_num_fixed s) <> NFault DivZero.
Proof. exact fixed_no_div_zero. Qed.
Print Assumptions C11_fixed_no_div_zero.

Theorem C11_fields_total : forall l, exists r, fields l = Some r.
Proof. exact fields_total. Qed.
Print Assumptions C11_fields_total.

Theorem C11_field_progress :
  forall l w t, scan_field l = Some (w, t) ->
  w <> [] /\ (List.length t < List.length l)%nat /\ forallb (fun c => negb (is_space c)) w = true.
Proof. exact scan_field_progress. Qed.
Print Assumptions C11_field_progress.

(* ---- read_total for the modelled readers ---------------------------------------------------------------------------------- *)
Theorem C11_lp_reader_total : forall strict M ls, read_lp_res strict M ls <> PrFuel.
Proof. exact fuel_suffices. Qed.
Print Assumptions C11_lp_reader_total.

Theorem C11_mps_reader_total : forall strict M ls, read_mps_res strict M ls <> MFuel.
Proof. exact mps_reader_total. Qed.
Print Assumptions C11_mps_reader_total.

(* progress of the MPS loops: reading a number consumes at least one byte of the line, fetching a line at least one line *)
Theorem C11_mps_number_progress : forall strict t t1 q, get_double strict t = DVal t1 q -> (List.length (t_cur t1) < List.length (t_cur t))%nat.
Proof. exact get_double_lt. Qed.
Print Assumptions C11_mps_number_progress.

Theorem C11_mps_line_progress : forall ls r rest, mnext_line ls = (r, rest) ->
  (List.length rest <= List.length ls)%nat /\ (ls <> [] -> (List.length rest < List.length ls)%nat).
Proof. exact mnext_line_len. Qed.
Print Assumptions C11_mps_line_progress.
