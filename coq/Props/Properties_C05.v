(* C05  Re-solving after edits equals solving from scratch; no stale solution is served.

   Model: Store.Api - the bookkeeping of qsopt.c around the problem store (cache, basis, qstatus,
   factorok) as a state machine over the reference model; the simplex is an oracle whose answers
   are part of the ops.  All statements are for arbitrary histories (op lists, fold_left).
   Tie to the code: checks/C05.py drives live sessions of the library through histories of edits and
   solves, compares every re-solve with a fresh copy, judges every OPTIMAL answer and every accessor
   answer between an edit and the next solve with the extracted check_kkt on to_internal(query view),
   and compares the white-box state (qstatus, cache, basis sizes) with the extracted Api model. *)
From Coq Require Import String Ascii ZArith.
From QSX Require Import Store.Spec Store.SpecInv Store.Api Store.DelRowsCert Store.ApiInv.
From QSX Require Import LP.Cert LP.CertSound LP.Unique.
Local Open Scope Q_scope.

(* sizes of the stored basis and of the cached solution follow the problem through every history
   (adds extend, deletes repack), provided the solve oracle answers with vectors of the problem's sizes *)
Theorem C05_Inv_dims : forall M l s, Inv_dims s -> ops_dims M s l -> Inv_dims (api_run M s l).
Proof. exact api_run_dims. Qed.
Print Assumptions C05_Inv_dims.

(* hence the "Size of basis does not match LP" failure of opt_work is unreachable *)
Theorem C05_solve_never_size_error : forall s d r, Inv_dims s -> snd (api_solve s d r) = false.
Proof. exact solve_never_size_error. Qed.
Print Assumptions C05_solve_never_size_error.

(* after a successful edit: the cache is gone and the status is MODIFIED, or the LP is the same LP with the
   same cache, or the call was a delete-rows call (the one family that may keep a repacked cache) *)
Theorem C05_edit_cache_cases : forall M s o t,
  snd (api_edit M s o) = ROk t ->
  let s' := fst (api_edit M s o) in
  (a_cache s' = None /\ a_qstatus s' = ST_MODIFIED) \/
  (to_ulp (a_p s') = to_ulp (a_p s) /\ a_cache s' = a_cache s) \/
  is_delrows o = true.
Proof. exact edit_cache_cases. Qed.
Print Assumptions C05_edit_cache_cases.

(* so between an edit that changes the LP (other than delete-rows) and the next solve every accessor fails *)
Theorem C05_accessors_fail_after_edit : forall M s o t,
  snd (api_edit M s o) = ROk t -> is_delrows o = false ->
  let s' := fst (api_edit M s o) in
  to_ulp (a_p s') <> to_ulp (a_p s) ->
  acc_x s' = None /\ acc_pi s' = None /\ acc_rc s' = None /\ acc_slack s' = None /\ acc_solution s' = None /\ acc_objval_cached s' = None.
Proof. exact accessors_fail_after_edit. Qed.
Print Assumptions C05_accessors_fail_after_edit.

(* the cache is an exact optimality certificate of the LP as it now stands (check_kkt on to_internal of the current
   problem), after every history.  Hypotheses: the start state satisfies the invariants (api_init does), and the
   oracle hypotheses ops_dims / ops_ok - the answer of a solve has the problem's sizes and an OPTIMAL answer carries a
   certificate (proved for QSexact_solver in C01, explored for the direct simplex).  No hypothesis about edits:
   every edit drops the cache, leaves the LP unchanged, or is a delete-rows call, and a delete-rows call keeps the
   (repacked) cache only when every deleted row has pi = 0 - then the repacked cache certifies the reduced LP
   (C05_delrows_zero_pi_keeps_certificate below). *)
Theorem C05_Inv_cache : forall M l s, Inv_dims s -> Inv_cache M s -> ops_dims M s l -> ops_ok M s l ->
  Inv_dims (api_run M s l) /\ Inv_cache M (api_run M s l).
Proof. exact api_run_cache. Qed.
Print Assumptions C05_Inv_cache.

(* the lemma behind it, on the reference model: deleting distinct valid rows whose dual multipliers are zero keeps
   the certificate (x, repacked slack, repacked pi, same value).  The stored-basis condition of the code is not needed. *)
Theorem C05_delrows_zero_pi_keeps_certificate : forall M p ds x sl pi v,
  length x = ncol p -> NoDup ds ->
  Forall (fun i => (i < nrow p)%nat) ds -> Forall (fun i => qnth pi i == 0) ds ->
  check_kkt (inf_sentinel M) (to_internal M (to_ulp p)) (x ++ sl) pi v = true ->
  check_kkt (inf_sentinel M) (to_internal M (to_ulp (del_rows_n p ds))) (x ++ restrict sl ds) (restrict pi ds) v = true.
Proof. exact cert_del_rows_n. Qed.
Print Assumptions C05_delrows_zero_pi_keeps_certificate.

Theorem C05_accessors_between_edit_and_solve : forall M s l x,
  Inv_dims s -> Inv_cache M s -> ops_dims M s l -> ops_ok M s l -> acc_x (api_run M s l) = Some x ->
  exists c, cert M (a_p (api_run M s l)) c /\ ca_x c = x.
Proof. exact accessors_between_edit_and_solve. Qed.
Print Assumptions C05_accessors_between_edit_and_solve.

(* x, pi, slack and the value served together are one certificate of the current LP *)
Theorem C05_solution_between_edit_and_solve : forall M s l c,
  Inv_dims s -> Inv_cache M s -> ops_dims M s l -> ops_ok M s l -> acc_solution (api_run M s l) = Some c ->
  cert M (a_p (api_run M s l)) c.
Proof. exact solution_between_edit_and_solve. Qed.
Print Assumptions C05_solution_between_edit_and_solve.

(* two certified answers for one LP have the same value: a certified re-solve equals a certified fresh solve *)
Theorem C05_resolve_eq_fresh : forall M s l r_warm r_fresh,
  let s' := api_run M s l in
  answer_cert M (a_p s') r_warm -> answer_cert M (a_p s') r_fresh ->
  an_status r_warm = ST_OPTIMAL -> an_status r_fresh = ST_OPTIMAL ->
  ca_val (an_sol r_warm) == ca_val (an_sol r_fresh).
Proof. exact resolve_eq_fresh_history. Qed.
Print Assumptions C05_resolve_eq_fresh.

(* DESIGN 10 #18 (repaired in /repo by "fix: ILLlib_delrows keeps the cached solution only when the deleted rows
   have pi = 0"): ILLlib_delrows used to keep the cache when the deleted rows were marked basic in the stored basis
   and had pi <= 0.  On the model of that code the state below (max -x, x >= 1; x = 1, value -1, pi = -1, stored
   basis marking the row basic) kept "x = 1, value -1" cached for  max -x, x >= 0  whose optimum is 0 - a
   refutation of cache soundness that replayed on the library (notes/repo_patches/demo/delrows_cache_guard.txt).
   With the guard pi = 0 the same state drops the cache; the theorem below pins that behaviour (a return of the
   old guard breaks it and the Api correspondence).  The general statement - a delete-rows call that keeps the
   cache keeps a certificate - is C05_delrows_zero_pi_keeps_certificate / C05_Inv_cache above. *)
Definition c05_wit_p : prob := prun 1000 (empty_prob 1000 true) [NewCol (-1) 0 1000 None; AddRow 1 "G" None None [(0%Z, 1)]].
Definition c05_wit : api :=
  {| a_p := c05_wit_p; a_basis := Some {| ba_c := ["0"%char]; ba_r := ["1"%char] |};
     a_cache := Some {| ca_val := -1; ca_x := [1]; ca_pi := [-1]; ca_rc := [0]; ca_slack := [0] |};
     a_qstatus := 1; a_factorok := true; a_rn := false |}.

Theorem C05_delrows_nonzero_pi_drops_cache :
  Inv_dims c05_wit /\ Inv_cache 1000 c05_wit /\
  snd (api_edit 1000 c05_wit (DelRows [0%Z])) = ROk [] /\
  a_cache (api_step 1000 c05_wit (AEdit (DelRows [0%Z]))) = None /\
  Inv_cache 1000 (api_step 1000 c05_wit (AEdit (DelRows [0%Z]))).
Proof.
  split; [|split; [|split; [|split]]].
  - split.
    + intros b H; inversion H; subst. split; reflexivity.
    + intros c H; inversion H; subst. vm_compute. repeat split; reflexivity.
  - intros c H; inversion H; subst. vm_compute. reflexivity.
  - vm_compute. reflexivity.
  - vm_compute. reflexivity.
  - intros c H. vm_compute in H. discriminate.
Qed.
Print Assumptions C05_delrows_nonzero_pi_drops_cache.

(* the hypotheses of the positive theorems are satisfiable: the witness state itself, one solve step *)
Example C05_example :
  let r := {| an_status := 1; an_basis := {| ba_c := ["0"%char]; ba_r := ["0"%char] |};
              an_sol := {| ca_val := -1; ca_x := [1]; ca_pi := [-1]; ca_rc := [0]; ca_slack := [0] |}; an_rn := false |} in
  ops_dims 1000 (api_init c05_wit_p) [ASolve false r] /\ ops_ok 1000 (api_init c05_wit_p) [ASolve false r] /\
  acc_x (api_run 1000 (api_init c05_wit_p) [ASolve false r]) = Some [1].
Proof.
  vm_compute. repeat split; try reflexivity; intros; reflexivity.
Qed.

(* a non-trivial delete-rows step that keeps the cache:  max x1 + x2  s.t.  x1 + x2 <= 4 (tight, pi = 1),  x1 <= 10 (slack 7,
   pi = 0),  x1 - x2 <= 2 (tight, pi = 0: degenerate), 0 <= x <= 1000; solved (x = (3,1), value 4), then rows 1 and 2 are
   deleted in one call.  The model keeps the cache repacked to one row; by C05_Inv_cache it certifies the reduced LP;
   the accessor still serves x = (3,1). *)
Definition c05_keep_p : prob :=
  prun 1000 (empty_prob 1000 true)
    [NewCol 1 0 1000 None; NewCol 1 0 1000 None;
     AddRow 4 "L" None None [(0%Z, 1); (1%Z, 1)]; AddRow 10 "L" None None [(0%Z, 1)]; AddRow 2 "L" None None [(0%Z, 1); (1%Z, -1)]].
Definition c05_keep_ans : oans :=
  {| an_status := 1; an_basis := {| ba_c := ["1"; "1"]%char; ba_r := ["0"; "1"; "1"]%char |};
     an_sol := {| ca_val := 4; ca_x := [3; 1]; ca_pi := [1; 0; 0]; ca_rc := [0; 0]; ca_slack := [0; 7; 0] |}; an_rn := false |}.
Definition c05_keep_ops : list aop := [ASolve false c05_keep_ans; AEdit (DelRows [2%Z; 1%Z])].

Example C05_example_delrows_keeps_cache :
  ops_dims 1000 (api_init c05_keep_p) c05_keep_ops /\ ops_ok 1000 (api_init c05_keep_p) c05_keep_ops /\
  nrow (a_p (api_run 1000 (api_init c05_keep_p) c05_keep_ops)) = 1%nat /\
  a_cache (api_run 1000 (api_init c05_keep_p) c05_keep_ops) =
    Some {| ca_val := 4; ca_x := [3; 1]; ca_pi := [1]; ca_rc := [0; 0]; ca_slack := [0] |} /\
  Inv_cache 1000 (api_run 1000 (api_init c05_keep_p) c05_keep_ops).
Proof.
  assert (D : ops_dims 1000 (api_init c05_keep_p) c05_keep_ops) by (vm_compute; repeat split; reflexivity).
  assert (O : ops_ok 1000 (api_init c05_keep_p) c05_keep_ops) by (vm_compute; repeat split; intros; reflexivity).
  split; [exact D|]. split; [exact O|]. split; [vm_compute; reflexivity|]. split; [vm_compute; reflexivity|].
  apply (api_run_cache 1000 c05_keep_ops (api_init c05_keep_p)); try assumption.
  - apply Inv_dims_init.
  - intros c H. discriminate H.
Qed.

(* ===== Inv_factor (DESIGN 5/C05): the flag factorok and the basis matrix.  The LU factors are not modelled; the ghost value
   `factored` (Store.ApiFactor.grun) remembers the basis matrix - entry lists of the basic structural columns, the basic
   logicals with the senses of their rows, the number of rows - that the last factorization was computed from: at a solve
   that really runs, and when ILLlib_addrows refactors the extended basis.  Tie: the Api correspondence of checks/C05.py
   compares factorok (and whether the stored basis carries row norms, a_rn) with the library after every op. ===== *)
From QSX Require Import Store.Matrix Store.ApiFactor.

(* an edit other than adding rows never sets the flag; if it leaves the flag set it leaves the basis matrix unchanged -
   i.e. every edit that changes a basic column, the sense of a row, or the dimension resets factorok *)
Theorem C05_edit_keeps_factor : forall M s o t b,
  Inv_dims s -> a_basis s = Some b -> snd (api_edit M s o) = ROk t -> is_addrows o = false ->
  a_factorok (fst (api_edit M s o)) = true ->
  a_factorok s = true /\ exists b', a_basis (fst (api_edit M s o)) = Some b' /\ bmatrix (a_p (fst (api_edit M s o))) b' = bmatrix (a_p s) b.
Proof. exact edit_keeps_factor. Qed.
Print Assumptions C05_edit_keeps_factor.

(* the calls that always clear the flag *)
Theorem C05_matrix_edits_reset_factor : forall M s o t,
  snd (api_edit M s o) = ROk t ->
  match o with
  | DelRows _ | DelCols _ | ChgCoef _ _ _ | ChgRange _ _ | ChgSenses _ => True
  | _ => False
  end -> a_factorok (fst (api_edit M s o)) = false.
Proof. exact matrix_edits_reset_factor. Qed.
Print Assumptions C05_matrix_edits_reset_factor.

(* QSnew_row / QSadd_row(s): as ILLlib_addrows leaves the flag - set exactly when a stored basis with row norms existed and the
   flag was clear (the extended basis is refactored to compute the norms of the new rows) *)
Theorem C05_addrows_factor : forall M s o t,
  snd (api_edit M s o) = ROk t -> is_addrows o = true -> a_factorok (fst (api_edit M s o)) = addrows_factor s.
Proof. exact addrows_factor_spec. Qed.
Print Assumptions C05_addrows_factor.

(* Inv_factor for all histories: whenever factorok is set, a stored basis exists and the ghost `factored` is the basis matrix
   of the LP as it now stands *)
Theorem C05_Inv_factor : forall M l sg, Inv_dims (fst sg) -> ops_dims M (fst sg) l -> Inv_factor sg -> Inv_factor (grun M sg l).
Proof. exact grun_factor. Qed.
Print Assumptions C05_Inv_factor.

Theorem C05_Inv_factor_init : forall p, Inv_factor (api_init p, None).
Proof. exact Inv_factor_init. Qed.
Print Assumptions C05_Inv_factor_init.

(* an add-row call that ends with the flag set: stored basis with row norms, flag clear before (e.g. after QSload_basis_and_row_norms) *)
Example C05_example_addrow_refactors :
  let s := {| a_p := c05_keep_p; a_basis := Some {| ba_c := ["1"; "1"]%char; ba_r := ["0"; "1"; "1"]%char |};
              a_cache := None; a_qstatus := 100; a_factorok := false; a_rn := true |} in
  let s' := fst (api_edit 1000 s (AddRow 9 "L" None None [(0%Z, 1)])) in
  a_factorok s' = true /\ Inv_factor (gstep 1000 (s, None) (AEdit (AddRow 9 "L" None None [(0%Z, 1)]))).
Proof. split; [vm_compute; reflexivity|]. intros _. vm_compute. eexists. split; reflexivity. Qed.
