(* C05 (stub, replaced below in this session) *)
From QSX Require Import LP.Unique LP.CertSound.
Local Open Scope Q_scope.
Theorem C05_certified_values_agree :
  forall I P z1 y1 v1 z2 y2 v2,
    check_kkt I P z1 y1 v1 = true -> check_kkt I P z2 y2 v2 = true -> v1 == v2.
Proof.
  intros I P z1 y1 v1 z2 y2 v2 H1 H2. apply (optimum_value_unique I P).
  - exists (qnth z1). exact (check_kkt_sound I P z1 y1 v1 H1).
  - exists (qnth z2). exact (check_kkt_sound I P z2 y2 v2 H2).
Qed.
Print Assumptions C05_certified_values_agree.
