(* C09  MPS output reads back as the same problem, and LP and MPS renderings agree.
   Level reached: proof.  Line-level models of the MPS WRITER (IO/MpsWrite.v, compared byte for byte with
   mpq_QSwrite_prob (.., "MPS") on every file written in the run) and of the MPS READER (IO/MpsRead.v: ILLmps_next_line /
   next_field / next_coef / next_bound, '*' and '$' comments, the section state machine of ILLread_mps, ROWS, COLUMNS with
   INTORG / INTEND / SOS markers, RHS, RANGES, BOUNDS with UP LO FX FR MI PL BV LI UI, OBJSENSE, OBJNAME, REFROW, ENDATA, the
   blank-set-name heuristic ILLmps_possibly_blank_name as the code has it, mps_fill_in and the conversion checks;
   compared with mpq_QSget_prob (.., "MPS") on rendered, token-mutated and library-written files in C10).
   PROVED, no size bound: C09_mps_roundtrip - for every column-wise problem satisfying wf_mps (the precondition of C08/C09,
   names that are blank-free words, no '$' in front of a column that gets a BOUNDS record, and: when a row is called RHS /
   RANGE (a column BOUND), no row (column) occurring in that section starts like a number) the written file is accepted by
   the reader and read_mps (write_mps P) is equiv_by_name to P; C09_mps_roundtrip_native: column by column and used row by
   used row, ranged rows come back as ranged rows (native RANGES representation), every number equal as a rational;
   C09_mps_roundtrip_bytes: the same on the bytes of the file.  Layers: fields (C09_mps_field, C09_mps_number),
   records (C09_mps_columns_record, C09_mps_rhs_record, C09_mps_bounds_record), sections (IO/MpsSections.v), file.
   PROVED for the repaired writer (set names made unique, notes/repo_patches/mps_setname_clash.diff): C09_mps_roundtrip_fixed
   needs no hypothesis on the set names.
   REFUTED without the set-name hypothesis: C09_mps_setname_clash_refuted (column BOUND + column 2: the bound of "2" lands
   on "BOUND", silently), C09_mps_setname_clash_rhs_refuted - replayed on the library in checks/C09.py (open finding
   F-io-mps-setname-clash-C09; repair in notes/repo_patches/mps_setname_clash.diff).
   C09_wf_test_sound: the executable test wf_mpsb evaluated by the check on every generated problem implies wf_mps.
   C09_mps_sections_roundtrip_partial is the record-level statement of round 2 (kept; superseded by C09_mps_roundtrip).
   lp_mps_agree is evaluated as the executable comparison on every generated problem. *)
From QSX Require Import LP.User IO.Num IO.NumSound IO.Bounds IO.Equiv IO.Ranges IO.Lex IO.LpWrite IO.LpRead IO.LpTok IO.LpBytes IO.LpNames IO.MpsWrite IO.MpsRead IO.MpsTok IO.MpsEquiv IO.MpsRoundtrip IO.MpsWf.
From Coq Require Import List Ascii String QArith.
Import ListNotations.
Local Open Scope Q_scope.

Theorem C09_numbers_roundtrip :
  forall strict q rest, stops rest ->
  exists q', read_num_gen strict (print_num q ++ rest) = (Val q', List.length (print_num q)) /\ q' == q.
Proof. exact read_print_num. Qed.
Print Assumptions C09_numbers_roundtrip.

Theorem C09_ranges_semantics :
  forall s rhs r, let t := transfer s rhs r in let i := mps_interval s rhs r in
  fst t == fst i /\ fst t + snd t == snd i /\ 0 <= snd t.
Proof. exact ranges_semantics. Qed.
Print Assumptions C09_ranges_semantics.

Theorem C09_write_then_transfer_id :
  forall rhs g r, 0 <= g -> write_range g = Some r ->
  fst (transfer MG rhs r) == rhs /\ snd (transfer MG rhs r) == g.
Proof. exact write_then_transfer_id. Qed.
Print Assumptions C09_write_then_transfer_id.

Theorem C09_zero_range_lost_refuted :
  forall rhs, write_range 0 = None /\ exists a, rhs <= a /\ ~ (rhs <= a /\ a <= rhs + 0).
Proof. exact zero_range_lost_refuted. Qed.
Print Assumptions C09_zero_range_lost_refuted.

Theorem C09_bounds_roundtrip :
  forall M lo up isint, 0 < M -> lo <= up ->
  let r := decode_bounds M (encode_bounds M lo up isint) isint in fst r == lo /\ snd r == up.
Proof. exact bounds_roundtrip. Qed.
Print Assumptions C09_bounds_roundtrip.

Theorem C09_oracle_sound_partial :
  forall M P P', equiv_by_name P P' = true ->
  n_max P = n_max P' /\ (forall v, nobj P v == nobj P' v) /\ (forall nm, is_int P nm = is_int P' nm) /\
  (forall v, nfeasible M P v -> nfeasible M P' v) /\ (empty_ok P -> forall v, nfeasible M P' v -> nfeasible M P v).
Proof. exact equiv_by_name_sound. Qed.
Print Assumptions C09_oracle_sound_partial.

(* ---- the MPS writer model and what its sections denote --------------------------------------------------------------- *)

Theorem C09_mps_bounds_records :
  forall M lo up isint, 0 < M -> lo <= up ->
  let r := decode_records M (mps_records M lo up isint) isint in fst r == lo /\ snd r == up.
Proof. exact mps_bounds_roundtrip. Qed.
Print Assumptions C09_mps_bounds_records.

Theorem C09_mps_rows :
  forall M P, rows_wf P ->
  Forall2 row_same_q (filter (row_used (m_cols P)) (m_rows P))
          (map (denote_row (sections_of M P)) (sec_rows (sections_of M P))).
Proof. exact mps_rows_roundtrip. Qed.
Print Assumptions C09_mps_rows.

Theorem C09_mps_markers :
  forall hasint objname cols ri mode seen,
  (hasint = true \/ (mode = false /\ forallb (fun c => negb (mc_int c)) cols = true)) ->
  forallb col_nonempty cols = true ->
  NoDup (map mc_name cols) -> (forall c, In c cols -> existsb (leqb (mc_name c)) seen = false) ->
  marks_denote (col_items hasint objname cols ri mode) mode seen = map (fun c => (mc_name c, mc_int c)) cols.
Proof. exact mps_markers_roundtrip. Qed.
Print Assumptions C09_mps_markers.

Theorem C09_mps_sections_roundtrip_partial :
  forall M P, 0 < M -> cols_wf P -> rows_wf P ->
  let S := sections_of M P in
  Forall2 col_same_q (m_cols P) (map (denote_col M S) (marks_denote (sec_cols S) false [])) /\
  Forall2 row_same_q (filter (row_used (m_cols P)) (m_rows P)) (map (denote_row S) (sec_rows S)).
Proof. exact mps_sections_roundtrip. Qed.
Print Assumptions C09_mps_sections_roundtrip_partial.

(* the hypotheses are satisfiable (integer column with lower 0 and no upper bound, ranged row, unused row) *)
Example C09_mps_wf_satisfiable : exists P : mlp, cols_wf P /\ rows_wf P.
Proof. eexists. exact (proj2 write_mps_example). Qed.

(* ---- the MPS reader model and the file-level round trip ------------------------------------------------------------------ *)

Theorem C09_mps_roundtrip :
  forall M, 0 < M -> forall P, wf_mps M P ->
  exists P', read_mps true M (write_mps M P) = Some P' /\ equiv_by_name (mlp_to_nlp P) (mlp_to_nlp P') = true.
Proof. exact mps_roundtrip. Qed.
Print Assumptions C09_mps_roundtrip.

(* native RANGES representation: ranged rows come back as ranged rows *)
Theorem C09_mps_roundtrip_native :
  forall M, 0 < M -> forall P, wf_mps M P ->
  exists P', read_mps true M (write_mps M P) = Some P' /\ m_max P' = m_max P /\ m_objname P' = m_objname P /\
             Forall2 col_rel (m_cols P) (m_cols P') /\ Forall2 row_same_q (filter (row_used (m_cols P)) (m_rows P)) (m_rows P').
Proof. exact mps_roundtrip_strong. Qed.
Print Assumptions C09_mps_roundtrip_native.

Theorem C09_mps_roundtrip_bytes :
  forall M P, 0 < M -> wf_mps M P -> Forall line_ok (write_mps M P) ->
  exists P', read_mps true M (split_lines (file_bytes (write_mps M P))) = Some P' /\ equiv_by_name (mlp_to_nlp P) (mlp_to_nlp P') = true.
Proof. exact mps_roundtrip_bytes. Qed.
Print Assumptions C09_mps_roundtrip_bytes.

Theorem C09_wf_test_sound : forall M P, wf_mpsb M P = true -> wf_mps M P.
Proof. exact wf_mpsb_sound. Qed.
Print Assumptions C09_wf_test_sound.

(* the hypotheses are satisfiable: ranged row, integer column, unused row, a column called RHS and a row called BOUND *)
Example C09_mps_roundtrip_satisfiable : exists P, wf_mps 1000 P.
Proof. exists mps_example. exact (proj1 wf_mps_example). Qed.

(* without the hypothesis on the set names the statement is false: the witnesses below satisfy every other hypothesis *)
Theorem C09_mps_setname_clash_refuted :
  wf_coreb 1000 mps_clash = true /\ setnames_okb 1000 mps_clash = false /\
  exists P', read_mps true 1000 (write_mps 1000 mps_clash) = Some P' /\
             equiv_by_name (mlp_to_nlp mps_clash) (mlp_to_nlp P') = false /\
             map (fun c => (mc_name c, mc_up c)) (m_cols P') = [(s2l "BOUND"%string, 2 / 1); (s2l "2"%string, 1000)].
Proof. exact mps_roundtrip_setname_clash_refuted. Qed.
Print Assumptions C09_mps_setname_clash_refuted.

Theorem C09_mps_setname_clash_rhs_refuted :
  wf_coreb 1000 (mps_clash_rhs 10) = true /\ setnames_okb 1000 (mps_clash_rhs 10) = false /\
  (exists P', read_mps true 1000 (write_mps 1000 (mps_clash_rhs 10)) = Some P' /\
              equiv_by_name (mlp_to_nlp (mps_clash_rhs 10)) (mlp_to_nlp P') = false /\
              map (fun r => (mr_name r, mr_rhs r)) (m_rows P') = [(s2l "RHS"%string, 10 / 1); (s2l "1"%string, 0)]) /\
  wf_coreb 1000 (mps_clash_rhs 0) = true /\ read_mps_res true 1000 (write_mps 1000 (mps_clash_rhs 0)) = MErr ERhsNotRow.
Proof. exact mps_roundtrip_setname_clash_rhs_refuted. Qed.
Print Assumptions C09_mps_setname_clash_rhs_refuted.

(* ---- layers: fields, numbers, records ----------------------------------------------------------------------------------------- *)

(* ILLmps_next_field on blanks + word + (end of line | blank ...): the word, the pointer one byte behind it; a '$' does not
   start a comment before the second field has been read *)
Theorem C09_mps_field :
  forall t b w rest, t_cur t = b ++ w ++ rest -> all_blank b -> word w -> eow rest -> (no_dollar w \/ (t_fnum t < 2)%nat) ->
  mnext_field t = (mk_tk (tl rest) (t_line t) (t_key t) w (S (t_fnum t)), true).
Proof. exact mnext_field_word. Qed.
Print Assumptions C09_mps_field.

(* ILLmps_next_coef reads what print_num printed as a rational equal to it (rr v == v, C08_coefficient_value) *)
Theorem C09_mps_number :
  forall t b v rest, t_cur t = b ++ print_num v ++ rest -> all_blank b -> stops rest ->
  get_double true t = DVal (mk_tk rest (t_line t) (t_key t) (t_fld t) (S (t_fnum t))) (rr v).
Proof. exact get_double_num. Qed.
Print Assumptions C09_mps_number.

Theorem C09_mps_columns_record :
  forall M cn rn v x, word cn -> word rn -> has_marker cn = false -> has_marker rn = false ->
  has_row rn x = true -> x_active x = ACols -> x_sosvar x = false ->
  exists t, scan_line (ent_line cn rn v) = LTok t /\ t_key t = [] /\ line_in_section true M t x = MOk (ent_effect cn rn v x).
Proof. exact ent_record. Qed.
Print Assumptions C09_mps_columns_record.

(* an RHS record under the heuristic, for any set name sn the writer may use: harmless when sn is no row name or the row
   does not start like a number *)
Theorem C09_mps_rhs_record :
  forall M sn rn v x row, word sn -> word rn -> x_active x = ARhs ->
  (x_rhsname x = None \/ x_rhsname x = Some (Some sn)) ->
  find_row rn x = Some row -> xw_rhsind row = false -> xw_sense row <> None ->
  (has_row sn x = true -> numlike rn = false) ->
  exists t, scan_line (set_line sn rn v) = LTok t /\ t_key t = [] /\ line_in_section true M t x = MOk (rhs_effect sn rn v x).
Proof. exact rhs_record. Qed.
Print Assumptions C09_mps_rhs_record.

Theorem C09_mps_bounds_record :
  forall M bn r cn x, word bn -> word cn -> no_dollar cn -> x_active x = ABounds ->
  (x_bndname x = None \/ x_bndname x = Some (Some bn)) ->
  has_col cn x = true -> (has_col bn x = true -> numlike cn = false) ->
  exists t, scan_line (mrec_line_gen bn (r, cn)) = LTok t /\ t_key t = [] /\ line_in_section true M t x = MOk (bnd_effect M bn r cn x).
Proof. exact bnd_record. Qed.
Print Assumptions C09_mps_bounds_record.

(* ---- the repaired writer (notes/repo_patches/mps_setname_clash.diff): the set names are made unique against the row
   names and the objective name (RHS, RANGES) and the column names (BOUNDS), as the writer already does for the objective
   name it invents; then the heuristic of the reader is harmless and the hypothesis on the set names is not needed ---------- *)
Theorem C09_mps_roundtrip_fixed :
  forall M, 0 < M -> forall P, wf_core M P ->
  exists P', read_mps true M (write_mps_fixed M P) = Some P' /\ equiv_by_name (mlp_to_nlp P) (mlp_to_nlp P') = true.
Proof. exact mps_roundtrip_fixed. Qed.
Print Assumptions C09_mps_roundtrip_fixed.

Theorem C09_wf_core_test_sound : forall M P, wf_coreb M P = true -> wf_core M P.
Proof. exact wf_coreb_sound. Qed.
Print Assumptions C09_wf_core_test_sound.
