(* C09  MPS output reads back as the same problem, and LP and MPS renderings agree.
   Level reached: line-level model of the MPS WRITER (IO/MpsWrite.v, compared byte for byte with mpq_QSwrite_prob(.., "MPS")
   on every file written in the run) + proof that the reader-side semantics already modelled, applied to the written
   sections, gives back the problem + exploration of the real round trip with the verified oracle.
   PROVED (record level, all problems): C09_mps_sections_roundtrip_partial - the ROWS / COLUMNS (with INTORG / INTEND
   markers) / RHS / RANGES / BOUNDS sections the writer model builds denote, under the reader's rules (RHS default 0,
   transferRanges for a RANGES entry, the bound setters + ILLraw_fill_in_bounds for FX FR MI LO PL UP, markers for
   integrality), the problem written: same columns in order with the same entries, objective, bounds and marks, same
   used rows with sense, right hand side and range, every number equal as a rational; rows without entries dropped.
   Its parts: C09_mps_bounds_records, C09_mps_rows, C09_mps_markers.  Also as before: numbers, ranges_semantics,
   bounds_roundtrip, the oracle.
   C09_write_then_transfer_id / C09_zero_range_lost_refuted describe the writer as first found (an R row with range 0
   lost its RANGES entry, repaired in /repo 6798a87); IO/MpsWrite.range_entry models the repaired writer.
   "partial": there is no model of the MPS READER's tokenizer (fields, set names, section state machine, number
   scanning inside records): the statement is about sections as data, not about read_mps (write_mps P).
   lp_mps_agree is evaluated as the executable comparison on every generated problem. *)
From QSX Require Import LP.User IO.Num IO.NumSound IO.Bounds IO.Equiv IO.Ranges IO.LpWrite IO.MpsWrite.
From Coq Require Import List QArith.
Import ListNotations.
Local Open Scope Q_scope.

Theorem C09_numbers_roundtrip :
  forall strict q rest, stops rest ->
  exists q', read_num_gen strict (print_num q ++ rest) = (Val q', List.length (print_num q)) /\ q' == q.
Proof. exact read_print_num. Qed.
Print Assumptions C09_numbers_roundtrip.

Theorem C09_ranges_semantics :
  forall s rhs r, let t := transfer s rhs r in let i := mps_interval s rhs r in
  fst t == fst i /\ fst t + snd t == snd i /\ 0 <= snd t.
Proof. exact ranges_semantics. Qed.
Print Assumptions C09_ranges_semantics.

Theorem C09_write_then_transfer_id :
  forall rhs g r, 0 <= g -> write_range g = Some r ->
  fst (transfer MG rhs r) == rhs /\ snd (transfer MG rhs r) == g.
Proof. exact write_then_transfer_id. Qed.
Print Assumptions C09_write_then_transfer_id.

Theorem C09_zero_range_lost_refuted :
  forall rhs, write_range 0 = None /\ exists a, rhs <= a /\ ~ (rhs <= a /\ a <= rhs + 0).
Proof. exact zero_range_lost_refuted. Qed.
Print Assumptions C09_zero_range_lost_refuted.

Theorem C09_bounds_roundtrip :
  forall M lo up isint, 0 < M -> lo <= up ->
  let r := decode_bounds M (encode_bounds M lo up isint) isint in fst r == lo /\ snd r == up.
Proof. exact bounds_roundtrip. Qed.
Print Assumptions C09_bounds_roundtrip.

Theorem C09_oracle_sound_partial :
  forall M P P', equiv_by_name P P' = true ->
  n_max P = n_max P' /\ (forall v, nobj P v == nobj P' v) /\ (forall nm, is_int P nm = is_int P' nm) /\
  (forall v, nfeasible M P v -> nfeasible M P' v) /\ (empty_ok P -> forall v, nfeasible M P' v -> nfeasible M P v).
Proof. exact equiv_by_name_sound. Qed.
Print Assumptions C09_oracle_sound_partial.

(* ---- the MPS writer model and what its sections denote --------------------------------------------------------------- *)

Theorem C09_mps_bounds_records :
  forall M lo up isint, 0 < M -> lo <= up ->
  let r := decode_records M (mps_records M lo up isint) isint in fst r == lo /\ snd r == up.
Proof. exact mps_bounds_roundtrip. Qed.
Print Assumptions C09_mps_bounds_records.

Theorem C09_mps_rows :
  forall M P, rows_wf P ->
  Forall2 row_same_q (filter (row_used (m_cols P)) (m_rows P))
          (map (denote_row (sections_of M P)) (sec_rows (sections_of M P))).
Proof. exact mps_rows_roundtrip. Qed.
Print Assumptions C09_mps_rows.

Theorem C09_mps_markers :
  forall hasint objname cols ri mode seen,
  (hasint = true \/ (mode = false /\ forallb (fun c => negb (mc_int c)) cols = true)) ->
  forallb col_nonempty cols = true ->
  NoDup (map mc_name cols) -> (forall c, In c cols -> existsb (leqb (mc_name c)) seen = false) ->
  marks_denote (col_items hasint objname cols ri mode) mode seen = map (fun c => (mc_name c, mc_int c)) cols.
Proof. exact mps_markers_roundtrip. Qed.
Print Assumptions C09_mps_markers.

Theorem C09_mps_sections_roundtrip_partial :
  forall M P, 0 < M -> cols_wf P -> rows_wf P ->
  let S := sections_of M P in
  Forall2 col_same_q (m_cols P) (map (denote_col M S) (marks_denote (sec_cols S) false [])) /\
  Forall2 row_same_q (filter (row_used (m_cols P)) (m_rows P)) (map (denote_row S) (sec_rows S)).
Proof. exact mps_sections_roundtrip. Qed.
Print Assumptions C09_mps_sections_roundtrip_partial.

(* the hypotheses are satisfiable (integer column with lower 0 and no upper bound, ranged row, unused row) *)
Example C09_mps_wf_satisfiable : exists P : mlp, cols_wf P /\ rows_wf P.
Proof. eexists. exact (proj2 write_mps_example). Qed.
