(* C09  MPS output reads back as the same problem, and LP and MPS renderings agree.
   Level reached: proof of the sub-codecs + exploration with a verified oracle.
   PROVED: numbers (read_print_num); the interval stored by transferRanges is the documented one for
   every sense and sign (ranges_semantics); an internal R row written as G + RANGES comes back as
   the same R row when its range is not zero (write_then_transfer_id) - and does NOT when it is zero
   (zero_range_lost_refuted, replayed on the real writer); bound types follow the same default rules
   as the LP format (bounds_roundtrip); the oracle (equiv_by_name_sound).
   NOT PROVED: the section state machine, field splitting, marker lines (explored only); the target
   lp_mps_agree is evaluated as the executable comparison on every generated problem. *)
From QSX Require Import IO.Num IO.NumSound IO.Bounds IO.Equiv IO.Ranges.
From Coq Require Import List QArith.
Import ListNotations.
Local Open Scope Q_scope.

Theorem C09_numbers_roundtrip :
  forall strict q rest, stops rest ->
  exists q', read_num_gen strict (print_num q ++ rest) = (Val q', List.length (print_num q)) /\ q' == q.
Proof. exact read_print_num. Qed.
Print Assumptions C09_numbers_roundtrip.

Theorem C09_ranges_semantics :
  forall s rhs r, let t := transfer s rhs r in let i := mps_interval s rhs r in
  fst t == fst i /\ fst t + snd t == snd i /\ 0 <= snd t.
Proof. exact ranges_semantics. Qed.
Print Assumptions C09_ranges_semantics.

Theorem C09_write_then_transfer_id :
  forall rhs g r, 0 <= g -> write_range g = Some r ->
  fst (transfer MG rhs r) == rhs /\ snd (transfer MG rhs r) == g.
Proof. exact write_then_transfer_id. Qed.
Print Assumptions C09_write_then_transfer_id.

Theorem C09_zero_range_lost_refuted :
  forall rhs, write_range 0 = None /\ exists a, rhs <= a /\ ~ (rhs <= a /\ a <= rhs + 0).
Proof. exact zero_range_lost_refuted. Qed.
Print Assumptions C09_zero_range_lost_refuted.

Theorem C09_bounds_roundtrip :
  forall M lo up isint, 0 < M -> lo <= up ->
  let r := decode_bounds M (encode_bounds M lo up isint) isint in fst r == lo /\ snd r == up.
Proof. exact bounds_roundtrip. Qed.
Print Assumptions C09_bounds_roundtrip.

Theorem C09_oracle_sound_partial :
  forall M P P', equiv_by_name P P' = true ->
  n_max P = n_max P' /\ (forall v, nobj P v == nobj P' v) /\ (forall nm, is_int P nm = is_int P' nm) /\
  (forall v, nfeasible M P v -> nfeasible M P' v) /\ (empty_ok P -> forall v, nfeasible M P' v -> nfeasible M P v).
Proof. exact equiv_by_name_sound. Qed.
Print Assumptions C09_oracle_sound_partial.
