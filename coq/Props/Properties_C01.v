(* C01: statements only.  Each closed by `exact`, each followed by Print Assumptions. *)
From QSX Require Import LP.CertSound.

Theorem C01_checker_sound :
  forall I P z y v, check_kkt I P z y v = true -> is_optimum I P (qnth z) v.
Proof. exact check_kkt_sound. Qed.
Print Assumptions C01_checker_sound.
