(* C01  OPTIMAL is only ever reported together with an exact optimality certificate.
   Statements only: each closed by `exact`, each followed by Print Assumptions. *)
From QSX Require Import LP.CertSound LP.OptTestSound LP.UserSound LP.DriverSound LP.LibSolution.
Local Open Scope Q_scope.

(* 1. the oracle by which real answers are judged is sound (all LPs, both readings of the sentinel) *)
Theorem C01_checker_sound :
  forall I P z y v, check_kkt I P z y v = true -> is_optimum I P (qnth z) v.
Proof. exact check_kkt_sound. Qed.
Print Assumptions C01_checker_sound.

(* 2. what the library's own test accepts is a true optimum of the internal form (literal bounds) *)
Theorem C01_opt_test_sound_literal :
  forall P ns B ps ds s, wf_ilp P = true -> wf_logicals (skipn ns (i_cols P)) 0 = true ->
    opt_test P ns B ps ds = Some s ->
    is_optimum inf_none P (qnth (sx s ++ sslack s)) (sval s).
Proof. exact opt_test_sound_lit. Qed.
Print Assumptions C01_opt_test_sound_literal.

(* 3. ... and, when no component sits on a sentinel bound, a true optimum of the LP the user
      defined through the API (senses, ranges, infinite bounds) *)
Theorem C01_opt_test_sound_user :
  forall M U B ps ds s, 0 < M ->
    opt_test (to_internal M U) (un U) B ps ds = Some s ->
    no_sentinel M (to_internal M U) (sx s ++ sslack s) = true ->
    uis_optimum M U (qnth (sx s ++ sslack s)) (sval s).
Proof.
  intros M U B ps ds s HM T NS. apply user_optimum; [exact HM|].
  exact (opt_test_sound_inf M _ _ B ps ds s (to_internal_wf M U) (to_internal_wf_logicals M U) T NS).
Qed.
Print Assumptions C01_opt_test_sound_user.

(* 4. the driver: for EVERY floating point oracle and EVERY rational re-solve oracle (any precision,
      pricing, scaling, warm start, limit), OPTIMAL is returned only with a cache that passed the
      test - on every exit, ladder exhaustion included (after the fix recorded in known_findings.json) *)
Theorem C01_driver_optimal_sound :
  forall M P ns float_solve basis_status ebasis max_iter a,
    let r := exact_solver M P ns float_solve basis_status ebasis max_iter a in
    r_rval r = false -> r_status r = StOptimal ->
    exists s B ps ds, r_sol r = Some s /\ opt_test P ns B ps ds = Some s.
Proof. exact driver_optimal_sound. Qed.
Print Assumptions C01_driver_optimal_sound.


(* 5. end to end: whatever the oracles, an OPTIMAL answer of the driver on the internal form of the user's LP
      is a true optimum of that LP (sentinel hypothesis on the returned point, monitored at run time) *)
Theorem C01_driver_user_optimum :
  forall M U float_solve basis_status ebasis max_iter a, 0 < M ->
    let r := exact_solver M (to_internal M U) (un U) float_solve basis_status ebasis max_iter a in
    r_rval r = false -> r_status r = StOptimal ->
    exists s, r_sol r = Some s /\
      (no_sentinel M (to_internal M U) (sx s ++ sslack s) = true -> uis_optimum M U (qnth (sx s ++ sslack s)) (sval s)).
Proof.
  intros M U fs bs eb mi a HM r H1 H2.
  destruct (driver_optimal_sound M (to_internal M U) (un U) fs bs eb mi a H1 H2) as (s & B & ps & ds & E & T).
  exists s. split; [exact E|]. intros NS. apply user_optimum; [exact HM|].
  exact (opt_test_sound_inf M _ _ B ps ds s (to_internal_wf M U) (to_internal_wf_logicals M U) T NS).
Qed.
Print Assumptions C01_driver_user_optimum.

(* 6. maximisation problems: the simplex minimises the negated objective and ILLlib_solution reverses
      the signs of value, duals and reduced costs; what is handed out certifies the MAX problem *)
Theorem C01_max_sign_convention :
  forall I P z y v, i_max P = true ->
    check_kkt I (internal_min P) z y v = true -> check_kkt I P z (map Qopp y) (- v) = true.
Proof. exact lib_solution_certificate. Qed.
Print Assumptions C01_max_sign_convention.
