(* C16  Copies are faithful and independent.

   Model: Store.Spec with several handles (sstep / srun).  A copy is the problem itself stored under a second
   handle; the functional store makes sharing impossible, so the *content* of the frame theorems is the
   correspondence of checks/C16.py: the library, whose handles are heap objects, must behave like this model
   (dump, parameters, names of both handles after every op; DUMPALL of the untouched handle before/after every
   edit, solve and free on the other one, in forked ASan children).
   The reduced-precision half (QScopy_prob_mpq_dbl): the conversion of every finite number is modelled by
   Float/Conv.v (to_double = mpq_get_d: truncation toward zero to 53 significant bits, fixed exponent -1074 in
   the subnormal range); the theorems below give the bound of the property (within one unit in the last place,
   never larger in magnitude, zero to zero, odd).  checks/C16.py compares every converted entry of the library's
   dbl copy with the value of the extracted to_double.  The mpf half has no Coq model (checked in exact
   arithmetic against the definition of truncation to the working precision). *)
From Coq Require Import String Ascii ZArith.
From QSX Require Import Store.Spec Store.SpecInv Float.Conv.
Local Open Scope Q_scope.

(* faithfulness: the copy is observably the original (every query is a function of the stored problem),
   and making it does not touch the original *)
Theorem C16_copy_observes_equal : forall M s h h2 p, get_h s h = Some p -> h <> h2 ->
  get_h (fst (sstep M s (SCopy h h2))) h2 = Some p /\ get_h (fst (sstep M s (SCopy h h2))) h = Some p.
Proof. exact copy_observes_equal. Qed.
Print Assumptions C16_copy_observes_equal.

Theorem C16_copy_same_answers : forall M s h h2 p o, get_h s h = Some p -> h <> h2 ->
  let s' := fst (sstep M s (SCopy h h2)) in
  snd (sstep M s' (SOn h2 o)) = snd (sstep M s' (SOn h o)).
Proof.
  intros M s h h2 p o G N s'. destruct (copy_observes_equal M s h h2 p G N) as [A B]. fold s' in A, B.
  simpl. rewrite A, B. destruct (pstep M p o); reflexivity.
Qed.
Print Assumptions C16_copy_same_answers.

(* independence: an op on one handle (edit, query, free, copy into it) never changes another *)
Theorem C16_frame : forall M s o h', target o <> h' -> get_h (fst (sstep M s o)) h' = get_h s h'.
Proof. exact frame. Qed.
Print Assumptions C16_frame.

(* ... for whole histories: whatever is done to the other handles, the copy stays what it was *)
Theorem C16_copy_independent : forall M s h2 p l,
  get_h s h2 = Some p -> (forall o, In o l -> target o <> h2) -> get_h (srun M s l) h2 = Some p.
Proof. exact copy_independent. Qed.
Print Assumptions C16_copy_independent.

(* every handle keeps a well-formed problem through every history *)
Theorem C16_store_wf : forall M l, wf_store (srun M [] l).
Proof. intros M l. apply srun_wf. apply wf_store_nil. Qed.
Print Assumptions C16_store_wf.

(* conversion to double: truncation toward zero, error below one unit in the last place; zero stays zero *)
Theorem C16_to_double_within_ulp : forall q,
  (Qabs (to_double q) <= Qabs q /\ Qabs (q - to_double q) < ulp_of q) \/ q == 0.
Proof. exact to_double_bound. Qed.
Print Assumptions C16_to_double_within_ulp.

Theorem C16_to_double_zero : to_double 0 = 0.
Proof. exact to_double_zero. Qed.
Print Assumptions C16_to_double_zero.

Theorem C16_to_double_odd : forall q, to_double (- q) == - to_double q.
Proof. exact to_double_opp. Qed.
Print Assumptions C16_to_double_odd.

Example C16_example :
  let s := srun 1000 [] [SCreate 0 1; SOn 0 (NewCol 1 0 5 None); SCopy 0 1; SOn 0 (ChgObj 0 9); SFree 0] in
  get_h s 0 = None /\ option_map (fun p => map sc_obj (p_cols p)) (get_h s 1) = Some [1].
Proof. vm_compute. split; reflexivity. Qed.
