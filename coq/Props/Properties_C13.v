(* C13  LU-based solves are exact: B^-1 B = I for every basis and update history.
   Statements only.  (a) the multiply-back checkers by which every row / solve returned by the library is judged are
   complete oracles (sound, and unique answer for a non-singular matrix); singularity is decided by the verified
   elimination.  (b) representation level: see Fac/Factor.v (check_repr_sound). *)
From QSX Require Import Fac.GaussSound.
Local Open Scope Q_scope.

(* an accepted row IS row i of the inverse computed by the verified elimination *)
Theorem C13_check_binv_row_unique :
  forall n B X r i, (i < n)%nat -> inverse n B = Some X -> check_binv_row n B r i = true ->
    forall j, (j < n)%nat -> qnth r j == mget X i j.
Proof. exact check_binv_row_unique. Qed.
Print Assumptions C13_check_binv_row_unique.

(* the true row is accepted (the oracle never raises a false alarm) *)
Theorem C13_check_binv_row_complete :
  forall n B X i, (i < n)%nat -> inverse n B = Some X -> check_binv_row n B (mrow X i) i = true.
Proof. exact check_binv_row_complete. Qed.
Print Assumptions C13_check_binv_row_complete.

(* stated without the algorithm: for a non-singular B two accepted rows agree *)
Theorem C13_check_binv_row_unique_ns :
  forall n B r r' i, (i < n)%nat -> nonsingular n B ->
    check_binv_row n B r i = true -> check_binv_row n B r' i = true -> forall j, (j < n)%nat -> qnth r j == qnth r' j.
Proof. exact check_binv_row_unique_ns. Qed.
Print Assumptions C13_check_binv_row_unique_ns.

(* if all n returned rows are accepted the basis matrix is non-singular *)
Theorem C13_check_binv_all_nonsingular :
  forall n B R, (forall i, (i < n)%nat -> check_binv_row n B (mrow R i) i = true) -> nonsingular n B.
Proof. exact check_binv_all_nonsingular. Qed.
Print Assumptions C13_check_binv_all_nonsingular.

(* tableau rows: t = row_i(B^-1) * [A | logicals] *)
Theorem C13_check_tableau_row_unique :
  forall n nc B A X r t i, (i < n)%nat -> inverse n B = Some X -> check_tableau_row n nc B A r t i = true ->
    forall j, (j < nc)%nat -> qnth t j == sumn n (fun k => mget X i k * mget A k j).
Proof. exact check_tableau_row_unique. Qed.
Print Assumptions C13_check_tableau_row_unique.

Theorem C13_check_tableau_row_complete :
  forall n nc B A X i, (i < n)%nat -> inverse n B = Some X ->
    check_tableau_row n nc B A (mrow X i) (vec_mat n nc (mrow X i) A) i = true.
Proof. exact check_tableau_row_complete. Qed.
Print Assumptions C13_check_tableau_row_complete.

(* forward / backward solves: accepted <-> B x = a (y B = c), unique for a non-singular B *)
Theorem C13_check_ftran_spec : forall n B x a, check_ftran n B x a = true <-> is_solution n B x a.
Proof. exact check_ftran_spec. Qed.
Print Assumptions C13_check_ftran_spec.

Theorem C13_check_btran_spec : forall n B y c, check_btran n B y c = true <-> is_left_solution n B y c.
Proof. exact check_btran_spec. Qed.
Print Assumptions C13_check_btran_spec.

Theorem C13_check_ftran_unique :
  forall n B x x' a, nonsingular n B -> check_ftran n B x a = true -> check_ftran n B x' a = true ->
    forall j, (j < n)%nat -> qnth x j == qnth x' j.
Proof. exact check_ftran_unique. Qed.
Print Assumptions C13_check_ftran_unique.

Theorem C13_check_btran_unique :
  forall n B y y' c, nonsingular n B -> check_btran n B y c = true -> check_btran n B y' c = true ->
    forall j, (j < n)%nat -> qnth y j == qnth y' j.
Proof. exact check_btran_unique. Qed.
Print Assumptions C13_check_btran_unique.

(* "singular matrices must be reported singular": the judge for singularity is the verified elimination -
   it answers with an inverse exactly for non-singular matrices, otherwise with a non-zero left null vector *)
Theorem C13_singularity_decided :
  forall n B, (exists X, inverse n B = Some X) <-> nonsingular n B.
Proof. exact inverse_iff_nonsingular. Qed.
Print Assumptions C13_singularity_decided.

Theorem C13_singular_witness :
  forall n B, inverse n B = None -> exists y, null_vector n B = Some y /\ left_null n B y.
Proof. exact inverse_none_singular. Qed.
Print Assumptions C13_singular_witness.

(* for large matrices the check uses certificates instead of running the elimination: a non-zero y accepted as
   solution of y B = 0 proves B singular *)
Theorem C13_null_certificate :
  forall n B y z, vzerob n z = true -> check_btran n B y z = true -> veqb n y z = false -> ~ nonsingular n B.
Proof. exact null_certificate. Qed.
Print Assumptions C13_null_certificate.

Theorem C13_inverse_two_sided :
  forall n A X, inverse n A = Some X ->
    feq n n (fmul n (mget X) (mget A)) fid /\ feq n n (fmul n (mget A) (mget X)) fid.
Proof. intros n A X H. split; [exact (inverse_left n A X H) | exact (inverse_right n A X H)]. Qed.
Print Assumptions C13_inverse_two_sided.
