(* C13  LU-based solves are exact: B^-1 B = I for every basis and update history.
   Statements only.  (a) the multiply-back checkers by which every row / solve returned by the library is judged are
   complete oracles (sound, and unique answer for a non-singular matrix); singularity is decided by the verified
   elimination.  (b) representation level: see Fac/Factor.v (check_repr_sound). *)
From QSX Require Import Fac.GaussSound Fac.FactorSound Fac.FTUpdateSound.
Local Open Scope Q_scope.

(* an accepted row IS row i of the inverse computed by the verified elimination *)
Theorem C13_check_binv_row_unique :
  forall n B X r i, (i < n)%nat -> inverse n B = Some X -> check_binv_row n B r i = true ->
    forall j, (j < n)%nat -> qnth r j == mget X i j.
Proof. exact check_binv_row_unique. Qed.
Print Assumptions C13_check_binv_row_unique.

(* the true row is accepted (the oracle never raises a false alarm) *)
Theorem C13_check_binv_row_complete :
  forall n B X i, (i < n)%nat -> inverse n B = Some X -> check_binv_row n B (mrow X i) i = true.
Proof. exact check_binv_row_complete. Qed.
Print Assumptions C13_check_binv_row_complete.

(* stated without the algorithm: for a non-singular B two accepted rows agree *)
Theorem C13_check_binv_row_unique_ns :
  forall n B r r' i, (i < n)%nat -> nonsingular n B ->
    check_binv_row n B r i = true -> check_binv_row n B r' i = true -> forall j, (j < n)%nat -> qnth r j == qnth r' j.
Proof. exact check_binv_row_unique_ns. Qed.
Print Assumptions C13_check_binv_row_unique_ns.

(* if all n returned rows are accepted the basis matrix is non-singular *)
Theorem C13_check_binv_all_nonsingular :
  forall n B R, (forall i, (i < n)%nat -> check_binv_row n B (mrow R i) i = true) -> nonsingular n B.
Proof. exact check_binv_all_nonsingular. Qed.
Print Assumptions C13_check_binv_all_nonsingular.

(* tableau rows: t = row_i(B^-1) * [A | logicals] *)
Theorem C13_check_tableau_row_unique :
  forall n nc B A X r t i, (i < n)%nat -> inverse n B = Some X -> check_tableau_row n nc B A r t i = true ->
    forall j, (j < nc)%nat -> qnth t j == sumn n (fun k => mget X i k * mget A k j).
Proof. exact check_tableau_row_unique. Qed.
Print Assumptions C13_check_tableau_row_unique.

Theorem C13_check_tableau_row_complete :
  forall n nc B A X i, (i < n)%nat -> inverse n B = Some X ->
    check_tableau_row n nc B A (mrow X i) (vec_mat n nc (mrow X i) A) i = true.
Proof. exact check_tableau_row_complete. Qed.
Print Assumptions C13_check_tableau_row_complete.

(* forward / backward solves: accepted <-> B x = a (y B = c), unique for a non-singular B *)
Theorem C13_check_ftran_spec : forall n B x a, check_ftran n B x a = true <-> is_solution n B x a.
Proof. exact check_ftran_spec. Qed.
Print Assumptions C13_check_ftran_spec.

Theorem C13_check_btran_spec : forall n B y c, check_btran n B y c = true <-> is_left_solution n B y c.
Proof. exact check_btran_spec. Qed.
Print Assumptions C13_check_btran_spec.

Theorem C13_check_ftran_unique :
  forall n B x x' a, nonsingular n B -> check_ftran n B x a = true -> check_ftran n B x' a = true ->
    forall j, (j < n)%nat -> qnth x j == qnth x' j.
Proof. exact check_ftran_unique. Qed.
Print Assumptions C13_check_ftran_unique.

Theorem C13_check_btran_unique :
  forall n B y y' c, nonsingular n B -> check_btran n B y c = true -> check_btran n B y' c = true ->
    forall j, (j < n)%nat -> qnth y j == qnth y' j.
Proof. exact check_btran_unique. Qed.
Print Assumptions C13_check_btran_unique.

(* "singular matrices must be reported singular": the judge for singularity is the verified elimination -
   it answers with an inverse exactly for non-singular matrices, otherwise with a non-zero left null vector *)
Theorem C13_singularity_decided :
  forall n B, (exists X, inverse n B = Some X) <-> nonsingular n B.
Proof. exact inverse_iff_nonsingular. Qed.
Print Assumptions C13_singularity_decided.

Theorem C13_singular_witness :
  forall n B, inverse n B = None -> exists y, null_vector n B = Some y /\ left_null n B y.
Proof. exact inverse_none_singular. Qed.
Print Assumptions C13_singular_witness.

(* for large matrices the check uses certificates instead of running the elimination: a non-zero y accepted as
   solution of y B = 0 proves B singular *)
Theorem C13_null_certificate :
  forall n B y z, vzerob n z = true -> check_btran n B y z = true -> veqb n y z = false -> ~ nonsingular n B.
Proof. exact null_certificate. Qed.
Print Assumptions C13_null_certificate.

Theorem C13_inverse_two_sided :
  forall n A X, inverse n A = Some X ->
    feq n n (fmul n (mget X) (mget A)) fid /\ feq n n (fmul n (mget A) (mget X)) fid.
Proof. intros n A X H. split; [exact (inverse_left n A X H) | exact (inverse_right n A X H)]. Qed.
Print Assumptions C13_inverse_two_sided.

(* (b) representation level (Fac/Factor.v): the eta-file / permuted-U representation held in the factor_work struct, walked
   by ftran / btran exactly as the dense-vector C loops do (short cuts for zero entries included).
   Linearity: each solve is the linear map given by its values on the unit vectors - the `!= 0` short cuts are inert. *)
Theorem C13_ftran_lin :
  forall r, wf_repr r = true -> forall a k, (k < f_dim r)%nat ->
    qnth (ftran_dense r a) k == sumn (f_dim r) (fun i => qnth a i * qnth (ftran_dense r (unitv (f_dim r) i)) k).
Proof. exact ftran_lin. Qed.
Print Assumptions C13_ftran_lin.

Theorem C13_btran_lin :
  forall r, wf_repr r = true -> forall a k, (k < f_dim r)%nat ->
    qnth (btran r a) k == sumn (f_dim r) (fun i => qnth a i * qnth (btran r (unitv (f_dim r) i)) k).
Proof. exact btran_lin. Qed.
Print Assumptions C13_btran_lin.

(* check_repr_sound: a representation that multiplies back on the unit vectors solves EVERY system exactly *)
Theorem C13_check_repr_sound :
  forall r B, check_repr r B = true ->
    forall a, is_solution (f_dim r) B (ftran_dense r a) a /\ is_left_solution (f_dim r) B (btran r a) a.
Proof. exact check_repr_sound. Qed.
Print Assumptions C13_check_repr_sound.

Theorem C13_check_repr_nonsingular : forall r B, check_repr r B = true -> nonsingular (f_dim r) B.
Proof. exact check_repr_nonsingular. Qed.
Print Assumptions C13_check_repr_nonsingular.

(* the hypotheses are satisfiable: the representation dumped from the library for B = [[2,1,0],[1,3,1],[0,1,4]]
   (h_fac: FNEW 3 / FCOL .. / FACTOR / FDUMP), and the one after replacing column 1 by (1,0,5) (one row eta) *)
Definition ex_repr : repr :=
  {| f_dim := 3;
     f_lc := [(2%nat, [(1%nat, 1#4)]); (0%nat, [(1%nat, 11#4)]); (1%nat, [])];
     f_lr := [(2%nat, []); (0%nat, []); (1%nat, [(2%nat, 1#4); (0%nat, 11#4)])];
     f_er := [];
     f_uc := [[(1%nat, -9#2); (0%nat, 2)]; [(0%nat, 1); (2%nat, 1)]; [(2%nat, 4)]];
     f_ur := [[(1%nat, 1); (0%nat, 2)]; [(0%nat, -9#2)]; [(2%nat, 4); (1%nat, 1)]];
     f_rperm := [2; 0; 1]%nat; f_cperm := [2; 1; 0]%nat |}.
Example C13_check_repr_example : check_repr ex_repr [[2;1;0];[1;3;1];[0;1;4]] = true.
Proof. vm_compute. reflexivity. Qed.

Definition ex_repr_upd : repr :=
  {| f_dim := 3;
     f_lc := [(2%nat, [(1%nat, 1#4)]); (0%nat, [(1%nat, 11#4)]); (1%nat, [])];
     f_lr := [(2%nat, []); (0%nat, []); (1%nat, [(2%nat, 1#4); (0%nat, 11#4)])];
     f_er := [(0%nat, [(1%nat, -4#9)])];
     f_uc := [[(1%nat, -9#2)]; [(0%nat, -7#9); (1%nat, -4); (2%nat, 5)]; [(2%nat, 4)]];
     f_ur := [[(1%nat, -7#9)]; [(0%nat, -9#2); (1%nat, -4)]; [(2%nat, 4); (1%nat, 5)]];
     f_rperm := [2; 1; 0]%nat; f_cperm := [2; 0; 1]%nat |}.
Example C13_check_repr_example_update : check_repr ex_repr_upd [[2;1;0];[1;0;1];[0;5;4]] = true.
Proof. vm_compute. reflexivity. Qed.

(* (c) the Forrest-Tomlin column replacement as an operation on repr (Fac/FTUpdate.v: [spike] = ILLfactor_ftran_update's
   upd, [update_spike] / [update] = ILLfactor_update without its space management, dense-path algebra; the sparse path
   (serow_process) computes the same multipliers and the same new row in another order and is tied by values).
   [represents r B] is the conclusion of check_repr_sound: ftran solves B x = b and btran solves y B = b for EVERY b.
   [struct_ok r] is the checkable invariant of the U part: rperm / cperm are permutations, U by columns and by rows are
   the same matrix, upper triangular in rank order, every line stores its non-zero pivot first.
   Tie: checks/C13.py runs the extracted [struct_ok] on every dump, the extracted [update_spike] on the dump before every
   ILLfactor_update with the library's own spike, and compares the result with the next dump entry by entry (lines as
   pivot + set of entries, row etas as sets) and by solves. *)

(* the two U phases are exact triangular solves *)
Theorem C13_usolve_exact :
  forall r, struct_ok r = true -> forall v i, (i < f_dim r)%nat ->
    sumn (f_dim r) (fun j => Ucf r i j * qnth (usolve r v) j) == qnth v i.
Proof. intros r S. apply usolve_spec. apply struct_ok_facts. exact S. Qed.
Print Assumptions C13_usolve_exact.

Theorem C13_usolve_t_exact :
  forall r, struct_ok r = true -> forall c j, (j < f_dim r)%nat ->
    sumn (f_dim r) (fun i => qnth (usolve_t r c) i * Urf r i j) == qnth c j.
Proof. intros r S. apply usolve_t_spec. apply struct_ok_facts. exact S. Qed.
Print Assumptions C13_usolve_t_exact.

(* update_preserves: an accepted update of a representation of B represents B with column k replaced by a,
   and keeps the invariant *)
Theorem C13_update_preserves :
  forall r B k a r1, struct_ok r = true -> represents r B -> (k < f_dim r)%nat -> update r k a = Some r1 ->
    struct_ok r1 = true /\ represents r1 (replace_col (f_dim r) B k a) /\ f_dim r1 = f_dim r.
Proof. exact update_preserves. Qed.
Print Assumptions C13_update_preserves.

(* the same for the spike handed over as any sparse vector denoting [spike r a] (the sparse path of
   ILLfactor_ftran_update can list explicit zeros, which move rank_r) *)
Theorem C13_update_spike_preserves :
  forall r B k s a r1, struct_ok r = true -> represents r B -> (k < f_dim r)%nat ->
    ind_lt (f_dim r) s = true -> (forall i, (i < f_dim r)%nat -> coefAt s i == qnth (spike r a) i) ->
    update_spike r k s = Some r1 ->
    struct_ok r1 = true /\ represents r1 (replace_col (f_dim r) B k a) /\ f_dim r1 = f_dim r.
Proof. exact update_spike_preserves. Qed.
Print Assumptions C13_update_spike_preserves.

(* the singular case: the update is refused (E_UPDATE_SINGULAR_ROW / _COL in the C code) exactly when the matrix with the
   replaced column is singular; the new pivot is (B^-1 a)_k times the old one *)
Theorem C13_update_none_singular :
  forall r B k a, struct_ok r = true -> represents r B -> (k < f_dim r)%nat -> update r k a = None ->
    ~ nonsingular (f_dim r) (replace_col (f_dim r) B k a).
Proof. exact update_none_singular. Qed.
Print Assumptions C13_update_none_singular.

Theorem C13_update_some_iff_nonsingular :
  forall r B k a, struct_ok r = true -> represents r B -> (k < f_dim r)%nat ->
    ((exists r1, update r k a = Some r1) <-> nonsingular (f_dim r) (replace_col (f_dim r) B k a)).
Proof. exact update_some_iff_nonsingular. Qed.
Print Assumptions C13_update_some_iff_nonsingular.

Theorem C13_update_new_pivot :
  forall r B k a r1, struct_ok r = true -> represents r B -> (k < f_dim r)%nat -> update r k a = Some r1 ->
    let p := index_of k (f_cperm r) in
    Ucf r1 (rk r p) k == Ucf r (rk r p) k * qnth (ftran_dense r a) k.
Proof. exact update_new_pivot. Qed.
Print Assumptions C13_update_new_pivot.

(* every update history: starting from a dump accepted by check_repr and struct_ok, the representation reached by any
   sequence of accepted replacements solves exactly with the matrix the sequence ends in *)
Theorem C13_update_history_preserves :
  forall h r B r1, struct_ok r = true -> represents r B -> (forall ka, In ka h -> (fst ka < f_dim r)%nat) ->
    update_hist r h = Some r1 ->
    struct_ok r1 = true /\ represents r1 (replace_hist (f_dim r) B h) /\ f_dim r1 = f_dim r.
Proof. exact update_history_preserves. Qed.
Print Assumptions C13_update_history_preserves.

Theorem C13_checked_history_solves :
  forall r B h r1, struct_ok r = true -> check_repr r B = true -> (forall ka, In ka h -> (fst ka < f_dim r)%nat) ->
    update_hist r h = Some r1 ->
    forall b, is_solution (f_dim r) (replace_hist (f_dim r) B h) (ftran_dense r1 b) b /\
              is_left_solution (f_dim r) (replace_hist (f_dim r) B h) (btran r1 b) b.
Proof. exact checked_history_solves. Qed.
Print Assumptions C13_checked_history_solves.

(* hypotheses satisfiable and the model agrees with the library on the recorded instance: the dump ex_repr passes struct_ok;
   the model's update with column 1 := (1,0,5) is, entry by entry (normal form), the library's next dump ex_repr_upd;
   replacing column 1 by a copy of column 0 is refused *)
Example C13_update_example :
  struct_ok ex_repr = true /\
  match update ex_repr 1 [1; 0; 5] with Some r1 => repr_same_u r1 ex_repr_upd | None => false end = true /\
  update ex_repr 1 [2; 1; 0] = None.
Proof. vm_compute. repeat split. Qed.

(* ---- (d) the factorization itself as a verified operation (Fac/LUFactor.v, Fac/LUFactorSound.v) ------------------------
   [lu_factor n B piv] is ILLfactor with the pivot order prescribed: Gaussian elimination with the pivots (row, column) of
   [piv] in this order, producing the representation exactly as the C code lays it out (L etas in column form with the
   multipliers a_ic / a_rc, L by rows, U by rows and columns with the pivot first, rperm / cperm = the pivot order, no row
   etas).  The correctness does not depend on how the pivots are found.
   Tie (checks/C13.py, every run): after every mpq_ILLfactor the dumped factor_work gives the pivot order (rperm, cperm in
   rank order); the extracted lu_factor runs on the input matrix with that order and its result must equal the dump (U lines
   as pivot + set of entries, L etas as sets, L by rows, permutations: [repr_same_lu]) and solve like the library. *)
From QSX Require Import Fac.LUFactorSound.

(* (a) for ANY pivot order the model accepts, the result represents B (every ftran / btran through it is exact) and
   satisfies the structural invariant the update theorems start from *)
Theorem C13_lu_factor_represents :
  forall n B piv r, lu_factor n B piv = Some r ->
    struct_ok r = true /\ represents r B /\ f_dim r = n /\ f_er r = [] /\ f_rperm r = map fst piv /\ f_cperm r = map snd piv.
Proof. exact lu_factor_represents. Qed.
Print Assumptions C13_lu_factor_represents.

Theorem C13_lu_factor_solves :
  forall n B piv r, lu_factor n B piv = Some r ->
    forall a, is_solution n B (ftran_dense r a) a /\ is_left_solution n B (btran r a) a.
Proof. exact lu_factor_solves. Qed.
Print Assumptions C13_lu_factor_solves.

(* the whole chain factor -> column replacements -> solves *)
Theorem C13_lu_factor_history_solves :
  forall n B piv r h r1, lu_factor n B piv = Some r -> update_hist r h = Some r1 ->
    (forall ka, In ka h -> (fst ka < n)%nat) ->
    forall a, is_solution n (replace_hist n B h) (ftran_dense r1 a) a /\ is_left_solution n (replace_hist n B h) (btran r1 a) a.
Proof. exact lu_factor_history_solves. Qed.
Print Assumptions C13_lu_factor_history_solves.

(* (c) the elimination invariant after the pivots piv = (r_0,c_0) .. (r_k-1,c_k-1):  L_k ... L_1 B = A_k  (column by
   column), column c_t of A_k vanishes outside the rows r_0 .. r_t  (A_k = [U_k | * ; 0 | kernel_k] in pivot order), the
   pivots are not zero, rows and columns are used once *)
Theorem C13_lu_elim_invariant :
  forall n B piv st, lu_steps n (lu_init n B) piv = Some st ->
    let k := length piv in
    lu_piv st = piv /\
    (forall i j, (i < n)%nat -> (j < n)%nat ->
       qnth (fold_left (axpy_step n) (lu_lc st) (bcol n B j)) i == mget (lu_A st) i j) /\
    (forall t i, (t < k)%nat -> (i < n)%nat -> (forall s, (s <= t)%nat -> i <> fst (nth s piv (0, 0)%nat)) ->
       mget (lu_A st) i (snd (nth t piv (0, 0)%nat)) == 0) /\
    (forall t, (t < k)%nat -> ~ mget (lu_A st) (fst (nth t piv (0, 0)%nat)) (snd (nth t piv (0, 0)%nat)) == 0) /\
    NoDup (map fst piv) /\ NoDup (map snd piv) /\ length (lu_lc st) = k.
Proof. exact lu_elim_invariant. Qed.
Print Assumptions C13_lu_elim_invariant.

(* (b) singular <-> stuck.  A step is admissible iff row and column are in range, unused, and the entry is not zero *)
Theorem C13_lu_step_some_iff :
  forall n st rc, (exists st', lu_step n st rc = Some st') <->
    (fst rc < n)%nat /\ (snd rc < n)%nat /\ ~ In (fst rc) (lu_rows st) /\ ~ In (snd rc) (lu_cols st) /\
    ~ mget (lu_A st) (fst rc) (snd rc) == 0.
Proof. exact lu_step_some_iff. Qed.
Print Assumptions C13_lu_step_some_iff.

(* a non-singular matrix never gets stuck, whatever admissible pivots were taken before *)
Theorem C13_lu_never_stuck :
  forall n B piv st, nonsingular n B -> lu_steps n (lu_init n B) piv = Some st -> (length piv < n)%nat ->
    exists rc st', lu_step n st rc = Some st'.
Proof. exact lu_never_stuck. Qed.
Print Assumptions C13_lu_never_stuck.

(* ... hence has a complete admissible pivot sequence; some sequence succeeds iff B is non-singular *)
Theorem C13_lu_factor_complete :
  forall n B, nonsingular n B -> exists r, lu_factor n B (lu_auto_pivots n B) = Some r.
Proof. exact lu_factor_complete. Qed.
Print Assumptions C13_lu_factor_complete.

Theorem C13_lu_factor_some_iff :
  forall n B, (exists piv r, lu_factor n B piv = Some r) <-> nonsingular n B.
Proof. exact lu_factor_some_iff. Qed.
Print Assumptions C13_lu_factor_some_iff.

(* for a singular B every pivot sequence fails; continued as long as a non-zero pivot is left it stops before the matrix is
   exhausted in a state whose kernel is entirely zero (the state in which find_pivot / dense_find_pivot return E_NO_PIVOT
   and handle_singularity reports the rows and columns left) *)
Theorem C13_lu_singular_fails :
  forall n B piv, ~ nonsingular n B -> lu_factor n B piv = None.
Proof. exact lu_singular_fails. Qed.
Print Assumptions C13_lu_singular_fails.

Theorem C13_lu_singular_gets_stuck :
  forall n B piv st, ~ nonsingular n B -> lu_steps n (lu_init n B) piv = Some st ->
    exists piv' st', lu_steps n (lu_init n B) (piv ++ piv') = Some st' /\ (length (piv ++ piv') < n)%nat /\
                     forall r c, (r < n)%nat -> (c < n)%nat -> lu_ok n st' r c = false.
Proof. exact lu_singular_gets_stuck. Qed.
Print Assumptions C13_lu_singular_gets_stuck.

(* conversely a stuck state, a zero row or a zero column of the kernel at any stage prove B singular *)
Theorem C13_lu_stuck_singular :
  forall n B piv st, lu_steps n (lu_init n B) piv = Some st -> (length piv < n)%nat ->
    (forall r c, (r < n)%nat -> (c < n)%nat -> lu_ok n st r c = false) -> ~ nonsingular n B.
Proof. exact lu_stuck_singular. Qed.
Print Assumptions C13_lu_stuck_singular.

Theorem C13_lu_zero_row_singular :
  forall n B piv st i, lu_steps n (lu_init n B) piv = Some st -> (i < n)%nat -> ~ In i (map fst piv) ->
    (forall j, (j < n)%nat -> ~ In j (map snd piv) -> mget (lu_A st) i j == 0) -> ~ nonsingular n B.
Proof. exact lu_zero_row_singular. Qed.
Print Assumptions C13_lu_zero_row_singular.

Theorem C13_lu_zero_col_singular :
  forall n B piv st c, lu_steps n (lu_init n B) piv = Some st -> (c < n)%nat -> ~ In c (map snd piv) ->
    (forall i, (i < n)%nat -> ~ In i (map fst piv) -> mget (lu_A st) i c == 0) -> ~ nonsingular n B.
Proof. exact lu_zero_col_singular. Qed.
Print Assumptions C13_lu_zero_col_singular.

(* the report (nsing, singr, singc) of a singular factorization, judged layout-independently: sing = [(singc_i, singr_i)];
   a matrix X accepted by [check_sing_report] certifies that the repaired matrix (columns singc_i := unit columns of the rows
   singr_i, what ILLbasis_factor does) is non-singular - not too few columns are named - and that the rows singc_i of X are
   left null vectors of B forming an identity block on the positions singr_i: |sing| independent null vectors - not too
   many are named *)
Theorem C13_sing_report_sound :
  forall n B sing X, check_sing_report n B sing X = true -> NoDup (map fst sing) ->
    nonsingular n (repair_cols n B sing) /\
    (forall c r, In (c, r) sing ->
       (forall j, (j < n)%nat -> sumn n (fun i => mget X c i * mget B i j) == 0) /\
       (forall c' r', In (c', r') sing -> mget X c r' == if Nat.eqb c c' then 1 else 0)) /\
    (sing <> [] -> ~ nonsingular n B).
Proof. exact sing_report_sound. Qed.
Print Assumptions C13_sing_report_sound.

(* the two passes over L that the proof of (a) rests on, for any eta file that is unit triangular in the pivot order:
   ILLfactor_ftranl computes x' with (I + M) x' = x, ILLfactor_btranl2 computes y' with y' (I + M) = y *)
Theorem C13_ftranl_spec :
  forall n M lc x, tri M (map fst lc) -> NoDup (map fst lc) -> colform n M lc -> forall i, (i < n)%nat ->
    qnth (fold_left (axpy_step n) lc x) i +
    sumn n (fun b => ind (map fst lc) b * (M i b * qnth (fold_left (axpy_step n) lc x) b)) == qnth x i.
Proof. exact ftranl_spec. Qed.
Print Assumptions C13_ftranl_spec.

Theorem C13_btranl_spec :
  forall n M lr y, tri M (map fst lr) -> NoDup (map fst lr) -> rowform n M lr -> forall i, (i < n)%nat ->
    qnth (fold_left (axpy_step n) (rev lr) y) i +
    sumn n (fun a => ind (map fst lr) a * (qnth (fold_left (axpy_step n) (rev lr) y) a * M a i)) == qnth y i.
Proof. exact btranl_spec. Qed.
Print Assumptions C13_btranl_spec.

(* the hypotheses are satisfiable, the model computes: a 3x3 matrix factored with a row-permuted pivot order passes
   check_repr and struct_ok; the search finds the diagonal; a singular matrix gets stuck after two pivots with the kernel
   [[0]] and is refused *)
Example C13_lu_factor_example :
  let B := [[2; 1; 0]; [1; 3; 1]; [0; 1; 4]] in
  let S := [[1; 2; 3]; [2; 4; 6]; [0; 1; 1]] in
  match lu_factor 3 B [(1, 0); (0, 1); (2, 2)]%nat with Some r => check_repr r B && struct_ok r | None => false end = true /\
  lu_auto_pivots 3 B = [(0, 0); (1, 1); (2, 2)]%nat /\
  lu_factor 3 S [(0, 0); (2, 1); (1, 2)]%nat = None /\
  lu_kernel 3 S [(0, 0); (2, 1)]%nat = Some ([1%nat], [2%nat], [[0]]).
Proof. vm_compute. repeat split. Qed.

(* the model agrees with the library on a recorded instance: with the pivot order of the dumped permutations the verified
   elimination reproduces the dumped factor_work (normal form), which passes check_repr *)
Example C13_lu_factor_recorded :
  match lu_factor 3 ex_lu_B (combine (f_rperm ex_lu_dump) (f_cperm ex_lu_dump)) with
  | Some r => repr_same_lu r ex_lu_dump && check_repr ex_lu_dump ex_lu_B
  | None => false
  end = true.
Proof. vm_compute. reflexivity. Qed.

(* ---- (e) the sparse solve variants (ILLfactor_ftranl3, _btranl3, _ftranu3, _btranu3) -----------------------------------
   They handle only the nodes reachable from the non-zeros of the right-hand side, depth first, a node when all its reachable
   predecessors are done.  Fac/TopoOrder.v: any evaluation order that respects the dependency order of the triangular factor
   ([tri] for the eta passes, [triP] for the U passes) and whose skipped nodes are inert (zero input, not written to by a
   handled node) gives the vector of the dense loop, so the sparse variants are covered by check_repr_sound /
   lu_factor_represents / update_preserves modulo "the C code visits such an order".  Run-time check of that premise where it
   is observable: the order in which mpq_ILLfactor_ftran lists its result is the order in which ftranu / ftranu3 handled the
   columns with a non-zero value; checks/C13.py runs the extracted [listed_order_ok] on it against the dumped U. *)
From QSX Require Import Fac.TopoOrder.

Theorem C13_ftranl_order_irrelevant :
  forall n M lc1 lc2 x,
    tri M (map fst lc1) -> NoDup (map fst lc1) -> colform n M lc1 ->
    tri M (map fst lc2) -> NoDup (map fst lc2) -> colform n M lc2 ->
    incl (map fst lc2) (map fst lc1) ->
    (forall b, In b (map fst lc1) -> ~ In b (map fst lc2) ->
       qnth x b == 0 /\ forall b', In b' (map fst lc2) -> M b b' == 0) ->
    forall i, (i < n)%nat -> qnth (fold_left (axpy_step n) lc2 x) i == qnth (fold_left (axpy_step n) lc1 x) i.
Proof. exact ftranl_order_irrelevant. Qed.
Print Assumptions C13_ftranl_order_irrelevant.

Theorem C13_btranl_order_irrelevant :
  forall n M lr1 lr2 y,
    tri M (map fst lr1) -> NoDup (map fst lr1) -> rowform n M lr1 ->
    tri M (map fst lr2) -> NoDup (map fst lr2) -> rowform n M lr2 ->
    incl (map fst lr2) (map fst lr1) ->
    (forall a, In a (map fst lr1) -> ~ In a (map fst lr2) ->
       qnth y a == 0 /\ forall a', In a' (map fst lr2) -> M a' a == 0) ->
    forall i, (i < n)%nat -> qnth (fold_left (axpy_step n) (rev lr2) y) i == qnth (fold_left (axpy_step n) (rev lr1) y) i.
Proof. exact btranl_order_irrelevant. Qed.
Print Assumptions C13_btranl_order_irrelevant.

Theorem C13_ftranu_order_irrelevant :
  forall r pjs v, struct_ok r = true -> triP (f_uc r) [] pjs ->
    (forall pj, In pj pjs -> (fst pj < f_dim r)%nat /\ (snd pj < f_dim r)%nat) ->
    (forall i, (i < f_dim r)%nat -> ~ In i (map fst pjs) -> qnth v i == 0 /\ forall pj, In pj pjs -> Ucf r i (snd pj) == 0) ->
    forall j, (j < f_dim r)%nat ->
      qnth (dense (f_dim r) (snd (fold_left (u_step (f_dim r) (f_uc r)) pjs (v, [])))) j == qnth (usolve r v) j.
Proof. exact ftranu_order_irrelevant. Qed.
Print Assumptions C13_ftranu_order_irrelevant.

Theorem C13_btranu_order_irrelevant :
  forall r pjs c, struct_ok r = true -> triP (f_ur r) [] pjs ->
    (forall pj, In pj pjs -> (fst pj < f_dim r)%nat /\ (snd pj < f_dim r)%nat) ->
    (forall j, (j < f_dim r)%nat -> ~ In j (map fst pjs) -> qnth c j == 0 /\ forall pj, In pj pjs -> Urf r (snd pj) j == 0) ->
    forall i, (i < f_dim r)%nat ->
      qnth (dense (f_dim r) (snd (fold_left (u_step (f_dim r) (f_ur r)) pjs (c, [])))) i == qnth (usolve_t r c) i.
Proof. exact btranu_order_irrelevant. Qed.
Print Assumptions C13_btranu_order_irrelevant.

(* the executable premise check decides [triP] for the listed order *)
Theorem C13_listed_order_ok_spec :
  forall cols order, listed_order_ok cols order = true <-> triP cols [] (listed_pjs cols order).
Proof. exact listed_order_ok_spec. Qed.
Print Assumptions C13_listed_order_ok_spec.

(* satisfiable: on the recorded factor the right-hand side e_2 reaches column 2 only; handling just that column gives the
   result of the full loop; the rank order (columns 0, 1, 2 by decreasing rank) passes the check, its reverse does not *)
Example C13_topo_example :
  listed_order_ok (f_uc ex_lu_dump) [2%nat] = true /\
  veqb 3 (dense 3 (snd (fold_left (u_step 3 (f_uc ex_lu_dump)) [(2, 2)%nat] ([0; 0; 1], [])))) (usolve ex_lu_dump [0; 0; 1]) = true /\
  listed_order_ok (f_uc ex_lu_dump) [0; 1; 2]%nat = true /\
  listed_order_ok (f_uc ex_lu_dump) [2; 1; 0]%nat = false.
Proof. vm_compute. repeat split. Qed.
