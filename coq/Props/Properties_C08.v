(* C08  Writing a problem in LP format and reading it back yields the same problem.
   Level reached: proof at the level of lines of text (models of ILLwrite_lp and ILLread_lp, both tied to the
   library on every run) + exploration of the real round trip with the verified oracle.
   PROVED (all inputs, no size bound):
     C08_lp_roundtrip          for every problem by name that satisfies the precondition of the property (wf_lp: every
                               column used, a row with a non-zero, valid names that are not inf/infinity/free, ordered
                               bounds, finite right hand sides and coefficients) the lines the writer model prints are
                               accepted by the reader model, and what it delivers is equiv_by_name to the problem written
                               (column order free, ranged row = its two halves, rows without entries dropped)
     C08_expr_roundtrip        the expression layer for ARBITRARY wrapping points (any well-formed item list, not only
                               the writer's 256-character rule) - so the wrapping rule itself is not a proof obligation
     C08_numbers_roundtrip, C08_bounds_roundtrip, C08_range_split_equiv, C08_oracle_sound_partial, C08_same_optimum
                               the sub-codecs and the meaning of the oracle, as before
   TIED to the code on every run: write_lp = the bytes of mpq_QSwrite_prob (whole files, >= 300 per run);
   read_lp_res = mpq_QSget_prob (C10: rendered, mutated and library-written files, accepted and rejected).
     C08_fix_names_ok          the name repair (fix_names / ILLsymboltab_uname): repaired names are valid, not reserved, distinct
   NOT PROVED: that the other parts of wf_lp survive the renaming (the two theorems are composed per instance: the check
   evaluates wf_lpb on the repaired problem), the byte level below lines (line reader chunks of 131069 bytes, .gz/.bz2), and that the
   fuel of the reader model always suffices (it does on every written file by the theorem). *)
From QSX Require Import LP.User IO.Num IO.NumSound IO.Bounds IO.Equiv IO.LpWrite IO.LpRead IO.LpTok IO.LpExpr IO.LpRows IO.LpBounds IO.LpFinish IO.LpRoundtrip IO.LpNames IO.LpBytes.
From Coq Require Import List QArith.
Import ListNotations.
Local Open Scope Q_scope.

Theorem C08_numbers_roundtrip :
  forall strict q rest, stops rest ->
  exists q', read_num_gen strict (print_num q ++ rest) = (Val q', List.length (print_num q)) /\ q' == q.
Proof. exact read_print_num. Qed.
Print Assumptions C08_numbers_roundtrip.

Theorem C08_bounds_roundtrip :
  forall M lo up isint, 0 < M -> lo <= up ->
  let r := decode_bounds M (encode_bounds M lo up isint) isint in fst r == lo /\ snd r == up.
Proof. exact bounds_roundtrip. Qed.
Print Assumptions C08_bounds_roundtrip.

Theorem C08_range_split_equiv :
  forall v r r1 r2, nr_sense r = SR -> lower_half r r1 = true -> upper_half r r2 = true ->
  (row_sat v r <-> row_sat v r1 /\ row_sat v r2).
Proof. exact range_split_equiv. Qed.
Print Assumptions C08_range_split_equiv.

Theorem C08_oracle_sound_partial :
  forall M P P', equiv_by_name P P' = true ->
  n_max P = n_max P' /\ (forall v, nobj P v == nobj P' v) /\ (forall nm, is_int P nm = is_int P' nm) /\
  (forall v, nfeasible M P v -> nfeasible M P' v) /\ (empty_ok P -> forall v, nfeasible M P' v -> nfeasible M P v).
Proof. exact equiv_by_name_sound. Qed.
Print Assumptions C08_oracle_sound_partial.

Theorem C08_same_optimum :
  forall M P P' v val, equiv_by_name P P' = true -> empty_ok P -> (nis_optimum M P v val <-> nis_optimum M P' v val).
Proof. exact equiv_same_optimum. Qed.
Print Assumptions C08_same_optimum.

(* ---- the LP format at the level of lines ------------------------------------------------------------------------------ *)

Theorem C08_lp_roundtrip :
  forall M, 0 < M -> forall P, wf_lp M P ->
  exists P', read_lp true M (write_lp M P) = Some P' /\ equiv_by_name (to_nlp P) (to_nlp P') = true.
Proof. exact lp_roundtrip. Qed.
Print Assumptions C08_lp_roundtrip.

(* names are passed to the oracle as numbers; the numbering loses nothing *)
Theorem C08_names_injective : forall s t, N_of_name s = N_of_name t -> s = t.
Proof. exact N_of_name_inj. Qed.
Print Assumptions C08_names_injective.

Theorem C08_expr_roundtrip :
  forall M, 0 < M -> forall tc tl its st rw k cu re,
  (forall st0, cur st0 = cutline tc -> rest st0 = tl -> eof st0 = false -> snd (sign st0) = None) ->
  stop_name (cutline tc) ->
  items_ok M MFirst its -> rem M tc tl its = (cu, re) ->
  cur st = cutline cu -> rest st = re -> eof st = false -> (count_terms its <= k)%nat ->
  exists st_t, cur st_t = cutline tc /\ rest st_t = tl /\ eof st_t = false /\
    read_expr true (S k) st rw true = PrOk (fst (sign st_t), add_terms rw (terms_of its)).
Proof. exact expr_roundtrip. Qed.
Print Assumptions C08_expr_roundtrip.

(* the value read for a written coefficient is the coefficient; the writer's own wrapping produces well-formed item lists *)
Theorem C08_coefficient_value : forall c, rd_coef c == c.
Proof. exact rd_coef_eq. Qed.
Print Assumptions C08_coefficient_value.

Theorem C08_writer_items_ok :
  forall M startlen ts total b, terms_ok M ts -> (ts <> [] \/ b = false) ->
  items_ok M (if b then MFirst else MNeed) (row_items M startlen ts total b b).
Proof. exact row_items_ok. Qed.
Print Assumptions C08_writer_items_ok.

(* the bound statements as re-read decode to the bounds of the column *)
Theorem C08_bounds_reread :
  forall M lo up isint, 0 < M -> lo <= up ->
  let r := decode_bounds M (map (rd_stmt M) (encode_bounds M lo up isint)) isint in fst r == lo /\ snd r == up.
Proof. exact decode_rd. Qed.
Print Assumptions C08_bounds_reread.

(* the name repair of the writer (fix_names): whatever names a symbol table holds, the repaired names are valid LP names,
   none is inf / infinity / free, and they are pairwise different - the name part of wf_lp *)
Theorem C08_fix_names_ok :
  forall pref, prefix_ok [pref] -> forall names, NoDup names ->
  NoDup (fix_names pref names) /\ Forall (good) (fix_names pref names) /\
  List.length (fix_names pref names) = List.length names.
Proof. exact fix_names_ok. Qed.
Print Assumptions C08_fix_names_ok.

(* the precondition as an executable test (evaluated by checks/C08.py on every generated problem) *)
Theorem C08_wf_test_sound : forall M P, wf_lpb M P = true -> wf_lp M P.
Proof. exact wf_lpb_sound. Qed.
Print Assumptions C08_wf_test_sound.

(* the hypotheses of C08_lp_roundtrip are satisfiable (ranged row, keyword as column name, integer column, empty row) *)
Example C08_wf_satisfiable : exists M P, 0 < M /\ wf_lp M P.
Proof. eexists 1000, _. split; [reflexivity|]. exact (proj1 wf_lp_example). Qed.

(* the same on the bytes of the file: the lines printed with "%s\n", split again the way fgets does with the reader's
   line buffer, give the same result (the lines of the file have no newline of their own and fit the buffer) *)
Theorem C08_lp_roundtrip_bytes :
  forall M P, 0 < M -> wf_lp M P -> Forall line_ok (write_lp M P) ->
  exists P', read_lp true M (split_lines (file_bytes (write_lp M P))) = Some P' /\ equiv_by_name (to_nlp P) (to_nlp P') = true.
Proof. exact lp_roundtrip_bytes. Qed.
Print Assumptions C08_lp_roundtrip_bytes.
