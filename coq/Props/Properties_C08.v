(* C08  Writing a problem in LP format and reading it back yields the same problem.
   Level reached: proof of the sub-codecs + exploration with a verified oracle.
   PROVED (all inputs): numbers survive printing and re-reading exactly (read_print_num); the
   default-bound elision of the writer is inverted by the reader's default rules
   (bounds_roundtrip); a ranged row is equivalent to the two halves the writer emits
   (range_split_equiv); the comparison used on every real round trip means what it says
   (equiv_by_name_sound, equiv_same_optimum).
   NOT PROVED (explored on the real writer/reader only): the token- and byte-level codec -
   fix_names, term layout and line wrapping, section keywords, the "\ RANGE" comment - i.e. the
   target theorem  lp_roundtrip : wf_lp P -> read_lp (write_lp P) = Some P' /\ equiv_by_name P P'. *)
From QSX Require Import LP.User IO.Num IO.NumSound IO.Bounds IO.Equiv.
From Coq Require Import List QArith.
Import ListNotations.
Local Open Scope Q_scope.

Theorem C08_numbers_roundtrip :
  forall strict q rest, stops rest ->
  exists q', read_num_gen strict (print_num q ++ rest) = (Val q', List.length (print_num q)) /\ q' == q.
Proof. exact read_print_num. Qed.
Print Assumptions C08_numbers_roundtrip.

Theorem C08_bounds_roundtrip :
  forall M lo up isint, 0 < M -> lo <= up ->
  let r := decode_bounds M (encode_bounds M lo up isint) isint in fst r == lo /\ snd r == up.
Proof. exact bounds_roundtrip. Qed.
Print Assumptions C08_bounds_roundtrip.

Theorem C08_range_split_equiv :
  forall v r r1 r2, nr_sense r = SR -> lower_half r r1 = true -> upper_half r r2 = true ->
  (row_sat v r <-> row_sat v r1 /\ row_sat v r2).
Proof. exact range_split_equiv. Qed.
Print Assumptions C08_range_split_equiv.

Theorem C08_oracle_sound_partial :
  forall M P P', equiv_by_name P P' = true ->
  n_max P = n_max P' /\ (forall v, nobj P v == nobj P' v) /\ (forall nm, is_int P nm = is_int P' nm) /\
  (forall v, nfeasible M P v -> nfeasible M P' v) /\ (empty_ok P -> forall v, nfeasible M P' v -> nfeasible M P v).
Proof. exact equiv_by_name_sound. Qed.
Print Assumptions C08_oracle_sound_partial.

Theorem C08_same_optimum :
  forall M P P' v val, equiv_by_name P P' = true -> empty_ok P -> (nis_optimum M P v val <-> nis_optimum M P' v val).
Proof. exact equiv_same_optimum. Qed.
Print Assumptions C08_same_optimum.
