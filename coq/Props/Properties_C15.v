(* C15  Equivalent formulations of an LP receive equivalent answers.
   For each reformulation: an lp_equiv (maps between feasible sets + sign-aware affine map on
   values); from an lp_equiv: optimum <-> optimum with related values, infeasible <-> infeasible,
   unbounded <-> unbounded; lp_equiv is closed under composition. *)
From QSX Require Import LP.TransformSound LP.TransformBounds LP.TransformSlack.
Local Open Scope Q_scope.

Theorem C15_equiv_optimum : forall M U U' phi psi neg b, lp_equiv M U U' phi psi neg b ->
  forall x v, uis_optimum M U x v -> uis_optimum M U' (phi x) (vmap neg b v).
Proof. exact equiv_optimum. Qed.
Print Assumptions C15_equiv_optimum.

Theorem C15_equiv_optimum_back : forall M U U' phi psi neg b, lp_equiv M U U' phi psi neg b ->
  forall x' w, uis_optimum M U' x' w -> uis_optimum M U (psi x') (vinv neg b w).
Proof. exact equiv_optimum_back. Qed.
Print Assumptions C15_equiv_optimum_back.

Theorem C15_equiv_infeasible : forall M U U' phi psi neg b, lp_equiv M U U' phi psi neg b ->
  (uinfeasible M U <-> uinfeasible M U').
Proof. exact equiv_infeasible. Qed.
Print Assumptions C15_equiv_infeasible.

Theorem C15_equiv_unbounded : forall M U U' phi psi neg b, lp_equiv M U U' phi psi neg b ->
  uunbounded M U -> uunbounded M U'.
Proof. exact equiv_unbounded. Qed.
Print Assumptions C15_equiv_unbounded.

Theorem C15_equiv_unbounded_back : forall M U U' phi psi neg b, lp_equiv M U U' phi psi neg b ->
  uunbounded M U' -> uunbounded M U.
Proof. exact equiv_unbounded_back. Qed.
Print Assumptions C15_equiv_unbounded_back.

Theorem C15_composition : forall M U1 U2 U3 p1 q1 n1 b1 p2 q2 n2 b2,
  lp_equiv M U1 U2 p1 q1 n1 b1 -> lp_equiv M U2 U3 p2 q2 n2 b2 ->
  lp_equiv M U1 U3 (fun x => p2 (p1 x)) (fun x => q1 (q2 x)) (xorb n1 n2) ((if n2 then - b1 else b1) + b2).
Proof. exact lp_equiv_trans. Qed.
Print Assumptions C15_composition.

Theorem C15_row_permutation : forall M U p, is_perm (um U) p = true ->
  lp_equiv M U (perm_rows p U) (fun x => x) (fun x => x) false 0.
Proof. exact perm_rows_equiv. Qed.
Print Assumptions C15_row_permutation.

Theorem C15_row_scaling : forall M U i l U', scale_row_lp M i l U = Some U' ->
  lp_equiv M U U' (fun x => x) (fun x => x) false 0.
Proof. exact scale_row_equiv. Qed.
Print Assumptions C15_row_scaling.

Theorem C15_variable_rescaling_and_shift : forall M al tl U U', subst_vars M al tl U = Some U' ->
  lp_equiv M U U' (sub_phi al tl) (sub_psi al tl) false (- sumn (un U) (fun j => uc_obj (ucolj U j) * nth j tl 0)).
Proof. exact subst_vars_equiv. Qed.
Print Assumptions C15_variable_rescaling_and_shift.

Theorem C15_objective_negation : forall M U, lp_equiv M U (neg_obj U) (fun x => x) (fun x => x) true 0.
Proof. exact neg_obj_equiv. Qed.
Print Assumptions C15_objective_negation.

Theorem C15_row_duplication : forall M U i, lp_equiv M U (dup_row i U) (fun x => x) (fun x => x) false 0.
Proof. exact dup_row_equiv. Qed.
Print Assumptions C15_row_duplication.

Theorem C15_redundant_row : forall M U i d, (i < um U)%nat ->
  lp_equiv M U (add_redundant i d U) (fun x => x) (fun x => x) false 0.
Proof. exact add_redundant_equiv. Qed.
Print Assumptions C15_redundant_row.

Theorem C15_equality_split : forall M U i, lp_equiv M U (split_eq i U) (fun x => x) (fun x => x) false 0.
Proof. exact split_eq_equiv. Qed.
Print Assumptions C15_equality_split.

Theorem C15_column_permutation : forall M p U U', perm_cols p U = Some U' ->
  lp_equiv M U U' (pc_phi p) (pc_psi p) false 0.
Proof. exact perm_cols_equiv. Qed.
Print Assumptions C15_column_permutation.

(* a finite bound of a column written as an explicit row (the column's bound becomes infinite) *)
Theorem C15_bound_as_row : forall M upper j U U', bound_to_row M upper j U = Some U' ->
  lp_equiv M U U' (fun x => x) (fun x => x) false 0.
Proof. exact bound_to_row_equiv. Qed.
Print Assumptions C15_bound_as_row.

(* an inequality row written as an equation with an explicit slack column (new last column, objective 0) *)
Theorem C15_slack_column : forall M i U U', 0 < M -> add_slack M i U = Some U' ->
  lp_equiv M U U' (slack_phi U i) (fun x => x) false 0.
Proof. exact add_slack_equiv. Qed.
Print Assumptions C15_slack_column.
