(* C14  A basis file reads back as the same basis; writing does not consume the basis.
   Level reached: proof (line-level model of ILLlib_writebasis / ILLlib_readbasis) + correspondence
   with the real file bytes and the real reader on all valid bases of small LPs.
   The file abstraction is the list of data lines; the bytes of a line (" XU col row\n") and the
   NAME / ENDATA frame are compared with the real file in the check. *)
From Coq Require Import List NArith.
Import ListNotations.
From QSX Require Import IO.Bas.

Theorem C14_pairing_counts :
  forall cols rows, valid_basis cols rows -> length (basic_names cols) = nonbasic_count rows.
Proof. exact pairing_counts. Qed.
Print Assumptions C14_pairing_counts.

Theorem C14_basis_roundtrip :
  forall cols rows, valid_basis cols rows ->
  exists L, write_basis cols rows = Some L /\ read_basis cols (map fst rows) L = Some (map norm cols, map snd rows).
Proof. exact basis_roundtrip. Qed.
Print Assumptions C14_basis_roundtrip.

Theorem C14_same_basic_set : forall cols c, In c cols -> (norm c = Ba <-> cstat c = Ba).
Proof. exact same_basic_set. Qed.
Print Assumptions C14_same_basic_set.

Theorem C14_same_at_upper : forall cols c, In c cols -> (norm c = Up <-> cstat c = Up).
Proof. exact same_at_upper. Qed.
Print Assumptions C14_same_at_upper.

Theorem C14_differences_only_nonbasic_free :
  forall c, norm c <> cstat c -> (cstat c = Lo /\ cfree c = true) \/ (cstat c = Fr /\ cfree c = false).
Proof. exact differences_only_nonbasic_free. Qed.
Print Assumptions C14_differences_only_nonbasic_free.

(* the wrapper as found consumes the problem's own basis (replayed on the library by the check) *)
Theorem C14_write_own_basis_keeps_it_refuted :
  exists own, snd (qs_write_basis false own None true) = true /\ fst (qs_write_basis false own None true) <> own.
Proof. exact write_own_basis_keeps_it_refuted. Qed.
Print Assumptions C14_write_own_basis_keeps_it_refuted.

Theorem C14_write_own_basis_keeps_it_fixed : forall own arg ok, fst (qs_write_basis true own arg ok) = own.
Proof. exact write_own_basis_keeps_it_fixed. Qed.
Print Assumptions C14_write_own_basis_keeps_it_fixed.

Theorem C14_valid_basis_example :
  valid_basis [(1%N, Ba, false); (2%N, Up, false); (3%N, Lo, true); (4%N, Ba, false)] [(10%N, Up); (11%N, Ba); (12%N, Lo)].
Proof.
  repeat split; simpl; repeat constructor; simpl; try tauto; try discriminate;
    intros H; repeat (destruct H as [H|H]; try discriminate H); try contradiction.
Qed.
Print Assumptions C14_valid_basis_example.

(* load_same_solution: loading the basis read back from the file reproduces the basic solution and the verdicts of the basis
   that was written.  The file changes column statuses only between at-lower and free (C14_differences_only_nonbasic_free);
   ILLbasis_load (model Fac/Basis.v [loaded_basis], tied by the correspondence of C12) sends both to the same status, so the
   loaded bases are equal - and with them the exact basic solution (xB_of, pi_of, zfull) and the results of
   QSexact_basis_optimalstatus / _dualstatus (lib_optimalstatus, lib_dualstatus). *)
From QSX Require Import Fac.BasisLoad IO.BasLoad.

Theorem C14_load_same_basis :
  forall M P (cols : list (N * Bas.st * bool)) rs,
    loaded_basis M P (mk_basis (map Bas.norm cols) rs) = loaded_basis M P (mk_basis (map Bas.cstat cols) rs).
Proof. exact load_same_basis. Qed.
Print Assumptions C14_load_same_basis.

Theorem C14_load_same_solution :
  forall M P ns isR cols rows, Bas.valid_basis cols rows ->
  exists L cs' rs',
    Bas.write_basis cols rows = Some L /\ Bas.read_basis cols (map fst rows) L = Some (cs', rs') /\
    let B := mk_basis (map Bas.cstat cols) (map snd rows) in
    let B' := mk_basis cs' rs' in
    loaded_basis M P B' = loaded_basis M P B /\
    xB_of P (loaded_basis M P B') = xB_of P (loaded_basis M P B) /\
    pi_of P (loaded_basis M P B') = pi_of P (loaded_basis M P B) /\
    (forall xB, zfull P (loaded_basis M P B') xB = zfull P (loaded_basis M P B) xB) /\
    lib_optimalstatus M P ns isR B' = lib_optimalstatus M P ns isR B /\
    (forall g, lib_dualstatus M P ns isR B' g = lib_dualstatus M P ns isR B g).
Proof. exact load_same_solution. Qed.
Print Assumptions C14_load_same_solution.
