(* C10  Files are read as the exact problem their text denotes.
   Level reached: proof of the literal scanner + a line-level model of the LP reader (IO/LpRead.v, tied to
   mpq_QSget_prob on every run on rendered, mutated and library-written files, accepted and rejected) with theorems for
   one family of layouts + exploration with independent renderers.
   PROVED (all lengths, both variants of the scanner - as found / with numreader_div_zero.diff):
   every structured literal  sign? digits (. digits)? ((e|E) sign? digits)? (/ the same)?  with at most 9
   exponent digits and a non-zero denominator is consumed completely and read as exactly the rational
   it spells (0.1 = 1/10); what the library prints is read back as the same rational; the default /
   implicit bound rules (fill_in_bounds) invert the writer's elision; the RANGES interval rules.
   PROVED for the LP reader model: expressions laid out with line breaks at arbitrary places and the "+" before or
   after a break are read as the terms they spell (C10_lp_expr_any_wrapping: omitted coefficient = 1, sign and number
   separated by blanks or line breaks, names that spell keywords away from column 0); a column name is never taken for
   a bound value unless it IS inf / infinity (C10_lp_name_is_no_bound); bound values inf / -inf / numbers are read as the
   value they spell (C10_lp_bound_value); whole files in the writer's layout denote the problem written
   (C10_lp_written_file_partial = C08_lp_roundtrip).
   NOT PROVED: read_lp (render P layout) = Some P for the other lexical freedoms (keyword spellings and case, comments,
   explicit "+" on the first term, repeated terms, coefficient spellings other than p/q, several bound statements on a
   line): explored with the independent renderer, and the reader model must agree with the library on each such file. *)
From Coq Require Import List QArith Lia.
Import ListNotations.
From QSX Require Import IO.Num IO.NumSound IO.Bounds IO.Ranges IO.Equiv IO.Lex IO.LpWrite IO.LpRead IO.LpTok IO.LpExpr IO.LpRows IO.LpBounds IO.LpFinish IO.LpRoundtrip IO.LpTotal IO.LpBytes.
From QSX Require Import IO.MpsWrite IO.MpsRead IO.MpsTotal IO.MpsTok IO.MpsEquiv IO.MpsRoundtrip IO.MpsWf.
Local Open Scope Q_scope.

Theorem C10_read_denotes :
  forall strict l rest, lit_ok l -> stops rest ->
  exists q, read_num_gen strict (render_lit l ++ rest) = (Val q, List.length (render_lit l)) /\ q == denote l.
Proof. exact read_denotes. Qed.
Print Assumptions C10_read_denotes.

Theorem C10_read_print_num :
  forall strict q rest, stops rest ->
  exists q', read_num_gen strict (print_num q ++ rest) = (Val q', List.length (print_num q)) /\ q' == q.
Proof. exact read_print_num. Qed.
Print Assumptions C10_read_print_num.

Theorem C10_read_num_total :
  forall strict s, exists r n, read_num_gen strict s = (r, n) /\ (n <= List.length s)%nat.
Proof. exact read_num_total. Qed.
Print Assumptions C10_read_num_total.

Theorem C10_default_bounds :
  forall M lo up isint, 0 < M -> lo <= up ->
  let r := decode_bounds M (encode_bounds M lo up isint) isint in fst r == lo /\ snd r == up.
Proof. exact bounds_roundtrip. Qed.
Print Assumptions C10_default_bounds.

Theorem C10_ranges_semantics :
  forall s rhs r, let t := transfer s rhs r in let i := mps_interval s rhs r in
  fst t == fst i /\ fst t + snd t == snd i /\ 0 <= snd t.
Proof. exact ranges_semantics. Qed.
Print Assumptions C10_ranges_semantics.

(* hypotheses are satisfiable: "-.5E+3/2.50" is such a literal and denotes -200 *)
Theorem C10_literal_example :
  let l := mk_lit (mk_mant (Some true) Decimal.Nil (Some (Decimal.D5 Decimal.Nil)) (Some (true, Some false, Decimal.D3 Decimal.Nil)))
                  (Some (mk_mant None (Decimal.D2 Decimal.Nil) (Some (Decimal.D5 (Decimal.D0 Decimal.Nil))) None)) in
  lit_ok l /\ Qred (denote l) = (-200 # 1).
Proof.
  split; [|vm_compute; reflexivity].
  unfold lit_ok, mant_ok, mant_nz, frac_of, ulen. cbn.
  repeat split; try (right; discriminate); try (left; discriminate); try lia.
Qed.
Print Assumptions C10_literal_example.

(* ---- the LP reader model -------------------------------------------------------------------------------------------- *)

Theorem C10_lp_expr_any_wrapping :
  forall M, 0 < M -> forall tc tl its st rw k cu re,
  (forall st0, cur st0 = cutline tc -> rest st0 = tl -> eof st0 = false -> snd (sign st0) = None) ->
  stop_name (cutline tc) ->
  items_ok M MFirst its -> rem M tc tl its = (cu, re) ->
  cur st = cutline cu -> rest st = re -> eof st = false -> (count_terms its <= k)%nat ->
  exists st_t, cur st_t = cutline tc /\ rest st_t = tl /\ eof st_t = false /\
    read_expr true (S k) st rw true = PrOk (fst (sign st_t), add_terms rw (terms_of its)).
Proof. exact expr_roundtrip. Qed.
Print Assumptions C10_lp_expr_any_wrapping.

Theorem C10_lp_name_is_no_bound :
  forall M st b nm c', cur st = b ++ nm ++ c' -> all_blank b -> name_ok nm -> reserved nm = false ->
  (c' = [] \/ exists y r, c' = y :: r /\ is_blank y = true) ->
  exists st', possible_bound_value true M st = inl (st', None) /\ moved st st' b (nm ++ c') /\ fld st' = fld st.
Proof. exact pbv_name. Qed.
Print Assumptions C10_lp_name_is_no_bound.

Theorem C10_lp_bound_value :
  forall M st b v c', cur st = b ++ print_val M v ++ c' -> all_blank b ->
  (c' = [] \/ exists y r, c' = y :: r /\ is_blank y = true) ->
  exists st' b' c'', possible_bound_value true M st = inl (st', Some (rd_bound M v)) /\
    c' = b' ++ c'' /\ all_blank b' /\ cur st' = c'' /\ rest st' = rest st /\ eof st' = eof st /\ pre st' <> [].
Proof. exact pbv_val. Qed.
Print Assumptions C10_lp_bound_value.

Theorem C10_lp_bound_value_exact : forall M v, rd_bound M v == v.
Proof. exact rd_bound_eq. Qed.
Print Assumptions C10_lp_bound_value_exact.

Theorem C10_lp_written_file_partial :
  forall M, 0 < M -> forall P, wf_lp M P ->
  exists P', read_lp true M (write_lp M P) = Some P' /\ equiv_by_name (to_nlp P) (to_nlp P') = true.
Proof. exact lp_roundtrip. Qed.
Print Assumptions C10_lp_written_file_partial.

(* the LP reader model is a total function of the lines: the answer "fuel exhausted" is unreachable for every input
   (every iteration of its four loops consumes at least one byte); also the termination half of C11 for this reader *)
Theorem C10_lp_reader_total : forall strict M ls, read_lp_res strict M ls <> PrFuel.
Proof. exact fuel_suffices. Qed.
Print Assumptions C10_lp_reader_total.

(* the reader sees a line only up to its first newline, NUL or backslash, and reading the bytes of a file is reading its lines *)
Theorem C10_lp_reader_cut : forall strict M ls, read_lp_res strict M (map cutline ls) = read_lp_res strict M ls.
Proof. exact read_lp_res_cut. Qed.
Print Assumptions C10_lp_reader_cut.

Theorem C10_lp_reader_bytes :
  forall strict M ls, Forall line_ok ls -> read_lp_res strict M (split_lines (file_bytes ls)) = read_lp_res strict M ls.
Proof. exact read_lp_bytes. Qed.
Print Assumptions C10_lp_reader_bytes.

(* ---- the MPS reader model (IO/MpsRead.v; tied to mpq_QSget_prob (.., "MPS") on rendered, token-mutated and library-written
   files on every run) ---------------------------------------------------------------------------------------------------- *)

(* total: the fuel of its loops (pairs of a record: bytes of the line; lines of the file) is never exhausted *)
Theorem C10_mps_reader_total : forall strict M ls, read_mps_res strict M ls <> MFuel.
Proof. exact mps_reader_total. Qed.
Print Assumptions C10_mps_reader_total.

(* reading the bytes of a file is reading its lines (every line shorter than the line buffer) *)
Theorem C10_mps_reader_bytes : forall strict M ls, Forall line_ok ls ->
  read_mps_res strict M (split_lines (file_bytes ls)) = read_mps_res strict M ls.
Proof. exact read_mps_bytes. Qed.
Print Assumptions C10_mps_reader_bytes.

(* fields: free format, blanks of any kind and number between the fields *)
Theorem C10_mps_fields_any_blanks :
  forall t b w rest, t_cur t = b ++ w ++ rest -> all_blank b -> word w -> eow rest -> (no_dollar w \/ (t_fnum t < 2)%nat) ->
  mnext_field t = (mk_tk (tl rest) (t_line t) (t_key t) w (S (t_fnum t)), true).
Proof. exact mnext_field_word. Qed.
Print Assumptions C10_mps_fields_any_blanks.

(* a bound value spelled by print_num is read as that rational by ILLmps_next_bound (it is not taken for INF / INFINITY) *)
Theorem C10_mps_bound_value :
  forall M t b v, t_cur t = b ++ print_num v -> all_blank b ->
  next_bound true M t = DVal (mk_tk [] (t_line t) (t_key t) (t_fld t) (S (t_fnum t))) (rr v).
Proof. exact next_bound_num. Qed.
Print Assumptions C10_mps_bound_value.

(* "partial" with respect to C10's target read_mps (render P layout) = Some P: proved for the writer's layout; the other
   lexical freedoms of MPS files (several pairs per record, blank set names, negative RHS on the objective, RANGES on
   L / G / E rows of either sign, BV / LI / UI / MI / PL records, '$' and '*' comments, OBJSENSE spellings) are covered by the
   correspondence reader model = library on independently rendered files, not by a theorem *)
Theorem C10_mps_written_file_partial :
  forall M, 0 < M -> forall P, wf_mps M P ->
  exists P', read_mps true M (write_mps M P) = Some P' /\ equiv_by_name (mlp_to_nlp P) (mlp_to_nlp P') = true.
Proof. exact mps_roundtrip. Qed.
Print Assumptions C10_mps_written_file_partial.
