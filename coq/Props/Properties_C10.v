(* C10  Files are read as the exact problem their text denotes.
   Level reached: proof of the literal scanner + exploration with independent renderers.
   PROVED (all lengths, both variants of the scanner - as found / with numreader_div_zero.diff):
   every structured literal  sign? digits (. digits)? ((e|E) sign? digits)? (/ the same)?  with at most 9
   exponent digits and a non-zero denominator is consumed completely and read as exactly the rational
   it spells (0.1 = 1/10); what the library prints is read back as the same rational; the default /
   implicit bound rules (fill_in_bounds) invert the writer's elision; the RANGES interval rules.
   NOT PROVED: the file-level statement read_lp (render P layout) = Some P (no token-level reader model):
   explored with an independent renderer over the lexical freedoms of both formats. *)
From Coq Require Import List QArith Lia.
Import ListNotations.
From QSX Require Import IO.Num IO.NumSound IO.Bounds IO.Ranges IO.Equiv.
Local Open Scope Q_scope.

Theorem C10_read_denotes :
  forall strict l rest, lit_ok l -> stops rest ->
  exists q, read_num_gen strict (render_lit l ++ rest) = (Val q, List.length (render_lit l)) /\ q == denote l.
Proof. exact read_denotes. Qed.
Print Assumptions C10_read_denotes.

Theorem C10_read_print_num :
  forall strict q rest, stops rest ->
  exists q', read_num_gen strict (print_num q ++ rest) = (Val q', List.length (print_num q)) /\ q' == q.
Proof. exact read_print_num. Qed.
Print Assumptions C10_read_print_num.

Theorem C10_read_num_total :
  forall strict s, exists r n, read_num_gen strict s = (r, n) /\ (n <= List.length s)%nat.
Proof. exact read_num_total. Qed.
Print Assumptions C10_read_num_total.

Theorem C10_default_bounds :
  forall M lo up isint, 0 < M -> lo <= up ->
  let r := decode_bounds M (encode_bounds M lo up isint) isint in fst r == lo /\ snd r == up.
Proof. exact bounds_roundtrip. Qed.
Print Assumptions C10_default_bounds.

Theorem C10_ranges_semantics :
  forall s rhs r, let t := transfer s rhs r in let i := mps_interval s rhs r in
  fst t == fst i /\ fst t + snd t == snd i /\ 0 <= snd t.
Proof. exact ranges_semantics. Qed.
Print Assumptions C10_ranges_semantics.

(* hypotheses are satisfiable: "-.5E+3/2.50" is such a literal and denotes -200 *)
Theorem C10_literal_example :
  let l := mk_lit (mk_mant (Some true) Decimal.Nil (Some (Decimal.D5 Decimal.Nil)) (Some (true, Some false, Decimal.D3 Decimal.Nil)))
                  (Some (mk_mant None (Decimal.D2 Decimal.Nil) (Some (Decimal.D5 (Decimal.D0 Decimal.Nil))) None)) in
  lit_ok l /\ Qred (denote l) = (-200 # 1).
Proof.
  split; [|vm_compute; reflexivity].
  unfold lit_ok, mant_ok, mant_nz, frac_of, ulen. cbn.
  repeat split; try (right; discriminate); try (left; discriminate); try lia.
Qed.
Print Assumptions C10_literal_example.
