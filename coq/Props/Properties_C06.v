(* C06  Query functions always reflect exactly the edits made (model conformance).

   The reference model is Store.Spec: [pstep M p op] is the documented meaning of one
   public mpq_QS* edit or query call on a problem [p] (M = run-time value of the rational
   sentinel mpq_ILL_MAXDOUBLE), [prun] a whole history (fold_left over the op list).
   The tie to the code is the correspondence of checks/C06.py: the extracted [sstep] and the
   library answer the same op scripts and are compared after every op.  The theorems below
   state what "a simple reference model" must itself satisfy for *every* history, no bound
   on its length or on the sizes. *)
From Coq Require Import String Ascii ZArith.
From QSX Require Import Store.Spec Store.SpecInv.
Local Open Scope Q_scope.

(* the invariant holds after every history from an empty problem *)
Theorem C06_history_wf : forall M mx (l : list pop), wf_spec (prun M (empty_prob M mx) l).
Proof. exact history_wf. Qed.
Print Assumptions C06_history_wf.

(* ... and is preserved by every single op from any well-formed problem (loaded ones included) *)
Theorem C06_step_wf : forall M p o, wf_spec p -> wf_spec (fst (pstep M p o)).
Proof. exact pstep_wf. Qed.
Print Assumptions C06_step_wf.

(* a query changes nothing *)
Theorem C06_query_leaves_state : forall M p o, is_query o = true -> fst (pstep M p o) = p.
Proof. exact query_leaves_state. Qed.
Print Assumptions C06_query_leaves_state.

(* name -> index lookup is inverse to naming after any history (rows and columns) *)
Theorem C06_name_lookup_inverse : forall M mx l i,
  let p := prun M (empty_prob M mx) l in
  (i < nrow p)%nat -> row_index p (sr_name (nth i (p_rows p) dsrow)) = Some i.
Proof. exact name_lookup_inverse. Qed.
Print Assumptions C06_name_lookup_inverse.

Theorem C06_colname_lookup_inverse : forall M mx l j,
  let p := prun M (empty_prob M mx) l in
  (j < ncol p)%nat -> col_index p (sc_name (nth j (p_cols p) dscol)) = Some j.
Proof. exact colname_lookup_inverse. Qed.
Print Assumptions C06_colname_lookup_inverse.

Theorem C06_index_lookup_sound : forall p s i,
  row_index p s = Some i -> (i < nrow p)%nat /\ sr_name (nth i (p_rows p) dsrow) = s.
Proof. exact row_name_index. Qed.
Print Assumptions C06_index_lookup_sound.

(* row-wise extraction is the transpose of column-wise extraction: same stored entries ... *)
Theorem C06_getrows_getcols_transpose : forall p i j v,
  (j < ncol p)%nat -> (In (j, v) (get_row p i) <-> In (i, v) (get_col p j)).
Proof. exact getrows_getcols_transpose. Qed.
Print Assumptions C06_getrows_getcols_transpose.

(* ... and the same coefficient function (repeated entries add up on both sides) *)
Theorem C06_coef_row_col : forall p i j, (j < ncol p)%nat -> coefAt (get_row p i) j == coefAt (get_col p j) i.
Proof. exact coef_row_col. Qed.
Print Assumptions C06_coef_row_col.

(* to_internal-compatibility: the user LP (LP/User.v) denoted by a state is well formed, has the
   dimensions of the state and the coefficient function of its column store; so [to_internal M (to_ulp p)]
   is the internal LP the solver must see (compared with the library's arrays in checks/C05.py) *)
Theorem C06_to_ulp_wf : forall p, wf_ulp (to_ulp p) = true.
Proof. exact to_ulp_wf. Qed.
Print Assumptions C06_to_ulp_wf.

Theorem C06_to_ulp_coef : forall p i j, (i < nrow p)%nat -> (j < ncol p)%nat ->
  coefAt (ur_ent (urowi (to_ulp p) i)) j == coefAt (get_col p j) i.
Proof. exact to_ulp_coef. Qed.
Print Assumptions C06_to_ulp_coef.

(* the hypotheses are satisfiable and the definitions compute: a three-call history *)
Example C06_example :
  let p := prun 1000 (empty_prob 1000 false)
             [NewCol 1 0 5 None; AddRow 4 "L" None (Some "r"%string) [(0%Z, 2); (0%Z, 3)]; ChgCoef 0 0 7] in
  colnames p = ["x1"%string] /\ rownames p = ["r"%string] /\ get_row p 0 = [(0%nat, 7); (0%nat, 3)] /\ nz p = 2%nat.
Proof. vm_compute. repeat split; reflexivity. Qed.
