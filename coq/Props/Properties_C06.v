(* C06  Query functions always reflect exactly the edits made (model conformance).

   The reference model is Store.Spec: [pstep M p op] is the documented meaning of one
   public mpq_QS* edit or query call on a problem [p] (M = run-time value of the rational
   sentinel mpq_ILL_MAXDOUBLE), [prun] a whole history (fold_left over the op list).
   The tie to the code is the correspondence of checks/C06.py: the extracted [sstep] and the
   library answer the same op scripts and are compared after every op.  The theorems below
   state what "a simple reference model" must itself satisfy for *every* history, no bound
   on its length or on the sizes. *)
From Coq Require Import String Ascii ZArith.
From QSX Require Import Store.Spec Store.SpecInv.
Local Open Scope Q_scope.

(* the invariant holds after every history from an empty problem *)
Theorem C06_history_wf : forall M mx (l : list pop), wf_spec (prun M (empty_prob M mx) l).
Proof. exact history_wf. Qed.
Print Assumptions C06_history_wf.

(* ... and is preserved by every single op from any well-formed problem (loaded ones included) *)
Theorem C06_step_wf : forall M p o, wf_spec p -> wf_spec (fst (pstep M p o)).
Proof. exact pstep_wf. Qed.
Print Assumptions C06_step_wf.

(* a query changes nothing *)
Theorem C06_query_leaves_state : forall M p o, is_query o = true -> fst (pstep M p o) = p.
Proof. exact query_leaves_state. Qed.
Print Assumptions C06_query_leaves_state.

(* name -> index lookup is inverse to naming after any history (rows and columns) *)
Theorem C06_name_lookup_inverse : forall M mx l i,
  let p := prun M (empty_prob M mx) l in
  (i < nrow p)%nat -> row_index p (sr_name (nth i (p_rows p) dsrow)) = Some i.
Proof. exact name_lookup_inverse. Qed.
Print Assumptions C06_name_lookup_inverse.

Theorem C06_colname_lookup_inverse : forall M mx l j,
  let p := prun M (empty_prob M mx) l in
  (j < ncol p)%nat -> col_index p (sc_name (nth j (p_cols p) dscol)) = Some j.
Proof. exact colname_lookup_inverse. Qed.
Print Assumptions C06_colname_lookup_inverse.

Theorem C06_index_lookup_sound : forall p s i,
  row_index p s = Some i -> (i < nrow p)%nat /\ sr_name (nth i (p_rows p) dsrow) = s.
Proof. exact row_name_index. Qed.
Print Assumptions C06_index_lookup_sound.

(* row-wise extraction is the transpose of column-wise extraction: same stored entries ... *)
Theorem C06_getrows_getcols_transpose : forall p i j v,
  (j < ncol p)%nat -> (In (j, v) (get_row p i) <-> In (i, v) (get_col p j)).
Proof. exact getrows_getcols_transpose. Qed.
Print Assumptions C06_getrows_getcols_transpose.

(* ... and the same coefficient function (repeated entries add up on both sides) *)
Theorem C06_coef_row_col : forall p i j, (j < ncol p)%nat -> coefAt (get_row p i) j == coefAt (get_col p j) i.
Proof. exact coef_row_col. Qed.
Print Assumptions C06_coef_row_col.

(* to_internal-compatibility: the user LP (LP/User.v) denoted by a state is well formed, has the
   dimensions of the state and the coefficient function of its column store; so [to_internal M (to_ulp p)]
   is the internal LP the solver must see (compared with the library's arrays in checks/C05.py) *)
Theorem C06_to_ulp_wf : forall p, wf_ulp (to_ulp p) = true.
Proof. exact to_ulp_wf. Qed.
Print Assumptions C06_to_ulp_wf.

Theorem C06_to_ulp_coef : forall p i j, (i < nrow p)%nat -> (j < ncol p)%nat ->
  coefAt (ur_ent (urowi (to_ulp p) i)) j == coefAt (get_col p j) i.
Proof. exact to_ulp_coef. Qed.
Print Assumptions C06_to_ulp_coef.

(* the hypotheses are satisfiable and the definitions compute: a three-call history *)
Example C06_example :
  let p := prun 1000 (empty_prob 1000 false)
             [NewCol 1 0 5 None; AddRow 4 "L" None (Some "r"%string) [(0%Z, 2); (0%Z, 3)]; ChgCoef 0 0 7] in
  colnames p = ["x1"%string] /\ rownames p = ["r"%string] /\ get_row p 0 = [(0%nat, 7); (0%nat, 3)] /\ nz p = 2%nat.
Proof. vm_compute. repeat split; reflexivity. Qed.

(* ===== L2: the concrete column store of lib.c (Store.Matrix: matbeg / matcnt / matind / matval / matsize / matfree,
   relocation of columns, holes, growth by reallocation; Store.L2: which matrix_* / ILLlib_* functions a public call runs).
   Tie to the code: harness/h_store.c DUMPM prints the raw arrays of p->qslp->A with structmap, rowmap, nzcount after
   every op; ocaml/drv_store.ml replays the same ops on the extracted model (l2_step_c fixed = l2_step 100 1000 fixed; `fixed` selects matrix_addrow as found / as repaired by
   notes/repo_patches/matrix_addrow_repeated_column.diff - the check probes the library and runs the model variant it finds); checks/C06.py
   demands equality of all arrays after every op of every history.
   Result type of the model: Ok m | Rej (the C function returns 1 before writing) | Fault (the C code would index outside
   its arrays or reach exit(1)).  First the Ok results (WF preserved, abs commutes), then fault freedom under WF. ===== *)
From QSX Require Import Store.Api Store.Matrix Store.MatrixInv Store.L2 Store.L2Refine.

(* the representation invariant: counts consistent, matfree <= matsize, the last matfree slots are free (-1), every column
   lies inside the used part, stored row indices are in range, an empty column owns one slot marked 1, columns do not overlap *)
Theorem C06_L2_WF_empty : WF empty_mat.
Proof. exact WF_empty. Qed.
Print Assumptions C06_L2_WF_empty.

(* matrix_addrow (in place / relocate / matrix_addrow_end) preserves WF and appends, to every column, the entries the new row
   has for it, in the order given (Spec.app_row on entry lists) - for all states, all entry lists incl. repeated columns *)
Theorem C06_L2_addrow : forall extra_mat fixed m ents m',
  WF m -> mat_addrow extra_mat fixed m ents = Ok m' -> WF m' /\ abs m' = app_row_ent (abs m) 0 (mrows m) ents.
Proof. exact abs_addrow. Qed.
Print Assumptions C06_L2_addrow.

Theorem C06_L2_app_row_is_spec : forall cols j0 i e, map sc_ent (app_row cols j0 i e) = app_row_ent (map sc_ent cols) j0 i e.
Proof. exact app_row_sc_ent. Qed.
Print Assumptions C06_L2_app_row_is_spec.

(* matrix_addcol: a new last column with exactly the given entries; the others unchanged *)
Theorem C06_L2_addcol : forall extra_cols extra_mat m ents m',
  WF m -> mat_addcol extra_cols extra_mat m ents = Ok m' -> WF m' /\ abs m' = abs m ++ [ents].
Proof. exact abs_addcol. Qed.
Print Assumptions C06_L2_addcol.

(* matrix_addcoef: overwrite the first stored entry of that row, else append one (Spec.set_first), in whichever of the four
   branches (own slot of an empty column / free slot behind the column / move behind the used part / rebuild) *)
Theorem C06_L2_addcoef : forall extra_mat m i j v m' nw,
  WF m -> mat_addcoef extra_mat m i j v = Ok (m', nw) -> WF m' /\ abs m' = upd_nth j (set_first i v) (abs m).
Proof. exact abs_addcoef. Qed.
Print Assumptions C06_L2_addcoef.

(* delcols_work: the unmarked columns, in order; = Spec's restrict (remove_nth from the highest index down) *)
Theorem C06_L2_delcols : forall m mk m', WF m -> mat_delcols m mk = Ok m' -> WF m' /\ abs m' = keepb mk (abs m).
Proof. exact abs_delcols. Qed.
Print Assumptions C06_L2_delcols.

Theorem C06_L2_keepb_is_restrict : forall (l : list (list (nat * Q))) ds, NoDup ds -> keepb (marks (length l) ds) l = restrict l ds.
Proof. intros l ds. exact (keepb_marks_spec l ds). Qed.
Print Assumptions C06_L2_keepb_is_restrict.

(* the packing loop of ILLlib_delrows: entries of deleted rows disappear, the others are renumbered; = Spec.del_ent from the
   highest deleted row down *)
Theorem C06_L2_delrows : forall m ds m',
  WF m -> NoDup ds -> mat_delrows m (marks (mrows m) ds) = Ok m' -> WF m' /\ abs m' = map (del_rows_ent ds) (abs m).
Proof. exact abs_delrows. Qed.
Print Assumptions C06_L2_delrows.

Theorem C06_L2_del_rows_ent_is_spec : forall ds e, NoDup ds -> del_rows_ent ds e = fold_left (fun e i => del_ent i e) (sort_desc ds) e.
Proof. exact del_rows_ent_spec. Qed.
Print Assumptions C06_L2_del_rows_ent_is_spec.

(* the whole store (matrix + structmap + rowmap) refines the reference model: after any accepted call, and so after any
   history, the entry lists of the structural columns read through structmap are those of the reference model, and the
   invariants (WF of the matrix, structmap / rowmap injective, disjoint, in range, one logical per row) hold *)
Theorem C06_L2_step_refines : forall M extra_cols extra_mat fixed s p o p' t s',
  refines s p -> pstep M p o = (p', ROk t) -> l2_step extra_cols extra_mat fixed p s o = Ok s' -> refines s' p'.
Proof. exact l2_step_refines. Qed.
Print Assumptions C06_L2_step_refines.

Theorem C06_L2_history_refines : forall M extra_cols extra_mat fixed l s p s',
  refines s p -> l2_run M extra_cols extra_mat fixed p s l = Ok s' -> refines s' (prun M p l).
Proof. exact l2_run_refines. Qed.
Print Assumptions C06_L2_history_refines.

Theorem C06_L2_refines_empty : forall M mx, refines empty_lstore (empty_prob M mx).
Proof. exact refines_empty. Qed.
Print Assumptions C06_L2_refines_empty.

(* ----- fault freedom: the model never indexes outside its arrays, and never rejects what the reference model accepts ----- *)
From QSX Require Import Store.MatrixSafe Store.L2Safe.
Open Scope nat_scope.

(* the executable invariant evaluated by checks/C06.py on every model state implies WF *)
Theorem C06_L2_wf_check_sound : forall m, wf_check m = true -> WF m.
Proof. exact wf_check_sound. Qed.
Print Assumptions C06_L2_wf_check_sound.

(* matrix_addrow_end allocates enough: the widths of disjoint columns inside the used part add up to at most the used part *)
Theorem C06_L2_widths_le_used : forall R m, WFr R m -> lsum (map (fun j => width (cntj m j)) (seq 0 (mcols m))) <= used m.
Proof. exact widths_le_used. Qed.
Print Assumptions C06_L2_widths_le_used.

Theorem C06_L2_addcol_safe : forall extra_cols extra_mat m ents,
  0 < extra_cols -> WF m -> Forall (fun e => fst e < mrows m) ents -> exists m', mat_addcol extra_cols extra_mat m ents = Ok m'.
Proof. exact mat_addcol_safe. Qed.
Print Assumptions C06_L2_addcol_safe.

Theorem C06_L2_addcoef_safe : forall extra_mat m i j v, WF m -> i < mrows m -> j < mcols m -> exists r, mat_addcoef extra_mat m i j v = Ok r.
Proof. exact mat_addcoef_safe. Qed.
Print Assumptions C06_L2_addcoef_safe.

(* matrix_addrow.  As repaired (fixed = true: the slot behind a column is read only if it exists, a column moves only if it
   fits into the free tail, otherwise the remaining entries go through matrix_addrow_end): safe under WF for EVERY row, repeated
   column indices included.  As found (fixed = false): with distinct column indices the estimate delta < matfree suffices for the
   whole in-place loop (invariant: space still needed by blocked columns + 1 if a column ends at the used part <= matfree) *)
Theorem C06_L2_addrow_safe : forall extra_mat m ents,
  WF m -> Forall (fun e => fst e < mcols m) ents -> exists m', mat_addrow extra_mat true m ents = Ok m'.
Proof. exact mat_addrow_fixed_safe. Qed.
Print Assumptions C06_L2_addrow_safe.

Theorem C06_L2_addrow_safe_as_found : forall extra_mat fixed m ents,
  WF m -> Forall (fun e => fst e < mcols m) ents -> fixed = true \/ NoDup (map fst ents) -> exists m', mat_addrow extra_mat fixed m ents = Ok m'.
Proof. exact mat_addrow_safe. Qed.
Print Assumptions C06_L2_addrow_safe_as_found.

(* the repair is conservative: wherever the loop as found succeeds the repaired loop computes the same arrays (no hypothesis
   on the state) - it differs only where the library used to leave its array or call exit(1) *)
Theorem C06_L2_addrow_repair_conservative : forall extra_mat m ents m',
  mat_addrow extra_mat false m ents = Ok m' -> mat_addrow extra_mat true m ents = Ok m'.
Proof. exact mat_addrow_conservative. Qed.
Print Assumptions C06_L2_addrow_repair_conservative.

(* as found, with a repeated column index the loop can leave the array (exit(1) in the library: finding
   F-C06-matrix-addrow-exit): witness on a 5-slot array satisfying the invariant; the same row with distinct columns is fine;
   the repaired loop rebuilds the array for the second entry (5 + 1 + EXTRA_MAT slots) and keeps the invariant *)
Theorem C06_L2_addrow_repeated_column_refuted :
  let m := {| slots := [(0%Z, 1%Q); (1%Z, 1%Q); dslot; (0%Z, 1%Q); dslot];
              beg := [0; 3]; cnt := [2; 1]; mfree := 1; mrows := 2; colsize := 100 |} in
  wf_check m = true /\ mat_addrow 1000 false m [(0, 1%Q); (0, 1%Q)] = Fault /\
  (exists m', mat_addrow 1000 false m [(0, 1%Q); (1, 1%Q)] = Ok m') /\
  (exists m', mat_addrow 1000 true m [(0, 1%Q); (0, 1%Q)] = Ok m' /\ wf_check m' = true /\ msize m' = 1006).
Proof. exact mat_addrow_repeated_column_faults. Qed.
Print Assumptions C06_L2_addrow_repeated_column_refuted.

Theorem C06_L2_delcols_safe : forall m mk, WF m -> length mk = mcols m -> exists m', mat_delcols m mk = Ok m'.
Proof. exact mat_delcols_safe. Qed.
Print Assumptions C06_L2_delcols_safe.

Theorem C06_L2_delrows_safe : forall m rmk, WF m -> length rmk = mrows m -> exists m', mat_delrows m rmk = Ok m'.
Proof. exact mat_delrows_safe. Qed.
Print Assumptions C06_L2_delrows_safe.

(* the whole interface: every call the reference model accepts runs on the concrete store without fault or rejection and
   keeps the refinement (good = refines + every logical column is the singleton of its row) - with the repaired matrix_addrow
   for EVERY history; QSload_prob likewise *)
Theorem C06_L2_step_safe : forall M extra_cols extra_mat s p o p' t, 0 < extra_cols ->
  good s p -> pstep M p o = (p', ROk t) -> exists s', l2_step extra_cols extra_mat true p s o = Ok s' /\ good s' p'.
Proof. exact l2_step_fixed_safe. Qed.
Print Assumptions C06_L2_step_safe.

Theorem C06_L2_history_safe : forall M extra_cols extra_mat l, 0 < extra_cols -> forall s p, good s p ->
  exists s', l2_run M extra_cols extra_mat true p s l = Ok s' /\ good s' (prun M p l).
Proof. exact l2_run_fixed_safe. Qed.
Print Assumptions C06_L2_history_safe.

(* matrix_addrow as found: the same for every history in which no added row lists a column twice *)
Theorem C06_L2_step_safe_as_found : forall M extra_cols extra_mat fixed, 0 < extra_cols -> forall s p o p' t,
  good s p -> pstep M p o = (p', ROk t) -> fixed = true \/ rows_nodup o -> exists s', l2_step extra_cols extra_mat fixed p s o = Ok s' /\ good s' p'.
Proof. exact l2_step_safe. Qed.
Print Assumptions C06_L2_step_safe_as_found.

Theorem C06_L2_history_safe_as_found : forall M extra_cols extra_mat fixed l, 0 < extra_cols -> forall s p, good s p -> fixed = true \/ Forall rows_nodup l ->
  exists s', l2_run M extra_cols extra_mat fixed p s l = Ok s' /\ good s' (prun M p l).
Proof. exact l2_run_safe. Qed.
Print Assumptions C06_L2_history_safe_as_found.

Theorem C06_L2_load_good : forall M extra_cols extra_mat fixed mx cols rows p, 0 < extra_cols ->
  load_prob M mx cols rows = Some p -> exists s, l2_load extra_cols extra_mat fixed cols rows = Ok s /\ good s p.
Proof. exact l2_load_good. Qed.
Print Assumptions C06_L2_load_good.
Close Scope nat_scope.

(* the definitions compute; a history with a relocation: three rows over two columns make column 0 move behind the used part
   (matbeg = [10; 1; ...]); the abstraction is what the reference model stores *)
Example C06_L2_example :
  let ops := [NewCol 1 0 5 None; NewCol 1 0 5 None; AddRow 4 "L" None None [(0%Z, 2); (1%Z, 3)]; AddRow 1 "G" None None [(0%Z, 5)]; ChgCoef 0 1 7] in
  let p := prun 1000 (empty_prob 1000 false) ops in
  match l2_run 1000 100 1000 true (empty_prob 1000 false) empty_lstore ops with
  | Ok s => ents_of s = map sc_ent (p_cols p) /\ lwf_check s = true /\ begj (lA s) 0 <> 0%nat
  | _ => False
  end.
Proof. vm_compute. repeat split; try reflexivity. discriminate. Qed.

(* ===== the matrix built by the readers (QSread_prob -> rawlp.c buildMatrix + presolve.c ILLlp_add_logicals; Store.RawLoad) =====
   Input: per surviving column its raw list in list order (row numbers after rowindex[.]), per row the coefficient of its
   logical.  Tie: checks/C06.py writes LP and MPS files (duplicate coefficients of one (row, column) pair, columns that occur
   in the objective only, 'N' rows, every sense), reads them with mpq_QSread_prob and compares the raw arrays of the library
   with lib_load_raw_c of the extracted model (exact), and the query view with the reference problem with merged columns. *)
From QSX Require Import Store.RawLoad Store.NzInv.
Open Scope nat_scope.

(* buildMatrix counts (pass 1) as many distinct rows as it later writes (pass 2): its internal error "problem with matrix" is unreachable *)
Theorem C06_raw_count_rows_merge : forall c, length (merge_col c) = count_rows [] c.
Proof. exact count_rows_merge. Qed.
Print Assumptions C06_raw_count_rows_merge.

(* duplicate coefficients: one stored entry per (row, column) pair - the later coefficients are added to the first ("Multiple
   coefficients" is a warning); a column without duplicates is stored as it is *)
Theorem C06_raw_merge_nodup : forall c, NoDup (map fst (merge_col c)).
Proof. exact merge_col_nodup. Qed.
Print Assumptions C06_raw_merge_nodup.

Theorem C06_raw_merge_id : forall c, NoDup (map fst c) -> merge_col c = c.
Proof. exact merge_col_id. Qed.
Print Assumptions C06_raw_merge_id.

(* the arrays: the compact layout of the merged columns (an empty column owns one slot), then one slot per logical, then one
   free slot: matsize = entries + empty columns + 1 + nrows, matfree = 1, structmap = identity, rowmap[i] = nstruct + i *)
Theorem C06_raw_load_arrays : forall rcols coefs, rcols <> [] -> coefs <> [] -> rows_in (length coefs) rcols ->
  lib_load_raw rcols coefs = Ok {| lA := loaded_mat rcols coefs; smap := seq 0 (length rcols); rmap := seq (length rcols) (length coefs);
                                   nzc := lsum (map (@length _) (raw_cols rcols)) + length coefs |}.
Proof. exact lib_load_raw_spec. Qed.
Print Assumptions C06_raw_load_arrays.

(* it establishes the invariants (LWF: WF of the matrix + maps; LOG: logical columns are singletons), its abstraction is the
   list of merged columns, and nzcount counts the stored entries *)
Theorem C06_raw_load_ok : forall rcols coefs s, rows_in (length coefs) rcols -> lib_load_raw rcols coefs = Ok s ->
  LWF s /\ LOG s /\ ents_of s = map merge_col rcols /\ length (smap s) = length rcols /\ length (rmap s) = length coefs /\
  nzc s = lsum (cnt (lA s)).
Proof. exact lib_load_raw_ok. Qed.
Print Assumptions C06_raw_load_ok.

(* the store built by the reader is a good representation of the reference problem QSload_prob builds from the merged columns
   and the same rows: from here on C06_L2_history_safe / _history_refines apply to it *)
Theorem C06_raw_load_is_reference_problem : forall M mx cols rows p rcols,
  load_prob M mx cols rows = Some p -> map (fun c : colspec => nat_ents (snd c)) cols = map merge_col rcols ->
  cols <> [] -> rows <> [] -> rows_in (length rows) rcols ->
  exists s, lib_load_raw rcols (map (fun r : load_rowspec => coef_of_sense (snd (fst r))) rows) = Ok s /\ good s p /\ nzc s = lsum (cnt (lA s)).
Proof. exact raw_load_refines_load_prob. Qed.
Print Assumptions C06_raw_load_is_reference_problem.

Example C06_raw_load_example :
  (* x0: rows 1, 0 and row 1 again (2 + 5 merged into the first slot of row 1); x1: objective only (empty); x2: row 0 *)
  match lib_load_raw [[(1, 2%Q); (0, 3%Q); (1, 5%Q)]; []; [(0, 1%Q)]] [1%Q; (-1)%Q] with
  | Ok s => lwf_check s = true /\ ents_of s = [[(1, 7%Q); (0, 3%Q)]; []; [(0, 1%Q)]] /\ beg (lA s) = [0; 2; 3; 4; 5] /\ msize (lA s) = 7 /\ nzc s = 5
  | _ => False
  end.
Proof. vm_compute. repeat split; reflexivity. Qed.

(* ===== nzcount = number of stored entries (sum of matcnt), for every operation and every history ===== *)
Theorem C06_L2_nzcount_step : forall extra_cols extra_mat fixed p s o s',
  LWF s -> NZ s -> l2_step extra_cols extra_mat fixed p s o = Ok s' -> NZ s'.
Proof. exact l2_step_nz. Qed.
Print Assumptions C06_L2_nzcount_step.

Theorem C06_L2_nzcount_history : forall M extra_cols extra_mat fixed l s p s',
  refines s p -> NZ s -> l2_run M extra_cols extra_mat fixed p s l = Ok s' -> NZ s'.
Proof. exact l2_run_nz. Qed.
Print Assumptions C06_L2_nzcount_history.

Theorem C06_L2_nzcount_load : forall extra_cols extra_mat fixed cols rows s, l2_load extra_cols extra_mat fixed cols rows = Ok s -> NZ s.
Proof. exact l2_load_nz. Qed.
Print Assumptions C06_L2_nzcount_load.
Close Scope nat_scope.
