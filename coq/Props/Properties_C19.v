(* C19  The esolver program reports exactly what the library computed.
   Level reached: exploration with verified oracles + proof of the solution-file codec + a model of the program around
   the library (IO/Esolver.v) with its own theorems, tied to the real program on generated argument lists every run.
   PROVED: a line "name = p/q" as printed by QSexact_print_sol is parsed back to the same name and the
   same rational (line_roundtrip, on read_print_num); a section lists exactly the non-zero entries and
   parses back to them (section_roundtrip, section_lists_nonzeros).
   PROVED about the model of esolver/esolver.c (ILLutil_bix_getopt call by call, parseargs with its usage errors, get_ftype
   through EGioNParse, main with the library calls as parameters): the format is LP iff -L was given or the extension
   says so (C19_format_by_flag_or_extension; C19_get_ftype_ext / _ext_z: base.ext and base.ext.gz|GZ|bz2|BZ2 are LP iff
   ext is lp or LP); the exit code is 0 iff every step taken returned 0 (C19_exit_zero_iff), in particular -b on an
   infeasible or unbounded LP writes no basis and exits 0 (C19_exit_zero_nonoptimal_basis, repair 8146872); the first
   line of the solution file is a function of the status and the file exists only after a solve that returned 0 with -O
   (C19_first_line, C19_no_file_unless_solved); option lists given one per argument are parsed to the configuration they
   spell (C19_parse_wf).  C19_esolver_examples fixes the corner cases by computation: -E / -h / two files / no file are
   usage errors, -v alone prints the version, ".lp" and "my file.lp" are NOT recognised as LP, and a name without any
   token (".", "..", "") makes get_ftype read argv[-1] (FFault; on the program: SIGSEGV - open finding
   F-io-esolver-ftype-no-token-C19, notes/repo_patches/esolver_ftype_no_token.diff).
   NOT PROVED: that the model is the program (checked on ~350 runs each time: exit code, first line, basis file), and
   what the library calls return (explored by running the binary over files x options and judging its output with the
   verified certificate checker of C01-C03). *)
From Coq Require Import List Ascii String ZArith QArith.
Import ListNotations.
From QSX Require Import Gen.Consts IO.Num IO.NumSound IO.Sol IO.LpWrite IO.Esolver.
Local Open Scope Q_scope.

Theorem C19_line_roundtrip :
  forall strict nm q, name_ok nm -> exists q', parse_line strict (print_line nm q) = Some (nm, q') /\ q' == q.
Proof. exact line_roundtrip. Qed.
Print Assumptions C19_line_roundtrip.

Theorem C19_section_roundtrip :
  forall strict (l : list (list ascii * Q)), Forall (fun e => name_ok (fst e)) l ->
  Forall2 (fun line e => exists q', parse_line strict line = Some (fst e, q') /\ q' == snd e)
          (print_section l) (filter nonzero l).
Proof. exact section_roundtrip. Qed.
Print Assumptions C19_section_roundtrip.

Theorem C19_section_lists_nonzeros :
  forall (l : list (list ascii * Q)) e, In e (filter nonzero l) <-> In e l /\ ~ snd e == 0.
Proof. exact section_lists_nonzeros. Qed.
Print Assumptions C19_section_lists_nonzeros.

(* ---- the program around the library (IO/Esolver.v) ------------------------------------------------------------------------ *)
Local Open Scope Z_scope.

Theorem C19_format_by_flag_or_extension : forall c, the_ftype c = FLp <-> e_lp c = true \/ get_ftype (e_fname c) = FLp.
Proof. exact format_by_flag_or_extension. Qed.
Print Assumptions C19_format_by_flag_or_extension.

Theorem C19_get_ftype_ext :
  forall base ext, plain base -> plain ext -> (List.length (base ++ "."%char :: ext) <= 4095)%nat ->
  get_ftype (base ++ "."%char :: ext) = if is_zsuffix ext then FMps else if is_lpext ext then FLp else FMps.
Proof. exact get_ftype_ext. Qed.
Print Assumptions C19_get_ftype_ext.

Theorem C19_get_ftype_ext_z :
  forall base ext z, plain base -> plain ext -> is_zsuffix z = true ->
  (List.length (base ++ "."%char :: ext ++ "."%char :: z) <= 4095)%nat ->
  get_ftype (base ++ "."%char :: ext ++ "."%char :: z) = if is_lpext ext then FLp else FMps.
Proof. exact get_ftype_ext_z. Qed.
Print Assumptions C19_get_ftype_ext_z.

Theorem C19_exit_zero_iff : forall c e o, run c e = Some o -> (o_exit o = 0 <-> steps_ok c e).
Proof. exact exit_zero_iff. Qed.
Print Assumptions C19_exit_zero_iff.

Theorem C19_exit_zero_nonoptimal_basis :
  forall c e o wb, run c e = Some o -> e_wbasis c = Some wb -> v_status e <> c_QS_LP_OPTIMAL ->
  read_ok c e = true -> (e_rbasis c <> None -> v_basis e = 0) ->
  pprice_ok (e_pstrat c) = true -> dprice_ok (e_dstrat c) = true -> v_solver e = 0 -> o_exit o = 0 /\ o_basis o = false.
Proof. exact exit_zero_nonoptimal_basis. Qed.
Print Assumptions C19_exit_zero_nonoptimal_basis.

Theorem C19_first_line :
  forall c e o, run c e = Some o -> read_ok c e = true -> (e_rbasis c <> None -> v_basis e = 0) ->
  pprice_ok (e_pstrat c) = true -> dprice_ok (e_dstrat c) = true -> v_solver e = 0 ->
  o_line o = match e_sol c with Some _ => Some (status_line (v_status e)) | None => None end.
Proof. exact first_line_spec. Qed.
Print Assumptions C19_first_line.

Theorem C19_no_file_unless_solved :
  forall c e o l, run c e = Some o -> o_line o = Some l -> read_ok c e = true /\ v_solver e = 0 /\ e_sol c <> None.
Proof. exact no_file_unless_solved. Qed.
Print Assumptions C19_no_file_unless_solved.

Theorem C19_parse_wf :
  forall os fname, (match fname with "-"%char :: _ => False | _ => True end) ->
  parse_args (flat_map render_opt os ++ [fname]) = finish_args (fold_left apply_opt os cfg0) [fname].
Proof. exact parse_wf. Qed.
Print Assumptions C19_parse_wf.

Theorem C19_esolver_examples :
  (match parse_args (map s2l ["-L"; "x.mps"]%string) with PCfg c => the_ftype c | _ => FFault end) = FLp /\
  (match parse_args (map s2l ["-O"; "s.sol"; "a.b.lp.gz"]%string) with PCfg c => the_ftype c | _ => FFault end) = FLp /\
  (match parse_args (map s2l ["-SLp"; "4"; "-Oout"; "f"]%string) with PCfg c => (e_lp c, e_scaling c, e_pstrat c, e_sol c) | _ => (false, true, 0, None) end)
    = (true, false, 4, Some (s2l "out")) /\
  parse_args (map s2l ["-E"; "x.lp"]%string) = PUsage /\ parse_args (map s2l ["-h"; "x.lp"]%string) = PUsage /\
  parse_args (map s2l ["x.lp"; "y.lp"]%string) = PUsage /\ parse_args (map s2l ["-v"]%string) = PVersion /\
  parse_args (map s2l ["-O"]%string) = PUsage /\ get_ftype (s2l ".lp") = FMps /\ get_ftype (s2l "my file.lp") = FMps /\
  get_ftype (s2l ".") = FFault.
Proof. exact esolver_examples. Qed.
Print Assumptions C19_esolver_examples.
