(* C19  The esolver program reports exactly what the library computed.
   Level reached: exploration with verified oracles + proof of the solution-file codec.
   PROVED: a line "name = p/q" as printed by QSexact_print_sol is parsed back to the same name and the
   same rational (line_roundtrip, on read_print_num); a section lists exactly the non-zero entries and
   parses back to them (section_roundtrip, section_lists_nonzeros).
   NOT PROVED: option parsing, file-type detection and the exit code of esolver's main (no model):
   explored by running the binary over files x options and judging its output with the verified
   certificate checker of C01-C03. *)
From Coq Require Import List Ascii QArith.
Import ListNotations.
From QSX Require Import IO.Num IO.NumSound IO.Sol.
Local Open Scope Q_scope.

Theorem C19_line_roundtrip :
  forall strict nm q, name_ok nm -> exists q', parse_line strict (print_line nm q) = Some (nm, q') /\ q' == q.
Proof. exact line_roundtrip. Qed.
Print Assumptions C19_line_roundtrip.

Theorem C19_section_roundtrip :
  forall strict (l : list (list ascii * Q)), Forall (fun e => name_ok (fst e)) l ->
  Forall2 (fun line e => exists q', parse_line strict line = Some (fst e, q') /\ q' == snd e)
          (print_section l) (filter nonzero l).
Proof. exact section_roundtrip. Qed.
Print Assumptions C19_section_roundtrip.

Theorem C19_section_lists_nonzeros :
  forall (l : list (list ascii * Q)) e, In e (filter nonzero l) <-> In e l /\ ~ snd e == 0.
Proof. exact section_lists_nonzeros. Qed.
Print Assumptions C19_section_lists_nonzeros.
