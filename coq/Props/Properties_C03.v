(* C03  The reported status and optimal value equal the mathematical truth of the LP.
   Proved: every certified classification is THE truth (soundness of the three checkers +
   uniqueness of nature and value).  Termination of the floating point ladder with a
   definitive status (the completeness half) is not a theorem: it is explored. *)
From QSX Require Import LP.CertSound LP.Unique LP.UserSound LP.DriverSound.
Local Open Scope Q_scope.

Theorem C03_optimal_certificate_sound :
  forall I P z y v, check_kkt I P z y v = true -> has_optimum I P v.
Proof. intros I P z y v H. exists (qnth z). exact (check_kkt_sound I P z y v H). Qed.
Print Assumptions C03_optimal_certificate_sound.

Theorem C03_infeasible_certificate_sound : forall I P y, check_farkas I P y = true -> infeasible I P.
Proof. exact check_farkas_sound. Qed.
Print Assumptions C03_infeasible_certificate_sound.

Theorem C03_unbounded_certificate_sound : forall I P z0 d, check_ray I P z0 d = true -> unbounded I P.
Proof. exact check_ray_sound. Qed.
Print Assumptions C03_unbounded_certificate_sound.

Theorem C03_value_unique : forall I P v w, has_optimum I P v -> has_optimum I P w -> v == w.
Proof. exact optimum_value_unique. Qed.
Print Assumptions C03_value_unique.

Theorem C03_optimum_excludes_infeasible : forall I P v, has_optimum I P v -> ~ infeasible I P.
Proof. exact optimum_not_infeasible. Qed.
Print Assumptions C03_optimum_excludes_infeasible.

Theorem C03_optimum_excludes_unbounded : forall I P v, has_optimum I P v -> ~ unbounded I P.
Proof. exact optimum_not_unbounded. Qed.
Print Assumptions C03_optimum_excludes_unbounded.

Theorem C03_unbounded_excludes_infeasible : forall I P, unbounded I P -> ~ infeasible I P.
Proof. exact unbounded_not_infeasible. Qed.
Print Assumptions C03_unbounded_excludes_infeasible.

(* the user-level reading of the internal form *)
Theorem C03_internal_is_user_lp :
  forall M U z v, 0 < M -> is_optimum (inf_sentinel M) (to_internal M U) z v -> uis_optimum M U z v.
Proof. intros M U z v HM. exact (user_optimum M HM U z v). Qed.
Print Assumptions C03_internal_is_user_lp.
