(* C20: with a log handler installed no library call that returns writes to the process's
   standard streams.  The list of places that could (Gen/Sites.v) is regenerated from the
   preprocessed library on every run; this file classifies them and proves that none remains.

   A site may write to a standard stream while a handler is installed, on a call that returns,
   unless
     - its stream is a FILE* handed in by the caller / stored in a caller-visible object (SHandle),
     - it lies on a path that does not return (followed by abort/exit in the same block),
     - it is listed below with a reason (one line each).
   Sites of stream SHandlerState do not write: they change which handler is registered (a call of
   QSlog_set_handler from inside the library, an assignment to a file-scope static of logging.c).
   After such a site "a handler is installed" need no longer hold, which is the premise of the
   DefaultBranch exemption; so they count as offending unless they are the host's own entry point. *)
From Coq Require Import String List NArith Bool.
From QSX Require Import Gen.Sites.
Import ListNotations.
Local Open Scope string_scope.

Inductive reason :=
| DefaultBranch      (* the else-branch of QSlogv taken only when NO handler is installed *)
| CompareOnly        (* the stream is only compared, never written *)
| TraceOnly          (* guarded by the file-static TRACE flag, which is the constant 0 *)
| CallerAskedStdout  (* documented: a NULL file name means standard output *)
| InteractiveOnly    (* prompt of the interactive line reader / editor *)
| HostSetsHandler.   (* QSlog_set_handler itself: the registration changes only when the host calls it *)

(* (function without instantiation prefix, callee or <escape>/<compare>, reason) *)
Definition exempt : list (string * string * reason) := [
  ("QSlogv", "fprintf", DefaultBranch);
  ("QSlog_set_handler", "<handler-assign>", HostSetsHandler);
  ("EGioClose", "<compare>", CompareOnly);
  ("transferColNamesLowerUpperIntMarker", "<escape>", TraceOnly);
  ("convert_rawlpdata_to_lpdata", "<escape>", TraceOnly);
  ("ILLprint_rawlpdata", "printf", TraceOnly);
  ("ILLprint_rawlpdata", "<escape>", TraceOnly);
  ("QSwrite_prob", "<escape>", CallerAskedStdout);
  ("ILLeditor", "<escape>", InteractiveOnly);
  ("ILLread_lp_state_next_line", "fprintf", InteractiveOnly);
  ("ILLread_lp_state_next_line", "<escape>", InteractiveOnly)
].

Definition is_handle (s : site) : bool := match s_stream s with SHandle _ => true | _ => false end.

Fixpoint lookup (f c : string) (l : list (string * string * reason)) : bool :=
  match l with
  | [] => false
  | (f', c', _) :: r => (String.eqb f f' && String.eqb c c') || lookup f c r
  end.

Definition may_write_std (s : site) : bool :=
  negb (is_handle s) && negb (s_noreturn s) && negb (lookup (s_base s) (s_callee s) exempt).

Definition offending : list site := filter may_write_std sites.

(* finite domain: decided by computation over the regenerated list *)
Lemma no_offending_site : offending = [].
Proof. vm_compute. reflexivity. Qed.

Lemma all_sites_quiet : forall s, In s sites -> may_write_std s = false.
Proof.
  intros s Hs. destruct (may_write_std s) eqn:E; [|reflexivity].
  assert (H : In s offending) by (unfold offending; apply filter_In; split; assumption).
  rewrite no_offending_site in H. destruct H.
Qed.

(* an execution with a handler installed, of calls that return, is a list of visited sites;
   the bytes it puts on fd 1 / fd 2 are those of the sites that may write there *)
Definition std_writes (trace : list site) : list site := filter may_write_std trace.

Theorem handler_installed_nothing_on_std_streams :
  forall trace, incl trace sites -> std_writes trace = [].
Proof.
  intros trace Hincl. unfold std_writes. induction trace as [|s tr IH]; [reflexivity|].
  simpl. rewrite (all_sites_quiet s (Hincl s (or_introl eq_refl))).
  apply IH. intros x Hx. apply Hincl. right. exact Hx.
Qed.

(* non-vacuity: the list is not empty and contains direct standard-stream sites that are
   discharged by a reason, not by being handles *)
Example sites_nonempty : exists s, In s sites /\ is_handle s = false.
Proof.
  assert (H : existsb (fun s => negb (is_handle s)) sites = true) by (vm_compute; reflexivity).
  apply existsb_exists in H. destruct H as (s & Hs & E). exists s. split; [exact Hs|].
  apply negb_true_iff in E. exact E.
Qed.

(* the translator sees the handler registration: QSlog_set_handler's own assignments are in the list
   (if logging.c is rewritten so that none is found, this fails and the check reports it) *)
Example handler_state_sites_listed :
  existsb (fun s => match s_stream s with SHandlerState => true | _ => false end) sites = true.
Proof. vm_compute. reflexivity. Qed.

(* the registration changes only inside QSlog_set_handler: no other function of the library calls it, assigns the
   file-scope statics of logging.c or takes their address (decided over the regenerated list, lifted by forallb_forall) *)
Definition is_handler_state (s : site) : bool := match s_stream s with SHandlerState => true | _ => false end.

Lemma handler_registration_only_by_host :
  forall s, In s sites -> is_handler_state s = true -> s_base s = "QSlog_set_handler".
Proof.
  assert (H : forallb (fun s => negb (is_handler_state s) || String.eqb (s_base s) "QSlog_set_handler") sites = true)
    by (vm_compute; reflexivity).
  intros s Hs E. rewrite forallb_forall in H. specialize (H s Hs). rewrite E in H. simpl in H.
  apply String.eqb_eq. exact H.
Qed.
