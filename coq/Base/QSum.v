(* Finite sums of rationals indexed by nat, and their link to list folds.
   Mathematical layer of the LP development: vectors are functions nat -> Q
   with explicit dimension. *)
From Coq Require Export QArith Qabs List Lia Lqa Bool Arith.
Export ListNotations.
Local Open Scope Q_scope.

Fixpoint sumn (n : nat) (f : nat -> Q) : Q :=
  match n with O => 0 | S k => sumn k f + f k end.

Lemma sumn_ext n f g : (forall i, (i < n)%nat -> f i == g i) -> sumn n f == sumn n g.
Proof.
  induction n as [|n IH]; intros H; simpl; [reflexivity|].
  rewrite IH, (H n) by (intros; try apply H; lia). reflexivity.
Qed.

Lemma sumn_0 n f : (forall i, (i < n)%nat -> f i == 0) -> sumn n f == 0.
Proof.
  induction n as [|n IH]; intros H; simpl; [reflexivity|].
  rewrite IH, (H n) by (intros; try apply H; lia). reflexivity.
Qed.

Lemma sumn_add n f g : sumn n (fun i => f i + g i) == sumn n f + sumn n g.
Proof. induction n as [|n IH]; simpl; [reflexivity|]. rewrite IH. ring. Qed.

Lemma sumn_sub n f g : sumn n (fun i => f i - g i) == sumn n f - sumn n g.
Proof. induction n as [|n IH]; simpl; [reflexivity|]. rewrite IH. ring. Qed.

Lemma sumn_scale n c f : sumn n (fun i => c * f i) == c * sumn n f.
Proof. induction n as [|n IH]; simpl; [ring|]. rewrite IH. ring. Qed.

Lemma sumn_scale_r n c f : sumn n (fun i => f i * c) == sumn n f * c.
Proof. induction n as [|n IH]; simpl; [ring|]. rewrite IH. ring. Qed.

Lemma sumn_opp n f : sumn n (fun i => - f i) == - sumn n f.
Proof. induction n as [|n IH]; simpl; [ring|]. rewrite IH. ring. Qed.

Lemma sumn_le n f g : (forall i, (i < n)%nat -> f i <= g i) -> sumn n f <= sumn n g.
Proof.
  induction n as [|n IH]; intros H; simpl; [apply Qle_refl|].
  apply Qplus_le_compat; [apply IH; intros; apply H; lia | apply H; lia].
Qed.

Lemma sumn_nonneg n f : (forall i, (i < n)%nat -> 0 <= f i) -> 0 <= sumn n f.
Proof.
  intros H. assert (E : sumn n (fun _ => 0) == 0) by (apply sumn_0; intros; reflexivity).
  rewrite <- E. apply sumn_le. exact H.
Qed.

Lemma sumn_swap n m (f : nat -> nat -> Q) :
  sumn n (fun i => sumn m (fun j => f i j)) == sumn m (fun j => sumn n (fun i => f i j)).
Proof.
  induction n as [|n IH]; simpl.
  - symmetry. apply sumn_0. intros; reflexivity.
  - rewrite IH. rewrite <- sumn_add. reflexivity.
Qed.

Lemma dot_swap m n (A : nat -> nat -> Q) y z :
  sumn m (fun i => y i * sumn n (fun j => A i j * z j)) ==
  sumn n (fun j => sumn m (fun i => A i j * y i) * z j).
Proof.
  etransitivity.
  - apply sumn_ext. intros i _. symmetry. apply sumn_scale.
  - rewrite sumn_swap. apply sumn_ext. intros j _.
    rewrite <- sumn_scale_r. apply sumn_ext. intros i _. ring.
Qed.

Lemma sumn_shift n f : sumn (S n) f == f O + sumn n (fun i => f (S i)).
Proof.
  induction n as [|n IH]; [simpl; ring|].
  change (sumn (S (S n)) f) with (sumn (S n) f + f (S n)).
  rewrite IH. simpl. ring.
Qed.

Lemma sumn_app n m f : sumn (n + m) f == sumn n f + sumn m (fun i => f (n + i)%nat).
Proof.
  induction m as [|m IH].
  - rewrite Nat.add_0_r. simpl. ring.
  - rewrite Nat.add_succ_r. simpl. rewrite IH. ring.
Qed.

Lemma sumn_single n k f : (k < n)%nat -> (forall i, (i < n)%nat -> i <> k -> f i == 0) -> sumn n f == f k.
Proof.
  induction n as [|n IH]; intros Hk H; [lia|]. simpl.
  destruct (Nat.eq_dec k n) as [->|Hne].
  - rewrite sumn_0; [ring|]. intros i Hi. apply H; lia.
  - rewrite IH by (try lia; intros; apply H; lia). rewrite (H n) by lia. ring.
Qed.

(* ---- reduced arithmetic for the executable layer -------------------------- *)
Definition radd (a b : Q) : Q := Qred (a + b).
Definition rsub (a b : Q) : Q := Qred (a - b).
Definition rmul (a b : Q) : Q := Qred (a * b).
Definition rdiv (a b : Q) : Q := Qred (a / b).
Lemma radd_ok a b : radd a b == a + b. Proof. apply Qred_correct. Qed.
Lemma rsub_ok a b : rsub a b == a - b. Proof. apply Qred_correct. Qed.
Lemma rmul_ok a b : rmul a b == a * b. Proof. apply Qred_correct. Qed.
Lemma rdiv_ok a b : rdiv a b == a / b. Proof. apply Qred_correct. Qed.
Global Instance radd_comp : Proper (Qeq ==> Qeq ==> Qeq) radd.
Proof. intros a b E c d F. rewrite !radd_ok, E, F. reflexivity. Qed.
Global Instance rsub_comp : Proper (Qeq ==> Qeq ==> Qeq) rsub.
Proof. intros a b E c d F. rewrite !rsub_ok, E, F. reflexivity. Qed.
Global Instance rmul_comp : Proper (Qeq ==> Qeq ==> Qeq) rmul.
Proof. intros a b E c d F. rewrite !rmul_ok, E, F. reflexivity. Qed.
Global Opaque radd rsub rmul rdiv.
Ltac rarith := rewrite ?radd_ok, ?rsub_ok, ?rmul_ok, ?rdiv_ok.

(* ---- list sums ---------------------------------------------------------- *)

Definition qsum (l : list Q) : Q := fold_right radd 0 l.

Definition qnth (l : list Q) (i : nat) : Q := nth i l 0.

Lemma qsum_sumn l : qsum l == sumn (length l) (qnth l).
Proof.
  induction l as [|a l IH]; [reflexivity|].
  cbn [length]. rewrite sumn_shift. simpl. rarith. rewrite IH. reflexivity.
Qed.

Lemma qsum_map_sumn {A} (d : A) (f : A -> Q) l :
  qsum (map f l) == sumn (length l) (fun i => f (nth i l d)).
Proof.
  induction l as [|a l IH]; [reflexivity|].
  cbn [length map]. rewrite sumn_shift. simpl. rarith. rewrite IH. reflexivity.
Qed.

(* sum over indices 0..n-1 computed with a list *)
Lemma qsum_map_seq n f : qsum (map f (seq 0 n)) == sumn n f.
Proof.
  assert (G : forall s, qsum (map f (seq s n)) == sumn n (fun i => f (s + i)%nat)).
  { induction n as [|n IH]; intros s; [reflexivity|].
    cbn [seq map]. rewrite sumn_shift. simpl. rarith. rewrite IH. rewrite Nat.add_0_r.
    apply Qplus_comp; [reflexivity|]. apply sumn_ext. intros i _.
    replace (S s + i)%nat with (s + S i)%nat by lia. reflexivity. }
  rewrite G. apply sumn_ext. intros; reflexivity.
Qed.

(* ---- sparse vectors ------------------------------------------------------ *)

(* coefficient of index i in a sparse list (repeated indices add up, as the C
   loops do) *)
Fixpoint coefAt (e : list (nat * Q)) (i : nat) : Q :=
  match e with
  | [] => 0
  | (k, v) :: r => (if Nat.eqb k i then v else 0) + coefAt r i
  end.

(* sum_k v_k * y[ind_k] : the inner loop of every column pass *)
Fixpoint dot_sparse (e : list (nat * Q)) (y : list Q) : Q :=
  match e with
  | [] => 0
  | (k, v) :: r => radd (rmul v (qnth y k)) (dot_sparse r y)
  end.

Definition ind_lt (m : nat) (e : list (nat * Q)) : bool :=
  forallb (fun kv => Nat.ltb (fst kv) m) e.

Lemma dot_sparse_sumn e y m : ind_lt m e = true ->
  dot_sparse e y == sumn m (fun i => coefAt e i * qnth y i).
Proof.
  induction e as [|[k v] r IH]; intros H; simpl.
  - symmetry. apply sumn_0. intros; ring.
  - simpl in H. apply andb_true_iff in H. destruct H as [Hk Hr].
    apply Nat.ltb_lt in Hk. rarith. rewrite IH by exact Hr.
    assert (E : sumn m (fun i => (if Nat.eqb k i then v else 0) * qnth y i) == v * qnth y k).
    { etransitivity.
      - apply (sumn_single m k); [exact Hk|].
        intros i _ Hne; destruct (Nat.eqb_spec k i); [congruence|ring].
      - cbv beta. rewrite Nat.eqb_refl. reflexivity. }
    rewrite <- E. rewrite <- sumn_add. apply sumn_ext. intros i _.
    destruct (Nat.eqb k i); ring.
Qed.

(* boolean comparisons on Q *)
Definition Qltb (a b : Q) : bool := negb (Qle_bool b a).
Lemma Qltb_lt a b : Qltb a b = true <-> a < b.
Proof.
  unfold Qltb. rewrite negb_true_iff. split; intros H.
  - apply Qnot_le_lt. intros C. apply Qle_bool_iff in C. congruence.
  - destruct (Qle_bool b a) eqn:E; [|reflexivity]. apply Qle_bool_iff in E.
    exfalso. exact (Qlt_not_le _ _ H E).
Qed.
Lemma Qltb_false a b : Qltb a b = false <-> b <= a.
Proof.
  unfold Qltb. rewrite negb_false_iff. apply Qle_bool_iff.
Qed.
Lemma Qle_bool_false a b : Qle_bool a b = false <-> b < a.
Proof.
  split; intros H.
  - apply Qnot_le_lt. intros C. apply Qle_bool_iff in C. congruence.
  - destruct (Qle_bool a b) eqn:E; [|reflexivity]. apply Qle_bool_iff in E.
    exfalso. exact (Qlt_not_le _ _ H E).
Qed.
