(* Exact dense linear algebra over Q on lists (row major), executable layer.
   All arithmetic goes through the reduced operations of Base/QSum.v.

   The elimination is a fraction Gauss-Jordan that consumes the rows of A one at
   a time: every stored pivot row carries (pivot column, current row of E*A,
   current row of E), the incoming row is reduced against the stored pivots, a
   pivot is searched in what is left (first non-zero entry), the row is
   normalised and eliminated from the stored ones.  If nothing is left the
   multiplier row is a non-zero left null vector of A.

   Vectors are built with [mkvec n f] so that every result has the announced
   length and [qnth (mkvec n f) j = f j]; reading beyond the end of a list gives
   0, so ragged inputs denote matrices padded with zeros.                      *)
From QSX Require Export Base.QSum.
Local Open Scope Q_scope.

Definition vec := list Q.
Definition mat := list vec.

Definition mkvec (n : nat) (f : nat -> Q) : vec := map f (seq 0 n).
Definition mrow (A : mat) (i : nat) : vec := nth i A [].
Definition mget (A : mat) (i j : nat) : Q := qnth (mrow A i) j.
Definition mkmat (m n : nat) (f : nat -> nat -> Q) : mat := map (fun i => mkvec n (f i)) (seq 0 m).

Definition unitv (n k : nat) : vec := mkvec n (fun j => if Nat.eqb j k then 1 else 0).
Definition dotn (n : nat) (u v : vec) : Q := qsum (mkvec n (fun k => rmul (qnth u k) (qnth v k))).

(* A : m x n, x : n  ->  A x : m *)
Definition mat_vec (m n : nat) (A : mat) (x : vec) : vec := mkvec m (fun i => dotn n (mrow A i) x).
(* y : m, A : m x n  ->  y A : n *)
Definition vec_mat (m n : nat) (y : vec) (A : mat) : vec :=
  mkvec n (fun j => qsum (mkvec m (fun i => rmul (qnth y i) (mget A i j)))).
Definition transpose (m n : nat) (A : mat) : mat := mkmat n m (fun j i => mget A i j).
Definition mat_mul (m k n : nat) (A B : mat) : mat :=
  mkmat m n (fun i j => qsum (mkvec k (fun l => rmul (mget A i l) (mget B l j)))).

(* entrywise comparison of the first n entries *)
Definition veqb (n : nat) (u v : vec) : bool := forallb (fun j => Qeq_bool (qnth u j) (qnth v j)) (seq 0 n).
Definition vzerob (n : nat) (u : vec) : bool := forallb (fun j => Qeq_bool (qnth u j) 0) (seq 0 n).

(* u - c * v *)
Definition axmy (n : nat) (u : vec) (c : Q) (v : vec) : vec :=
  mkvec n (fun j => rsub (qnth u j) (rmul c (qnth v j))).
Definition vdiv (n : nat) (u : vec) (d : Q) : vec := mkvec n (fun j => rdiv (qnth u j) d).

Record prow := { pc : nat; pa : vec; px : vec }.

Definition red1 (n : nat) (r : vec * vec) (p : prow) : vec * vec :=
  let c := qnth (fst r) (pc p) in
  (axmy n (fst r) c (pa p), axmy n (snd r) c (px p)).
Definition reduce (n : nat) (ps : list prow) (r : vec * vec) : vec * vec := fold_left (red1 n) ps r.

(* pivot search: first non-zero entry *)
Fixpoint find_nz (v : vec) (j : nat) : option nat :=
  match v with
  | [] => None
  | a :: v' => if Qeq_bool a 0 then find_nz v' (S j) else Some j
  end.

Definition elim1 (n : nat) (c : nat) (a' x' : vec) (p : prow) : prow :=
  let f := qnth (pa p) c in
  {| pc := pc p; pa := axmy n (pa p) f a'; px := axmy n (px p) f x' |}.

Definition gj_step (n : nat) (ps : list prow) (k : nat) (arow : vec) : list prow + vec :=
  let r := reduce n ps (mkvec n (qnth arow), unitv n k) in
  match find_nz (fst r) 0 with
  | None => inr (snd r)
  | Some c =>
    let piv := qnth (fst r) c in
    let a' := vdiv n (fst r) piv in
    let x' := vdiv n (snd r) piv in
    inl ({| pc := c; pa := a'; px := x' |} :: map (elim1 n c a' x') ps)
  end.

Fixpoint gj_loop (n : nat) (rows : list vec) (k : nat) (ps : list prow) : list prow + vec :=
  match rows with
  | [] => inl ps
  | r :: rest =>
    match gj_step n ps k r with
    | inl ps' => gj_loop n rest (S k) ps'
    | inr w => inr w
    end
  end.

Definition piv_row (ps : list prow) (j : nat) : vec :=
  match find (fun p => Nat.eqb (pc p) j) ps with Some p => px p | None => [] end.

(* inverse of the n x n matrix A, or a non-zero left null vector *)
Definition gauss (n : nat) (A : mat) : mat + vec :=
  match gj_loop n (map (mrow A) (seq 0 n)) 0 [] with
  | inl ps => inl (map (piv_row ps) (seq 0 n))
  | inr w => inr w
  end.

Definition inverse (n : nat) (A : mat) : option mat :=
  match gauss n A with inl X => Some X | inr _ => None end.
Definition null_vector (n : nat) (A : mat) : option vec :=
  match gauss n A with inl _ => None | inr w => Some w end.

(* A x = b *)
Definition solve (n : nat) (A : mat) (b : vec) : option vec :=
  match inverse n A with Some X => Some (mat_vec n n X b) | None => None end.
(* y A = c *)
Definition solve_left (n : nat) (A : mat) (c : vec) : option vec :=
  match inverse n A with Some X => Some (vec_mat n n c X) | None => None end.

(* multiply-back checkers: r is row i of the inverse of B  <->  r B = e_i ;
   t is row i of the tableau  B^-1 [A]  (A : n x nc, all columns)              *)
Definition check_binv_row (n : nat) (B : mat) (r : vec) (i : nat) : bool :=
  veqb n (vec_mat n n r B) (unitv n i).
Definition check_tableau_row (n nc : nat) (B A : mat) (r t : vec) (i : nat) : bool :=
  check_binv_row n B r i && veqb nc (vec_mat n nc r A) t.
(* solves: B x = a,  y B = c *)
Definition check_ftran (n : nat) (B : mat) (x a : vec) : bool := veqb n (mat_vec n n B x) a.
Definition check_btran (n : nat) (B : mat) (y c : vec) : bool := veqb n (vec_mat n n y B) c.
