(* Theorems about the basis model (Basis.v): the verdicts are exactly the primal / dual feasibility of
   the unique basic solution, the reported dual bound is its dual objective, an 'optimal' verdict yields a
   certificate accepted by the verified KKT checker of LP/Cert.v.  No bound on dimensions. *)
From QSX Require Export Fac.Basis Fac.GaussSound LP.OptTestSound.
Local Open Scope Q_scope.

(* ---- sums over the basic / non-basic index lists -------------------------------------------- *)

Lemma filter_seq_S (p : nat -> bool) n :
  filter p (seq 0 (S n)) = filter p (seq 0 n) ++ (if p n then [n] else []).
Proof. rewrite seq_S, filter_app. simpl. destruct (p n); reflexivity. Qed.

Lemma qsum_app l1 l2 : qsum (l1 ++ l2) == qsum l1 + qsum l2.
Proof.
  induction l1 as [|a l IH]; simpl; [ring|]. rarith. rewrite IH. ring.
Qed.

Lemma qsum_filter_seq (p : nat -> bool) (f : nat -> Q) n :
  qsum (map f (filter p (seq 0 n))) == sumn n (fun j => if p j then f j else 0).
Proof.
  induction n as [|n IH]; [reflexivity|].
  rewrite filter_seq_S, map_app, qsum_app, IH. cbn [sumn].
  destruct (p n); simpl; rarith; ring.
Qed.

Lemma filter_seq_lt (p : nat -> bool) n j : In j (filter p (seq 0 n)) -> (j < n)%nat /\ p j = true.
Proof. intros H. apply filter_In in H. destruct H as [H1 H2]. apply in_seq in H1. split; [lia|exact H2]. Qed.

(* position of a filtered index = number of filtered indices below it *)
Lemma filter_seq_pos (p : nat -> bool) n : forall k, (k < length (filter p (seq 0 n)))%nat ->
  length (filter p (seq 0 (nth k (filter p (seq 0 n)) 0%nat))) = k.
Proof.
  induction n as [|n IH]; intros k Hk; [simpl in Hk; lia|].
  rewrite filter_seq_S in *. rewrite app_length in Hk.
  destruct (Nat.lt_ge_cases k (length (filter p (seq 0 n)))) as [Hlt|Hge].
  - rewrite app_nth1 by exact Hlt. apply IH. exact Hlt.
  - destruct (p n) eqn:E; simpl in Hk; [|lia].
    assert (k = length (filter p (seq 0 n))) by lia. subst k.
    rewrite app_nth2 by lia. rewrite Nat.sub_diag. reflexivity.
Qed.

Lemma filter_seq_nth_pos (p : nat -> bool) n j : (j < n)%nat -> p j = true ->
  (length (filter p (seq 0 j)) < length (filter p (seq 0 n)))%nat /\
  nth (length (filter p (seq 0 j))) (filter p (seq 0 n)) 0%nat = j.
Proof.
  induction n as [|n IH]; intros Hj Hp; [lia|].
  rewrite filter_seq_S, app_length.
  destruct (Nat.eq_dec j n) as [->|Hne].
  - rewrite Hp. simpl. split; [lia|]. rewrite app_nth2 by lia. rewrite Nat.sub_diag. reflexivity.
  - destruct (IH ltac:(lia) Hp) as [H1 H2]. split; [lia|]. rewrite app_nth1 by exact H1. exact H2.
Qed.

Lemma filter_nth_length {A} (f : A -> bool) (d : A) l :
  length (filter (fun j => f (nth j l d)) (seq 0 (length l))) = length (filter f l).
Proof.
  induction l as [|a l IH] using rev_ind; [reflexivity|].
  rewrite app_length. simpl. rewrite Nat.add_1_r. rewrite filter_seq_S, !filter_app, !app_length.
  rewrite app_nth2 by lia. rewrite Nat.sub_diag. simpl.
  assert (E : filter (fun j => f (nth j (l ++ [a]) d)) (seq 0 (length l)) = filter (fun j => f (nth j l d)) (seq 0 (length l))).
  { apply filter_ext_in. intros j Hj. apply in_seq in Hj. rewrite app_nth1 by lia. reflexivity. }
  rewrite E, IH. destruct (f a); reflexivity.
Qed.

Section Sound.
  Variable M : Q.
  Variable P : ilp.
  Variable ns : nat.
  Variable isR : list bool.
  Variable B : basis.

  Local Notation m := (bm P).
  Local Notation n := (bn P).
  Local Notation bazk := (baz P B).
  Local Notation bas := (basicb B).

  (* ---- what load_ok gives ---------------------------------------------------------------- *)
  Lemma load_ok_parts : load_ok P ns isR B = true ->
    length (vstat B) = n /\ length (bazl P B) = m /\ n = (ns + m)%nat.
  Proof.
    unfold load_ok. intros H. repeat (apply andb_true_iff in H; destruct H as [H ?]).
    repeat match goal with H : Nat.eqb _ _ = true |- _ => apply Nat.eqb_eq in H end.
    assert (L : length (vstat B) = n) by (unfold vstat; rewrite app_length; lia).
    split; [exact L|]. split; [|assumption].
    unfold bazl, basicb, stat. rewrite <- L. rewrite (filter_nth_length is_basic BOther (vstat B)).
    unfold vstat. rewrite filter_app, app_length. unfold count_basic in *. lia.
  Qed.

  Lemma baz_lt k : (k < length (bazl P B))%nat -> (bazk k < n)%nat /\ bas (bazk k) = true.
  Proof. intros H. apply (filter_seq_lt bas n). unfold baz, bazl. apply nth_In. exact H. Qed.

  Lemma pos_baz k : (k < length (bazl P B))%nat -> pos B (bazk k) = k.
  Proof. intros H. unfold pos, baz, bazl. apply filter_seq_pos. exact H. Qed.

  Lemma baz_pos j : (j < n)%nat -> bas j = true -> (pos B j < length (bazl P B))%nat /\ bazk (pos B j) = j.
  Proof. intros Hj Hb. unfold pos, baz, bazl. apply filter_seq_nth_pos; assumption. Qed.

  Lemma nbl_spec j : In j (nbl P B) <-> (j < n)%nat /\ bas j = false.
  Proof.
    unfold nbl. rewrite filter_In, in_seq, negb_true_iff. split; intros [H1 H2]; split; try assumption; lia.
  Qed.

  (* ---- sums over all columns split into basic and non-basic part ------------------------ *)
  Lemma sum_basic (f : nat -> Q) (x : nat -> Q) : length (bazl P B) = m ->
    sumn n (fun j => if bas j then f j * x (pos B j) else 0) == sumn m (fun k => f (bazk k) * x k).
  Proof.
    intros L. rewrite <- (qsum_filter_seq bas (fun j => f j * x (pos B j)) n).
    fold (bazl P B). rewrite (qsum_map_sumn 0%nat). rewrite L.
    apply sumn_ext. intros k Hk. fold (bazk k). rewrite pos_baz by lia. reflexivity.
  Qed.

  Lemma sum_nonbasic (f : nat -> Q) :
    qsum (map f (nbl P B)) == sumn n (fun j => if bas j then 0 else f j).
  Proof.
    unfold nbl. rewrite qsum_filter_seq. apply sumn_ext. intros j _. destruct (bas j); reflexivity.
  Qed.

  (* ---- the primal vector ------------------------------------------------------------------ *)
  Lemma qnth_zfull xB j : (j < n)%nat ->
    qnth (zfull P B xB) j = if bas j then qnth xB (pos B j) else xnb P B j.
  Proof. intros H. unfold zfull. apply qnth_mkvec. exact H. Qed.

  Lemma mget_Bmat i k : (i < m)%nat -> (k < m)%nat -> mget (Bmat P B) i k = Aij P i (bazk k).
  Proof. intros Hi Hk. unfold Bmat. exact (mget_mkmat m m (fun i k => Aij P i (bazk k)) i k Hi Hk). Qed.

  (* rows: A z = b  from  B xB = b - N xN *)
  Lemma rows_hold xB i : length (bazl P B) = m -> (i < m)%nat ->
    is_solution m (Bmat P B) xB (rhsN P B) -> rowact P (qnth (zfull P B xB)) i == rhs P i.
  Proof.
    intros L Hi S. unfold rowact.
    transitivity (sumn n (fun j => (if bas j then Aij P i j * qnth xB (pos B j) else 0) +
                                   (if bas j then 0 else Aij P i j * xnb P B j))).
    - apply sumn_ext. intros j Hj. rewrite qnth_zfull by exact Hj. destruct (bas j); ring.
    - rewrite sumn_add. rewrite (sum_basic (fun j => Aij P i j) (qnth xB) L).
      rewrite <- (sum_nonbasic (fun j => Aij P i j * xnb P B j)).
      pose proof (S i Hi) as E. unfold rhsN in E. rewrite qnth_mkvec in E by exact Hi. rewrite rsub_ok in E.
      assert (E1 : sumn m (fun k => Aij P i (bazk k) * qnth xB k) == sumn m (fun j => mget (Bmat P B) i j * qnth xB j)).
      { apply sumn_ext. intros k Hk. rewrite mget_Bmat by assumption. reflexivity. }
      rewrite E1, E.
      assert (E2 : qsum (map (fun j => rmul (Aij P i j) (xnb P B j)) (nbl P B)) == qsum (map (fun j => Aij P i j * xnb P B j) (nbl P B))).
      { apply qsum_map_ext. intros; apply rmul_ok. }
      rewrite E2. ring.
  Qed.

  (* ---- duals ---------------------------------------------------------------------------- *)
  Hypothesis WF : wf_ilp P = true.

  Lemma dzj_sumn pi j : dzj P pi j == cj P j - sumn m (fun i => Aij P i j * qnth pi i).
  Proof.
    unfold dzj. rarith. rewrite (dot_sparse_sumn _ _ (nrows P)) by (apply wf_ilp_col; exact WF). reflexivity.
  Qed.

  Lemma dzj_ext pi pi' j : (forall i, (i < m)%nat -> qnth pi i == qnth pi' i) -> dzj P pi j == dzj P pi' j.
  Proof.
    intros H. rewrite !dzj_sumn. apply Qplus_comp; [reflexivity|]. apply Qopp_comp.
    apply sumn_ext. intros i Hi. rewrite (H i Hi). reflexivity.
  Qed.

  Lemma dzj_basic pi k : (k < m)%nat -> is_left_solution m (Bmat P B) pi (cB P B) -> dzj P pi (bazk k) == 0.
  Proof.
    intros Hk S. rewrite dzj_sumn. pose proof (S k Hk) as E. unfold cB in E. rewrite qnth_mkvec in E by exact Hk.
    rewrite <- E.
    assert (E1 : sumn m (fun i => Aij P i (bazk k) * qnth pi i) == sumn m (fun i => qnth pi i * mget (Bmat P B) i k)).
    { apply sumn_ext. intros i Hi. rewrite mget_Bmat by assumption. ring. }
    rewrite E1. ring.
  Qed.

  (* ---- feasibility predicates, mathematical form ------------------------------------------ *)
  Definition primal_feasible_sem (x : nat -> Q) : Prop :=
    forall k, (k < m)%nat ->
      (ic_up (col P (bazk k)) == M \/ x k <= ic_up (col P (bazk k))) /\
      (ic_lo (col P (bazk k)) == - M \/ ic_lo (col P (bazk k)) <= x k).

  Definition lower_like (s : bstat) : bool := match s with BLower | BFree => true | _ => false end.
  Definition upper_like (s : bstat) : bool := match s with BUpper | BFree => true | _ => false end.

  Definition dual_feasible_sem (pi : nat -> Q) : Prop :=
    forall j, (j < n)%nat -> bas j = false ->
      let d := cj P j - sumn m (fun i => Aij P i j * pi i) in
      d == 0 \/ dexempt M P ns j = true \/
      (~ (d < 0 /\ lower_like (stat B j) = true) /\ ~ (0 < d /\ upper_like (stat B j) = true)).

  Lemma pfeasb_iff xB : pfeasb M P B xB = true <-> primal_feasible_sem (qnth xB).
  Proof.
    unfold pfeasb, primal_feasible_sem. rewrite forallb_forall. split.
    - intros H k Hk. specialize (H k ltac:(apply in_seq; lia)). unfold pfeas1 in H.
      apply andb_true_iff in H. destruct H as [H1 H2].
      apply negb_true_iff in H1. apply negb_true_iff in H2.
      apply andb_false_iff in H1. apply andb_false_iff in H2. split.
      + destruct H1 as [H1|H1]; [right; apply Qltb_false; exact H1|left; apply negb_false_iff in H1; apply Qeq_bool_iff; exact H1].
      + destruct H2 as [H2|H2]; [right; apply Qltb_false; exact H2|left; apply negb_false_iff in H2; apply Qeq_bool_iff; exact H2].
    - intros H k Hk. apply in_seq in Hk. destruct (H k ltac:(lia)) as [H1 H2]. unfold pfeas1.
      apply andb_true_iff. split; apply negb_true_iff; apply andb_false_iff.
      + destruct H1 as [H1|H1]; [right; apply negb_false_iff; apply Qeq_bool_iff; exact H1|left; apply Qltb_false; exact H1].
      + destruct H2 as [H2|H2]; [right; apply negb_false_iff; apply Qeq_bool_iff; exact H2|left; apply Qltb_false; exact H2].
  Qed.

  Lemma dfeas1_iff pi j :
    dfeas1 M P ns B pi j = true <->
    (let d := dzj P pi j in
     d == 0 \/ dexempt M P ns j = true \/
     (~ (d < 0 /\ lower_like (stat B j) = true) /\ ~ (0 < d /\ upper_like (stat B j) = true))).
  Proof.
    unfold dfeas1. cbv zeta. set (d := dzj P pi j).
    assert (EL : match stat B j with BLower | BFree => true | _ => false end = lower_like (stat B j)) by reflexivity.
    assert (EU : match stat B j with BUpper | BFree => true | _ => false end = upper_like (stat B j)) by reflexivity.
    rewrite EL, EU. rewrite !orb_true_iff, negb_true_iff, orb_false_iff, !andb_false_iff. split.
    - intros [[H|H]|[H1 H2]].
      + left. apply Qeq_bool_iff. exact H.
      + right. left. exact H.
      + right. right. split.
        * intros [C1 C2]. destruct H1 as [H1|H1]; [apply Qltb_false in H1; exact (Qlt_not_le _ _ C1 H1)|congruence].
        * intros [C1 C2]. destruct H2 as [H2|H2]; [apply Qltb_false in H2; exact (Qlt_not_le _ _ C1 H2)|congruence].
    - intros [H|[H|[H1 H2]]].
      + left. left. apply Qeq_bool_iff. exact H.
      + left. right. exact H.
      + right. split.
        * destruct (lower_like (stat B j)); [left|right; reflexivity].
          apply Qltb_false. apply Qnot_lt_le. intros C. apply H1. split; [exact C|reflexivity].
        * destruct (upper_like (stat B j)); [left|right; reflexivity].
          apply Qltb_false. apply Qnot_lt_le. intros C. apply H2. split; [exact C|reflexivity].
  Qed.

  Lemma dfeasb_iff pi : dfeasb M P ns B pi = true <-> dual_feasible_sem (qnth pi).
  Proof.
    unfold dfeasb, dual_feasible_sem. rewrite forallb_forall. split.
    - intros H j Hj Hb. specialize (H j ltac:(apply nbl_spec; split; assumption)).
      apply dfeas1_iff in H. cbv zeta in *. rewrite <- (dzj_sumn pi j). exact H.
    - intros H j Hj. apply nbl_spec in Hj. destruct Hj as [Hj Hb]. apply dfeas1_iff.
      cbv zeta. rewrite (dzj_sumn pi j). apply H; assumption.
  Qed.

  Lemma primal_feasible_sem_ext x x' : (forall k, (k < m)%nat -> x k == x' k) ->
    primal_feasible_sem x -> primal_feasible_sem x'.
  Proof.
    intros E H k Hk. destruct (H k Hk) as [H1 H2]. rewrite <- (E k Hk). split; assumption.
  Qed.

  Lemma dual_feasible_sem_ext pi pi' : (forall i, (i < m)%nat -> pi i == pi' i) ->
    dual_feasible_sem pi -> dual_feasible_sem pi'.
  Proof.
    intros E H j Hj Hb. specialize (H j Hj Hb). cbv zeta in *.
    assert (ES : sumn m (fun i => Aij P i j * pi i) == sumn m (fun i => Aij P i j * pi' i)).
    { apply sumn_ext. intros i Hi. rewrite (E i Hi). reflexivity. }
    rewrite <- ES. exact H.
  Qed.

  (* ---- the verdict functions -------------------------------------------------------------- *)

  (* computational characterisation *)
  Lemma optimalstatus_spec xB pi : load_ok P ns isR B = true -> xB_of P B = Some xB -> pi_of P B = Some pi ->
    basis_optimalstatus M P ns isR B = VRes (pfeasb M P B xB && dfeasb M P ns B pi) 0.
  Proof.
    intros L HX HP. unfold basis_optimalstatus. rewrite L, HX, HP. simpl.
    destruct (pfeasb M P B xB), (dfeasb M P ns B pi); reflexivity.
  Qed.

  Lemma dualstatus_spec g pi : load_ok P ns isR B = true -> pi_of P B = Some pi ->
    basis_dualstatus M P ns isR B g =
    if dfeasb M P ns B pi && negb (Z.eqb g PRIMAL_UNBOUNDED) then VRes true (dobj P B pi) else VRes false 0.
  Proof.
    intros L HP. unfold basis_dualstatus. rewrite L, HP. simpl.
    unfold set_status_values, bstatus0, PRIMAL_FEASIBLE, PRIMAL_INFEASIBLE, PRIMAL_UNBOUNDED, DUAL_FEASIBLE, DUAL_INFEASIBLE, DUAL_UNBOUNDED.
    destruct (dfeasb M P ns B pi); simpl;
      destruct (Z.eqb g 3), (Z.eqb g 4), (Z.eqb g 5); reflexivity.
  Qed.

  Lemma singular_verdict : load_ok P ns isR B = true -> ~ nonsingular m (Bmat P B) ->
    basis_optimalstatus M P ns isR B = VSingular /\ forall g, basis_dualstatus M P ns isR B g = VSingular.
  Proof.
    intros L NS.
    assert (HI : inverse m (Bmat P B) = None).
    { destruct (inverse m (Bmat P B)) as [X|] eqn:E; [|reflexivity]. exfalso. apply NS. exact (inverse_some_nonsingular _ _ X E). }
    unfold basis_optimalstatus, basis_dualstatus, xB_of, pi_of, solve, solve_left. rewrite L, HI. simpl. split; [reflexivity|]. intros; reflexivity.
  Qed.

  Lemma nonsingular_solutions : nonsingular m (Bmat P B) ->
    exists xB pi, xB_of P B = Some xB /\ pi_of P B = Some pi /\
                  is_solution m (Bmat P B) xB (rhsN P B) /\ is_left_solution m (Bmat P B) pi (cB P B) /\
                  length xB = m /\ length pi = m.
  Proof.
    intros NS. destruct (nonsingular_inverse _ _ NS) as [X HX].
    unfold xB_of, pi_of.
    destruct (solve m (Bmat P B) (rhsN P B)) as [xB|] eqn:E1; [|unfold solve in E1; rewrite HX in E1; discriminate].
    destruct (solve_left m (Bmat P B) (cB P B)) as [pi|] eqn:E2; [|unfold solve_left in E2; rewrite HX in E2; discriminate].
    exists xB, pi. destruct (solve_correct _ _ _ _ E1) as [S1 L1]. destruct (solve_left_correct _ _ _ _ E2) as [S2 L2].
    repeat split; assumption.
  Qed.

  (* the verdict 'optimal' is exactly primal + dual feasibility of THE basic solution: any x, pi solving the two
     basis systems (they are unique) *)
  Theorem optimalstatus_iff x pi : load_ok P ns isR B = true -> nonsingular m (Bmat P B) ->
    is_solution m (Bmat P B) x (rhsN P B) -> is_left_solution m (Bmat P B) pi (cB P B) ->
    (basis_optimalstatus M P ns isR B = VRes true 0 <-> primal_feasible_sem (qnth x) /\ dual_feasible_sem (qnth pi)) /\
    (basis_optimalstatus M P ns isR B = VRes false 0 <-> ~ (primal_feasible_sem (qnth x) /\ dual_feasible_sem (qnth pi))).
  Proof.
    intros L NS SX SP. destruct (nonsingular_solutions NS) as (xB & p0 & HX & HP & SX0 & SP0 & _).
    rewrite (optimalstatus_spec xB p0 L HX HP).
    assert (EX : forall k, (k < m)%nat -> qnth xB k == qnth x k) by (apply (solution_unique m (Bmat P B) (rhsN P B)); assumption).
    assert (EP : forall k, (k < m)%nat -> qnth p0 k == qnth pi k) by (apply (left_solution_unique m (Bmat P B) (cB P B)); assumption).
    assert (PF : pfeasb M P B xB = true <-> primal_feasible_sem (qnth x)).
    { rewrite pfeasb_iff. split; apply primal_feasible_sem_ext; [exact EX|]. intros k Hk. symmetry. apply EX. exact Hk. }
    assert (DF : dfeasb M P ns B p0 = true <-> dual_feasible_sem (qnth pi)).
    { rewrite dfeasb_iff. split; apply dual_feasible_sem_ext; [exact EP|]. intros k Hk. symmetry. apply EP. exact Hk. }
    split.
    - split.
      + intros E. inversion E as [E']. apply andb_true_iff in E'. destruct E' as [E1 E2]. split; [apply PF; exact E1|apply DF; exact E2].
      + intros [H1 H2]. apply PF in H1. apply DF in H2. rewrite H1, H2. reflexivity.
    - split.
      + intros E [H1 H2]. apply PF in H1. apply DF in H2. rewrite H1, H2 in E. discriminate.
      + intros H. destruct (pfeasb M P B xB && dfeasb M P ns B p0) eqn:E; [|reflexivity].
        exfalso. apply H. apply andb_true_iff in E. destruct E as [E1 E2]. split; [apply PF; exact E1|apply DF; exact E2].
  Qed.

  (* dual objective of the basis, mathematical form (internal minimisation form: cj = -obj for MAX) *)
  Definition dual_objective_sem (pi : nat -> Q) : Q :=
    sumn m (fun i => pi i * rhs P i) +
    sumn n (fun j => if bas j then 0 else
                     (cj P j - sumn m (fun i => Aij P i j * pi i)) *
                     match stat B j with BUpper => ic_up (col P j) | BLower => ic_lo (col P j) | _ => 0 end).

  Lemma dobj_sem pi : dobj P B pi == dual_objective_sem (qnth pi).
  Proof.
    unfold dobj, dual_objective_sem. rarith. apply Qplus_comp.
    - rewrite dotn_sumn. apply sumn_ext. intros i _. unfold rhs. reflexivity.
    - rewrite (sum_nonbasic (dobj_term P B pi)). apply sumn_ext. intros j _.
      destruct (bas j); [reflexivity|]. unfold dobj_term. rewrite <- (dzj_sumn pi j).
      destruct (stat B j); rarith; ring.
  Qed.

  Lemma dual_objective_sem_ext pi pi' : (forall i, (i < m)%nat -> pi i == pi' i) ->
    dual_objective_sem pi == dual_objective_sem pi'.
  Proof.
    intros E. unfold dual_objective_sem. apply Qplus_comp.
    - apply sumn_ext. intros i Hi. rewrite (E i Hi). reflexivity.
    - apply sumn_ext. intros j _. destruct (bas j); [reflexivity|].
      assert (ES : sumn m (fun i => Aij P i j * pi i) == sumn m (fun i => Aij P i j * pi' i)).
      { apply sumn_ext. intros i Hi. rewrite (E i Hi). reflexivity. }
      rewrite ES. reflexivity.
  Qed.

  (* QSexact_basis_dualstatus with a harmless stack value: the verdict is exactly dual feasibility of the basis and
     the reported bound is exactly its dual objective *)
  Theorem dualstatus_iff g pi : load_ok P ns isR B = true -> nonsingular m (Bmat P B) -> g <> PRIMAL_UNBOUNDED ->
    is_left_solution m (Bmat P B) pi (cB P B) ->
    (dual_feasible_sem (qnth pi) -> exists d, basis_dualstatus M P ns isR B g = VRes true d /\ d == dual_objective_sem (qnth pi)) /\
    (~ dual_feasible_sem (qnth pi) -> basis_dualstatus M P ns isR B g = VRes false 0).
  Proof.
    intros L NS Hg SP. destruct (nonsingular_solutions NS) as (xB & p0 & HX & HP & SX0 & SP0 & _).
    rewrite (dualstatus_spec g p0 L HP).
    assert (EP : forall k, (k < m)%nat -> qnth p0 k == qnth pi k) by (apply (left_solution_unique m (Bmat P B) (cB P B)); assumption).
    assert (DF : dfeasb M P ns B p0 = true <-> dual_feasible_sem (qnth pi)).
    { rewrite dfeasb_iff. split; apply dual_feasible_sem_ext; [exact EP|]. intros k Hk. symmetry. apply EP. exact Hk. }
    assert (G : Z.eqb g PRIMAL_UNBOUNDED = false) by (apply Z.eqb_neq; exact Hg).
    rewrite G. simpl. rewrite andb_true_r. split.
    - intros H. apply DF in H. rewrite H. exists (dobj P B p0). split; [reflexivity|].
      rewrite dobj_sem. apply dual_objective_sem_ext. exact EP.
    - intros H. destruct (dfeasb M P ns B p0) eqn:E; [|reflexivity]. exfalso. apply H. apply DF. reflexivity.
  Qed.

  Theorem dualstatus_value g d : load_ok P ns isR B = true -> basis_dualstatus M P ns isR B g = VRes true d ->
    exists pi, is_left_solution m (Bmat P B) pi (cB P B) /\ dual_feasible_sem (qnth pi) /\ d == dual_objective_sem (qnth pi).
  Proof.
    intros L H. unfold basis_dualstatus in H. rewrite L in H. simpl in H.
    destruct (pi_of P B) as [pi|] eqn:HP; [|discriminate].
    pose proof (dualstatus_spec g pi L HP) as S. unfold basis_dualstatus in S. rewrite L, HP in S. simpl in S. rewrite S in H.
    destruct (dfeasb M P ns B pi && negb (Z.eqb g PRIMAL_UNBOUNDED)) eqn:E; [|discriminate].
    inversion H; subst d. apply andb_true_iff in E. destruct E as [E _].
    exists pi. unfold pi_of in HP. destruct (solve_left_correct _ _ _ _ HP) as [S2 _].
    split; [exact S2|]. split; [apply dfeasb_iff; exact E|apply dobj_sem].
  Qed.

  (* the value handed to set_status_values is read from an uninitialised variable: for every value but one the
     answer is the same ... *)
  Theorem dualstatus_ignores_pstatus_partial g g' : g <> PRIMAL_UNBOUNDED -> g' <> PRIMAL_UNBOUNDED ->
    basis_dualstatus M P ns isR B g = basis_dualstatus M P ns isR B g'.
  Proof.
    intros Hg Hg'. unfold basis_dualstatus. destruct (negb (load_ok P ns isR B)); [reflexivity|].
    destruct (pi_of P B) as [pi|]; [|reflexivity].
    unfold set_status_values, bstatus0, PRIMAL_FEASIBLE, PRIMAL_INFEASIBLE, PRIMAL_UNBOUNDED, DUAL_FEASIBLE, DUAL_INFEASIBLE, DUAL_UNBOUNDED in *.
    apply Z.eqb_neq in Hg. apply Z.eqb_neq in Hg'. rewrite Hg, Hg'.
    destruct (dfeasb M P ns B pi); simpl; destruct (Z.eqb g 3), (Z.eqb g 4), (Z.eqb g' 3), (Z.eqb g' 4); reflexivity.
  Qed.
End Sound.

(* ---- an 'optimal' verdict comes with a certificate for the verified checker ---------------------- *)
Section KKT.
  Variable M : Q.
  Variable P : ilp.
  Variable ns : nat.
  Variable isR : list bool.
  Variable B : basis.
  Hypothesis WF : wf_ilp P = true.
  Variables xB pi : vec.
  Hypothesis L : load_ok P ns isR B = true.
  Hypothesis SX : is_solution (bm P) (Bmat P B) xB (rhsN P B).
  Hypothesis SP : is_left_solution (bm P) (Bmat P B) pi (cB P B).
  Hypothesis PF : pfeasb M P B xB = true.
  Hypothesis DF : dfeasb M P ns B pi = true.
  Hypothesis NB : nonbasic_ok M P B = true.

  Local Notation m := (bm P).
  Local Notation n := (bn P).
  Local Notation z := (zfull P B xB).
  Local Notation y := (yuser P pi).
  Local Notation I := (inf_sentinel M).
  Local Notation bas := (basicb B).

  Lemma Lbaz : length (bazl P B) = m.
  Proof. destruct (load_ok_parts P ns isR B L) as (_ & H & _). exact H. Qed.

  Lemma len_z : length z = ncols P. Proof. unfold zfull. apply mkvec_length. Qed.
  Lemma len_y : length y = nrows P. Proof. unfold yuser. apply mkvec_length. Qed.

  Lemma qnth_y i : (i < m)%nat -> qnth y i = if i_max P then - qnth pi i else qnth pi i.
  Proof. intros H. unfold yuser. apply qnth_mkvec. exact H. Qed.

  (* reduced cost in the user's sign *)
  Lemma dz_user j : dz_l y (col P j) == if i_max P then - dzj P pi j else dzj P pi j.
  Proof.
    pose proof (dzj_sumn P WF pi j) as ED. unfold dz_l. rarith.
    rewrite (dot_sparse_sumn _ _ (nrows P)) by (apply wf_ilp_col; exact WF).
    unfold cj in ED. fold (Aij P).
    destruct (i_max P) eqn:MX; rewrite ED.
    - transitivity (ic_obj (col P j) - sumn (nrows P) (fun i => - (Aij P i j * qnth pi i))).
      + apply Qplus_comp; [reflexivity|]. apply Qopp_comp. apply sumn_ext. intros i Hi.
        rewrite qnth_y by exact Hi. rewrite MX. unfold Aij. ring.
      + rewrite sumn_opp. unfold bm. ring.
    - apply Qplus_comp; [reflexivity|]. apply Qopp_comp. apply sumn_ext. intros i Hi.
      rewrite qnth_y by exact Hi. rewrite MX. unfold Aij. reflexivity.
  Qed.

  Lemma exempt_spec j : dexempt M P ns j = true ->
    Qeq_bool (ic_up (col P j)) M = false /\ Qeq_bool (ic_lo (col P j)) (- M) = false /\ ic_up (col P j) <= ic_lo (col P j).
  Proof.
    unfold dexempt, vtype_of.
    destruct (Qeq_bool (ic_up (col P j)) M), (Qeq_bool (ic_lo (col P j)) (- M)); try discriminate.
    destruct (Qltb (ic_lo (col P j)) (ic_up (col P j))) eqn:E; [discriminate|]. intros _.
    apply Qltb_false in E. repeat split; try reflexivity. exact E.
  Qed.

  Lemma nb_ok_j j : (j < n)%nat -> bas j = false -> nb_ok1 M P B j = true.
  Proof.
    intros Hj Hb. unfold nonbasic_ok in NB. rewrite forallb_forall in NB. apply NB.
    apply nbl_spec. split; assumption.
  Qed.

  Lemma dfeas_j j : (j < n)%nat -> bas j = false ->
    dzj P pi j == 0 \/ dexempt M P ns j = true \/
    (~ (dzj P pi j < 0 /\ lower_like (stat B j) = true) /\ ~ (0 < dzj P pi j /\ upper_like (stat B j) = true)).
  Proof.
    intros Hj Hb. unfold dfeasb in DF. rewrite forallb_forall in DF.
    specialize (DF j ltac:(apply nbl_spec; split; assumption)). apply dfeas1_iff in DF. exact DF.
  Qed.

  Lemma dz_basic_zero j : (j < n)%nat -> bas j = true -> dzj P pi j == 0.
  Proof.
    intros Hj Hb. destruct (baz_pos P B j Hj Hb) as [H1 H2]. rewrite Lbaz in H1.
    rewrite <- H2. apply (dzj_basic P B WF pi (pos B j) H1 SP).
  Qed.

  (* a positive internal reduced cost pins the column to a finite lower bound, a negative one to a finite upper bound *)
  Lemma pos_at_lower j : (j < n)%nat -> 0 < dzj P pi j ->
    Qeq_bool (ic_lo (col P j)) (- M) = false /\ qnth z j == ic_lo (col P j).
  Proof.
    intros Hj Hd. rewrite qnth_zfull by exact Hj.
    destruct (bas j) eqn:Hb; [exfalso; rewrite (dz_basic_zero j Hj Hb) in Hd; exact (Qlt_irrefl _ Hd)|].
    pose proof (nb_ok_j j Hj Hb) as N. pose proof (dfeas_j j Hj Hb) as D.
    unfold nb_ok1 in N. unfold xnb. unfold basicb in Hb.
    destruct (stat B j) eqn:ST; simpl in Hb; try discriminate.
    - apply andb_true_iff in N. destruct N as [N1 _]. apply negb_true_iff in N1. split; [exact N1|reflexivity].
    - destruct D as [D|[D|[_ D]]].
      + rewrite D in Hd. exfalso. exact (Qlt_irrefl _ Hd).
      + destruct (exempt_spec j D) as (E1 & E2 & E3). apply andb_true_iff in N. destruct N as [_ N2].
        rewrite E2 in N2. simpl in N2. apply Qle_bool_iff in N2. split; [exact E2|]. apply Qle_antisym; assumption.
      + exfalso. apply D. split; [exact Hd|reflexivity].
    - destruct D as [D|[D|[_ D]]].
      + rewrite D in Hd. exfalso. exact (Qlt_irrefl _ Hd).
      + destruct (exempt_spec j D) as (E1 & E2 & E3). apply andb_true_iff in N. destruct N as [N1 N2].
        rewrite E2 in N1. rewrite E1 in N2. simpl in N1, N2. apply Qle_bool_iff in N1. apply Qle_bool_iff in N2.
        split; [exact E2|]. lra.
      + exfalso. apply D. split; [exact Hd|reflexivity].
  Qed.

  Lemma neg_at_upper j : (j < n)%nat -> dzj P pi j < 0 ->
    Qeq_bool (ic_up (col P j)) M = false /\ qnth z j == ic_up (col P j).
  Proof.
    intros Hj Hd. rewrite qnth_zfull by exact Hj.
    destruct (bas j) eqn:Hb; [exfalso; rewrite (dz_basic_zero j Hj Hb) in Hd; exact (Qlt_irrefl _ Hd)|].
    pose proof (nb_ok_j j Hj Hb) as N. pose proof (dfeas_j j Hj Hb) as D.
    unfold nb_ok1 in N. unfold xnb. unfold basicb in Hb.
    destruct (stat B j) eqn:ST; simpl in Hb; try discriminate.
    - destruct D as [D|[D|[D _]]].
      + rewrite D in Hd. exfalso. exact (Qlt_irrefl _ Hd).
      + destruct (exempt_spec j D) as (E1 & E2 & E3). apply andb_true_iff in N. destruct N as [_ N2].
        rewrite E1 in N2. simpl in N2. apply Qle_bool_iff in N2. split; [exact E1|]. apply Qle_antisym; assumption.
      + exfalso. apply D. split; [exact Hd|reflexivity].
    - apply andb_true_iff in N. destruct N as [N1 _]. apply negb_true_iff in N1. split; [exact N1|reflexivity].
    - destruct D as [D|[D|[D _]]].
      + rewrite D in Hd. exfalso. exact (Qlt_irrefl _ Hd).
      + destruct (exempt_spec j D) as (E1 & E2 & E3). apply andb_true_iff in N. destruct N as [N1 N2].
        rewrite E2 in N1. rewrite E1 in N2. simpl in N1, N2. apply Qle_bool_iff in N1. apply Qle_bool_iff in N2.
        split; [exact E1|]. lra.
      + exfalso. apply D. split; [exact Hd|reflexivity].
  Qed.

  Lemma pushes_sign j :
    ((if i_max P then Qltb (dz_l y (col P j)) 0 else Qltb 0 (dz_l y (col P j))) = true -> 0 < dzj P pi j) /\
    ((if i_max P then Qltb 0 (dz_l y (col P j)) else Qltb (dz_l y (col P j)) 0) = true -> dzj P pi j < 0).
  Proof.
    pose proof (dz_user j) as E. destruct (i_max P); split; intros H; apply Qltb_lt in H; rewrite E in H; lra.
  Qed.

  Lemma dual_ok_col j : (j < n)%nat -> dual_ok I (i_max P) (col P j) (qnth z j) (dz_l y (col P j)) = true.
  Proof.
    intros Hj. unfold dual_ok. destruct (pushes_sign j) as [S1 S2]. cbn [inflo infup inf_sentinel].
    apply andb_true_iff. split.
    - destruct (if i_max P then Qltb (dz_l y (col P j)) 0 else Qltb 0 (dz_l y (col P j))) eqn:E; [|reflexivity].
      destruct (pos_at_lower j Hj (S1 eq_refl)) as [A1 A2]. rewrite A1. simpl. apply Qeq_bool_iff. exact A2.
    - destruct (if i_max P then Qltb 0 (dz_l y (col P j)) else Qltb (dz_l y (col P j)) 0) eqn:E; [|reflexivity].
      destruct (neg_at_upper j Hj (S2 eq_refl)) as [A1 A2]. rewrite A1. simpl. apply Qeq_bool_iff. exact A2.
  Qed.

  Lemma bound_ok_col j : (j < n)%nat -> bound_ok I (col P j) (qnth z j) = true.
  Proof.
    intros Hj. unfold bound_ok. cbn [inflo infup inf_sentinel]. rewrite qnth_zfull by exact Hj.
    destruct (bas j) eqn:Hb.
    - destruct (baz_pos P B j Hj Hb) as [H1 H2]. rewrite Lbaz in H1.
      apply pfeasb_iff in PF. destruct (PF (pos B j) H1) as [U Lo]. rewrite H2 in U, Lo.
      apply andb_true_iff. split; apply orb_true_iff.
      + destruct Lo as [Lo|Lo]; [left; apply Qeq_bool_iff; exact Lo|right; apply Qle_bool_iff; exact Lo].
      + destruct U as [U|U]; [left; apply Qeq_bool_iff; exact U|right; apply Qle_bool_iff; exact U].
    - pose proof (nb_ok_j j Hj Hb) as N. unfold nb_ok1 in N. unfold xnb. unfold basicb in Hb.
      destruct (stat B j) eqn:ST; simpl in Hb; try discriminate.
      + apply andb_true_iff in N. destruct N as [_ N2]. apply andb_true_iff. split.
        * apply orb_true_iff. right. apply Qle_bool_iff. apply Qle_refl.
        * exact N2.
      + apply andb_true_iff in N. destruct N as [_ N2]. apply andb_true_iff. split.
        * exact N2.
        * apply orb_true_iff. right. apply Qle_bool_iff. apply Qle_refl.
      + exact N.
  Qed.

  Lemma dual_term_col j : (j < n)%nat ->
    dual_term (i_max P) (col P j) (dz_l y (col P j)) == dzf P (qnth y) j * qnth z j.
  Proof.
    intros Hj. unfold dual_term. destruct (pushes_sign j) as [S1 S2].
    assert (Ed : dz_l y (col P j) == dzf P (qnth y) j) by (apply dz_l_ok; [exact WF|exact len_y]).
    destruct (if i_max P then Qltb (dz_l y (col P j)) 0 else Qltb 0 (dz_l y (col P j))) eqn:E1.
    - destruct (pos_at_lower j Hj (S1 eq_refl)) as [_ A]. rarith. rewrite A, Ed. reflexivity.
    - destruct (if i_max P then Qltb 0 (dz_l y (col P j)) else Qltb (dz_l y (col P j)) 0) eqn:E2.
      + destruct (neg_at_upper j Hj (S2 eq_refl)) as [_ A]. rarith. rewrite A, Ed. reflexivity.
      + assert (Z0 : dz_l y (col P j) == 0).
        { destruct (i_max P); apply Qltb_false in E1; apply Qltb_false in E2; apply Qle_antisym; assumption. }
        rewrite <- Ed, Z0. ring.
  Qed.

  Theorem basic_solution_kkt :
    check_kkt I P z y (objval_l (i_cols P) z) = true.
  Proof.
    assert (Rows : forall i, (i < nrows P)%nat -> rowact P (qnth z) i == rhs P i).
    { intros i Hi. apply (rows_hold P B xB i Lbaz Hi SX). }
    unfold check_kkt. repeat (apply andb_true_iff; split).
    - exact WF.
    - apply Nat.eqb_eq. exact len_z.
    - apply Nat.eqb_eq. exact len_y.
    - apply forallb_seq_intro. intros i Hi. apply Qeq_bool_iff.
      rewrite (rowact_l_ok P z i len_z). apply Rows. exact Hi.
    - apply (forallb2_intro _ _ _ dcol 0); [symmetry; exact len_z|]. intros j Hj. apply bound_ok_col. exact Hj.
    - apply (forallb2_intro _ _ _ dcol 0); [symmetry; exact len_z|]. intros j Hj. apply dual_ok_col. exact Hj.
    - apply Qeq_bool_iff. reflexivity.
    - apply Qeq_bool_iff. rarith.
      rewrite (objval_l_ok P z len_z). rewrite (obj_split P (qnth y) (qnth z)).
      rewrite Qplus_comm. apply Qplus_comp.
      + rewrite (qsum_map_sumn dcol). apply sumn_ext. intros j Hj. apply dual_term_col. exact Hj.
      + rewrite dot_l_sumn by (rewrite len_y; reflexivity). rewrite len_y. apply sumn_ext. intros i Hi.
        rewrite (Rows i Hi). reflexivity.
  Qed.
End KKT.

(* packaged: verdict 'optimal' from the model of QSexact_basis_optimalstatus -> verified certificate -> true optimum *)
Theorem basis_optimal_is_optimum M P ns isR B :
  wf_ilp P = true -> basis_optimalstatus M P ns isR B = VRes true 0 -> nonbasic_ok M P B = true ->
  exists xB pi,
    xB_of P B = Some xB /\ pi_of P B = Some pi /\
    check_kkt (inf_sentinel M) P (zfull P B xB) (yuser P pi) (objval_l (i_cols P) (zfull P B xB)) = true /\
    is_optimum (inf_sentinel M) P (qnth (zfull P B xB)) (objval_l (i_cols P) (zfull P B xB)).
Proof.
  intros WF V NB. unfold basis_optimalstatus in V.
  destruct (load_ok P ns isR B) eqn:L; [|discriminate]. simpl in V.
  destruct (xB_of P B) as [xB|] eqn:HX; [|discriminate].
  destruct (pi_of P B) as [pi|] eqn:HP; [|discriminate].
  exists xB, pi. split; [reflexivity|]. split; [reflexivity|].
  assert (V' : pfeasb M P B xB = true /\ dfeasb M P ns B pi = true).
  { destruct (pfeasb M P B xB), (dfeasb M P ns B pi); simpl in V; try discriminate; split; reflexivity. }
  destruct V' as [PF DF].
  unfold xB_of in HX. unfold pi_of in HP.
  destruct (solve_correct _ _ _ _ HX) as [SX _]. destruct (solve_left_correct _ _ _ _ HP) as [SP _].
  pose proof (basic_solution_kkt M P ns isR B WF xB pi L SX SP PF DF NB) as K.
  split; [exact K|]. apply (check_kkt_sound _ _ _ _ _ K).
Qed.

(* a basis accepted by the library's optimality test has one basic entry per row *)
Theorem returned_basis_count P ns B ps ds s : opt_test P ns B ps ds = Some s -> count_basic B = nrows P.
Proof.
  unfold opt_test. intros H.
  destruct (Nat.eqb (length (cstat B)) ns && Nat.eqb (length (rstat B)) (nrows P) && Nat.eqb (count_basic B) (nrows P) &&
            Nat.eqb (ncols P) (ns + nrows P) && Nat.eqb (length ps) (ns + nrows P) && Nat.eqb (length ds) (nrows P)) eqn:E;
    [|simpl in H; discriminate].
  repeat (apply andb_true_iff in E; destruct E as [E ?]).
  apply Nat.eqb_eq. assumption.
Qed.

(* ---- examples and the refutation ------------------------------------------------------------------ *)
(* min -x0 - x1,  x0 + x1 <= 4,  x0 - x1 >= -2,  x0 >= 0,  0 <= x1 <= 3 ; basis {x0, x1} *)
Definition exP : ilp :=
  {| i_max := false;
     i_cols := [ {| ic_obj := -1; ic_lo := 0; ic_up := 1000; ic_ent := [(0%nat, 1); (1%nat, 1)] |};
                 {| ic_obj := -1; ic_lo := 0; ic_up := 3; ic_ent := [(0%nat, 1); (1%nat, -1)] |};
                 {| ic_obj := 0; ic_lo := 0; ic_up := 1000; ic_ent := [(0%nat, 1)] |};
                 {| ic_obj := 0; ic_lo := 0; ic_up := 1000; ic_ent := [(1%nat, -1)] |} ];
     i_rhs := [4; -2] |}.
Definition exB : basis := {| cstat := [BBasic; BBasic]; rstat := [BLower; BLower] |}.

Example ex_optimal : basis_optimalstatus 1000 exP 2 [false; false] exB = VRes true 0.
Proof. vm_compute. reflexivity. Qed.
Example ex_hyps : wf_ilp exP = true /\ load_ok exP 2 [false; false] exB = true /\ nonbasic_ok 1000 exP exB = true.
Proof. vm_compute. repeat split. Qed.
Example ex_dual : basis_dualstatus 1000 exP 2 [false; false] exB 3 = VRes true (-4).
Proof. vm_compute. reflexivity. Qed.

(* the uninitialised pstatus matters: with the stack value 5 a dual feasible basis is called infeasible *)
Theorem dualstatus_ignores_pstatus_refuted :
  exists M P ns isR B g g', basis_dualstatus M P ns isR B g <> basis_dualstatus M P ns isR B g'.
Proof.
  exists 1000, exP, 2%nat, [false; false], exB, 3%Z, 5%Z. vm_compute. discriminate.
Qed.

(* ---- the literal reading: when no bound of the LP is the sentinel the two readings coincide ------- *)
Lemma forallb2_ext_in {A C} (f g : A -> C -> bool) l : forall k,
  (forall a b, In a l -> f a b = g a b) -> forallb2 f l k = forallb2 g l k.
Proof.
  induction l as [|a l IH]; intros [|b k] H; simpl; try reflexivity.
  rewrite (H a b) by (left; reflexivity). f_equal. apply IH. intros a' b' Ha. apply H. right. exact Ha.
Qed.

Definition no_sentinel_bounds (M : Q) (P : ilp) : bool :=
  forallb (fun c => negb (Qeq_bool (ic_lo c) (- M)) && negb (Qeq_bool (ic_up c) M)) (i_cols P).

Lemma kkt_sentinel_literal M P z y v : no_sentinel_bounds M P = true ->
  check_kkt (inf_sentinel M) P z y v = check_kkt inf_none P z y v.
Proof.
  intros H. unfold no_sentinel_bounds in H. rewrite forallb_forall in H. unfold check_kkt.
  assert (E1 : forallb2 (bound_ok (inf_sentinel M)) (i_cols P) z = forallb2 (bound_ok inf_none) (i_cols P) z).
  { apply forallb2_ext_in. intros c b Hc. specialize (H c Hc). apply andb_true_iff in H. destruct H as [H1 H2].
    apply negb_true_iff in H1. apply negb_true_iff in H2. unfold bound_ok. cbn [inflo infup inf_sentinel inf_none].
    rewrite H1, H2. reflexivity. }
  assert (E2 : forallb2 (fun c zj => dual_ok (inf_sentinel M) (i_max P) c zj (dz_l y c)) (i_cols P) z =
               forallb2 (fun c zj => dual_ok inf_none (i_max P) c zj (dz_l y c)) (i_cols P) z).
  { apply forallb2_ext_in. intros c b Hc. specialize (H c Hc). apply andb_true_iff in H. destruct H as [H1 H2].
    apply negb_true_iff in H1. apply negb_true_iff in H2. unfold dual_ok. cbn [inflo infup inf_sentinel inf_none].
    rewrite H1, H2. reflexivity. }
  rewrite E1, E2. reflexivity.
Qed.

Theorem basis_optimal_is_optimum_literal M P ns isR B :
  wf_ilp P = true -> basis_optimalstatus M P ns isR B = VRes true 0 -> nonbasic_ok M P B = true ->
  no_sentinel_bounds M P = true ->
  exists xB pi,
    xB_of P B = Some xB /\ pi_of P B = Some pi /\
    check_kkt inf_none P (zfull P B xB) (yuser P pi) (objval_l (i_cols P) (zfull P B xB)) = true.
Proof.
  intros WF V NB NS. destruct (basis_optimal_is_optimum M P ns isR B WF V NB) as (xB & pi & H1 & H2 & K & _).
  exists xB, pi. repeat split; try assumption. rewrite <- (kkt_sentinel_literal M P _ _ _ NS). exact K.
Qed.

(* ---- the accepted primal vector of the library's optimality test IS the basic solution --------------- *)
Section ReturnedPrimal.
  Variable P : ilp.
  Variable B : basis.
  Local Notation m := (bm P).
  Local Notation n := (bn P).

  (* any point that satisfies the rows and has its non-basic components at the values the statuses name
     coincides with the basic solution on the basic components *)
  Theorem basic_part_unique z xB :
    length (bazl P B) = m -> nonsingular m (Bmat P B) -> xB_of P B = Some xB ->
    (forall i, (i < m)%nat -> rowact P (qnth z) i == rhs P i) ->
    (forall j, (j < n)%nat -> basicb B j = false -> qnth z j == xnb P B j) ->
    forall k, (k < m)%nat -> qnth z (baz P B k) == qnth xB k.
  Proof.
    intros L NS HX Rows NBv k Hk.
    unfold xB_of in HX. destruct (solve_correct _ _ _ _ HX) as [SX _].
    set (zb := mkvec m (fun k => qnth z (baz P B k))).
    assert (SZ : is_solution m (Bmat P B) zb (rhsN P B)).
    { intros i Hi. unfold rhsN. rewrite qnth_mkvec by exact Hi. rarith.
      assert (E2 : qsum (map (fun j => rmul (Aij P i j) (xnb P B j)) (nbl P B)) == qsum (map (fun j => Aij P i j * xnb P B j) (nbl P B))).
      { apply qsum_map_ext. intros; apply rmul_ok. }
      rewrite E2. rewrite (sum_nonbasic P B (fun j => Aij P i j * xnb P B j)).
      assert (E1 : sumn m (fun j => mget (Bmat P B) i j * qnth zb j) == sumn m (fun k => Aij P i (baz P B k) * qnth z (baz P B k))).
      { apply sumn_ext. intros k' Hk'. rewrite mget_Bmat by assumption. unfold zb. rewrite qnth_mkvec by exact Hk'. reflexivity. }
      rewrite E1. rewrite <- (sum_basic P B (fun j => Aij P i j) (fun k => qnth z (baz P B k)) L).
      rewrite <- (Rows i Hi). unfold rowact.
      transitivity (sumn n (fun j => Aij P i j * qnth z j) - sumn n (fun j => if basicb B j then 0 else Aij P i j * xnb P B j)); [|reflexivity].
      rewrite <- sumn_sub. apply sumn_ext. intros j Hj.
      destruct (basicb B j) eqn:Hb.
      - destruct (baz_pos P B j Hj Hb) as [_ E]. rewrite E. ring.
      - rewrite (NBv j Hj Hb). ring. }
    pose proof (solution_unique m (Bmat P B) (rhsN P B) zb xB NS SZ SX k Hk) as E.
    unfold zb in E. rewrite qnth_mkvec in E by exact Hk. exact E.
  Qed.
End ReturnedPrimal.

Theorem returned_basis_primal P ns isR B ps ds s xB :
  wf_logicals (skipn ns (i_cols P)) 0 = true ->
  opt_test P ns B ps ds = Some s -> load_ok P ns isR B = true ->
  nonsingular (bm P) (Bmat P B) -> xB_of P B = Some xB ->
  (forall j, (j < bn P)%nat -> basicb B j = false -> qnth (sx s ++ sslack s) j == xnb P B j) ->
  forall k, (k < bm P)%nat -> qnth (sx s ++ sslack s) (baz P B k) == qnth xB k.
Proof.
  intros WL T L NS HX NBv.
  destruct (load_ok_parts P ns isR B L) as (_ & Lb & _).
  apply (basic_part_unique P B (sx s ++ sslack s) xB Lb NS HX); [|exact NBv].
  intros i Hi. pose proof (opt_test_rows P ns B ps ds s WL T i Hi) as R.
  destruct (opt_test_parts P ns B ps ds s T) as (Nc & _ & _ & Lx & Lsl & _).
  rewrite <- (rowact_l_ok P (sx s ++ sslack s) i); [exact R|]. rewrite app_length. unfold ncols in *. lia.
Qed.
