(* Representation-level model of the LU factorization of factor.c (C13 (b)).
   The factor_work struct holds B^-1 as a product of
     - L etas in column form   lc_inf[0..dim) : (c, [(row, coef)])       walked by ILLfactor_ftranl
     - L in row form           lr_inf[0..dim) : (r, [(col, coef)])       walked by ILLfactor_btranl2
     - row etas of the updates er_inf[0..etacnt) : (r, [(col, coef)])    walked by ILLfactor_ftrane / _btrane
     - U by columns, pivot first  uc_inf[0..dim)                         walked by ILLfactor_ftranu
     - U by rows, pivot first     ur_inf[0..dim)                         walked by ILLfactor_btranu
     - the permutations rperm, cperm.
   The functions below walk these lists exactly as the (dense-vector) C loops do, including the `!= 0` short cuts;
   the results of the solves are the sparse vectors the C code builds (index, value) - their dense reading adds up
   repeated indices (there are none when cperm / rperm are permutations; the harness reports duplicates).
   Theorem check_repr_sound (below): if the unit vectors multiply back, every solve is exact.                      *)
From QSX Require Export Fac.GaussSound.
Local Open Scope Q_scope.

Definition sparse := list (nat * Q).

Record repr := {
  f_dim : nat;
  f_lc : list (nat * sparse);
  f_lr : list (nat * sparse);
  f_er : list (nat * sparse);
  f_uc : list sparse;
  f_ur : list sparse;
  f_rperm : list nat;
  f_cperm : list nat }.

Definition vset (n : nat) (a : vec) (i : nat) (x : Q) : vec :=
  mkvec n (fun k => if Nat.eqb k i then x else qnth a k).

(* for (j = 0; j < nzcnt; j++) a[indx[j]] -= v * coef[j] *)
Definition sub_scaled (n : nat) (a : vec) (v : Q) (ents : sparse) : vec :=
  fold_left (fun a kc => vset n a (fst kc) (rsub (qnth a (fst kc)) (rmul v (snd kc)))) ents a.

(* v = a[c]; if (v != 0) a[indx[j]] -= v * coef[j]      (ftranl, btrane, btranl2) *)
Definition axpy_step (n : nat) (a : vec) (ce : nat * sparse) : vec :=
  let v := qnth a (fst ce) in
  if Qeq_bool v 0 then a else sub_scaled n a v (snd ce).

(* v = a[r]; v -= coef[j] * a[indx[j]]; a[r] = v          (ftrane) *)
Definition dot_step (n : nat) (a : vec) (re : nat * sparse) : vec :=
  vset n a (fst re) (rsub (qnth a (fst re)) (dot_sparse (snd re) a)).

(* v = a[p]; if (v != 0) { v /= pivot; x.append (j, v); a[indx[k]] -= v * coef[k] (k >= 1); a[p] = 0 }   (ftranu, btranu) *)
Definition u_step (n : nat) (cols : list sparse) (st : vec * sparse) (pj : nat * nat) : vec * sparse :=
  let (a, acc) := st in
  let v := qnth a (fst pj) in
  if Qeq_bool v 0 then st else
  match nth (snd pj) cols [] with
  | (_, piv) :: rest =>
    let v' := rdiv v piv in
    (vset n (sub_scaled n a v' rest) (fst pj) 0, (snd pj, v') :: acc)
  | [] => st
  end.

Definition dense (n : nat) (s : sparse) : vec := mkvec n (fun k => Qred (coefAt s k)).

(* ILLfactor_ftran: a indexed by row, result indexed by column (basis position) *)
Definition ftran (r : repr) (a : vec) : sparse :=
  let n := f_dim r in
  let a0 := mkvec n (qnth a) in
  let a1 := fold_left (axpy_step n) (f_lc r) a0 in
  let a2 := fold_left (dot_step n) (f_er r) a1 in
  snd (fold_left (u_step n (f_uc r)) (rev (combine (f_rperm r) (f_cperm r))) (a2, [])).

(* ILLfactor_btran: a indexed by column (basis position), result indexed by row *)
Definition btran (r : repr) (a : vec) : vec :=
  let n := f_dim r in
  let a0 := mkvec n (qnth a) in
  let x := snd (fold_left (u_step n (f_ur r)) (combine (f_cperm r) (f_rperm r)) (a0, [])) in
  let x0 := dense n x in
  let x1 := fold_left (axpy_step n) (rev (f_er r)) x0 in
  fold_left (axpy_step n) (rev (f_lr r)) x1.

Definition ftran_dense (r : repr) (a : vec) : vec := dense (f_dim r) (ftran r a).

(* all indices in range *)
Definition wf_eta (n : nat) (e : nat * sparse) : bool := Nat.ltb (fst e) n && ind_lt n (snd e).
Definition wf_repr (r : repr) : bool :=
  let n := f_dim r in
  forallb (wf_eta n) (f_lc r) && forallb (wf_eta n) (f_lr r) && forallb (wf_eta n) (f_er r) &&
  forallb (ind_lt n) (f_uc r) && forallb (ind_lt n) (f_ur r) &&
  forallb (fun i => Nat.ltb i n) (f_rperm r) && forallb (fun i => Nat.ltb i n) (f_cperm r).

(* the representation reproduces B^-1 on the unit vectors *)
Definition check_repr (r : repr) (B : mat) : bool :=
  let n := f_dim r in
  wf_repr r &&
  forallb (fun i => check_ftran n B (ftran_dense r (unitv n i)) (unitv n i) &&
                    check_btran n B (btran r (unitv n i)) (unitv n i)) (seq 0 n).
