(* Model of the exact basis evaluation of exact.c / fct.c / basis.c:
     QSexact_basis_optimalstatus, QSexact_basis_dualstatus, QSexact_verify (no prestep)
   over the normalised internal form (structural columns first, then one logical
   per row).  The LU factorization is replaced by the exact solves of Gauss.v
   (C13 is about the LU code); everything else follows the C statement by
   statement at zero tolerance:
     QSload_basis / qsbasis_to_illbasis   sizes, number of basic entries
     ILLbasis_load                        admissible status characters, baz order
     ILLfct_set_variable_type             vtype (VARTIFICIAL / VFIXED exemption)
     ILLfct_compute_xbz / _piz / _dz / _dobj
     ILLfct_check_pfeasible / _dfeasible
     ILLfct_set_status_values             (with the caller's pstatus, dstatus)
   A singular basis is repaired by ILLbasis_factor in an order that depends on
   the LU pivoting; the model answers VSingular there.                         *)
From QSX Require Export Fac.Gauss LP.OptTest.
Local Open Scope Q_scope.

Inductive vtype := VArtificial | VFixed | VFree | VUpper | VLower | VBounded.

Inductive verdict := VErr | VSingular | VRes (b : bool) (d : Q).

(* lp_status_info (the basisstat copy) *)
Record bstatus := { optimal : bool; primal_feasible : bool; primal_infeasible : bool; primal_unbounded : bool;
                    dual_feasible : bool; dual_infeasible : bool; dual_unbounded : bool }.
Definition bstatus0 : bstatus :=
  {| optimal := false; primal_feasible := false; primal_infeasible := false; primal_unbounded := false;
     dual_feasible := false; dual_infeasible := false; dual_unbounded := false |}.

(* status codes of basicdefs.h *)
Definition PRIMAL_FEASIBLE : Z := 3%Z.
Definition PRIMAL_INFEASIBLE : Z := 4%Z.
Definition PRIMAL_UNBOUNDED : Z := 5%Z.
Definition DUAL_FEASIBLE : Z := 7%Z.
Definition DUAL_INFEASIBLE : Z := 8%Z.
Definition DUAL_UNBOUNDED : Z := 9%Z.

(* ILLfct_set_status_values (lp, pstatus, dstatus, PHASEII, PHASEII) with nbchange = ncchange = 0,
   restricted to basisstat; the statements are applied in the order of the C function *)
Definition set_status_values (s : bstatus) (pstatus dstatus : Z) : bstatus :=
  let s1 := if Z.eqb dstatus DUAL_FEASIBLE then
              {| optimal := optimal s; primal_feasible := primal_feasible s; primal_infeasible := primal_infeasible s;
                 primal_unbounded := primal_unbounded s; dual_feasible := true; dual_infeasible := false;
                 dual_unbounded := dual_unbounded s |} else s in
  let s2 := if Z.eqb dstatus DUAL_INFEASIBLE then
              {| optimal := optimal s1; primal_feasible := primal_feasible s1; primal_infeasible := primal_infeasible s1;
                 primal_unbounded := primal_unbounded s1; dual_feasible := false; dual_infeasible := true;
                 dual_unbounded := dual_unbounded s1 |} else s1 in
  let s3 := if Z.eqb pstatus PRIMAL_FEASIBLE then
              {| optimal := optimal s2; primal_feasible := true; primal_infeasible := false;
                 primal_unbounded := primal_unbounded s2; dual_feasible := dual_feasible s2;
                 dual_infeasible := dual_infeasible s2; dual_unbounded := dual_unbounded s2 |} else s2 in
  let s4 := if Z.eqb pstatus PRIMAL_INFEASIBLE then
              {| optimal := optimal s3; primal_feasible := false; primal_infeasible := true;
                 primal_unbounded := primal_unbounded s3; dual_feasible := dual_feasible s3;
                 dual_infeasible := dual_infeasible s3; dual_unbounded := dual_unbounded s3 |} else s3 in
  let s5 := if Z.eqb pstatus PRIMAL_UNBOUNDED then
              {| optimal := optimal s4; primal_feasible := primal_feasible s4; primal_infeasible := primal_infeasible s4;
                 primal_unbounded := true; dual_feasible := false; dual_infeasible := true;
                 dual_unbounded := dual_unbounded s4 |} else s4 in
  let s6 := if Z.eqb dstatus DUAL_UNBOUNDED then
              {| optimal := optimal s5; primal_feasible := false; primal_infeasible := true;
                 primal_unbounded := primal_unbounded s5; dual_feasible := dual_feasible s5;
                 dual_infeasible := dual_infeasible s5; dual_unbounded := true |} else s5 in
  {| optimal := primal_feasible s6 && dual_feasible s6; primal_feasible := primal_feasible s6;
     primal_infeasible := primal_infeasible s6; primal_unbounded := primal_unbounded s6;
     dual_feasible := dual_feasible s6; dual_infeasible := dual_infeasible s6; dual_unbounded := dual_unbounded s6 |}.

Section Model.
  Variable M : Q.                 (* the rational sentinel mpq_ILL_MAXDOUBLE *)
  Variable P : ilp.
  Variable ns : nat.              (* number of structural columns *)
  Variable isR : list bool.       (* per row: sense == 'R' *)
  Variable B : basis.

  Definition bm : nat := nrows P.
  Definition bn : nat := ncols P.

  (* cz: objective of the internal minimisation form *)
  Definition cj (j : nat) : Q := if i_max P then - ic_obj (col P j) else ic_obj (col P j).

  Definition vstat : list bstat := cstat B ++ rstat B.
  Definition stat (j : nat) : bstat := nth j vstat BOther.
  Definition basicb (j : nat) : bool := is_basic (stat j).
  (* baz: basic structurals in column order, then basic logicals in row order *)
  Definition bazl : list nat := filter basicb (seq 0 bn).
  Definition nbl : list nat := filter (fun j => negb (basicb j)) (seq 0 bn).
  Definition baz (k : nat) : nat := nth k bazl 0%nat.

  (* ILLbasis_load: admissible status characters *)
  Definition cstat_ok (s : bstat) : bool := match s with BOther => false | _ => true end.
  Definition rstat_ok (r : bool) (s : bstat) : bool :=
    match s with BBasic | BLower => true | BUpper => r | _ => false end.
  Definition load_ok : bool :=
    Nat.eqb (length (cstat B)) ns && Nat.eqb (length (rstat B)) bm && Nat.eqb bn (ns + bm) &&
    Nat.eqb (length isR) bm &&
    Nat.eqb (count_basic B) bm &&
    forallb cstat_ok (cstat B) && forallb2 rstat_ok isR (rstat B).

  (* ILLfct_set_variable_type *)
  Definition is_logical (j : nat) : bool :=
    match ic_ent (col P j) with [(k, _)] => Nat.eqb (ns + k) j | _ => false end.
  Definition vtype_of (j : nat) : vtype :=
    let c := col P j in
    match Qeq_bool (ic_up c) M, Qeq_bool (ic_lo c) (- M) with
    | false, false => if Qltb (ic_lo c) (ic_up c) then VBounded
                      else if Qeq_bool (ic_lo c) 0 && is_logical j then VArtificial else VFixed
    | true, true => VFree
    | true, false => VLower
    | false, true => VUpper
    end.
  Definition dexempt (j : nat) : bool := match vtype_of j with VArtificial | VFixed => true | _ => false end.

  (* value of a non-basic column: compute_xbz *)
  Definition xnb (j : nat) : Q :=
    match stat j with BUpper => ic_up (col P j) | BLower => ic_lo (col P j) | _ => 0 end.

  Definition Bmat : mat := mkmat bm bm (fun i k => Aij P i (baz k)).
  Definition rhsN : vec := mkvec bm (fun i => rsub (rhs P i) (qsum (map (fun j => rmul (Aij P i j) (xnb j)) nbl))).
  Definition cB : vec := mkvec bm (fun k => cj (baz k)).

  Definition dzj (pi : vec) (j : nat) : Q := rsub (cj j) (dot_sparse (ic_ent (col P j)) pi).

  (* check_pfeasible, ftol = 0: only the basic variables are looked at; a bound equal to the sentinel is no bound *)
  Definition pfeas1 (xB : vec) (k : nat) : bool :=
    let c := col P (baz k) in let x := qnth xB k in
    negb (Qltb (ic_up c) x && negb (Qeq_bool (ic_up c) M)) &&
    negb (Qltb x (ic_lo c) && negb (Qeq_bool (ic_lo c) (- M))).
  Definition pfeasb (xB : vec) : bool := forallb (pfeas1 xB) (seq 0 bm).

  (* check_dfeasible, ftol = 0 *)
  Definition dfeas1 (pi : vec) (j : nat) : bool :=
    let d := dzj pi j in
    Qeq_bool d 0 || dexempt j ||
    negb ((Qltb d 0 && match stat j with BLower | BFree => true | _ => false end) ||
          (Qltb 0 d && match stat j with BUpper | BFree => true | _ => false end)).
  Definition dfeasb (pi : vec) : bool := forallb (dfeas1 pi) nbl.

  (* compute_dobj *)
  Definition dobj_term (pi : vec) (j : nat) : Q :=
    match stat j with
    | BUpper => rmul (dzj pi j) (ic_up (col P j))
    | BLower => rmul (dzj pi j) (ic_lo (col P j))
    | _ => 0
    end.
  Definition dobj (pi : vec) : Q := radd (dotn bm pi (i_rhs P)) (qsum (map (dobj_term pi) nbl)).

  (* the two solves; None = singular *)
  Definition xB_of : option vec := solve bm Bmat rhsN.
  Definition pi_of : option vec := solve_left bm Bmat cB.

  (* QSexact_basis_optimalstatus *)
  Definition basis_optimalstatus : verdict :=
    if negb load_ok then VErr else
    match xB_of, pi_of with
    | Some xB, Some pi =>
      let ps := if pfeasb xB then PRIMAL_FEASIBLE else PRIMAL_INFEASIBLE in
      let ds := if dfeasb pi then DUAL_FEASIBLE else DUAL_INFEASIBLE in
      VRes (optimal (set_status_values bstatus0 ps ds)) 0
    | _, _ => VSingular
    end.

  (* QSexact_basis_dualstatus: fi.pstatus is not set by anybody before it is handed to
     set_status_values; g is whatever the stack held *)
  Definition basis_dualstatus (g : Z) : verdict :=
    if negb load_ok then VErr else
    match pi_of with
    | Some pi =>
      let ds := if dfeasb pi then DUAL_FEASIBLE else DUAL_INFEASIBLE in
      let s := set_status_values bstatus0 g ds in
      if dual_feasible s then VRes true (dobj pi)
      else if dual_infeasible s then VRes false 0
      else if dual_unbounded s then VRes true 0 (* objbound; not reachable with ds in {7,8} *) else VErr
    | None => VSingular
    end.

  (* full primal vector of the basic solution, internal column order *)
  Definition pos (j : nat) : nat := length (filter basicb (seq 0 j)).
  Definition zfull (xB : vec) : vec := mkvec bn (fun j => if basicb j then qnth xB (pos j) else xnb j).
  (* multipliers in the user's sign *)
  Definition yuser (pi : vec) : vec := mkvec bm (fun i => if i_max P then - qnth pi i else qnth pi i).

  (* statuses of the non-basic columns are consistent with the bounds they refer to *)
  Definition nb_ok1 (j : nat) : bool :=
    let c := col P j in
    match stat j with
    | BLower => negb (Qeq_bool (ic_lo c) (- M)) && (Qeq_bool (ic_up c) M || Qle_bool (ic_lo c) (ic_up c))
    | BUpper => negb (Qeq_bool (ic_up c) M) && (Qeq_bool (ic_lo c) (- M) || Qle_bool (ic_lo c) (ic_up c))
    | BFree => (Qeq_bool (ic_lo c) (- M) || Qle_bool (ic_lo c) 0) && (Qeq_bool (ic_up c) M || Qle_bool 0 (ic_up c))
    | BBasic => true
    | BOther => false
    end.
  Definition nonbasic_ok : bool := forallb nb_ok1 nbl.
End Model.

(* ---- ILLbasis_load after the repair `basis_load_normalise` ---------------------------------------------------
   A non-basic structural column can only sit at a bound it has ("has" = the bound differs from the sentinel): when the
   basis is loaded, at-lower without a lower bound becomes at-upper if there is an upper bound, else free (zero);
   at-upper without an upper bound becomes at-lower if there is a lower bound, else free; free on a column that has a
   bound becomes at-lower if there is a lower bound, else at-upper.  Rows (logicals) and basic columns are untouched;
   the admissibility tests of the loader look at the characters as supplied (they are invariant under this map).
   Everything in [Section Model] above evaluates a basis AS LOADED; the verdict functions of the library are the
   [lib_*] compositions below. *)
Definition norm_stat (M : Q) (c : icol) (s : bstat) : bstat :=
  let haslo := negb (Qeq_bool (ic_lo c) (- M)) in
  let hasup := negb (Qeq_bool (ic_up c) M) in
  match s with
  | BLower => if haslo then BLower else if hasup then BUpper else BFree
  | BUpper => if hasup then BUpper else if haslo then BLower else BFree
  | BFree => if haslo then BLower else if hasup then BUpper else BFree
  | _ => s
  end.

Fixpoint norm_from (M : Q) (P : ilp) (j : nat) (l : list bstat) : list bstat :=
  match l with
  | [] => []
  | s :: t => norm_stat M (col P j) s :: norm_from M P (S j) t
  end.

Definition loaded_basis (M : Q) (P : ilp) (B : basis) : basis :=
  {| cstat := norm_from M P 0 (cstat B); rstat := rstat B |}.

(* QSexact_basis_optimalstatus / QSexact_basis_dualstatus of the library *)
Definition lib_optimalstatus (M : Q) (P : ilp) (ns : nat) (isR : list bool) (B : basis) : verdict :=
  basis_optimalstatus M P ns isR (loaded_basis M P B).
Definition lib_dualstatus (M : Q) (P : ilp) (ns : nat) (isR : list bool) (B : basis) (g : Z) : verdict :=
  basis_dualstatus M P ns isR (loaded_basis M P B) g.

(* a property of the LP alone (no basis): no column has crossed finite bounds; the logical of every row has a finite
   lower bound and, for a ranged row, a finite upper bound (this is how the library builds logicals) *)
Definition lp_bounds_ok (M : Q) (P : ilp) (ns : nat) (isR : list bool) : bool :=
  forallb (fun c => Qeq_bool (ic_lo c) (- M) || Qeq_bool (ic_up c) M || Qle_bool (ic_lo c) (ic_up c)) (i_cols P) &&
  forallb (fun i => let c := col P (ns + i) in
                    negb (Qeq_bool (ic_lo c) (- M)) && (negb (nth i isR false) || negb (Qeq_bool (ic_up c) M)))
          (seq 0 (nrows P)).

(* QSexact_verify without prestep = QSexact_basis_dualstatus *)
Definition exact_verify_noprestep := basis_dualstatus.
Definition lib_verify_noprestep := lib_dualstatus.
