(* The sparse solve variants of factor.c (ILLfactor_ftranl3, _btranl3, _ftranu3, _btranu3) do not walk the factor in rank
   order: a first pass (xxx_delay2) counts for every node reachable from the non-zeros of the right-hand side the number of
   reachable predecessors, a second pass (xxx_process2) handles a node when its count has dropped to zero (depth first).
   The nodes handled are the reachable ones, the order is a topological order of the dependency graph of the triangular
   factor, and nodes that are not reachable hold zero and are skipped.

   This file proves that this is all that matters: ANY evaluation order that respects the dependency order and contains every
   node that is not inert gives the result of the dense loop (which [check_repr_sound], [lu_factor_represents] and
   [update_preserves] are about).
     - L passes (eta form, [axpy_step]): [tri M ord] says that a node handled later does not write into the entry an earlier
       node has read.  [ftranl_order_irrelevant] / [btranl_order_irrelevant]: a sub-list of the eta file in any order with
       [tri], closed in the sense that the skipped etas read zero and are not written to by the handled ones, gives the same
       vector as the whole file in any order with [tri] - in particular as the rank order of ILLfactor_ftranl / _btranl2.
     - U passes ([u_step]): [triP cols [] pjs] (FTUpdateSound.v) is the same condition for the U solves;
       [upass_order_irrelevant]: any order with [triP] whose skipped rows have zero input and no entry in a handled column
       gives THE solution of the triangular system, i.e. the result of ILLfactor_ftranu / _btranu.
   [triPb] is the executable form of [triP]; checks/C13.py runs it on the order in which mpq_ILLfactor_ftran lists its result
   (the order in which ftranu3 / ftranu handled the columns with a non-zero value) against the dumped U.             *)
From QSX Require Export Fac.LUFactorSound.
Require Import Lia.
Local Open Scope Q_scope.

Section TriUnique.
  Variable n : nat.
  Variable M : nat -> nat -> Q.

  (* forward system  z + M z = 0  restricted to the nodes of ord: only z = 0 *)
  Lemma tri_fwd_zero : forall ord, tri M ord -> NoDup ord -> (forall b, In b ord -> (b < n)%nat) ->
    forall z : nat -> Q, (forall i, (i < n)%nat -> z i + sumn n (fun b => ind ord b * (M i b * z b)) == 0) ->
    forall b, In b ord -> z b == 0.
  Proof.
    induction ord as [|r t IH]; intros T ND LT z E b Hb; [destruct Hb|].
    cbn [tri] in T. destruct T as [T0 T]. inversion ND as [|? ? NI ND']; subst.
    assert (Hr : (r < n)%nat) by (apply LT; left; reflexivity).
    assert (Zr : z r == 0).
    { rewrite <- (E r Hr). rewrite sumn_0; [ring|]. intros a Ha. unfold ind. destruct (memb a (r :: t)) eqn:Ma; [|ring].
      apply memb_In in Ma. rewrite (T0 a Ma). ring. }
    destruct Hb as [<-|Hb]; [exact Zr|].
    apply (IH T ND' (fun a Ha => LT a (or_intror Ha)) z); [|exact Hb].
    intros i Hi. rewrite <- (E i Hi). rewrite (sum_ind_cons n r t (fun a => M i a * z a) Hr NI). rewrite Zr. ring.
  Qed.

  (* backward system  z + z M = 0 *)
  Lemma tri_bwd_zero : forall ord, tri M ord -> NoDup ord -> (forall b, In b ord -> (b < n)%nat) ->
    forall z : nat -> Q, (forall i, In i ord -> z i + sumn n (fun a => ind ord a * (z a * M a i)) == 0) ->
    forall b, In b ord -> z b == 0.
  Proof.
    induction ord as [|r t IH]; intros T ND LT z E b Hb; [destruct Hb|].
    cbn [tri] in T. destruct T as [T0 T]. inversion ND as [|? ? NI ND']; subst.
    assert (Hr : (r < n)%nat) by (apply LT; left; reflexivity).
    assert (Zt : forall a, In a t -> z a == 0).
    { apply (IH T ND' (fun a Ha => LT a (or_intror Ha)) z). intros i Hi.
      rewrite <- (E i (or_intror Hi)). rewrite (sum_ind_cons n r t (fun a => z a * M a i) Hr NI).
      rewrite (T0 i (or_intror Hi)). ring. }
    destruct Hb as [<-|Hb]; [|apply Zt; exact Hb].
    rewrite <- (E r (or_introl eq_refl)). rewrite (sum_ind_cons n r t (fun a => z a * M a r) Hr NI).
    rewrite (T0 r (or_introl eq_refl)). rewrite sumn_0; [ring|]. intros a Ha. unfold ind. destruct (memb a t) eqn:Ma; [|ring].
    apply memb_In in Ma. rewrite (Zt a Ma). ring.
  Qed.

  Lemma colform_lt lc : colform n M lc -> forall b, In b (map fst lc) -> (b < n)%nat.
  Proof. intros CF b Hb. apply in_map_iff in Hb. destruct Hb as (e & <- & He). exact (proj1 (CF e He)). Qed.
  Lemma rowform_lt lr : rowform n M lr -> forall b, In b (map fst lr) -> (b < n)%nat.
  Proof. intros RF b Hb. apply in_map_iff in Hb. destruct Hb as (e & <- & He). exact (proj1 (RF e He)). Qed.

  (* the column pass computes THE solution of  x' + M x' = x  (M restricted to the etas of the file) *)
  Theorem ftranl_unique lc x (x' : nat -> Q) : tri M (map fst lc) -> NoDup (map fst lc) -> colform n M lc ->
    (forall i, (i < n)%nat -> x' i + sumn n (fun b => ind (map fst lc) b * (M i b * x' b)) == qnth x i) ->
    forall i, (i < n)%nat -> x' i == qnth (fold_left (axpy_step n) lc x) i.
  Proof.
    intros T ND CF E.
    set (z := fun i => x' i - qnth (fold_left (axpy_step n) lc x) i).
    assert (EZ : forall i, (i < n)%nat -> z i + sumn n (fun b => ind (map fst lc) b * (M i b * z b)) == 0).
    { intros i Hi. pose proof (ftranl_spec n M lc x T ND CF i Hi) as F. pose proof (E i Hi) as E1. unfold z.
      transitivity ((x' i + sumn n (fun b => ind (map fst lc) b * (M i b * x' b))) -
                    (qnth (fold_left (axpy_step n) lc x) i +
                     sumn n (fun b => ind (map fst lc) b * (M i b * qnth (fold_left (axpy_step n) lc x) b)))); [|rewrite E1, F; ring].
      assert (S : sumn n (fun b => ind (map fst lc) b * (M i b * (x' b - qnth (fold_left (axpy_step n) lc x) b))) ==
                  sumn n (fun b => ind (map fst lc) b * (M i b * x' b)) -
                  sumn n (fun b => ind (map fst lc) b * (M i b * qnth (fold_left (axpy_step n) lc x) b))).
      { rewrite <- sumn_sub. apply sumn_ext. intros b _. ring. }
      rewrite S. ring. }
    pose proof (tri_fwd_zero (map fst lc) T ND (colform_lt lc CF) z EZ) as Z.
    intros i Hi. assert (Zi : z i == 0).
    { rewrite <- (EZ i Hi). rewrite sumn_0; [ring|]. intros b Hb. unfold ind. destruct (memb b (map fst lc)) eqn:Mb; [|ring].
      apply memb_In in Mb. rewrite (Z b Mb). ring. }
    unfold z in Zi. lra.
  Qed.

  (* ILLfactor_ftranl3 vs ILLfactor_ftranl: lc2 = the etas handled, in the order handled; lc1 = the whole file in rank order *)
  Theorem ftranl_order_irrelevant lc1 lc2 x :
    tri M (map fst lc1) -> NoDup (map fst lc1) -> colform n M lc1 ->
    tri M (map fst lc2) -> NoDup (map fst lc2) -> colform n M lc2 ->
    incl (map fst lc2) (map fst lc1) ->
    (forall b, In b (map fst lc1) -> ~ In b (map fst lc2) ->
       qnth x b == 0 /\ forall b', In b' (map fst lc2) -> M b b' == 0) ->
    forall i, (i < n)%nat -> qnth (fold_left (axpy_step n) lc2 x) i == qnth (fold_left (axpy_step n) lc1 x) i.
  Proof.
    intros T1 ND1 CF1 T2 ND2 CF2 INC SK.
    set (x2 := fun i => qnth (fold_left (axpy_step n) lc2 x) i).
    apply (ftranl_unique lc1 x x2 T1 ND1 CF1). intros i Hi.
    pose proof (ftranl_spec n M lc2 x T2 ND2 CF2 i Hi) as F. fold (x2 i) in F. rewrite <- F.
    apply Qplus_comp; [reflexivity|]. apply sumn_ext. intros b Hb. unfold ind.
    destruct (memb b (map fst lc2)) eqn:M2.
    - apply memb_In in M2. rewrite (proj2 (memb_In b (map fst lc1)) (INC b M2)). reflexivity.
    - destruct (memb b (map fst lc1)) eqn:M1; [|reflexivity].
      apply memb_In in M1. apply memb_false in M2. destruct (SK b M1 M2) as [X0 NF].
      assert (Z : x2 b == 0).
      { pose proof (ftranl_spec n M lc2 x T2 ND2 CF2 b Hb) as Fb. fold (x2 b) in Fb. rewrite X0 in Fb. rewrite <- Fb.
        rewrite sumn_0; [ring|]. intros b' _. unfold ind. destruct (memb b' (map fst lc2)) eqn:Mb'; [|ring].
        apply memb_In in Mb'. rewrite (NF b' Mb'). ring. }
      fold (x2 b). rewrite Z. ring.
  Qed.

  (* the row pass computes THE solution of  y' + y' M = y *)
  Theorem btranl_unique lr y (y' : nat -> Q) : tri M (map fst lr) -> NoDup (map fst lr) -> rowform n M lr ->
    (forall i, (i < n)%nat -> y' i + sumn n (fun a => ind (map fst lr) a * (y' a * M a i)) == qnth y i) ->
    forall i, (i < n)%nat -> y' i == qnth (fold_left (axpy_step n) (rev lr) y) i.
  Proof.
    intros T ND RF E.
    set (z := fun i => y' i - qnth (fold_left (axpy_step n) (rev lr) y) i).
    assert (EZ : forall i, (i < n)%nat -> z i + sumn n (fun a => ind (map fst lr) a * (z a * M a i)) == 0).
    { intros i Hi. pose proof (btranl_spec n M lr y T ND RF i Hi) as F. pose proof (E i Hi) as E1. unfold z.
      transitivity ((y' i + sumn n (fun a => ind (map fst lr) a * (y' a * M a i))) -
                    (qnth (fold_left (axpy_step n) (rev lr) y) i +
                     sumn n (fun a => ind (map fst lr) a * (qnth (fold_left (axpy_step n) (rev lr) y) a * M a i)))); [|rewrite E1, F; ring].
      assert (S : sumn n (fun a => ind (map fst lr) a * ((y' a - qnth (fold_left (axpy_step n) (rev lr) y) a) * M a i)) ==
                  sumn n (fun a => ind (map fst lr) a * (y' a * M a i)) -
                  sumn n (fun a => ind (map fst lr) a * (qnth (fold_left (axpy_step n) (rev lr) y) a * M a i))).
      { rewrite <- sumn_sub. apply sumn_ext. intros b _. ring. }
      rewrite S. ring. }
    pose proof (rowform_lt lr RF) as LT.
    pose proof (tri_bwd_zero (map fst lr) T ND LT z (fun i Hi => EZ i (LT i Hi))) as Z.
    intros i Hi. assert (Zi : z i == 0).
    { rewrite <- (EZ i Hi). rewrite sumn_0; [ring|]. intros b Hb. unfold ind. destruct (memb b (map fst lr)) eqn:Mb; [|ring].
      apply memb_In in Mb. rewrite (Z b Mb). ring. }
    unfold z in Zi. lra.
  Qed.

  (* ILLfactor_btranl3 vs ILLfactor_btranl2: lr2 = the rows handled, LAST handled first in the list (the pass walks rev lr2);
     a skipped row holds zero and no handled row writes into it (M a' a = 0: row a' has no entry for the pivot row a) *)
  Theorem btranl_order_irrelevant lr1 lr2 y :
    tri M (map fst lr1) -> NoDup (map fst lr1) -> rowform n M lr1 ->
    tri M (map fst lr2) -> NoDup (map fst lr2) -> rowform n M lr2 ->
    incl (map fst lr2) (map fst lr1) ->
    (forall a, In a (map fst lr1) -> ~ In a (map fst lr2) ->
       qnth y a == 0 /\ forall a', In a' (map fst lr2) -> M a' a == 0) ->
    forall i, (i < n)%nat -> qnth (fold_left (axpy_step n) (rev lr2) y) i == qnth (fold_left (axpy_step n) (rev lr1) y) i.
  Proof.
    intros T1 ND1 RF1 T2 ND2 RF2 INC SK.
    set (y2 := fun i => qnth (fold_left (axpy_step n) (rev lr2) y) i).
    apply (btranl_unique lr1 y y2 T1 ND1 RF1). intros i Hi.
    pose proof (btranl_spec n M lr2 y T2 ND2 RF2 i Hi) as F. fold (y2 i) in F. rewrite <- F.
    apply Qplus_comp; [reflexivity|]. apply sumn_ext. intros a Ha. unfold ind.
    destruct (memb a (map fst lr2)) eqn:M2.
    - apply memb_In in M2. rewrite (proj2 (memb_In a (map fst lr1)) (INC a M2)). reflexivity.
    - destruct (memb a (map fst lr1)) eqn:M1; [|reflexivity].
      apply memb_In in M1. apply memb_false in M2. destruct (SK a M1 M2) as [Y0 NF].
      assert (Z : y2 a == 0).
      { pose proof (btranl_spec n M lr2 y T2 ND2 RF2 a Ha) as Fa. fold (y2 a) in Fa. rewrite Y0 in Fa. rewrite <- Fa.
        rewrite sumn_0; [ring|]. intros a' _. unfold ind. destruct (memb a' (map fst lr2)) eqn:Ma'; [|ring].
        apply memb_In in Ma'. rewrite (NF a' Ma'). ring. }
      fold (y2 a). rewrite Z. ring.
  Qed.
End TriUnique.

(* ================================================================================================= the U passes *)
(* executable form of [triP]: every line starts with its pivot (not zero) and vanishes on the pivots handled before *)
Fixpoint triPb (cols : list sparse) (done : list nat) (pjs : list (nat * nat)) : bool :=
  match pjs with
  | [] => true
  | pj :: t =>
    match nth (snd pj) cols [] with
    | (p, piv) :: rest =>
      Nat.eqb p (fst pj) && negb (Qeq_bool piv 0) && forallb (fun d => Qeq_bool (coefAt rest d) 0) (fst pj :: done) &&
      triPb cols (fst pj :: done) t
    | [] => false
    end
  end.

Lemma triPb_spec cols : forall pjs done, triPb cols done pjs = true <-> triP cols done pjs.
Proof.
  induction pjs as [|pj t IH]; intros done; cbn [triPb triP]; [tauto|].
  destruct (nth (snd pj) cols []) as [|[p piv] rest] eqn:E.
  - split; [discriminate|]. intros [(piv & rest & E' & _) _]. discriminate.
  - rewrite !andb_true_iff, IH, Nat.eqb_eq, negb_true_iff, forallb_forall. split.
    + intros [[[P V] Z] T]. subst p. split; [|exact T]. exists piv, rest. split; [reflexivity|]. split.
      * apply Qeq_bool_false_neq. exact V.
      * intros d Hd. apply Qeq_bool_iff. apply Z. exact Hd.
    + intros [(piv' & rest' & E' & V & Z) T]. inversion E'; subst. repeat split; try assumption.
      * destruct (Qeq_bool piv' 0) eqn:Q; [|reflexivity]. exfalso. apply V. apply Qeq_bool_iff. exact Q.
      * intros d Hd. apply Qeq_bool_iff. apply Z. exact Hd.
Qed.

(* the order in which a solve lists its result, as pairs (pivot row of the column, column) *)
Definition listed_pjs (cols : list sparse) (order : list nat) : list (nat * nat) :=
  map (fun j => (match nth j cols [] with (p, _) :: _ => p | [] => 0%nat end, j)) order.
Definition listed_order_ok (cols : list sparse) (order : list nat) : bool := triPb cols [] (listed_pjs cols order).

Section UPass.
  Variable n : nat.
  Variable cols : list sparse.
  Let Um (i l : nat) : Q := coefAt (nth l cols []) i.

  (* the result vector has entries only for the lines handled *)
  Lemma ufold_support : forall pjs (a : vec) (acc : sparse) l,
    (forall pj, In pj pjs -> (fst pj < n)%nat) -> ~ In l (map snd pjs) ->
    coefAt (snd (fold_left (u_step n cols) pjs (a, acc))) l == coefAt acc l.
  Proof.
    induction pjs as [|[p j] pjs IH]; intros a acc l W NI; [reflexivity|]. cbn [fold_left].
    assert (Hp : (p < n)%nat) by (apply (W (p, j)); left; reflexivity).
    pose proof (u_step_spec n cols a acc p j Hp) as S. cbv zeta in S.
    destruct (u_step n cols (a, acc) (p, j)) as [a1 acc1] eqn:E1. cbn [fst snd] in S.
    rewrite IH; [|intros pj H; apply W; right; exact H|intros H; apply NI; right; exact H].
    assert (NE : j <> l) by (intros ->; apply NI; left; reflexivity).
    destruct (nth j cols []) as [|[pr piv] rest]; destruct S as [_ S]; rewrite (S l); [reflexivity|].
    destruct (Nat.eqb_spec j l); [congruence|ring].
  Qed.

  (* ANY order with [triP] whose skipped rows have zero input and no entry in a handled line solves the triangular system *)
  Theorem upass_solves pjs (v : vec) : triP cols [] pjs ->
    (forall pj, In pj pjs -> (fst pj < n)%nat /\ (snd pj < n)%nat) ->
    (forall i, (i < n)%nat -> ~ In i (map fst pjs) -> qnth v i == 0 /\ forall pj, In pj pjs -> Um i (snd pj) == 0) ->
    forall i, (i < n)%nat ->
      sumn n (fun l => Um i l * qnth (dense n (snd (fold_left (u_step n cols) pjs (v, [])))) l) == qnth v i.
  Proof.
    intros T W CL i Hi.
    pose proof (ufold_spec n cols pjs [] v [] T W (fun d H => match H with end)) as S. cbv zeta in S. destruct S as [R Z].
    set (st := fold_left (u_step n cols) pjs (v, [])) in *.
    assert (D : sumn n (fun l => Um i l * qnth (dense n (snd st)) l) == sumn n (fun l => coefAt (snd st) l * Um i l)).
    { apply sumn_ext. intros l Hl. unfold dense. rewrite qnth_mkvec by exact Hl. rewrite Qred_correct. ring. }
    rewrite D. specialize (R i Hi).
    assert (E0 : sumn n (fun l => coefAt (@nil (nat * Q)) l * coefAt (nth l cols []) i) == 0) by (apply sumn_0; intros; simpl; ring).
    rewrite E0 in R. subst st.
    destruct (in_dec Nat.eq_dec i (map fst pjs)) as [Hin|Hout].
    - rewrite (Z i (or_intror Hin)) in R.
      etransitivity; [|etransitivity; [exact R|ring]]. unfold Um. symmetry. apply Qplus_0_l.
    - destruct (CL i Hi Hout) as [V0 NF]. rewrite V0. apply sumn_0. intros l Hl.
      destruct (in_dec Nat.eq_dec l (map snd pjs)) as [Lin|Lout].
      + apply in_map_iff in Lin. destruct Lin as (pj & <- & Hpj). rewrite (NF pj Hpj). ring.
      + rewrite (ufold_support pjs v [] l (fun pj H => proj1 (W pj H)) Lout). simpl. ring.
  Qed.
End UPass.

(* ILLfactor_ftranu3 vs ILLfactor_ftranu: pjs = (pivot row, column) of the columns handled, in the order handled *)
Theorem ftranu_order_irrelevant r pjs v : struct_ok r = true -> triP (f_uc r) [] pjs ->
  (forall pj, In pj pjs -> (fst pj < f_dim r)%nat /\ (snd pj < f_dim r)%nat) ->
  (forall i, (i < f_dim r)%nat -> ~ In i (map fst pjs) -> qnth v i == 0 /\ forall pj, In pj pjs -> Ucf r i (snd pj) == 0) ->
  forall j, (j < f_dim r)%nat ->
    qnth (dense (f_dim r) (snd (fold_left (u_step (f_dim r) (f_uc r)) pjs (v, [])))) j == qnth (usolve r v) j.
Proof.
  intros SO T W CL. apply struct_ok_facts in SO. set (n := f_dim r) in *.
  set (x := dense n (snd (fold_left (u_step n (f_uc r)) pjs (v, [])))).
  assert (RK : right_kernel_trivial n (Ucf r)).
  { apply (left_inverse_right_kernel n (fun j i => qnth (usolve_t r (unitv n j)) i)). intros j k Hj Hk. unfold fmul, fid.
    etransitivity; [exact (usolve_t_spec_c r SO (unitv n j) k Hk)|]. rewrite qnth_unitv by exact Hk. rewrite (Nat.eqb_sym k j). reflexivity. }
  intros j Hj.
  assert (E : qnth x j - qnth (usolve r v) j == 0).
  { apply (RK (fun j => qnth x j - qnth (usolve r v) j)); [|exact Hj]. intros i Hi.
    transitivity (sumn n (fun l => Ucf r i l * qnth x l) - sumn n (fun l => Ucf r i l * qnth (usolve r v) l)).
    - rewrite <- sumn_sub. apply sumn_ext. intros l _. ring.
    - assert (A1 : sumn n (fun l => Ucf r i l * qnth x l) == qnth v i) by exact (upass_solves n (f_uc r) pjs v T W CL i Hi).
      assert (A2 : sumn n (fun l => Ucf r i l * qnth (usolve r v) l) == qnth v i) by exact (usolve_spec r SO v i Hi).
      rewrite A1, A2. ring. }
  lra.
Qed.

(* ILLfactor_btranu3 vs ILLfactor_btranu: pjs = (pivot column, row) of the rows handled, in the order handled *)
Theorem btranu_order_irrelevant r pjs c : struct_ok r = true -> triP (f_ur r) [] pjs ->
  (forall pj, In pj pjs -> (fst pj < f_dim r)%nat /\ (snd pj < f_dim r)%nat) ->
  (forall j, (j < f_dim r)%nat -> ~ In j (map fst pjs) -> qnth c j == 0 /\ forall pj, In pj pjs -> Urf r (snd pj) j == 0) ->
  forall i, (i < f_dim r)%nat ->
    qnth (dense (f_dim r) (snd (fold_left (u_step (f_dim r) (f_ur r)) pjs (c, [])))) i == qnth (usolve_t r c) i.
Proof.
  intros SO T W CL. apply struct_ok_facts in SO. set (n := f_dim r) in *.
  set (y := dense n (snd (fold_left (u_step n (f_ur r)) pjs (c, [])))).
  assert (LK : left_kernel_trivial n (Urf r)).
  { apply (right_inverse_left_kernel n (Urf r) (fun j k => qnth (usolve r (unitv n k)) j)). intros i k Hi Hk. unfold fmul, fid.
    transitivity (sumn n (fun j => Ucf r i j * qnth (usolve r (unitv n k)) j)).
    - apply sumn_ext. intros j Hj. rewrite (sf_same r SO i j Hi Hj). reflexivity.
    - etransitivity; [exact (usolve_spec r SO (unitv n k) i Hi)|]. rewrite qnth_unitv by exact Hi. reflexivity. }
  intros i Hi.
  assert (E : qnth y i - qnth (usolve_t r c) i == 0).
  { apply (LK (fun i => qnth y i - qnth (usolve_t r c) i)); [|exact Hi]. intros j Hj.
    transitivity (sumn n (fun l => qnth y l * Urf r l j) - sumn n (fun l => qnth (usolve_t r c) l * Urf r l j)).
    - rewrite <- sumn_sub. apply sumn_ext. intros l _. ring.
    - assert (A1 : sumn n (fun l => coefAt (nth l (f_ur r) []) j * qnth y l) == qnth c j) by exact (upass_solves n (f_ur r) pjs c T W CL j Hj).
      assert (A2 : sumn n (fun l => qnth (usolve_t r c) l * Urf r l j) == qnth c j) by exact (usolve_t_spec r SO c j Hj).
      assert (S : sumn n (fun l => qnth y l * Urf r l j) == sumn n (fun l => coefAt (nth l (f_ur r) []) j * qnth y l)).
      { apply sumn_ext. intros l _. unfold Urf. ring. }
      rewrite S, A1, A2. ring. }
  lra.
Qed.

(* the dense loops themselves are instances: rank order, nothing skipped *)
Theorem listed_order_ok_spec cols order : listed_order_ok cols order = true <-> triP cols [] (listed_pjs cols order).
Proof. apply triPb_spec. Qed.
