(* The loader normalisation of ILLbasis_load (repair basis_load_normalise) and the verdict functions of the library as
   compositions with it: theorems about [loaded_basis], [lib_optimalstatus], [lib_dualstatus] (Fac/Basis.v). *)
From QSX Require Export Fac.BasisSound.
Local Open Scope Q_scope.

(* ---- the loader normalisation (ILLbasis_load after the repair basis_load_normalise) -------------------------- *)
Lemma norm_stat_basic M c s : is_basic (norm_stat M c s) = is_basic s.
Proof. unfold norm_stat. destruct s; try reflexivity; destruct (Qeq_bool (ic_lo c) (- M)), (Qeq_bool (ic_up c) M); reflexivity. Qed.

Lemma norm_stat_ok M c s : cstat_ok (norm_stat M c s) = cstat_ok s.
Proof. unfold norm_stat. destruct s; try reflexivity; destruct (Qeq_bool (ic_lo c) (- M)), (Qeq_bool (ic_up c) M); reflexivity. Qed.

Lemma norm_stat_idem M c s : norm_stat M c (norm_stat M c s) = norm_stat M c s.
Proof.
  unfold norm_stat. destruct s; try reflexivity;
    destruct (Qeq_bool (ic_lo c) (- M)) eqn:E1, (Qeq_bool (ic_up c) M) eqn:E2; simpl; rewrite ?E1, ?E2; reflexivity.
Qed.

(* a status that names a bound the column has (free: the column has none) is left alone *)
Definition stat_has_bound (M : Q) (c : icol) (s : bstat) : bool :=
  match s with
  | BLower => negb (Qeq_bool (ic_lo c) (- M))
  | BUpper => negb (Qeq_bool (ic_up c) M)
  | BFree => Qeq_bool (ic_lo c) (- M) && Qeq_bool (ic_up c) M
  | _ => true
  end.

Lemma norm_stat_fix M c s : norm_stat M c s = s <-> stat_has_bound M c s = true.
Proof.
  unfold norm_stat, stat_has_bound. destruct s; try (split; reflexivity);
    destruct (Qeq_bool (ic_lo c) (- M)), (Qeq_bool (ic_up c) M); simpl; split; intros H; try reflexivity; discriminate.
Qed.

Lemma norm_stat_has_bound M c s : stat_has_bound M c (norm_stat M c s) = true.
Proof. apply norm_stat_fix. apply norm_stat_idem. Qed.

Lemma norm_from_length M P l : forall j, length (norm_from M P j l) = length l.
Proof. induction l as [|s l IH]; intros j; simpl; [reflexivity|]. rewrite IH. reflexivity. Qed.

Lemma norm_from_nth M P l : forall j k,
  nth k (norm_from M P j l) BOther = norm_stat M (col P (j + k)) (nth k l BOther).
Proof.
  induction l as [|s l IH]; intros j k; simpl.
  - destruct k; reflexivity.
  - destruct k as [|k]; [rewrite Nat.add_0_r; reflexivity|]. rewrite IH. rewrite Nat.add_succ_r. reflexivity.
Qed.

Lemma norm_from_basic M P l : forall j, length (filter is_basic (norm_from M P j l)) = length (filter is_basic l).
Proof.
  induction l as [|s l IH]; intros j; simpl; [reflexivity|]. rewrite norm_stat_basic.
  destruct (is_basic s); simpl; rewrite IH; reflexivity.
Qed.

Lemma norm_from_ok M P l : forall j, forallb cstat_ok (norm_from M P j l) = forallb cstat_ok l.
Proof. induction l as [|s l IH]; intros j; simpl; [reflexivity|]. rewrite norm_stat_ok, IH. reflexivity. Qed.

Lemma load_ok_loaded M P ns isR B : load_ok P ns isR (loaded_basis M P B) = load_ok P ns isR B.
Proof.
  unfold load_ok, loaded_basis, count_basic. cbn [cstat rstat].
  rewrite norm_from_length, norm_from_basic, norm_from_ok. reflexivity.
Qed.

Lemma stat_loaded M P B j :
  stat (loaded_basis M P B) j = if Nat.ltb j (length (cstat B)) then norm_stat M (col P j) (stat B j) else stat B j.
Proof.
  unfold stat, vstat, loaded_basis. cbn [cstat rstat].
  destruct (Nat.ltb_spec j (length (cstat B))) as [H|H].
  - rewrite app_nth1 by (rewrite norm_from_length; exact H). rewrite app_nth1 by exact H.
    rewrite norm_from_nth. reflexivity.
  - rewrite app_nth2 by (rewrite norm_from_length; exact H). rewrite app_nth2 by exact H.
    rewrite norm_from_length. reflexivity.
Qed.

Lemma basicb_loaded M P B j : basicb (loaded_basis M P B) j = basicb B j.
Proof.
  unfold basicb. rewrite stat_loaded. destruct (Nat.ltb j (length (cstat B))); [apply norm_stat_basic|reflexivity].
Qed.

Lemma loaded_basis_idem M P B : loaded_basis M P (loaded_basis M P B) = loaded_basis M P B.
Proof.
  unfold loaded_basis. cbn [cstat rstat]. f_equal.
  apply (nth_ext _ _ BOther BOther); [rewrite !norm_from_length; reflexivity|].
  intros k _. rewrite !norm_from_nth. apply norm_stat_idem.
Qed.

(* a basis whose non-basic structural statuses name bounds the columns have is loaded as it is *)
Lemma loaded_basis_id M P B :
  (forall j, (j < length (cstat B))%nat -> stat_has_bound M (col P j) (nth j (cstat B) BOther) = true) ->
  loaded_basis M P B = B.
Proof.
  intros H. destruct B as [cs rs]. unfold loaded_basis. cbn [cstat rstat] in *. f_equal.
  apply (nth_ext _ _ BOther BOther); [apply norm_from_length|].
  intros k Hk. rewrite norm_from_length in Hk. rewrite norm_from_nth. apply norm_stat_fix. apply H. exact Hk.
Qed.

(* after loading, every non-basic status names a bound that exists: the hypothesis nonbasic_ok of
   basis_optimal_is_optimum reduces to a property of the LP *)
Lemma nonbasic_ok_loaded M P ns isR B : load_ok P ns isR B = true -> lp_bounds_ok M P ns isR = true ->
  nonbasic_ok M P (loaded_basis M P B) = true.
Proof.
  intros L K. unfold nonbasic_ok. apply forallb_forall. intros j Hj. apply nbl_spec in Hj. destruct Hj as [Hj Hb].
  unfold load_ok in L. repeat (apply andb_true_iff in L; destruct L as [L ?]).
  repeat match goal with H : Nat.eqb _ _ = true |- _ => apply Nat.eqb_eq in H end.
  unfold lp_bounds_ok in K. apply andb_true_iff in K. destruct K as [K1 K2].
  rewrite forallb_forall in K1, K2.
  assert (X : Qeq_bool (ic_lo (col P j)) (- M) || Qeq_bool (ic_up (col P j)) M || Qle_bool (ic_lo (col P j)) (ic_up (col P j)) = true).
  { apply K1. unfold col. apply nth_In. exact Hj. }
  unfold basicb in Hb. unfold nb_ok1. rewrite stat_loaded in *.
  destruct (Nat.ltb_spec j (length (cstat B))) as [Hs|Hs].
  - assert (Hok : cstat_ok (stat B j) = true).
    { match goal with H : forallb cstat_ok (cstat B) = true |- _ => rewrite forallb_forall in H; apply H end.
      unfold stat, vstat. rewrite app_nth1 by exact Hs. apply nth_In. exact Hs. }
    clear - X Hb Hok. revert X Hb Hok. unfold norm_stat. generalize (stat B j). intros s.
    destruct s, (Qeq_bool (ic_lo (col P j)) (- M)), (Qeq_bool (ic_up (col P j)) M), (Qle_bool (ic_lo (col P j)) (ic_up (col P j)));
      cbn; intros; try reflexivity; try discriminate.
  - (* a logical column: j = ns + i *)
    set (i := (j - ns)%nat).
    assert (Hi : (i < nrows P)%nat) by (unfold i, bn, bm in *; lia).
    assert (Ej : j = (ns + i)%nat) by (unfold i; lia).
    assert (ES : stat B j = nth i (rstat B) BOther).
    { unfold stat, vstat. rewrite app_nth2 by exact Hs. f_equal. unfold i. lia. }
    pose proof (K2 i ltac:(apply in_seq; lia)) as Ki. cbv zeta in Ki. rewrite <- Ej in Ki.
    apply andb_true_iff in Ki. destruct Ki as [Ki1 Ki2].
    match goal with H : forallb2 rstat_ok isR (rstat B) = true |- _ =>
      pose proof (forallb2_nth _ _ _ false BOther i H ltac:(unfold bm in *; lia)) as RO end.
    rewrite <- ES in RO. unfold rstat_ok in RO.
    clear - X Hb Ki1 Ki2 RO. revert X Hb Ki1 Ki2 RO. generalize (stat B j). generalize (nth i isR false). intros rr s.
    destruct s, rr, (Qeq_bool (ic_lo (col P j)) (- M)), (Qeq_bool (ic_up (col P j)) M), (Qle_bool (ic_lo (col P j)) (ic_up (col P j)));
      cbn; intros; try reflexivity; try discriminate.
Qed.

(* the verdict functions of the library, in terms of the basis as loaded *)
Theorem lib_optimalstatus_iff M P ns isR B : wf_ilp P = true -> forall x pi,
  load_ok P ns isR B = true ->
  nonsingular (bm P) (Bmat P (loaded_basis M P B)) ->
  is_solution (bm P) (Bmat P (loaded_basis M P B)) x (rhsN P (loaded_basis M P B)) ->
  is_left_solution (bm P) (Bmat P (loaded_basis M P B)) pi (cB P (loaded_basis M P B)) ->
  (lib_optimalstatus M P ns isR B = VRes true 0 <->
     primal_feasible_sem M P (loaded_basis M P B) (qnth x) /\ dual_feasible_sem M P ns (loaded_basis M P B) (qnth pi)) /\
  (lib_optimalstatus M P ns isR B = VRes false 0 <->
     ~ (primal_feasible_sem M P (loaded_basis M P B) (qnth x) /\ dual_feasible_sem M P ns (loaded_basis M P B) (qnth pi))).
Proof.
  intros WF x pi L. rewrite <- (load_ok_loaded M) in L. unfold lib_optimalstatus.
  exact (optimalstatus_iff M P ns isR (loaded_basis M P B) WF x pi L).
Qed.

Theorem lib_dualstatus_iff M P ns isR B : wf_ilp P = true -> forall g pi,
  load_ok P ns isR B = true -> nonsingular (bm P) (Bmat P (loaded_basis M P B)) -> g <> PRIMAL_UNBOUNDED ->
  is_left_solution (bm P) (Bmat P (loaded_basis M P B)) pi (cB P (loaded_basis M P B)) ->
  (dual_feasible_sem M P ns (loaded_basis M P B) (qnth pi) ->
     exists d, lib_dualstatus M P ns isR B g = VRes true d /\ d == dual_objective_sem P (loaded_basis M P B) (qnth pi)) /\
  (~ dual_feasible_sem M P ns (loaded_basis M P B) (qnth pi) -> lib_dualstatus M P ns isR B g = VRes false 0).
Proof.
  intros WF g pi L. rewrite <- (load_ok_loaded M) in L. unfold lib_dualstatus.
  exact (dualstatus_iff M P ns isR (loaded_basis M P B) WF g pi L).
Qed.

Theorem lib_dualstatus_value M P ns isR B : wf_ilp P = true -> forall g d,
  load_ok P ns isR B = true -> lib_dualstatus M P ns isR B g = VRes true d ->
  exists pi, is_left_solution (bm P) (Bmat P (loaded_basis M P B)) pi (cB P (loaded_basis M P B)) /\
             dual_feasible_sem M P ns (loaded_basis M P B) (qnth pi) /\
             d == dual_objective_sem P (loaded_basis M P B) (qnth pi).
Proof.
  intros WF g d L. rewrite <- (load_ok_loaded M) in L. unfold lib_dualstatus.
  exact (dualstatus_value M P ns isR (loaded_basis M P B) WF g d L).
Qed.

(* verdict 'optimal' of the library -> optimum of the LP: no hypothesis on the basis is left, only on the LP *)
Theorem lib_optimal_is_optimum M P ns isR B :
  wf_ilp P = true -> lp_bounds_ok M P ns isR = true -> lib_optimalstatus M P ns isR B = VRes true 0 ->
  exists xB pi,
    xB_of P (loaded_basis M P B) = Some xB /\ pi_of P (loaded_basis M P B) = Some pi /\
    check_kkt (inf_sentinel M) P (zfull P (loaded_basis M P B) xB) (yuser P pi)
              (objval_l (i_cols P) (zfull P (loaded_basis M P B) xB)) = true /\
    is_optimum (inf_sentinel M) P (qnth (zfull P (loaded_basis M P B) xB))
               (objval_l (i_cols P) (zfull P (loaded_basis M P B) xB)).
Proof.
  intros WF K V. unfold lib_optimalstatus in V.
  assert (L : load_ok P ns isR B = true).
  { rewrite <- (load_ok_loaded M). unfold basis_optimalstatus in V.
    destruct (load_ok P ns isR (loaded_basis M P B)); [reflexivity|discriminate]. }
  apply (basis_optimal_is_optimum M P ns isR (loaded_basis M P B) WF V).
  exact (nonbasic_ok_loaded M P ns isR B L K).
Qed.

Theorem lib_singular_verdict M P ns isR B : load_ok P ns isR B = true ->
  ~ nonsingular (bm P) (Bmat P (loaded_basis M P B)) ->
  lib_optimalstatus M P ns isR B = VSingular /\ forall g, lib_dualstatus M P ns isR B g = VSingular.
Proof.
  intros L. rewrite <- (load_ok_loaded M) in L. unfold lib_optimalstatus, lib_dualstatus.
  exact (singular_verdict M P ns isR (loaded_basis M P B) L).
Qed.

(* the normalisation changes no basic entry, hence neither the basis matrix nor the multipliers' system *)
Lemma bazl_loaded M P B : bazl P (loaded_basis M P B) = bazl P B.
Proof. unfold bazl. apply filter_ext. intros j. apply basicb_loaded. Qed.

Lemma Bmat_loaded M P B : Bmat P (loaded_basis M P B) = Bmat P B.
Proof. unfold Bmat, baz. rewrite bazl_loaded. reflexivity. Qed.

Lemma cB_loaded M P B : cB P (loaded_basis M P B) = cB P B.
Proof. unfold cB, baz. rewrite bazl_loaded. reflexivity. Qed.

(* the LP of the examples has no crossed bounds and library-style logicals; the example basis is loaded unchanged *)
Example ex_lp_bounds_ok : lp_bounds_ok 1000 exP 2 [false; false] = true.
Proof. vm_compute. reflexivity. Qed.
Example ex_lib_optimal : lib_optimalstatus 1000 exP 2 [false; false] exB = VRes true 0.
Proof. vm_compute. reflexivity. Qed.
(* x1 marked free although it has bounds [0, 3]: loaded as at-lower *)
Example ex_loaded :
  loaded_basis 1000 exP {| cstat := [BBasic; BFree]; rstat := [BBasic; BLower] |} =
  {| cstat := [BBasic; BLower]; rstat := [BBasic; BLower] |}.
Proof. vm_compute. reflexivity. Qed.
