(* Soundness of the representation-level model: every phase of ftran / btran is a linear map (the `!= 0` short cuts are
   semantically inert), hence a representation that reproduces the unit vectors solves every system exactly. *)
From QSX Require Export Fac.Factor.
Local Open Scope Q_scope.

Lemma qnth_vset n a i x k : (k < n)%nat -> qnth (vset n a i x) k = if Nat.eqb k i then x else qnth a k.
Proof. intros H. unfold vset. apply qnth_mkvec. exact H. Qed.

Lemma vset_length n a i x : length (vset n a i x) = n.
Proof. apply mkvec_length. Qed.

(* closed form of the inner loop *)
Lemma sub_scaled_spec n v ents : forall a k, (k < n)%nat ->
  qnth (sub_scaled n a v ents) k == qnth a k - v * coefAt ents k.
Proof.
  induction ents as [|[i c] ents IH]; intros a k Hk; simpl.
  - ring.
  - unfold sub_scaled in *. simpl. rewrite IH by exact Hk. rewrite qnth_vset by exact Hk.
    rewrite (Nat.eqb_sym k i). destruct (Nat.eqb_spec i k) as [->|Hne]; rarith; ring.
Qed.

Lemma sub_scaled_zero n ents a k : (k < n)%nat -> forall v, v == 0 -> qnth (sub_scaled n a v ents) k == qnth a k.
Proof. intros Hk v Hv. rewrite sub_scaled_spec by exact Hk. rewrite Hv. ring. Qed.

(* the short cut is inert *)
Lemma axpy_step_spec n a c ents k : (k < n)%nat ->
  qnth (axpy_step n a (c, ents)) k == qnth a k - qnth a c * coefAt ents k.
Proof.
  intros Hk. unfold axpy_step. cbn [fst snd]. destruct (Qeq_bool (qnth a c) 0) eqn:E.
  - apply Qeq_bool_iff in E. rewrite E. ring.
  - apply sub_scaled_spec. exact Hk.
Qed.

Lemma dot_step_spec n a r ents k : (k < n)%nat -> ind_lt n ents = true ->
  qnth (dot_step n a (r, ents)) k ==
  if Nat.eqb k r then qnth a r - sumn n (fun i => coefAt ents i * qnth a i) else qnth a k.
Proof.
  intros Hk W. unfold dot_step. cbn [fst snd]. rewrite qnth_vset by exact Hk.
  destruct (Nat.eqb k r); [|reflexivity]. rarith. rewrite (dot_sparse_sumn _ _ n W). reflexivity.
Qed.

(* ---- linear maps given by their values on the unit vectors ------------------------------------------ *)
Definition vlin (n : nat) (T : vec -> vec) : Prop :=
  forall a k, (k < n)%nat -> qnth (T a) k == sumn n (fun i => qnth a i * qnth (T (unitv n i)) k).

Definition plin (n : nat) (T : vec -> vec * sparse) : Prop :=
  vlin n (fun a => fst (T a)) /\
  forall a j, coefAt (snd (T a)) j == sumn n (fun i => qnth a i * coefAt (snd (T (unitv n i))) j).

Lemma vlin_id n : vlin n (fun a => mkvec n (qnth a)).
Proof.
  intros a k Hk. rewrite qnth_mkvec by exact Hk.
  transitivity (sumn n (fun i => qnth a i * (if Nat.eqb i k then 1 else 0))).
  - symmetry. apply (sumn_delta_r n k (qnth a)). exact Hk.
  - apply sumn_ext. intros i Hi. rewrite qnth_mkvec by exact Hk. rewrite qnth_unitv by exact Hk.
    rewrite (Nat.eqb_sym i k). reflexivity.
Qed.

Lemma vlin_axpy n T c ents : vlin n T -> (c < n)%nat -> vlin n (fun a => axpy_step n (T a) (c, ents)).
Proof.
  intros L Hc a k Hk. rewrite axpy_step_spec by exact Hk.
  rewrite (L a k Hk), (L a c Hc).
  transitivity (sumn n (fun i => qnth a i * qnth (T (unitv n i)) k - qnth a i * qnth (T (unitv n i)) c * coefAt ents k)).
  - rewrite sumn_sub. rewrite sumn_scale_r. reflexivity.
  - apply sumn_ext. intros i _. rewrite axpy_step_spec by exact Hk. ring.
Qed.

Lemma vlin_dot n T r ents : vlin n T -> (r < n)%nat -> ind_lt n ents = true -> vlin n (fun a => dot_step n (T a) (r, ents)).
Proof.
  intros L Hr W a k Hk. rewrite dot_step_spec by assumption.
  destruct (Nat.eqb k r) eqn:E.
  - rewrite (L a r Hr).
    transitivity (sumn n (fun i => qnth a i * (qnth (T (unitv n i)) r - sumn n (fun l => coefAt ents l * qnth (T (unitv n i)) l)))).
    + transitivity (sumn n (fun i => qnth a i * qnth (T (unitv n i)) r) -
                    sumn n (fun i => qnth a i * sumn n (fun l => coefAt ents l * qnth (T (unitv n i)) l))).
      * apply Qplus_comp; [reflexivity|]. apply Qopp_comp.
        transitivity (sumn n (fun l => sumn n (fun i => coefAt ents l * (qnth a i * qnth (T (unitv n i)) l)))).
        -- apply sumn_ext. intros l Hl. rewrite (L a l Hl). rewrite <- sumn_scale. reflexivity.
        -- rewrite sumn_swap. apply sumn_ext. intros i _. rewrite <- sumn_scale. apply sumn_ext. intros l _. ring.
      * rewrite <- sumn_sub. apply sumn_ext. intros i _. ring.
    + apply sumn_ext. intros i _. rewrite dot_step_spec by assumption. rewrite E. reflexivity.
  - rewrite (L a k Hk). apply sumn_ext. intros i _. rewrite dot_step_spec by assumption. rewrite E. reflexivity.
Qed.

Lemma vlin_fold_axpy n steps : forall T, vlin n T -> forallb (wf_eta n) steps = true ->
  vlin n (fun a => fold_left (axpy_step n) steps (T a)).
Proof.
  induction steps as [|[c ents] steps IH]; intros T L W; [exact L|].
  simpl in W. apply andb_true_iff in W. destruct W as [W1 W2].
  unfold wf_eta in W1. cbn [fst snd] in W1. apply andb_true_iff in W1. destruct W1 as [Hc _]. apply Nat.ltb_lt in Hc.
  simpl. apply (IH (fun a => axpy_step n (T a) (c, ents))); [|exact W2]. apply vlin_axpy; assumption.
Qed.

Lemma vlin_fold_dot n steps : forall T, vlin n T -> forallb (wf_eta n) steps = true ->
  vlin n (fun a => fold_left (dot_step n) steps (T a)).
Proof.
  induction steps as [|[r ents] steps IH]; intros T L W; [exact L|].
  simpl in W. apply andb_true_iff in W. destruct W as [W1 W2].
  unfold wf_eta in W1. cbn [fst snd] in W1. apply andb_true_iff in W1. destruct W1 as [Hr We]. apply Nat.ltb_lt in Hr.
  simpl. apply (IH (fun a => dot_step n (T a) (r, ents))); [|exact W2]. apply vlin_dot; assumption.
Qed.

(* ---- the U phase ----------------------------------------------------------------------------------------- *)
(* pointwise description of one step, both branches *)
Lemma u_step_spec n cols a acc p j : (p < n)%nat ->
  let st := u_step n cols (a, acc) (p, j) in
  match nth j cols [] with
  | (_, piv) :: rest =>
    (forall k, (k < n)%nat -> qnth (fst st) k == if Nat.eqb k p then 0 else qnth a k - qnth a p / piv * coefAt rest k) /\
    (forall l, coefAt (snd st) l == (if Nat.eqb j l then qnth a p / piv else 0) + coefAt acc l)
  | [] => (forall k, qnth (fst st) k == qnth a k) /\ (forall l, coefAt (snd st) l == coefAt acc l)
  end.
Proof.
  intros Hp. unfold u_step. cbn [fst snd].
  destruct (nth j cols []) as [|[pr piv] rest] eqn:EC.
  - destruct (Qeq_bool (qnth a p) 0); cbn [fst snd]; split; intros; reflexivity.
  - destruct (Qeq_bool (qnth a p) 0) eqn:E; cbn [fst snd].
    + apply Qeq_bool_iff in E. split.
      * intros k Hk. destruct (Nat.eqb_spec k p) as [->|Hne]; [exact E|]. unfold Qdiv. rewrite E. ring.
      * intros l. unfold Qdiv. destruct (Nat.eqb j l); rewrite ?E; ring.
    + split.
      * intros k Hk. rewrite qnth_vset by exact Hk. destruct (Nat.eqb k p); [reflexivity|].
        rewrite sub_scaled_spec by exact Hk. rarith. reflexivity.
      * intros l. simpl. destruct (Nat.eqb j l); rarith; reflexivity.
Qed.

Lemma plin_u n cols T p j : plin n T -> (p < n)%nat -> plin n (fun a => u_step n cols (T a) (p, j)).
Proof.
  intros [L1 L2] Hp.
  assert (S : forall a, u_step n cols (T a) (p, j) = u_step n cols (fst (T a), snd (T a)) (p, j)).
  { intros a. destruct (T a). reflexivity. }
  split.
  - intros a k Hk. cbv beta. rewrite S.
    pose proof (u_step_spec n cols (fst (T a)) (snd (T a)) p j Hp) as SP. cbv zeta in SP.
    destruct (nth j cols []) as [|[pr piv] rest] eqn:EC.
    + destruct SP as [SP _]. rewrite SP. rewrite (L1 a k Hk). apply sumn_ext. intros i _.
      rewrite S. pose proof (u_step_spec n cols (fst (T (unitv n i))) (snd (T (unitv n i))) p j Hp) as SPi. cbv zeta in SPi.
      rewrite EC in SPi. destruct SPi as [SPi _]. rewrite SPi. reflexivity.
    + destruct SP as [SP _]. rewrite (SP k Hk).
      destruct (Nat.eqb k p) eqn:E.
      * symmetry. apply sumn_0. intros i _. rewrite S.
        pose proof (u_step_spec n cols (fst (T (unitv n i))) (snd (T (unitv n i))) p j Hp) as SPi. cbv zeta in SPi.
        rewrite EC in SPi. destruct SPi as [SPi _]. rewrite (SPi k Hk), E. ring.
      * unfold Qdiv. rewrite (L1 a k Hk), (L1 a p Hp).
        transitivity (sumn n (fun i => qnth a i * qnth (fst (T (unitv n i))) k -
                                       qnth a i * qnth (fst (T (unitv n i))) p / piv * coefAt rest k)).
        -- rewrite sumn_sub. apply Qplus_comp; [reflexivity|]. apply Qopp_comp.
           rewrite sumn_scale_r. unfold Qdiv. rewrite sumn_scale_r. reflexivity.
        -- apply sumn_ext. intros i _. rewrite S.
           pose proof (u_step_spec n cols (fst (T (unitv n i))) (snd (T (unitv n i))) p j Hp) as SPi. cbv zeta in SPi.
           rewrite EC in SPi. destruct SPi as [SPi _]. rewrite (SPi k Hk), E. unfold Qdiv. ring.
  - intros a l. rewrite S.
    pose proof (u_step_spec n cols (fst (T a)) (snd (T a)) p j Hp) as SP. cbv zeta in SP.
    destruct (nth j cols []) as [|[pr piv] rest] eqn:EC.
    + destruct SP as [_ SP]. rewrite SP. rewrite (L2 a l). apply sumn_ext. intros i _.
      rewrite S. pose proof (u_step_spec n cols (fst (T (unitv n i))) (snd (T (unitv n i))) p j Hp) as SPi. cbv zeta in SPi.
      rewrite EC in SPi. destruct SPi as [_ SPi]. rewrite SPi. reflexivity.
    + destruct SP as [_ SP]. rewrite SP. rewrite (L2 a l).
      assert (SPi : forall i, coefAt (snd (u_step n cols (T (unitv n i)) (p, j))) l ==
                    (if Nat.eqb j l then qnth (fst (T (unitv n i))) p / piv else 0) + coefAt (snd (T (unitv n i))) l).
      { intros i. rewrite S.
        pose proof (u_step_spec n cols (fst (T (unitv n i))) (snd (T (unitv n i))) p j Hp) as SPi. cbv zeta in SPi.
        rewrite EC in SPi. destruct SPi as [_ SPi]. apply SPi. }
      destruct (Nat.eqb j l).
      * unfold Qdiv. rewrite (L1 a p Hp).
        transitivity (sumn n (fun i => qnth a i * qnth (fst (T (unitv n i))) p * / piv + qnth a i * coefAt (snd (T (unitv n i))) l)).
        -- rewrite sumn_add. rewrite sumn_scale_r. reflexivity.
        -- apply sumn_ext. intros i _. rewrite (SPi i). unfold Qdiv. ring.
      * transitivity (sumn n (fun i => qnth a i * coefAt (snd (T (unitv n i))) l)); [ring|].
        apply sumn_ext. intros i _. rewrite (SPi i). ring.
Qed.

Lemma plin_fold_u n cols pjs : forall T, plin n T -> forallb (fun pj => Nat.ltb (fst pj) n) pjs = true ->
  plin n (fun a => fold_left (u_step n cols) pjs (T a)).
Proof.
  induction pjs as [|[p j] pjs IH]; intros T L W; [exact L|].
  simpl in W. apply andb_true_iff in W. destruct W as [W1 W2]. apply Nat.ltb_lt in W1.
  simpl. apply (IH (fun a => u_step n cols (T a) (p, j))); [|exact W2]. apply plin_u; assumption.
Qed.

Lemma plin_init n T : vlin n T -> plin n (fun a => (T a, [])).
Proof.
  intros L. split; [exact L|]. intros a j. simpl. symmetry. apply sumn_0. intros; ring.
Qed.

Lemma vlin_dense n T : plin n T -> vlin n (fun a => dense n (snd (T a))).
Proof.
  intros [_ L2] a k Hk. unfold dense. rewrite qnth_mkvec by exact Hk. rewrite Qred_correct. rewrite (L2 a k).
  apply sumn_ext. intros i _. rewrite qnth_mkvec by exact Hk. rewrite Qred_correct. reflexivity.
Qed.

Lemma forallb_combine_fst {A} (f : nat -> bool) (l : list nat) (l' : list A) :
  forallb f l = true -> forallb (fun pj => f (fst pj)) (combine l l') = true.
Proof.
  revert l'; induction l as [|a l IH]; intros [|b l'] H; simpl in *; try reflexivity.
  apply andb_true_iff in H. destruct H as [H1 H2]. rewrite H1. simpl. apply IH. exact H2.
Qed.

Lemma forallb_rev {A} (f : A -> bool) l : forallb f l = true -> forallb f (rev l) = true.
Proof.
  intros H. apply forallb_forall. intros x Hx. apply in_rev in Hx. rewrite forallb_forall in H. apply H. exact Hx.
Qed.

(* ---- the solves are linear ------------------------------------------------------------------------------ *)
Theorem ftran_lin r : wf_repr r = true -> vlin (f_dim r) (ftran_dense r).
Proof.
  intros W. unfold wf_repr in W. repeat (apply andb_true_iff in W; destruct W as [W ?]).
  unfold ftran_dense, ftran. set (n := f_dim r) in *.
  apply (vlin_dense n (fun a => fold_left (u_step n (f_uc r)) (rev (combine (f_rperm r) (f_cperm r)))
                                   (fold_left (dot_step n) (f_er r) (fold_left (axpy_step n) (f_lc r) (mkvec n (qnth a))), []))).
  apply (plin_fold_u n (f_uc r) _ (fun a => (fold_left (dot_step n) (f_er r) (fold_left (axpy_step n) (f_lc r) (mkvec n (qnth a))), []))).
  - apply plin_init. apply (vlin_fold_dot n (f_er r) (fun a => fold_left (axpy_step n) (f_lc r) (mkvec n (qnth a)))); [|assumption].
    apply (vlin_fold_axpy n (f_lc r) (fun a => mkvec n (qnth a))); [apply vlin_id|assumption].
  - apply forallb_rev. apply (forallb_combine_fst (fun i => Nat.ltb i n)). assumption.
Qed.

Theorem btran_lin r : wf_repr r = true -> vlin (f_dim r) (btran r).
Proof.
  intros W. unfold wf_repr in W. repeat (apply andb_true_iff in W; destruct W as [W ?]).
  unfold btran. set (n := f_dim r) in *.
  apply (vlin_fold_axpy n (rev (f_lr r))
           (fun a => fold_left (axpy_step n) (rev (f_er r))
                       (dense n (snd (fold_left (u_step n (f_ur r)) (combine (f_cperm r) (f_rperm r)) (mkvec n (qnth a), [])))))).
  - apply (vlin_fold_axpy n (rev (f_er r))
             (fun a => dense n (snd (fold_left (u_step n (f_ur r)) (combine (f_cperm r) (f_rperm r)) (mkvec n (qnth a), []))))).
    + apply (vlin_dense n (fun a => fold_left (u_step n (f_ur r)) (combine (f_cperm r) (f_rperm r)) (mkvec n (qnth a), []))).
      apply (plin_fold_u n (f_ur r) _ (fun a => (mkvec n (qnth a), []))).
      * apply plin_init. apply vlin_id.
      * apply (forallb_combine_fst (fun i => Nat.ltb i n)). assumption.
    + apply forallb_rev. assumption.
  - apply forallb_rev. assumption.
Qed.

(* ---- check_repr_sound ------------------------------------------------------------------------------------ *)
Theorem check_repr_sound r B : check_repr r B = true ->
  forall a, is_solution (f_dim r) B (ftran_dense r a) a /\ is_left_solution (f_dim r) B (btran r a) a.
Proof.
  unfold check_repr. set (n := f_dim r). intros H a. apply andb_true_iff in H. destruct H as [W U].
  rewrite forallb_forall in U.
  assert (UF : forall i, (i < n)%nat -> is_solution n B (ftran_dense r (unitv n i)) (unitv n i)).
  { intros i Hi. specialize (U i ltac:(apply in_seq; lia)). apply andb_true_iff in U. destruct U as [U _].
    apply check_ftran_spec. exact U. }
  assert (UB : forall i, (i < n)%nat -> is_left_solution n B (btran r (unitv n i)) (unitv n i)).
  { intros i Hi. specialize (U i ltac:(apply in_seq; lia)). apply andb_true_iff in U. destruct U as [_ U].
    apply check_btran_spec. exact U. }
  pose proof (ftran_lin r W) as LF. pose proof (btran_lin r W) as LB. fold n in LF, LB.
  split.
  - intros k Hk.
    transitivity (sumn n (fun j => sumn n (fun i => mget B k j * (qnth a i * qnth (ftran_dense r (unitv n i)) j)))).
    + apply sumn_ext. intros j Hj. rewrite (LF a j Hj). rewrite <- sumn_scale. reflexivity.
    + rewrite sumn_swap.
      transitivity (sumn n (fun i => qnth a i * (if Nat.eqb i k then 1 else 0))).
      * apply sumn_ext. intros i Hi.
        transitivity (qnth a i * sumn n (fun j => mget B k j * qnth (ftran_dense r (unitv n i)) j)).
        -- rewrite <- sumn_scale. apply sumn_ext. intros j _. ring.
        -- rewrite (UF i Hi k Hk). rewrite qnth_unitv by exact Hk. rewrite (Nat.eqb_sym k i). reflexivity.
      * apply (sumn_delta_r n k (qnth a)). exact Hk.
  - intros k Hk.
    transitivity (sumn n (fun j => sumn n (fun i => qnth a i * qnth (btran r (unitv n i)) j * mget B j k))).
    + apply sumn_ext. intros j Hj. rewrite (LB a j Hj). rewrite <- sumn_scale_r. reflexivity.
    + rewrite sumn_swap.
      transitivity (sumn n (fun i => qnth a i * (if Nat.eqb i k then 1 else 0))).
      * apply sumn_ext. intros i Hi.
        transitivity (qnth a i * sumn n (fun j => qnth (btran r (unitv n i)) j * mget B j k)).
        -- rewrite <- sumn_scale. apply sumn_ext. intros j _. ring.
        -- rewrite (UB i Hi k Hk). rewrite qnth_unitv by exact Hk. rewrite (Nat.eqb_sym k i). reflexivity.
      * apply (sumn_delta_r n k (qnth a)). exact Hk.
Qed.

(* a checked representation certifies that B is non-singular and its solves are THE solutions *)
Corollary check_repr_nonsingular r B : check_repr r B = true -> nonsingular (f_dim r) B.
Proof.
  intros H. apply (check_binv_all_nonsingular (f_dim r) B (map (fun i => btran r (unitv (f_dim r) i)) (seq 0 (f_dim r)))).
  intros i Hi. rewrite mrow_map_seq by exact Hi. apply check_binv_row_spec; [exact Hi|].
  exact (proj2 (check_repr_sound r B H (unitv (f_dim r) i))).
Qed.
