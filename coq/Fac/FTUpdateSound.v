(* Soundness of the Forrest-Tomlin update model (Fac/FTUpdate.v).
   Structure of the argument (all algebra on linear maps, nothing on the memory layout):
     - the U phases are exact triangular solves as soon as [struct_ok] holds               (usolve_spec, usolve_t_spec)
     - a representation accepted in the sense of check_repr_sound ([represents r B]) whose U part is [struct_ok]
       factors B as  G B = U  with G = [spike r] injective and [bpost r] the adjoint of G   (frep_of_represents)
     - conversely such a factorization solves with B                                        (represents_of_frep)
     - the update turns the factorization of B into one of B with column k replaced          (update_spike_frep)
     - the new pivot is (B^-1 a)_k times the old pivot, so the update refuses exactly the singular replacements. *)
From QSX Require Export Fac.FTUpdate.
Require Import Lia.
Local Open Scope Q_scope.

(* ================================================================================================= lists *)
Lemma index_of_In x l : In x l -> (index_of x l < length l)%nat /\ nth (index_of x l) l 0%nat = x.
Proof.
  induction l as [|y t IH]; simpl; [tauto|]. intros H.
  destruct (Nat.eqb_spec y x) as [E|NE]; [split; [lia|exact E]|].
  destruct H as [H|H]; [congruence|]. destruct (IH H) as [A B]. split; [lia|exact B].
Qed.

Lemma index_of_nth l : NoDup l -> forall k, (k < length l)%nat -> index_of (nth k l 0%nat) l = k.
Proof.
  induction 1 as [|y t NI ND IH]; intros k Hk; simpl in *; [lia|].
  destruct k as [|k].
  - rewrite Nat.eqb_refl. reflexivity.
  - destruct (Nat.eqb_spec y (nth k t 0%nat)) as [E|NE].
    + exfalso. apply NI. rewrite E. apply nth_In. lia.
    + rewrite IH by lia. reflexivity.
Qed.

Lemma existsb_eqb_In i l : existsb (Nat.eqb i) l = true <-> In i l.
Proof.
  rewrite existsb_exists. split.
  - intros (x & Hx & E). apply Nat.eqb_eq in E. subst. exact Hx.
  - intros H. exists i. split; [exact H|apply Nat.eqb_refl].
Qed.

Lemma perm_ok_spec n l : perm_ok n l = true ->
  length l = n /\ (forall i, (i < n)%nat -> In i l) /\ NoDup l.
Proof.
  unfold perm_ok. intros H. apply andb_true_iff in H. destruct H as [L C]. apply Nat.eqb_eq in L.
  rewrite forallb_forall in C.
  assert (Cov : forall i, (i < n)%nat -> In i l).
  { intros i Hi. apply existsb_eqb_In. apply C. apply in_seq. lia. }
  split; [exact L|]. split; [exact Cov|].
  apply (@NoDup_incl_NoDup nat (seq 0 n) l).
  - apply seq_NoDup.
  - rewrite seq_length. lia.
  - intros i Hi. apply in_seq in Hi. apply Cov. lia.
Qed.

Lemma perm_ok_intro n l : length l = n -> (forall i, (i < n)%nat -> In i l) -> perm_ok n l = true.
Proof.
  intros L C. unfold perm_ok. rewrite L, Nat.eqb_refl. simpl. apply forallb_forall. intros i Hi.
  apply in_seq in Hi. apply existsb_eqb_In. apply C. lia.
Qed.

(* ---- sigma / shift ------------------------------------------------------------------------------------- *)
Ltac sig := unfold sigma;
  repeat match goal with
  | |- context [Nat.ltb ?a ?b] => destruct (Nat.ltb_spec a b)
  | |- context [Nat.eqb ?a ?b] => destruct (Nat.eqb_spec a b)
  | H : context [Nat.ltb ?a ?b] |- _ => destruct (Nat.ltb_spec a b)
  | H : context [Nat.eqb ?a ?b] |- _ => destruct (Nat.eqb_spec a b)
  end; try lia.

Lemma sigma_lt p q n k : (p <= q)%nat -> (q < n)%nat -> (k < n)%nat -> (sigma p q k < n)%nat.
Proof. intros. sig. Qed.
Lemma sigma_q p q : (p <= q)%nat -> sigma p q q = p.
Proof. intros. sig. Qed.
Lemma sigma_eq_p p q k : (p <= q)%nat -> sigma p q k = p -> k = q.
Proof. intros H E. revert E. sig. Qed.
Lemma sigma_mono p q k t : (p <= q)%nat -> (k < t)%nat -> k <> q -> t <> q -> (sigma p q k < sigma p q t)%nat.
Proof. intros. sig. Qed.
Lemma sigma_low p q k : (k < p)%nat -> sigma p q k = k.
Proof. intros. sig. Qed.
Lemma sigma_mid p q k : (p <= k)%nat -> (k < q)%nat -> sigma p q k = S k.
Proof. intros. sig. Qed.
Lemma sigma_high p q k : (p <= q)%nat -> (q < k)%nat -> sigma p q k = k.
Proof. intros. sig. Qed.
Lemma sigma_surj p q n i : (p <= q)%nat -> (q < n)%nat -> (i < n)%nat -> exists k, (k < n)%nat /\ sigma p q k = i.
Proof.
  intros Hpq Hq Hi.
  destruct (Nat.lt_ge_cases i p) as [A|A]; [exists i; split; [lia|sig]|].
  destruct (Nat.eq_dec i p) as [B|B]; [exists q; split; [lia|sig]|].
  destruct (Nat.le_gt_cases i q) as [C|C]; [exists (i - 1)%nat; split; [lia|sig]|].
  exists i. split; [lia|sig].
Qed.

Lemma shift_length l p q : length (shift l p q) = length l.
Proof. unfold shift. rewrite map_length, seq_length. reflexivity. Qed.

Lemma shift_nth l p q k : (k < length l)%nat -> nth k (shift l p q) 0%nat = nth (sigma p q k) l 0%nat.
Proof.
  intros H. unfold shift.
  rewrite (nth_indep _ 0%nat (nth (sigma p q (length l)) l 0%nat)) by (rewrite map_length, seq_length; exact H).
  rewrite (map_nth (fun k => nth (sigma p q k) l 0%nat) (seq 0 (length l)) (length l) k).
  rewrite seq_nth by exact H. reflexivity.
Qed.

Lemma shift_perm n l p q : (p <= q)%nat -> (q < n)%nat -> length l = n -> (forall i, (i < n)%nat -> In i l) ->
  forall i, (i < n)%nat -> In i (shift l p q).
Proof.
  intros Hpq Hq L C i Hi.
  destruct (In_nth l i 0%nat (C i Hi)) as (t & Ht & Et).
  destruct (sigma_surj p q n t Hpq Hq ltac:(lia)) as (k & Hk & Ek).
  rewrite <- Et, <- Ek. rewrite <- shift_nth by lia. apply nth_In. rewrite shift_length. lia.
Qed.

(* ================================================================================================= sparse vectors *)
Lemma coefAt_app a b i : coefAt (a ++ b) i == coefAt a i + coefAt b i.
Proof. induction a as [|[k v] a IH]; simpl; [ring|]. rewrite IH. ring. Qed.

Lemma coefAt_flat_seq (c : nat -> bool) (v : nat -> Q) i : forall m a,
  coefAt (flat_map (fun k => if c k then [] else [(k, v k)]) (seq a m)) i ==
  if Nat.leb a i && Nat.ltb i (a + m) then (if c i then 0 else v i) else 0.
Proof.
  induction m as [|m IH]; intros a; simpl.
  - destruct (Nat.leb_spec a i); destruct (Nat.ltb_spec i (a + 0)); simpl; try reflexivity; lia.
  - rewrite coefAt_app, IH.
    destruct (Nat.eq_dec a i) as [E|NE].
    + subst i. destruct (Nat.leb_spec (S a) a); [lia|]. simpl.
      destruct (Nat.leb_spec a a); [|lia]. destruct (Nat.ltb_spec a (a + S m)); [|lia]. simpl.
      destruct (c a); simpl; [ring|]. rewrite Nat.eqb_refl. ring.
    + assert (E0 : coefAt (if c a then [] else [(a, v a)]) i == 0).
      { destruct (c a); simpl; [reflexivity|]. destruct (Nat.eqb_spec a i); [congruence|ring]. }
      rewrite E0.
      destruct (Nat.leb_spec (S a) i); destruct (Nat.leb_spec a i); destruct (Nat.ltb_spec i (S a + m));
        destruct (Nat.ltb_spec i (a + S m)); simpl; try ring; lia.
Qed.

Lemma tab_rest_coef n p f i : (i < n)%nat ->
  coefAt (flat_map (fun k => if Nat.eqb k p || Qeq_bool (f k) 0 then [] else [(k, Qred (f k))]) (seq 0 n)) i ==
  if Nat.eqb i p then 0 else f i.
Proof.
  intros Hi. rewrite (coefAt_flat_seq (fun k => Nat.eqb k p || Qeq_bool (f k) 0) (fun k => Qred (f k)) i n 0).
  destruct (Nat.leb_spec 0 i); [|lia]. destruct (Nat.ltb_spec i (0 + n)); [|lia]. simpl.
  destruct (Nat.eqb i p); simpl; [reflexivity|].
  destruct (Qeq_bool (f i) 0) eqn:E; [apply Qeq_bool_iff in E; rewrite E; reflexivity|apply Qred_correct].
Qed.

Lemma coefAt_tab_line n p f i : (i < n)%nat -> coefAt (tab_line n p f) i == f i.
Proof.
  intros Hi. unfold tab_line. cbn [coefAt]. rewrite tab_rest_coef by exact Hi.
  rewrite (Nat.eqb_sym p i). destruct (Nat.eqb_spec i p) as [->|]; [rewrite Qred_correct|]; ring.
Qed.

Lemma ind_lt_flat_seq n (g : nat -> sparse) : (forall k, (k < n)%nat -> ind_lt n (g k) = true) ->
  ind_lt n (flat_map g (seq 0 n)) = true.
Proof.
  intros H. unfold ind_lt. apply forallb_forall. intros e He. apply in_flat_map in He. destruct He as (k & Hk & He).
  apply in_seq in Hk. specialize (H k ltac:(lia)). unfold ind_lt in H. rewrite forallb_forall in H. apply H. exact He.
Qed.

Lemma ind_lt_tab_line n p f : (p < n)%nat -> ind_lt n (tab_line n p f) = true.
Proof.
  intros Hp. unfold tab_line. unfold ind_lt. cbn [forallb fst]. apply andb_true_iff. split; [apply Nat.ltb_lt; exact Hp|].
  apply (ind_lt_flat_seq n). intros k Hk. destruct (Nat.eqb k p || Qeq_bool (f k) 0); [reflexivity|].
  unfold ind_lt. simpl. rewrite andb_true_r. apply Nat.ltb_lt. exact Hk.
Qed.

Lemma coefAt_sparsify n v i : (i < n)%nat -> coefAt (sparsify n v) i == qnth v i.
Proof.
  intros Hi. unfold sparsify. rewrite (coefAt_flat_seq (fun k => Qeq_bool (qnth v k) 0) (qnth v) i n 0).
  destruct (Nat.leb_spec 0 i); [|lia]. destruct (Nat.ltb_spec i (0 + n)); [|lia]. simpl.
  destruct (Qeq_bool (qnth v i) 0) eqn:E; [apply Qeq_bool_iff in E; rewrite E|]; reflexivity.
Qed.

Lemma ind_lt_sparsify n v : ind_lt n (sparsify n v) = true.
Proof.
  apply (ind_lt_flat_seq n). intros k Hk. destruct (Qeq_bool (qnth v k) 0); [reflexivity|].
  unfold ind_lt. simpl. rewrite andb_true_r. apply Nat.ltb_lt. exact Hk.
Qed.

Lemma coefAt_notin s i : (forall e, In e s -> fst e <> i) -> coefAt s i == 0.
Proof.
  induction s as [|[k v] s IH]; intros H; simpl; [reflexivity|].
  rewrite IH by (intros e He; apply H; right; exact He).
  destruct (Nat.eqb_spec k i) as [E|NE]; [|ring]. exfalso. apply (H (k, v)); [left; reflexivity|exact E].
Qed.

Lemma spike_rank_ge rperm (s : sparse) : forall m0 e, In e s ->
  (index_of (fst e) rperm <= fold_left (fun m (e : nat * Q) => Nat.max m (index_of (fst e) rperm)) s m0)%nat.
Proof.
  assert (Mono : forall (s : sparse) m0, (m0 <= fold_left (fun m (e : nat * Q) => Nat.max m (index_of (fst e) rperm)) s m0)%nat).
  { induction s0 as [|e s0 IH]; intros m0; simpl; [lia|]. specialize (IH (Nat.max m0 (index_of (fst e) rperm))). lia. }
  induction s as [|e0 s IH]; intros m0 e He; simpl; [destruct He|].
  destruct He as [->|He].
  - specialize (Mono s (Nat.max m0 (index_of (fst e) rperm))). lia.
  - apply IH. exact He.
Qed.

(* entries of the spike beyond rank_r vanish *)
Lemma spike_rank_zero rperm s i : (spike_rank rperm s < index_of i rperm)%nat -> coefAt s i == 0.
Proof.
  intros H. apply coefAt_notin. intros e He E. subst i.
  pose proof (spike_rank_ge rperm s 0%nat e He). unfold spike_rank in H. lia.
Qed.

(* ================================================================================================= the U phases *)
(* processing order [pjs]: every line starts with its pivot and vanishes on the pivots processed before *)
Fixpoint triP (cols : list sparse) (done : list nat) (pjs : list (nat * nat)) : Prop :=
  match pjs with
  | [] => True
  | pj :: t =>
    (exists piv rest, nth (snd pj) cols [] = (fst pj, piv) :: rest /\ ~ piv == 0 /\
                      forall d, In d (fst pj :: done) -> coefAt rest d == 0) /\
    triP cols (fst pj :: done) t
  end.

Lemma sumn_pick n j (v : Q) (f g : nat -> Q) : (j < n)%nat ->
  sumn n (fun l => ((if Nat.eqb j l then v else 0) + g l) * f l) == v * f j + sumn n (fun l => g l * f l).
Proof.
  intros Hj.
  transitivity (sumn n (fun l => (if Nat.eqb j l then 1 else 0) * (v * f l) + g l * f l)).
  - apply sumn_ext. intros l _. destruct (Nat.eqb j l); ring.
  - rewrite sumn_add. rewrite (sumn_delta_l n j (fun l => v * f l) Hj). reflexivity.
Qed.

Lemma ufold_spec n cols : forall pjs done (a : vec) (acc : sparse),
  triP cols done pjs ->
  (forall pj, In pj pjs -> (fst pj < n)%nat /\ (snd pj < n)%nat) ->
  (forall d, In d done -> (d < n)%nat /\ qnth a d == 0) ->
  let st := fold_left (u_step n cols) pjs (a, acc) in
  (forall i, (i < n)%nat ->
     qnth (fst st) i + sumn n (fun l => coefAt (snd st) l * coefAt (nth l cols []) i) ==
     qnth a i + sumn n (fun l => coefAt acc l * coefAt (nth l cols []) i)) /\
  (forall d, In d done \/ In d (map fst pjs) -> qnth (fst st) d == 0).
Proof.
  induction pjs as [|[p j] pjs IH]; intros done a acc T W D; cbn [fold_left].
  - cbn [fst snd]. split; [intros; reflexivity|]. intros d [Hd|[]]. apply D. exact Hd.
  - cbn [triP fst snd] in T. destruct T as [(piv & rest & En & Hp & Hz) T].
    destruct (W (p, j) (or_introl eq_refl)) as [Wp Wj]. cbn [fst snd] in Wp, Wj.
    pose proof (u_step_spec n cols a acc p j Wp) as S. cbv zeta in S. rewrite En in S. destruct S as [S1 S2].
    remember (u_step n cols (a, acc) (p, j)) as st1 eqn:Est in *. clear Est. destruct st1 as [a1 acc1]. cbn [fst snd] in S1, S2.
    assert (D1 : forall d, In d (p :: done) -> (d < n)%nat /\ qnth a1 d == 0).
    { intros d Hd. assert (Hdn : (d < n)%nat) by (destruct Hd as [<-|Hd]; [exact Wp|apply D; exact Hd]).
      split; [exact Hdn|]. rewrite (S1 d Hdn). destruct (Nat.eqb_spec d p) as [E|NE]; [reflexivity|].
      destruct Hd as [E|Hd]; [congruence|]. rewrite (proj2 (D d Hd)). rewrite (Hz d (or_intror Hd)). ring. }
    specialize (IH (p :: done) a1 acc1 T (fun pj H => W pj (or_intror H)) D1). cbv zeta in IH.
    destruct IH as [R Z]. split.
    + intros i Hi. rewrite (R i Hi).
      transitivity (qnth a1 i + (qnth a p / piv * coefAt (nth j cols []) i +
                                 sumn n (fun l => coefAt acc l * coefAt (nth l cols []) i))).
      * apply Qplus_comp; [reflexivity|].
        transitivity (sumn n (fun l => ((if Nat.eqb j l then qnth a p / piv else 0) + coefAt acc l) * coefAt (nth l cols []) i)).
        -- apply sumn_ext. intros l _. rewrite (S2 l). reflexivity.
        -- apply (sumn_pick n j (qnth a p / piv) (fun l => coefAt (nth l cols []) i) (coefAt acc)). exact Wj.
      * rewrite En. cbn [coefAt]. rewrite (S1 i Hi).
        destruct (Nat.eqb_spec i p) as [E|NE].
        -- subst i. rewrite Nat.eqb_refl. rewrite (Hz p (or_introl eq_refl)). field. exact Hp.
        -- destruct (Nat.eqb_spec p i) as [E|_]; [congruence|]. ring.
    + intros d [Hd|Hd].
      * apply Z. left. right. exact Hd.
      * cbn [map fst] in Hd. destruct Hd as [<-|Hd]; [apply Z; left; left; reflexivity|apply Z; right; exact Hd].
Qed.

(* ================================================================================================= linear maps *)
Lemma vlin_ext n T : vlin n T -> forall a a', (forall i, (i < n)%nat -> qnth a i == qnth a' i) ->
  forall k, (k < n)%nat -> qnth (T a) k == qnth (T a') k.
Proof.
  intros L a a' E k Hk. rewrite (L a k Hk), (L a' k Hk). apply sumn_ext. intros i Hi. rewrite (E i Hi). reflexivity.
Qed.

Lemma vlin_idfun n : vlin n (fun a => a).
Proof.
  intros a k Hk.
  transitivity (sumn n (fun i => qnth a i * (if Nat.eqb i k then 1 else 0))).
  - symmetry. apply (sumn_delta_r n k (qnth a)). exact Hk.
  - apply sumn_ext. intros i _. rewrite qnth_unitv by exact Hk. rewrite (Nat.eqb_sym i k). reflexivity.
Qed.

(* a map that vanishes on (pointwise) zero vectors *)
Lemma vlin_zero n T : vlin n T -> forall a, (forall i, (i < n)%nat -> qnth a i == 0) ->
  forall k, (k < n)%nat -> qnth (T a) k == 0.
Proof.
  intros L a Z k Hk. rewrite (L a k Hk). apply sumn_0. intros i Hi. rewrite (Z i Hi). ring.
Qed.

(* ---- a factored representation of B: G B = U, G injective, Gt the adjoint of G --------------------------- *)
Section Frep.
  Variable n : nat.
  Variable B : mat.
  Variables G Gt Us Ust : vec -> vec.
  Variable U : nat -> nat -> Q.
  Hypothesis GL : vlin n G.
  Hypothesis GtL : vlin n Gt.
  Hypothesis UsL : vlin n Us.
  Hypothesis UsS : forall v i, (i < n)%nat -> sumn n (fun j => U i j * qnth (Us v) j) == qnth v i.
  Hypothesis UstS : forall c j, (j < n)%nat -> sumn n (fun i => qnth (Ust c) i * U i j) == qnth c j.

  Definition bcol (M : mat) (j : nat) : vec := mkvec n (fun l => mget M l j).

  Definition frep : Prop :=
    (forall i j, (i < n)%nat -> (j < n)%nat -> qnth (G (bcol B j)) i == U i j) /\
    (forall v, (forall i, (i < n)%nat -> qnth (G v) i == 0) -> forall i, (i < n)%nat -> qnth v i == 0) /\
    (forall w a, sumn n (fun l => qnth (Gt w) l * qnth a l) == sumn n (fun i => qnth w i * qnth (G a) i)).

  Definition solves : Prop :=
    forall a, is_solution n B (Us (G a)) a /\ is_left_solution n B (Gt (Ust a)) a.

  (* G (B x) = U x for every x *)
  Lemma frep_GB : frep -> forall (x : vec) i, (i < n)%nat ->
    qnth (G (mkvec n (fun l => sumn n (fun j => mget B l j * qnth x j)))) i == sumn n (fun j => U i j * qnth x j).
  Proof.
    intros (FA & _ & _) x i Hi. rewrite (GL _ i Hi).
    transitivity (sumn n (fun l => sumn n (fun j => mget B l j * qnth x j) * qnth (G (unitv n l)) i)).
    { apply sumn_ext. intros l Hl. rewrite qnth_mkvec by exact Hl. reflexivity. }
    transitivity (sumn n (fun j => sumn n (fun l => mget B l j * qnth (G (unitv n l)) i) * qnth x j)).
    { transitivity (sumn n (fun l => qnth (G (unitv n l)) i * sumn n (fun j => mget B l j * qnth x j))).
      - apply sumn_ext. intros l _. ring.
      - apply (dot_swap n n (fun l j => mget B l j) (fun l => qnth (G (unitv n l)) i) (qnth x)). }
    apply sumn_ext. intros j Hj. rewrite <- (FA i j Hi Hj). rewrite (GL (bcol B j) i Hi).
    apply Qmult_comp; [|reflexivity]. apply sumn_ext. intros l Hl. unfold bcol. rewrite qnth_mkvec by exact Hl. reflexivity.
  Qed.

  Lemma frep_solves : frep -> solves.
  Proof.
    intros F a. pose proof F as (FA & FI & FC). split.
    - (* G (B x - a) = U x - G a = 0 *)
      set (x := Us (G a)).
      set (v := mkvec n (fun l => sumn n (fun j => mget B l j * qnth x j) - qnth a l)).
      assert (Z : forall i, (i < n)%nat -> qnth v i == 0).
      { apply FI. intros i Hi. rewrite (GL v i Hi).
        transitivity (sumn n (fun l => sumn n (fun j => mget B l j * qnth x j) * qnth (G (unitv n l)) i) -
                      sumn n (fun l => qnth a l * qnth (G (unitv n l)) i)).
        { rewrite <- sumn_sub. apply sumn_ext. intros l Hl. unfold v. rewrite qnth_mkvec by exact Hl. ring. }
        rewrite <- (GL a i Hi).
        pose proof (frep_GB F x i Hi) as E. rewrite (GL _ i Hi) in E.
        transitivity (sumn n (fun j => U i j * qnth x j) - qnth (G a) i).
        { apply Qplus_comp; [|reflexivity]. rewrite <- E. apply sumn_ext. intros l Hl. rewrite qnth_mkvec by exact Hl. reflexivity. }
        unfold x. rewrite (UsS (G a) i Hi). ring. }
      intros l Hl. specialize (Z l Hl). unfold v in Z. rewrite qnth_mkvec in Z by exact Hl. fold x. lra.
    - intros j Hj. set (w := Ust a).
      transitivity (sumn n (fun l => qnth (Gt w) l * qnth (bcol B j) l)).
      { apply sumn_ext. intros l Hl. unfold bcol. rewrite qnth_mkvec by exact Hl. reflexivity. }
      rewrite (FC w (bcol B j)).
      transitivity (sumn n (fun i => qnth w i * U i j)).
      { apply sumn_ext. intros i Hi. rewrite (FA i j Hi Hj). reflexivity. }
      apply UstS. exact Hj.
  Qed.

  Lemma solves_nonsingular : solves -> nonsingular n B.
  Proof.
    intros S. apply (check_binv_all_nonsingular n B (map (fun i => Gt (Ust (unitv n i))) (seq 0 n))).
    intros i Hi. rewrite mrow_map_seq by exact Hi. apply check_binv_row_spec; [exact Hi|].
    exact (proj2 (S (unitv n i))).
  Qed.

  Lemma U_left_kernel : left_kernel_trivial n U.
  Proof.
    apply (right_inverse_left_kernel n U (fun j i => qnth (Us (unitv n i)) j)).
    intros i k Hi Hk. unfold fmul, fid. rewrite (UsS (unitv n k) i Hi). rewrite qnth_unitv by exact Hi. reflexivity.
  Qed.

  Lemma solves_frep : solves -> frep.
  Proof.
    intros S. pose proof (solves_nonsingular S) as NS. split; [|split].
    - intros i j Hi Hj.
      assert (E : forall l, (l < n)%nat -> qnth (Us (G (bcol B j))) l == qnth (unitv n j) l).
      { apply (solution_unique n B (bcol B j)); [exact NS|exact (proj1 (S (bcol B j)))|].
        intros l Hl. unfold bcol. rewrite qnth_mkvec by exact Hl.
        transitivity (sumn n (fun k => mget B l k * (if Nat.eqb k j then 1 else 0))).
        - apply sumn_ext. intros k Hk. rewrite qnth_unitv by exact Hk. reflexivity.
        - apply (sumn_delta_r n j (fun k => mget B l k)). exact Hj. }
      rewrite <- (UsS (G (bcol B j)) i Hi).
      transitivity (sumn n (fun l => U i l * (if Nat.eqb l j then 1 else 0))).
      + apply sumn_ext. intros l Hl. rewrite (E l Hl). rewrite qnth_unitv by exact Hl. reflexivity.
      + apply (sumn_delta_r n j (fun l => U i l)). exact Hj.
    - intros v Z i Hi. rewrite <- (proj1 (S v) i Hi). apply sumn_0. intros j Hj.
      rewrite (vlin_zero n Us UsL (G v) Z j Hj). ring.
    - intros w a.
      set (c := mkvec n (fun j => sumn n (fun i => qnth w i * U i j))).
      assert (Ew : forall i, (i < n)%nat -> qnth (Ust c) i == qnth w i).
      { intros i Hi.
        assert (E : qnth (Ust c) i - qnth w i == 0).
        { apply (U_left_kernel (fun i => qnth (Ust c) i - qnth w i)); [|exact Hi]. intros j Hj.
          transitivity (sumn n (fun i => qnth (Ust c) i * U i j) - sumn n (fun i => qnth w i * U i j)).
          - rewrite <- sumn_sub. apply sumn_ext. intros k _. ring.
          - rewrite (UstS c j Hj). unfold c. rewrite qnth_mkvec by exact Hj. ring. }
        lra. }
      set (y := Gt (Ust c)). set (x := Us (G a)).
      transitivity (sumn n (fun l => qnth y l * qnth a l)).
      { apply sumn_ext. intros l Hl. unfold y. rewrite (vlin_ext n Gt GtL w (Ust c)); [reflexivity| |exact Hl].
        intros i Hi. symmetry. apply Ew. exact Hi. }
      transitivity (sumn n (fun l => qnth y l * sumn n (fun j => mget B l j * qnth x j))).
      { apply sumn_ext. intros l Hl. rewrite <- (proj1 (S a) l Hl). reflexivity. }
      rewrite (dot_swap n n (fun l j => mget B l j) (qnth y) (qnth x)).
      transitivity (sumn n (fun j => qnth c j * qnth x j)).
      { apply sumn_ext. intros j Hj. apply Qmult_comp; [|reflexivity].
        rewrite <- (proj2 (S c) j Hj). apply sumn_ext. intros l _. fold y. ring. }
      transitivity (sumn n (fun j => sumn n (fun i => U i j * qnth w i) * qnth x j)).
      { apply sumn_ext. intros j Hj. unfold c. rewrite qnth_mkvec by exact Hj. apply Qmult_comp; [|reflexivity].
        apply sumn_ext. intros i _. ring. }
      rewrite <- (dot_swap n n U (qnth w) (qnth x)).
      apply sumn_ext. intros i Hi. unfold x. rewrite (UsS (G a) i Hi). reflexivity.
  Qed.
End Frep.

(* ================================================================================================= struct_ok *)
Definition rk (r : repr) (k : nat) : nat := nth k (f_rperm r) 0%nat.
Definition ck (r : repr) (k : nat) : nat := nth k (f_cperm r) 0%nat.

Definition line_ok (lines : list sparse) (pk qk : nat -> nat) (k : nat) (Z : nat -> Prop) : Prop :=
  exists piv rest, nth (qk k) lines [] = (pk k, piv) :: rest /\ ~ piv == 0 /\ forall t, Z t -> coefAt rest (pk t) == 0.

Lemma line_okb_spec lines pk qk k ts :
  line_okb lines pk qk k ts = true <-> line_ok lines pk qk k (fun t => In t ts).
Proof.
  unfold line_okb, line_ok. destruct (nth (qk k) lines []) as [|[p piv] rest].
  - split; [discriminate|]. intros (piv & rest & E & _). discriminate.
  - split.
    + intros H. apply andb_true_iff in H. destruct H as [H Hz]. apply andb_true_iff in H. destruct H as [Hp Hv].
      apply Nat.eqb_eq in Hp. subst p. exists piv, rest. split; [reflexivity|]. split.
      * intros E. apply Qeq_bool_iff in E. rewrite E in Hv. discriminate.
      * intros t Ht. rewrite forallb_forall in Hz. apply Qeq_bool_iff. apply Hz. exact Ht.
    + intros (piv' & rest' & E & Hv & Hz). inversion E; subst. rewrite Nat.eqb_refl. simpl.
      apply andb_true_iff. split.
      * destruct (Qeq_bool piv' 0) eqn:Q; [|reflexivity]. exfalso. apply Hv. apply Qeq_bool_iff. exact Q.
      * apply forallb_forall. intros t Ht. apply Qeq_bool_iff. apply Hz. exact Ht.
Qed.

Record sfacts (r : repr) : Prop := {
  sf_wf : wf_repr r = true;
  sf_rlen : length (f_rperm r) = f_dim r;
  sf_clen : length (f_cperm r) = f_dim r;
  sf_rcov : forall i, (i < f_dim r)%nat -> In i (f_rperm r);
  sf_ccov : forall i, (i < f_dim r)%nat -> In i (f_cperm r);
  sf_col : forall k, (k < f_dim r)%nat -> line_ok (f_uc r) (rk r) (ck r) k (fun t => (k <= t < f_dim r)%nat);
  sf_row : forall k, (k < f_dim r)%nat -> line_ok (f_ur r) (ck r) (rk r) k (fun t => (t <= k)%nat);
  sf_same : forall i j, (i < f_dim r)%nat -> (j < f_dim r)%nat -> Ucf r i j == Urf r i j }.

Lemma struct_ok_facts r : struct_ok r = true <-> sfacts r.
Proof.
  unfold struct_ok. set (n := f_dim r). split.
  - intros H. do 5 (apply andb_true_iff in H; destruct H as [H ?]).
    destruct (perm_ok_spec n _ H4) as (RL & RC & _). destruct (perm_ok_spec n _ H3) as (CL & CC & _).
    rewrite forallb_forall in H2, H1, H0.
    constructor; fold n; try assumption.
    + intros k Hk. specialize (H2 k ltac:(apply in_seq; lia)). apply line_okb_spec in H2.
      destruct H2 as (piv & rest & E & Hv & Hz). exists piv, rest. split; [exact E|]. split; [exact Hv|].
      intros t Ht. apply Hz. apply in_seq. lia.
    + intros k Hk. specialize (H1 k ltac:(apply in_seq; lia)). apply line_okb_spec in H1.
      destruct H1 as (piv & rest & E & Hv & Hz). exists piv, rest. split; [exact E|]. split; [exact Hv|].
      intros t Ht. apply Hz. apply in_seq. lia.
    + intros i j Hi Hj. specialize (H0 i ltac:(apply in_seq; lia)). rewrite forallb_forall in H0.
      apply Qeq_bool_iff. apply H0. apply in_seq. lia.
  - intros [W RL CL RC CC SC SR SS]. fold n in RL, CL, RC, CC, SC, SR, SS.
    rewrite W, (perm_ok_intro n _ RL RC), (perm_ok_intro n _ CL CC). cbn [andb].
    apply andb_true_iff. split; [apply andb_true_iff; split|].
    + apply forallb_forall. intros k Hk. apply in_seq in Hk. apply line_okb_spec.
      destruct (SC k ltac:(lia)) as (piv & rest & E & Hv & Hz). exists piv, rest. split; [exact E|]. split; [exact Hv|].
      intros t Ht. apply in_seq in Ht. apply Hz. lia.
    + apply forallb_forall. intros k Hk. apply in_seq in Hk. apply line_okb_spec.
      destruct (SR k ltac:(lia)) as (piv & rest & E & Hv & Hz). exists piv, rest. split; [exact E|]. split; [exact Hv|].
      intros t Ht. apply in_seq in Ht. apply Hz. lia.
    + apply forallb_forall. intros i Hi. apply in_seq in Hi. apply forallb_forall. intros j Hj. apply in_seq in Hj.
      apply Qeq_bool_iff. apply SS; lia.
Qed.

Section Facts.
  Variable r : repr.
  Hypothesis SF : sfacts r.
  Let n := f_dim r.

  Lemma sf_rnd : NoDup (f_rperm r).
  Proof.
    apply (@NoDup_incl_NoDup nat (seq 0 n) (f_rperm r)); [apply seq_NoDup|rewrite seq_length, (sf_rlen r SF); apply Nat.le_refl|].
    intros i Hi. apply in_seq in Hi. apply (sf_rcov r SF). fold n. lia.
  Qed.
  Lemma sf_cnd : NoDup (f_cperm r).
  Proof.
    apply (@NoDup_incl_NoDup nat (seq 0 n) (f_cperm r)); [apply seq_NoDup|rewrite seq_length, (sf_clen r SF); apply Nat.le_refl|].
    intros i Hi. apply in_seq in Hi. apply (sf_ccov r SF). fold n. lia.
  Qed.

  Lemma wf_parts : forallb (wf_eta n) (f_lc r) = true /\ forallb (wf_eta n) (f_lr r) = true /\ forallb (wf_eta n) (f_er r) = true /\
    forallb (ind_lt n) (f_uc r) = true /\ forallb (ind_lt n) (f_ur r) = true /\
    forallb (fun i => Nat.ltb i n) (f_rperm r) = true /\ forallb (fun i => Nat.ltb i n) (f_cperm r) = true.
  Proof.
    pose proof (sf_wf r SF) as W. unfold wf_repr in W. fold n in W.
    repeat (apply andb_true_iff in W; destruct W as [W ?]). repeat split; assumption.
  Qed.

  Lemma rk_lt k : (k < n)%nat -> (rk r k < n)%nat.
  Proof.
    intros Hk. destruct wf_parts as (_ & _ & _ & _ & _ & W & _). rewrite forallb_forall in W.
    apply Nat.ltb_lt. apply W. apply nth_In. rewrite (sf_rlen r SF). exact Hk.
  Qed.
  Lemma ck_lt k : (k < n)%nat -> (ck r k < n)%nat.
  Proof.
    intros Hk. destruct wf_parts as (_ & _ & _ & _ & _ & _ & W). rewrite forallb_forall in W.
    apply Nat.ltb_lt. apply W. apply nth_In. rewrite (sf_clen r SF). exact Hk.
  Qed.
  Lemma rk_inj k t : (k < n)%nat -> (t < n)%nat -> rk r k = rk r t -> k = t.
  Proof.
    intros Hk Ht E. apply (proj1 (NoDup_nth (f_rperm r) 0%nat) sf_rnd); rewrite ?(sf_rlen r SF); assumption.
  Qed.
  Lemma ck_inj k t : (k < n)%nat -> (t < n)%nat -> ck r k = ck r t -> k = t.
  Proof.
    intros Hk Ht E. apply (proj1 (NoDup_nth (f_cperm r) 0%nat) sf_cnd); rewrite ?(sf_clen r SF); assumption.
  Qed.
  Lemma rk_index k : (k < n)%nat -> index_of (rk r k) (f_rperm r) = k.
  Proof. intros Hk. apply index_of_nth; [exact sf_rnd|rewrite (sf_rlen r SF); exact Hk]. Qed.
  Lemma ck_index k : (k < n)%nat -> index_of (ck r k) (f_cperm r) = k.
  Proof. intros Hk. apply index_of_nth; [exact sf_cnd|rewrite (sf_clen r SF); exact Hk]. Qed.
  Lemma rk_surj i : (i < n)%nat -> (index_of i (f_rperm r) < n)%nat /\ rk r (index_of i (f_rperm r)) = i.
  Proof. intros Hi. unfold n in *. rewrite <- (sf_rlen r SF). apply index_of_In. apply (sf_rcov r SF). exact Hi. Qed.
  Lemma ck_surj j : (j < n)%nat -> (index_of j (f_cperm r) < n)%nat /\ ck r (index_of j (f_cperm r)) = j.
  Proof. intros Hj. unfold n in *. rewrite <- (sf_clen r SF). apply index_of_In. apply (sf_ccov r SF). exact Hj. Qed.

  (* the pivots are not zero; U is upper triangular in rank order *)
  Lemma U_piv k : (k < n)%nat -> ~ Ucf r (rk r k) (ck r k) == 0.
  Proof.
    intros Hk. destruct (sf_col r SF k Hk) as (piv & rest & E & Hv & Hz). unfold Ucf. rewrite E. cbn [coefAt].
    rewrite Nat.eqb_refl. rewrite (Hz k ltac:(fold n; lia)). intros Q. apply Hv. lra.
  Qed.
  Lemma U_tri k t : (k < t)%nat -> (t < n)%nat -> Ucf r (rk r t) (ck r k) == 0.
  Proof.
    intros Hkt Ht. destruct (sf_col r SF k ltac:(fold n; lia)) as (piv & rest & E & Hv & Hz). unfold Ucf. rewrite E. cbn [coefAt].
    rewrite (Hz t ltac:(fold n; lia)).
    destruct (Nat.eqb_spec (rk r k) (rk r t)) as [Q|_]; [|ring].
    apply rk_inj in Q; lia.
  Qed.
  Lemma U_head k : (k < n)%nat -> exists piv rest, nth (ck r k) (f_uc r) [] = (rk r k, piv) :: rest.
  Proof. intros Hk. destruct (sf_col r SF k Hk) as (piv & rest & E & _). exists piv, rest. exact E. Qed.
End Facts.

(* ================================================================================================= exact U solves *)
Lemma combine_seq (l1 l2 : list nat) : length l1 = length l2 ->
  combine l1 l2 = map (fun k => (nth k l1 0%nat, nth k l2 0%nat)) (seq 0 (length l1)).
Proof.
  revert l2. induction l1 as [|a l1 IH]; intros [|b l2] H; simpl in *; try reflexivity; try discriminate.
  f_equal. rewrite (IH l2) by lia. rewrite <- seq_shift. rewrite map_map. reflexivity.
Qed.

Section Usolve.
  Variable r : repr.
  Hypothesis SF : sfacts r.
  Let n := f_dim r.

  Lemma triP_uc : forall m, (m <= n)%nat -> forall done,
    (forall d, In d done -> exists t, (m <= t < n)%nat /\ d = rk r t) ->
    triP (f_uc r) done (map (fun k => (rk r k, ck r k)) (rev (seq 0 m))).
  Proof.
    induction m as [|m IH]; intros Hm done D; [exact I|].
    rewrite seq_S, rev_app_distr. cbn [rev app map triP fst snd Nat.add]. split.
    - destruct (sf_col r SF m ltac:(fold n; lia)) as (piv & rest & E & Hv & Hz). exists piv, rest. split; [exact E|]. split; [exact Hv|].
      intros d [<-|Hd]; [apply Hz; fold n; lia|]. destruct (D d Hd) as (t & Ht & ->). apply Hz. fold n. lia.
    - apply IH; [lia|]. intros d [<-|Hd]; [exists m; split; [lia|reflexivity]|].
      destruct (D d Hd) as (t & Ht & ->). exists t. split; [lia|reflexivity].
  Qed.

  Lemma triP_ur : forall len m, (m + len = n)%nat -> forall done,
    (forall d, In d done -> exists t, (t < m)%nat /\ d = ck r t) ->
    triP (f_ur r) done (map (fun k => (ck r k, rk r k)) (seq m len)).
  Proof.
    induction len as [|len IH]; intros m Hm done D; [exact I|].
    cbn [seq map triP fst snd]. split.
    - destruct (sf_row r SF m ltac:(fold n; lia)) as (piv & rest & E & Hv & Hz). exists piv, rest. split; [exact E|]. split; [exact Hv|].
      intros d [<-|Hd]; [apply Hz; lia|]. destruct (D d Hd) as (t & Ht & ->). apply Hz. lia.
    - apply IH; [lia|]. intros d [<-|Hd]; [exists m; split; [lia|reflexivity]|].
      destruct (D d Hd) as (t & Ht & ->). exists t. split; [lia|reflexivity].
  Qed.

  Lemma pjs_uc : rev (combine (f_rperm r) (f_cperm r)) = map (fun k => (rk r k, ck r k)) (rev (seq 0 n)).
  Proof.
    rewrite combine_seq by (rewrite (sf_rlen r SF), (sf_clen r SF); reflexivity).
    rewrite (sf_rlen r SF). rewrite map_rev. reflexivity.
  Qed.
  Lemma pjs_ur : combine (f_cperm r) (f_rperm r) = map (fun k => (ck r k, rk r k)) (seq 0 n).
  Proof.
    rewrite combine_seq by (rewrite (sf_rlen r SF), (sf_clen r SF); reflexivity).
    rewrite (sf_clen r SF). reflexivity.
  Qed.

  Theorem usolve_spec v i : (i < n)%nat -> sumn n (fun j => Ucf r i j * qnth (usolve r v) j) == qnth v i.
  Proof.
    intros Hi. unfold usolve. fold n. rewrite pjs_uc.
    set (pjs := map (fun k => (rk r k, ck r k)) (rev (seq 0 n))).
    assert (W : forall pj, In pj pjs -> (fst pj < n)%nat /\ (snd pj < n)%nat).
    { intros pj H. apply in_map_iff in H. destruct H as (k & <- & Hk). apply in_rev, in_seq in Hk. cbn [fst snd].
      split; [apply rk_lt|apply ck_lt]; try exact SF; fold n; lia. }
    pose proof (ufold_spec n (f_uc r) pjs [] v [] (triP_uc n (Nat.le_refl n) [] (fun d H => match H with end)) W
                           (fun d H => match H with end)) as S.
    cbv zeta in S. destruct S as [R Z].
    assert (Zi : qnth (fst (fold_left (u_step n (f_uc r)) pjs (v, []))) i == 0).
    { apply Z. right. destruct (rk_surj r SF i Hi) as [A B]. fold n in A.
      apply in_map_iff. exists (rk r (index_of i (f_rperm r)), ck r (index_of i (f_rperm r))). split; [exact B|].
      apply in_map_iff. exists (index_of i (f_rperm r)). split; [reflexivity|]. apply -> in_rev. apply in_seq. lia. }
    specialize (R i Hi). rewrite Zi in R.
    assert (E0 : sumn n (fun l => coefAt (@nil (nat * Q)) l * coefAt (nth l (f_uc r) []) i) == 0).
    { apply sumn_0. intros; simpl; ring. }
    rewrite E0 in R. rewrite <- (Qplus_0_r (qnth v i)). rewrite <- R. rewrite Qplus_0_l.
    apply sumn_ext. intros j Hj. unfold dense. rewrite qnth_mkvec by exact Hj. rewrite Qred_correct. unfold Ucf. apply Qmult_comm.
  Qed.

  Theorem usolve_t_spec c j : (j < n)%nat -> sumn n (fun i => qnth (usolve_t r c) i * Urf r i j) == qnth c j.
  Proof.
    intros Hj. unfold usolve_t. fold n. rewrite pjs_ur.
    set (pjs := map (fun k => (ck r k, rk r k)) (seq 0 n)).
    assert (W : forall pj, In pj pjs -> (fst pj < n)%nat /\ (snd pj < n)%nat).
    { intros pj H. apply in_map_iff in H. destruct H as (k & <- & Hk). apply in_seq in Hk. cbn [fst snd].
      split; [apply ck_lt|apply rk_lt]; try exact SF; fold n; lia. }
    pose proof (ufold_spec n (f_ur r) pjs [] (mkvec n (qnth c)) [] (triP_ur n 0%nat (Nat.add_0_l n) [] (fun d H => match H with end)) W
                           (fun d H => match H with end)) as S.
    cbv zeta in S. destruct S as [R Z].
    assert (Zj : qnth (fst (fold_left (u_step n (f_ur r)) pjs (mkvec n (qnth c), []))) j == 0).
    { apply Z. right. destruct (ck_surj r SF j Hj) as [A B]. fold n in A.
      apply in_map_iff. exists (ck r (index_of j (f_cperm r)), rk r (index_of j (f_cperm r))). split; [exact B|].
      apply in_map_iff. exists (index_of j (f_cperm r)). split; [reflexivity|]. apply in_seq. lia. }
    specialize (R j Hj). rewrite Zj in R. rewrite qnth_mkvec in R by exact Hj.
    assert (E0 : sumn n (fun l => coefAt (@nil (nat * Q)) l * coefAt (nth l (f_ur r) []) j) == 0).
    { apply sumn_0. intros; simpl; ring. }
    rewrite E0 in R. rewrite <- (Qplus_0_r (qnth c j)). rewrite <- R. rewrite Qplus_0_l.
    apply sumn_ext. intros i Hi. unfold dense. rewrite qnth_mkvec by exact Hi. rewrite Qred_correct. unfold Urf. reflexivity.
  Qed.

  (* the phases are linear *)
  Lemma spike_lin : vlin n (spike r).
  Proof.
    destruct (wf_parts r SF) as (W1 & W2 & W3 & _). unfold spike. fold n.
    apply (vlin_fold_dot n (f_er r) (fun a => fold_left (axpy_step n) (f_lc r) (mkvec n (qnth a)))); [|exact W3].
    apply (vlin_fold_axpy n (f_lc r) (fun a => mkvec n (qnth a))); [apply vlin_id|exact W1].
  Qed.

  Lemma bpost_lin : vlin n (bpost r).
  Proof.
    destruct (wf_parts r SF) as (W1 & W2 & W3 & _). unfold bpost. fold n.
    apply (vlin_fold_axpy n (rev (f_lr r)) (fun w => fold_left (axpy_step n) (rev (f_er r)) w)); [|apply forallb_rev; exact W2].
    apply (vlin_fold_axpy n (rev (f_er r)) (fun w => w)); [apply vlin_idfun|apply forallb_rev; exact W3].
  Qed.

  Lemma usolve_lin : vlin n (usolve r).
  Proof.
    destruct (wf_parts r SF) as (_ & _ & _ & _ & _ & W6 & _). unfold usolve. fold n.
    apply (vlin_dense n (fun v => fold_left (u_step n (f_uc r)) (rev (combine (f_rperm r) (f_cperm r))) (v, []))).
    apply (plin_fold_u n (f_uc r) _ (fun v => (v, []))).
    - apply (plin_init n (fun v => v)). apply vlin_idfun.
    - apply forallb_rev. apply (forallb_combine_fst (fun i => Nat.ltb i n)). exact W6.
  Qed.

  Lemma ftran_dense_split a : ftran_dense r a = usolve r (spike r a).
  Proof. reflexivity. Qed.
  Lemma btran_split c : btran r c = bpost r (usolve_t r c).
  Proof. reflexivity. Qed.
End Usolve.

(* ================================================================================================= represents *)
(* the relation of check_repr_sound: both solves are exact for every right-hand side *)
Definition represents (r : repr) (B : mat) : Prop :=
  wf_repr r = true /\
  forall a, is_solution (f_dim r) B (ftran_dense r a) a /\ is_left_solution (f_dim r) B (btran r a) a.

Lemma check_repr_represents r B : check_repr r B = true -> represents r B.
Proof.
  intros H. split; [|exact (check_repr_sound r B H)].
  unfold check_repr in H. apply andb_true_iff in H. exact (proj1 H).
Qed.

Lemma represents_nonsingular r B : represents r B -> nonsingular (f_dim r) B.
Proof.
  intros [_ S]. apply (check_binv_all_nonsingular (f_dim r) B (map (fun i => btran r (unitv (f_dim r) i)) (seq 0 (f_dim r)))).
  intros i Hi. rewrite mrow_map_seq by exact Hi. apply check_binv_row_spec; [exact Hi|]. exact (proj2 (S (unitv (f_dim r) i))).
Qed.

Definition frep_r (r : repr) (B : mat) : Prop := frep (f_dim r) B (spike r) (bpost r) (Ucf r).

Lemma usolve_t_spec_c r : sfacts r -> forall c j, (j < f_dim r)%nat ->
  sumn (f_dim r) (fun i => qnth (usolve_t r c) i * Ucf r i j) == qnth c j.
Proof.
  intros SF c j Hj. rewrite <- (usolve_t_spec r SF c j Hj). apply sumn_ext. intros i Hi.
  rewrite (sf_same r SF i j Hi Hj). reflexivity.
Qed.

Lemma represents_frep r B : sfacts r -> represents r B -> frep_r r B.
Proof.
  intros SF [_ S]. unfold frep_r.
  apply (solves_frep (f_dim r) B (spike r) (bpost r) (usolve r) (usolve_t r) (Ucf r)
           (bpost_lin r SF) (usolve_lin r SF) (usolve_spec r SF) (usolve_t_spec_c r SF)).
  exact S.
Qed.

Lemma frep_represents r B : sfacts r -> frep_r r B -> represents r B.
Proof.
  intros SF F. split; [exact (sf_wf r SF)|].
  exact (frep_solves (f_dim r) B (spike r) (bpost r) (usolve r) (usolve_t r) (Ucf r)
           (spike_lin r SF) (usolve_spec r SF) (usolve_t_spec_c r SF) F).
Qed.
