(* Soundness of the Forrest-Tomlin update model (Fac/FTUpdate.v).
   Structure of the argument (all algebra on linear maps, nothing on the memory layout):
     - the U phases are exact triangular solves as soon as [struct_ok] holds               (usolve_spec, usolve_t_spec)
     - a representation accepted in the sense of check_repr_sound ([represents r B]) whose U part is [struct_ok]
       factors B as  G B = U  with G = [spike r] injective and [bpost r] the adjoint of G   (frep_of_represents)
     - conversely such a factorization solves with B                                        (represents_of_frep)
     - the update turns the factorization of B into one of B with column k replaced          (update_spike_frep)
     - the new pivot is (B^-1 a)_k times the old pivot, so the update refuses exactly the singular replacements. *)
From QSX Require Export Fac.FTUpdate.
Require Import Lia.
Local Open Scope Q_scope.

(* ================================================================================================= lists *)
Lemma index_of_In x l : In x l -> (index_of x l < length l)%nat /\ nth (index_of x l) l 0%nat = x.
Proof.
  induction l as [|y t IH]; simpl; [tauto|]. intros H.
  destruct (Nat.eqb_spec y x) as [E|NE]; [split; [lia|exact E]|].
  destruct H as [H|H]; [congruence|]. destruct (IH H) as [A B]. split; [lia|exact B].
Qed.

Lemma index_of_nth l : NoDup l -> forall k, (k < length l)%nat -> index_of (nth k l 0%nat) l = k.
Proof.
  induction 1 as [|y t NI ND IH]; intros k Hk; simpl in *; [lia|].
  destruct k as [|k].
  - rewrite Nat.eqb_refl. reflexivity.
  - destruct (Nat.eqb_spec y (nth k t 0%nat)) as [E|NE].
    + exfalso. apply NI. rewrite E. apply nth_In. lia.
    + rewrite IH by lia. reflexivity.
Qed.

Lemma existsb_eqb_In i l : existsb (Nat.eqb i) l = true <-> In i l.
Proof.
  rewrite existsb_exists. split.
  - intros (x & Hx & E). apply Nat.eqb_eq in E. subst. exact Hx.
  - intros H. exists i. split; [exact H|apply Nat.eqb_refl].
Qed.

Lemma perm_ok_spec n l : perm_ok n l = true ->
  length l = n /\ (forall i, (i < n)%nat -> In i l) /\ NoDup l.
Proof.
  unfold perm_ok. intros H. apply andb_true_iff in H. destruct H as [L C]. apply Nat.eqb_eq in L.
  rewrite forallb_forall in C.
  assert (Cov : forall i, (i < n)%nat -> In i l).
  { intros i Hi. apply existsb_eqb_In. apply C. apply in_seq. lia. }
  split; [exact L|]. split; [exact Cov|].
  apply (@NoDup_incl_NoDup nat (seq 0 n) l).
  - apply seq_NoDup.
  - rewrite seq_length. lia.
  - intros i Hi. apply in_seq in Hi. apply Cov. lia.
Qed.

Lemma perm_ok_intro n l : length l = n -> (forall i, (i < n)%nat -> In i l) -> perm_ok n l = true.
Proof.
  intros L C. unfold perm_ok. rewrite L, Nat.eqb_refl. simpl. apply forallb_forall. intros i Hi.
  apply in_seq in Hi. apply existsb_eqb_In. apply C. lia.
Qed.

(* ---- sigma / shift ------------------------------------------------------------------------------------- *)
Ltac sig := unfold sigma;
  repeat match goal with
  | |- context [Nat.ltb ?a ?b] => destruct (Nat.ltb_spec a b)
  | |- context [Nat.eqb ?a ?b] => destruct (Nat.eqb_spec a b)
  | H : context [Nat.ltb ?a ?b] |- _ => destruct (Nat.ltb_spec a b)
  | H : context [Nat.eqb ?a ?b] |- _ => destruct (Nat.eqb_spec a b)
  end; try lia.

Lemma sigma_lt p q n k : (p <= q)%nat -> (q < n)%nat -> (k < n)%nat -> (sigma p q k < n)%nat.
Proof. intros. sig. Qed.
Lemma sigma_q p q : (p <= q)%nat -> sigma p q q = p.
Proof. intros. sig. Qed.
Lemma sigma_eq_p p q k : (p <= q)%nat -> sigma p q k = p -> k = q.
Proof. intros H E. revert E. sig. Qed.
Lemma sigma_mono p q k t : (p <= q)%nat -> (k < t)%nat -> k <> q -> t <> q -> (sigma p q k < sigma p q t)%nat.
Proof. intros. sig. Qed.
Lemma sigma_low p q k : (k < p)%nat -> sigma p q k = k.
Proof. intros. sig. Qed.
Lemma sigma_mid p q k : (p <= k)%nat -> (k < q)%nat -> sigma p q k = S k.
Proof. intros. sig. Qed.
Lemma sigma_high p q k : (p <= q)%nat -> (q < k)%nat -> sigma p q k = k.
Proof. intros. sig. Qed.
Lemma sigma_surj p q n i : (p <= q)%nat -> (q < n)%nat -> (i < n)%nat -> exists k, (k < n)%nat /\ sigma p q k = i.
Proof.
  intros Hpq Hq Hi.
  destruct (Nat.lt_ge_cases i p) as [A|A]; [exists i; split; [lia|sig]|].
  destruct (Nat.eq_dec i p) as [B|B]; [exists q; split; [lia|sig]|].
  destruct (Nat.le_gt_cases i q) as [C|C]; [exists (i - 1)%nat; split; [lia|sig]|].
  exists i. split; [lia|sig].
Qed.

Lemma shift_length l p q : length (shift l p q) = length l.
Proof. unfold shift. rewrite map_length, seq_length. reflexivity. Qed.

Lemma shift_nth l p q k : (k < length l)%nat -> nth k (shift l p q) 0%nat = nth (sigma p q k) l 0%nat.
Proof.
  intros H. unfold shift.
  rewrite (nth_indep _ 0%nat (nth (sigma p q (length l)) l 0%nat)) by (rewrite map_length, seq_length; exact H).
  rewrite (map_nth (fun k => nth (sigma p q k) l 0%nat) (seq 0 (length l)) (length l) k).
  rewrite seq_nth by exact H. reflexivity.
Qed.

Lemma shift_perm n l p q : (p <= q)%nat -> (q < n)%nat -> length l = n -> (forall i, (i < n)%nat -> In i l) ->
  forall i, (i < n)%nat -> In i (shift l p q).
Proof.
  intros Hpq Hq L C i Hi.
  destruct (In_nth l i 0%nat (C i Hi)) as (t & Ht & Et).
  destruct (sigma_surj p q n t Hpq Hq ltac:(lia)) as (k & Hk & Ek).
  rewrite <- Et, <- Ek. rewrite <- shift_nth by lia. apply nth_In. rewrite shift_length. lia.
Qed.

(* ================================================================================================= sparse vectors *)
Lemma coefAt_app a b i : coefAt (a ++ b) i == coefAt a i + coefAt b i.
Proof. induction a as [|[k v] a IH]; simpl; [ring|]. rewrite IH. ring. Qed.

Lemma coefAt_flat_seq (c : nat -> bool) (v : nat -> Q) i : forall m a,
  coefAt (flat_map (fun k => if c k then [] else [(k, v k)]) (seq a m)) i ==
  if Nat.leb a i && Nat.ltb i (a + m) then (if c i then 0 else v i) else 0.
Proof.
  induction m as [|m IH]; intros a; simpl.
  - destruct (Nat.leb_spec a i); destruct (Nat.ltb_spec i (a + 0)); simpl; try reflexivity; lia.
  - rewrite coefAt_app, IH.
    destruct (Nat.eq_dec a i) as [E|NE].
    + subst i. destruct (Nat.leb_spec (S a) a); [lia|]. simpl.
      destruct (Nat.leb_spec a a); [|lia]. destruct (Nat.ltb_spec a (a + S m)); [|lia]. simpl.
      destruct (c a); simpl; [ring|]. rewrite Nat.eqb_refl. ring.
    + assert (E0 : coefAt (if c a then [] else [(a, v a)]) i == 0).
      { destruct (c a); simpl; [reflexivity|]. destruct (Nat.eqb_spec a i); [congruence|ring]. }
      rewrite E0.
      destruct (Nat.leb_spec (S a) i); destruct (Nat.leb_spec a i); destruct (Nat.ltb_spec i (S a + m));
        destruct (Nat.ltb_spec i (a + S m)); simpl; try ring; lia.
Qed.

Lemma tab_rest_coef n p f i : (i < n)%nat ->
  coefAt (flat_map (fun k => if Nat.eqb k p || Qeq_bool (f k) 0 then [] else [(k, Qred (f k))]) (seq 0 n)) i ==
  if Nat.eqb i p then 0 else f i.
Proof.
  intros Hi. rewrite (coefAt_flat_seq (fun k => Nat.eqb k p || Qeq_bool (f k) 0) (fun k => Qred (f k)) i n 0).
  destruct (Nat.leb_spec 0 i); [|lia]. destruct (Nat.ltb_spec i (0 + n)); [|lia]. simpl.
  destruct (Nat.eqb i p); simpl; [reflexivity|].
  destruct (Qeq_bool (f i) 0) eqn:E; [apply Qeq_bool_iff in E; rewrite E; reflexivity|apply Qred_correct].
Qed.

Lemma coefAt_tab_line n p f i : (i < n)%nat -> coefAt (tab_line n p f) i == f i.
Proof.
  intros Hi. unfold tab_line. cbn [coefAt]. rewrite tab_rest_coef by exact Hi.
  rewrite (Nat.eqb_sym p i). destruct (Nat.eqb_spec i p) as [->|]; [rewrite Qred_correct|]; ring.
Qed.

Lemma ind_lt_flat_seq n (g : nat -> sparse) : (forall k, (k < n)%nat -> ind_lt n (g k) = true) ->
  ind_lt n (flat_map g (seq 0 n)) = true.
Proof.
  intros H. unfold ind_lt. apply forallb_forall. intros e He. apply in_flat_map in He. destruct He as (k & Hk & He).
  apply in_seq in Hk. specialize (H k ltac:(lia)). unfold ind_lt in H. rewrite forallb_forall in H. apply H. exact He.
Qed.

Lemma ind_lt_tab_line n p f : (p < n)%nat -> ind_lt n (tab_line n p f) = true.
Proof.
  intros Hp. unfold tab_line. unfold ind_lt. cbn [forallb fst]. apply andb_true_iff. split; [apply Nat.ltb_lt; exact Hp|].
  apply (ind_lt_flat_seq n). intros k Hk. destruct (Nat.eqb k p || Qeq_bool (f k) 0); [reflexivity|].
  unfold ind_lt. simpl. rewrite andb_true_r. apply Nat.ltb_lt. exact Hk.
Qed.

Lemma coefAt_sparsify n v i : (i < n)%nat -> coefAt (sparsify n v) i == qnth v i.
Proof.
  intros Hi. unfold sparsify. rewrite (coefAt_flat_seq (fun k => Qeq_bool (qnth v k) 0) (qnth v) i n 0).
  destruct (Nat.leb_spec 0 i); [|lia]. destruct (Nat.ltb_spec i (0 + n)); [|lia]. simpl.
  destruct (Qeq_bool (qnth v i) 0) eqn:E; [apply Qeq_bool_iff in E; rewrite E|]; reflexivity.
Qed.

Lemma ind_lt_sparsify n v : ind_lt n (sparsify n v) = true.
Proof.
  apply (ind_lt_flat_seq n). intros k Hk. destruct (Qeq_bool (qnth v k) 0); [reflexivity|].
  unfold ind_lt. simpl. rewrite andb_true_r. apply Nat.ltb_lt. exact Hk.
Qed.

Lemma coefAt_notin s i : (forall e, In e s -> fst e <> i) -> coefAt s i == 0.
Proof.
  induction s as [|[k v] s IH]; intros H; simpl; [reflexivity|].
  rewrite IH by (intros e He; apply H; right; exact He).
  destruct (Nat.eqb_spec k i) as [E|NE]; [|ring]. exfalso. apply (H (k, v)); [left; reflexivity|exact E].
Qed.

Lemma spike_rank_ge rperm (s : sparse) : forall m0 e, In e s ->
  (index_of (fst e) rperm <= fold_left (fun m (e : nat * Q) => Nat.max m (index_of (fst e) rperm)) s m0)%nat.
Proof.
  assert (Mono : forall (s : sparse) m0, (m0 <= fold_left (fun m (e : nat * Q) => Nat.max m (index_of (fst e) rperm)) s m0)%nat).
  { induction s0 as [|e s0 IH]; intros m0; simpl; [lia|]. specialize (IH (Nat.max m0 (index_of (fst e) rperm))). lia. }
  induction s as [|e0 s IH]; intros m0 e He; simpl; [destruct He|].
  destruct He as [->|He].
  - specialize (Mono s (Nat.max m0 (index_of (fst e) rperm))). lia.
  - apply IH. exact He.
Qed.

(* entries of the spike beyond rank_r vanish *)
Lemma spike_rank_zero rperm s i : (spike_rank rperm s < index_of i rperm)%nat -> coefAt s i == 0.
Proof.
  intros H. apply coefAt_notin. intros e He E. subst i.
  pose proof (spike_rank_ge rperm s 0%nat e He). unfold spike_rank in H. lia.
Qed.

(* ================================================================================================= the U phases *)
(* processing order [pjs]: every line starts with its pivot and vanishes on the pivots processed before *)
Fixpoint triP (cols : list sparse) (done : list nat) (pjs : list (nat * nat)) : Prop :=
  match pjs with
  | [] => True
  | pj :: t =>
    (exists piv rest, nth (snd pj) cols [] = (fst pj, piv) :: rest /\ ~ piv == 0 /\
                      forall d, In d (fst pj :: done) -> coefAt rest d == 0) /\
    triP cols (fst pj :: done) t
  end.

Lemma sumn_pick n j (v : Q) (f g : nat -> Q) : (j < n)%nat ->
  sumn n (fun l => ((if Nat.eqb j l then v else 0) + g l) * f l) == v * f j + sumn n (fun l => g l * f l).
Proof.
  intros Hj.
  transitivity (sumn n (fun l => (if Nat.eqb j l then 1 else 0) * (v * f l) + g l * f l)).
  - apply sumn_ext. intros l _. destruct (Nat.eqb j l); ring.
  - rewrite sumn_add. rewrite (sumn_delta_l n j (fun l => v * f l) Hj). reflexivity.
Qed.

Lemma ufold_spec n cols : forall pjs done (a : vec) (acc : sparse),
  triP cols done pjs ->
  (forall pj, In pj pjs -> (fst pj < n)%nat /\ (snd pj < n)%nat) ->
  (forall d, In d done -> (d < n)%nat /\ qnth a d == 0) ->
  let st := fold_left (u_step n cols) pjs (a, acc) in
  (forall i, (i < n)%nat ->
     qnth (fst st) i + sumn n (fun l => coefAt (snd st) l * coefAt (nth l cols []) i) ==
     qnth a i + sumn n (fun l => coefAt acc l * coefAt (nth l cols []) i)) /\
  (forall d, In d done \/ In d (map fst pjs) -> qnth (fst st) d == 0).
Proof.
  induction pjs as [|[p j] pjs IH]; intros done a acc T W D; cbn [fold_left].
  - cbn [fst snd]. split; [intros; reflexivity|]. intros d [Hd|[]]. apply D. exact Hd.
  - cbn [triP fst snd] in T. destruct T as [(piv & rest & En & Hp & Hz) T].
    destruct (W (p, j) (or_introl eq_refl)) as [Wp Wj]. cbn [fst snd] in Wp, Wj.
    pose proof (u_step_spec n cols a acc p j Wp) as S. cbv zeta in S. rewrite En in S. destruct S as [S1 S2].
    remember (u_step n cols (a, acc) (p, j)) as st1 eqn:Est in *. clear Est. destruct st1 as [a1 acc1]. cbn [fst snd] in S1, S2.
    assert (D1 : forall d, In d (p :: done) -> (d < n)%nat /\ qnth a1 d == 0).
    { intros d Hd. assert (Hdn : (d < n)%nat) by (destruct Hd as [<-|Hd]; [exact Wp|apply D; exact Hd]).
      split; [exact Hdn|]. rewrite (S1 d Hdn). destruct (Nat.eqb_spec d p) as [E|NE]; [reflexivity|].
      destruct Hd as [E|Hd]; [congruence|]. rewrite (proj2 (D d Hd)). rewrite (Hz d (or_intror Hd)). ring. }
    specialize (IH (p :: done) a1 acc1 T (fun pj H => W pj (or_intror H)) D1). cbv zeta in IH.
    destruct IH as [R Z]. split.
    + intros i Hi. rewrite (R i Hi).
      transitivity (qnth a1 i + (qnth a p / piv * coefAt (nth j cols []) i +
                                 sumn n (fun l => coefAt acc l * coefAt (nth l cols []) i))).
      * apply Qplus_comp; [reflexivity|].
        transitivity (sumn n (fun l => ((if Nat.eqb j l then qnth a p / piv else 0) + coefAt acc l) * coefAt (nth l cols []) i)).
        -- apply sumn_ext. intros l _. rewrite (S2 l). reflexivity.
        -- apply (sumn_pick n j (qnth a p / piv) (fun l => coefAt (nth l cols []) i) (coefAt acc)). exact Wj.
      * rewrite En. cbn [coefAt]. rewrite (S1 i Hi).
        destruct (Nat.eqb_spec i p) as [E|NE].
        -- subst i. rewrite Nat.eqb_refl. rewrite (Hz p (or_introl eq_refl)). field. exact Hp.
        -- destruct (Nat.eqb_spec p i) as [E|_]; [congruence|]. ring.
    + intros d [Hd|Hd].
      * apply Z. left. right. exact Hd.
      * cbn [map fst] in Hd. destruct Hd as [<-|Hd]; [apply Z; left; left; reflexivity|apply Z; right; exact Hd].
Qed.

(* ================================================================================================= linear maps *)
Lemma vlin_ext n T : vlin n T -> forall a a', (forall i, (i < n)%nat -> qnth a i == qnth a' i) ->
  forall k, (k < n)%nat -> qnth (T a) k == qnth (T a') k.
Proof.
  intros L a a' E k Hk. rewrite (L a k Hk), (L a' k Hk). apply sumn_ext. intros i Hi. rewrite (E i Hi). reflexivity.
Qed.

Lemma vlin_idfun n : vlin n (fun a => a).
Proof.
  intros a k Hk.
  transitivity (sumn n (fun i => qnth a i * (if Nat.eqb i k then 1 else 0))).
  - symmetry. apply (sumn_delta_r n k (qnth a)). exact Hk.
  - apply sumn_ext. intros i _. rewrite qnth_unitv by exact Hk. rewrite (Nat.eqb_sym i k). reflexivity.
Qed.

(* a map that vanishes on (pointwise) zero vectors *)
Lemma vlin_zero n T : vlin n T -> forall a, (forall i, (i < n)%nat -> qnth a i == 0) ->
  forall k, (k < n)%nat -> qnth (T a) k == 0.
Proof.
  intros L a Z k Hk. rewrite (L a k Hk). apply sumn_0. intros i Hi. rewrite (Z i Hi). ring.
Qed.

(* ---- a factored representation of B: G B = U, G injective, Gt the adjoint of G --------------------------- *)
Section Frep.
  Variable n : nat.
  Variable B : mat.
  Variables G Gt Us Ust : vec -> vec.
  Variable U : nat -> nat -> Q.
  Hypothesis GL : vlin n G.
  Hypothesis GtL : vlin n Gt.
  Hypothesis UsL : vlin n Us.
  Hypothesis UsS : forall v i, (i < n)%nat -> sumn n (fun j => U i j * qnth (Us v) j) == qnth v i.
  Hypothesis UstS : forall c j, (j < n)%nat -> sumn n (fun i => qnth (Ust c) i * U i j) == qnth c j.

  Definition bcol (M : mat) (j : nat) : vec := mkvec n (fun l => mget M l j).

  Definition frep : Prop :=
    (forall i j, (i < n)%nat -> (j < n)%nat -> qnth (G (bcol B j)) i == U i j) /\
    (forall v, (forall i, (i < n)%nat -> qnth (G v) i == 0) -> forall i, (i < n)%nat -> qnth v i == 0) /\
    (forall w a, sumn n (fun l => qnth (Gt w) l * qnth a l) == sumn n (fun i => qnth w i * qnth (G a) i)).

  Definition solves : Prop :=
    forall a, is_solution n B (Us (G a)) a /\ is_left_solution n B (Gt (Ust a)) a.

  (* G (B x) = U x for every x *)
  Lemma frep_GB : frep -> forall (x : vec) i, (i < n)%nat ->
    qnth (G (mkvec n (fun l => sumn n (fun j => mget B l j * qnth x j)))) i == sumn n (fun j => U i j * qnth x j).
  Proof.
    intros (FA & _ & _) x i Hi. rewrite (GL _ i Hi).
    transitivity (sumn n (fun l => sumn n (fun j => mget B l j * qnth x j) * qnth (G (unitv n l)) i)).
    { apply sumn_ext. intros l Hl. rewrite qnth_mkvec by exact Hl. reflexivity. }
    transitivity (sumn n (fun j => sumn n (fun l => mget B l j * qnth (G (unitv n l)) i) * qnth x j)).
    { transitivity (sumn n (fun l => qnth (G (unitv n l)) i * sumn n (fun j => mget B l j * qnth x j))).
      - apply sumn_ext. intros l _. ring.
      - apply (dot_swap n n (fun l j => mget B l j) (fun l => qnth (G (unitv n l)) i) (qnth x)). }
    apply sumn_ext. intros j Hj. rewrite <- (FA i j Hi Hj). rewrite (GL (bcol B j) i Hi).
    apply Qmult_comp; [|reflexivity]. apply sumn_ext. intros l Hl. unfold bcol. rewrite qnth_mkvec by exact Hl. reflexivity.
  Qed.

  Lemma frep_solves : frep -> solves.
  Proof.
    intros F a. pose proof F as (FA & FI & FC). split.
    - (* G (B x - a) = U x - G a = 0 *)
      set (x := Us (G a)).
      set (v := mkvec n (fun l => sumn n (fun j => mget B l j * qnth x j) - qnth a l)).
      assert (Z : forall i, (i < n)%nat -> qnth v i == 0).
      { apply FI. intros i Hi. rewrite (GL v i Hi).
        transitivity (sumn n (fun l => sumn n (fun j => mget B l j * qnth x j) * qnth (G (unitv n l)) i) -
                      sumn n (fun l => qnth a l * qnth (G (unitv n l)) i)).
        { rewrite <- sumn_sub. apply sumn_ext. intros l Hl. unfold v. rewrite qnth_mkvec by exact Hl. ring. }
        rewrite <- (GL a i Hi).
        pose proof (frep_GB F x i Hi) as E. rewrite (GL _ i Hi) in E.
        transitivity (sumn n (fun j => U i j * qnth x j) - qnth (G a) i).
        { apply Qplus_comp; [|reflexivity]. rewrite <- E. apply sumn_ext. intros l Hl. rewrite qnth_mkvec by exact Hl. reflexivity. }
        unfold x. rewrite (UsS (G a) i Hi). ring. }
      intros l Hl. specialize (Z l Hl). unfold v in Z. rewrite qnth_mkvec in Z by exact Hl. fold x. lra.
    - intros j Hj. set (w := Ust a).
      transitivity (sumn n (fun l => qnth (Gt w) l * qnth (bcol B j) l)).
      { apply sumn_ext. intros l Hl. unfold bcol. rewrite qnth_mkvec by exact Hl. reflexivity. }
      rewrite (FC w (bcol B j)).
      transitivity (sumn n (fun i => qnth w i * U i j)).
      { apply sumn_ext. intros i Hi. rewrite (FA i j Hi Hj). reflexivity. }
      apply UstS. exact Hj.
  Qed.

  Lemma solves_nonsingular : solves -> nonsingular n B.
  Proof.
    intros S. apply (check_binv_all_nonsingular n B (map (fun i => Gt (Ust (unitv n i))) (seq 0 n))).
    intros i Hi. rewrite mrow_map_seq by exact Hi. apply check_binv_row_spec; [exact Hi|].
    exact (proj2 (S (unitv n i))).
  Qed.

  Lemma U_left_kernel : left_kernel_trivial n U.
  Proof.
    apply (right_inverse_left_kernel n U (fun j i => qnth (Us (unitv n i)) j)).
    intros i k Hi Hk. unfold fmul, fid. rewrite (UsS (unitv n k) i Hi). rewrite qnth_unitv by exact Hi. reflexivity.
  Qed.

  Lemma solves_frep : solves -> frep.
  Proof.
    intros S. pose proof (solves_nonsingular S) as NS. split; [|split].
    - intros i j Hi Hj.
      assert (E : forall l, (l < n)%nat -> qnth (Us (G (bcol B j))) l == qnth (unitv n j) l).
      { apply (solution_unique n B (bcol B j)); [exact NS|exact (proj1 (S (bcol B j)))|].
        intros l Hl. unfold bcol. rewrite qnth_mkvec by exact Hl.
        transitivity (sumn n (fun k => mget B l k * (if Nat.eqb k j then 1 else 0))).
        - apply sumn_ext. intros k Hk. rewrite qnth_unitv by exact Hk. reflexivity.
        - apply (sumn_delta_r n j (fun k => mget B l k)). exact Hj. }
      rewrite <- (UsS (G (bcol B j)) i Hi).
      transitivity (sumn n (fun l => U i l * (if Nat.eqb l j then 1 else 0))).
      + apply sumn_ext. intros l Hl. rewrite (E l Hl). rewrite qnth_unitv by exact Hl. reflexivity.
      + apply (sumn_delta_r n j (fun l => U i l)). exact Hj.
    - intros v Z i Hi. rewrite <- (proj1 (S v) i Hi). apply sumn_0. intros j Hj.
      rewrite (vlin_zero n Us UsL (G v) Z j Hj). ring.
    - intros w a.
      set (c := mkvec n (fun j => sumn n (fun i => qnth w i * U i j))).
      assert (Ew : forall i, (i < n)%nat -> qnth (Ust c) i == qnth w i).
      { intros i Hi.
        assert (E : qnth (Ust c) i - qnth w i == 0).
        { apply (U_left_kernel (fun i => qnth (Ust c) i - qnth w i)); [|exact Hi]. intros j Hj.
          transitivity (sumn n (fun i => qnth (Ust c) i * U i j) - sumn n (fun i => qnth w i * U i j)).
          - rewrite <- sumn_sub. apply sumn_ext. intros k _. ring.
          - rewrite (UstS c j Hj). unfold c. rewrite qnth_mkvec by exact Hj. ring. }
        lra. }
      set (y := Gt (Ust c)). set (x := Us (G a)).
      transitivity (sumn n (fun l => qnth y l * qnth a l)).
      { apply sumn_ext. intros l Hl. unfold y. rewrite (vlin_ext n Gt GtL w (Ust c)); [reflexivity| |exact Hl].
        intros i Hi. symmetry. apply Ew. exact Hi. }
      transitivity (sumn n (fun l => qnth y l * sumn n (fun j => mget B l j * qnth x j))).
      { apply sumn_ext. intros l Hl. rewrite <- (proj1 (S a) l Hl). reflexivity. }
      rewrite (dot_swap n n (fun l j => mget B l j) (qnth y) (qnth x)).
      transitivity (sumn n (fun j => qnth c j * qnth x j)).
      { apply sumn_ext. intros j Hj. apply Qmult_comp; [|reflexivity].
        rewrite <- (proj2 (S c) j Hj). apply sumn_ext. intros l _. fold y. ring. }
      transitivity (sumn n (fun j => sumn n (fun i => U i j * qnth w i) * qnth x j)).
      { apply sumn_ext. intros j Hj. unfold c. rewrite qnth_mkvec by exact Hj. apply Qmult_comp; [|reflexivity].
        apply sumn_ext. intros i _. ring. }
      rewrite <- (dot_swap n n U (qnth w) (qnth x)).
      apply sumn_ext. intros i Hi. unfold x. rewrite (UsS (G a) i Hi). reflexivity.
  Qed.
End Frep.

(* ================================================================================================= struct_ok *)
Definition rk (r : repr) (k : nat) : nat := nth k (f_rperm r) 0%nat.
Definition ck (r : repr) (k : nat) : nat := nth k (f_cperm r) 0%nat.

Definition line_ok (lines : list sparse) (pk qk : nat -> nat) (k : nat) (Z : nat -> Prop) : Prop :=
  exists piv rest, nth (qk k) lines [] = (pk k, piv) :: rest /\ ~ piv == 0 /\ forall t, Z t -> coefAt rest (pk t) == 0.

Lemma line_okb_spec lines pk qk k ts :
  line_okb lines pk qk k ts = true <-> line_ok lines pk qk k (fun t => In t ts).
Proof.
  unfold line_okb, line_ok. destruct (nth (qk k) lines []) as [|[p piv] rest].
  - split; [discriminate|]. intros (piv & rest & E & _). discriminate.
  - split.
    + intros H. apply andb_true_iff in H. destruct H as [H Hz]. apply andb_true_iff in H. destruct H as [Hp Hv].
      apply Nat.eqb_eq in Hp. subst p. exists piv, rest. split; [reflexivity|]. split.
      * intros E. apply Qeq_bool_iff in E. rewrite E in Hv. discriminate.
      * intros t Ht. rewrite forallb_forall in Hz. apply Qeq_bool_iff. apply Hz. exact Ht.
    + intros (piv' & rest' & E & Hv & Hz). inversion E; subst. rewrite Nat.eqb_refl. simpl.
      apply andb_true_iff. split.
      * destruct (Qeq_bool piv' 0) eqn:Q; [|reflexivity]. exfalso. apply Hv. apply Qeq_bool_iff. exact Q.
      * apply forallb_forall. intros t Ht. apply Qeq_bool_iff. apply Hz. exact Ht.
Qed.

Record sfacts (r : repr) : Prop := {
  sf_wf : wf_repr r = true;
  sf_rlen : length (f_rperm r) = f_dim r;
  sf_clen : length (f_cperm r) = f_dim r;
  sf_rcov : forall i, (i < f_dim r)%nat -> In i (f_rperm r);
  sf_ccov : forall i, (i < f_dim r)%nat -> In i (f_cperm r);
  sf_col : forall k, (k < f_dim r)%nat -> line_ok (f_uc r) (rk r) (ck r) k (fun t => (k <= t < f_dim r)%nat);
  sf_row : forall k, (k < f_dim r)%nat -> line_ok (f_ur r) (ck r) (rk r) k (fun t => (t <= k)%nat);
  sf_same : forall i j, (i < f_dim r)%nat -> (j < f_dim r)%nat -> Ucf r i j == Urf r i j }.

Lemma struct_ok_facts r : struct_ok r = true <-> sfacts r.
Proof.
  unfold struct_ok. set (n := f_dim r). split.
  - intros H. do 5 (apply andb_true_iff in H; destruct H as [H ?]).
    destruct (perm_ok_spec n _ H4) as (RL & RC & _). destruct (perm_ok_spec n _ H3) as (CL & CC & _).
    rewrite forallb_forall in H2, H1, H0.
    constructor; fold n; try assumption.
    + intros k Hk. specialize (H2 k ltac:(apply in_seq; lia)). apply line_okb_spec in H2.
      destruct H2 as (piv & rest & E & Hv & Hz). exists piv, rest. split; [exact E|]. split; [exact Hv|].
      intros t Ht. apply Hz. apply in_seq. lia.
    + intros k Hk. specialize (H1 k ltac:(apply in_seq; lia)). apply line_okb_spec in H1.
      destruct H1 as (piv & rest & E & Hv & Hz). exists piv, rest. split; [exact E|]. split; [exact Hv|].
      intros t Ht. apply Hz. apply in_seq. lia.
    + intros i j Hi Hj. specialize (H0 i ltac:(apply in_seq; lia)). rewrite forallb_forall in H0.
      apply Qeq_bool_iff. apply H0. apply in_seq. lia.
  - intros [W RL CL RC CC SC SR SS]. fold n in RL, CL, RC, CC, SC, SR, SS.
    rewrite W, (perm_ok_intro n _ RL RC), (perm_ok_intro n _ CL CC). cbn [andb].
    apply andb_true_iff. split; [apply andb_true_iff; split|].
    + apply forallb_forall. intros k Hk. apply in_seq in Hk. apply line_okb_spec.
      destruct (SC k ltac:(lia)) as (piv & rest & E & Hv & Hz). exists piv, rest. split; [exact E|]. split; [exact Hv|].
      intros t Ht. apply in_seq in Ht. apply Hz. lia.
    + apply forallb_forall. intros k Hk. apply in_seq in Hk. apply line_okb_spec.
      destruct (SR k ltac:(lia)) as (piv & rest & E & Hv & Hz). exists piv, rest. split; [exact E|]. split; [exact Hv|].
      intros t Ht. apply in_seq in Ht. apply Hz. lia.
    + apply forallb_forall. intros i Hi. apply in_seq in Hi. apply forallb_forall. intros j Hj. apply in_seq in Hj.
      apply Qeq_bool_iff. apply SS; lia.
Qed.

Section Facts.
  Variable r : repr.
  Hypothesis SF : sfacts r.
  Let n := f_dim r.

  Lemma sf_rnd : NoDup (f_rperm r).
  Proof.
    apply (@NoDup_incl_NoDup nat (seq 0 n) (f_rperm r)); [apply seq_NoDup|rewrite seq_length, (sf_rlen r SF); apply Nat.le_refl|].
    intros i Hi. apply in_seq in Hi. apply (sf_rcov r SF). fold n. lia.
  Qed.
  Lemma sf_cnd : NoDup (f_cperm r).
  Proof.
    apply (@NoDup_incl_NoDup nat (seq 0 n) (f_cperm r)); [apply seq_NoDup|rewrite seq_length, (sf_clen r SF); apply Nat.le_refl|].
    intros i Hi. apply in_seq in Hi. apply (sf_ccov r SF). fold n. lia.
  Qed.

  Lemma wf_parts : forallb (wf_eta n) (f_lc r) = true /\ forallb (wf_eta n) (f_lr r) = true /\ forallb (wf_eta n) (f_er r) = true /\
    forallb (ind_lt n) (f_uc r) = true /\ forallb (ind_lt n) (f_ur r) = true /\
    forallb (fun i => Nat.ltb i n) (f_rperm r) = true /\ forallb (fun i => Nat.ltb i n) (f_cperm r) = true.
  Proof.
    pose proof (sf_wf r SF) as W. unfold wf_repr in W. fold n in W.
    repeat (apply andb_true_iff in W; destruct W as [W ?]). repeat split; assumption.
  Qed.

  Lemma rk_lt k : (k < n)%nat -> (rk r k < n)%nat.
  Proof.
    intros Hk. destruct wf_parts as (_ & _ & _ & _ & _ & W & _). rewrite forallb_forall in W.
    apply Nat.ltb_lt. apply W. apply nth_In. rewrite (sf_rlen r SF). exact Hk.
  Qed.
  Lemma ck_lt k : (k < n)%nat -> (ck r k < n)%nat.
  Proof.
    intros Hk. destruct wf_parts as (_ & _ & _ & _ & _ & _ & W). rewrite forallb_forall in W.
    apply Nat.ltb_lt. apply W. apply nth_In. rewrite (sf_clen r SF). exact Hk.
  Qed.
  Lemma rk_inj k t : (k < n)%nat -> (t < n)%nat -> rk r k = rk r t -> k = t.
  Proof.
    intros Hk Ht E. apply (proj1 (NoDup_nth (f_rperm r) 0%nat) sf_rnd); rewrite ?(sf_rlen r SF); assumption.
  Qed.
  Lemma ck_inj k t : (k < n)%nat -> (t < n)%nat -> ck r k = ck r t -> k = t.
  Proof.
    intros Hk Ht E. apply (proj1 (NoDup_nth (f_cperm r) 0%nat) sf_cnd); rewrite ?(sf_clen r SF); assumption.
  Qed.
  Lemma rk_index k : (k < n)%nat -> index_of (rk r k) (f_rperm r) = k.
  Proof. intros Hk. apply index_of_nth; [exact sf_rnd|rewrite (sf_rlen r SF); exact Hk]. Qed.
  Lemma ck_index k : (k < n)%nat -> index_of (ck r k) (f_cperm r) = k.
  Proof. intros Hk. apply index_of_nth; [exact sf_cnd|rewrite (sf_clen r SF); exact Hk]. Qed.
  Lemma rk_surj i : (i < n)%nat -> (index_of i (f_rperm r) < n)%nat /\ rk r (index_of i (f_rperm r)) = i.
  Proof. intros Hi. unfold n in *. rewrite <- (sf_rlen r SF). apply index_of_In. apply (sf_rcov r SF). exact Hi. Qed.
  Lemma ck_surj j : (j < n)%nat -> (index_of j (f_cperm r) < n)%nat /\ ck r (index_of j (f_cperm r)) = j.
  Proof. intros Hj. unfold n in *. rewrite <- (sf_clen r SF). apply index_of_In. apply (sf_ccov r SF). exact Hj. Qed.

  (* the pivots are not zero; U is upper triangular in rank order *)
  Lemma U_piv k : (k < n)%nat -> ~ Ucf r (rk r k) (ck r k) == 0.
  Proof.
    intros Hk. destruct (sf_col r SF k Hk) as (piv & rest & E & Hv & Hz). unfold Ucf. rewrite E. cbn [coefAt].
    rewrite Nat.eqb_refl. rewrite (Hz k ltac:(fold n; lia)). intros Q. apply Hv. lra.
  Qed.
  Lemma U_tri k t : (k < t)%nat -> (t < n)%nat -> Ucf r (rk r t) (ck r k) == 0.
  Proof.
    intros Hkt Ht. destruct (sf_col r SF k ltac:(fold n; lia)) as (piv & rest & E & Hv & Hz). unfold Ucf. rewrite E. cbn [coefAt].
    rewrite (Hz t ltac:(fold n; lia)).
    destruct (Nat.eqb_spec (rk r k) (rk r t)) as [Q|_]; [|ring].
    apply rk_inj in Q; lia.
  Qed.
  Lemma U_head k : (k < n)%nat -> exists piv rest, nth (ck r k) (f_uc r) [] = (rk r k, piv) :: rest.
  Proof. intros Hk. destruct (sf_col r SF k Hk) as (piv & rest & E & _). exists piv, rest. exact E. Qed.
End Facts.

(* ================================================================================================= exact U solves *)
Lemma combine_seq (l1 l2 : list nat) : length l1 = length l2 ->
  combine l1 l2 = map (fun k => (nth k l1 0%nat, nth k l2 0%nat)) (seq 0 (length l1)).
Proof.
  revert l2. induction l1 as [|a l1 IH]; intros [|b l2] H; simpl in *; try reflexivity; try discriminate.
  f_equal. rewrite (IH l2) by lia. rewrite <- seq_shift. rewrite map_map. reflexivity.
Qed.

Section Usolve.
  Variable r : repr.
  Hypothesis SF : sfacts r.
  Let n := f_dim r.

  Lemma triP_uc : forall m, (m <= n)%nat -> forall done,
    (forall d, In d done -> exists t, (m <= t < n)%nat /\ d = rk r t) ->
    triP (f_uc r) done (map (fun k => (rk r k, ck r k)) (rev (seq 0 m))).
  Proof.
    induction m as [|m IH]; intros Hm done D; [exact I|].
    rewrite seq_S, rev_app_distr. cbn [rev app map triP fst snd Nat.add]. split.
    - destruct (sf_col r SF m ltac:(fold n; lia)) as (piv & rest & E & Hv & Hz). exists piv, rest. split; [exact E|]. split; [exact Hv|].
      intros d [<-|Hd]; [apply Hz; fold n; lia|]. destruct (D d Hd) as (t & Ht & ->). apply Hz. fold n. lia.
    - apply IH; [lia|]. intros d [<-|Hd]; [exists m; split; [lia|reflexivity]|].
      destruct (D d Hd) as (t & Ht & ->). exists t. split; [lia|reflexivity].
  Qed.

  Lemma triP_ur : forall len m, (m + len = n)%nat -> forall done,
    (forall d, In d done -> exists t, (t < m)%nat /\ d = ck r t) ->
    triP (f_ur r) done (map (fun k => (ck r k, rk r k)) (seq m len)).
  Proof.
    induction len as [|len IH]; intros m Hm done D; [exact I|].
    cbn [seq map triP fst snd]. split.
    - destruct (sf_row r SF m ltac:(fold n; lia)) as (piv & rest & E & Hv & Hz). exists piv, rest. split; [exact E|]. split; [exact Hv|].
      intros d [<-|Hd]; [apply Hz; lia|]. destruct (D d Hd) as (t & Ht & ->). apply Hz. lia.
    - apply IH; [lia|]. intros d [<-|Hd]; [exists m; split; [lia|reflexivity]|].
      destruct (D d Hd) as (t & Ht & ->). exists t. split; [lia|reflexivity].
  Qed.

  Lemma pjs_uc : rev (combine (f_rperm r) (f_cperm r)) = map (fun k => (rk r k, ck r k)) (rev (seq 0 n)).
  Proof.
    rewrite combine_seq by (rewrite (sf_rlen r SF), (sf_clen r SF); reflexivity).
    rewrite (sf_rlen r SF). rewrite map_rev. reflexivity.
  Qed.
  Lemma pjs_ur : combine (f_cperm r) (f_rperm r) = map (fun k => (ck r k, rk r k)) (seq 0 n).
  Proof.
    rewrite combine_seq by (rewrite (sf_rlen r SF), (sf_clen r SF); reflexivity).
    rewrite (sf_clen r SF). reflexivity.
  Qed.

  Theorem usolve_spec v i : (i < n)%nat -> sumn n (fun j => Ucf r i j * qnth (usolve r v) j) == qnth v i.
  Proof.
    intros Hi. unfold usolve. fold n. rewrite pjs_uc.
    set (pjs := map (fun k => (rk r k, ck r k)) (rev (seq 0 n))).
    assert (W : forall pj, In pj pjs -> (fst pj < n)%nat /\ (snd pj < n)%nat).
    { intros pj H. apply in_map_iff in H. destruct H as (k & <- & Hk). apply in_rev, in_seq in Hk. cbn [fst snd].
      split; [apply rk_lt|apply ck_lt]; try exact SF; fold n; lia. }
    pose proof (ufold_spec n (f_uc r) pjs [] v [] (triP_uc n (Nat.le_refl n) [] (fun d H => match H with end)) W
                           (fun d H => match H with end)) as S.
    cbv zeta in S. destruct S as [R Z].
    assert (Zi : qnth (fst (fold_left (u_step n (f_uc r)) pjs (v, []))) i == 0).
    { apply Z. right. destruct (rk_surj r SF i Hi) as [A B]. fold n in A.
      apply in_map_iff. exists (rk r (index_of i (f_rperm r)), ck r (index_of i (f_rperm r))). split; [exact B|].
      apply in_map_iff. exists (index_of i (f_rperm r)). split; [reflexivity|]. apply -> in_rev. apply in_seq. lia. }
    specialize (R i Hi). rewrite Zi in R.
    assert (E0 : sumn n (fun l => coefAt (@nil (nat * Q)) l * coefAt (nth l (f_uc r) []) i) == 0).
    { apply sumn_0. intros; simpl; ring. }
    rewrite E0 in R. rewrite <- (Qplus_0_r (qnth v i)). rewrite <- R. rewrite Qplus_0_l.
    apply sumn_ext. intros j Hj. unfold dense. rewrite qnth_mkvec by exact Hj. rewrite Qred_correct. unfold Ucf. apply Qmult_comm.
  Qed.

  Theorem usolve_t_spec c j : (j < n)%nat -> sumn n (fun i => qnth (usolve_t r c) i * Urf r i j) == qnth c j.
  Proof.
    intros Hj. unfold usolve_t. fold n. rewrite pjs_ur.
    set (pjs := map (fun k => (ck r k, rk r k)) (seq 0 n)).
    assert (W : forall pj, In pj pjs -> (fst pj < n)%nat /\ (snd pj < n)%nat).
    { intros pj H. apply in_map_iff in H. destruct H as (k & <- & Hk). apply in_seq in Hk. cbn [fst snd].
      split; [apply ck_lt|apply rk_lt]; try exact SF; fold n; lia. }
    pose proof (ufold_spec n (f_ur r) pjs [] (mkvec n (qnth c)) [] (triP_ur n 0%nat (Nat.add_0_l n) [] (fun d H => match H with end)) W
                           (fun d H => match H with end)) as S.
    cbv zeta in S. destruct S as [R Z].
    assert (Zj : qnth (fst (fold_left (u_step n (f_ur r)) pjs (mkvec n (qnth c), []))) j == 0).
    { apply Z. right. destruct (ck_surj r SF j Hj) as [A B]. fold n in A.
      apply in_map_iff. exists (ck r (index_of j (f_cperm r)), rk r (index_of j (f_cperm r))). split; [exact B|].
      apply in_map_iff. exists (index_of j (f_cperm r)). split; [reflexivity|]. apply in_seq. lia. }
    specialize (R j Hj). rewrite Zj in R. rewrite qnth_mkvec in R by exact Hj.
    assert (E0 : sumn n (fun l => coefAt (@nil (nat * Q)) l * coefAt (nth l (f_ur r) []) j) == 0).
    { apply sumn_0. intros; simpl; ring. }
    rewrite E0 in R. rewrite <- (Qplus_0_r (qnth c j)). rewrite <- R. rewrite Qplus_0_l.
    apply sumn_ext. intros i Hi. unfold dense. rewrite qnth_mkvec by exact Hi. rewrite Qred_correct. unfold Urf. reflexivity.
  Qed.

  (* the phases are linear *)
  Lemma spike_lin : vlin n (spike r).
  Proof.
    destruct (wf_parts r SF) as (W1 & W2 & W3 & _). unfold spike. fold n.
    apply (vlin_fold_dot n (f_er r) (fun a => fold_left (axpy_step n) (f_lc r) (mkvec n (qnth a)))); [|exact W3].
    apply (vlin_fold_axpy n (f_lc r) (fun a => mkvec n (qnth a))); [apply vlin_id|exact W1].
  Qed.

  Lemma bpost_lin : vlin n (bpost r).
  Proof.
    destruct (wf_parts r SF) as (W1 & W2 & W3 & _). unfold bpost. fold n.
    apply (vlin_fold_axpy n (rev (f_lr r)) (fun w => fold_left (axpy_step n) (rev (f_er r)) w)); [|apply forallb_rev; exact W2].
    apply (vlin_fold_axpy n (rev (f_er r)) (fun w => w)); [apply vlin_idfun|apply forallb_rev; exact W3].
  Qed.

  Lemma usolve_lin : vlin n (usolve r).
  Proof.
    destruct (wf_parts r SF) as (_ & _ & _ & _ & _ & W6 & _). unfold usolve. fold n.
    apply (vlin_dense n (fun v => fold_left (u_step n (f_uc r)) (rev (combine (f_rperm r) (f_cperm r))) (v, []))).
    apply (plin_fold_u n (f_uc r) _ (fun v => (v, []))).
    - apply (plin_init n (fun v => v)). apply vlin_idfun.
    - apply forallb_rev. apply (forallb_combine_fst (fun i => Nat.ltb i n)). exact W6.
  Qed.

  Lemma ftran_dense_split a : ftran_dense r a = usolve r (spike r a).
  Proof. reflexivity. Qed.
  Lemma btran_split c : btran r c = bpost r (usolve_t r c).
  Proof. reflexivity. Qed.
End Usolve.

(* ================================================================================================= represents *)
(* the relation of check_repr_sound: both solves are exact for every right-hand side *)
Definition represents (r : repr) (B : mat) : Prop :=
  wf_repr r = true /\
  forall a, is_solution (f_dim r) B (ftran_dense r a) a /\ is_left_solution (f_dim r) B (btran r a) a.

Lemma check_repr_represents r B : check_repr r B = true -> represents r B.
Proof.
  intros H. split; [|exact (check_repr_sound r B H)].
  unfold check_repr in H. apply andb_true_iff in H. exact (proj1 H).
Qed.

Lemma represents_nonsingular r B : represents r B -> nonsingular (f_dim r) B.
Proof.
  intros [_ S]. apply (check_binv_all_nonsingular (f_dim r) B (map (fun i => btran r (unitv (f_dim r) i)) (seq 0 (f_dim r)))).
  intros i Hi. rewrite mrow_map_seq by exact Hi. apply check_binv_row_spec; [exact Hi|]. exact (proj2 (S (unitv (f_dim r) i))).
Qed.

Definition frep_r (r : repr) (B : mat) : Prop := frep (f_dim r) B (spike r) (bpost r) (Ucf r).

Lemma usolve_t_spec_c r : sfacts r -> forall c j, (j < f_dim r)%nat ->
  sumn (f_dim r) (fun i => qnth (usolve_t r c) i * Ucf r i j) == qnth c j.
Proof.
  intros SF c j Hj. rewrite <- (usolve_t_spec r SF c j Hj). apply sumn_ext. intros i Hi.
  rewrite (sf_same r SF i j Hi Hj). reflexivity.
Qed.

Lemma represents_frep r B : sfacts r -> represents r B -> frep_r r B.
Proof.
  intros SF [_ S]. unfold frep_r.
  apply (solves_frep (f_dim r) B (spike r) (bpost r) (usolve r) (usolve_t r) (Ucf r)
           (bpost_lin r SF) (usolve_lin r SF) (usolve_spec r SF) (usolve_t_spec_c r SF)).
  exact S.
Qed.

Lemma frep_represents r B : sfacts r -> frep_r r B -> represents r B.
Proof.
  intros SF F. split; [exact (sf_wf r SF)|].
  exact (frep_solves (f_dim r) B (spike r) (bpost r) (usolve r) (usolve_t r) (Ucf r)
           (spike_lin r SF) (usolve_spec r SF) (usolve_t_spec_c r SF) F).
Qed.

(* ================================================================================================= eliminate_row *)
(* one rank of the elimination, both branches: new work vector, new multiplier list *)
Lemma elim_step_spec n Ue (w : vec) (eta : sparse) c r : (c < n)%nat -> ~ Ue r c == 0 ->
  let st := elim_step n Ue (w, eta) (c, r) in
  exists mul,
    (forall j, (j < n)%nat -> qnth (fst st) j == if Nat.eqb j c then 0 else qnth w j - mul * Ue r j) /\
    (forall i, coefAt (snd st) i == (if Nat.eqb r i then mul else 0) + coefAt eta i) /\
    mul * Ue r c == qnth w c /\
    (ind_lt n eta = true -> (r < n)%nat -> ind_lt n (snd st) = true).
Proof.
  intros Hc Hp. unfold elim_step. cbn [fst snd]. destruct (Qeq_bool (qnth w c) 0) eqn:E.
  - apply Qeq_bool_iff in E. exists 0. cbn [fst snd]. split; [|split; [|split]].
    + intros j Hj. rewrite qnth_vset by exact Hj. destruct (Nat.eqb j c); [reflexivity|ring].
    + intros i. destruct (Nat.eqb r i); ring.
    + rewrite E. ring.
    + intros H _. exact H.
  - exists (qnth w c / Ue r c). cbn [fst snd]. split; [|split; [|split]].
    + intros j Hj. rewrite qnth_mkvec by exact Hj. destruct (Nat.eqb j c); [reflexivity|]. rarith. reflexivity.
    + intros i. rewrite coefAt_app. cbn [coefAt]. destruct (Nat.eqb r i); rarith; ring.
    + field. exact Hp.
    + intros H Hr. unfold ind_lt in *. rewrite forallb_app, H. cbn [forallb fst]. rewrite andb_true_r. apply Nat.ltb_lt. exact Hr.
Qed.

(* every row used vanishes on the columns eliminated before it *)
Fixpoint elimP (Ue : nat -> nat -> Q) (done : list nat) (crs : list (nat * nat)) : Prop :=
  match crs with
  | [] => True
  | cr :: t => (forall d, In d done -> Ue (snd cr) d == 0) /\ elimP Ue (fst cr :: done) t
  end.

Lemma elim_fold_spec n Ue : forall crs done (w0 : vec) (eta0 : sparse),
  (forall cr, In cr crs -> (fst cr < n)%nat /\ (snd cr < n)%nat /\ ~ Ue (snd cr) (fst cr) == 0) ->
  elimP Ue done crs ->
  (forall d, In d done -> (d < n)%nat /\ qnth w0 d == 0) ->
  ind_lt n eta0 = true ->
  let st := fold_left (elim_step n Ue) crs (w0, eta0) in
  (forall j, (j < n)%nat ->
     qnth (fst st) j + sumn n (fun i => coefAt (snd st) i * Ue i j) ==
     qnth w0 j + sumn n (fun i => coefAt eta0 i * Ue i j)) /\
  (forall d, In d done \/ In d (map fst crs) -> qnth (fst st) d == 0) /\
  (forall i, (forall cr, In cr crs -> snd cr <> i) -> coefAt (snd st) i == coefAt eta0 i) /\
  ind_lt n (snd st) = true.
Proof.
  induction crs as [|[c r] crs IH]; intros done w0 eta0 W T D I0; cbn [fold_left].
  - cbn [fst snd]. split; [intros; reflexivity|]. split; [|split; [intros; reflexivity|exact I0]].
    intros d [Hd|[]]. apply D. exact Hd.
  - cbn [elimP fst snd] in T. destruct T as [Tz T].
    destruct (W (c, r) (or_introl eq_refl)) as (Wc & Wr & Wp). cbn [fst snd] in Wc, Wr, Wp.
    pose proof (elim_step_spec n Ue w0 eta0 c r Wc Wp) as S. cbv zeta in S.
    remember (elim_step n Ue (w0, eta0) (c, r)) as st1 eqn:Est in *. clear Est. destruct st1 as [w1 eta1].
    cbn [fst snd] in S. destruct S as (mul & S1 & S2 & S3 & S4).
    assert (D1 : forall d, In d (c :: done) -> (d < n)%nat /\ qnth w1 d == 0).
    { intros d Hd. assert (Hdn : (d < n)%nat) by (destruct Hd as [<-|Hd]; [exact Wc|apply D; exact Hd]).
      split; [exact Hdn|]. rewrite (S1 d Hdn). destruct (Nat.eqb_spec d c) as [E|NE]; [reflexivity|].
      destruct Hd as [E|Hd]; [congruence|]. rewrite (proj2 (D d Hd)). rewrite (Tz d Hd). ring. }
    specialize (IH (c :: done) w1 eta1 (fun cr H => W cr (or_intror H)) T D1 (S4 I0 Wr)). cbv zeta in IH.
    destruct IH as (R & Z & K & I1). split; [|split; [|split]].
    + intros j Hj. rewrite (R j Hj).
      transitivity (qnth w1 j + (mul * Ue r j + sumn n (fun i => coefAt eta0 i * Ue i j))).
      * apply Qplus_comp; [reflexivity|].
        transitivity (sumn n (fun i => ((if Nat.eqb r i then mul else 0) + coefAt eta0 i) * Ue i j)).
        -- apply sumn_ext. intros i _. rewrite (S2 i). reflexivity.
        -- apply (sumn_pick n r mul (fun i => Ue i j) (coefAt eta0)). exact Wr.
      * rewrite (S1 j Hj). destruct (Nat.eqb_spec j c) as [E|NE].
        -- subst j. rewrite S3. ring.
        -- ring.
    + intros d [Hd|Hd].
      * apply Z. left. right. exact Hd.
      * cbn [map fst] in Hd. destruct Hd as [<-|Hd]; [apply Z; left; left; reflexivity|apply Z; right; exact Hd].
    + intros i Hi. rewrite (K i (fun cr H => Hi cr (or_intror H))). rewrite (S2 i).
      destruct (Nat.eqb_spec r i) as [E|_]; [|ring]. exfalso. exact (Hi (c, r) (or_introl eq_refl) E).
    + exact I1.
Qed.

(* ================================================================================================= the update *)
Lemma fold_max_lt (rperm : list nat) n (s : sparse) : forall m0, (m0 < n)%nat ->
  (forall e, In e s -> (index_of (fst e) rperm < n)%nat) ->
  (fold_left (fun m (e : nat * Q) => Nat.max m (index_of (fst e) rperm)) s m0 < n)%nat.
Proof.
  induction s as [|e s IH]; intros m0 H0 H; simpl; [exact H0|].
  apply IH; [|intros e' He'; apply H; right; exact He'].
  pose proof (H e (or_introl eq_refl)). lia.
Qed.

Section Update.
  Variable r : repr.
  Variable col_p : nat.
  Variable s : sparse.
  Hypothesis SF : sfacts r.
  Local Notation n := (f_dim r).
  Hypothesis Hcol : (col_p < n)%nat.
  Hypothesis Hs : ind_lt n s = true.
  Local Notation p := (index_of col_p (f_cperm r)).
  Local Notation q := (spike_rank (f_rperm r) s).
  Local Notation row_p := (rk r p).
  Hypothesis Hpq : (p <= q)%nat.

  Local Notation Ut := (up_Ut r col_p s).
  Local Notation Ue := (up_Ue r col_p s row_p).
  Local Notation w := (fst (up_elim r col_p s row_p p q)).
  Local Notation eta := (snd (up_elim r col_p s row_p p q)).
  Local Notation U' := (up_U r col_p s row_p p q).
  Local Notation r' := (up_repr r col_p s row_p p q).
  Local Notation sg := (sigma p q).

  Lemma p_lt : (p < n)%nat. Proof. exact (proj1 (ck_surj r SF col_p Hcol)). Qed.
  Lemma ck_p : ck r p = col_p. Proof. exact (proj2 (ck_surj r SF col_p Hcol)). Qed.
  Lemma q_lt : (q < n)%nat.
  Proof.
    unfold spike_rank. apply fold_max_lt; [pose proof p_lt; lia|].
    intros e He. unfold ind_lt in Hs. rewrite forallb_forall in Hs. specialize (Hs e He). apply Nat.ltb_lt in Hs.
    exact (proj1 (rk_surj r SF (fst e) Hs)).
  Qed.
  Lemma row_p_lt : (row_p < n)%nat. Proof. apply rk_lt; [exact SF|exact p_lt]. Qed.

  Lemma update_spike_unfold :
    update_spike r col_p s = if Qeq_bool (qnth w col_p) 0 then None else Some r'.
  Proof.
    unfold update_spike. destruct (U_head r SF p p_lt) as (piv & rest & E). rewrite ck_p in E. rewrite E.
    cbv zeta. destruct (Nat.ltb_spec q p); [lia|]. reflexivity.
  Qed.

  (* the new permutations *)
  Lemma rk'_eq k : (k < n)%nat -> nth k (shift (f_rperm r) p q) 0%nat = rk r (sg k).
  Proof. intros Hk. rewrite shift_nth by (rewrite (sf_rlen r SF); exact Hk). reflexivity. Qed.
  Lemma ck'_eq k : (k < n)%nat -> nth k (shift (f_cperm r) p q) 0%nat = ck r (sg k).
  Proof. intros Hk. rewrite shift_nth by (rewrite (sf_clen r SF); exact Hk). reflexivity. Qed.
  Lemma sg_lt k : (k < n)%nat -> (sg k < n)%nat.
  Proof. intros Hk. apply sigma_lt; [exact Hpq|exact q_lt|exact Hk]. Qed.

  Lemma cperm'_ok : perm_ok n (shift (f_cperm r) p q) = true.
  Proof.
    apply perm_ok_intro; [rewrite shift_length; exact (sf_clen r SF)|].
    apply (shift_perm n); [exact Hpq|exact q_lt|exact (sf_clen r SF)|exact (sf_ccov r SF)].
  Qed.
  Lemma rperm'_ok : perm_ok n (shift (f_rperm r) p q) = true.
  Proof.
    apply perm_ok_intro; [rewrite shift_length; exact (sf_rlen r SF)|].
    apply (shift_perm n); [exact Hpq|exact q_lt|exact (sf_rlen r SF)|exact (sf_rcov r SF)].
  Qed.
  Lemma ck'_index k : (k < n)%nat -> index_of (ck r (sg k)) (shift (f_cperm r) p q) = k.
  Proof.
    intros Hk. rewrite <- ck'_eq by exact Hk. destruct (perm_ok_spec n _ cperm'_ok) as (L & _ & ND).
    apply index_of_nth; [exact ND|rewrite L; exact Hk].
  Qed.
  Lemma rk'_index k : (k < n)%nat -> index_of (rk r (sg k)) (shift (f_rperm r) p q) = k.
  Proof.
    intros Hk. rewrite <- rk'_eq by exact Hk. destruct (perm_ok_spec n _ rperm'_ok) as (L & _ & ND).
    apply index_of_nth; [exact ND|rewrite L; exact Hk].
  Qed.
  (* every column / row has a new rank *)
  Lemma col_rank' j : (j < n)%nat -> exists k, (k < n)%nat /\ j = ck r (sg k).
  Proof.
    intros Hj. destruct (ck_surj r SF j Hj) as [A B].
    destruct (sigma_surj p q n _ Hpq q_lt A) as (k & Hk & E). exists k. split; [exact Hk|]. rewrite E. symmetry. exact B.
  Qed.
  Lemma row_rank' i : (i < n)%nat -> exists k, (k < n)%nat /\ i = rk r (sg k).
  Proof.
    intros Hi. destruct (rk_surj r SF i Hi) as [A B].
    destruct (sigma_surj p q n _ Hpq q_lt A) as (k & Hk & E). exists k. split; [exact Hk|]. rewrite E. symmetry. exact B.
  Qed.

  (* ---- the rows used by the elimination ------------------------------------------------------------------ *)
  Lemma crs_eq : up_crs r p q = map (fun k => (ck r (S k), rk r (S k))) (seq p (q - p)).
  Proof.
    unfold up_crs. apply map_ext_in. intros k Hk. apply in_seq in Hk. pose proof q_lt.
    rewrite ck'_eq, rk'_eq by lia. rewrite sigma_mid by lia. reflexivity.
  Qed.

  Lemma Ut_off i j : j <> col_p -> Ut i j = Ucf r i j.
  Proof. intros H. unfold up_Ut. destruct (Nat.eqb_spec j col_p); [contradiction|reflexivity]. Qed.
  Lemma Ut_col i : Ut i col_p = coefAt s i.
  Proof. unfold up_Ut. rewrite Nat.eqb_refl. reflexivity. Qed.
  Lemma Ue_off i j : i <> row_p -> Ue i j = Ut i j.
  Proof. intros H. unfold up_Ue. destruct (Nat.eqb_spec i row_p); [contradiction|reflexivity]. Qed.
  Lemma Ue_row j : Ue row_p j = 0.
  Proof. unfold up_Ue. rewrite Nat.eqb_refl. reflexivity. Qed.

  Lemma rk_ne_row t : (t < n)%nat -> t <> p -> rk r t <> row_p.
  Proof. intros Ht Hne E. apply Hne. apply (rk_inj r SF); [exact Ht|exact p_lt|exact E]. Qed.
  Lemma ck_ne_col t : (t < n)%nat -> t <> p -> ck r t <> col_p.
  Proof. intros Ht Hne E. apply Hne. apply (ck_inj r SF); [exact Ht|exact p_lt|]. rewrite ck_p. exact E. Qed.

  (* the spike has no entry beyond rank q *)
  Lemma spike_high t : (q < t)%nat -> (t < n)%nat -> coefAt s (rk r t) == 0.
  Proof. intros H Ht. apply (spike_rank_zero (f_rperm r)). rewrite (rk_index r SF t Ht). exact H. Qed.

  Lemma elimP_crs : forall len m done, (p <= m)%nat -> (m + len = q)%nat ->
    (forall d, In d done -> exists t, (p <= t < m)%nat /\ d = ck r (S t)) ->
    elimP Ue done (map (fun k => (ck r (S k), rk r (S k))) (seq m len)).
  Proof.
    pose proof q_lt as Hq.
    induction len as [|len IH]; intros m done Hm Hl D; [exact I|].
    cbn [seq map elimP fst snd]. split.
    - intros d Hd. destruct (D d Hd) as (t & Ht & ->).
      rewrite Ue_off by (apply rk_ne_row; lia). rewrite Ut_off by (apply ck_ne_col; lia).
      apply (U_tri r SF); lia.
    - apply IH; [lia|lia|]. intros d [<-|Hd]; [exists m; split; [lia|reflexivity]|].
      destruct (D d Hd) as (t & Ht & ->). exists t. split; [lia|reflexivity].
  Qed.

  Lemma elim_facts :
    (forall j, (j < n)%nat -> qnth w j + sumn n (fun i => coefAt eta i * Ue i j) == Ut row_p j) /\
    (forall k, (p <= k < q)%nat -> qnth w (ck r (S k)) == 0) /\
    (forall i, (forall k, (p <= k < q)%nat -> rk r (S k) <> i) -> coefAt eta i == 0) /\
    ind_lt n eta = true.
  Proof.
    pose proof q_lt as Hq. unfold up_elim. rewrite crs_eq.
    set (crs := map (fun k => (ck r (S k), rk r (S k))) (seq p (q - p))).
    assert (W : forall cr, In cr crs -> (fst cr < n)%nat /\ (snd cr < n)%nat /\ ~ Ue (snd cr) (fst cr) == 0).
    { intros cr H. apply in_map_iff in H. destruct H as (k & <- & Hk). apply in_seq in Hk. cbn [fst snd].
      split; [apply ck_lt; [exact SF|lia]|]. split; [apply rk_lt; [exact SF|lia]|].
      rewrite Ue_off by (apply rk_ne_row; lia). rewrite Ut_off by (apply ck_ne_col; lia). apply (U_piv r SF). lia. }
    pose proof (elim_fold_spec n Ue crs [] (mkvec n (fun j => Ut row_p j)) [] W
                  (elimP_crs (q - p) p [] (Nat.le_refl p) ltac:(lia) (fun d H => match H with end))
                  (fun d H => match H with end) eq_refl) as S.
    cbv zeta in S. destruct S as (R & Z & K & I1). split; [|split; [|split]].
    - intros j Hj. rewrite (R j Hj). rewrite qnth_mkvec by exact Hj.
      assert (E0 : sumn n (fun i => coefAt (@nil (nat * Q)) i * Ue i j) == 0) by (apply sumn_0; intros; simpl; ring).
      rewrite E0. ring.
    - intros k Hk. apply Z. right. apply in_map_iff. exists (ck r (S k), rk r (S k)). split; [reflexivity|].
      apply in_map_iff. exists k. split; [reflexivity|]. apply in_seq. lia.
    - intros i Hi. rewrite (K i); [reflexivity|]. intros cr H. apply in_map_iff in H. destruct H as (k & <- & Hk).
      apply in_seq in Hk. cbn [snd]. apply Hi. lia.
    - exact I1.
  Qed.

  (* multipliers sit on rows of old rank p+1 .. q only *)
  Lemma eta_support i : (i < n)%nat -> ~ (p < index_of i (f_rperm r) <= q)%nat -> coefAt eta i == 0.
  Proof.
    intros Hi H. destruct elim_facts as (_ & _ & K & _). apply K. intros k Hk E. apply H.
    rewrite <- E. rewrite (rk_index r SF) by (pose proof q_lt; lia). lia.
  Qed.
  Lemma eta_row_p : coefAt eta row_p == 0.
  Proof. apply eta_support; [exact row_p_lt|]. rewrite (rk_index r SF p p_lt). lia. Qed.

  (* the eliminated row vanishes on all columns of new rank < q *)
  Lemma w_low k : (k < q)%nat -> qnth w (ck r (sg k)) == 0.
  Proof.
    intros Hk. pose proof q_lt as Hq. destruct elim_facts as (R & Z & _ & _).
    destruct (Nat.lt_ge_cases k p) as [Hlo|Hhi].
    - rewrite sigma_low by exact Hlo.
      assert (Hj : (ck r k < n)%nat) by (apply ck_lt; [exact SF|lia]).
      pose proof (R (ck r k) Hj) as E.
      assert (E1 : Ut row_p (ck r k) == 0).
      { rewrite Ut_off by (apply ck_ne_col; lia). apply (U_tri r SF); [exact Hlo|exact p_lt]. }
      assert (E2 : sumn n (fun i => coefAt eta i * Ue i (ck r k)) == 0).
      { apply sumn_0. intros i Hi.
        destruct (rk_surj r SF i Hi) as [A B]. set (t := index_of i (f_rperm r)) in *.
        destruct (Nat.lt_ge_cases p t) as [H1|H1].
        - destruct (Nat.le_gt_cases t q) as [H2|H2].
          + rewrite <- B. rewrite Ue_off by (apply rk_ne_row; lia). rewrite Ut_off by (apply ck_ne_col; lia).
            rewrite (U_tri r SF k t) by lia. ring.
          + rewrite (eta_support i Hi) by (fold t; lia). ring.
        - rewrite (eta_support i Hi) by (fold t; lia). ring. }
      rewrite E1, E2 in E. lra.
    - rewrite sigma_mid by lia. apply Z. lia.
  Qed.

  (* ---- the new U ------------------------------------------------------------------------------------------- *)
  Lemma U'_off i j : i <> row_p -> U' i j = Ut i j.
  Proof. intros H. unfold up_U. destruct (Nat.eqb_spec i row_p); [contradiction|reflexivity]. Qed.

  Lemma U'_row j : (j < n)%nat -> U' row_p j == qnth w j.
  Proof.
    intros Hj. unfold up_U. rewrite Nat.eqb_refl. destruct (col_rank' j Hj) as (k & Hk & ->).
    rewrite ck'_index by exact Hk. destruct (Nat.leb_spec q k); [reflexivity|]. symmetry. apply w_low. lia.
  Qed.

  (* row row_p of the new U = row row_p of Ut minus the multiples of the rows used *)
  Lemma U'_row_elim j : (j < n)%nat -> U' row_p j == Ut row_p j - sumn n (fun i => coefAt eta i * Ue i j).
  Proof. intros Hj. rewrite (U'_row j Hj). destruct elim_facts as (R & _). rewrite <- (R j Hj). ring. Qed.

  Hypothesis Hpiv : ~ qnth w col_p == 0.

  Lemma U'_tri k t : (k < t)%nat -> (t < n)%nat -> U' (rk r (sg t)) (ck r (sg k)) == 0.
  Proof.
    intros Hkt Ht. pose proof q_lt as Hq.
    destruct (Nat.eq_dec t q) as [->|Htq].
    - rewrite sigma_q by exact Hpq. unfold up_U. rewrite Nat.eqb_refl. rewrite ck'_index by lia.
      destruct (Nat.leb_spec q k); [lia|reflexivity].
    - assert (Hr : rk r (sg t) <> row_p).
      { apply rk_ne_row; [apply sg_lt; exact Ht|]. intros E. apply Htq. apply (sigma_eq_p p q); assumption. }
      rewrite U'_off by exact Hr.
      destruct (Nat.eq_dec k q) as [->|Hkq].
      + rewrite sigma_q by exact Hpq. rewrite ck_p, Ut_col. rewrite sigma_high by lia. apply spike_high; lia.
      + rewrite Ut_off.
        * apply (U_tri r SF); [apply sigma_mono; assumption|apply sg_lt; exact Ht].
        * apply ck_ne_col; [apply sg_lt; lia|]. intros E. apply Hkq. apply (sigma_eq_p p q); assumption.
  Qed.

  Lemma U'_piv k : (k < n)%nat -> ~ U' (rk r (sg k)) (ck r (sg k)) == 0.
  Proof.
    intros Hk. destruct (Nat.eq_dec k q) as [->|Hkq].
    - rewrite sigma_q by exact Hpq. rewrite ck_p. rewrite (U'_row col_p Hcol). exact Hpiv.
    - assert (Hne : sg k <> p) by (intros E; apply Hkq; apply (sigma_eq_p p q); assumption).
      rewrite U'_off by (apply rk_ne_row; [apply sg_lt; exact Hk|exact Hne]).
      rewrite Ut_off by (apply ck_ne_col; [apply sg_lt; exact Hk|exact Hne]).
      apply (U_piv r SF). apply sg_lt. exact Hk.
  Qed.

  (* ---- the new representation is well formed ----------------------------------------------------------------- *)
  Lemma nth_map_seq {A} (F : nat -> A) (d : A) m j : (j < m)%nat -> nth j (map F (seq 0 m)) d = F j.
  Proof.
    intros H. rewrite (nth_indep _ d (F m)) by (rewrite map_length, seq_length; exact H).
    rewrite (map_nth F (seq 0 m) m j). rewrite seq_nth by exact H. reflexivity.
  Qed.

  Lemma rk_r' k : rk r' k = nth k (shift (f_rperm r) p q) 0%nat. Proof. reflexivity. Qed.
  Lemma ck_r' k : ck r' k = nth k (shift (f_cperm r) p q) 0%nat. Proof. reflexivity. Qed.

  Lemma uc'_nth k : (k < n)%nat ->
    nth (ck r (sg k)) (f_uc r') [] = tab_line n (rk r (sg k)) (fun i => U' i (ck r (sg k))).
  Proof.
    intros Hk. unfold up_repr. cbn [f_uc].
    rewrite nth_map_seq by (apply ck_lt; [exact SF|apply sg_lt; exact Hk]).
    rewrite ck'_index by exact Hk. rewrite rk'_eq by exact Hk. reflexivity.
  Qed.
  Lemma ur'_nth k : (k < n)%nat ->
    nth (rk r (sg k)) (f_ur r') [] = tab_line n (ck r (sg k)) (fun j => U' (rk r (sg k)) j).
  Proof.
    intros Hk. unfold up_repr. cbn [f_ur].
    rewrite nth_map_seq by (apply rk_lt; [exact SF|apply sg_lt; exact Hk]).
    rewrite rk'_index by exact Hk. rewrite ck'_eq by exact Hk. reflexivity.
  Qed.

  Lemma Ucf'_eq i j : (i < n)%nat -> (j < n)%nat -> Ucf r' i j == U' i j.
  Proof.
    intros Hi Hj. destruct (col_rank' j Hj) as (k & Hk & ->). unfold Ucf. rewrite uc'_nth by exact Hk.
    apply (coefAt_tab_line n (rk r (sg k)) (fun i0 => U' i0 (ck r (sg k))) i Hi).
  Qed.
  Lemma Urf'_eq i j : (i < n)%nat -> (j < n)%nat -> Urf r' i j == U' i j.
  Proof.
    intros Hi Hj. destruct (row_rank' i Hi) as (k & Hk & ->). unfold Urf. rewrite ur'_nth by exact Hk.
    apply (coefAt_tab_line n (ck r (sg k)) (fun j => U' (rk r (sg k)) j)). exact Hj.
  Qed.

  Lemma perm'_lt (l : list nat) : length l = n -> forallb (fun i => Nat.ltb i n) l = true ->
    forallb (fun i => Nat.ltb i n) (shift l p q) = true.
  Proof.
    intros L W. rewrite forallb_forall in W. apply forallb_forall. intros x Hx.
    destruct (In_nth _ _ 0%nat Hx) as (k & Hk & <-). rewrite shift_length in Hk. rewrite shift_nth by exact Hk.
    apply W. apply nth_In. rewrite L. apply sg_lt. lia.
  Qed.

  Lemma wf_r' : wf_repr r' = true.
  Proof.
    destruct (wf_parts r SF) as (W1 & W2 & W3 & W4 & W5 & W6 & W7).
    destruct elim_facts as (_ & _ & _ & I1).
    unfold wf_repr, up_repr. cbn [f_dim f_lc f_lr f_er f_uc f_ur f_rperm f_cperm].
    rewrite W1, W2. cbn [andb].
    assert (E : forallb (wf_eta n) (match eta with [] => f_er r | _ :: _ => f_er r ++ [(row_p, eta)] end) = true).
    { destruct (snd (up_elim r col_p s row_p p q)) eqn:Ee; [exact W3|].
      rewrite forallb_app, W3. cbn [forallb andb]. rewrite andb_true_r. unfold wf_eta. cbn [fst snd].
      rewrite I1, andb_true_r. apply Nat.ltb_lt. exact row_p_lt. }
    rewrite E. cbn [andb].
    assert (EC : forallb (ind_lt n) (map (fun j => tab_line n (nth (index_of j (shift (f_cperm r) p q)) (shift (f_rperm r) p q) 0%nat)
                                                    (fun i => U' i j)) (seq 0 n)) = true).
    { apply forallb_forall. intros l Hl. apply in_map_iff in Hl. destruct Hl as (j & <- & Hj). apply in_seq in Hj.
      apply ind_lt_tab_line. destruct (col_rank' j ltac:(lia)) as (k & Hk & ->).
      rewrite ck'_index, rk'_eq by exact Hk. apply rk_lt; [exact SF|apply sg_lt; exact Hk]. }
    assert (ER : forallb (ind_lt n) (map (fun i => tab_line n (nth (index_of i (shift (f_rperm r) p q)) (shift (f_cperm r) p q) 0%nat)
                                                    (fun j => U' i j)) (seq 0 n)) = true).
    { apply forallb_forall. intros l Hl. apply in_map_iff in Hl. destruct Hl as (i & <- & Hi). apply in_seq in Hi.
      apply ind_lt_tab_line. destruct (row_rank' i ltac:(lia)) as (k & Hk & ->).
      rewrite rk'_index, ck'_eq by exact Hk. apply ck_lt; [exact SF|apply sg_lt; exact Hk]. }
    rewrite EC, ER. cbn [andb].
    rewrite (perm'_lt _ (sf_rlen r SF) W6), (perm'_lt _ (sf_clen r SF) W7). reflexivity.
  Qed.

  Theorem sfacts_r' : sfacts r'.
  Proof.
    destruct (perm_ok_spec n _ rperm'_ok) as (RL & RC & _). destruct (perm_ok_spec n _ cperm'_ok) as (CL & CC & _).
    constructor; try assumption.
    - exact wf_r'.
    - intros k Hk. change (f_dim r') with n in Hk. unfold line_ok. rewrite rk_r', ck_r', rk'_eq, ck'_eq by exact Hk.
      rewrite uc'_nth by exact Hk. unfold tab_line. eexists. eexists. split; [reflexivity|]. split.
      + rewrite Qred_correct. apply U'_piv. exact Hk.
      + intros t Ht. change (f_dim r') with n in Ht. rewrite rk_r', rk'_eq by lia.
        rewrite tab_rest_coef by (apply rk_lt; [exact SF|apply sg_lt; lia]).
        destruct (Nat.eqb (rk r (sg t)) (rk r (sg k))) eqn:E; [reflexivity|].
        destruct (Nat.eq_dec t k) as [->|Hne]; [rewrite Nat.eqb_refl in E; discriminate|].
        apply U'_tri; lia.
    - intros k Hk. change (f_dim r') with n in Hk. unfold line_ok. rewrite rk_r', ck_r', rk'_eq, ck'_eq by exact Hk.
      rewrite ur'_nth by exact Hk. unfold tab_line. eexists. eexists. split; [reflexivity|]. split.
      + rewrite Qred_correct. apply U'_piv. exact Hk.
      + intros t Ht. rewrite ck_r', ck'_eq by lia.
        rewrite (tab_rest_coef n (ck r (sg k)) (fun j => U' (rk r (sg k)) j)) by (apply ck_lt; [exact SF|apply sg_lt; lia]).
        destruct (Nat.eqb (ck r (sg t)) (ck r (sg k))) eqn:E; [reflexivity|].
        destruct (Nat.eq_dec t k) as [->|Hne]; [rewrite Nat.eqb_refl in E; discriminate|].
        apply U'_tri; lia.
    - intros i j Hi Hj. change (f_dim r') with n in Hi, Hj. rewrite Ucf'_eq, Urf'_eq by assumption. reflexivity.
  Qed.
End Update.

(* ================================================================================================= the update keeps the factorization *)
Section UpdateRep.
  Variable r : repr.
  Variable col_p : nat.
  Variable s : sparse.
  Hypothesis SF : sfacts r.
  Local Notation n := (f_dim r).
  Hypothesis Hcol : (col_p < n)%nat.
  Hypothesis Hs : ind_lt n s = true.
  Local Notation p := (index_of col_p (f_cperm r)).
  Local Notation q := (spike_rank (f_rperm r) s).
  Local Notation row_p := (rk r p).
  Hypothesis Hpq : (p <= q)%nat.
  Local Notation Ut := (up_Ut r col_p s).
  Local Notation Ue := (up_Ue r col_p s row_p).
  Local Notation w := (fst (up_elim r col_p s row_p p q)).
  Local Notation eta := (snd (up_elim r col_p s row_p p q)).
  Local Notation U' := (up_U r col_p s row_p p q).
  Local Notation r' := (up_repr r col_p s row_p p q).

  (* the row operation of the new eta on a vector g *)
  Definition Rv (g : nat -> Q) (i : nat) : Q :=
    if Nat.eqb i row_p then g row_p - sumn n (fun l => coefAt eta l * g l) else g i.

  Lemma spike'_spec a i : (i < n)%nat -> qnth (spike r' a) i == Rv (qnth (spike r a)) i.
  Proof.
    intros Hi. destruct (elim_facts r col_p s SF Hcol Hs Hpq) as (_ & _ & _ & I1).
    unfold spike, up_repr, Rv. cbn [f_dim f_lc f_er].
    set (g := fold_left (dot_step n) (f_er r) (fold_left (axpy_step n) (f_lc r) (mkvec n (qnth a)))).
    destruct (snd (up_elim r col_p s row_p p q)) as [|e t] eqn:Ee.
    - fold g. destruct (Nat.eqb_spec i row_p) as [->|_]; [|reflexivity].
      assert (E0 : sumn n (fun l => coefAt (@nil (nat * Q)) l * qnth g l) == 0) by (apply sumn_0; intros; simpl; ring).
      rewrite E0. ring.
    - rewrite fold_left_app. fold g. cbn [fold_left]. rewrite dot_step_spec by assumption. reflexivity.
  Qed.

  Definition Rt (w0 : vec) : vec := mkvec n (fun i => qnth w0 i - qnth w0 row_p * coefAt eta i).

  Lemma bpost'_spec w0 l : (l < n)%nat -> qnth (bpost r' w0) l == qnth (bpost r (Rt w0)) l.
  Proof.
    intros Hl. unfold bpost at 1. unfold up_repr, Rt. cbn [f_dim f_lr f_er].
    destruct (snd (up_elim r col_p s row_p p q)) as [|e t] eqn:Ee.
    - apply (vlin_ext n (bpost r) (bpost_lin r SF)); [|exact Hl]. intros i Hi. rewrite qnth_mkvec by exact Hi.
      simpl. ring.
    - rewrite rev_app_distr. cbn [rev app fold_left].
      change (fold_left (axpy_step n) (rev (f_lr r)) (fold_left (axpy_step n) (rev (f_er r)) (axpy_step n w0 (row_p, e :: t))))
        with (bpost r (axpy_step n w0 (row_p, e :: t))).
      apply (vlin_ext n (bpost r) (bpost_lin r SF)); [|exact Hl]. intros i Hi.
      rewrite axpy_step_spec by exact Hi. rewrite qnth_mkvec by exact Hi. reflexivity.
  Qed.

  Hypothesis Hpiv : ~ qnth w col_p == 0.
  Variable B : mat.
  Variable a : vec.
  Hypothesis Hsp : forall i, (i < n)%nat -> coefAt s i == qnth (spike r a) i.
  Hypothesis F : frep_r r B.

  Lemma Rv_col j i : (i < n)%nat -> (j < n)%nat -> Rv (fun l => Ut l j) i == U' i j.
  Proof.
    intros Hi Hj. unfold Rv. destruct (Nat.eqb_spec i row_p) as [->|NE].
    - rewrite (U'_row_elim r col_p s SF Hcol Hs Hpq j Hj). apply Qplus_comp; [reflexivity|]. apply Qopp_comp.
      apply sumn_ext. intros l Hl. destruct (Nat.eq_dec l row_p) as [->|Hne].
      + rewrite (eta_row_p r col_p s SF Hcol Hs Hpq). ring.
      + rewrite (Ue_off r col_p s) by exact Hne. reflexivity.
    - rewrite (U'_off r col_p s) by exact NE. reflexivity.
  Qed.

  Theorem update_frep : frep_r r' (replace_col n B col_p a).
  Proof.
    destruct F as (FA & FI & FC). pose proof (spike_lin r SF) as GL.
    pose proof (sfacts_r' r col_p s SF Hcol Hs Hpq Hpiv) as SF'.
    unfold frep_r, frep. change (f_dim r') with n. split; [|split].
    - intros i j Hi Hj. rewrite (Ucf'_eq r col_p s SF Hcol Hs Hpq i j Hi Hj). rewrite spike'_spec by exact Hi.
      rewrite <- (Rv_col j i Hi Hj). unfold Rv.
      assert (E : forall l, (l < n)%nat -> qnth (spike r (bcol n (replace_col n B col_p a) j)) l == Ut l j).
      { intros l Hl. unfold up_Ut. destruct (Nat.eqb_spec j col_p) as [->|NE].
        - rewrite (Hsp l Hl). apply (vlin_ext n (spike r) GL); [|exact Hl]. intros i0 Hi0.
          unfold bcol, replace_col. rewrite qnth_mkvec by exact Hi0. rewrite mget_mkmat by assumption.
          rewrite Nat.eqb_refl. reflexivity.
        - rewrite <- (FA l j Hl Hj). apply (vlin_ext n (spike r) GL); [|exact Hl]. intros i0 Hi0.
          unfold bcol, replace_col. rewrite !qnth_mkvec by exact Hi0. rewrite mget_mkmat by assumption.
          destruct (Nat.eqb_spec j col_p); [contradiction|reflexivity]. }
      destruct (Nat.eqb i row_p).
      + rewrite (E (rk r p)) by (apply rk_lt; [exact SF|apply (p_lt r col_p SF Hcol)]).
        apply Qplus_comp; [reflexivity|]. apply Qopp_comp. apply sumn_ext. intros l Hl. rewrite (E l Hl). reflexivity.
      + apply E. exact Hi.
    - intros v Z. apply FI. intros i Hi.
      assert (Zo : forall l, (l < n)%nat -> l <> row_p -> qnth (spike r v) l == 0).
      { intros l Hl Hne. rewrite <- (Z l Hl). rewrite spike'_spec by exact Hl. unfold Rv.
        destruct (Nat.eqb_spec l row_p); [contradiction|reflexivity]. }
      destruct (Nat.eq_dec i row_p) as [->|Hne]; [|apply Zo; assumption].
      pose proof (Z (rk r p) Hi) as Zp. rewrite spike'_spec in Zp by exact Hi. unfold Rv in Zp. rewrite Nat.eqb_refl in Zp.
      assert (E0 : sumn n (fun l => coefAt eta l * qnth (spike r v) l) == 0).
      { apply sumn_0. intros l Hl. destruct (Nat.eq_dec l row_p) as [->|Hne].
        - rewrite (eta_row_p r col_p s SF Hcol Hs Hpq). ring.
        - rewrite (Zo l Hl Hne). ring. }
      rewrite E0 in Zp. lra.
    - intros w0 a'.
      transitivity (sumn n (fun l => qnth (bpost r (Rt w0)) l * qnth a' l)).
      { apply sumn_ext. intros l Hl. rewrite bpost'_spec by exact Hl. reflexivity. }
      rewrite (FC (Rt w0) a').
      set (g := qnth (spike r a')). set (S := sumn n (fun l => coefAt eta l * g l)).
      transitivity (sumn n (fun i => qnth w0 i * g i) - qnth w0 row_p * S).
      + transitivity (sumn n (fun i => qnth w0 i * g i - qnth w0 row_p * (coefAt eta i * g i))).
        * apply sumn_ext. intros i Hi. unfold Rt. rewrite qnth_mkvec by exact Hi. ring.
        * rewrite sumn_sub. rewrite sumn_scale. reflexivity.
      + transitivity (sumn n (fun i => qnth w0 i * g i - (qnth w0 i * S) * (if Nat.eqb i row_p then 1 else 0))).
        * rewrite sumn_sub. rewrite (sumn_delta_r n row_p (fun i => qnth w0 i * S)) by (apply rk_lt; [exact SF|apply (p_lt r col_p SF Hcol)]).
          reflexivity.
        * apply sumn_ext. intros i Hi. rewrite spike'_spec by exact Hi. unfold Rv. fold g. fold S.
          destruct (Nat.eqb i row_p) eqn:E; [apply Nat.eqb_eq in E; rewrite E|]; ring.
  Qed.
End UpdateRep.

(* ================================================================================================= the new pivot *)
(* a triangular system whose right-hand side vanishes beyond rank q' has a solution that vanishes beyond rank q' *)
Lemma tri_zero_prop r (SF : sfacts r) (x g : nat -> Q) q' :
  (forall i, (i < f_dim r)%nat -> sumn (f_dim r) (fun j => Ucf r i j * x j) == g i) ->
  (forall t, (q' < t < f_dim r)%nat -> g (rk r t) == 0) ->
  forall t, (q' < t < f_dim r)%nat -> x (ck r t) == 0.
Proof.
  intros E G.
  assert (H : forall d t, (f_dim r - t <= d)%nat -> (q' < t < f_dim r)%nat -> x (ck r t) == 0).
  { induction d as [|d IH]; intros t Hd Ht; [lia|].
    assert (Ht' : (t < f_dim r)%nat) by lia.
    pose proof (E (rk r t) (rk_lt r SF t Ht')) as Er. rewrite (G t Ht) in Er.
    rewrite (sumn_single (f_dim r) (ck r t)) in Er.
    - pose proof (U_piv r SF t Ht') as Hp.
      destruct (Qeq_dec (x (ck r t)) 0) as [Z|NZ]; [exact Z|]. exfalso. apply Hp.
      apply (Qmult_integral_l (x (ck r t))); [exact NZ|]. rewrite Qmult_comm. exact Er.
    - apply ck_lt; [exact SF|exact Ht'].
    - intros j Hj Hne. destruct (ck_surj r SF j Hj) as [A B]. set (k := index_of j (f_cperm r)) in *.
      destruct (Nat.lt_trichotomy k t) as [Hlt|[Heq|Hgt]].
      + rewrite <- B. rewrite (U_tri r SF k t Hlt Ht'). ring.
      + exfalso. apply Hne. rewrite <- B, Heq. reflexivity.
      + rewrite <- B. rewrite (IH k) by lia. ring. }
  intros t Ht. apply (H (f_dim r) t); lia.
Qed.

Lemma update_spike_cases r col_p s : sfacts r -> (col_p < f_dim r)%nat ->
  update_spike r col_p s =
  if Nat.ltb (spike_rank (f_rperm r) s) (index_of col_p (f_cperm r)) then None
  else if Qeq_bool (qnth (fst (up_elim r col_p s (rk r (index_of col_p (f_cperm r))) (index_of col_p (f_cperm r))
                                       (spike_rank (f_rperm r) s))) col_p) 0 then None
  else Some (up_repr r col_p s (rk r (index_of col_p (f_cperm r))) (index_of col_p (f_cperm r)) (spike_rank (f_rperm r) s)).
Proof.
  intros SF Hcol. unfold update_spike.
  destruct (U_head r SF _ (p_lt r col_p SF Hcol)) as (piv & rest & E). rewrite (ck_p r col_p SF Hcol) in E. rewrite E.
  reflexivity.
Qed.

Section Pivot.
  Variable r : repr.
  Variable col_p : nat.
  Variable s : sparse.
  Hypothesis SF : sfacts r.
  Local Notation n := (f_dim r).
  Hypothesis Hcol : (col_p < n)%nat.
  Hypothesis Hs : ind_lt n s = true.
  Local Notation p := (index_of col_p (f_cperm r)).
  Local Notation q := (spike_rank (f_rperm r) s).
  Local Notation row_p := (rk r p).
  Variable a : vec.
  Hypothesis Hsp : forall i, (i < n)%nat -> coefAt s i == qnth (spike r a) i.
  Local Notation x := (qnth (usolve r (spike r a))).

  Lemma x_high t : (q < t < n)%nat -> x (ck r t) == 0.
  Proof.
    apply (tri_zero_prop r SF x (qnth (spike r a)) q).
    - intros i Hi. apply usolve_spec; assumption.
    - intros t' Ht'. rewrite <- (Hsp _ (rk_lt r SF t' ltac:(lia))). apply (spike_rank_zero (f_rperm r)).
      rewrite (rk_index r SF t') by lia. lia.
  Qed.

  (* rank_r < rank_p: the spike has no entry from rank_p on, component col_p of B^-1 a vanishes *)
  Lemma x_low_rank : (q < p)%nat -> x col_p == 0.
  Proof.
    intros H. rewrite <- (ck_p r col_p SF Hcol). apply x_high. split; [exact H|exact (p_lt r col_p SF Hcol)].
  Qed.

  Hypothesis Hpq : (p <= q)%nat.
  Local Notation Ut := (up_Ut r col_p s).
  Local Notation Ue := (up_Ue r col_p s row_p).
  Local Notation w := (fst (up_elim r col_p s row_p p q)).
  Local Notation eta := (snd (up_elim r col_p s row_p p q)).
  Local Notation z := (fun j => if Nat.eqb j col_p then - (1) else x j).

  Lemma Ut_z i : (i < n)%nat -> sumn n (fun j => Ut i j * z j) == - (Ucf r i col_p * x col_p).
  Proof.
    intros Hi.
    transitivity (sumn n (fun j => Ucf r i j * x j + (if Nat.eqb col_p j then 1 else 0) * (- coefAt s i - Ucf r i col_p * x col_p))).
    - apply sumn_ext. intros j Hj. unfold up_Ut. rewrite (Nat.eqb_sym col_p j).
      destruct (Nat.eqb_spec j col_p) as [->|_]; ring.
    - rewrite sumn_add. rewrite (usolve_spec r SF (spike r a) i Hi).
      rewrite (sumn_delta_l n col_p (fun _ => - coefAt s i - Ucf r i col_p * x col_p) Hcol). rewrite (Hsp i Hi). ring.
  Qed.

  (* new pivot = (B^-1 a)_col_p * old pivot *)
  Theorem new_pivot : qnth w col_p == Ucf r row_p col_p * x col_p.
  Proof.
    pose proof (q_lt r col_p s SF Hcol Hs Hpq) as Hq. pose proof (p_lt r col_p SF Hcol) as Hp.
    destruct (elim_facts r col_p s SF Hcol Hs Hpq) as (R & _ & _ & _).
    assert (E1 : sumn n (fun j => (qnth w j + sumn n (fun i => coefAt eta i * Ue i j)) * z j) == - (Ucf r row_p col_p * x col_p)).
    { rewrite <- (Ut_z row_p (rk_lt r SF p Hp)). apply sumn_ext. intros j Hj. rewrite (R j Hj). reflexivity. }
    assert (E2 : sumn n (fun j => sumn n (fun i => coefAt eta i * Ue i j) * z j) == 0).
    { transitivity (sumn n (fun i => coefAt eta i * sumn n (fun j => Ue i j * z j))).
      - transitivity (sumn n (fun j => sumn n (fun i => Ue i j * coefAt eta i) * z j)).
        + apply sumn_ext. intros j _. apply Qmult_comp; [|reflexivity]. apply sumn_ext. intros i _. ring.
        + symmetry. apply (dot_swap n n (fun i j => Ue i j) (coefAt eta) z).
      - apply sumn_0. intros i Hi. destruct (rk_surj r SF i Hi) as [A Bi]. set (t := index_of i (f_rperm r)) in *.
        destruct (Nat.lt_ge_cases p t) as [H1|H1]; [destruct (Nat.le_gt_cases t q) as [H2|H2]|].
        + assert (Ez : sumn n (fun j => Ue i j * z j) == 0).
          { rewrite <- Bi.
            transitivity (sumn n (fun j => Ut (rk r t) j * z j)).
            - apply sumn_ext. intros j _. rewrite (Ue_off r col_p s) by (apply (rk_ne_row r col_p SF Hcol); lia). reflexivity.
            - rewrite (Ut_z (rk r t) (rk_lt r SF t A)). rewrite <- (ck_p r col_p SF Hcol) at 1.
              rewrite (U_tri r SF p t H1 A). ring. }
          rewrite Ez. ring.
        + rewrite (eta_support r col_p s SF Hcol Hs Hpq i Hi) by (fold t; lia). ring.
        + rewrite (eta_support r col_p s SF Hcol Hs Hpq i Hi) by (fold t; lia). ring. }
    assert (E3 : sumn n (fun j => qnth w j * z j) == - qnth w col_p).
    { rewrite (sumn_single n col_p); [rewrite Nat.eqb_refl; ring|exact Hcol|].
      intros j Hj Hne. destruct (col_rank' r col_p s SF Hcol Hs Hpq j Hj) as (k & Hk & ->).
      destruct (Nat.lt_trichotomy k q) as [Hlt|[Heq|Hgt]].
      - rewrite (w_low r col_p s SF Hcol Hs Hpq k Hlt). ring.
      - exfalso. apply Hne. rewrite Heq, sigma_q by exact Hpq. apply (ck_p r col_p SF Hcol).
      - rewrite sigma_high in * by lia. destruct (Nat.eqb_spec (ck r k) col_p); [contradiction|].
        rewrite (x_high k) by lia. ring. }
    assert (E4 : sumn n (fun j => (qnth w j + sumn n (fun i => coefAt eta i * Ue i j)) * z j) ==
                 sumn n (fun j => qnth w j * z j) + sumn n (fun j => sumn n (fun i => coefAt eta i * Ue i j) * z j)).
    { rewrite <- sumn_add. apply sumn_ext. intros j _. ring. }
    rewrite E4, E2, E3 in E1. lra.
  Qed.

  Lemma pivot_zero_x : qnth w col_p == 0 -> x col_p == 0.
  Proof.
    intros H. rewrite new_pivot in H. pose proof (U_piv r SF p (p_lt r col_p SF Hcol)) as Hp.
    rewrite (ck_p r col_p SF Hcol) in Hp.
    destruct (Qeq_dec (x col_p) 0) as [Z|NZ]; [exact Z|]. exfalso. apply Hp.
    apply (Qmult_integral_l (x col_p)); [exact NZ|]. rewrite Qmult_comm. exact H.
  Qed.
End Pivot.

(* if component k of the solution of B x = a vanishes, B with column k replaced by a is singular *)
Lemma x_zero_singular n B k a (x : vec) : (k < n)%nat -> is_solution n B x a -> qnth x k == 0 ->
  ~ nonsingular n (replace_col n B k a).
Proof.
  intros Hk S Z NS. destruct (nonsingular_inverse n _ NS) as [X HX].
  pose proof (inverse_some_right_kernel n _ X HX) as RK.
  assert (E : (fun j => if Nat.eqb j k then - (1) else qnth x j) k == 0).
  { apply (RK (fun j => if Nat.eqb j k then - (1) else qnth x j)); [|exact Hk]. intros i Hi.
    transitivity (sumn n (fun j => mget B i j * qnth x j + (if Nat.eqb k j then 1 else 0) * (- qnth a i - mget B i k * qnth x k))).
    - apply sumn_ext. intros j Hj. unfold replace_col. rewrite mget_mkmat by assumption. rewrite (Nat.eqb_sym k j).
      destruct (Nat.eqb_spec j k) as [->|_]; ring.
    - rewrite sumn_add. rewrite (S i Hi). rewrite (sumn_delta_l n k (fun _ => - qnth a i - mget B i k * qnth x k) Hk).
      rewrite Z. ring. }
  cbv beta in E. rewrite Nat.eqb_refl in E. discriminate E.
Qed.

(* ================================================================================================= main theorems *)
Lemma Qeq_bool_false_neq a b : Qeq_bool a b = false -> ~ a == b.
Proof. intros H E. apply Qeq_bool_iff in E. rewrite E in H. discriminate. Qed.

(* the update on a spike given as any sparse vector that denotes spike r a (explicit zeros allowed) *)
Theorem update_spike_preserves r B col_p s a r1 :
  struct_ok r = true -> represents r B -> (col_p < f_dim r)%nat ->
  ind_lt (f_dim r) s = true -> (forall i, (i < f_dim r)%nat -> coefAt s i == qnth (spike r a) i) ->
  update_spike r col_p s = Some r1 ->
  struct_ok r1 = true /\ represents r1 (replace_col (f_dim r) B col_p a) /\ f_dim r1 = f_dim r.
Proof.
  intros S0 Rp Hcol Hs Hsp U. apply struct_ok_facts in S0. rewrite (update_spike_cases r col_p s S0 Hcol) in U.
  destruct (Nat.ltb_spec (spike_rank (f_rperm r) s) (index_of col_p (f_cperm r))) as [|Hpq]; [discriminate|].
  destruct (Qeq_bool _ 0) eqn:Ep in U; [discriminate|]. apply Qeq_bool_false_neq in Ep.
  injection U as <-.
  pose proof (sfacts_r' r col_p s S0 Hcol Hs Hpq Ep) as SF'.
  split; [apply struct_ok_facts; exact SF'|]. split; [|reflexivity].
  apply (frep_represents _ _ SF').
  exact (update_frep r col_p s S0 Hcol Hs Hpq Ep B a Hsp (represents_frep r B S0 Rp)).
Qed.

Theorem update_spike_none_singular r B col_p s a :
  struct_ok r = true -> represents r B -> (col_p < f_dim r)%nat ->
  ind_lt (f_dim r) s = true -> (forall i, (i < f_dim r)%nat -> coefAt s i == qnth (spike r a) i) ->
  update_spike r col_p s = None ->
  ~ nonsingular (f_dim r) (replace_col (f_dim r) B col_p a).
Proof.
  intros S0 Rp Hcol Hs Hsp U. apply struct_ok_facts in S0. rewrite (update_spike_cases r col_p s S0 Hcol) in U.
  apply (x_zero_singular (f_dim r) B col_p a (ftran_dense r a) Hcol (proj1 (proj2 Rp a))).
  rewrite ftran_dense_split.
  destruct (Nat.ltb_spec (spike_rank (f_rperm r) s) (index_of col_p (f_cperm r))) as [Hlt|Hpq].
  - exact (x_low_rank r col_p s S0 Hcol a Hsp Hlt).
  - destruct (Qeq_bool _ 0) eqn:Ep in U; [|discriminate]. apply Qeq_bool_iff in Ep.
    exact (pivot_zero_x r col_p s S0 Hcol Hs a Hsp Hpq Ep).
Qed.

(* ILLfactor_ftran_update + ILLfactor_update: replace the column at basis position k by a *)
Theorem update_preserves r B k a r1 :
  struct_ok r = true -> represents r B -> (k < f_dim r)%nat -> update r k a = Some r1 ->
  struct_ok r1 = true /\ represents r1 (replace_col (f_dim r) B k a) /\ f_dim r1 = f_dim r.
Proof.
  intros S0 Rp Hk U. unfold update in U.
  apply (update_spike_preserves r B k (sparsify (f_dim r) (spike r a)) a r1 S0 Rp Hk (ind_lt_sparsify _ _)); [|exact U].
  intros i Hi. apply coefAt_sparsify. exact Hi.
Qed.

Theorem update_none_singular r B k a :
  struct_ok r = true -> represents r B -> (k < f_dim r)%nat -> update r k a = None ->
  ~ nonsingular (f_dim r) (replace_col (f_dim r) B k a).
Proof.
  intros S0 Rp Hk U. unfold update in U.
  apply (update_spike_none_singular r B k (sparsify (f_dim r) (spike r a)) a S0 Rp Hk (ind_lt_sparsify _ _)); [|exact U].
  intros i Hi. apply coefAt_sparsify. exact Hi.
Qed.

(* the update is refused exactly for the singular replacements *)
Theorem update_some_iff_nonsingular r B k a :
  struct_ok r = true -> represents r B -> (k < f_dim r)%nat ->
  ((exists r1, update r k a = Some r1) <-> nonsingular (f_dim r) (replace_col (f_dim r) B k a)).
Proof.
  intros S0 Rp Hk. split.
  - intros [r1 U]. destruct (update_preserves r B k a r1 S0 Rp Hk U) as (_ & R1 & D). rewrite <- D.
    rewrite <- D in R1. exact (represents_nonsingular r1 _ R1).
  - intros NS. destruct (update r k a) as [r1|] eqn:U; [exists r1; reflexivity|].
    exfalso. exact (update_none_singular r B k a S0 Rp Hk U NS).
Qed.

(* the new pivot of an accepted update is (B^-1 a)_k times the old pivot *)
Theorem update_new_pivot r B k a r1 :
  struct_ok r = true -> represents r B -> (k < f_dim r)%nat -> update r k a = Some r1 ->
  let p := index_of k (f_cperm r) in
  Ucf r1 (rk r p) k == Ucf r (rk r p) k * qnth (ftran_dense r a) k.
Proof.
  intros S0 Rp Hk U. cbv zeta. apply struct_ok_facts in S0. unfold update in U.
  set (s := sparsify (f_dim r) (spike r a)) in *.
  assert (Hs : ind_lt (f_dim r) s = true) by apply ind_lt_sparsify.
  assert (Hsp : forall i, (i < f_dim r)%nat -> coefAt s i == qnth (spike r a) i) by (intros i Hi; apply coefAt_sparsify; exact Hi).
  rewrite (update_spike_cases r k s S0 Hk) in U.
  destruct (Nat.ltb_spec (spike_rank (f_rperm r) s) (index_of k (f_cperm r))) as [|Hpq]; [discriminate|].
  destruct (Qeq_bool _ 0) eqn:Ep in U; [discriminate|]. apply Qeq_bool_false_neq in Ep. injection U as <-.
  rewrite (Ucf'_eq r k s S0 Hk Hs Hpq (rk r (index_of k (f_cperm r))) k (rk_lt r S0 _ (p_lt r k S0 Hk)) Hk).
  rewrite (U'_row r k s S0 Hk Hs Hpq k Hk).
  rewrite ftran_dense_split. exact (new_pivot r k s S0 Hk Hs a Hsp Hpq).
Qed.

(* every history of accepted replacements: the representation the model ends in solves with the matrix the history ends in *)
Theorem update_history_preserves : forall h r B r1,
  struct_ok r = true -> represents r B -> (forall ka, In ka h -> (fst ka < f_dim r)%nat) ->
  update_hist r h = Some r1 ->
  struct_ok r1 = true /\ represents r1 (replace_hist (f_dim r) B h) /\ f_dim r1 = f_dim r.
Proof.
  induction h as [|[k a] h IH]; intros r B r1 S0 Rp Hh U; cbn [update_hist replace_hist] in *.
  - injection U as <-. split; [exact S0|]. split; [exact Rp|reflexivity].
  - destruct (update r k a) as [r2|] eqn:U2; [|discriminate].
    destruct (update_preserves r B k a r2 S0 Rp (Hh (k, a) (or_introl eq_refl)) U2) as (S2 & R2 & D2).
    assert (Hh2 : forall ka, In ka h -> (fst ka < f_dim r2)%nat) by (intros ka H; rewrite D2; apply Hh; right; exact H).
    destruct (IH r2 _ r1 S2 R2 Hh2 U) as (S1 & R1 & D1).
    rewrite D2 in R1, D1. split; [exact S1|]. split; [exact R1|exact D1].
Qed.

(* a dump accepted by check_repr and struct_ok is a starting point *)
Corollary checked_history_solves r B h r1 :
  struct_ok r = true -> check_repr r B = true -> (forall ka, In ka h -> (fst ka < f_dim r)%nat) ->
  update_hist r h = Some r1 ->
  forall b, is_solution (f_dim r) (replace_hist (f_dim r) B h) (ftran_dense r1 b) b /\
            is_left_solution (f_dim r) (replace_hist (f_dim r) B h) (btran r1 b) b.
Proof.
  intros S0 C Hh U b. destruct (update_history_preserves h r B r1 S0 (check_repr_represents r B C) Hh U) as (_ & [_ R1] & D1).
  specialize (R1 b). rewrite D1 in R1. exact R1.
Qed.
