(* The Forrest-Tomlin column replacement of factor.c (ILLfactor_ftran_update + ILLfactor_update) as an operation on
   the representation [repr] of Fac/Factor.v (C13 (c)).

   C code                                              model
   ------------------------------------------------    -----------------------------------------------------------
   ILLfactor_ftran_update: upd = a after the L etas     [spike r a]  (the vector the U phase of ftran starts from)
     and the row etas (the vector handed to ftranu)
   row_p = ucindx[uc_inf[col_p].cbeg]                   first index of column col_p of U (pivot first)
   delete_column / create_column (rank_r = largest      column col_p of U := the listed entries of the spike,
     rrank of a listed entry of the spike, from 0)       [rank_r] = max over the LISTED entries (explicit zeros count,
                                                         ftrane2 can leave them)
   rank_p = crank[col_p]                                [index_of col_p cperm]
   shift_permutations (rank_p, rank_r)                  [shift] : ranks rank_p+1..rank_r move down by one, (row_p, col_p)
                                                         gets rank rank_r  (for rank_r < rank_p the C code overwrites
                                                         cperm[rank_r] and ends in E_UPDATE_SINGULAR_*: the model refuses)
   delete_row (row_p) -> xtmp                           [x] = row row_p of U with column col_p replaced
   eliminate_row (dense path): for i = rank_p..rank_r-1 [elim_step] folded over the new ranks rank_p..rank_r-1:
     c = cperm[i]; if work[c] != 0: r = rperm[i];         multiplier = work[c] / U[r][c] (the pivot of row r, stored first),
     mul = work[c]/urcoef[rbeg[r]]; work[c] = 0;          work -= mul * row r (row r already carries its spike entry),
     work -= mul * (rest of row r); eta += (r, mul)       eta entry (r, mul) appended
   sparse_eliminate_row / serow_process                 same multipliers and the same new row in another order of evaluation
                                                         (depth first along the rows instead of rank order): NOT modelled
                                                         separately - the tie compares the values (row etas as sets)
   create_row (work, row_p, rank_r)                     new row row_p = work on the columns of new rank >= rank_r
   er_inf[etacnt] = (row_p, multipliers) if any         [f_er r ++ [(row_p, eta)]] if eta is not empty
   move_pivot: E_UPDATE_SINGULAR_ROW/_COL when the      [None] when work[col_p] = 0 (the new pivot)
     entry (row_p, col_p) is missing
   space management, etamax, refactor requests          not modelled

   The U part of the result is rebuilt canonically ([tab_line]: pivot first, then the other non-zeros by index, values
   reduced); the order of the entries inside a row / column of the C arrays (swap-with-last deletion, append) is not
   modelled - the correspondence compares rows and columns as pivot + set of entries.

   Theorems: Fac/FTUpdateSound.v ([update_preserves], [update_none_singular], [update_history_preserves]). *)
From QSX Require Export Fac.FactorSound.
Local Open Scope Q_scope.

(* ---- the phases of the solves ------------------------------------------------------------------------------ *)
(* L etas, then row etas: what ILLfactor_ftran_update returns as upd *)
Definition spike (r : repr) (a : vec) : vec :=
  let n := f_dim r in
  fold_left (dot_step n) (f_er r) (fold_left (axpy_step n) (f_lc r) (mkvec n (qnth a))).

(* U phase of ftran *)
Definition usolve (r : repr) (v : vec) : vec :=
  let n := f_dim r in
  dense n (snd (fold_left (u_step n (f_uc r)) (rev (combine (f_rperm r) (f_cperm r))) (v, []))).

(* U phase of btran *)
Definition usolve_t (r : repr) (c : vec) : vec :=
  let n := f_dim r in
  dense n (snd (fold_left (u_step n (f_ur r)) (combine (f_cperm r) (f_rperm r)) (mkvec n (qnth c), []))).

(* row etas (newest first), then L by rows: the rest of btran *)
Definition bpost (r : repr) (w : vec) : vec :=
  let n := f_dim r in
  fold_left (axpy_step n) (rev (f_lr r)) (fold_left (axpy_step n) (rev (f_er r)) w).

(* U as a matrix, read from the column form and from the row form *)
Definition Ucf (r : repr) (i j : nat) : Q := coefAt (nth j (f_uc r) []) i.
Definition Urf (r : repr) (i j : nat) : Q := coefAt (nth i (f_ur r) []) j.

(* ---- structural invariant of the U part -------------------------------------------------------------------- *)
Fixpoint index_of (x : nat) (l : list nat) : nat :=
  match l with
  | [] => 0%nat
  | y :: t => if Nat.eqb y x then 0%nat else S (index_of x t)
  end.

(* l has length n and contains 0..n-1 *)
Definition perm_ok (n : nat) (l : list nat) : bool :=
  Nat.eqb (length l) n && forallb (fun i => existsb (Nat.eqb i) l) (seq 0 n).

(* line (qk k) of [lines] starts with the pivot (pk k, piv), piv <> 0, and the rest vanishes at pk t for t in ts *)
Definition line_okb (lines : list sparse) (pk qk : nat -> nat) (k : nat) (ts : list nat) : bool :=
  match nth (qk k) lines [] with
  | (p, piv) :: rest =>
    Nat.eqb p (pk k) && negb (Qeq_bool piv 0) && forallb (fun t => Qeq_bool (coefAt rest (pk t)) 0) ts
  | [] => false
  end.

(* permutations; U by columns is upper triangular in rank order with the pivot stored first; same for U by rows;
   both forms hold the same matrix *)
Definition struct_ok (r : repr) : bool :=
  let n := f_dim r in
  let rk := fun k => nth k (f_rperm r) 0%nat in
  let ck := fun k => nth k (f_cperm r) 0%nat in
  wf_repr r && perm_ok n (f_rperm r) && perm_ok n (f_cperm r) &&
  forallb (fun k => line_okb (f_uc r) rk ck k (seq k (n - k))) (seq 0 n) &&
  forallb (fun k => line_okb (f_ur r) ck rk k (seq 0 (S k))) (seq 0 n) &&
  forallb (fun i => forallb (fun j => Qeq_bool (Ucf r i j) (Urf r i j)) (seq 0 n)) (seq 0 n).

(* ---- the update ---------------------------------------------------------------------------------------------- *)
(* new rank k holds the old rank [sigma p q k]: ranks p+1..q move down by one, old rank p becomes rank q *)
Definition sigma (p q k : nat) : nat :=
  if Nat.ltb k p then k else if Nat.ltb k q then S k else if Nat.eqb k q then p else k.

Definition shift (l : list nat) (p q : nat) : list nat :=
  map (fun k => nth (sigma p q k) l 0%nat) (seq 0 (length l)).

(* one rank of eliminate_row: cr = (column c of that rank, row r of that rank) *)
Definition elim_step (n : nat) (Ue : nat -> nat -> Q) (st : vec * sparse) (cr : nat * nat) : vec * sparse :=
  let v := qnth (fst st) (fst cr) in
  if Qeq_bool v 0 then (vset n (fst st) (fst cr) 0, snd st)
  else
    let mul := rdiv v (Ue (snd cr) (fst cr)) in
    (mkvec n (fun j => if Nat.eqb j (fst cr) then 0 else rsub (qnth (fst st) j) (rmul mul (Ue (snd cr) j))),
     snd st ++ [(snd cr, mul)]).

(* pivot first, then the other non-zero entries of f on 0..n-1 in index order *)
Definition tab_line (n p : nat) (f : nat -> Q) : sparse :=
  (p, Qred (f p)) ::
  flat_map (fun i => if Nat.eqb i p || Qeq_bool (f i) 0 then [] else [(i, Qred (f i))]) (seq 0 n).

(* the non-zero entries of a dense vector: upd as the dense path of ILLfactor_ftran_update builds it *)
Definition sparsify (n : nat) (v : vec) : sparse :=
  flat_map (fun i => if Qeq_bool (qnth v i) 0 then [] else [(i, qnth v i)]) (seq 0 n).

Definition spike_rank (rperm : list nat) (s : sparse) : nat :=
  fold_left (fun m e => Nat.max m (index_of (fst e) rperm)) s 0%nat.

(* U with column col_p replaced by the spike s *)
Definition up_Ut (r : repr) (col_p : nat) (s : sparse) (i j : nat) : Q :=
  if Nat.eqb j col_p then coefAt s i else Ucf r i j.
(* ... and row row_p taken out (delete_row) *)
Definition up_Ue (r : repr) (col_p : nat) (s : sparse) (row_p : nat) (i j : nat) : Q :=
  if Nat.eqb i row_p then 0 else up_Ut r col_p s i j.
(* (column, row) of the new ranks p .. q-1 *)
Definition up_crs (r : repr) (p q : nat) : list (nat * nat) :=
  map (fun k => (nth k (shift (f_cperm r) p q) 0%nat, nth k (shift (f_rperm r) p q) 0%nat)) (seq p (q - p)).
(* eliminate_row: (what is left of row row_p, multipliers) *)
Definition up_elim (r : repr) (col_p : nat) (s : sparse) (row_p p q : nat) : vec * sparse :=
  fold_left (elim_step (f_dim r) (up_Ue r col_p s row_p)) (up_crs r p q)
            (mkvec (f_dim r) (fun j => up_Ut r col_p s row_p j), []).
(* the new U: create_row puts the work vector into row row_p from rank q on *)
Definition up_U (r : repr) (col_p : nat) (s : sparse) (row_p p q : nat) (i j : nat) : Q :=
  if Nat.eqb i row_p
  then (if Nat.leb q (index_of j (shift (f_cperm r) p q)) then qnth (fst (up_elim r col_p s row_p p q)) j else 0)
  else up_Ut r col_p s i j.
Definition up_repr (r : repr) (col_p : nat) (s : sparse) (row_p p q : nat) : repr :=
  let n := f_dim r in
  let cperm' := shift (f_cperm r) p q in
  let rperm' := shift (f_rperm r) p q in
  let eta := snd (up_elim r col_p s row_p p q) in
  {| f_dim := n; f_lc := f_lc r; f_lr := f_lr r;
     f_er := match eta with [] => f_er r | _ => f_er r ++ [(row_p, eta)] end;
     f_uc := map (fun j => tab_line n (nth (index_of j cperm') rperm' 0%nat) (fun i => up_U r col_p s row_p p q i j)) (seq 0 n);
     f_ur := map (fun i => tab_line n (nth (index_of i rperm') cperm' 0%nat) (fun j => up_U r col_p s row_p p q i j)) (seq 0 n);
     f_rperm := rperm'; f_cperm := cperm' |}.

(* ILLfactor_update (f, s, col_p, ..) without space management; s = the spike as a sparse vector (indexed by row) *)
Definition update_spike (r : repr) (col_p : nat) (s : sparse) : option repr :=
  match nth col_p (f_uc r) [] with
  | [] => None
  | (row_p, _) :: _ =>
    let p := index_of col_p (f_cperm r) in
    let q := spike_rank (f_rperm r) s in
    if Nat.ltb q p then None
    else if Qeq_bool (qnth (fst (up_elim r col_p s row_p p q)) col_p) 0 then None
    else Some (up_repr r col_p s row_p p q)
  end.

(* replace the column at basis position col_p by a *)
Definition update (r : repr) (col_p : nat) (a : vec) : option repr :=
  update_spike r col_p (sparsify (f_dim r) (spike r a)).

(* the matrix after the replacement *)
Definition replace_col (n : nat) (B : mat) (k : nat) (a : vec) : mat :=
  mkmat n n (fun i j => if Nat.eqb j k then qnth a i else mget B i j).

(* a history of replacements; None as soon as one is refused *)
Fixpoint update_hist (r : repr) (h : list (nat * vec)) : option repr :=
  match h with
  | [] => Some r
  | (k, a) :: t => match update r k a with Some r' => update_hist r' t | None => None end
  end.
Fixpoint replace_hist (n : nat) (B : mat) (h : list (nat * vec)) : mat :=
  match h with
  | [] => B
  | (k, a) :: t => replace_hist n (replace_col n B k a) t
  end.

(* normal form for comparing two representations entry by entry: every line = pivot + the other non-zero entries sorted
   by index; row etas = entries sorted by index *)
Fixpoint ins_sorted (e : nat * Q) (l : sparse) : sparse :=
  match l with
  | [] => [e]
  | h :: t => if Nat.leb (fst e) (fst h) then e :: l else h :: ins_sorted e t
  end.
Definition sort_sparse (l : sparse) : sparse :=
  fold_right ins_sorted [] (filter (fun e => negb (Qeq_bool (snd e) 0)) (map (fun e => (fst e, Qred (snd e))) l)).
Definition norm_line (l : sparse) : sparse :=
  match l with
  | [] => []
  | (p, v) :: rest => (p, Qred v) :: sort_sparse rest
  end.
Definition sparse_eqb (a b : sparse) : bool :=
  Nat.eqb (length a) (length b) &&
  forallb (fun p => Nat.eqb (fst (fst p)) (fst (snd p)) && Qeq_bool (snd (fst p)) (snd (snd p))) (combine a b).
Definition lines_eqb (a b : list sparse) : bool :=
  Nat.eqb (length a) (length b) && forallb (fun p => sparse_eqb (norm_line (fst p)) (norm_line (snd p))) (combine a b).
Definition etas_eqb (a b : list (nat * sparse)) : bool :=
  Nat.eqb (length a) (length b) &&
  forallb (fun p => Nat.eqb (fst (fst p)) (fst (snd p)) && sparse_eqb (sort_sparse (snd (fst p))) (sort_sparse (snd (snd p))))
          (combine a b).
Definition natlist_eqb (a b : list nat) : bool :=
  Nat.eqb (length a) (length b) && forallb (fun p => Nat.eqb (fst p) (snd p)) (combine a b).
(* U part (both forms), permutations and row etas agree *)
Definition repr_same_u (a b : repr) : bool :=
  lines_eqb (f_uc a) (f_uc b) && lines_eqb (f_ur a) (f_ur b) &&
  natlist_eqb (f_rperm a) (f_rperm b) && natlist_eqb (f_cperm a) (f_cperm b) && etas_eqb (f_er a) (f_er b).
