(* Correctness of the exact linear algebra of Gauss.v, for all dimensions.
   Mathematical layer: matrices as functions nat -> nat -> Q with sumn. *)
From QSX Require Export Fac.Gauss.
Local Open Scope Q_scope.

(* ---- mkvec / mkmat ----------------------------------------------------------- *)

Lemma mkvec_length n f : length (mkvec n f) = n.
Proof. unfold mkvec. rewrite map_length, seq_length. reflexivity. Qed.

Lemma qnth_mkvec n f j : (j < n)%nat -> qnth (mkvec n f) j = f j.
Proof.
  intros H. unfold qnth, mkvec.
  rewrite (nth_indep _ 0 (f 0%nat)) by (rewrite map_length, seq_length; exact H).
  rewrite map_nth. rewrite seq_nth by exact H. reflexivity.
Qed.

Lemma qnth_mkvec_ge n f j : (n <= j)%nat -> qnth (mkvec n f) j = 0.
Proof. intros H. unfold qnth. apply nth_overflow. rewrite mkvec_length. exact H. Qed.

Lemma qnth_nil j : qnth [] j = 0.
Proof. unfold qnth. destruct j; reflexivity. Qed.

Lemma mkmat_length m n f : length (mkmat m n f) = m.
Proof. unfold mkmat. rewrite map_length, seq_length. reflexivity. Qed.

Lemma mrow_mkmat m n f i : (i < m)%nat -> mrow (mkmat m n f) i = mkvec n (f i).
Proof.
  intros H. unfold mrow, mkmat.
  rewrite (nth_indep _ [] (mkvec n (f 0%nat))) by (rewrite map_length, seq_length; exact H).
  rewrite (map_nth (fun i => mkvec n (f i))). rewrite seq_nth by exact H. reflexivity.
Qed.

Lemma mget_mkmat m n f i j : (i < m)%nat -> (j < n)%nat -> mget (mkmat m n f) i j = f i j.
Proof. intros Hi Hj. unfold mget. rewrite mrow_mkmat by exact Hi. apply qnth_mkvec. exact Hj. Qed.

Lemma mrow_map_seq n (g : nat -> vec) i : (i < n)%nat -> mrow (map g (seq 0 n)) i = g i.
Proof.
  intros H. unfold mrow.
  rewrite (nth_indep _ [] (g 0%nat)) by (rewrite map_length, seq_length; exact H).
  rewrite map_nth. rewrite seq_nth by exact H. reflexivity.
Qed.

Lemma qsum_mkvec n f : qsum (mkvec n f) == sumn n f.
Proof. apply qsum_map_seq. Qed.

Lemma dotn_sumn n u v : dotn n u v == sumn n (fun k => qnth u k * qnth v k).
Proof.
  unfold dotn. rewrite qsum_mkvec. apply sumn_ext. intros i _. rarith. reflexivity.
Qed.

Lemma qnth_mat_vec m n A x i : (i < m)%nat ->
  qnth (mat_vec m n A x) i == sumn n (fun j => mget A i j * qnth x j).
Proof. intros H. unfold mat_vec. rewrite qnth_mkvec by exact H. apply dotn_sumn. Qed.

Lemma qnth_vec_mat m n y A j : (j < n)%nat ->
  qnth (vec_mat m n y A) j == sumn m (fun i => qnth y i * mget A i j).
Proof.
  intros H. unfold vec_mat. rewrite qnth_mkvec by exact H. rewrite qsum_mkvec.
  apply sumn_ext. intros i _. rarith. reflexivity.
Qed.

Lemma qnth_unitv n k j : (j < n)%nat -> qnth (unitv n k) j = if Nat.eqb j k then 1 else 0.
Proof. intros H. unfold unitv. apply qnth_mkvec. exact H. Qed.

Lemma qnth_unitv_any n k j : (k < n)%nat -> qnth (unitv n k) j = if Nat.eqb j k then 1 else 0.
Proof.
  intros H. destruct (Nat.lt_ge_cases j n) as [Hj|Hj]; [apply qnth_unitv; exact Hj|].
  unfold unitv. rewrite qnth_mkvec_ge by exact Hj.
  destruct (Nat.eqb_spec j k); [lia|reflexivity].
Qed.

Lemma qnth_axmy n u c v j : (j < n)%nat -> qnth (axmy n u c v) j == qnth u j - c * qnth v j.
Proof. intros H. unfold axmy. rewrite qnth_mkvec by exact H. rarith. reflexivity. Qed.

Lemma qnth_axmy_ge n u c v j : (n <= j)%nat -> qnth (axmy n u c v) j = 0.
Proof. apply qnth_mkvec_ge. Qed.

Lemma qnth_vdiv n u d j : (j < n)%nat -> qnth (vdiv n u d) j == qnth u j / d.
Proof. intros H. unfold vdiv. rewrite qnth_mkvec by exact H. rarith. reflexivity. Qed.

Lemma veqb_true n u v : veqb n u v = true <-> forall j, (j < n)%nat -> qnth u j == qnth v j.
Proof.
  unfold veqb. rewrite forallb_forall. split.
  - intros H j Hj. apply Qeq_bool_iff. apply H. apply in_seq. lia.
  - intros H j Hj. apply in_seq in Hj. apply Qeq_bool_iff. apply H. lia.
Qed.

Lemma vzerob_true n u : vzerob n u = true <-> forall j, (j < n)%nat -> qnth u j == 0.
Proof.
  unfold vzerob. rewrite forallb_forall. split.
  - intros H j Hj. apply Qeq_bool_iff. apply H. apply in_seq. lia.
  - intros H j Hj. apply in_seq in Hj. apply Qeq_bool_iff. apply H. lia.
Qed.

(* ---- functional matrices ---------------------------------------------------------- *)

Definition fmat := nat -> nat -> Q.
Definition fmul (n : nat) (A B : fmat) : fmat := fun i j => sumn n (fun k => A i k * B k j).
Definition fid : fmat := fun i j => if Nat.eqb i j then 1 else 0.
Definition feq (m n : nat) (A B : fmat) : Prop := forall i j, (i < m)%nat -> (j < n)%nat -> A i j == B i j.

Lemma sumn_delta_l n k f : (k < n)%nat -> sumn n (fun i => (if Nat.eqb k i then 1 else 0) * f i) == f k.
Proof.
  intros H. etransitivity.
  - apply (sumn_single n k); [exact H|]. intros i _ Hne. destruct (Nat.eqb_spec k i); [congruence|ring].
  - cbv beta. rewrite Nat.eqb_refl. ring.
Qed.

Lemma sumn_delta_r n k f : (k < n)%nat -> sumn n (fun i => f i * (if Nat.eqb i k then 1 else 0)) == f k.
Proof.
  intros H. etransitivity.
  - apply (sumn_single n k); [exact H|]. intros i _ Hne. destruct (Nat.eqb_spec i k); [congruence|ring].
  - cbv beta. rewrite Nat.eqb_refl. ring.
Qed.

Lemma fmul_assoc n m (A B C : fmat) i j :
  fmul m (fmul n A B) C i j == fmul n A (fmul m B C) i j.
Proof.
  unfold fmul.
  transitivity (sumn m (fun k => sumn n (fun l => A i l * B l k * C k j))).
  - apply sumn_ext. intros k _. rewrite <- sumn_scale_r. reflexivity.
  - rewrite sumn_swap. apply sumn_ext. intros l _. rewrite <- sumn_scale.
    apply sumn_ext. intros k _. ring.
Qed.

Lemma fmul_ext n (A A' B B' : fmat) i j :
  (forall k, (k < n)%nat -> A i k == A' i k) -> (forall k, (k < n)%nat -> B k j == B' k j) ->
  fmul n A B i j == fmul n A' B' i j.
Proof. intros H1 H2. unfold fmul. apply sumn_ext. intros k Hk. rewrite H1, H2 by exact Hk. reflexivity. Qed.

Lemma fmul_id_l n (A : fmat) i j : (i < n)%nat -> fmul n fid A i j == A i j.
Proof. intros H. unfold fmul, fid. apply (sumn_delta_l n i (fun k => A k j)). exact H. Qed.

Lemma fmul_id_r n (A : fmat) i j : (j < n)%nat -> fmul n A fid i j == A i j.
Proof. intros H. unfold fmul, fid. apply (sumn_delta_r n j (fun k => A i k)). exact H. Qed.

(* left inverse -> trivial right kernel ; right inverse -> trivial left kernel *)
Definition right_kernel_trivial (n : nat) (A : fmat) : Prop :=
  forall x : nat -> Q, (forall i, (i < n)%nat -> sumn n (fun j => A i j * x j) == 0) -> forall j, (j < n)%nat -> x j == 0.
Definition left_kernel_trivial (n : nat) (A : fmat) : Prop :=
  forall y : nat -> Q, (forall j, (j < n)%nat -> sumn n (fun i => y i * A i j) == 0) -> forall i, (i < n)%nat -> y i == 0.

Lemma left_inverse_right_kernel n (X A : fmat) :
  feq n n (fmul n X A) fid -> right_kernel_trivial n A.
Proof.
  intros H x Hx j Hj.
  (* x j = sum_k (XA) j k x k = sum_i X j i (sum_k A i k x k) = 0 *)
  transitivity (sumn n (fun k => fmul n X A j k * x k)).
  - symmetry. transitivity (sumn n (fun k => fid j k * x k)).
    + apply sumn_ext. intros k Hk. rewrite (H j k Hj Hk). reflexivity.
    + unfold fid. apply sumn_delta_l. exact Hj.
  - unfold fmul.
    transitivity (sumn n (fun k => sumn n (fun i => X j i * A i k * x k))).
    + apply sumn_ext. intros k _. rewrite <- sumn_scale_r. reflexivity.
    + rewrite sumn_swap. apply sumn_0. intros i Hi.
      transitivity (X j i * sumn n (fun k => A i k * x k)).
      * rewrite <- sumn_scale. apply sumn_ext. intros k _. ring.
      * rewrite (Hx i Hi). ring.
Qed.

Lemma right_inverse_left_kernel n (A X : fmat) :
  feq n n (fmul n A X) fid -> left_kernel_trivial n A.
Proof.
  intros H y Hy i Hi.
  transitivity (sumn n (fun k => y k * fmul n A X k i)).
  - symmetry. transitivity (sumn n (fun k => y k * fid k i)).
    + apply sumn_ext. intros k Hk. rewrite (H k i Hk Hi). reflexivity.
    + unfold fid. apply (sumn_delta_r n i y). exact Hi.
  - unfold fmul.
    transitivity (sumn n (fun k => sumn n (fun l => y k * A k l * X l i))).
    + apply sumn_ext. intros k _. rewrite <- sumn_scale. apply sumn_ext. intros l _. ring.
    + rewrite sumn_swap. apply sumn_0. intros l Hl.
      transitivity (sumn n (fun k => y k * A k l) * X l i).
      * rewrite <- sumn_scale_r. apply sumn_ext. intros k _. ring.
      * rewrite (Hy l Hl). ring.
Qed.

(* ---- the elimination ----------------------------------------------------------------- *)

Lemma find_nz_some v : forall j0 c, find_nz v j0 = Some c ->
  (j0 <= c < j0 + length v)%nat /\ ~ qnth v (c - j0) == 0.
Proof.
  induction v as [|a v IH]; intros j0 c H; simpl in H; [discriminate|].
  destruct (Qeq_bool a 0) eqn:E.
  - apply IH in H. destruct H as [H1 H2]. simpl. split; [lia|].
    replace (c - j0)%nat with (S (c - S j0)) by lia. exact H2.
  - inversion H; subst. simpl. split; [lia|]. rewrite Nat.sub_diag. unfold qnth; simpl.
    intros C. apply Qeq_bool_iff in C. congruence.
Qed.

Lemma find_nz_none v : forall j0, find_nz v j0 = None -> forall i, qnth v i == 0.
Proof.
  induction v as [|a v IH]; intros j0 H i; simpl in H.
  - rewrite qnth_nil. reflexivity.
  - destruct (Qeq_bool a 0) eqn:E; [|discriminate].
    destruct i as [|i]; [apply Qeq_bool_iff; exact E|]. exact (IH _ H i).
Qed.

Section GJ.
  Variable n : nat.
  Variable A : mat.

  Definition rowcomb (x : vec) (j : nat) : Q := sumn n (fun i => qnth x i * mget A i j).

  Lemma rowcomb_axmy x c v j : rowcomb (axmy n x c v) j == rowcomb x j - c * rowcomb v j.
  Proof.
    unfold rowcomb.
    transitivity (sumn n (fun i => qnth x i * mget A i j - c * (qnth v i * mget A i j))).
    - apply sumn_ext. intros i Hi. rewrite qnth_axmy by exact Hi. ring.
    - rewrite sumn_sub. rewrite sumn_scale. reflexivity.
  Qed.

  Lemma rowcomb_vdiv x d j : rowcomb (vdiv n x d) j == rowcomb x j / d.
  Proof.
    unfold rowcomb.
    transitivity (sumn n (fun i => / d * (qnth x i * mget A i j))).
    - apply sumn_ext. intros i Hi. rewrite qnth_vdiv by exact Hi. unfold Qdiv. ring.
    - rewrite sumn_scale. unfold Qdiv. ring.
  Qed.

  Lemma rowcomb_unitv k j : (k < n)%nat -> rowcomb (unitv n k) j == mget A k j.
  Proof.
    intros H. unfold rowcomb.
    transitivity (sumn n (fun i => (if Nat.eqb k i then 1 else 0) * mget A i j)).
    - apply sumn_ext. intros i Hi. rewrite qnth_unitv by exact Hi. rewrite (Nat.eqb_sym i k). reflexivity.
    - apply (sumn_delta_l n k (fun i => mget A i j)). exact H.
  Qed.

  Record inv (k : nat) (ps : list prow) : Prop := {
    inv_pc : forall p, In p ps -> (pc p < n)%nat;
    inv_xa : forall p, In p ps -> forall j, (j < n)%nat -> rowcomb (px p) j == qnth (pa p) j;
    inv_delta : forall p q, In p ps -> In q ps ->
                qnth (pa p) (pc q) == if Nat.eqb (pc p) (pc q) then 1 else 0;
    inv_nodup : NoDup (map pc ps);
    inv_supp : forall p, In p ps -> forall i, (k <= i < n)%nat -> qnth (px p) i == 0;
    inv_len : length ps = k }.

  Lemma inv_nil : inv 0 [].
  Proof. constructor; simpl; try (intros; contradiction); try reflexivity. constructor. Qed.

  Definition lin (r : vec * vec) : Prop := forall j, (j < n)%nat -> rowcomb (snd r) j == qnth (fst r) j.

  Lemma red1_lin r p : lin r -> (forall j, (j < n)%nat -> rowcomb (px p) j == qnth (pa p) j) -> lin (red1 n r p).
  Proof.
    intros L Hp j Hj. unfold red1. cbn [fst snd]. rewrite rowcomb_axmy, qnth_axmy by exact Hj.
    rewrite (L j Hj), (Hp j Hj). reflexivity.
  Qed.

  Lemma reduce_lin l : forall r, lin r ->
    (forall p, In p l -> forall j, (j < n)%nat -> rowcomb (px p) j == qnth (pa p) j) -> lin (reduce n l r).
  Proof.
    induction l as [|p l IH]; intros r L H; [exact L|]. unfold reduce; simpl.
    apply IH; [apply red1_lin; [exact L | apply H; left; reflexivity] | intros q Hq; apply H; right; exact Hq].
  Qed.

  Lemma reduce_supp l i : (i < n)%nat -> forall r,
    (forall p, In p l -> qnth (px p) i == 0) -> qnth (snd (reduce n l r)) i == qnth (snd r) i.
  Proof.
    intros Hi. induction l as [|p l IH]; intros r H; [reflexivity|]. unfold reduce; simpl.
    fold (reduce n l (red1 n r p)). rewrite IH by (intros q Hq; apply H; right; exact Hq).
    unfold red1. cbn [snd]. rewrite qnth_axmy by exact Hi. rewrite (H p) by (left; reflexivity). ring.
  Qed.

  Lemma reduce_length l : forall r, length (fst r) = n -> length (fst (reduce n l r)) = n.
  Proof.
    induction l as [|p l IH]; intros r H; [exact H|]. unfold reduce; simpl. apply IH.
    unfold red1, axmy. cbn [fst]. apply mkvec_length.
  Qed.

  Lemma reduce_zero k ps : inv k ps -> forall l r, incl l ps -> NoDup (map pc l) ->
    (forall q, In q l -> qnth (fst (reduce n l r)) (pc q) == 0) /\
    (forall q, In q ps -> ~ In (pc q) (map pc l) -> qnth (fst r) (pc q) == 0 ->
               qnth (fst (reduce n l r)) (pc q) == 0).
  Proof.
    intros I. induction l as [|p l IH]; intros r Hin ND.
    - split; [intros q []|]. intros q _ _ H. exact H.
    - assert (Hp : In p ps) by (apply Hin; left; reflexivity).
      assert (Hl : incl l ps) by (intros q Hq; apply Hin; right; exact Hq).
      inversion ND as [|? ? Hnotin ND']; subst.
      destruct (IH (red1 n r p) Hl ND') as [IH1 IH2].
      unfold reduce; simpl. fold (reduce n l (red1 n r p)).
      assert (Z : qnth (fst (red1 n r p)) (pc p) == 0).
      { unfold red1. cbn [fst]. rewrite qnth_axmy by (apply (inv_pc _ _ I); exact Hp).
        rewrite (inv_delta _ _ I p p Hp Hp). rewrite Nat.eqb_refl. ring. }
      split.
      + intros q [->|Hq]; [|apply IH1; exact Hq]. apply IH2; [exact Hp | exact Hnotin | exact Z].
      + intros q Hq Hnot H0. apply IH2; [exact Hq | intros C; apply Hnot; right; exact C |].
        unfold red1. cbn [fst]. rewrite qnth_axmy by (apply (inv_pc _ _ I); exact Hq).
        rewrite H0. rewrite (inv_delta _ _ I p q Hp Hq).
        destruct (Nat.eqb_spec (pc p) (pc q)) as [E|E]; [exfalso; apply Hnot; left; exact E | ring].
  Qed.

  Lemma gj_step_spec k ps : inv k ps -> (k < n)%nat ->
    match gj_step n ps k (mrow A k) with
    | inl ps' => inv (S k) ps'
    | inr w => (forall j, (j < n)%nat -> rowcomb w j == 0) /\ qnth w k == 1
    end.
  Proof.
    intros I Hk. unfold gj_step.
    set (r0 := (mkvec n (qnth (mrow A k)), unitv n k)).
    set (r := reduce n ps r0).
    assert (L0 : lin r0).
    { intros j Hj. unfold r0. cbn [fst snd]. rewrite rowcomb_unitv by exact Hk.
      rewrite qnth_mkvec by exact Hj. reflexivity. }
    assert (L : lin r) by (apply reduce_lin; [exact L0 | intros p Hp; apply (inv_xa _ _ I); exact Hp]).
    assert (Len : length (fst r) = n) by (apply reduce_length; unfold r0; cbn [fst]; apply mkvec_length).
    assert (Z : forall q, In q ps -> qnth (fst r) (pc q) == 0).
    { destruct (reduce_zero k ps I ps r0 (incl_refl _) (inv_nodup _ _ I)) as [Z _]. exact Z. }
    assert (S0 : forall i, (k <= i < n)%nat -> qnth (snd r) i == if Nat.eqb i k then 1 else 0).
    { intros i Hi. unfold r. rewrite reduce_supp; [|lia|intros p Hp; apply (inv_supp _ _ I); [exact Hp|exact Hi]].
      unfold r0. cbn [snd]. rewrite qnth_unitv by lia. reflexivity. }
    destruct (find_nz (fst r) 0) as [c|] eqn:F.
    - apply find_nz_some in F. destruct F as [Hc Hnz]. rewrite Nat.sub_0_r in Hnz. rewrite Len in Hc.
      assert (Hcn : (c < n)%nat) by lia.
      set (piv := qnth (fst r) c) in *.
      set (a' := vdiv n (fst r) piv). set (x' := vdiv n (snd r) piv).
      assert (Cne : forall q, In q ps -> pc q <> c).
      { intros q Hq E. apply Hnz. unfold piv. rewrite <- E. apply Z. exact Hq. }
      assert (A'c : qnth a' c == 1).
      { unfold a'. rewrite qnth_vdiv by exact Hcn. fold piv. field. exact Hnz. }
      assert (A'q : forall q, In q ps -> qnth a' (pc q) == 0).
      { intros q Hq. unfold a'. rewrite qnth_vdiv by (apply (inv_pc _ _ I); exact Hq).
        rewrite (Z q Hq). field. exact Hnz. }
      assert (XA' : forall j, (j < n)%nat -> rowcomb x' j == qnth a' j).
      { intros j Hj. unfold x', a'. rewrite rowcomb_vdiv, qnth_vdiv by exact Hj. rewrite (L j Hj). reflexivity. }
      constructor.
      + intros p [<-|Hp]; [exact Hcn|]. apply in_map_iff in Hp. destruct Hp as (p0 & <- & Hp0).
        cbn [elim1 pc]. apply (inv_pc _ _ I). exact Hp0.
      + intros p [<-|Hp] j Hj; [cbn [px pa]; apply XA'; exact Hj|].
        apply in_map_iff in Hp. destruct Hp as (p0 & <- & Hp0). cbn [elim1 px pa].
        rewrite rowcomb_axmy, qnth_axmy by exact Hj.
        rewrite (inv_xa _ _ I p0 Hp0 j Hj), (XA' j Hj). reflexivity.
      + intros p q Hp Hq.
        destruct Hp as [<-|Hp]; destruct Hq as [<-|Hq]; cbn [pc pa].
        * rewrite Nat.eqb_refl. exact A'c.
        * apply in_map_iff in Hq. destruct Hq as (q0 & <- & Hq0). cbn [elim1 pc].
          rewrite (A'q q0 Hq0). destruct (Nat.eqb_spec c (pc q0)) as [E|E]; [exfalso; exact (Cne q0 Hq0 (eq_sym E))|reflexivity].
        * apply in_map_iff in Hp. destruct Hp as (p0 & <- & Hp0). cbn [elim1 pc pa].
          rewrite qnth_axmy by exact Hcn. rewrite A'c.
          destruct (Nat.eqb_spec (pc p0) c) as [E|E]; [exfalso; exact (Cne p0 Hp0 E)|ring].
        * apply in_map_iff in Hp. destruct Hp as (p0 & <- & Hp0).
          apply in_map_iff in Hq. destruct Hq as (q0 & <- & Hq0). cbn [elim1 pc pa].
          rewrite qnth_axmy by (apply (inv_pc _ _ I); exact Hq0).
          rewrite (A'q q0 Hq0). rewrite (inv_delta _ _ I p0 q0 Hp0 Hq0). ring.
      + cbn [map pc]. rewrite map_map. cbn [elim1 pc].
        constructor; [|exact (inv_nodup _ _ I)].
        intros C. apply in_map_iff in C. destruct C as (q & E & Hq). exact (Cne q Hq E).
      + assert (X'i : forall i, (S k <= i < n)%nat -> qnth x' i == 0).
        { intros i Hi. unfold x'. rewrite qnth_vdiv by lia. rewrite S0 by lia.
          destruct (Nat.eqb_spec i k); [lia|]. field. exact Hnz. }
        intros p [<-|Hp] i Hi; [cbn [px]; apply X'i; exact Hi|].
        apply in_map_iff in Hp. destruct Hp as (p0 & <- & Hp0). cbn [elim1 px].
        rewrite qnth_axmy by lia. rewrite (X'i i Hi). rewrite (inv_supp _ _ I p0 Hp0 i) by lia. ring.
      + cbn [length]. rewrite map_length. rewrite (inv_len _ _ I). reflexivity.
    - split.
      + intros j Hj. rewrite (L j Hj). exact (find_nz_none _ _ F j).
      + rewrite S0 by lia. rewrite Nat.eqb_refl. reflexivity.
  Qed.

  Lemma gj_loop_spec : forall r k ps, (k + r = n)%nat -> inv k ps ->
    match gj_loop n (map (mrow A) (seq k r)) k ps with
    | inl ps' => inv n ps'
    | inr w => (forall j, (j < n)%nat -> rowcomb w j == 0) /\ exists i, (i < n)%nat /\ qnth w i == 1
    end.
  Proof.
    induction r as [|r IH]; intros k ps Hk I.
    - simpl. replace n with k by lia. exact I.
    - cbn [seq map gj_loop]. pose proof (gj_step_spec k ps I ltac:(lia)) as S.
      destruct (gj_step n ps k (mrow A k)) as [ps'|w].
      + apply IH; [lia|exact S].
      + destruct S as [S1 S2]. split; [exact S1|]. exists k. split; [lia|exact S2].
  Qed.

  (* pigeonhole: n distinct pivot columns below n are all columns *)
  Lemma inv_surj ps : inv n ps -> forall j, (j < n)%nat -> exists p, In p ps /\ pc p = j.
  Proof.
    intros I j Hj.
    assert (H : incl (seq 0 n) (map pc ps)).
    { apply NoDup_length_incl.
      - exact (inv_nodup _ _ I).
      - rewrite seq_length, map_length, (inv_len _ _ I). lia.
      - intros c Hc. apply in_map_iff in Hc. destruct Hc as (p & <- & Hp). apply in_seq.
        pose proof (inv_pc _ _ I p Hp). lia. }
    assert (Hin : In j (map pc ps)) by (apply H; apply in_seq; lia).
    apply in_map_iff in Hin. destruct Hin as (p & E & Hp). exists p. split; assumption.
  Qed.

  Lemma piv_row_spec ps i : inv n ps -> (i < n)%nat ->
    exists p, In p ps /\ pc p = i /\ piv_row ps i = px p.
  Proof.
    intros I Hi. unfold piv_row.
    destruct (find (fun p => Nat.eqb (pc p) i) ps) as [p|] eqn:F.
    - apply find_some in F. destruct F as [Hp E]. apply Nat.eqb_eq in E. exists p. repeat split; assumption.
    - destruct (inv_surj ps I i Hi) as (p & Hp & E).
      pose proof (find_none _ _ F p Hp) as C. cbv beta in C. rewrite E, Nat.eqb_refl in C. discriminate.
  Qed.

  Theorem gauss_inl X : gauss n A = inl X -> feq n n (fmul n (mget X) (mget A)) fid.
  Proof.
    unfold gauss. pose proof (gj_loop_spec n 0 [] ltac:(lia) inv_nil) as S.
    destruct (gj_loop n (map (mrow A) (seq 0 n)) 0 []) as [ps|w]; [|discriminate].
    intros E. inversion E; subst X. clear E.
    intros i j Hi Hj. unfold fmul.
    destruct (piv_row_spec ps i S Hi) as (p & Hp & Ep & Er).
    transitivity (rowcomb (px p) j).
    - unfold rowcomb. apply sumn_ext. intros l _. unfold mget at 1. rewrite mrow_map_seq by exact Hi.
      rewrite Er. reflexivity.
    - rewrite (inv_xa _ _ S p Hp j Hj).
      destruct (inv_surj ps S j Hj) as (q & Hq & Eq). rewrite <- Eq.
      rewrite (inv_delta _ _ S p q Hp Hq). rewrite Ep, Eq. reflexivity.
  Qed.

  Theorem gauss_inr w : gauss n A = inr w ->
    (forall j, (j < n)%nat -> rowcomb w j == 0) /\ exists i, (i < n)%nat /\ qnth w i == 1.
  Proof.
    unfold gauss. pose proof (gj_loop_spec n 0 [] ltac:(lia) inv_nil) as S.
    destruct (gj_loop n (map (mrow A) (seq 0 n)) 0 []) as [ps|w']; [discriminate|].
    intros E. inversion E; subst. exact S.
  Qed.
End GJ.

(* ---- consequences --------------------------------------------------------------------- *)

Definition nonsingular (n : nat) (A : mat) : Prop := left_kernel_trivial n (mget A).

(* a non-zero left null vector *)
Definition left_null (n : nat) (A : mat) (y : vec) : Prop :=
  (forall j, (j < n)%nat -> sumn n (fun i => qnth y i * mget A i j) == 0) /\
  exists i, (i < n)%nat /\ ~ qnth y i == 0.

Lemma left_null_singular n A y : left_null n A y -> ~ nonsingular n A.
Proof.
  intros [H (i & Hi & Hne)] NS. apply Hne. exact (NS (qnth y) H i Hi).
Qed.

Theorem inverse_left n A X : inverse n A = Some X -> feq n n (fmul n (mget X) (mget A)) fid.
Proof.
  unfold inverse. destruct (gauss n A) as [X'|w] eqn:G; [|discriminate].
  intros E. inversion E; subst. apply gauss_inl. exact G.
Qed.

Theorem inverse_none_singular n A : inverse n A = None -> exists y, null_vector n A = Some y /\ left_null n A y.
Proof.
  unfold inverse, null_vector. destruct (gauss n A) as [X'|w] eqn:G; [discriminate|]. intros _.
  exists w. split; [reflexivity|]. destruct (gauss_inr n A w G) as [H (i & Hi & E)].
  split; [exact H|]. exists i. split; [exact Hi|]. rewrite E. discriminate.
Qed.

Theorem inverse_right n A X : inverse n A = Some X -> feq n n (fmul n (mget A) (mget X)) fid.
Proof.
  intros HX. pose proof (inverse_left n A X HX) as L.
  destruct (inverse n X) as [Z|] eqn:HZ.
  - pose proof (inverse_left n X Z HZ) as LZ.
    assert (ZA : forall i k, (i < n)%nat -> (k < n)%nat -> mget A i k == mget Z i k).
    { intros i k Hi Hk.
      transitivity (fmul n fid (mget A) i k); [symmetry; apply fmul_id_l; exact Hi|].
      transitivity (fmul n (fmul n (mget Z) (mget X)) (mget A) i k).
      - apply fmul_ext; [|reflexivity]. intros l Hl. symmetry. apply LZ; assumption.
      - rewrite fmul_assoc.
        transitivity (fmul n (mget Z) fid i k); [|apply fmul_id_r; exact Hk].
        apply fmul_ext; [reflexivity|]. intros l Hl. apply L; assumption. }
    intros i j Hi Hj.
    transitivity (fmul n (mget Z) (mget X) i j); [|apply LZ; assumption].
    apply fmul_ext; [|reflexivity]. intros k Hk. apply ZA; assumption.
  - exfalso. destruct (inverse_none_singular n X HZ) as (y & _ & Hy & (i & Hi & Hne)).
    apply Hne.
    (* y = y (X A) = (y X) A = 0 *)
    transitivity (sumn n (fun k => qnth y k * fmul n (mget X) (mget A) k i)).
    + symmetry. transitivity (sumn n (fun k => qnth y k * fid k i)).
      * apply sumn_ext. intros k Hk. rewrite (L k i Hk Hi). reflexivity.
      * unfold fid. apply (sumn_delta_r n i (qnth y)). exact Hi.
    + unfold fmul.
      transitivity (sumn n (fun k => sumn n (fun l => qnth y k * mget X k l * mget A l i))).
      * apply sumn_ext. intros k _. rewrite <- sumn_scale. apply sumn_ext. intros l _. ring.
      * rewrite sumn_swap. apply sumn_0. intros l Hl.
        transitivity (sumn n (fun k => qnth y k * mget X k l) * mget A l i).
        -- rewrite <- sumn_scale_r. apply sumn_ext. intros k _. ring.
        -- rewrite (Hy l Hl). ring.
Qed.

Theorem inverse_some_nonsingular n A X : inverse n A = Some X -> nonsingular n A.
Proof. intros H. apply (right_inverse_left_kernel n (mget A) (mget X)). apply inverse_right. exact H. Qed.

Theorem inverse_some_right_kernel n A X : inverse n A = Some X -> right_kernel_trivial n (mget A).
Proof. intros H. apply (left_inverse_right_kernel n (mget X) (mget A)). apply inverse_left. exact H. Qed.

Theorem nonsingular_inverse n A : nonsingular n A -> exists X, inverse n A = Some X.
Proof.
  intros NS. destruct (inverse n A) as [X|] eqn:E; [exists X; reflexivity|].
  exfalso. destruct (inverse_none_singular n A E) as (y & _ & Hy). exact (left_null_singular n A y Hy NS).
Qed.

(* decidability of singularity by the algorithm *)
Theorem inverse_iff_nonsingular n A : (exists X, inverse n A = Some X) <-> nonsingular n A.
Proof. split; [intros [X H]; exact (inverse_some_nonsingular n A X H) | apply nonsingular_inverse]. Qed.

Lemma gauss_length n A X : inverse n A = Some X -> length X = n.
Proof.
  unfold inverse, gauss. destruct (gj_loop n (map (mrow A) (seq 0 n)) 0 []); [|discriminate].
  intros E. inversion E. rewrite map_length, seq_length. reflexivity.
Qed.

(* ---- solve ------------------------------------------------------------------------------- *)

Definition is_solution (n : nat) (A : mat) (x b : vec) : Prop :=
  forall i, (i < n)%nat -> sumn n (fun j => mget A i j * qnth x j) == qnth b i.
Definition is_left_solution (n : nat) (A : mat) (y c : vec) : Prop :=
  forall j, (j < n)%nat -> sumn n (fun i => qnth y i * mget A i j) == qnth c j.

Theorem solve_correct n A b x : solve n A b = Some x -> is_solution n A x b /\ length x = n.
Proof.
  unfold solve. destruct (inverse n A) as [X|] eqn:HX; [|discriminate]. intros E. inversion E; subst x. clear E.
  split; [|apply mkvec_length]. pose proof (inverse_right n A X HX) as R.
  intros i Hi.
  transitivity (sumn n (fun j => mget A i j * sumn n (fun k => mget X j k * qnth b k))).
  - apply sumn_ext. intros j Hj. rewrite qnth_mat_vec by exact Hj. reflexivity.
  - transitivity (sumn n (fun k => fmul n (mget A) (mget X) i k * qnth b k)).
    + transitivity (sumn n (fun j => sumn n (fun k => mget A i j * mget X j k * qnth b k))).
      * apply sumn_ext. intros j _. rewrite <- sumn_scale. apply sumn_ext. intros k _. ring.
      * rewrite sumn_swap. apply sumn_ext. intros k _. unfold fmul. rewrite <- sumn_scale_r. reflexivity.
    + transitivity (sumn n (fun k => fid i k * qnth b k)).
      * apply sumn_ext. intros k Hk. rewrite (R i k Hi Hk). reflexivity.
      * unfold fid. apply sumn_delta_l. exact Hi.
Qed.

Theorem solve_none_singular n A b : solve n A b = None -> exists y, left_null n A y.
Proof.
  unfold solve. destruct (inverse n A) as [X|] eqn:HX; [discriminate|]. intros _.
  destruct (inverse_none_singular n A HX) as (y & _ & H). exists y. exact H.
Qed.

Theorem solve_some_iff_nonsingular n A b : (exists x, solve n A b = Some x) <-> nonsingular n A.
Proof.
  unfold solve. split.
  - intros [x H]. destruct (inverse n A) as [X|] eqn:HX; [|discriminate]. exact (inverse_some_nonsingular n A X HX).
  - intros NS. destruct (nonsingular_inverse n A NS) as [X HX]. rewrite HX. eexists. reflexivity.
Qed.

Theorem solution_unique n A b x x' : nonsingular n A ->
  is_solution n A x b -> is_solution n A x' b -> forall j, (j < n)%nat -> qnth x j == qnth x' j.
Proof.
  intros NS H H' j Hj. destruct (nonsingular_inverse n A NS) as [X HX].
  pose proof (inverse_some_right_kernel n A X HX) as RK.
  assert (E : qnth x j - qnth x' j == 0).
  { apply (RK (fun j => qnth x j - qnth x' j)); [|exact Hj]. intros i Hi.
    transitivity (sumn n (fun j => mget A i j * qnth x j - mget A i j * qnth x' j)).
    - apply sumn_ext. intros k _. ring.
    - rewrite sumn_sub. rewrite (H i Hi), (H' i Hi). ring. }
  lra.
Qed.

Theorem solve_left_correct n A c y : solve_left n A c = Some y -> is_left_solution n A y c /\ length y = n.
Proof.
  unfold solve_left. destruct (inverse n A) as [X|] eqn:HX; [|discriminate]. intros E. inversion E; subst y. clear E.
  split; [|apply mkvec_length]. pose proof (inverse_left n A X HX) as L.
  intros j Hj.
  transitivity (sumn n (fun i => sumn n (fun k => qnth c k * mget X k i) * mget A i j)).
  - apply sumn_ext. intros i Hi. rewrite qnth_vec_mat by exact Hi. reflexivity.
  - transitivity (sumn n (fun k => qnth c k * fmul n (mget X) (mget A) k j)).
    + transitivity (sumn n (fun i => sumn n (fun k => qnth c k * mget X k i * mget A i j))).
      * apply sumn_ext. intros i _. rewrite <- sumn_scale_r. reflexivity.
      * rewrite sumn_swap. apply sumn_ext. intros k _. unfold fmul. rewrite <- sumn_scale.
        apply sumn_ext. intros i _. ring.
    + transitivity (sumn n (fun k => qnth c k * fid k j)).
      * apply sumn_ext. intros k Hk. rewrite (L k j Hk Hj). reflexivity.
      * unfold fid. apply (sumn_delta_r n j (qnth c)). exact Hj.
Qed.

Theorem left_solution_unique n A c y y' : nonsingular n A ->
  is_left_solution n A y c -> is_left_solution n A y' c -> forall i, (i < n)%nat -> qnth y i == qnth y' i.
Proof.
  intros NS H H' i Hi.
  assert (E : qnth y i - qnth y' i == 0).
  { apply (NS (fun i => qnth y i - qnth y' i)); [|exact Hi]. intros j Hj.
    transitivity (sumn n (fun i => qnth y i * mget A i j - qnth y' i * mget A i j)).
    - apply sumn_ext. intros k _. ring.
    - rewrite sumn_sub. rewrite (H j Hj), (H' j Hj). ring. }
  lra.
Qed.

(* ---- the multiply-back checkers are complete oracles ----------------------------------------- *)

Lemma check_binv_row_spec n B r i : (i < n)%nat ->
  (check_binv_row n B r i = true <-> is_left_solution n B r (unitv n i)).
Proof.
  intros Hi. unfold check_binv_row. rewrite veqb_true. unfold is_left_solution. split; intros H j Hj.
  - rewrite <- (H j Hj). symmetry. apply qnth_vec_mat. exact Hj.
  - rewrite qnth_vec_mat by exact Hj. apply H. exact Hj.
Qed.

(* soundness + uniqueness: an accepted r IS row i of the inverse *)
Theorem check_binv_row_unique n B X r i : (i < n)%nat -> inverse n B = Some X ->
  check_binv_row n B r i = true -> forall j, (j < n)%nat -> qnth r j == mget X i j.
Proof.
  intros Hi HX C j Hj. apply check_binv_row_spec in C; [|exact Hi].
  apply (left_solution_unique n B (unitv n i) r (mrow X i)); [exact (inverse_some_nonsingular n B X HX) | exact C | | exact Hj].
  intros k Hk. rewrite qnth_unitv by exact Hk. rewrite (Nat.eqb_sym k i). apply (inverse_left n B X HX i k Hi Hk).
Qed.

(* completeness: the true row is accepted *)
Theorem check_binv_row_complete n B X i : (i < n)%nat -> inverse n B = Some X ->
  check_binv_row n B (mrow X i) i = true.
Proof.
  intros Hi HX. apply check_binv_row_spec; [exact Hi|].
  intros k Hk. rewrite qnth_unitv by exact Hk. rewrite (Nat.eqb_sym k i). apply (inverse_left n B X HX i k Hi Hk).
Qed.

(* any two accepted rows agree, stated without the algorithm *)
Theorem check_binv_row_unique_ns n B r r' i : (i < n)%nat -> nonsingular n B ->
  check_binv_row n B r i = true -> check_binv_row n B r' i = true ->
  forall j, (j < n)%nat -> qnth r j == qnth r' j.
Proof.
  intros Hi NS C C'. apply check_binv_row_spec in C; [|exact Hi]. apply check_binv_row_spec in C'; [|exact Hi].
  exact (left_solution_unique n B (unitv n i) r r' NS C C').
Qed.

(* a singular matrix has no accepted row for at least one index: nothing passes all n checks *)
Theorem check_binv_all_nonsingular n B (R : mat) :
  (forall i, (i < n)%nat -> check_binv_row n B (mrow R i) i = true) -> nonsingular n B.
Proof.
  intros H. apply (right_inverse_left_kernel n (mget B) (mget R)).
  (* R B = I  ->  (by the algorithm on R) B R = I *)
  assert (L : feq n n (fmul n (mget R) (mget B)) fid).
  { intros i j Hi Hj. pose proof (H i Hi) as C. apply check_binv_row_spec in C; [|exact Hi].
    unfold fmul. rewrite (C j Hj). rewrite qnth_unitv by exact Hj. unfold fid. rewrite (Nat.eqb_sym j i). reflexivity. }
  destruct (inverse n R) as [Z|] eqn:HZ.
  - pose proof (inverse_left n R Z HZ) as LZ. pose proof (inverse_right n R Z HZ) as RZ.
    (* Z = Z R B = B *)
    assert (ZB : forall i k, (i < n)%nat -> (k < n)%nat -> mget B i k == mget Z i k).
    { intros i k Hi Hk.
      transitivity (fmul n fid (mget B) i k); [symmetry; apply fmul_id_l; exact Hi|].
      transitivity (fmul n (fmul n (mget Z) (mget R)) (mget B) i k).
      - apply fmul_ext; [|reflexivity]. intros l Hl. symmetry. apply LZ; assumption.
      - rewrite fmul_assoc.
        transitivity (fmul n (mget Z) fid i k); [|apply fmul_id_r; exact Hk].
        apply fmul_ext; [reflexivity|]. intros l Hl. apply L; assumption. }
    intros i j Hi Hj.
    transitivity (fmul n (mget Z) (mget R) i j); [|apply LZ; assumption].
    apply fmul_ext; [|reflexivity]. intros k Hk. apply ZB; assumption.
  - exfalso. destruct (inverse_none_singular n R HZ) as (y & _ & Hy & (i & Hi & Hne)).
    apply Hne.
    transitivity (sumn n (fun k => qnth y k * fmul n (mget R) (mget B) k i)).
    + symmetry. transitivity (sumn n (fun k => qnth y k * fid k i)).
      * apply sumn_ext. intros k Hk. rewrite (L k i Hk Hi). reflexivity.
      * unfold fid. apply (sumn_delta_r n i (qnth y)). exact Hi.
    + unfold fmul.
      transitivity (sumn n (fun k => sumn n (fun l => qnth y k * mget R k l * mget B l i))).
      * apply sumn_ext. intros k _. rewrite <- sumn_scale. apply sumn_ext. intros l _. ring.
      * rewrite sumn_swap. apply sumn_0. intros l Hl.
        transitivity (sumn n (fun k => qnth y k * mget R k l) * mget B l i).
        -- rewrite <- sumn_scale_r. apply sumn_ext. intros k _. ring.
        -- rewrite (Hy l Hl). ring.
Qed.

(* tableau row: t = (row i of B^-1) * A for the n x nc matrix A of all columns *)
Theorem check_tableau_row_unique n nc B A X r t i : (i < n)%nat -> inverse n B = Some X ->
  check_tableau_row n nc B A r t i = true ->
  forall j, (j < nc)%nat -> qnth t j == sumn n (fun k => mget X i k * mget A k j).
Proof.
  intros Hi HX C j Hj. unfold check_tableau_row in C. apply andb_true_iff in C. destruct C as [C1 C2].
  pose proof (check_binv_row_unique n B X r i Hi HX C1) as E.
  rewrite veqb_true in C2. rewrite <- (C2 j Hj). rewrite qnth_vec_mat by exact Hj.
  apply sumn_ext. intros k Hk. rewrite (E k Hk). reflexivity.
Qed.

Theorem check_tableau_row_complete n nc B A X i : (i < n)%nat -> inverse n B = Some X ->
  check_tableau_row n nc B A (mrow X i) (vec_mat n nc (mrow X i) A) i = true.
Proof.
  intros Hi HX. unfold check_tableau_row. rewrite (check_binv_row_complete n B X i Hi HX). simpl.
  apply veqb_true. intros; reflexivity.
Qed.

(* forward / backward solves *)
Lemma check_ftran_spec n B x a : check_ftran n B x a = true <-> is_solution n B x a.
Proof.
  unfold check_ftran. rewrite veqb_true. unfold is_solution. split; intros H i Hi.
  - rewrite <- (H i Hi). symmetry. apply qnth_mat_vec. exact Hi.
  - rewrite qnth_mat_vec by exact Hi. apply H. exact Hi.
Qed.

Lemma check_btran_spec n B y c : check_btran n B y c = true <-> is_left_solution n B y c.
Proof.
  unfold check_btran. rewrite veqb_true. unfold is_left_solution. split; intros H j Hj.
  - rewrite <- (H j Hj). symmetry. apply qnth_vec_mat. exact Hj.
  - rewrite qnth_vec_mat by exact Hj. apply H. exact Hj.
Qed.

Theorem check_ftran_unique n B x x' a : nonsingular n B ->
  check_ftran n B x a = true -> check_ftran n B x' a = true -> forall j, (j < n)%nat -> qnth x j == qnth x' j.
Proof. intros NS C C'. apply check_ftran_spec in C, C'. exact (solution_unique n B a x x' NS C C'). Qed.

Theorem check_btran_unique n B y y' c : nonsingular n B ->
  check_btran n B y c = true -> check_btran n B y' c = true -> forall j, (j < n)%nat -> qnth y j == qnth y' j.
Proof. intros NS C C'. apply check_btran_spec in C, C'. exact (left_solution_unique n B c y y' NS C C'). Qed.

(* an accepted solve for a singular B exists only for right-hand sides in the range: the oracle
   for "singular must not be solved" is the algorithm itself *)
Theorem singular_decided n B : {exists X, inverse n B = Some X /\ nonsingular n B} + {exists y, null_vector n B = Some y /\ left_null n B y}.
Proof.
  destruct (inverse n B) as [X|] eqn:E.
  - left. exists X. split; [reflexivity|exact (inverse_some_nonsingular n B X E)].
  - right. exact (inverse_none_singular n B E).
Qed.

(* singularity by certificate: a vector accepted as non-zero solution of y B = 0 proves B singular *)
Theorem null_certificate n B y z : vzerob n z = true -> check_btran n B y z = true -> veqb n y z = false ->
  ~ nonsingular n B.
Proof.
  intros Z C NE NS. rewrite vzerob_true in Z. apply check_btran_spec in C.
  assert (E : veqb n y z = true).
  { apply veqb_true. intros j Hj. rewrite (Z j Hj). apply (NS (qnth y)); [|exact Hj].
    intros k Hk. rewrite (C k Hk). apply Z. exact Hk. }
  congruence.
Qed.

(* ---- examples: the hypotheses are satisfiable, the algorithm computes ------------------------- *)
Example ex_inverse :
  inverse 3 [[2;1;0];[1;3;1];[0;1;4]] = Some [[11#18; -2#9; 1#18]; [-2#9; 4#9; -1#9]; [1#18; -1#9; 5#18]].
Proof. vm_compute. reflexivity. Qed.
Example ex_singular : null_vector 3 [[1;2;3];[2;4;6];[0;1;1]] = Some [-2; 1; 0].
Proof. vm_compute. reflexivity. Qed.
Example ex_solve : solve 2 [[0;2];[1;1]] [4;3] = Some [1;2].
Proof. vm_compute. reflexivity. Qed.
Example ex_check : check_binv_row 2 [[0;2];[1;1]] [-1#2; 1] 0 = true.
Proof. vm_compute. reflexivity. Qed.
