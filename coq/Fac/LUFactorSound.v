(* Soundness of the factorization model (Fac/LUFactor.v).
   Structure of the argument:
     - [Tri]: two facts about unit triangular systems given in eta form.  With M i b = multiplier of row i in the eta of
       pivot row b, the column-oriented pass of ILLfactor_ftranl (x' = fold of the L etas over x) satisfies L x' = x and the
       row-oriented pass of ILLfactor_btranl2 (y' = fold of L by rows, last row first, over y) satisfies y' L = y, where
       L = I + M.  Needed: every eta vanishes on its own pivot row and on the rows pivoted before it.
     - [lu_inv]: the invariant of the elimination (rows / columns used once, zero pattern below the pivots, pivots not
       zero, etas supported on rows not pivoted yet, and  L_k ... L_1 B = A_k  column by column).
     - after n steps the representation satisfies [struct_ok] and factors B in the sense [frep] of FTUpdateSound.v
       (G B = U, G injective, bpost the adjoint of G), hence [represents].
     - a non-singular B never gets stuck: a kernel without admissible pivot has a zero row, which gives an explicit left
       null vector (row i of L_k ... L_1).                                                                              *)
From QSX Require Export Fac.LUFactor Fac.FTUpdateSound.
Require Import Lia.
Local Open Scope Q_scope.

(* ================================================================================================= lists *)
Lemma memb_In x l : memb x l = true <-> In x l.
Proof. apply existsb_eqb_In. Qed.

Lemma memb_false x l : memb x l = false <-> ~ In x l.
Proof.
  split.
  - intros H I. apply memb_In in I. congruence.
  - intros H. destruct (memb x l) eqn:E; [|reflexivity]. exfalso. apply H. apply memb_In. exact E.
Qed.

Lemma mkvec_qnth_mkvec n f : mkvec n (qnth (mkvec n f)) = mkvec n f.
Proof. unfold mkvec. apply map_ext_in. intros i Hi. apply in_seq in Hi. apply (qnth_mkvec n f i). lia. Qed.

Lemma NoDup_app_snoc {A} (l : list A) x : NoDup l -> ~ In x l -> NoDup (l ++ [x]).
Proof.
  induction 1 as [|y t NI ND IH]; intros H; simpl.
  - constructor; [tauto|constructor].
  - constructor.
    + intros Hin. apply in_app_iff in Hin. destruct Hin as [Hin|[E|[]]]; [contradiction|]. apply H. left. symmetry. exact E.
    + apply IH. intros Hx. apply H. right. exact Hx.
Qed.

(* a duplicate-free list of n numbers below n contains all of them *)
Lemma nodup_cover n (l : list nat) : NoDup l -> length l = n -> (forall x, In x l -> (x < n)%nat) ->
  forall i, (i < n)%nat -> In i l.
Proof.
  intros ND L B i Hi.
  assert (I : incl (seq 0 n) l).
  { apply NoDup_length_incl; [exact ND|rewrite seq_length; lia|]. intros x Hx. apply in_seq. specialize (B x Hx). lia. }
  apply I. apply in_seq. lia.
Qed.

(* fewer than n numbers: one below n is missing *)
Lemma nodup_missing n (l : list nat) : NoDup l -> (length l < n)%nat -> exists i, (i < n)%nat /\ ~ In i l.
Proof.
  intros ND L.
  destruct (find (fun i => negb (memb i l)) (seq 0 n)) as [i|] eqn:E.
  - apply find_some in E. destruct E as [Hi Hm]. apply in_seq in Hi. exists i. split; [lia|].
    apply memb_false. destruct (memb i l); [discriminate|reflexivity].
  - exfalso.
    assert (I : incl (seq 0 n) l).
    { intros x Hx. pose proof (find_none _ _ E x Hx) as H. cbv beta in H. apply memb_In. destruct (memb x l); [reflexivity|discriminate]. }
    pose proof (NoDup_incl_length (seq_NoDup n 0) I) as H. rewrite seq_length in H. lia.
Qed.

(* ================================================================================================= unit triangular passes *)
Definition ind (l : list nat) (b : nat) : Q := if memb b l then 1 else 0.

Section Tri.
  Variable n : nat.
  Variable M : nat -> nat -> Q.

  (* row r has no multiplier in its own eta nor in the etas of the later pivots *)
  Fixpoint tri (ord : list nat) : Prop :=
    match ord with
    | [] => True
    | r :: t => (forall a, In a (r :: t) -> M r a == 0) /\ tri t
    end.

  Definition colform (lc : list (nat * sparse)) : Prop :=
    forall e, In e lc -> (fst e < n)%nat /\ forall i, (i < n)%nat -> coefAt (snd e) i == M i (fst e).
  Definition rowform (lr : list (nat * sparse)) : Prop :=
    forall e, In e lr -> (fst e < n)%nat /\ forall i, (i < n)%nat -> coefAt (snd e) i == M (fst e) i.

  Lemma sum_ind_nil g : sumn n (fun b => ind [] b * g b) == 0.
  Proof. apply sumn_0. intros b _. unfold ind. simpl. ring. Qed.

  Lemma sum_ind_cons r t g : (r < n)%nat -> ~ In r t ->
    sumn n (fun b => ind (r :: t) b * g b) == g r + sumn n (fun b => ind t b * g b).
  Proof.
    intros Hr NI.
    transitivity (sumn n (fun b => ((if Nat.eqb r b then 1 else 0) + ind t b) * g b)).
    - apply sumn_ext. intros b _. unfold ind. simpl. rewrite (Nat.eqb_sym b r).
      destruct (Nat.eqb_spec r b) as [<-|NE]; simpl.
      + apply memb_false in NI. rewrite NI. ring.
      + destruct (memb b t); ring.
    - rewrite (sumn_pick n r 1 g (ind t) Hr). ring.
  Qed.

  Lemma fold_final : forall lc x r, (r < n)%nat -> (forall e, In e lc -> M r (fst e) == 0) -> colform lc ->
    qnth (fold_left (axpy_step n) lc x) r == qnth x r.
  Proof.
    induction lc as [|[c ents] lc IH]; intros x r Hr Z CF; simpl; [reflexivity|].
    rewrite IH; [|exact Hr|intros e He; apply Z; right; exact He|intros e He; apply CF; right; exact He].
    rewrite axpy_step_spec by exact Hr.
    destruct (CF (c, ents) (or_introl eq_refl)) as [_ E]. cbn [fst snd] in E. rewrite (E r Hr).
    rewrite (Z (c, ents) (or_introl eq_refl)). cbn [fst]. ring.
  Qed.

  (* ILLfactor_ftranl:  x' + M x' = x *)
  Lemma ftranl_spec : forall lc x, tri (map fst lc) -> NoDup (map fst lc) -> colform lc ->
    forall i, (i < n)%nat ->
    qnth (fold_left (axpy_step n) lc x) i +
    sumn n (fun b => ind (map fst lc) b * (M i b * qnth (fold_left (axpy_step n) lc x) b)) == qnth x i.
  Proof.
    induction lc as [|[r ents] lc IH]; intros x T ND CF i Hi.
    - cbn [fold_left map]. rewrite sum_ind_nil. ring.
    - cbn [fold_left map fst]. cbn [map fst tri] in T. destruct T as [T0 T]. cbn [map fst] in ND. inversion ND as [|? ? NI ND']; subst.
      destruct (CF (r, ents) (or_introl eq_refl)) as [Hr E]. cbn [fst snd] in Hr, E.
      set (x1 := axpy_step n x (r, ents)).
      assert (CF' : colform lc) by (intros e He; apply CF; right; exact He).
      specialize (IH x1 T ND' CF' i Hi).
      assert (Fr : qnth (fold_left (axpy_step n) lc x1) r == qnth x r).
      { rewrite fold_final; [|exact Hr| |exact CF'].
        - unfold x1. rewrite axpy_step_spec by exact Hr. rewrite (E r Hr). rewrite (T0 r (or_introl eq_refl)). ring.
        - intros e He. apply T0. right. apply in_map. exact He. }
      rewrite (sum_ind_cons r (map fst lc) (fun b => M i b * qnth (fold_left (axpy_step n) lc x1) b) Hr NI).
      rewrite Fr.
      assert (X1 : qnth x1 i == qnth x i - qnth x r * M i r).
      { unfold x1. rewrite axpy_step_spec by exact Hi. rewrite (E i Hi). reflexivity. }
      rewrite X1 in IH. lra.
  Qed.

  (* ILLfactor_btranl2:  y' + y' M = y *)
  Lemma btranl_spec : forall lr y, tri (map fst lr) -> NoDup (map fst lr) -> rowform lr ->
    forall i, (i < n)%nat ->
    qnth (fold_left (axpy_step n) (rev lr) y) i +
    sumn n (fun a => ind (map fst lr) a * (qnth (fold_left (axpy_step n) (rev lr) y) a * M a i)) == qnth y i.
  Proof.
    induction lr as [|[r ents] lr IH]; intros y T ND RF i Hi.
    - cbn [rev fold_left map]. rewrite sum_ind_nil. ring.
    - cbn [rev map fst]. rewrite fold_left_app. cbn [fold_left].
      cbn [map fst tri] in T. destruct T as [T0 T]. cbn [map fst] in ND. inversion ND as [|? ? NI ND']; subst.
      destruct (RF (r, ents) (or_introl eq_refl)) as [Hr E]. cbn [fst snd] in Hr, E.
      assert (RF' : rowform lr) by (intros e He; apply RF; right; exact He).
      set (yt := fold_left (axpy_step n) (rev lr) y) in *.
      specialize (IH y T ND' RF' i Hi). fold yt in IH.
      assert (Y : forall k, (k < n)%nat -> qnth (axpy_step n yt (r, ents)) k == qnth yt k - qnth yt r * M r k).
      { intros k Hk. rewrite axpy_step_spec by exact Hk. rewrite (E k Hk). reflexivity. }
      rewrite (sum_ind_cons r (map fst lr) (fun a => qnth (axpy_step n yt (r, ents)) a * M a i) Hr NI).
      rewrite (Y i Hi), (Y r Hr). rewrite (T0 r (or_introl eq_refl)).
      assert (S : sumn n (fun b => ind (map fst lr) b * (qnth (axpy_step n yt (r, ents)) b * M b i)) ==
                  sumn n (fun a => ind (map fst lr) a * (qnth yt a * M a i))).
      { apply sumn_ext. intros a Ha. unfold ind. destruct (memb a (map fst lr)) eqn:Ma; [|ring].
        apply memb_In in Ma. rewrite (Y a Ha). rewrite (T0 a (or_intror Ma)). ring. }
      rewrite S. lra.
  Qed.
End Tri.

(* ================================================================================================= one elimination step *)
Lemma nth_snoc {A} (l : list A) x d t :
  nth t (l ++ [x]) d = if Nat.ltb t (length l) then nth t l d else if Nat.eqb t (length l) then x else d.
Proof.
  destruct (Nat.ltb_spec t (length l)) as [H|H]; [apply app_nth1; exact H|].
  rewrite app_nth2 by exact H. destruct (Nat.eqb_spec t (length l)) as [E|NE].
  - rewrite E, Nat.sub_diag. reflexivity.
  - destruct (t - length l)%nat as [|m] eqn:D; [lia|]. simpl. destruct m; reflexivity.
Qed.

Lemma mget_lu_elim n st r c i j : (i < n)%nat -> (j < n)%nat ->
  mget (lu_elim n st r c) i j =
  if lu_active st r c i then
    (if Nat.eqb j c then 0
     else if Qeq_bool (mget (lu_A st) r j) 0 then mget (lu_A st) i j
     else rsub (mget (lu_A st) i j) (rmul (lu_mult st r c i) (mget (lu_A st) r j)))
  else mget (lu_A st) i j.
Proof.
  intros Hi Hj. unfold mget at 1, lu_elim. rewrite mrow_map_seq by exact Hi. unfold lu_row.
  destruct (lu_active st r c i); rewrite qnth_mkvec by exact Hj; reflexivity.
Qed.

Lemma coefAt_lu_eta n st r c i : (i < n)%nat ->
  coefAt (lu_eta n st r c) i == if lu_active st r c i then lu_mult st r c i else 0.
Proof.
  intros Hi. unfold lu_eta.
  rewrite (flat_map_ext _ (fun k => if negb (lu_active st r c k) then [] else [(k, lu_mult st r c k)]))
    by (intros k; destruct (lu_active st r c k); reflexivity).
  rewrite (coefAt_flat_seq (fun k => negb (lu_active st r c k)) (fun k => lu_mult st r c k) i n 0).
  destruct (Nat.leb_spec 0 i); [|lia]. destruct (Nat.ltb_spec i (0 + n)); [|lia]. simpl.
  destruct (lu_active st r c i); reflexivity.
Qed.

Lemma ind_lt_lu_eta n st r c : ind_lt n (lu_eta n st r c) = true.
Proof.
  apply (ind_lt_flat_seq n). intros k Hk. destruct (lu_active st r c k); [|reflexivity].
  unfold ind_lt. simpl. rewrite andb_true_r. apply Nat.ltb_lt. exact Hk.
Qed.

Lemma lu_ok_spec n st r c : lu_ok n st r c = true <->
  (r < n)%nat /\ (c < n)%nat /\ ~ In r (lu_rows st) /\ ~ In c (lu_cols st) /\ ~ mget (lu_A st) r c == 0.
Proof.
  unfold lu_ok. rewrite !andb_true_iff, !negb_true_iff, !Nat.ltb_lt, !memb_false.
  assert (Q : Qeq_bool (mget (lu_A st) r c) 0 = false <-> ~ mget (lu_A st) r c == 0).
  { split; [apply Qeq_bool_false_neq|]. intros H. destruct (Qeq_bool (mget (lu_A st) r c) 0) eqn:E; [|reflexivity].
    exfalso. apply H. apply Qeq_bool_iff. exact E. }
  rewrite Q. tauto.
Qed.

Lemma lu_active_spec st r c i : lu_active st r c i = true <->
  i <> r /\ ~ In i (lu_rows st) /\ ~ mget (lu_A st) i c == 0.
Proof.
  unfold lu_active. rewrite !andb_true_iff, !negb_true_iff, memb_false, Nat.eqb_neq.
  assert (Q : Qeq_bool (mget (lu_A st) i c) 0 = false <-> ~ mget (lu_A st) i c == 0).
  { split; [apply Qeq_bool_false_neq|]. intros H. destruct (Qeq_bool (mget (lu_A st) i c) 0) eqn:E; [|reflexivity].
    exfalso. apply H. apply Qeq_bool_iff. exact E. }
  rewrite Q. tauto.
Qed.

(* ================================================================================================= the invariant *)
Definition rw (st : lu_state) (t : nat) : nat := nth t (lu_rows st) 0%nat.
Definition cl (st : lu_state) (t : nat) : nat := nth t (lu_cols st) 0%nat.

Record lu_inv (n : nat) (B : mat) (st : lu_state) : Prop := {
  li_rnd : NoDup (lu_rows st);
  li_cnd : NoDup (lu_cols st);
  li_rlt : forall x, In x (lu_rows st) -> (x < n)%nat;
  li_clt : forall x, In x (lu_cols st) -> (x < n)%nat;
  li_lcr : map fst (lu_lc st) = lu_rows st;
  li_wf : forallb (wf_eta n) (lu_lc st) = true;
  (* column cl t vanishes outside the rows rw 0 .. rw t *)
  li_zero : forall t i, (t < length (lu_piv st))%nat -> (i < n)%nat -> (forall s, (s <= t)%nat -> i <> rw st s) ->
            mget (lu_A st) i (cl st t) == 0;
  li_piv : forall t, (t < length (lu_piv st))%nat -> ~ mget (lu_A st) (rw st t) (cl st t) == 0;
  (* eta t vanishes on the rows rw 0 .. rw t *)
  li_eta : forall t s, (s <= t)%nat -> (t < length (lu_piv st))%nat ->
           coefAt (snd (nth t (lu_lc st) (0%nat, []))) (rw st s) == 0;
  (* L_k ... L_1 B = A_k, column by column *)
  li_LB : forall i j, (i < n)%nat -> (j < n)%nat ->
          qnth (fold_left (axpy_step n) (lu_lc st) (bcol n B j)) i == mget (lu_A st) i j }.

Lemma lu_rows_len st : length (lu_rows st) = length (lu_piv st).
Proof. apply map_length. Qed.
Lemma lu_cols_len st : length (lu_cols st) = length (lu_piv st).
Proof. apply map_length. Qed.

Lemma rw_in st t : (t < length (lu_piv st))%nat -> In (rw st t) (lu_rows st).
Proof. intros H. apply nth_In. rewrite lu_rows_len. exact H. Qed.
Lemma cl_in st t : (t < length (lu_piv st))%nat -> In (cl st t) (lu_cols st).
Proof. intros H. apply nth_In. rewrite lu_cols_len. exact H. Qed.

Lemma lu_inv_init n B : lu_inv n B (lu_init n B).
Proof.
  constructor; unfold lu_rows, lu_cols; simpl; try (intros; lia); try constructor; try tauto.
  intros i j Hi Hj. unfold bcol. rewrite qnth_mkvec by exact Hi. rewrite mget_mkmat by assumption. reflexivity.
Qed.

(* an unpivoted row vanishes on the pivoted columns *)
Lemma li_zero_unpiv n B st (I : lu_inv n B st) i t : (i < n)%nat -> ~ In i (lu_rows st) -> (t < length (lu_piv st))%nat ->
  mget (lu_A st) i (cl st t) == 0.
Proof.
  intros Hi NI Ht. apply (li_zero n B st I t i Ht Hi). intros s Hs E. apply NI. rewrite E. apply rw_in. lia.
Qed.

Lemma lu_step_inv n B st rc st' : lu_inv n B st -> lu_step n st rc = Some st' -> lu_inv n B st'.
Proof.
  intros I S. unfold lu_step in S. destruct rc as [r c]. cbn [fst snd] in S.
  destruct (lu_ok n st r c) eqn:OK; [|discriminate]. inversion S; subst st'; clear S.
  apply lu_ok_spec in OK. destruct OK as (Hr & Hc & NR & NC & PV).
  set (k := length (lu_piv st)).
  assert (Rows : lu_rows {| lu_A := lu_elim n st r c; lu_piv := lu_piv st ++ [(r, c)]; lu_lc := lu_lc st ++ [(r, lu_eta n st r c)] |}
                 = lu_rows st ++ [r]) by (unfold lu_rows; simpl; rewrite map_app; reflexivity).
  assert (Cols : lu_cols {| lu_A := lu_elim n st r c; lu_piv := lu_piv st ++ [(r, c)]; lu_lc := lu_lc st ++ [(r, lu_eta n st r c)] |}
                 = lu_cols st ++ [c]) by (unfold lu_cols; simpl; rewrite map_app; reflexivity).
  (* pivoted rows are not active; the pivot row vanishes on the pivoted columns *)
  assert (NAr : lu_active st r c r = false).
  { destruct (lu_active st r c r) eqn:E; [|reflexivity]. apply lu_active_spec in E. destruct E as [E _]. congruence. }
  assert (NAp : forall i, In i (lu_rows st) -> lu_active st r c i = false).
  { intros i Hi. destruct (lu_active st r c i) eqn:E; [|reflexivity]. apply lu_active_spec in E. destruct E as (_ & E & _). contradiction. }
  assert (Zr : forall t, (t < k)%nat -> mget (lu_A st) r (cl st t) == 0).
  { intros t Ht. apply (li_zero_unpiv n B st I r t Hr NR Ht). }
  (* the new matrix agrees with the old one on the pivoted columns *)
  assert (Keep : forall i t, (i < n)%nat -> (t < k)%nat -> mget (lu_elim n st r c) i (cl st t) == mget (lu_A st) i (cl st t)).
  { intros i t Hi Ht. pose proof (li_clt n B st I _ (cl_in st t Ht)) as Hct.
    rewrite mget_lu_elim by assumption. destruct (lu_active st r c i); [|reflexivity].
    destruct (Nat.eqb_spec (cl st t) c) as [E|NE]; [exfalso; apply NC; rewrite <- E; apply cl_in; exact Ht|].
    destruct (Qeq_bool (mget (lu_A st) r (cl st t)) 0) eqn:Z; [reflexivity|].
    exfalso. apply Qeq_bool_false_neq in Z. apply Z. apply Zr. exact Ht. }
  constructor.
  - rewrite Rows. apply NoDup_app_snoc; [exact (li_rnd n B st I)|exact NR].
  - rewrite Cols. apply NoDup_app_snoc; [exact (li_cnd n B st I)|exact NC].
  - rewrite Rows. intros x Hx. apply in_app_iff in Hx. destruct Hx as [Hx|[<-|[]]]; [apply (li_rlt n B st I x Hx)|exact Hr].
  - rewrite Cols. intros x Hx. apply in_app_iff in Hx. destruct Hx as [Hx|[<-|[]]]; [apply (li_clt n B st I x Hx)|exact Hc].
  - rewrite Rows. cbn [lu_lc]. rewrite map_app. rewrite (li_lcr n B st I). reflexivity.
  - cbn [lu_lc]. rewrite forallb_app. rewrite (li_wf n B st I). cbn [forallb]. unfold wf_eta. cbn [fst snd].
    rewrite ind_lt_lu_eta. apply Nat.ltb_lt in Hr. rewrite Hr. reflexivity.
  - (* zero pattern *)
    cbn [lu_piv lu_A]. rewrite app_length. cbn [length]. fold k. intros t i Ht Hi NE.
    unfold rw, cl in *. rewrite Rows in NE. rewrite Cols. rewrite nth_snoc. rewrite lu_cols_len. fold k.
    destruct (Nat.ltb_spec t k) as [Htk|Htk].
    + fold (cl st t). rewrite (Keep i t Hi Htk). apply (li_zero n B st I t i Htk Hi).
      intros s Hs. specialize (NE s Hs). rewrite nth_snoc in NE. rewrite lu_rows_len in NE. fold k in NE.
      destruct (Nat.ltb_spec s k); [exact NE|lia].
    + assert (t = k) by lia. subst t. rewrite Nat.eqb_refl.
      assert (Ni : ~ In i (lu_rows st)).
      { intros Hin. destruct (In_nth _ _ 0%nat Hin) as (s & Hs & Es). rewrite lu_rows_len in Hs. fold k in Hs.
        specialize (NE s ltac:(lia)). rewrite nth_snoc in NE. rewrite lu_rows_len in NE. fold k in NE.
        destruct (Nat.ltb_spec s k); [|lia]. congruence. }
      assert (Nr : i <> r).
      { specialize (NE k (Nat.le_refl k)). rewrite nth_snoc in NE. rewrite lu_rows_len in NE. fold k in NE.
        destruct (Nat.ltb_spec k k); [lia|]. rewrite Nat.eqb_refl in NE. exact NE. }
      rewrite mget_lu_elim by assumption. destruct (lu_active st r c i) eqn:AC.
      * rewrite Nat.eqb_refl. reflexivity.
      * destruct (Qeq_bool (mget (lu_A st) i c) 0) eqn:Z; [apply Qeq_bool_iff; exact Z|].
        exfalso. assert (lu_active st r c i = true); [|congruence].
        apply lu_active_spec. split; [exact Nr|]. split; [exact Ni|]. apply Qeq_bool_false_neq. exact Z.
  - (* pivots *)
    cbn [lu_piv lu_A]. rewrite app_length. cbn [length]. fold k. intros t Ht.
    unfold rw, cl. rewrite Rows, Cols. rewrite !nth_snoc. rewrite lu_rows_len, lu_cols_len. fold k.
    destruct (Nat.ltb_spec t k) as [Htk|Htk].
    + fold (rw st t). fold (cl st t). pose proof (li_rlt n B st I _ (rw_in st t Htk)) as Hrt.
      rewrite (Keep (rw st t) t Hrt Htk). apply (li_piv n B st I t Htk).
    + assert (t = k) by lia. subst t. rewrite Nat.eqb_refl. rewrite mget_lu_elim by assumption. rewrite NAr. exact PV.
  - (* etas *)
    cbn [lu_piv lu_lc]. rewrite app_length. cbn [length]. fold k. intros t s Hs Ht.
    assert (LL : length (lu_lc st) = k).
    { rewrite <- (map_length fst). rewrite (li_lcr n B st I). apply lu_rows_len. }
    unfold rw. rewrite Rows. rewrite !nth_snoc. rewrite LL, lu_rows_len. fold k.
    destruct (Nat.ltb_spec t k) as [Htk|Htk].
    + destruct (Nat.ltb_spec s k); [|lia]. apply (li_eta n B st I t s Hs Htk).
    + assert (t = k) by lia. subst t. rewrite Nat.eqb_refl. cbn [snd].
      destruct (Nat.ltb_spec s k) as [Hsk|Hsk].
      * pose proof (rw_in st s Hsk) as Hin. fold (rw st s). rewrite coefAt_lu_eta by (apply (li_rlt n B st I); exact Hin).
        rewrite (NAp _ Hin). reflexivity.
      * assert (s = k) by lia. subst s. rewrite Nat.eqb_refl. rewrite coefAt_lu_eta by exact Hr. rewrite NAr. reflexivity.
  - (* L_k+1 ... L_1 B = A_k+1 *)
    cbn [lu_lc lu_A]. intros i j Hi Hj. rewrite fold_left_app. cbn [fold_left].
    rewrite axpy_step_spec by exact Hi. rewrite (li_LB n B st I i j Hi Hj), (li_LB n B st I r j Hr Hj).
    rewrite coefAt_lu_eta by exact Hi. rewrite mget_lu_elim by assumption.
    destruct (lu_active st r c i) eqn:AC; [|ring].
    unfold lu_mult. destruct (Nat.eqb_spec j c) as [->|NE].
    + rarith. field. exact PV.
    + destruct (Qeq_bool (mget (lu_A st) r j) 0) eqn:Z.
      * apply Qeq_bool_iff in Z. rewrite Z. ring.
      * rarith. ring.
Qed.

Lemma lu_steps_inv n B : forall piv st st', lu_inv n B st -> lu_steps n st piv = Some st' ->
  lu_inv n B st' /\ lu_piv st' = lu_piv st ++ piv.
Proof.
  induction piv as [|rc piv IH]; intros st st' I S; simpl in S.
  - inversion S; subst. split; [exact I|]. rewrite app_nil_r. reflexivity.
  - destruct (lu_step n st rc) as [st1|] eqn:S1; [|discriminate].
    pose proof (lu_step_inv n B st rc st1 I S1) as I1.
    destruct (IH st1 st' I1 S) as [I' P]. split; [exact I'|]. rewrite P.
    unfold lu_step in S1. destruct (lu_ok n st (fst rc) (snd rc)); [|discriminate]. inversion S1; subst st1. cbn [lu_piv].
    rewrite <- app_assoc. reflexivity.
Qed.

Lemma lu_steps_app n : forall p1 p2 st, lu_steps n st (p1 ++ p2) =
  match lu_steps n st p1 with Some st1 => lu_steps n st1 p2 | None => None end.
Proof.
  induction p1 as [|rc p1 IH]; intros p2 st; simpl; [reflexivity|].
  destruct (lu_step n st rc); [apply IH|reflexivity].
Qed.

(* ================================================================================================= the result *)
Lemma nth_map_seq {A} (g : nat -> A) n j d : (j < n)%nat -> nth j (map g (seq 0 n)) d = g j.
Proof.
  intros H. rewrite (nth_indep _ d (g 0%nat)) by (rewrite map_length, seq_length; exact H).
  rewrite (map_nth g (seq 0 n) 0%nat j). rewrite seq_nth by exact H. reflexivity.
Qed.

Lemma nth_lt_all (l : list nat) n k : (forall x, In x l -> (x < n)%nat) -> (0 < n)%nat -> (nth k l 0 < n)%nat.
Proof. intros H H0. destruct (nth_in_or_default k l 0%nat) as [E|E]; [apply H; exact E|rewrite E; exact H0]. Qed.

Lemma find_nodup (lc : list (nat * sparse)) e : NoDup (map fst lc) -> In e lc ->
  find (fun e' => Nat.eqb (fst e') (fst e)) lc = Some e.
Proof.
  induction lc as [|e0 lc IH]; intros ND H; [destruct H|]. cbn [map] in ND. inversion ND as [|? ? NI ND']; subst.
  cbn [find]. destruct H as [->|H].
  - rewrite Nat.eqb_refl. reflexivity.
  - destruct (Nat.eqb_spec (fst e0) (fst e)) as [E|NE]; [|apply IH; assumption].
    exfalso. apply NI. rewrite E. apply in_map. exact H.
Qed.

(* M i b: multiplier of row i in the eta of pivot row b *)
Definition Lm (lc : list (nat * sparse)) (i b : nat) : Q :=
  match find (fun e => Nat.eqb (fst e) b) lc with Some e => coefAt (snd e) i | None => 0 end.

Lemma coefAt_lrow lc rt i : NoDup (map fst lc) -> coefAt (lu_lrow lc rt) i == Lm lc rt i.
Proof.
  unfold Lm, lu_lrow. induction lc as [|e lc IH]; intros ND; [reflexivity|].
  cbn [map] in ND. inversion ND as [|? ? NI ND']; subst.
  cbn [flat_map find]. rewrite coefAt_app.
  assert (P : coefAt (if Qeq_bool (coefAt (snd e) rt) 0 then [] else [(fst e, Qred (coefAt (snd e) rt))]) i ==
              if Nat.eqb (fst e) i then coefAt (snd e) rt else 0).
  { destruct (Qeq_bool (coefAt (snd e) rt) 0) eqn:Z.
    - apply Qeq_bool_iff in Z. simpl. destruct (Nat.eqb (fst e) i); [rewrite Z|]; reflexivity.
    - simpl. destruct (Nat.eqb (fst e) i); [rewrite Qred_correct|]; ring. }
  rewrite P. destruct (Nat.eqb_spec (fst e) i) as [E|NE]; cbv beta iota.
  - match goal with |- _ + ?x == _ => assert (Z0 : x == 0); [|rewrite Z0; ring] end.
    apply coefAt_notin. intros e' He' E'. apply in_flat_map in He'. destruct He' as (e2 & He2 & Hin).
    destruct (Qeq_bool (coefAt (snd e2) rt) 0); [destruct Hin|]. destruct Hin as [<-|[]]. cbn [fst] in E'.
    apply NI. rewrite E, <- E'. apply in_map. exact He2.
  - rewrite (IH ND'). ring.
Qed.

Lemma tri_of_nth M (ord : list nat) :
  (forall s t, (s <= t)%nat -> (t < length ord)%nat -> M (nth s ord 0%nat) (nth t ord 0%nat) == 0) -> tri M ord.
Proof.
  induction ord as [|r ord IH]; intros H; [exact I|]. cbn [tri]. split.
  - intros a Ha. destruct (In_nth _ _ 0%nat Ha) as (t & Ht & <-). apply (H 0%nat t); [lia|exact Ht].
  - apply IH. intros s t Hs Ht. apply (H (S s) (S t)); simpl; lia.
Qed.

Section Final.
  Variable n : nat.
  Variable B : mat.
  Variable st : lu_state.
  Hypothesis I : lu_inv n B st.
  Hypothesis Full : length (lu_piv st) = n.
  Let r := lu_repr n st.
  Let M := Lm (lu_lc st).

  Lemma fin_rcov i : (i < n)%nat -> In i (lu_rows st).
  Proof. apply nodup_cover; [exact (li_rnd n B st I)|rewrite lu_rows_len; exact Full|exact (li_rlt n B st I)]. Qed.
  Lemma fin_ccov i : (i < n)%nat -> In i (lu_cols st).
  Proof. apply nodup_cover; [exact (li_cnd n B st I)|rewrite lu_cols_len; exact Full|exact (li_clt n B st I)]. Qed.

  Lemma fin_lc_nd : NoDup (map fst (lu_lc st)).
  Proof. rewrite (li_lcr n B st I). exact (li_rnd n B st I). Qed.

  Lemma fin_lc_len : length (lu_lc st) = n.
  Proof. rewrite <- (map_length fst). rewrite (li_lcr n B st I). rewrite lu_rows_len. exact Full. Qed.

  Lemma fin_lc_nth t : (t < n)%nat -> fst (nth t (lu_lc st) (0%nat, [])) = rw st t.
  Proof.
    intros Ht. unfold rw. rewrite <- (li_lcr n B st I).
    rewrite (nth_indep (map fst (lu_lc st)) 0%nat (fst (0%nat, @nil (nat * Q)))) by (rewrite map_length, fin_lc_len; exact Ht).
    rewrite map_nth. reflexivity.
  Qed.

  Lemma fin_M_nth t i : (t < n)%nat -> M i (rw st t) = coefAt (snd (nth t (lu_lc st) (0%nat, []))) i.
  Proof.
    intros Ht. unfold M, Lm. rewrite <- (fin_lc_nth t Ht).
    rewrite (find_nodup (lu_lc st) (nth t (lu_lc st) (0%nat, [])) fin_lc_nd); [reflexivity|].
    apply nth_In. rewrite fin_lc_len. exact Ht.
  Qed.

  Lemma fin_tri : tri M (lu_rows st).
  Proof.
    apply tri_of_nth. rewrite lu_rows_len, Full. intros s t Hs Ht. fold (rw st s). fold (rw st t).
    rewrite (fin_M_nth t (rw st s) Ht). apply (li_eta n B st I t s Hs). rewrite Full. exact Ht.
  Qed.

  Lemma fin_colform : colform n M (lu_lc st).
  Proof.
    intros e He. destruct (In_nth _ _ (0%nat, ([] : sparse)) He) as (t & Ht0 & <-).
    assert (Ht : (t < n)%nat) by (rewrite <- fin_lc_len; exact Ht0).
    replace (fst (nth t (lu_lc st) (0%nat, ([] : sparse)))) with (rw st t) by (symmetry; exact (fin_lc_nth t Ht)). split.
    - apply (li_rlt n B st I). apply rw_in. rewrite Full. exact Ht.
    - intros i Hi. rewrite (fin_M_nth t i Ht). reflexivity.
  Qed.


  Lemma fin_rowform : rowform n M (f_lr r).
  Proof.
    intros e He. unfold r, lu_repr in He. cbn [f_lr] in He. apply in_map_iff in He. destruct He as (rt & <- & Hrt). cbn [fst snd].
    split; [apply (li_rlt n B st I); exact Hrt|]. intros i Hi. apply coefAt_lrow. exact fin_lc_nd.
  Qed.

  Lemma fin_lr_fst : map fst (f_lr r) = lu_rows st.
  Proof. unfold r, lu_repr. cbn [f_lr]. rewrite map_map. cbn [fst]. apply map_id. Qed.

  Lemma fin_ind b : (b < n)%nat -> ind (lu_rows st) b = 1.
  Proof. intros Hb. unfold ind. rewrite (proj2 (memb_In b (lu_rows st)) (fin_rcov b Hb)). reflexivity. Qed.

  Lemma fin_spike_eq a : spike r a = fold_left (axpy_step n) (lu_lc st) (mkvec n (qnth a)).
  Proof. reflexivity. Qed.
  Lemma fin_bpost_eq w : bpost r w = fold_left (axpy_step n) (rev (f_lr r)) w.
  Proof. reflexivity. Qed.

  (* L (spike a) = a  and  (bpost w) L = w *)
  Lemma fin_spike a i : (i < n)%nat ->
    qnth (spike r a) i + sumn n (fun b => M i b * qnth (spike r a) b) == qnth a i.
  Proof.
    intros Hi. rewrite fin_spike_eq.
    pose proof (ftranl_spec n M (lu_lc st) (mkvec n (qnth a))) as F.
    rewrite (li_lcr n B st I) in F. specialize (F fin_tri (li_rnd n B st I) fin_colform i Hi).
    rewrite qnth_mkvec in F by exact Hi. rewrite <- F. apply Qplus_comp; [reflexivity|].
    apply sumn_ext. intros b Hb. rewrite (fin_ind b Hb). ring.
  Qed.

  Lemma fin_bpost w i : (i < n)%nat ->
    qnth (bpost r w) i + sumn n (fun a => qnth (bpost r w) a * M a i) == qnth w i.
  Proof.
    intros Hi. rewrite fin_bpost_eq.
    pose proof (btranl_spec n M (f_lr r) w) as F. rewrite fin_lr_fst in F.
    specialize (F fin_tri (li_rnd n B st I) fin_rowform i Hi). rewrite <- F. apply Qplus_comp; [reflexivity|].
    apply sumn_ext. intros b Hb. rewrite (fin_ind b Hb). ring.
  Qed.

  Lemma fin_wf : wf_repr r = true.
  Proof.
    assert (R : forall x, In x (lu_rows st) -> (x < n)%nat) by exact (li_rlt n B st I).
    assert (C : forall x, In x (lu_cols st) -> (x < n)%nat) by exact (li_clt n B st I).
    unfold wf_repr. replace (f_dim r) with n by reflexivity. rewrite !andb_true_iff. repeat split.
    - exact (li_wf n B st I).
    - apply forallb_forall. intros e He. destruct (fin_rowform e He) as [H _]. unfold wf_eta. apply andb_true_iff. split; [apply Nat.ltb_lt; exact H|].
      unfold r, lu_repr in He. cbn [f_lr] in He. apply in_map_iff in He. destruct He as (rt & <- & Hrt). cbn [snd].
      unfold ind_lt, lu_lrow. apply forallb_forall. intros x Hx. apply in_flat_map in Hx. destruct Hx as (e & He & Hx).
      destruct (Qeq_bool (coefAt (snd e) rt) 0); [destruct Hx|]. destruct Hx as [<-|[]]. cbn [fst]. apply Nat.ltb_lt.
      apply R. rewrite <- (li_lcr n B st I). apply in_map. exact He.
    - apply forallb_forall. intros l Hl. unfold r, lu_repr in Hl. cbn [f_uc] in Hl. apply in_map_iff in Hl. destruct Hl as (j & <- & Hj).
      apply in_seq in Hj. apply ind_lt_tab_line. apply nth_lt_all; [exact R|lia].
    - apply forallb_forall. intros l Hl. unfold r, lu_repr in Hl. cbn [f_ur] in Hl. apply in_map_iff in Hl. destruct Hl as (j & <- & Hj).
      apply in_seq in Hj. apply ind_lt_tab_line. apply nth_lt_all; [exact C|lia].
    - apply forallb_forall. intros x Hx. apply Nat.ltb_lt. apply R. exact Hx.
    - apply forallb_forall. intros x Hx. apply Nat.ltb_lt. apply C. exact Hx.
  Qed.

  Lemma fin_Ucf i j : (i < n)%nat -> (j < n)%nat -> Ucf r i j == mget (lu_A st) i j.
  Proof.
    intros Hi Hj. unfold Ucf, r, lu_repr. cbn [f_uc]. rewrite nth_map_seq by exact Hj. apply (coefAt_tab_line n _ (fun i => mget (lu_A st) i j) i Hi).
  Qed.
  Lemma fin_Urf i j : (i < n)%nat -> (j < n)%nat -> Urf r i j == mget (lu_A st) i j.
  Proof.
    intros Hi Hj. unfold Urf, r, lu_repr. cbn [f_ur]. rewrite nth_map_seq by exact Hi. apply (coefAt_tab_line n _ (fun j => mget (lu_A st) i j) j Hj).
  Qed.

  Lemma fin_uc_nth j : (j < n)%nat ->
    nth j (f_uc r) [] = tab_line n (nth (index_of j (lu_cols st)) (lu_rows st) 0%nat) (fun i => mget (lu_A st) i j).
  Proof.
    intros Hj. unfold r, lu_repr. cbn [f_uc].
    exact (nth_map_seq (fun j => tab_line n (nth (index_of j (lu_cols st)) (lu_rows st) 0%nat) (fun i => mget (lu_A st) i j)) n j [] Hj).
  Qed.
  Lemma fin_ur_nth i : (i < n)%nat ->
    nth i (f_ur r) [] = tab_line n (nth (index_of i (lu_rows st)) (lu_cols st) 0%nat) (fun j => mget (lu_A st) i j).
  Proof.
    intros Hi. unfold r, lu_repr. cbn [f_ur].
    exact (nth_map_seq (fun i => tab_line n (nth (index_of i (lu_rows st)) (lu_cols st) 0%nat) (fun j => mget (lu_A st) i j)) n i [] Hi).
  Qed.

  Lemma fin_sfacts : sfacts r.
  Proof.
    assert (RK : forall k, rk r k = rw st k) by reflexivity.
    assert (CK : forall k, ck r k = cl st k) by reflexivity.
    assert (RI : forall k, (k < n)%nat -> index_of (rw st k) (lu_rows st) = k).
    { intros k Hk. apply (index_of_nth _ (li_rnd n B st I) k). rewrite lu_rows_len, Full. exact Hk. }
    assert (CI : forall k, (k < n)%nat -> index_of (cl st k) (lu_cols st) = k).
    { intros k Hk. apply (index_of_nth _ (li_cnd n B st I) k). rewrite lu_cols_len, Full. exact Hk. }
    assert (RInj : forall s t, (s < n)%nat -> (t < n)%nat -> rw st s = rw st t -> s = t).
    { intros s t Hs Ht E. apply (proj1 (NoDup_nth (lu_rows st) 0%nat) (li_rnd n B st I)); rewrite ?lu_rows_len, ?Full; assumption. }
    constructor; replace (f_dim r) with n by reflexivity.
    - exact fin_wf.
    - change (length (lu_rows st) = n). rewrite lu_rows_len. exact Full.
    - change (length (lu_cols st) = n). rewrite lu_cols_len. exact Full.
    - exact fin_rcov.
    - exact fin_ccov.
    - intros k Hk. unfold line_ok. rewrite RK, CK.
      assert (Hc : (cl st k < n)%nat) by (apply (li_clt n B st I); apply cl_in; rewrite Full; exact Hk).
      rewrite (fin_uc_nth _ Hc). rewrite (CI k Hk). fold (rw st k).
      unfold tab_line. eexists. eexists. split; [reflexivity|]. split.
      + rewrite Qred_correct. apply (li_piv n B st I k). rewrite Full. exact Hk.
      + intros t Ht. rewrite RK.
        assert (Hrt : (rw st t < n)%nat) by (apply (li_rlt n B st I); apply rw_in; rewrite Full; lia).
        rewrite (tab_rest_coef n (rw st k) (fun i => mget (lu_A st) i (cl st k)) (rw st t) Hrt).
        destruct (Nat.eqb_spec (rw st t) (rw st k)) as [E|NE]; [reflexivity|].
        apply (li_zero n B st I k (rw st t)); [rewrite Full; exact Hk|exact Hrt|].
        intros s Hs E. apply RInj in E; try lia. subst s. assert (t = k) by lia. subst t. apply NE. reflexivity.
    - intros k Hk. unfold line_ok. rewrite RK, CK.
      assert (Hr : (rw st k < n)%nat) by (apply (li_rlt n B st I); apply rw_in; rewrite Full; exact Hk).
      rewrite (fin_ur_nth _ Hr). rewrite (RI k Hk). fold (cl st k).
      unfold tab_line. eexists. eexists. split; [reflexivity|]. split.
      + rewrite Qred_correct. apply (li_piv n B st I k). rewrite Full. exact Hk.
      + intros t Ht. rewrite CK.
        assert (Hct : (cl st t < n)%nat) by (apply (li_clt n B st I); apply cl_in; rewrite Full; lia).
        rewrite (tab_rest_coef n (cl st k) (fun j => mget (lu_A st) (rw st k) j) (cl st t) Hct).
        destruct (Nat.eqb_spec (cl st t) (cl st k)) as [E|NE]; [reflexivity|].
        assert (t <> k) by (intros ->; apply NE; reflexivity).
        apply (li_zero n B st I t (rw st k)); [rewrite Full; lia|exact Hr|].
        intros s Hs E. apply RInj in E; lia.
    - intros i j Hi Hj. rewrite fin_Ucf, fin_Urf by assumption. reflexivity.
  Qed.

  Lemma fin_frep : frep_r r B.
  Proof.
    unfold frep_r, frep. replace (f_dim r) with n by reflexivity. split; [|split].
    - intros i j Hi Hj. rewrite (fin_Ucf i j Hi Hj). rewrite <- (li_LB n B st I i j Hi Hj).
      unfold spike. replace (f_er r) with (@nil (nat * sparse)) by reflexivity. cbn [fold_left].
      replace (f_dim r) with n by reflexivity. replace (f_lc r) with (lu_lc st) by reflexivity.
      unfold bcol. rewrite mkvec_qnth_mkvec. reflexivity.
    - intros v Z i Hi. rewrite <- (fin_spike v i Hi). rewrite (Z i Hi).
      rewrite sumn_0; [ring|]. intros b Hb. rewrite (Z b Hb). ring.
    - intros w a.
      transitivity (sumn n (fun l => qnth (bpost r w) l * qnth (spike r a) l) +
                    sumn n (fun l => sumn n (fun b => qnth (bpost r w) l * M l b * qnth (spike r a) b))).
      + rewrite <- sumn_add. apply sumn_ext. intros l Hl. rewrite <- (fin_spike a l Hl).
        rewrite Qmult_plus_distr_r. apply Qplus_comp; [reflexivity|]. rewrite <- sumn_scale. apply sumn_ext. intros b _. ring.
      + rewrite sumn_swap. rewrite <- sumn_add. apply sumn_ext. intros i Hi. rewrite <- (fin_bpost w i Hi).
        rewrite Qmult_plus_distr_l. apply Qplus_comp; [reflexivity|]. rewrite <- sumn_scale_r. apply sumn_ext. intros b _. ring.
  Qed.

  Lemma fin_represents : struct_ok r = true /\ represents r B.
  Proof.
    split; [apply struct_ok_facts; exact fin_sfacts|]. apply frep_represents; [exact fin_sfacts|exact fin_frep].
  Qed.
End Final.

(* ================================================================================================= (a) the factorization represents B *)
Lemma lu_factor_inv n B piv r : lu_factor n B piv = Some r ->
  exists st, lu_steps n (lu_init n B) piv = Some st /\ lu_inv n B st /\ lu_piv st = piv /\ length piv = n /\ r = lu_repr n st.
Proof.
  unfold lu_factor. destruct (Nat.eqb_spec (length piv) n) as [L|]; [|discriminate].
  destruct (lu_steps n (lu_init n B) piv) as [st|] eqn:S; [|discriminate]. intros E. inversion E; subst r.
  destruct (lu_steps_inv n B piv _ st (lu_inv_init n B) S) as [I P]. cbn [lu_init lu_piv app] in P.
  exists st. split; [reflexivity|]. split; [exact I|]. split; [exact P|]. split; [exact L|reflexivity].
Qed.

(* the result of the factorization with ANY admissible pivot order satisfies the structural invariant and represents B
   (ftran / btran through it solve B x = a / y B = c exactly for every right-hand side); it has no row etas and its
   permutations are the pivot order *)
Theorem lu_factor_represents n B piv r : lu_factor n B piv = Some r ->
  struct_ok r = true /\ represents r B /\ f_dim r = n /\ f_er r = [] /\ f_rperm r = map fst piv /\ f_cperm r = map snd piv.
Proof.
  intros H. destruct (lu_factor_inv n B piv r H) as (st & S & I & P & L & ->).
  assert (Full : length (lu_piv st) = n) by (rewrite P; exact L).
  destruct (fin_represents n B st I Full) as [SO R]. split; [exact SO|]. split; [exact R|].
  split; [reflexivity|]. split; [reflexivity|]. unfold lu_repr, lu_rows, lu_cols. cbn [f_rperm f_cperm]. rewrite P. split; reflexivity.
Qed.

Corollary lu_factor_solves n B piv r : lu_factor n B piv = Some r ->
  forall a, is_solution n B (ftran_dense r a) a /\ is_left_solution n B (btran r a) a.
Proof.
  intros H a. destruct (lu_factor_represents n B piv r H) as (_ & [_ R] & D & _). rewrite D in R. apply R.
Qed.

Corollary lu_factor_nonsingular n B piv r : lu_factor n B piv = Some r -> nonsingular n B.
Proof.
  intros H. destruct (lu_factor_represents n B piv r H) as (_ & R & D & _). rewrite <- D. apply (represents_nonsingular r B R).
Qed.

(* factor, then any history of accepted column replacements: every state solves exactly with the matrix it stands for *)
Corollary lu_factor_history_solves n B piv r h r1 : lu_factor n B piv = Some r -> update_hist r h = Some r1 ->
  (forall ka, In ka h -> (fst ka < n)%nat) ->
  forall a, is_solution n (replace_hist n B h) (ftran_dense r1 a) a /\ is_left_solution n (replace_hist n B h) (btran r1 a) a.
Proof.
  intros H U K a. destruct (lu_factor_represents n B piv r H) as (SO & R & D & _).
  assert (K' : forall ka, In ka h -> (fst ka < f_dim r)%nat) by (rewrite D; exact K).
  destruct (update_history_preserves h r B r1 SO R K' U) as (_ & [_ R1] & D1).
  rewrite D in *. rewrite D1 in R1. apply R1.
Qed.

(* ================================================================================================= (c) the elimination invariant *)
(* after the pivots (r_0, c_0) .. (r_k-1, c_k-1):  L_k ... L_1 B = A_k  (the L etas applied to column j of B give column j
   of A_k), column c_t of A_k vanishes outside the rows r_0 .. r_t - so in the order (r_0 .. r_k-1, other rows) x
   (c_0 .. c_k-1, other columns)  A_k = [U_k | * ; 0 | kernel_k]  with U_k upper triangular -, the pivots are not zero,
   and the rows r_t are final (they are rows of U). *)
Theorem lu_elim_invariant n B piv st : lu_steps n (lu_init n B) piv = Some st ->
  let k := length piv in
  lu_piv st = piv /\
  (forall i j, (i < n)%nat -> (j < n)%nat ->
     qnth (fold_left (axpy_step n) (lu_lc st) (bcol n B j)) i == mget (lu_A st) i j) /\
  (forall t i, (t < k)%nat -> (i < n)%nat -> (forall s, (s <= t)%nat -> i <> fst (nth s piv (0, 0)%nat)) ->
     mget (lu_A st) i (snd (nth t piv (0, 0)%nat)) == 0) /\
  (forall t, (t < k)%nat -> ~ mget (lu_A st) (fst (nth t piv (0, 0)%nat)) (snd (nth t piv (0, 0)%nat)) == 0) /\
  NoDup (map fst piv) /\ NoDup (map snd piv) /\ length (lu_lc st) = k.
Proof.
  intros S k. destruct (lu_steps_inv n B piv _ st (lu_inv_init n B) S) as [I P]. cbn [lu_init lu_piv app] in P.
  assert (RW : forall t, rw st t = fst (nth t piv (0, 0)%nat)).
  { intros t. unfold rw, lu_rows. rewrite P. apply (map_nth fst piv (0, 0)%nat t). }
  assert (CL : forall t, cl st t = snd (nth t piv (0, 0)%nat)).
  { intros t. unfold cl, lu_cols. rewrite P. apply (map_nth snd piv (0, 0)%nat t). }
  split; [exact P|]. split; [exact (li_LB n B st I)|]. split; [|split; [|split; [|split]]].
  - intros t i Ht Hi NE. rewrite <- CL. apply (li_zero n B st I t i); [rewrite P; exact Ht|exact Hi|].
    intros s Hs. rewrite RW. apply NE. exact Hs.
  - intros t Ht. rewrite <- RW, <- CL. apply (li_piv n B st I t). rewrite P. exact Ht.
  - pose proof (li_rnd n B st I) as H. unfold lu_rows in H. rewrite P in H. exact H.
  - pose proof (li_cnd n B st I) as H. unfold lu_cols in H. rewrite P in H. exact H.
  - rewrite <- (map_length fst). rewrite (li_lcr n B st I). rewrite lu_rows_len, P. reflexivity.
Qed.

(* ================================================================================================= (b) singular <-> stuck *)
Lemma fold_axpy_inert n : forall lc x, (forall e, In e lc -> (fst e < n)%nat /\ qnth x (fst e) == 0) ->
  forall k, (k < n)%nat -> qnth (fold_left (axpy_step n) lc x) k == qnth x k.
Proof.
  induction lc as [|[c ents] lc IH]; intros x H k Hk; [reflexivity|]. cbn [fold_left].
  destruct (H (c, ents) (or_introl eq_refl)) as [Hc Zc]. cbn [fst] in Hc, Zc.
  assert (X1 : forall l, (l < n)%nat -> qnth (axpy_step n x (c, ents)) l == qnth x l).
  { intros l Hl. rewrite axpy_step_spec by exact Hl. rewrite Zc. ring. }
  rewrite IH; [apply X1; exact Hk| |exact Hk].
  intros e He. destruct (H e (or_intror He)) as [A Z]. split; [exact A|]. rewrite (X1 _ A). exact Z.
Qed.

(* a row that is not pivoted yet and vanishes in the current matrix: row i of L_k ... L_1 is a left null vector of B *)
Lemma lu_zero_row_null n B st i : lu_inv n B st -> (i < n)%nat -> ~ In i (lu_rows st) ->
  (forall j, (j < n)%nat -> mget (lu_A st) i j == 0) ->
  left_null n B (mkvec n (fun l => qnth (fold_left (axpy_step n) (lu_lc st) (unitv n l)) i)).
Proof.
  intros I Hi NI Z.
  assert (L : vlin n (fun a => fold_left (axpy_step n) (lu_lc st) a)).
  { apply (vlin_fold_axpy n (lu_lc st) (fun a => a)); [apply vlin_idfun|exact (li_wf n B st I)]. }
  split.
  - intros j Hj. rewrite <- (Z j Hj). rewrite <- (li_LB n B st I i j Hi Hj). rewrite (L (bcol n B j) i Hi).
    apply sumn_ext. intros l Hl. rewrite qnth_mkvec by exact Hl. unfold bcol. rewrite qnth_mkvec by exact Hl. ring.
  - exists i. split; [exact Hi|]. rewrite qnth_mkvec by exact Hi.
    rewrite (fold_axpy_inert n (lu_lc st) (unitv n i)); [rewrite qnth_unitv by exact Hi; rewrite Nat.eqb_refl; discriminate| |exact Hi].
    intros e He. assert (Hin : In (fst e) (lu_rows st)) by (rewrite <- (li_lcr n B st I); apply in_map; exact He).
    pose proof (li_rlt n B st I _ Hin) as Hlt. split; [exact Hlt|]. rewrite qnth_unitv by exact Hlt.
    destruct (Nat.eqb_spec (fst e) i) as [E|_]; [|reflexivity]. exfalso. apply NI. rewrite <- E. exact Hin.
Qed.

(* the kernel has a zero row: B is singular *)
Theorem lu_zero_row_singular n B piv st i : lu_steps n (lu_init n B) piv = Some st ->
  (i < n)%nat -> ~ In i (map fst piv) ->
  (forall j, (j < n)%nat -> ~ In j (map snd piv) -> mget (lu_A st) i j == 0) -> ~ nonsingular n B.
Proof.
  intros S Hi NI Z. destruct (lu_steps_inv n B piv _ st (lu_inv_init n B) S) as [I P]. cbn [lu_init lu_piv app] in P.
  assert (NI' : ~ In i (lu_rows st)) by (unfold lu_rows; rewrite P; exact NI).
  refine (left_null_singular n B _ (lu_zero_row_null n B st i I Hi NI' _)).
  intros j Hj. destruct (in_dec Nat.eq_dec j (lu_cols st)) as [Hin|Hout].
  - destruct (In_nth _ _ 0%nat Hin) as (t & Ht & <-). rewrite lu_cols_len in Ht. apply (li_zero_unpiv n B st I i t Hi NI' Ht).
  - apply Z; [exact Hj|]. unfold lu_cols in Hout. rewrite P in Hout. exact Hout.
Qed.

(* a state without admissible pivot before the matrix is exhausted: the whole kernel is zero, B is singular *)
Lemma lu_stuck_null n B st : lu_inv n B st -> (length (lu_piv st) < n)%nat ->
  (forall r c, (r < n)%nat -> (c < n)%nat -> lu_ok n st r c = false) -> exists y, left_null n B y.
Proof.
  intros I K NO.
  destruct (nodup_missing n (lu_rows st) (li_rnd n B st I) ltac:(rewrite lu_rows_len; exact K)) as (i & Hi & NI).
  eexists. apply (lu_zero_row_null n B st i I Hi NI).
  intros j Hj. destruct (in_dec Nat.eq_dec j (lu_cols st)) as [Hin|Hout].
  - destruct (In_nth _ _ 0%nat Hin) as (t & Ht & <-). rewrite lu_cols_len in Ht. apply (li_zero_unpiv n B st I i t Hi NI Ht).
  - destruct (Qeq_bool (mget (lu_A st) i j) 0) eqn:Z; [apply Qeq_bool_iff; exact Z|]. exfalso.
    assert (OK : lu_ok n st i j = true).
    { apply lu_ok_spec. repeat split; try assumption. apply Qeq_bool_false_neq. exact Z. }
    rewrite (NO i j Hi Hj) in OK. discriminate.
Qed.

Theorem lu_stuck_singular n B piv st : lu_steps n (lu_init n B) piv = Some st -> (length piv < n)%nat ->
  (forall r c, (r < n)%nat -> (c < n)%nat -> lu_ok n st r c = false) -> ~ nonsingular n B.
Proof.
  intros S K NO. destruct (lu_steps_inv n B piv _ st (lu_inv_init n B) S) as [I P]. cbn [lu_init lu_piv app] in P.
  destruct (lu_stuck_null n B st I ltac:(rewrite P; exact K) NO) as [y Hy]. exact (left_null_singular n B y Hy).
Qed.

Lemma lu_find_some n st rc : lu_find n st = Some rc -> lu_ok n st (fst rc) (snd rc) = true.
Proof. unfold lu_find. intros H. apply find_some in H. exact (proj2 H). Qed.

Lemma lu_find_none n st : lu_find n st = None -> forall r c, (r < n)%nat -> (c < n)%nat -> lu_ok n st r c = false.
Proof.
  unfold lu_find. intros H r c Hr Hc. apply (find_none _ _ H (r, c)). apply in_prod; apply in_seq; lia.
Qed.

Lemma lu_step_ok n st rc : lu_ok n st (fst rc) (snd rc) = true -> exists st', lu_step n st rc = Some st'.
Proof. intros H. unfold lu_step. rewrite H. eexists. reflexivity. Qed.

Lemma lu_step_len n st rc st' : lu_step n st rc = Some st' -> length (lu_piv st') = S (length (lu_piv st)).
Proof.
  unfold lu_step. destruct (lu_ok n st (fst rc) (snd rc)); [|discriminate]. intros E. inversion E. cbn [lu_piv].
  rewrite app_length. simpl. lia.
Qed.

(* a non-singular matrix never gets stuck: after any admissible pivots that do not exhaust it there is a next one *)
Theorem lu_never_stuck n B piv st : nonsingular n B -> lu_steps n (lu_init n B) piv = Some st -> (length piv < n)%nat ->
  exists rc st', lu_step n st rc = Some st'.
Proof.
  intros NS S K. destruct (lu_find n st) as [rc|] eqn:F.
  - exists rc. apply lu_step_ok. apply lu_find_some. exact F.
  - exfalso. exact (lu_stuck_singular n B piv st S K (lu_find_none n st F) NS).
Qed.

(* the search: runs until the matrix is exhausted or no pivot is left *)
Lemma lu_auto_spec n B : forall fuel st, lu_inv n B st ->
  exists p, lu_steps n st p = Some (lu_auto n fuel st) /\
            (length p = fuel \/ ((length p < fuel)%nat /\ lu_find n (lu_auto n fuel st) = None)).
Proof.
  induction fuel as [|fuel IH]; intros st I; cbn [lu_auto].
  - exists []. split; [reflexivity|left; reflexivity].
  - destruct (lu_find n st) as [rc|] eqn:F.
    + destruct (lu_step_ok n st rc (lu_find_some n st rc F)) as [st1 S1]. rewrite S1.
      destruct (IH st1 (lu_step_inv n B st rc st1 I S1)) as (p & Sp & Hp).
      exists (rc :: p). split; [cbn [lu_steps]; rewrite S1; exact Sp|]. cbn [length]. destruct Hp as [E|[L N]]; [left; lia|right; split; [lia|exact N]].
    + exists []. split; [reflexivity|]. right. split; [simpl; lia|exact F].
Qed.

(* a non-singular matrix has a complete admissible pivot sequence (the one the search finds) *)
Theorem lu_factor_complete n B : nonsingular n B -> exists r, lu_factor n B (lu_auto_pivots n B) = Some r.
Proof.
  intros NS. unfold lu_auto_pivots.
  destruct (lu_auto_spec n B n (lu_init n B) (lu_inv_init n B)) as (p & S & H).
  destruct (lu_steps_inv n B p _ _ (lu_inv_init n B) S) as [I P]. cbn [lu_init lu_piv app] in P.
  destruct H as [L|[L N]].
  - exists (lu_repr n (lu_auto n n (lu_init n B))). unfold lu_factor. rewrite P, L, Nat.eqb_refl, S. reflexivity.
  - exfalso. exact (lu_stuck_singular n B p _ S L (lu_find_none n _ N) NS).
Qed.

(* singular <-> no pivot sequence succeeds *)
Theorem lu_factor_some_iff n B : (exists piv r, lu_factor n B piv = Some r) <-> nonsingular n B.
Proof.
  split.
  - intros (piv & r & H). exact (lu_factor_nonsingular n B piv r H).
  - intros NS. destruct (lu_factor_complete n B NS) as [r H]. exists (lu_auto_pivots n B), r. exact H.
Qed.

Theorem lu_singular_fails n B piv : ~ nonsingular n B -> lu_factor n B piv = None.
Proof.
  intros S. destruct (lu_factor n B piv) as [r|] eqn:H; [|reflexivity]. exfalso. exact (S (lu_factor_nonsingular n B piv r H)).
Qed.

(* for a singular matrix every admissible pivot sequence, continued as long as a non-zero pivot is left, gets stuck before
   the matrix is exhausted: in a state whose whole kernel is zero - what handle_singularity reports *)
Theorem lu_singular_gets_stuck n B piv st : ~ nonsingular n B -> lu_steps n (lu_init n B) piv = Some st ->
  exists piv' st', lu_steps n (lu_init n B) (piv ++ piv') = Some st' /\ (length (piv ++ piv') < n)%nat /\
                   forall r c, (r < n)%nat -> (c < n)%nat -> lu_ok n st' r c = false.
Proof.
  intros SG S. destruct (lu_steps_inv n B piv _ st (lu_inv_init n B) S) as [I P]. cbn [lu_init lu_piv app] in P.
  assert (K : (length piv <= n)%nat).
  { rewrite <- P, <- lu_rows_len. pose proof (NoDup_incl_length (li_rnd n B st I) (l' := seq 0 n)) as H. rewrite seq_length in H. apply H.
    intros x Hx. apply in_seq. pose proof (li_rlt n B st I x Hx). lia. }
  destruct (lu_auto_spec n B (n - length piv) st I) as (p & Sp & H).
  exists p, (lu_auto n (n - length piv) st).
  assert (S2 : lu_steps n (lu_init n B) (piv ++ p) = Some (lu_auto n (n - length piv) st)) by (rewrite lu_steps_app, S; exact Sp).
  split; [exact S2|]. rewrite app_length. destruct H as [L|[L N]].
  - exfalso. apply SG. apply (lu_factor_nonsingular n B (piv ++ p) (lu_repr n (lu_auto n (n - length piv) st))).
    unfold lu_factor. rewrite app_length, L. replace (length piv + (n - length piv))%nat with n by lia. rewrite Nat.eqb_refl, S2. reflexivity.
  - split; [lia|]. apply lu_find_none. exact N.
Qed.

(* what an admissible step is *)
Theorem lu_step_some_iff n st rc : (exists st', lu_step n st rc = Some st') <->
  (fst rc < n)%nat /\ (snd rc < n)%nat /\ ~ In (fst rc) (lu_rows st) /\ ~ In (snd rc) (lu_cols st) /\
  ~ mget (lu_A st) (fst rc) (snd rc) == 0.
Proof.
  rewrite <- lu_ok_spec. split.
  - intros [st' H]. unfold lu_step in H. destruct (lu_ok n st (fst rc) (snd rc)); [reflexivity|discriminate].
  - apply lu_step_ok.
Qed.

(* ---- the kernel has a zero column ------------------------------------------------------------------------------- *)
Lemma lu_inv_len n B st : lu_inv n B st -> (length (lu_piv st) <= n)%nat.
Proof.
  intros I. rewrite <- lu_rows_len. pose proof (NoDup_incl_length (li_rnd n B st I) (l' := seq 0 n)) as H. rewrite seq_length in H. apply H.
  intros x Hx. apply in_seq. pose proof (li_rlt n B st I x Hx). lia.
Qed.

Definition zero_col (n : nat) (st : lu_state) (c : nat) : Prop :=
  ~ In c (lu_cols st) /\ forall i, (i < n)%nat -> ~ In i (lu_rows st) -> mget (lu_A st) i c == 0.

Lemma zero_col_step n st rc st' c : (c < n)%nat -> zero_col n st c -> lu_step n st rc = Some st' -> zero_col n st' c.
Proof.
  intros Hc [NC Z] S. unfold lu_step in S. destruct rc as [r' c']. cbn [fst snd] in S.
  destruct (lu_ok n st r' c') eqn:OK; [|discriminate]. inversion S; subst st'; clear S.
  apply lu_ok_spec in OK. destruct OK as (Hr & Hc' & NR & NC' & PV).
  assert (NE : c' <> c) by (intros ->; apply PV; apply Z; assumption).
  split.
  - unfold lu_cols. cbn [lu_piv]. rewrite map_app. intros H. apply in_app_iff in H. destruct H as [H|[H|[]]]; [exact (NC H)|]. cbn [snd] in H. congruence.
  - unfold lu_rows. cbn [lu_piv lu_A]. rewrite map_app. intros i Hi NI.
    assert (NI' : ~ In i (lu_rows st)) by (intros H; apply NI; apply in_app_iff; left; exact H).
    rewrite mget_lu_elim by assumption. destruct (lu_active st r' c' i); [|apply Z; assumption].
    destruct (Nat.eqb_spec c c'); [congruence|].
    destruct (Qeq_bool (mget (lu_A st) r' c) 0); [apply Z; assumption|].
    rarith. rewrite (Z i Hi NI'), (Z r' Hr NR). ring.
Qed.

Lemma zero_col_steps n c : (c < n)%nat -> forall p st st', zero_col n st c -> lu_steps n st p = Some st' -> zero_col n st' c.
Proof.
  intros Hc. induction p as [|rc p IH]; intros st st' Z S; simpl in S; [inversion S; subst; exact Z|].
  destruct (lu_step n st rc) as [st1|] eqn:S1; [|discriminate]. apply (IH st1 st' (zero_col_step n st rc st1 c Hc Z S1) S).
Qed.

Theorem lu_zero_col_singular n B piv st c : lu_steps n (lu_init n B) piv = Some st ->
  (c < n)%nat -> ~ In c (map snd piv) ->
  (forall i, (i < n)%nat -> ~ In i (map fst piv) -> mget (lu_A st) i c == 0) -> ~ nonsingular n B.
Proof.
  intros S Hc NC Z NS. destruct (lu_steps_inv n B piv _ st (lu_inv_init n B) S) as [I P]. cbn [lu_init lu_piv app] in P.
  assert (ZC : zero_col n st c).
  { split; [unfold lu_cols; rewrite P; exact NC|]. intros i Hi NI. apply Z; [exact Hi|]. unfold lu_rows in NI. rewrite P in NI. exact NI. }
  pose proof (lu_inv_len n B st I) as K. rewrite P in K.
  destruct (lu_auto_spec n B (n - length piv) st I) as (p & Sp & H).
  assert (S2 : lu_steps n (lu_init n B) (piv ++ p) = Some (lu_auto n (n - length piv) st)) by (rewrite lu_steps_app, S; exact Sp).
  destruct (lu_steps_inv n B (piv ++ p) _ _ (lu_inv_init n B) S2) as [I2 P2]. cbn [lu_init lu_piv app] in P2.
  destruct (zero_col_steps n c Hc p st _ ZC Sp) as [NC2 _].
  destruct H as [L|[L N]].
  - apply NC2. apply (fin_ccov n B _ I2); [|exact Hc]. rewrite P2, app_length, L. lia.
  - apply (lu_stuck_singular n B (piv ++ p) _ S2); [rewrite app_length; lia|apply lu_find_none; exact N|exact NS].
Qed.

(* ================================================================================================= the report of a singular factorization *)
Lemma assoc_nat_in k l : NoDup (map fst l) -> forall v, In (k, v) l -> assoc_nat k l = Some v.
Proof.
  induction l as [|[a b] l IH]; intros ND v H; [destruct H|]. cbn [map fst] in ND. inversion ND as [|? ? NI ND']; subst. cbn [assoc_nat].
  destruct H as [E|H].
  - inversion E; subst. rewrite Nat.eqb_refl. reflexivity.
  - destruct (Nat.eqb_spec a k) as [->|NE]; [|apply IH; assumption]. exfalso. apply NI. apply (in_map fst _ _ H).
Qed.

Lemma mget_repair n B sing i j : (i < n)%nat -> (j < n)%nat ->
  mget (repair_cols n B sing) i j = match assoc_nat j sing with Some r => if Nat.eqb i r then 1 else 0 | None => mget B i j end.
Proof. intros Hi Hj. unfold repair_cols. apply mget_mkmat; assumption. Qed.

(* sing = [(singc_i, singr_i)], X accepted by check_sing_report: the matrix with the columns singc_i replaced by the unit
   columns of the rows singr_i (the repair of ILLbasis_factor) is non-singular; row singc_i of X is a left null vector of B
   with a 1 in position singr_i and 0 in the positions singr_j of the other pairs: |sing| linearly independent null
   vectors - the rank deficiency of B is exactly |sing| *)
Theorem sing_report_sound n B sing X : check_sing_report n B sing X = true -> NoDup (map fst sing) ->
  nonsingular n (repair_cols n B sing) /\
  (forall c r, In (c, r) sing ->
     (forall j, (j < n)%nat -> sumn n (fun i => mget X c i * mget B i j) == 0) /\
     (forall c' r', In (c', r') sing -> mget X c r' == if Nat.eqb c c' then 1 else 0)) /\
  (sing <> [] -> ~ nonsingular n B).
Proof.
  unfold check_sing_report. intros H ND. apply andb_true_iff in H. destruct H as [H H3]. apply andb_true_iff in H. destruct H as [H1 H2].
  rewrite forallb_forall in H1, H2, H3.
  assert (NSR : nonsingular n (repair_cols n B sing)).
  { apply (check_binv_all_nonsingular n _ X). intros i Hi. apply H1. apply in_seq. lia. }
  assert (P2 : forall c r, In (c, r) sing ->
     (forall j, (j < n)%nat -> sumn n (fun i => mget X c i * mget B i j) == 0) /\
     (forall c' r', In (c', r') sing -> mget X c r' == if Nat.eqb c c' then 1 else 0)).
  { intros c r Hin. pose proof (H3 _ Hin) as B3. cbn [fst snd] in B3. apply andb_true_iff in B3. destruct B3 as [Hc Hr].
    apply Nat.ltb_lt in Hc. apply Nat.ltb_lt in Hr. split.
    - intros j Hj. pose proof (H2 _ Hin) as C. cbn [fst] in C. apply check_btran_spec in C. rewrite (C j Hj). rewrite qnth_mkvec by exact Hj. reflexivity.
    - intros c' r' Hin'. pose proof (H3 _ Hin') as B3'. cbn [fst snd] in B3'. apply andb_true_iff in B3'. destruct B3' as [Hc' Hr'].
      apply Nat.ltb_lt in Hc'. apply Nat.ltb_lt in Hr'.
      pose proof (H1 c ltac:(apply in_seq; lia)) as C. apply check_binv_row_spec in C; [|exact Hc]. specialize (C c' Hc').
      rewrite qnth_unitv in C by exact Hc'. rewrite (Nat.eqb_sym c' c) in C. rewrite <- C.
      symmetry. etransitivity; [apply (sumn_single n r'); [exact Hr'|]|].
      + intros i Hi NE. rewrite mget_repair by assumption. rewrite (assoc_nat_in c' sing ND r' Hin').
        destruct (Nat.eqb_spec i r'); [congruence|ring].
      + cbv beta. rewrite mget_repair by assumption. rewrite (assoc_nat_in c' sing ND r' Hin'). rewrite Nat.eqb_refl. unfold mget. ring. }
  split; [exact NSR|]. split; [exact P2|].
  intros NE. destruct sing as [|[c r] sing']; [congruence|].
  destruct (P2 c r (or_introl eq_refl)) as [Z D]. pose proof (H3 _ (or_introl eq_refl)) as B3. cbn [fst snd] in B3.
  apply andb_true_iff in B3. destruct B3 as [Hc Hr]. apply Nat.ltb_lt in Hc. apply Nat.ltb_lt in Hr.
  apply (left_null_singular n B (mrow X c)). split; [exact Z|]. exists r. split; [exact Hr|].
  specialize (D c r (or_introl eq_refl)). rewrite Nat.eqb_refl in D. unfold mget in D. rewrite D. discriminate.
Qed.
