(* The factorization ILLfactor of factor.c as an operation that produces the representation [repr] of Fac/Factor.v:
   Gaussian elimination on a square rational matrix driven by a GIVEN pivot sequence.  The correctness of an LU
   factorization depends on the elimination algebra only, not on how the pivots are found; the pivot search of the C code
   (singleton lists, Markowitz counts in find_pivot, largest row / largest entry in dense_find_pivot) is therefore not
   modelled - its result, the pivot order, is an input ([piv] = (rperm[k], cperm[k]) for k = 0 .. dim-1).

   C code (qsopt_ex/factor.c)                             model
   ---------------------------------------------------    ------------------------------------------------------------
   init_matrix: U rows/columns = the non-zeros of B        [lu_init]: the dense matrix B
   elim (f, r, c), general case: for every row j != r      [lu_step] with pivot (r, c): every row i that is not pivoted
     with an entry in column c (active rows only):           yet, i <> r, A[i][c] <> 0 ([lu_active]) gets
     elim_row: elim_coef = A[j][c] / A[r][c],                 mult = A[i][c] / A[r][c]          ([lu_mult])
       row j -= elim_coef * row r (on ALL columns that        A[i][j] -= mult * A[r][j], A[i][c] = 0   ([lu_elim])
       are not pivoted, active or not), entry (j, c)
       removed; lcindx/lccoef += (j, elim_coef),            eta (r, [(i, mult)])               ([lu_eta]), appended to L
       lc_inf[s].c = r
   elim, column singleton: no other active row has an       the same step: no row is active, the eta is empty
     entry in column c: lc_inf[s] empty
   elim, row singleton: SETPERM (f, --nstages, r, c),       the pivot order handed to the model is the RANK order
     no elimination, lc_inf[nstages] empty: the pivot        (rperm / cperm as they stand at the end).  A row singleton
     gets the LAST free rank, its column stays in the        found early sits at a late rank; when the model reaches it
     other rows as an inactive entry that later              every other row that still has an entry in its column is
     elim_row calls keep updating                            pivoted already, so its eta is empty and the entries above it
                                                             have received the same updates (they are part of the rows).
   dense_factor: dense_build_matrix (kernel rows x all      the same steps: dense_elim computes v = A[i][s] / A[s][s]
     columns of rank >= stage), dense_find_pivot,             for the rows below, row i -= v * row s on the columns
     dense_swap (rows and columns of dmat AND the             s+1 .. dcols-1, stores v in place; dense_create_col turns
     multipliers already stored in them), dense_elim,         column i below the diagonal into the eta
     dense_replace_row / dense_create_col                     (rperm[i], [(rperm[j], v_j)]), dense_replace_row turns row i
                                                              from the diagonal on into the U row (pivot first)
   build_iteration_u_data: U by columns from U by rows,     [lu_repr]: f_uc / f_ur = [tab_line] of the final matrix
     pivot first                                              (pivot first, then the other non-zeros)
   build_iteration_l_data: L by rows: lr_inf[k].r =          f_lr = for every rank k the row (rperm[k], [(lc_inf[i].c, coef)
     lc_inf[k].c, entries (lc_inf[i].c, coef) for every        for every eta i with an entry in row rperm[k]])
     eta i that has an entry in that row
   f->etacnt = 0                                            f_er = []
   find_pivot / dense_find_pivot return E_NO_PIVOT ->        [lu_step] = None when the prescribed pivot is zero (or repeats
     handle_singularity                                       a row / column, or is out of range); see LUFactorSound.v:
                                                              for a singular B every pivot sequence ends like this
   fzero_tol / partial pivoting thresholds                  exact arithmetic: fzero_tol = 0 for mpq; thresholds only
                                                              influence WHICH pivot is taken
   make_ur_space / make_uc_space / make_lc_space            not modelled (storage)

   The order of the entries inside an eta / a U line is not modelled: the correspondence compares them as sets
   ([repr_same_lu]: every line = pivot + sorted set of non-zeros, every eta = sorted set).

   Theorems: Fac/LUFactorSound.v ([lu_factor_represents], [lu_elim_invariant], [lu_factor_some_iff], [lu_stuck_singular]). *)
From QSX Require Export Fac.FTUpdate.
Local Open Scope Q_scope.

Definition memb (x : nat) (l : list nat) : bool := existsb (Nat.eqb x) l.

Record lu_state := {
  lu_A : mat;                        (* the matrix: pivoted rows hold their U row, the others the current kernel row *)
  lu_piv : list (nat * nat);         (* the pivots (row, column) taken so far, in rank order *)
  lu_lc : list (nat * sparse) }.     (* the L etas, one per pivot, in rank order *)

Definition lu_rows (st : lu_state) : list nat := map fst (lu_piv st).
Definition lu_cols (st : lu_state) : list nat := map snd (lu_piv st).

Definition lu_init (n : nat) (B : mat) : lu_state :=
  {| lu_A := mkmat n n (mget B); lu_piv := []; lu_lc := [] |}.

(* (r, c) is an admissible pivot: in range, row and column not used yet, entry not zero *)
Definition lu_ok (n : nat) (st : lu_state) (r c : nat) : bool :=
  Nat.ltb r n && Nat.ltb c n && negb (memb r (lu_rows st)) && negb (memb c (lu_cols st)) &&
  negb (Qeq_bool (mget (lu_A st) r c) 0).

(* the rows elim_row is called for: not pivoted, not the pivot row, an entry in the pivot column *)
Definition lu_active (st : lu_state) (r c i : nat) : bool :=
  negb (Nat.eqb i r) && negb (memb i (lu_rows st)) && negb (Qeq_bool (mget (lu_A st) i c) 0).

(* elim_coef = A[i][c] / A[r][c] *)
Definition lu_mult (st : lu_state) (r c i : nat) : Q := rdiv (mget (lu_A st) i c) (mget (lu_A st) r c).

Definition lu_eta (n : nat) (st : lu_state) (r c : nat) : sparse :=
  flat_map (fun i => if lu_active st r c i then [(i, lu_mult st r c i)] else []) (seq 0 n).

Definition lu_row (n : nat) (st : lu_state) (r c i : nat) : vec :=
  let A := lu_A st in
  if lu_active st r c i then
    let m := lu_mult st r c i in
    mkvec n (fun j => if Nat.eqb j c then 0
                      else if Qeq_bool (mget A r j) 0 then mget A i j
                      else rsub (mget A i j) (rmul m (mget A r j)))
  else mkvec n (mget A i).

Definition lu_elim (n : nat) (st : lu_state) (r c : nat) : mat := map (lu_row n st r c) (seq 0 n).

Definition lu_step (n : nat) (st : lu_state) (rc : nat * nat) : option lu_state :=
  if lu_ok n st (fst rc) (snd rc) then
    Some {| lu_A := lu_elim n st (fst rc) (snd rc);
            lu_piv := lu_piv st ++ [rc];
            lu_lc := lu_lc st ++ [(fst rc, lu_eta n st (fst rc) (snd rc))] |}
  else None.

Fixpoint lu_steps (n : nat) (st : lu_state) (piv : list (nat * nat)) : option lu_state :=
  match piv with
  | [] => Some st
  | rc :: t => match lu_step n st rc with Some st' => lu_steps n st' t | None => None end
  end.

(* L by rows (build_iteration_l_data): row rt collects (pivot row of the eta, coefficient) from every eta with an entry in rt *)
Definition lu_lrow (lc : list (nat * sparse)) (rt : nat) : sparse :=
  flat_map (fun e => let m := coefAt (snd e) rt in if Qeq_bool m 0 then [] else [(fst e, Qred m)]) lc.

Definition lu_repr (n : nat) (st : lu_state) : repr :=
  let rperm := lu_rows st in
  let cperm := lu_cols st in
  let A := lu_A st in
  {| f_dim := n;
     f_lc := lu_lc st;
     f_lr := map (fun rt => (rt, lu_lrow (lu_lc st) rt)) rperm;
     f_er := [];
     f_uc := map (fun j => tab_line n (nth (index_of j cperm) rperm 0%nat) (fun i => mget A i j)) (seq 0 n);
     f_ur := map (fun i => tab_line n (nth (index_of i rperm) cperm 0%nat) (fun j => mget A i j)) (seq 0 n);
     f_rperm := rperm; f_cperm := cperm |}.

(* ILLfactor with the pivot order [piv]; None when a prescribed pivot is not admissible or the sequence does not exhaust
   the matrix *)
Definition lu_factor (n : nat) (B : mat) (piv : list (nat * nat)) : option repr :=
  if Nat.eqb (length piv) n then
    match lu_steps n (lu_init n B) piv with
    | Some st => Some (lu_repr n st)
    | None => None
    end
  else None.

(* the kernel after the pivots [piv]: the rows and columns not pivoted yet (None when [piv] is not admissible) *)
Definition lu_kernel (n : nat) (B : mat) (piv : list (nat * nat)) : option (list nat * list nat * mat) :=
  match lu_steps n (lu_init n B) piv with
  | Some st =>
    let rs := filter (fun i => negb (memb i (lu_rows st))) (seq 0 n) in
    let cs := filter (fun j => negb (memb j (lu_cols st))) (seq 0 n) in
    Some (rs, cs, map (fun i => map (fun j => mget (lu_A st) i j) cs) rs)
  | None => None
  end.

(* a pivot search (first non-zero entry of the kernel in row-major order): used to show that a non-singular matrix
   always has a complete admissible pivot sequence; NOT the search of the C code *)
Definition lu_find (n : nat) (st : lu_state) : option (nat * nat) :=
  find (fun rc => lu_ok n st (fst rc) (snd rc)) (list_prod (seq 0 n) (seq 0 n)).

Fixpoint lu_auto (n : nat) (fuel : nat) (st : lu_state) : lu_state :=
  match fuel with
  | O => st
  | S f => match lu_find n st with
           | Some rc => match lu_step n st rc with Some st' => lu_auto n f st' | None => st end
           | None => st
           end
  end.

(* the pivots a complete elimination with the search above takes *)
Definition lu_auto_pivots (n : nat) (B : mat) : list (nat * nat) := lu_piv (lu_auto n n (lu_init n B)).

(* comparison with a dumped factor_work: U lines as pivot + set of entries, L etas (both forms) as sets, permutations,
   no row etas *)
Definition repr_same_lu (a b : repr) : bool :=
  Nat.eqb (f_dim a) (f_dim b) &&
  lines_eqb (f_uc a) (f_uc b) && lines_eqb (f_ur a) (f_ur b) &&
  natlist_eqb (f_rperm a) (f_rperm b) && natlist_eqb (f_cperm a) (f_cperm b) &&
  etas_eqb (f_lc a) (f_lc b) && etas_eqb (f_lr a) (f_lr b) && etas_eqb (f_er a) (f_er b).

(* ---- the report of handle_singularity ---------------------------------------------------------------------------
   singr[i], singc[i] (i < nsing) = the rows / columns left without a pivot.  ILLbasis_factor replaces the basis columns
   singc[i] by the unit columns of the rows singr[i].  [repair_cols] is that matrix.                                    *)
Fixpoint assoc_nat (k : nat) (l : list (nat * nat)) : option nat :=
  match l with
  | [] => None
  | (a, b) :: t => if Nat.eqb a k then Some b else assoc_nat k t
  end.

(* sing = [(singc_i, singr_i)] *)
Definition repair_cols (n : nat) (B : mat) (sing : list (nat * nat)) : mat :=
  mkmat n n (fun i j => match assoc_nat j sing with
                        | Some r => if Nat.eqb i r then 1 else 0
                        | None => mget B i j
                        end).

(* checkable form of "the report is exact": X is the inverse of the repaired matrix (rows multiply back) and its rows
   singc_i are left null vectors of B *)
Definition check_sing_report (n : nat) (B : mat) (sing : list (nat * nat)) (X : mat) : bool :=
  forallb (fun i => check_binv_row n (repair_cols n B sing) (mrow X i) i) (seq 0 n) &&
  forallb (fun cr => check_btran n B (mrow X (fst cr)) (mkvec n (fun _ => 0))) sing &&
  forallb (fun cr => Nat.ltb (fst cr) n && Nat.ltb (snd cr) n) sing.

(* a recorded instance: the matrix and the factor_work dumped by h_fac after mpq_ILLfactor (FNEW 3, default parameters;
   pivot order (2,2), (0,1), (1,0); the last rank is a singleton) *)
Definition ex_lu_B : mat := [[2; 1; 0]; [1; 3; 1]; [0; 1; 4]].
Definition ex_lu_dump : repr :=
  {| f_dim := 3;
     f_lc := [(2%nat, [(1%nat, 1 # 4)]); (0%nat, [(1%nat, 11 # 4)]); (1%nat, [])];
     f_lr := [(2%nat, []); (0%nat, []); (1%nat, [(2%nat, 1 # 4); (0%nat, 11 # 4)])];
     f_er := [];
     f_uc := [[(1%nat, -9 # 2); (0%nat, 2)]; [(0%nat, 1); (2%nat, 1)]; [(2%nat, 4)]];
     f_ur := [[(1%nat, 1); (0%nat, 2)]; [(0%nat, -9 # 2)]; [(2%nat, 4); (1%nat, 1)]];
     f_rperm := [2; 0; 1]%nat; f_cperm := [2; 1; 0]%nat |}.
