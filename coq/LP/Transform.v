(* Reformulations of an LP (C15) as executable functions on the user LP, and the
   generic equivalence notion they all establish:  a pair of maps between the
   feasible sets together with an affine map on objective values. *)
From QSX Require Export LP.User.
Local Open Scope Q_scope.

(* ---- row satisfaction as a predicate on the row itself ---------------------- *)
Definition ract (n : nat) (r : urow) (x : nat -> Q) : Q := sumn n (fun j => coefAt (ur_ent r) j * x j).

Definition row_sat (M : Q) (n : nat) (x : nat -> Q) (r : urow) : Prop :=
  match ur_sense r with
  | SL => ract n r x <= ur_rhs r
  | SG => ur_rhs r <= ract n r x
  | SE => ract n r x == ur_rhs r
  | SR => ur_rhs r <= ract n r x /\ (ur_range r == M \/ ract n r x <= ur_rhs r + ur_range r)
  end.

Definition uunbounded (M : Q) (U : ulp) : Prop :=
  (exists x, ufeasible M U x) /\
  forall k : Q, exists x, ufeasible M U x /\ (if u_max U then k < uobj U x else uobj U x < k).

(* ---- the transformations ------------------------------------------------------ *)

(* objective negation with min/max flip *)
Definition neg_obj (U : ulp) : ulp :=
  {| u_max := negb (u_max U);
     u_cols := map (fun c => {| uc_obj := - uc_obj c; uc_lo := uc_lo c; uc_up := uc_up c |}) (u_cols U);
     u_rows := u_rows U |}.

(* multiply one row by lambda <> 0 (sense flipped and range interval mirrored when lambda < 0) *)
Definition scale_ent (l : Q) (e : list (nat * Q)) : list (nat * Q) := map (fun kv => (fst kv, rmul l (snd kv))) e.
Definition scale_row (l : Q) (r : urow) : urow :=
  if Qltb 0 l then
    {| ur_sense := ur_sense r; ur_rhs := rmul l (ur_rhs r); ur_range := rmul l (ur_range r); ur_ent := scale_ent l (ur_ent r) |}
  else
    match ur_sense r with
    | SL => {| ur_sense := SG; ur_rhs := rmul l (ur_rhs r); ur_range := 0; ur_ent := scale_ent l (ur_ent r) |}
    | SG => {| ur_sense := SL; ur_rhs := rmul l (ur_rhs r); ur_range := 0; ur_ent := scale_ent l (ur_ent r) |}
    | SE => {| ur_sense := SE; ur_rhs := rmul l (ur_rhs r); ur_range := 0; ur_ent := scale_ent l (ur_ent r) |}
    | SR => (* rhs <= a.x <= rhs + range   becomes   l*(rhs+range) <= l a.x <= l*rhs *)
      {| ur_sense := SR; ur_rhs := rmul l (radd (ur_rhs r) (ur_range r)); ur_range := rmul (- l) (ur_range r);
         ur_ent := scale_ent l (ur_ent r) |}
    end.

Fixpoint map_nth_row (f : urow -> urow) (i : nat) (rows : list urow) : list urow :=
  match rows, i with
  | [], _ => []
  | r :: rs, O => f r :: rs
  | r :: rs, S k => r :: map_nth_row f k rs
  end.

(* None when the transformation would not be meaning preserving (lambda = 0, or a scaled
   finite range colliding with the sentinel) *)
Definition scale_row_lp (M : Q) (i : nat) (l : Q) (U : ulp) : option ulp :=
  let r := nth i (u_rows U) durow in
  if Qeq_bool l 0 then None
  else if (match ur_sense r with SR => Qeq_bool (ur_range r) M || Qeq_bool (ur_range (scale_row l r)) M | _ => false end)
  then None
  else Some {| u_max := u_max U; u_cols := u_cols U; u_rows := map_nth_row (scale_row l) i (u_rows U) |}.

(* duplicate row i (appended at the end) *)
Definition dup_row (i : nat) (U : ulp) : ulp :=
  {| u_max := u_max U; u_cols := u_cols U; u_rows := u_rows U ++ [nth i (u_rows U) durow] |}.

(* append a row implied by row i: same left hand side, weaker right hand side *)
Definition weaken_row (d : Q) (r : urow) : urow :=
  match ur_sense r with
  | SL => {| ur_sense := SL; ur_rhs := radd (ur_rhs r) (Qabs d); ur_range := 0; ur_ent := ur_ent r |}
  | SG => {| ur_sense := SG; ur_rhs := rsub (ur_rhs r) (Qabs d); ur_range := 0; ur_ent := ur_ent r |}
  | SE => {| ur_sense := SL; ur_rhs := radd (ur_rhs r) (Qabs d); ur_range := 0; ur_ent := ur_ent r |}
  | SR => {| ur_sense := SG; ur_rhs := rsub (ur_rhs r) (Qabs d); ur_range := 0; ur_ent := ur_ent r |}
  end.
Definition add_redundant (i : nat) (d : Q) (U : ulp) : ulp :=
  {| u_max := u_max U; u_cols := u_cols U; u_rows := u_rows U ++ [weaken_row d (nth i (u_rows U) durow)] |}.

(* an equality row written as two inequalities *)
Fixpoint split_eq_rows (i : nat) (rows : list urow) : list urow :=
  match rows, i with
  | [], _ => []
  | r :: rs, O =>
    match ur_sense r with
    | SE => {| ur_sense := SL; ur_rhs := ur_rhs r; ur_range := 0; ur_ent := ur_ent r |} ::
            {| ur_sense := SG; ur_rhs := ur_rhs r; ur_range := 0; ur_ent := ur_ent r |} :: rs
    | _ => r :: rs
    end
  | r :: rs, S k => r :: split_eq_rows k rs
  end.
Definition split_eq (i : nat) (U : ulp) : ulp :=
  {| u_max := u_max U; u_cols := u_cols U; u_rows := split_eq_rows i (u_rows U) |}.

(* row permutation given as a list of old indices *)
Definition perm_rows (p : list nat) (U : ulp) : ulp :=
  {| u_max := u_max U; u_cols := u_cols U; u_rows := map (fun i => nth i (u_rows U) durow) p |}.
Fixpoint mem_nat (a : nat) (l : list nat) : bool := match l with [] => false | b :: r => Nat.eqb a b || mem_nat a r end.
Fixpoint nodup_nat (l : list nat) : bool := match l with [] => true | a :: r => negb (mem_nat a r) && nodup_nat r end.
Definition is_perm (n : nat) (p : list nat) : bool :=
  Nat.eqb (length p) n && forallb (fun i => Nat.ltb i n) p && nodup_nat p.

(* affine substitution of the variables:  x_j = a_j * x'_j + t_j   (a_j <> 0) *)
Definition sub_bound_lo (M a t lo up : Q) : Q :=
  if Qltb 0 a then (if Qeq_bool lo (- M) then - M else rdiv (rsub lo t) a)
  else (if Qeq_bool up M then - M else rdiv (rsub up t) a).
Definition sub_bound_up (M a t lo up : Q) : Q :=
  if Qltb 0 a then (if Qeq_bool up M then M else rdiv (rsub up t) a)
  else (if Qeq_bool lo (- M) then M else rdiv (rsub lo t) a).

Fixpoint sub_cols (M : Q) (cols : list ucol) (al tl : list Q) : list ucol :=
  match cols, al, tl with
  | c :: cs, a :: al', t :: tl' =>
    {| uc_obj := rmul (uc_obj c) a; uc_lo := sub_bound_lo M a t (uc_lo c) (uc_up c);
       uc_up := sub_bound_up M a t (uc_lo c) (uc_up c) |} :: sub_cols M cs al' tl'
  | _, _, _ => []
  end.

Definition sub_ent (al : list Q) (e : list (nat * Q)) : list (nat * Q) :=
  map (fun kv => (fst kv, rmul (snd kv) (nth (fst kv) al 1))) e.
Definition ent_dot (e : list (nat * Q)) (t : list Q) : Q :=
  fold_right (fun kv acc => radd (rmul (snd kv) (nth (fst kv) t 0)) acc) 0 e.
Definition sub_row (al tl : list Q) (r : urow) : urow :=
  {| ur_sense := ur_sense r; ur_rhs := rsub (ur_rhs r) (ent_dot (ur_ent r) tl); ur_range := ur_range r;
     ur_ent := sub_ent al (ur_ent r) |}.

Definition sub_ok_col (M : Q) (c c' : ucol) (a : Q) : bool :=
  negb (Qeq_bool a 0) &&
  (* a finite bound must not land on the sentinel, an infinite one must stay infinite *)
  Bool.eqb (Qeq_bool (uc_lo c') (- M)) (if Qltb 0 a then Qeq_bool (uc_lo c) (- M) else Qeq_bool (uc_up c) M) &&
  Bool.eqb (Qeq_bool (uc_up c') M) (if Qltb 0 a then Qeq_bool (uc_up c) M else Qeq_bool (uc_lo c) (- M)).

Fixpoint forallb3 {A B C} (f : A -> B -> C -> bool) (l : list A) (m : list B) (k : list C) : bool :=
  match l, m, k with
  | a :: l', b :: m', c :: k' => f a b c && forallb3 f l' m' k'
  | [], [], [] => true
  | _, _, _ => false
  end.

Definition subst_vars (M : Q) (al tl : list Q) (U : ulp) : option ulp :=
  let cols' := sub_cols M (u_cols U) al tl in
  if Nat.eqb (length al) (un U) && Nat.eqb (length tl) (un U) && wf_ulp U &&
     forallb3 (sub_ok_col M) (u_cols U) cols' al
  then Some {| u_max := u_max U; u_cols := cols'; u_rows := map (sub_row al tl) (u_rows U) |}
  else None.

(* value maps *)
Definition subst_value (U : ulp) (tl : list Q) (v : Q) : Q :=
  v - sumn (un U) (fun j => uc_obj (ucolj U j) * nth j tl 0).

(* column permutation: new column k is old column p[k]; row entries are renamed accordingly *)
Fixpoint index_of (j : nat) (p : list nat) : nat :=
  match p with
  | [] => O
  | a :: r => if Nat.eqb a j then O else S (index_of j r)
  end.
Definition perm_ent (p : list nat) (e : list (nat * Q)) : list (nat * Q) :=
  map (fun kv => (index_of (fst kv) p, snd kv)) e.
Definition perm_cols (p : list nat) (U : ulp) : option ulp :=
  if is_perm (un U) p && wf_ulp U then
    Some {| u_max := u_max U;
            u_cols := map (fun k => nth k (u_cols U) ducol) p;
            u_rows := map (fun r => {| ur_sense := ur_sense r; ur_rhs := ur_rhs r; ur_range := ur_range r;
                                       ur_ent := perm_ent p (ur_ent r) |}) (u_rows U) |}
  else None.
