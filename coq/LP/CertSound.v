(* Soundness of the certificate checkers: weak duality, Farkas, rays.
   No bound on dimensions or on the size of the data. *)
From QSX Require Export LP.Cert.
Local Open Scope Q_scope.

(* ---- bridging list computations and indexed sums ------------------------- *)

Lemma forallb2_length {A B} (f : A -> B -> bool) l m : forallb2 f l m = true -> length l = length m.
Proof.
  revert m; induction l as [|a l IH]; intros [|b m] H; simpl in *; try discriminate; [reflexivity|].
  apply andb_true_iff in H. destruct H as [_ H]. f_equal. apply IH. exact H.
Qed.

Lemma forallb2_nth {A B} (f : A -> B -> bool) l m da db j :
  forallb2 f l m = true -> (j < length l)%nat -> f (nth j l da) (nth j m db) = true.
Proof.
  revert m j; induction l as [|a l IH]; intros [|b m] j H Hj; simpl in *; try discriminate; try lia.
  apply andb_true_iff in H. destruct H as [H1 H2].
  destruct j as [|j]; [exact H1|]. apply IH; [exact H2|lia].
Qed.

Lemma rowact_l_sumn cols z i : length z = length cols ->
  rowact_l cols z i == sumn (length cols) (fun j => coefAt (ic_ent (nth j cols dcol)) i * qnth z j).
Proof.
  revert z; induction cols as [|c cs IH]; intros [|zj zs] H; simpl in H; try discriminate; [reflexivity|].
  cbn [rowact_l length]. rewrite sumn_shift. rarith. rewrite IH by lia. reflexivity.
Qed.

Lemma objval_l_sumn cols z : length z = length cols ->
  objval_l cols z == sumn (length cols) (fun j => ic_obj (nth j cols dcol) * qnth z j).
Proof.
  revert z; induction cols as [|c cs IH]; intros [|zj zs] H; simpl in H; try discriminate; [reflexivity|].
  cbn [objval_l length]. rewrite sumn_shift. rarith. rewrite IH by lia. reflexivity.
Qed.

Lemma dot_l_sumn a b : length a = length b ->
  dot_l a b == sumn (length a) (fun i => qnth a i * qnth b i).
Proof.
  revert b; induction a as [|x a IH]; intros [|y b] H; simpl in H; try discriminate; [reflexivity|].
  cbn [length]. rewrite sumn_shift. unfold dot_l in *. cbn [combine map qsum fold_right fst snd].
  rarith. apply Qplus_comp; [reflexivity|]. apply IH. lia.
Qed.

Lemma rowact_l_ok P z i : length z = ncols P ->
  rowact_l (i_cols P) z i == rowact P (qnth z) i.
Proof. intros H. unfold rowact, Aij, col. apply rowact_l_sumn. exact H. Qed.

Lemma objval_l_ok P z : length z = ncols P -> objval_l (i_cols P) z == objval P (qnth z).
Proof. intros H. unfold objval, col. apply objval_l_sumn. exact H. Qed.

Lemma dz_l_ok P y j : wf_ilp P = true -> length y = nrows P ->
  dz_l y (col P j) == dzf P (qnth y) j.
Proof.
  intros W _. unfold dz_l, dzf. rarith. rewrite (dot_sparse_sumn _ _ (nrows P)) by (apply wf_ilp_col; exact W).
  unfold Aij. reflexivity.
Qed.

Lemma forallb_seq f n : forallb f (seq 0 n) = true -> forall i, (i < n)%nat -> f i = true.
Proof.
  intros H i Hi. rewrite forallb_forall in H. apply H. apply in_seq. lia.
Qed.

(* Qeq_bool / Qle_bool as propositions *)
Ltac qb :=
  repeat match goal with
  | H : Qeq_bool _ _ = true |- _ => apply Qeq_bool_iff in H
  | H : Qle_bool _ _ = true |- _ => apply Qle_bool_iff in H
  | H : Qltb _ _ = true |- _ => apply Qltb_lt in H
  | H : Qltb _ _ = false |- _ => apply Qltb_false in H
  | H : negb _ = true |- _ => apply negb_true_iff in H
  | H : negb _ = false |- _ => apply negb_false_iff in H
  | H : _ && _ = true |- _ => apply andb_true_iff in H; destruct H
  end.

(* ---- optimality ------------------------------------------------------------ *)

Section KKT.
  Variable I : infp.
  Variable P : ilp.
  Variables (z y : list Q) (v : Q).
  Hypothesis CK : check_kkt I P z y v = true.

  Let zf := qnth z.
  Let yf := qnth y.

  Lemma kkt_parts :
    wf_ilp P = true /\ length z = ncols P /\ length y = nrows P /\
    (forall i, (i < nrows P)%nat -> rowact P zf i == rhs P i) /\
    forallb2 (bound_ok I) (i_cols P) z = true /\
    forallb2 (fun c zj => dual_ok I (i_max P) c zj (dz_l y c)) (i_cols P) z = true /\
    objval P zf == v /\
    radd (dot_l y (i_rhs P)) (qsum (map (fun c => dual_term (i_max P) c (dz_l y c)) (i_cols P))) == v.
  Proof.
    unfold check_kkt in CK. qb.
    repeat match goal with H : Nat.eqb _ _ = true |- _ => apply Nat.eqb_eq in H end.
    repeat split; try assumption.
    - intros i Hi.
      match goal with H : forallb _ (seq 0 _) = true |- _ => pose proof (forallb_seq _ _ H i Hi) as E end.
      cbv beta in E. qb. etransitivity; [symmetry; apply rowact_l_ok; assumption | exact E].
    - etransitivity; [symmetry; apply objval_l_ok; assumption | assumption].
  Qed.

  Lemma kkt_feasible : feasible I P zf.
  Proof.
    destruct kkt_parts as (W & Lz & Ly & Hrow & Hb & _).
    split; [exact Hrow|].
    intros j Hj. pose proof (forallb2_nth _ _ _ dcol 0 j Hb Hj) as E.
    unfold bound_ok in E. qb. fold (col P j) in *. fold (qnth z j) in *. fold (zf j) in *.
    split.
    - match goal with H : inflo _ _ || _ = true |- _ => apply orb_true_iff in H; destruct H as [H|H] end;
        [left; assumption | right; qb; assumption].
    - match goal with H : infup _ _ || _ = true |- _ => apply orb_true_iff in H; destruct H as [H|H] end;
        [left; assumption | right; qb; assumption].
  Qed.

  (* termwise: dz_j * z'_j is no better than dz_j * z_j *)
  Lemma kkt_term z' j : feasible I P z' -> (j < ncols P)%nat ->
    if i_max P then dzf P yf j * z' j <= dzf P yf j * zf j
    else dzf P yf j * zf j <= dzf P yf j * z' j.
  Proof.
    intros [_ Fb] Hj. destruct kkt_parts as (W & Lz & Ly & _ & _ & Hd & _).
    pose proof (forallb2_nth _ _ _ dcol 0 j Hd Hj) as E. cbv beta in E.
    fold (col P j) in E. fold (qnth z j) in E. fold (zf j) in E.
    destruct (Fb j Hj) as [Flo Fup].
    assert (Edz : dz_l y (col P j) == dzf P yf j) by (apply dz_l_ok; assumption).
    unfold dual_ok in E. set (d := dz_l y (col P j)) in *.
    set (D := dzf P yf j) in *. set (c := col P j) in *.
    apply andb_true_iff in E. destruct E as [E1 E2].
    apply orb_true_iff in E1. apply orb_true_iff in E2.
    destruct (i_max P) eqn:MX.
    - (* max: d<0 -> at lower ; d>0 -> at upper *)
      destruct (Qlt_le_dec D 0) as [Hneg|Hnn].
      + destruct E1 as [E1|E1].
        * qb. rewrite Edz in E1. exfalso. exact (Qlt_not_le _ _ Hneg E1).
        * qb. destruct Flo as [Flo|Flo]; [congruence|].
          match goal with H : zf j == ic_lo c |- _ => rewrite H end. nra.
      + destruct (Qlt_le_dec 0 D) as [Hpos|Hnp].
        * destruct E2 as [E2|E2].
          -- qb. rewrite Edz in E2. exfalso. exact (Qlt_not_le _ _ Hpos E2).
          -- qb. destruct Fup as [Fup|Fup]; [congruence|].
             match goal with H : zf j == ic_up c |- _ => rewrite H end. nra.
        * assert (D == 0) by (apply Qle_antisym; assumption). nra.
    - destruct (Qlt_le_dec 0 D) as [Hpos|Hnp].
      + destruct E1 as [E1|E1].
        * qb. rewrite Edz in E1. exfalso. exact (Qlt_not_le _ _ Hpos E1).
        * qb. destruct Flo as [Flo|Flo]; [congruence|].
          match goal with H : zf j == ic_lo c |- _ => rewrite H end. nra.
      + destruct (Qlt_le_dec D 0) as [Hneg|Hnn].
        * destruct E2 as [E2|E2].
          -- qb. rewrite Edz in E2. exfalso. exact (Qlt_not_le _ _ Hneg E2).
          -- qb. destruct Fup as [Fup|Fup]; [congruence|].
             match goal with H : zf j == ic_up c |- _ => rewrite H end. nra.
        * assert (D == 0) by (apply Qle_antisym; assumption). nra.
  Qed.

  Theorem check_kkt_sound : is_optimum I P zf v.
  Proof.
    pose proof kkt_feasible as F. destruct kkt_parts as (W & Lz & Ly & Hrow & _ & _ & Hv & _).
    split; [exact F|]. split; [exact Hv|].
    intros z' F'. unfold no_worse.
    assert (ER : sumn (nrows P) (fun i => yf i * rowact P z' i) ==
                 sumn (nrows P) (fun i => yf i * rowact P zf i)).
    { apply sumn_ext. intros i Hi. destruct F' as [Fr _]. rewrite (Fr i Hi), (Hrow i Hi). reflexivity. }
    pose proof (fun j Hj => kkt_term z' j F' Hj) as T.
    destruct (i_max P); rewrite <- Hv, (obj_split P yf z'), (obj_split P yf zf), ER;
      (apply Qplus_le_compat; [apply sumn_le; exact T|apply Qle_refl]).
  Qed.
End KKT.

(* ---- infeasibility --------------------------------------------------------- *)

Theorem check_farkas_sound I P y : check_farkas I P y = true -> infeasible I P.
Proof.
  intros CK z [Fr Fb]. unfold check_farkas in CK. qb.
  match goal with H : Nat.eqb _ _ = true |- _ => apply Nat.eqb_eq in H; rename H into Ly end.
  match goal with H : wf_ilp P = true |- _ => rename H into W end.
  match goal with H : forallb _ (i_cols P) = true |- _ => rename H into Hc end.
  match goal with H : 0 < _ |- _ => rename H into Hpos end.
  set (yf := qnth y) in *.
  set (r := fun j => - sumn (nrows P) (fun i => Aij P i j * yf i)).
  (* 0 = y.(b - A z) = y.b + sum_j r_j z_j *)
  assert (Z : sumn (nrows P) (fun i => yf i * rhs P i) + sumn (ncols P) (fun j => r j * z j) == 0).
  { assert (E : sumn (ncols P) (fun j => r j * z j) == - sumn (nrows P) (fun i => yf i * rowact P z i)).
    { unfold r, rowact. rewrite (dot_swap (nrows P) (ncols P) (Aij P) yf z).
      rewrite <- sumn_opp. apply sumn_ext. intros j _. ring. }
    rewrite E.
    assert (E3 : sumn (nrows P) (fun i => yf i * rowact P z i) == sumn (nrows P) (fun i => yf i * rhs P i)).
    { apply sumn_ext. intros i Hi. rewrite (Fr i Hi). reflexivity. }
    rewrite E3. ring. }
  (* termwise lower bound *)
  assert (T : sumn (ncols P) (fun j => farkas_term (col P j) y) <= sumn (ncols P) (fun j => r j * z j)).
  { apply sumn_le. intros j Hj.
    rewrite forallb_forall in Hc.
    assert (Hin : In (col P j) (i_cols P)) by (apply nth_In; exact Hj).
    pose proof (Hc _ Hin) as Cj. unfold farkas_col_ok in Cj.
    assert (Er : - dot_sparse (ic_ent (col P j)) y == r j).
    { unfold r. rewrite (dot_sparse_sumn _ _ (nrows P)) by (apply wf_ilp_col; exact W). reflexivity. }
    unfold farkas_term. destruct (Fb j Hj) as [Flo Fup].
    apply andb_true_iff in Cj. destruct Cj as [C1 C2].
    destruct (Qltb (- dot_sparse (ic_ent (col P j)) y) 0) eqn:Eneg.
    - qb. simpl in C1. qb. destruct Fup as [Fup|Fup]; [congruence|].
      rarith. rewrite Er in *. nra.
    - qb. rarith. rewrite Er in *.
      destruct (Qltb 0 (- dot_sparse (ic_ent (col P j)) y)) eqn:Epos.
      + simpl in C2. qb. rewrite Er in Epos. destruct Flo as [Flo|Flo]; [congruence|]. nra.
      + qb. rewrite Er in Epos. assert (r j == 0) by (apply Qle_antisym; assumption). nra. }
  rewrite radd_ok in Hpos. rewrite (dot_l_sumn y (i_rhs P) Ly) in Hpos.
  rewrite (qsum_map_sumn dcol) in Hpos.
  fold (ncols P) in Hpos. rewrite Ly in Hpos.
  assert (E4 : sumn (nrows P) (fun i => qnth y i * qnth (i_rhs P) i) == sumn (nrows P) (fun i => yf i * rhs P i))
    by (apply sumn_ext; intros; reflexivity).
  rewrite E4 in Hpos. fold (col P) in Hpos.
  assert (E5 : sumn (ncols P) (fun i => farkas_term (nth i (i_cols P) dcol) y) ==
               sumn (ncols P) (fun j => farkas_term (col P j) y)) by (apply sumn_ext; intros; reflexivity).
  rewrite E5 in Hpos. lra.
Qed.

(* ---- from the literal reading to "sentinel = no bound" ------------------------ *)

Definition no_sentinel_col (M : Q) (c : icol) (v : Q) : bool :=
  negb (Qeq_bool (ic_lo c) (- M) && Qeq_bool v (ic_lo c)) &&
  negb (Qeq_bool (ic_up c) M && Qeq_bool v (ic_up c)).
Definition no_sentinel (M : Q) (P : ilp) (z : list Q) : bool := forallb2 (no_sentinel_col M) (i_cols P) z.

Lemma forallb2_imp2 {A B} (f g h : A -> B -> bool) l m :
  (forall a b, f a b = true -> g a b = true -> h a b = true) ->
  forallb2 f l m = true -> forallb2 g l m = true -> forallb2 h l m = true.
Proof.
  intros Himp. revert m; induction l as [|a l IH]; intros [|b m] F G; simpl in *; try discriminate; [reflexivity|].
  apply andb_true_iff in F. apply andb_true_iff in G. destruct F as [F1 F2]. destruct G as [G1 G2].
  apply andb_true_iff. split; [apply Himp; assumption | apply IH; assumption].
Qed.

Theorem kkt_lit_to_inf M P z y v :
  check_kkt inf_none P z y v = true -> no_sentinel M P z = true ->
  check_kkt (inf_sentinel M) P z y v = true.
Proof.
  unfold check_kkt, no_sentinel. intros H NS.
  repeat match goal with H : _ && _ = true |- _ => apply andb_true_iff in H; destruct H end.
  repeat (apply andb_true_iff; split); try assumption.
  - match goal with H : forallb2 (bound_ok inf_none) _ _ = true |- _ =>
      revert H; apply forallb2_imp2 with (f := no_sentinel_col M); [|exact NS] end.
    intros c b _ Hb. unfold bound_ok in *. cbn [inflo infup inf_none inf_sentinel orb] in *.
    apply andb_true_iff in Hb. destruct Hb as [Hb1 Hb2]. rewrite Hb1, Hb2, !orb_true_r. reflexivity.
  - match goal with H : forallb2 (fun c zj => dual_ok inf_none _ c zj _) _ _ = true |- _ =>
      revert H; apply forallb2_imp2 with (f := no_sentinel_col M); [|exact NS] end.
    intros c b Hn Hd. unfold dual_ok, no_sentinel_col in *. cbn [inflo infup inf_none inf_sentinel negb andb] in *.
    apply andb_true_iff in Hd. destruct Hd as [D1 D2]. apply andb_true_iff in Hn. destruct Hn as [N1 N2].
    apply andb_true_iff. split.
    + apply orb_true_iff in D1. destruct D1 as [D1|D1]; [rewrite D1; reflexivity|].
      rewrite D1, andb_true_r in *. rewrite N1. apply orb_true_r.
    + apply orb_true_iff in D2. destruct D2 as [D2|D2]; [rewrite D2; reflexivity|].
      rewrite D2, andb_true_r in *. rewrite N2. apply orb_true_r.
Qed.
