(* Executable certificate checkers over the internal form.  Independent of the
   library's own tests: these are the oracles by which real answers are judged. *)
From QSX Require Export LP.ILP.
Local Open Scope Q_scope.

Definition dz_l (y : list Q) (c : icol) : Q := rsub (ic_obj c) (dot_sparse (ic_ent c) y).

(* activity of row i, computed column by column *)
Fixpoint rowact_l (cols : list icol) (z : list Q) (i : nat) : Q :=
  match cols, z with
  | c :: cs, zj :: zs => radd (rmul (coefAt (ic_ent c) i) zj) (rowact_l cs zs i)
  | _, _ => 0
  end.

Fixpoint objval_l (cols : list icol) (z : list Q) : Q :=
  match cols, z with
  | c :: cs, zj :: zs => radd (rmul (ic_obj c) zj) (objval_l cs zs)
  | _, _ => 0
  end.

Definition bound_ok (I : infp) (c : icol) (zj : Q) : bool :=
  (inflo I (ic_lo c) || Qle_bool (ic_lo c) zj) && (infup I (ic_up c) || Qle_bool zj (ic_up c)).

(* dual sign condition + complementary slackness for one column;
   s = +1 for min, -1 for max is folded into the comparison *)
Definition dual_ok (I : infp) (mx : bool) (c : icol) (zj d : Q) : bool :=
  let pos := if mx then Qltb d 0 else Qltb 0 d in     (* pushes towards lower bound *)
  let neg := if mx then Qltb 0 d else Qltb d 0 in     (* pushes towards upper bound *)
  (negb pos || (negb (inflo I (ic_lo c)) && Qeq_bool zj (ic_lo c))) &&
  (negb neg || (negb (infup I (ic_up c)) && Qeq_bool zj (ic_up c))).

(* contribution of a column to the dual objective *)
Definition dual_term (mx : bool) (c : icol) (d : Q) : Q :=
  let pos := if mx then Qltb d 0 else Qltb 0 d in
  let neg := if mx then Qltb 0 d else Qltb d 0 in
  if pos then rmul d (ic_lo c) else if neg then rmul d (ic_up c) else 0.

Fixpoint forallb2 {A B} (f : A -> B -> bool) (l : list A) (m : list B) : bool :=
  match l, m with
  | a :: l', b :: m' => f a b && forallb2 f l' m'
  | [], [] => true
  | _, _ => false
  end.

Definition dot_l (a b : list Q) : Q := qsum (map (fun p => rmul (fst p) (snd p)) (combine a b)).

Definition check_kkt (I : infp) (P : ilp) (z y : list Q) (v : Q) : bool :=
  wf_ilp P &&
  Nat.eqb (length z) (ncols P) && Nat.eqb (length y) (nrows P) &&
  forallb (fun i => Qeq_bool (rowact_l (i_cols P) z i) (qnth (i_rhs P) i)) (seq 0 (nrows P)) &&
  forallb2 (bound_ok I) (i_cols P) z &&
  forallb2 (fun c zj => dual_ok I (i_max P) c zj (dz_l y c)) (i_cols P) z &&
  Qeq_bool (objval_l (i_cols P) z) v &&
  Qeq_bool (radd (dot_l y (i_rhs P)) (qsum (map (fun c => dual_term (i_max P) c (dz_l y c)) (i_cols P)))) v.

(* Farkas: y with  r_j = -(A^T y)_j ;  r_j < 0 leans on the upper bound, r_j > 0 on
   the lower one; neither may be infinite;  y.b + sum r_j * bound_j > 0. *)
Definition farkas_col_ok (I : infp) (c : icol) (y : list Q) : bool :=
  let r := - dot_sparse (ic_ent c) y in
  (negb (Qltb r 0) || negb (infup I (ic_up c))) && (negb (Qltb 0 r) || negb (inflo I (ic_lo c))).
Definition farkas_term (c : icol) (y : list Q) : Q :=
  let r := - dot_sparse (ic_ent c) y in
  if Qltb r 0 then rmul r (ic_up c) else rmul r (ic_lo c).

Definition check_farkas (I : infp) (P : ilp) (y : list Q) : bool :=
  wf_ilp P && Nat.eqb (length y) (nrows P) &&
  forallb (fun c => farkas_col_ok I c y) (i_cols P) &&
  Qltb 0 (radd (dot_l y (i_rhs P)) (qsum (map (fun c => farkas_term c y) (i_cols P)))).

(* Unboundedness: a feasible point z0 and a direction d with A d = 0, d_j >= 0
   where the lower bound is finite, d_j <= 0 where the upper bound is finite,
   and c.d improving. *)
Definition ray_col_ok (I : infp) (c : icol) (dj : Q) : bool :=
  (inflo I (ic_lo c) || Qle_bool 0 dj) && (infup I (ic_up c) || Qle_bool dj 0).

Definition check_ray (I : infp) (P : ilp) (z0 d : list Q) : bool :=
  wf_ilp P &&
  Nat.eqb (length z0) (ncols P) && Nat.eqb (length d) (ncols P) &&
  forallb (fun i => Qeq_bool (rowact_l (i_cols P) z0 i) (qnth (i_rhs P) i)) (seq 0 (nrows P)) &&
  forallb2 (bound_ok I) (i_cols P) z0 &&
  forallb (fun i => Qeq_bool (rowact_l (i_cols P) d i) 0) (seq 0 (nrows P)) &&
  forallb2 (ray_col_ok I) (i_cols P) d &&
  (if i_max P then Qltb 0 (objval_l (i_cols P) d) else Qltb (objval_l (i_cols P) d) 0).
