(* Sign conventions of maximisation problems (simplex.c build_internal_lpinfo + lib.c ILLlib_solution):
   the simplex always minimises; for a MAX problem it works on the negated objective, and
   ILLlib_solution hands out  -objval, -pi, -rc  (x and slack unchanged).  The theorem: what is handed
   out is a certificate of the MAX problem whenever the internal values are one of the internal
   minimisation problem. *)
From QSX Require Export LP.CertSound.
Local Open Scope Q_scope.

Definition neg_col (c : icol) : icol :=
  {| ic_obj := - ic_obj c; ic_lo := ic_lo c; ic_up := ic_up c; ic_ent := ic_ent c |}.

(* the problem the simplex works on *)
Definition internal_min (P : ilp) : ilp :=
  if i_max P then {| i_max := false; i_cols := map neg_col (i_cols P); i_rhs := i_rhs P |} else P.

(* ILLlib_solution, no-cache branch *)
Definition lib_solution (mx : bool) (val : Q) (pi rc : list Q) : Q * list Q * list Q :=
  if mx then (- val, map Qopp pi, map Qopp rc) else (val, pi, rc).

(* semantic level: a minimiser of -c over the same feasible set is a maximiser of c *)
Lemma internal_min_feasible I P z : feasible I (internal_min P) z <-> feasible I P z.
Proof.
  unfold internal_min. destruct (i_max P) eqn:MX; [|reflexivity].
  unfold feasible, bounds_ok, rowact, Aij, col, ncols, nrows, rhs. cbn [i_cols i_rhs].
  rewrite map_length.
  assert (E : forall j, nth j (map neg_col (i_cols P)) dcol = neg_col (nth j (i_cols P) dcol)).
  { intros j. change dcol with (neg_col dcol) at 1. apply map_nth. }
  split; intros [F1 F2]; split; intros k Hk.
  - rewrite <- (F1 k Hk). apply sumn_ext. intros j _. rewrite E. reflexivity.
  - specialize (F2 k Hk). rewrite E in F2. exact F2.
  - rewrite <- (F1 k Hk). apply sumn_ext. intros j _. rewrite E. reflexivity.
  - specialize (F2 k Hk). rewrite E. exact F2.
Qed.

Lemma internal_min_objval P z : i_max P = true -> objval (internal_min P) z == - objval P z.
Proof.
  intros MX. unfold internal_min. rewrite MX. unfold objval, col, ncols. cbn [i_cols]. rewrite map_length.
  rewrite <- sumn_opp. apply sumn_ext. intros j _.
  change dcol with (neg_col dcol) at 1. rewrite map_nth. simpl. ring.
Qed.

Theorem lib_solution_optimum I P z v :
  is_optimum I (internal_min P) z v ->
  is_optimum I P z (fst (fst (lib_solution (i_max P) v [] []))).
Proof.
  intros (F & Ev & Best). unfold lib_solution. destruct (i_max P) eqn:MX; cbn [fst].
  - split; [apply internal_min_feasible; exact F|]. split.
    + rewrite internal_min_objval in Ev by exact MX. rewrite <- Ev. ring.
    + intros z' F'. pose proof (Best z' (proj2 (internal_min_feasible I P z') F')) as H.
      unfold no_worse in *. rewrite MX.
      assert (Hm : i_max (internal_min P) = false) by (unfold internal_min; rewrite MX; reflexivity).
      rewrite Hm in H. rewrite internal_min_objval in H by exact MX. lra.
  - assert (E : internal_min P = P) by (unfold internal_min; rewrite MX; reflexivity).
    rewrite E in *. split; [exact F|]. split; [exact Ev|exact Best].
Qed.

(* ---- certificate level ------------------------------------------------------------------------ *)

Lemma Qle_bool_comp a a' b b' : a == a' -> b == b' -> Qle_bool a b = Qle_bool a' b'.
Proof.
  intros E F. destruct (Qle_bool a b) eqn:H, (Qle_bool a' b') eqn:H'; try reflexivity.
  - apply Qle_bool_iff in H. rewrite E, F in H. apply Qle_bool_iff in H. congruence.
  - apply Qle_bool_iff in H'. rewrite <- E, <- F in H'. apply Qle_bool_iff in H'. congruence.
Qed.
Lemma Qltb_comp a a' b b' : a == a' -> b == b' -> Qltb a b = Qltb a' b'.
Proof. intros E F. unfold Qltb. rewrite (Qle_bool_comp b b' a a' F E). reflexivity. Qed.
Lemma Qeq_bool_comp a a' b b' : a == a' -> b == b' -> Qeq_bool a b = Qeq_bool a' b'.
Proof.
  intros E F. destruct (Qeq_bool a b) eqn:H, (Qeq_bool a' b') eqn:H'; try reflexivity.
  - apply Qeq_bool_iff in H. rewrite E, F in H. apply Qeq_bool_iff in H. congruence.
  - apply Qeq_bool_iff in H'. rewrite <- E, <- F in H'. apply Qeq_bool_iff in H'. congruence.
Qed.

Lemma qnth_map_opp y k : qnth (map Qopp y) k == - qnth y k.
Proof.
  unfold qnth. revert k. induction y as [|a y IH]; intros [|k]; simpl; try ring; try reflexivity. apply IH.
Qed.

Lemma dot_sparse_opp e y : dot_sparse e (map Qopp y) == - dot_sparse e y.
Proof.
  induction e as [|[k v] e IH]; simpl; [ring|]. rarith. rewrite IH, qnth_map_opp. ring.
Qed.

Lemma dz_l_opp y c : dz_l (map Qopp y) c == - dz_l y (neg_col c).
Proof. unfold dz_l. cbn [neg_col ic_obj ic_ent]. rarith. rewrite dot_sparse_opp. ring. Qed.

Lemma rowact_l_neg cols : forall z i, rowact_l (map neg_col cols) z i = rowact_l cols z i.
Proof. induction cols as [|c cs IH]; intros [|a z] i; simpl; try reflexivity. rewrite IH. reflexivity. Qed.

Lemma objval_l_neg cols : forall z, objval_l (map neg_col cols) z == - objval_l cols z.
Proof.
  induction cols as [|c cs IH]; intros [|a z]; simpl; try ring. rarith. rewrite IH. ring.
Qed.

Lemma dot_l_opp y b : dot_l (map Qopp y) b == - dot_l y b.
Proof.
  unfold dot_l. revert b. induction y as [|a y IH]; intros [|c b]; simpl; try ring. rarith. rewrite IH. ring.
Qed.

Lemma dual_ok_neg I c zj d d' : d == - d' -> dual_ok I true c zj d = dual_ok I false (neg_col c) zj d'.
Proof.
  intros E. unfold dual_ok. cbn [neg_col ic_lo ic_up].
  rewrite (Qltb_comp d (- d') 0 0 E (Qeq_refl 0)), (Qltb_comp 0 0 d (- d') (Qeq_refl 0) E).
  assert (A : Qltb (- d') 0 = Qltb 0 d').
  { destruct (Qltb (- d') 0) eqn:H, (Qltb 0 d') eqn:H'; try reflexivity.
    - apply Qltb_lt in H. apply Qltb_false in H'. lra.
    - apply Qltb_false in H. apply Qltb_lt in H'. lra. }
  assert (B : Qltb 0 (- d') = Qltb d' 0).
  { destruct (Qltb 0 (- d')) eqn:H, (Qltb d' 0) eqn:H'; try reflexivity.
    - apply Qltb_lt in H. apply Qltb_false in H'. lra.
    - apply Qltb_false in H. apply Qltb_lt in H'. lra. }
  rewrite A, B. reflexivity.
Qed.

Lemma dual_term_neg c d d' : d == - d' -> dual_term true c d == - dual_term false (neg_col c) d'.
Proof.
  intros E. unfold dual_term. cbn [neg_col ic_lo ic_up].
  rewrite (Qltb_comp d (- d') 0 0 E (Qeq_refl 0)), (Qltb_comp 0 0 d (- d') (Qeq_refl 0) E).
  assert (A : Qltb (- d') 0 = Qltb 0 d').
  { destruct (Qltb (- d') 0) eqn:H, (Qltb 0 d') eqn:H'; try reflexivity.
    - apply Qltb_lt in H. apply Qltb_false in H'. lra.
    - apply Qltb_false in H. apply Qltb_lt in H'. lra. }
  assert (B : Qltb 0 (- d') = Qltb d' 0).
  { destruct (Qltb 0 (- d')) eqn:H, (Qltb d' 0) eqn:H'; try reflexivity.
    - apply Qltb_lt in H. apply Qltb_false in H'. lra.
    - apply Qltb_false in H. apply Qltb_lt in H'. lra. }
  rewrite A, B. destruct (Qltb 0 d'); [rarith; rewrite E; ring|]. destruct (Qltb d' 0); [rarith; rewrite E; ring|ring].
Qed.

Lemma forallb2_map_l {A A' B} (g : A -> A') (f : A' -> B -> bool) l m :
  forallb2 f (map g l) m = forallb2 (fun a b => f (g a) b) l m.
Proof. revert m; induction l as [|a l IH]; intros [|b m]; simpl; try reflexivity. rewrite IH. reflexivity. Qed.

Lemma forallb2_ext {A B} (f g : A -> B -> bool) l m :
  (forall a b, f a b = g a b) -> forallb2 f l m = forallb2 g l m.
Proof. intros H. revert m; induction l as [|a l IH]; intros [|b m]; simpl; try reflexivity. rewrite H, IH. reflexivity. Qed.

Lemma qsum_map_opp {A} (f g : A -> Q) l : (forall a, f a == - g a) -> qsum (map f l) == - qsum (map g l).
Proof. intros H. induction l as [|a l IH]; simpl; [ring|]. rarith. rewrite H, IH. ring. Qed.

Lemma forallb_map' {A B} (g : A -> B) (f : B -> bool) l : forallb f (map g l) = forallb (fun a => f (g a)) l.
Proof. induction l as [|a l IH]; simpl; [reflexivity|]. rewrite IH. reflexivity. Qed.

Theorem lib_solution_certificate I P z y v :
  i_max P = true ->
  check_kkt I (internal_min P) z y v = true ->
  check_kkt I P z (map Qopp y) (- v) = true.
Proof.
  intros MX. unfold internal_min. rewrite MX. unfold check_kkt.
  cbn [i_max i_cols i_rhs]. rewrite MX.
  assert (W : wf_ilp {| i_max := false; i_cols := map neg_col (i_cols P); i_rhs := i_rhs P |} = wf_ilp P).
  { unfold wf_ilp, nrows. cbn [i_cols i_rhs]. rewrite forallb_map'. reflexivity. }
  rewrite W. unfold ncols, nrows. cbn [i_cols i_rhs]. rewrite !map_length.
  intros H. repeat (apply andb_true_iff in H; destruct H as [H ?]).
  repeat (apply andb_true_iff; split); try assumption.
  - (* rows *)
    match goal with G : forallb _ (seq 0 _) = true |- _ => rewrite forallb_forall in G; apply forallb_forall; intros i Hi; specialize (G i Hi) end.
    rewrite rowact_l_neg in *. assumption.
  - (* bounds *)
    match goal with G : forallb2 (bound_ok I) (map neg_col _) _ = true |- _ => rewrite forallb2_map_l in G; exact G end.
  - (* dual conditions *)
    match goal with G : forallb2 _ (map neg_col _) _ = true |- _ => rewrite forallb2_map_l in G; erewrite forallb2_ext; [exact G|] end.
    intros c b. apply dual_ok_neg. apply dz_l_opp.
  - (* primal objective *)
    match goal with G : Qeq_bool (objval_l (map neg_col _) _) v = true |- _ => apply Qeq_bool_iff in G end.
    apply Qeq_bool_iff. rewrite objval_l_neg in *. lra.
  - (* dual objective *)
    match goal with G : Qeq_bool (radd _ _) v = true |- _ => apply Qeq_bool_iff in G; rewrite radd_ok in G end.
    apply Qeq_bool_iff. rewrite radd_ok. rewrite dot_l_opp.
    rewrite map_map in *.
    rewrite (qsum_map_opp (fun c => dual_term true c (dz_l (map Qopp y) c)) (fun c => dual_term false (neg_col c) (dz_l y (neg_col c)))).
    + lra.
    + intros c. apply dual_term_neg. apply dz_l_opp.
Qed.
