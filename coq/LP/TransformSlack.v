(* C15: an inequality row written as an equation with an explicit slack column
     a.x <= b   ->   a.x + s = b,  s >= 0          a.x >= b   ->   a.x - s = b,  s >= 0
   (new last column, objective 0).  The feasible sets are in bijection (s = |b - a.x|) and the objective is
   unchanged: an lp_equiv whose forward map extends x by the slack value. *)
From QSX Require Import LP.Transform LP.TransformSound.
From Coq Require Import Lia Lqa.
Local Open Scope Q_scope.

Definition slack_col (M : Q) : ucol := {| uc_obj := 0; uc_lo := 0; uc_up := M |}.

Definition slack_row (n : nat) (r : urow) : option urow :=
  match ur_sense r with
  | SL => Some {| ur_sense := SE; ur_rhs := ur_rhs r; ur_range := 0; ur_ent := ur_ent r ++ [(n, 1)] |}
  | SG => Some {| ur_sense := SE; ur_rhs := ur_rhs r; ur_range := 0; ur_ent := ur_ent r ++ [(n, - (1))] |}
  | _ => None
  end.

Fixpoint set_nth_row (i : nat) (r' : urow) (rows : list urow) : list urow :=
  match rows, i with
  | [], _ => []
  | _ :: rs, O => r' :: rs
  | r :: rs, S k => r :: set_nth_row k r' rs
  end.

(* None when the row does not exist, is no inequality, or the LP is not well formed (an entry refers to a column that does
   not exist - it would collide with the new column) *)
Definition add_slack (M : Q) (i : nat) (U : ulp) : option ulp :=
  if (wf_ulp U && (i <? um U)%nat)%bool then
    match slack_row (un U) (urowi U i) with
    | Some r' => Some {| u_max := u_max U; u_cols := u_cols U ++ [slack_col M]; u_rows := set_nth_row i r' (u_rows U) |}
    | None => None
    end
  else None.

(* forward map: the value of the new column *)
Definition slack_phi (U : ulp) (i : nat) (x : nat -> Q) : nat -> Q :=
  fun j => if Nat.eqb j (un U) then
             match ur_sense (urowi U i) with
             | SL => ur_rhs (urowi U i) - uact U x i
             | _ => uact U x i - ur_rhs (urowi U i)
             end
           else x j.

(* ---- lemmas --------------------------------------------------------------------------------- *)

Lemma coefAt_app e1 e2 j : coefAt (e1 ++ e2) j == coefAt e1 j + coefAt e2 j.
Proof. induction e1 as [|[k v] r IH]; simpl; [ring|]. rewrite IH. ring. Qed.

Lemma coefAt_ge n e j : ind_lt n e = true -> (n <= j)%nat -> coefAt e j == 0.
Proof.
  induction e as [|[k v] r IH]; simpl; intros H Hj; [reflexivity|].
  apply andb_true_iff in H. destruct H as [H1 H2]. apply Nat.ltb_lt in H1. simpl in H1.
  destruct (Nat.eqb k j) eqn:E; [apply Nat.eqb_eq in E; lia|]. rewrite (IH H2 Hj). ring.
Qed.

Lemma set_nth_row_length i r' : forall rows, length (set_nth_row i r' rows) = length rows.
Proof. revert i; intros i rows; revert i; induction rows as [|r rs IH]; intros [|i]; simpl; auto. Qed.

Lemma set_nth_row_nth r' : forall rows i k d, (i < length rows)%nat ->
  nth k (set_nth_row i r' rows) d = if Nat.eqb k i then r' else nth k rows d.
Proof.
  induction rows as [|r rs IH]; intros [|i] k d H; simpl in *; try lia.
  - destruct k; reflexivity.
  - destruct k as [|k]; [reflexivity|]. simpl. apply IH. lia.
Qed.

(* activity over n+1 columns of a row that only refers to the first n, extended by one entry (n, c) *)
Lemma act_extended n e c (y : nat -> Q) : ind_lt n e = true ->
  sumn (S n) (fun j => coefAt (e ++ [(n, c)]) j * y j) == sumn n (fun j => coefAt e j * y j) + c * y n.
Proof.
  intros W. rewrite <- Nat.add_1_r. rewrite sumn_app. simpl.
  assert (E1 : sumn n (fun j => coefAt (e ++ [(n, c)]) j * y j) == sumn n (fun j => coefAt e j * y j)).
  { apply sumn_ext. intros j Hj. rewrite coefAt_app. simpl.
    destruct (Nat.eqb n j) eqn:E; [apply Nat.eqb_eq in E; lia|]. ring. }
  rewrite E1. rewrite Nat.add_0_r. rewrite coefAt_app. simpl. rewrite Nat.eqb_refl.
  rewrite (coefAt_ge n e n W (Nat.le_refl n)). ring.
Qed.

Lemma act_unextended n e (y : nat -> Q) : ind_lt n e = true ->
  sumn (S n) (fun j => coefAt e j * y j) == sumn n (fun j => coefAt e j * y j).
Proof.
  intros W. rewrite <- Nat.add_1_r. rewrite sumn_app. simpl. rewrite Nat.add_0_r.
  rewrite (coefAt_ge n e n W (Nat.le_refl n)). ring.
Qed.

Section AddSlack.
  Variables (M : Q) (U U' : ulp) (i : nat).
  Hypothesis H : add_slack M i U = Some U'.

  Let n := un U.
  Let r := urowi U i.

  Lemma as_wf : wf_ulp U = true.
  Proof using H. unfold add_slack in H. destruct (wf_ulp U); [reflexivity|discriminate]. Qed.

  Lemma as_i : (i < um U)%nat.
  Proof using H.
    unfold add_slack in H. destruct (wf_ulp U); [|discriminate]. simpl in H.
    destruct (Nat.ltb_spec i (um U)); [assumption|discriminate].
  Qed.

  Lemma as_row_wf k : (k < um U)%nat -> ind_lt n (ur_ent (urowi U k)) = true.
  Proof using H.
    intros Hk. pose proof as_wf as W. unfold wf_ulp in W. rewrite forallb_forall in W. apply W. apply nth_In. exact Hk.
  Qed.

  Lemma as_shape : exists r', slack_row n r = Some r' /\
    U' = {| u_max := u_max U; u_cols := u_cols U ++ [slack_col M]; u_rows := set_nth_row i r' (u_rows U) |}.
  Proof using H.
    unfold add_slack in H. destruct (wf_ulp U && (i <? um U)%nat)%bool; [|discriminate].
    fold n r in H. destruct (slack_row n r) as [r'|]; [|discriminate]. inversion H. exists r'. split; reflexivity.
  Qed.

  Lemma as_un : un U' = S n.
  Proof using H. destruct as_shape as (r' & _ & E). rewrite E. unfold un. simpl. rewrite app_length. simpl. unfold n, un. lia. Qed.

  Lemma as_um : um U' = um U.
  Proof using H. destruct as_shape as (r' & _ & E). rewrite E. unfold um. simpl. apply set_nth_row_length. Qed.

  Lemma as_col_old j : (j < n)%nat -> ucolj U' j = ucolj U j.
  Proof using H. intros Hj. destruct as_shape as (r' & _ & E). rewrite E. unfold ucolj. simpl. apply app_nth1. exact Hj. Qed.

  Lemma as_col_new : ucolj U' n = slack_col M.
  Proof using H.
    destruct as_shape as (r' & _ & E). rewrite E. unfold ucolj. simpl. rewrite app_nth2 by (unfold n, un; lia).
    unfold n, un. rewrite Nat.sub_diag. reflexivity.
  Qed.

  Lemma as_row_other k : (k < um U)%nat -> k <> i -> urowi U' k = urowi U k.
  Proof using H.
    intros Hk Ne. destruct as_shape as (r' & _ & E). rewrite E. unfold urowi. simpl.
    rewrite set_nth_row_nth by exact as_i. destruct (Nat.eqb k i) eqn:X; [apply Nat.eqb_eq in X; contradiction|reflexivity].
  Qed.

  Lemma as_row_i : slack_row n r = Some (urowi U' i).
  Proof using H.
    destruct as_shape as (r' & S & E). rewrite E. unfold urowi at 1. simpl.
    rewrite set_nth_row_nth by exact as_i. rewrite Nat.eqb_refl. exact S.
  Qed.

  (* objective: the new column has objective 0 *)
  Lemma as_obj (y : nat -> Q) : uobj U' y == uobj U y.
  Proof using H.
    unfold uobj. rewrite as_un. fold n. rewrite <- Nat.add_1_r. rewrite sumn_app. simpl. rewrite Nat.add_0_r.
    rewrite as_col_new. simpl.
    assert (E : sumn n (fun j => uc_obj (ucolj U' j) * y j) == sumn n (fun j => uc_obj (ucolj U j) * y j)).
    { apply sumn_ext. intros j Hj. rewrite (as_col_old j Hj). reflexivity. }
    rewrite E. ring.
  Qed.

  (* activities *)
  Lemma as_act_other (y : nat -> Q) k : (k < um U)%nat -> k <> i -> uact U' y k == uact U y k.
  Proof using H.
    intros Hk Ne. unfold uact. rewrite as_un, (as_row_other k Hk Ne). fold n. apply act_unextended. apply as_row_wf. exact Hk.
  Qed.

  Lemma as_act_i (y : nat -> Q) :
    uact U' y i == uact U y i + (match ur_sense r with SL => 1 | _ => - (1) end) * y n.
  Proof using H.
    pose proof as_row_i as S. unfold uact. rewrite as_un. fold n r.
    pose proof (as_row_wf i as_i) as W. fold r in W.
    unfold slack_row in S. destruct (ur_sense r) eqn:Es; try discriminate; injection S as E; rewrite <- E; cbn [ur_ent];
      apply act_extended; exact W.
  Qed.

  Lemma as_sense_i : (ur_sense r = SL \/ ur_sense r = SG) /\ ur_sense (urowi U' i) = SE /\ ur_rhs (urowi U' i) = ur_rhs r.
  Proof using H.
    pose proof as_row_i as S. unfold slack_row in S.
    destruct (ur_sense r) eqn:Es; try discriminate; injection S as E; rewrite <- E; simpl; auto.
  Qed.
End AddSlack.

Theorem add_slack_equiv M i U U' : 0 < M -> add_slack M i U = Some U' ->
  lp_equiv M U U' (slack_phi U i) (fun x => x) false 0.
Proof.
  intros HM H.
  pose proof (as_un M U U' i H) as N. pose proof (as_um M U U' i H) as Mm. pose proof (as_i M U U' i H) as Hi.
  destruct (as_sense_i M U U' i H) as (Sn & Se & Sr).
  constructor.
  - destruct (as_shape M U U' i H) as (r' & _ & E). rewrite E. simpl. destruct (u_max U); reflexivity.
  - (* forward *)
    intros x [R B]. set (y := slack_phi U i x).
    assert (Yold : forall j, (j < un U)%nat -> y j = x j).
    { intros j Hj. unfold y, slack_phi. destruct (Nat.eqb j (un U)) eqn:E; [apply Nat.eqb_eq in E; lia|reflexivity]. }
    assert (Aold : forall k, uact U y k == uact U x k).
    { intros k. unfold uact. apply sumn_ext. intros j Hj. rewrite (Yold j Hj). reflexivity. }
    assert (Yn : y (un U) = match ur_sense (urowi U i) with SL => ur_rhs (urowi U i) - uact U x i | _ => uact U x i - ur_rhs (urowi U i) end).
    { unfold y, slack_phi. rewrite Nat.eqb_refl. reflexivity. }
    split.
    + split.
      * intros k Hk. rewrite Mm in Hk. destruct (Nat.eq_dec k i) as [->|Ne].
        -- unfold row_ok. rewrite Se, Sr. rewrite (as_act_i M U U' i H y). rewrite Aold, Yn.
           destruct Sn as [Sn|Sn]; rewrite Sn; ring.
        -- unfold row_ok. rewrite (as_row_other M U U' i H k Hk Ne).
           pose proof (as_act_other M U U' i H y k Hk Ne) as A. pose proof (R k Hk) as Rk. unfold row_ok in Rk.
           destruct (ur_sense (urowi U k)); rewrite A, Aold; exact Rk.
      * intros j Hj. rewrite N in Hj. destruct (Nat.eq_dec j (un U)) as [->|Ne].
        -- rewrite (as_col_new M U U' i H). simpl. split; [|left; reflexivity]. right. rewrite Yn.
           pose proof (R i Hi) as Ri. unfold row_ok in Ri. destruct Sn as [Sn|Sn]; rewrite Sn in *; lra.
        -- assert (Hj' : (j < un U)%nat) by lia. rewrite (as_col_old M U U' i H j Hj'). rewrite (Yold j Hj'). exact (B j Hj').
    + rewrite (as_obj M U U' i H). unfold vmap. unfold uobj.
      assert (E : sumn (un U) (fun j => uc_obj (ucolj U j) * y j) == sumn (un U) (fun j => uc_obj (ucolj U j) * x j)).
      { apply sumn_ext. intros j Hj. rewrite (Yold j Hj). reflexivity. }
      rewrite E. ring.
  - (* backward *)
    intros y [R B].
    assert (Hi' : (i < um U')%nat) by (rewrite Mm; exact Hi).
    assert (Hn : (un U < un U')%nat) by (rewrite N; lia).
    assert (S0 : 0 <= y (un U)).
    { pose proof (B (un U) Hn) as Bn. rewrite (as_col_new M U U' i H) in Bn. simpl in Bn.
      destruct Bn as [[X|X] _]; [lra|exact X]. }
    split.
    + split.
      * intros k Hk. destruct (Nat.eq_dec k i) as [->|Ne].
        -- pose proof (R i Hi') as Ri. unfold row_ok in Ri. rewrite Se, Sr in Ri. rewrite (as_act_i M U U' i H y) in Ri.
           unfold row_ok. destruct Sn as [Sn|Sn]; rewrite Sn in *; lra.
        -- assert (Hk' : (k < um U')%nat) by (rewrite Mm; exact Hk). pose proof (R k Hk') as Rk. unfold row_ok in Rk.
           rewrite (as_row_other M U U' i H k Hk Ne) in Rk. pose proof (as_act_other M U U' i H y k Hk Ne) as A.
           unfold row_ok. destruct (ur_sense (urowi U k)); rewrite <- A; exact Rk.
      * intros j Hj. assert (Hj' : (j < un U')%nat) by (rewrite N; lia). pose proof (B j Hj') as Bj.
        rewrite (as_col_old M U U' i H j Hj) in Bj. exact Bj.
    + rewrite <- (as_obj M U U' i H y). unfold vinv. ring.
Qed.

Lemma add_slack_wf M i U U' : add_slack M i U = Some U' -> wf_ulp U' = true.
Proof.
  intros H. pose proof (as_un M U U' i H) as N. pose proof (as_um M U U' i H) as Mm.
  unfold wf_ulp. apply forallb_forall. intros r Hr. destruct (In_nth _ _ durow Hr) as (k & Hk & Ek). fold (um U') in Hk. rewrite Mm in Hk.
  fold (urowi U' k) in Ek. rewrite <- Ek. rewrite N.
  assert (Wk : ind_lt (un U) (ur_ent (urowi U k)) = true) by (apply (as_row_wf M U U' i H); exact Hk).
  assert (Up : forall e, ind_lt (un U) e = true -> ind_lt (S (un U)) e = true).
  { intros e. unfold ind_lt. rewrite !forallb_forall. intros X kv Hkv. specialize (X kv Hkv). apply Nat.ltb_lt in X. apply Nat.ltb_lt. lia. }
  destruct (Nat.eq_dec k i) as [->|Ne].
  - pose proof (as_row_i M U U' i H) as Hs. unfold slack_row in Hs.
    assert (L : (un U <? S (un U))%nat = true) by (apply Nat.ltb_lt; lia).
    destruct (ur_sense (urowi U i)); try discriminate; injection Hs as E; rewrite <- E; cbn [ur_ent];
      unfold ind_lt; rewrite forallb_app; fold (ind_lt (S (un U)) (ur_ent (urowi U i))); rewrite (Up _ Wk); simpl; rewrite L; reflexivity.
  - rewrite (as_row_other M U U' i H k Hk Ne). apply Up. exact Wk.
Qed.

Example add_slack_ex :
  let U := {| u_max := true; u_cols := [ {| uc_obj := 1; uc_lo := 0; uc_up := 4 |} ];
              u_rows := [ {| ur_sense := SL; ur_rhs := 10; ur_range := 0; ur_ent := [(O, 2)] |} ] |} in
  option_map (fun V => (length (u_cols V), map ur_sense (u_rows V), map ur_ent (u_rows V))) (add_slack 1000 0 U)
  = Some (2%nat, [SE], [[(O, 2); (1%nat, 1)]]).
Proof. vm_compute. reflexivity. Qed.
