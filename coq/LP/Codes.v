(* Numeric codes of the C interface (status values, basis status characters, length of the
   precision ladder) as read from /repo's headers on every run (Gen/Consts.v), and the
   obligations the models place on them. *)
From Coq Require Import ZArith List Bool.
From QSX Require Import Gen.Consts LP.OptTest LP.Driver.
Import ListNotations.
Local Open Scope Z_scope.

Definition lpstat_of_code (c : Z) : lpstat :=
  if c =? c_QS_LP_OPTIMAL then StOptimal
  else if c =? c_QS_LP_INFEASIBLE then StInfeasible
  else if c =? c_QS_LP_UNBOUNDED then StUnbounded
  else if c =? c_QS_LP_OBJ_LIMIT then StObjLimit
  else if c =? c_QS_LP_UNSOLVED then StUnsolved
  else if c =? 0 then StZero
  else StOther c.

Definition code_of_lpstat (s : lpstat) : Z :=
  match s with
  | StOptimal => c_QS_LP_OPTIMAL | StInfeasible => c_QS_LP_INFEASIBLE | StUnbounded => c_QS_LP_UNBOUNDED
  | StObjLimit => c_QS_LP_OBJ_LIMIT | StUnsolved => c_QS_LP_UNSOLVED | StZero => 0 | StOther c => c
  end.

Definition col_bstat_of_code (c : Z) : bstat :=
  if c =? c_QS_COL_BSTAT_LOWER then BLower else if c =? c_QS_COL_BSTAT_BASIC then BBasic
  else if c =? c_QS_COL_BSTAT_UPPER then BUpper else if c =? c_QS_COL_BSTAT_FREE then BFree else BOther.

Definition row_bstat_of_code (c : Z) : bstat :=
  if c =? c_QS_ROW_BSTAT_LOWER then BLower else if c =? c_QS_ROW_BSTAT_BASIC then BBasic
  else if c =? c_QS_ROW_BSTAT_UPPER then BUpper
  else if c =? c_QS_COL_BSTAT_FREE then BFree   (* '3' in a row status is rejected by the test's row switch: BFree there *)
  else BOther.

Definition max_levels : nat := Z.to_nat c_QS_EXACT_MAX_ITER.

Fixpoint zmem (a : Z) (l : list Z) : bool := match l with [] => false | b :: r => (a =? b) || zmem a r end.
Fixpoint znodup (l : list Z) : bool := match l with [] => true | a :: r => negb (zmem a r) && znodup r end.

(* obligations, decided by computation on the regenerated constants *)
Lemma status_codes_distinct : znodup (0 :: lp_status_codes) = true.
Proof. vm_compute. reflexivity. Qed.
Lemma col_bstat_codes_distinct : znodup col_bstat_codes = true.
Proof. vm_compute. reflexivity. Qed.
Lemma row_bstat_codes_distinct : znodup row_bstat_codes = true.
Proof. vm_compute. reflexivity. Qed.
(* qsbasis_to_illbasis counts QS_COL_BSTAT_BASIC in cstat and QS_ROW_BSTAT_BASIC in rstat *)
Lemma basic_codes_agree : c_QS_COL_BSTAT_BASIC = c_QS_ROW_BSTAT_BASIC.
Proof. vm_compute. reflexivity. Qed.
Lemma ladder_nonempty : (0 < max_levels)%nat.
Proof. vm_compute. apply le_n || (repeat constructor). Qed.

Lemma lpstat_code_roundtrip :
  forallb (fun s => match lpstat_of_code (code_of_lpstat s), s with
                    | StOptimal, StOptimal | StInfeasible, StInfeasible | StUnbounded, StUnbounded
                    | StObjLimit, StObjLimit | StUnsolved, StUnsolved | StZero, StZero => true
                    | _, _ => false end)
          [StOptimal; StInfeasible; StUnbounded; StObjLimit; StUnsolved; StZero] = true.
Proof. vm_compute. reflexivity. Qed.
