(* The internal form built by to_internal has the same feasible set (projected
   on the structural columns) and the same objective as the user's LP; hence
   optimality / infeasibility certificates of the internal form are statements
   about the LP as defined through the API. *)
From QSX Require Export LP.User LP.OptTest.
Local Open Scope Q_scope.

Lemma coefAt_col_entries rows : forall i0 j i,
  coefAt (col_entries rows i0 j) i ==
  if (Nat.leb i0 i && Nat.ltb i (i0 + length rows))%bool
  then coefAt (ur_ent (nth (i - i0) rows durow)) j else 0.
Proof.
  induction rows as [|r rs IH]; intros i0 j i.
  - simpl. destruct (Nat.leb i0 i && Nat.ltb i (i0 + 0))%bool eqn:E; [|reflexivity].
    apply andb_true_iff in E. destruct E as [E1 E2]. apply Nat.leb_le in E1. apply Nat.ltb_lt in E2. lia.
  - cbn [col_entries coefAt length]. rewrite IH.
    destruct (Nat.eqb_spec i0 i) as [->|Hne].
    + rewrite Nat.leb_refl. replace (Nat.ltb i (i + S (length rs))) with true by (symmetry; apply Nat.ltb_lt; lia).
      replace (Nat.leb (S i) i) with false by (symmetry; apply Nat.leb_gt; lia).
      rewrite Nat.sub_diag. simpl. ring.
    + destruct (Nat.leb i0 i) eqn:E1.
      * apply Nat.leb_le in E1. replace (Nat.leb (S i0) i) with true by (symmetry; apply Nat.leb_le; lia).
        replace (i0 + S (length rs))%nat with (S i0 + length rs)%nat by lia.
        rewrite !andb_true_l. destruct (Nat.ltb i (S i0 + length rs)) eqn:E2.
        -- replace (i - i0)%nat with (S (i - S i0)) by lia. cbn [nth]. ring.
        -- ring.
      * apply Nat.leb_gt in E1. replace (Nat.leb (S i0) i) with false by (symmetry; apply Nat.leb_gt; lia).
        simpl. ring.
Qed.

Lemma length_structurals rows cols j0 : length (structurals rows cols j0) = length cols.
Proof. revert j0; induction cols as [|c cs IH]; intros j0; simpl; [reflexivity|]. rewrite IH. reflexivity. Qed.

Lemma length_logicals M rows i0 : length (logicals M rows i0) = length rows.
Proof. revert i0; induction rows as [|r rs IH]; intros i0; simpl; [reflexivity|]. rewrite IH. reflexivity. Qed.

Lemma nth_structurals rows cols : forall j0 j, (j < length cols)%nat ->
  nth j (structurals rows cols j0) dcol =
  {| ic_obj := uc_obj (nth j cols ducol); ic_lo := uc_lo (nth j cols ducol); ic_up := uc_up (nth j cols ducol);
     ic_ent := col_entries rows 0 (j0 + j) |}.
Proof.
  induction cols as [|c cs IH]; intros j0 j Hj; simpl in Hj; [lia|].
  destruct j as [|j]; simpl.
  - rewrite Nat.add_0_r. reflexivity.
  - rewrite IH by lia. replace (S j0 + j)%nat with (j0 + S j)%nat by lia. reflexivity.
Qed.

Lemma nth_logicals M rows : forall i0 k, (k < length rows)%nat ->
  nth k (logicals M rows i0) dcol =
  {| ic_obj := 0; ic_lo := 0; ic_up := logical_up M (nth k rows durow);
     ic_ent := [((i0 + k)%nat, logical_coef (ur_sense (nth k rows durow)))] |}.
Proof.
  induction rows as [|r rs IH]; intros i0 k Hk; simpl in Hk; [lia|].
  destruct k as [|k]; simpl.
  - rewrite Nat.add_0_r. reflexivity.
  - rewrite IH by lia. replace (S i0 + k)%nat with (i0 + S k)%nat by lia. reflexivity.
Qed.

Section Equiv.
  Variable M : Q.
  Hypothesis Mpos : 0 < M.
  Variable U : ulp.
  Let P := to_internal M U.
  Let n := un U.
  Let m := um U.

  Lemma ti_ncols : ncols P = (n + m)%nat.
  Proof. unfold ncols, P, to_internal. simpl. rewrite app_length, length_structurals, length_logicals. reflexivity. Qed.
  Lemma ti_nrows : nrows P = m.
  Proof. unfold nrows, P, to_internal. simpl. apply map_length. Qed.

  Lemma ti_col_struct j : (j < n)%nat ->
    col P j = {| ic_obj := uc_obj (ucolj U j); ic_lo := uc_lo (ucolj U j); ic_up := uc_up (ucolj U j);
                 ic_ent := col_entries (u_rows U) 0 j |}.
  Proof.
    intros Hj. unfold col, P, to_internal. simpl. rewrite app_nth1 by (rewrite length_structurals; exact Hj).
    rewrite nth_structurals by exact Hj. reflexivity.
  Qed.

  Lemma ti_col_log k : (k < m)%nat ->
    col P (n + k) = {| ic_obj := 0; ic_lo := 0; ic_up := logical_up M (urowi U k);
                       ic_ent := [(k, logical_coef (ur_sense (urowi U k)))] |}.
  Proof.
    intros Hk. unfold col, P, to_internal. simpl. rewrite app_nth2 by (rewrite length_structurals; unfold n, un; lia).
    rewrite length_structurals. replace (n + k - length (u_cols U))%nat with k by (unfold n, un; lia).
    rewrite nth_logicals by exact Hk. reflexivity.
  Qed.

  Lemma ti_A_struct i j : (i < m)%nat -> (j < n)%nat -> Aij P i j == coefAt (ur_ent (urowi U i)) j.
  Proof.
    intros Hi Hj. unfold Aij. rewrite ti_col_struct by exact Hj. cbn [ic_ent].
    rewrite coefAt_col_entries. simpl Nat.leb. rewrite Nat.add_0_l.
    replace (Nat.ltb i (length (u_rows U))) with true by (symmetry; apply Nat.ltb_lt; exact Hi).
    simpl. rewrite Nat.sub_0_r. reflexivity.
  Qed.

  Lemma ti_A_log i k : (k < m)%nat ->
    Aij P i (n + k) == if Nat.eqb k i then logical_coef (ur_sense (urowi U k)) else 0.
  Proof.
    intros Hk. unfold Aij. rewrite ti_col_log by exact Hk. cbn [ic_ent coefAt]. ring.
  Qed.

  Lemma ti_rowact z i : (i < m)%nat ->
    rowact P z i == uact U z i + logical_coef (ur_sense (urowi U i)) * z (n + i)%nat.
  Proof.
    intros Hi. unfold rowact. rewrite ti_ncols, sumn_app. apply Qplus_comp.
    - unfold uact. apply sumn_ext. intros j Hj. rewrite ti_A_struct by assumption. reflexivity.
    - etransitivity.
      + apply (sumn_single m i); [exact Hi|]. intros k Hk Hne. rewrite ti_A_log by exact Hk.
        destruct (Nat.eqb_spec k i); [contradiction|ring].
      + cbv beta. rewrite ti_A_log by exact Hi. rewrite Nat.eqb_refl. reflexivity.
  Qed.

  Lemma ti_rhs i : rhs P i == ur_rhs (urowi U i).
  Proof.
    unfold rhs, qnth, P, to_internal, urowi. cbn [i_rhs].
    change (nth i (map ur_rhs (u_rows U)) (ur_rhs durow) == ur_rhs (nth i (u_rows U) durow)).
    rewrite map_nth. reflexivity.
  Qed.

  Lemma ti_objval z : objval P z == uobj U z.
  Proof.
    unfold objval. rewrite ti_ncols, sumn_app.
    assert (E : sumn m (fun i => ic_obj (col P (n + i)) * z (n + i)%nat) == 0).
    { apply sumn_0. intros k Hk. rewrite ti_col_log by exact Hk. simpl. ring. }
    rewrite E. unfold uobj. rewrite Qplus_0_r. apply sumn_ext. intros j Hj.
    rewrite ti_col_struct by exact Hj. reflexivity.
  Qed.

  Lemma zero_not_lo : inflo (inf_sentinel M) 0 = false.
  Proof.
    simpl. destruct (Qeq_bool 0 (- M)) eqn:E; [|reflexivity]. apply Qeq_bool_iff in E. lra.
  Qed.
  Lemma zero_not_up : infup (inf_sentinel M) 0 = false.
  Proof.
    simpl. destruct (Qeq_bool 0 M) eqn:E; [|reflexivity]. apply Qeq_bool_iff in E. lra.
  Qed.

  (* internal feasibility implies user feasibility of the structural part *)
  Theorem internal_to_user z : feasible (inf_sentinel M) P z -> ufeasible M U z.
  Proof.
    intros [Fr Fb]. split.
    - intros i Hi. pose proof (Fr i ltac:(rewrite ti_nrows; exact Hi)) as Er.
      rewrite ti_rowact, ti_rhs in Er by exact Hi.
      destruct (Fb (n + i)%nat ltac:(rewrite ti_ncols; lia)) as [Blo Bup].
      rewrite ti_col_log in Blo, Bup by exact Hi. cbn [ic_lo ic_up] in Blo, Bup.
      destruct Blo as [Blo|Blo]; [rewrite zero_not_lo in Blo; discriminate|].
      unfold row_ok, logical_up, logical_coef in *. set (s := z (n + i)%nat) in *.
      destruct (ur_sense (urowi U i)).
      + lra.
      + lra.
      + destruct Bup as [Bup|Bup]; [rewrite zero_not_up in Bup; discriminate|]. lra.
      + split; [lra|]. destruct Bup as [Bup|Bup].
        * left. simpl in Bup. apply Qeq_bool_iff in Bup. exact Bup.
        * right. lra.
    - intros j Hj. destruct (Fb j ltac:(rewrite ti_ncols; lia)) as [Blo Bup].
      rewrite ti_col_struct in Blo, Bup by exact Hj. cbn [ic_lo ic_up] in Blo, Bup. split.
      + destruct Blo as [Blo|Blo]; [left; simpl in Blo; apply Qeq_bool_iff in Blo; exact Blo | right; exact Blo].
      + destruct Bup as [Bup|Bup]; [left; simpl in Bup; apply Qeq_bool_iff in Bup; exact Bup | right; exact Bup].
  Qed.

  (* extension of a user point by the values of the logicals *)
  Definition extend (x : nat -> Q) (j : nat) : Q :=
    if Nat.ltb j n then x j
    else logical_coef (ur_sense (urowi U (j - n))) * (ur_rhs (urowi U (j - n)) - uact U x (j - n)).

  Lemma uact_extend x i : uact U (extend x) i == uact U x i.
  Proof.
    unfold uact. apply sumn_ext. intros j Hj. unfold extend.
    replace (Nat.ltb j n) with true by (symmetry; apply Nat.ltb_lt; exact Hj). reflexivity.
  Qed.
  Lemma uobj_extend x : uobj U (extend x) == uobj U x.
  Proof.
    unfold uobj. apply sumn_ext. intros j Hj. unfold extend.
    replace (Nat.ltb j n) with true by (symmetry; apply Nat.ltb_lt; exact Hj). reflexivity.
  Qed.

  Theorem user_to_internal x : ufeasible M U x -> feasible (inf_sentinel M) P (extend x).
  Proof.
    intros [Fr Fb]. split.
    - intros i Hi. rewrite ti_nrows in Hi. rewrite ti_rowact by exact Hi. rewrite uact_extend.
      rewrite ti_rhs. unfold extend. replace (Nat.ltb (n + i) n) with false by (symmetry; apply Nat.ltb_ge; lia).
      replace (n + i - n)%nat with i by lia.
      unfold logical_coef. destruct (ur_sense (urowi U i)); ring.
    - intros j Hj. rewrite ti_ncols in Hj. destruct (Nat.lt_ge_cases j n) as [H|H].
      + rewrite ti_col_struct by exact H. cbn [ic_lo ic_up]. unfold extend.
        replace (Nat.ltb j n) with true by (symmetry; apply Nat.ltb_lt; exact H).
        destruct (Fb j H) as [Blo Bup]. split.
        * destruct Blo as [Blo|Blo]; [left; simpl; apply Qeq_bool_iff; exact Blo | right; exact Blo].
        * destruct Bup as [Bup|Bup]; [left; simpl; apply Qeq_bool_iff; exact Bup | right; exact Bup].
      + replace j with (n + (j - n))%nat by lia. set (i := (j - n)%nat). assert (Hi : (i < m)%nat) by (unfold i; lia).
        rewrite ti_col_log by exact Hi. cbn [ic_lo ic_up]. unfold extend.
        replace (Nat.ltb (n + i) n) with false by (symmetry; apply Nat.ltb_ge; lia).
        replace (n + i - n)%nat with i by lia.
        pose proof (Fr i Hi) as R. unfold row_ok in R. unfold logical_up, logical_coef.
        destruct (ur_sense (urowi U i)); split; try (right; lra).
        * left. simpl. apply Qeq_bool_iff. reflexivity.
        * left. simpl. apply Qeq_bool_iff. reflexivity.
        * destruct R as [R1 [R2|R2]]; [left; simpl; apply Qeq_bool_iff; exact R2 | right; lra].
  Qed.

  Theorem user_optimum z v : is_optimum (inf_sentinel M) P z v -> uis_optimum M U z v.
  Proof.
    intros (F & Ev & Hbest). split; [apply internal_to_user; exact F|]. split.
    - rewrite <- ti_objval. exact Ev.
    - intros x' F'. pose proof (Hbest _ (user_to_internal x' F')) as Hb.
      unfold no_worse in Hb. unfold uno_worse. change (i_max P) with (u_max U) in Hb.
      destruct (u_max U); rewrite ti_objval, uobj_extend in Hb; exact Hb.
  Qed.

  Theorem user_infeasible : infeasible (inf_sentinel M) P -> uinfeasible M U.
  Proof. intros H x F. exact (H _ (user_to_internal x F)). Qed.
End Equiv.

(* ---- the internal form built by to_internal is well formed ------------------- *)

Lemma ind_lt_col_entries rows : forall i0 j m, (i0 + length rows <= m)%nat -> ind_lt m (col_entries rows i0 j) = true.
Proof.
  induction rows as [|r rs IH]; intros i0 j m H; [reflexivity|].
  cbn [col_entries ind_lt forallb fst]. simpl in H.
  apply andb_true_iff. split; [apply Nat.ltb_lt; lia|]. apply IH. lia.
Qed.

Lemma wf_logicals_logicals M rows : forall i0, wf_logicals (logicals M rows i0) i0 = true.
Proof.
  induction rows as [|r rs IH]; intros i0; [reflexivity|].
  cbn [logicals wf_logicals ic_ent]. rewrite Nat.eqb_refl. apply IH.
Qed.

Lemma to_internal_wf M U : wf_ilp (to_internal M U) = true.
Proof.
  unfold wf_ilp. apply forallb_forall. intros c Hc.
  assert (Hm : nrows (to_internal M U) = um U) by (unfold nrows, to_internal; simpl; apply map_length).
  rewrite Hm. unfold to_internal in Hc. cbn [i_cols] in Hc. apply in_app_or in Hc. destruct Hc as [Hc|Hc].
  - destruct (In_nth _ _ dcol Hc) as (j & Hj & E). rewrite length_structurals in Hj.
    rewrite nth_structurals in E by exact Hj. subst c. cbn [ic_ent]. apply ind_lt_col_entries. unfold um. lia.
  - destruct (In_nth _ _ dcol Hc) as (k & Hk & E). rewrite length_logicals in Hk.
    rewrite nth_logicals in E by exact Hk. subst c. cbn [ic_ent ind_lt forallb fst].
    rewrite andb_true_r. apply Nat.ltb_lt. unfold um. lia.
Qed.

Lemma to_internal_wf_logicals M U :
  wf_logicals (skipn (un U) (i_cols (to_internal M U))) 0 = true.
Proof.
  unfold to_internal. cbn [i_cols].
  assert (E : skipn (un U) (structurals (u_rows U) (u_cols U) 0 ++ logicals M (u_rows U) 0) = logicals M (u_rows U) 0).
  { rewrite skipn_app. rewrite length_structurals. unfold un. rewrite Nat.sub_diag. simpl.
    rewrite skipn_all2 by (rewrite length_structurals; lia). reflexivity. }
  rewrite E. apply wf_logicals_logicals.
Qed.
