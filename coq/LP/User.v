(* The LP as the user defines it through the API (rows with senses and ranges,
   columns with bounds) and its translation to the internal form, exactly as
   ILLlib_addrow builds it: one logical column per row,
     E: s in [0,0], +1     L: s in [0,M], +1     G: s in [0,M], -1     R: s in [0,range], -1. *)
From QSX Require Export LP.ILP.
Local Open Scope Q_scope.

Inductive sense := SL | SG | SE | SR.
Record ucol := { uc_obj : Q; uc_lo : Q; uc_up : Q }.
Record urow := { ur_sense : sense; ur_rhs : Q; ur_range : Q; ur_ent : list (nat * Q) }.
Record ulp := { u_max : bool; u_cols : list ucol; u_rows : list urow }.

Definition ducol : ucol := {| uc_obj := 0; uc_lo := 0; uc_up := 0 |}.
Definition durow : urow := {| ur_sense := SE; ur_rhs := 0; ur_range := 0; ur_ent := [] |}.
Definition un (U : ulp) := length (u_cols U).
Definition um (U : ulp) := length (u_rows U).
Definition ucolj (U : ulp) j := nth j (u_cols U) ducol.
Definition urowi (U : ulp) i := nth i (u_rows U) durow.

Definition wf_ulp (U : ulp) : bool := forallb (fun r => ind_lt (un U) (ur_ent r)) (u_rows U).

Section UserSem.
  Variable M : Q.
  Variable U : ulp.

  Definition uact (x : nat -> Q) (i : nat) : Q := sumn (un U) (fun j => coefAt (ur_ent (urowi U i)) j * x j).
  Definition uobj (x : nat -> Q) : Q := sumn (un U) (fun j => uc_obj (ucolj U j) * x j).

  Definition row_ok (x : nat -> Q) (i : nat) : Prop :=
    let r := urowi U i in
    match ur_sense r with
    | SL => uact x i <= ur_rhs r
    | SG => ur_rhs r <= uact x i
    | SE => uact x i == ur_rhs r
    | SR => ur_rhs r <= uact x i /\ (ur_range r == M \/ uact x i <= ur_rhs r + ur_range r)
    end.

  Definition ubounds_ok (x : nat -> Q) : Prop :=
    forall j, (j < un U)%nat ->
      (uc_lo (ucolj U j) == - M \/ uc_lo (ucolj U j) <= x j) /\
      (uc_up (ucolj U j) == M \/ x j <= uc_up (ucolj U j)).

  Definition ufeasible (x : nat -> Q) : Prop :=
    (forall i, (i < um U)%nat -> row_ok x i) /\ ubounds_ok x.

  Definition uno_worse (v w : Q) : Prop := if u_max U then w <= v else v <= w.

  Definition uis_optimum (x : nat -> Q) (v : Q) : Prop :=
    ufeasible x /\ uobj x == v /\ forall x', ufeasible x' -> uno_worse v (uobj x').

  Definition uinfeasible : Prop := forall x, ~ ufeasible x.
End UserSem.

(* ---- translation ---------------------------------------------------------- *)

Fixpoint col_entries (rows : list urow) (i0 j : nat) : list (nat * Q) :=
  match rows with
  | [] => []
  | r :: rs => (i0, coefAt (ur_ent r) j) :: col_entries rs (S i0) j
  end.

Definition logical_coef (s : sense) : Q := match s with SL | SE => 1 | SG | SR => -1 end.
Definition logical_up (M : Q) (r : urow) : Q :=
  match ur_sense r with SE => 0 | SR => ur_range r | SL | SG => M end.

Fixpoint logicals (M : Q) (rows : list urow) (i0 : nat) : list icol :=
  match rows with
  | [] => []
  | r :: rs => {| ic_obj := 0; ic_lo := 0; ic_up := logical_up M r;
                  ic_ent := [(i0, logical_coef (ur_sense r))] |} :: logicals M rs (S i0)
  end.

Fixpoint structurals (rows : list urow) (cols : list ucol) (j0 : nat) : list icol :=
  match cols with
  | [] => []
  | c :: cs => {| ic_obj := uc_obj c; ic_lo := uc_lo c; ic_up := uc_up c;
                  ic_ent := col_entries rows 0 j0 |} :: structurals rows cs (S j0)
  end.

Definition to_internal (M : Q) (U : ulp) : ilp :=
  {| i_max := u_max U;
     i_cols := structurals (u_rows U) (u_cols U) 0 ++ logicals M (u_rows U) 0;
     i_rhs := map ur_rhs (u_rows U) |}.

(* canonical comparison of two internal LPs: same shape, same bounds, same
   coefficient function (zeros and entry order are immaterial) *)
Definition col_eqb (m : nat) (a b : icol) : bool :=
  Qeq_bool (ic_obj a) (ic_obj b) && Qeq_bool (ic_lo a) (ic_lo b) && Qeq_bool (ic_up a) (ic_up b) &&
  forallb (fun i => Qeq_bool (coefAt (ic_ent a) i) (coefAt (ic_ent b) i)) (seq 0 m) &&
  ind_lt m (ic_ent a) && ind_lt m (ic_ent b).

Fixpoint list_eqb {A} (f : A -> A -> bool) (l m : list A) : bool :=
  match l, m with
  | [], [] => true
  | a :: l', b :: m' => f a b && list_eqb f l' m'
  | _, _ => false
  end.

Definition ilp_eqb (P R : ilp) : bool :=
  Bool.eqb (i_max P) (i_max R) && list_eqb Qeq_bool (i_rhs P) (i_rhs R) &&
  list_eqb (col_eqb (nrows P)) (i_cols P) (i_cols R).
