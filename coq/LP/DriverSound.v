(* Whatever the floating-point solvers and the rational re-solve answer, the
   driver hands out OPTIMAL only together with a cache that passed opt_test and
   INFEASIBLE only together with a vector that passed infeas_test - on every
   exit, ladder exhaustion included. *)
From QSX Require Export LP.Driver LP.OptTestSound.
From Coq Require Import ZArith.
Local Open Scope Q_scope.

Section DriverSound.
  Variable otest : basis -> list Q -> list Q -> option sol.
  Variable itest : list Q -> bool.
  Variable float_solve : nat -> option basis -> algo -> fout.
  Variable basis_status : basis -> eout.
  Variable ebasis : option basis.
  Variable max_iter : nat.

  Definition certified_opt (r : dres) : Prop :=
    r_rval r = false -> r_status r = StOptimal ->
    exists s B ps ds, r_sol r = Some s /\ otest B ps ds = Some s.

  Definition certified_inf (r : dres) : Prop :=
    r_rval r = false -> r_status r = StInfeasible ->
    exists y, r_y r = Some y /\ itest y = true.

  Definition good (r : dres) : Prop := certified_opt r /\ certified_inf r.

  Ltac bad_status := split; intros H1 H2; simpl in *; try discriminate.

  Lemma handle_ok lvl o st :
    match handle otest itest basis_status lvl o st with
    | inl _ => True
    | inr r => good r
    end.
  Proof.
    unfold handle, good.
    destruct (f_status o) eqn:Es; try exact I.
    - destruct (otest (f_basis o) (f_x o) (f_y o)) as [s|] eqn:T1.
      + bad_status. exists s, (f_basis o), (f_x o), (f_y o). split; [reflexivity|exact T1].
      + destruct (e_fail (basis_status (f_basis o))) eqn:Ef; [bad_status|].
        destruct (is_opt (e_status (basis_status (f_basis o)))) eqn:Eo; [|exact I].
        destruct (otest (f_basis o) (e_x _) (e_y _)) as [s|] eqn:T2; [|exact I].
        bad_status. exists s, (f_basis o), (e_x (basis_status (f_basis o))), (e_y (basis_status (f_basis o))).
        split; [reflexivity|exact T2].
    - destruct (f_infeas o) as [y|].
      + destruct (itest y) eqn:T1.
        * bad_status. exists y. split; [reflexivity|exact T1].
        * destruct (e_fail (basis_status (f_basis o))) eqn:Ef; [bad_status|].
          destruct (is_inf (e_status (basis_status (f_basis o)))) eqn:Ei; [|exact I].
          destruct (e_infeas (basis_status (f_basis o))) as [y'|]; [|bad_status].
          destruct (itest y') eqn:T2; [|exact I].
          bad_status. exists y'. split; [reflexivity|exact T2].
      + destruct lvl; [exact I|bad_status].
    - bad_status.
  Qed.

  Lemma mpf_loop_ok lvls : forall st,
    let r := mpf_loop otest itest float_solve basis_status ebasis lvls st in
    good r.
  Proof.
    induction lvls as [|l ls IH]; intros st; simpl.
    - split; intros _ H; simpl in H; destruct (st_status st); simpl in H; discriminate.
    - unfold mpf_stage.
      match goal with |- context [f_fail ?o] => destruct (f_fail o) end; [apply IH|].
      match goal with |- context [handle otest itest basis_status l ?o ?s] =>
        pose proof (handle_ok l o s) as H; destruct (handle otest itest basis_status l o s) as [st'|r] end.
      + apply IH.
      + exact H.
  Qed.

  Theorem exact_solver_ok a :
    let r := exact_solver_gen otest itest float_solve basis_status ebasis max_iter a in
    good r.
  Proof.
    unfold exact_solver_gen, dbl_stage.
    destruct (f_fail (float_solve O ebasis a)); [apply mpf_loop_ok|].
    match goal with |- context [handle otest itest basis_status O ?o ?s] =>
      pose proof (handle_ok O o s) as H; destruct (handle otest itest basis_status O o s) as [st'|r] end.
    - apply mpf_loop_ok.
    - exact H.
  Qed.

End DriverSound.

Corollary driver_optimal_sound M P ns float_solve basis_status ebasis max_iter a :
  let r := exact_solver M P ns float_solve basis_status ebasis max_iter a in
  r_rval r = false -> r_status r = StOptimal ->
  exists s B ps ds, r_sol r = Some s /\ opt_test P ns B ps ds = Some s.
Proof.
  intros r. destruct (exact_solver_ok (opt_test P ns) (infeas_test M P) float_solve basis_status ebasis max_iter a)
    as [G _]. exact G.
Qed.

Corollary driver_infeasible_sound M P ns float_solve basis_status ebasis max_iter a :
  let r := exact_solver M P ns float_solve basis_status ebasis max_iter a in
  r_rval r = false -> r_status r = StInfeasible ->
  exists y, r_y r = Some y /\ infeas_test M P y = true.
Proof.
  intros r. destruct (exact_solver_ok (opt_test P ns) (infeas_test M P) float_solve basis_status ebasis max_iter a)
    as [_ G]. exact G.
Qed.

(* ---- non-vacuity: oracles under which each kind of exit is taken ------------- *)
Definition P0 : ilp := {| i_max := false; i_cols := []; i_rhs := [] |}.
Definition Bbad : basis := {| cstat := [BOther]; rstat := [] |}.   (* never accepted by opt_test *)
Definition Bok : basis := {| cstat := []; rstat := [] |}.
Definition fs_opt (b : basis) (_ : nat) (_ : option basis) (_ : algo) : fout :=
  {| f_fail := false; f_status := StOptimal; f_iter := 1%nat; f_x := []; f_y := []; f_basis := b; f_infeas := None |}.
Definition fs_inf (_ : nat) (_ : option basis) (_ : algo) : fout :=
  {| f_fail := false; f_status := StInfeasible; f_iter := 1%nat; f_x := []; f_y := []; f_basis := Bbad; f_infeas := Some [] |}.
Definition bs (st : lpstat) (_ : basis) : eout :=
  {| e_fail := false; e_status := st; e_x := []; e_y := []; e_infeas := Some [] |}.

Example exit_test_optimal :
  let r := exact_solver 1 P0 0 (fs_opt Bok) (bs StOptimal) None 12 PrimalS in
  r_rval r = false /\ r_status r = StOptimal /\ r_exit r = ExitTest 0.
Proof. vm_compute. repeat split. Qed.

(* the situations in which the original code left OPTIMAL / INFEASIBLE behind without a
   certificate (float INFEASIBLE + rational OPTIMAL, float OPTIMAL + rational INFEASIBLE)
   now end as UNSOLVED *)
Example exhausted_after_inf_opt :
  let r := exact_solver 1 P0 0 fs_inf (bs StOptimal) None 12 PrimalS in
  r_rval r = false /\ r_status r = StUnsolved /\ r_exit r = ExitLadderExhausted.
Proof. vm_compute. repeat split. Qed.

Example exhausted_after_opt_inf :
  let r := exact_solver 1 P0 0 (fs_opt Bbad) (bs StInfeasible) None 12 PrimalS in
  r_rval r = false /\ r_status r = StUnsolved /\ r_exit r = ExitLadderExhausted.
Proof. vm_compute. repeat split. Qed.
