(* Whatever the floating-point solvers and the rational re-solve answer, the
   driver hands out OPTIMAL / INFEASIBLE through any exit other than ladder
   exhaustion only together with data that passed opt_test / infeas_test.
   On the exhaustion path the status variable is simply whatever was left in
   it: both full statements are refuted below by explicit oracles. *)
From QSX Require Export LP.Driver LP.OptTestSound.
From Coq Require Import ZArith.
Local Open Scope Q_scope.

Section DriverSound.
  Variable otest : basis -> list Q -> list Q -> option sol.
  Variable itest : list Q -> bool.
  Variable float_solve : nat -> option basis -> algo -> fout.
  Variable basis_status : basis -> eout.
  Variable ebasis : option basis.
  Variable max_iter : nat.

  Definition certified_opt (r : dres) : Prop :=
    r_rval r = false -> r_status r = StOptimal ->
    exists s B ps ds, r_sol r = Some s /\ otest B ps ds = Some s.

  Definition certified_inf (r : dres) : Prop :=
    r_rval r = false -> r_status r = StInfeasible ->
    exists y, r_y r = Some y /\ itest y = true.

  Definition good (r : dres) : Prop :=
    r_exit r <> ExitLadderExhausted /\ certified_opt r /\ certified_inf r.

  Ltac bad_status := split; [discriminate|split; intros H1 H2; simpl in *; try discriminate].

  Lemma handle_ok lvl o st :
    match handle otest itest basis_status lvl o st with
    | inl _ => True
    | inr r => good r
    end.
  Proof.
    unfold handle, good.
    destruct (f_status o) eqn:Es; try exact I.
    - destruct (otest (f_basis o) (f_x o) (f_y o)) as [s|] eqn:T1.
      + bad_status. exists s, (f_basis o), (f_x o), (f_y o). split; [reflexivity|exact T1].
      + destruct (e_fail (basis_status (f_basis o))) eqn:Ef; [bad_status|].
        destruct (is_opt (e_status (basis_status (f_basis o)))) eqn:Eo; [|exact I].
        destruct (otest (f_basis o) (e_x _) (e_y _)) as [s|] eqn:T2; [|exact I].
        bad_status. exists s, (f_basis o), (e_x (basis_status (f_basis o))), (e_y (basis_status (f_basis o))).
        split; [reflexivity|exact T2].
    - destruct (f_infeas o) as [y|].
      + destruct (itest y) eqn:T1.
        * bad_status. exists y. split; [reflexivity|exact T1].
        * destruct (e_fail (basis_status (f_basis o))) eqn:Ef; [bad_status|].
          destruct (is_inf (e_status (basis_status (f_basis o)))) eqn:Ei; [|exact I].
          destruct (e_infeas (basis_status (f_basis o))) as [y'|]; [|bad_status].
          destruct (itest y') eqn:T2; [|exact I].
          bad_status. exists y'. split; [reflexivity|exact T2].
      + destruct lvl; [exact I|bad_status].
    - bad_status.
  Qed.

  Lemma mpf_loop_ok lvls : forall st,
    let r := mpf_loop otest itest float_solve basis_status ebasis lvls st in
    r_exit r = ExitLadderExhausted \/ good r.
  Proof.
    induction lvls as [|l ls IH]; intros st; simpl.
    - left. reflexivity.
    - unfold mpf_stage.
      match goal with |- context [f_fail ?o] => destruct (f_fail o) end; [apply IH|].
      match goal with |- context [handle otest itest basis_status l ?o ?s] =>
        pose proof (handle_ok l o s) as H; destruct (handle otest itest basis_status l o s) as [st'|r] end.
      + apply IH.
      + right. exact H.
  Qed.

  Theorem exact_solver_ok a :
    let r := exact_solver_gen otest itest float_solve basis_status ebasis max_iter a in
    r_exit r = ExitLadderExhausted \/ good r.
  Proof.
    unfold exact_solver_gen, dbl_stage.
    destruct (f_fail (float_solve O ebasis a)); [apply mpf_loop_ok|].
    match goal with |- context [handle otest itest basis_status O ?o ?s] =>
      pose proof (handle_ok O o s) as H; destruct (handle otest itest basis_status O o s) as [st'|r] end.
    - apply mpf_loop_ok.
    - right. exact H.
  Qed.

End DriverSound.

Corollary driver_optimal_sound_partial M P ns float_solve basis_status ebasis max_iter a :
  let r := exact_solver M P ns float_solve basis_status ebasis max_iter a in
  r_exit r <> ExitLadderExhausted -> r_rval r = false -> r_status r = StOptimal ->
  exists s B ps ds, r_sol r = Some s /\ opt_test P ns B ps ds = Some s.
Proof.
  intros r Hx. destruct (exact_solver_ok (opt_test P ns) (infeas_test M P) float_solve basis_status ebasis max_iter a)
    as [E|(_ & G & _)]; [contradiction|]. exact G.
Qed.

Corollary driver_infeasible_sound_partial M P ns float_solve basis_status ebasis max_iter a :
  let r := exact_solver M P ns float_solve basis_status ebasis max_iter a in
  r_exit r <> ExitLadderExhausted -> r_rval r = false -> r_status r = StInfeasible ->
  exists y, r_y r = Some y /\ infeas_test M P y = true.
Proof.
  intros r Hx. destruct (exact_solver_ok (opt_test P ns) (infeas_test M P) float_solve basis_status ebasis max_iter a)
    as [E|(_ & _ & G)]; [contradiction|]. exact G.
Qed.

(* ---- refutation of the full statements (model level) ------------------------ *)
(* The empty LP (no rows, no columns) is feasible with optimum 0.  Oracles:
   every float solve says INFEASIBLE with an (empty) vector that fails the test,
   the rational re-solve says OPTIMAL: the driver leaves through ladder
   exhaustion with rval = 0 and status OPTIMAL, no solution attached.
   With the re-solve answering INFEASIBLE after an OPTIMAL float answer it
   leaves with status INFEASIBLE although the LP is feasible. *)
Definition P0 : ilp := {| i_max := false; i_cols := []; i_rhs := [] |}.
Definition B0 : basis := {| cstat := [BOther]; rstat := [] |}.   (* never accepted by opt_test *)
Definition fs_inf (_ : nat) (_ : option basis) (_ : algo) : fout :=
  {| f_fail := false; f_status := StInfeasible; f_iter := 1%nat; f_x := []; f_y := []; f_basis := B0; f_infeas := Some [] |}.
Definition bs_opt (_ : basis) : eout :=
  {| e_fail := false; e_status := StOptimal; e_x := []; e_y := []; e_infeas := None |}.
Definition fs_opt (_ : nat) (_ : option basis) (_ : algo) : fout :=
  {| f_fail := false; f_status := StOptimal; f_iter := 1%nat; f_x := []; f_y := []; f_basis := B0; f_infeas := None |}.
Definition bs_inf (_ : basis) : eout :=
  {| e_fail := false; e_status := StInfeasible; e_x := []; e_y := []; e_infeas := Some [] |}.

Lemma P0_feasible : feasible inf_none P0 (fun _ => 0).
Proof. split; intros i Hi; unfold nrows, ncols, P0 in Hi; simpl in Hi; lia. Qed.

Theorem driver_optimal_refuted :
  exists fs bs, let r := exact_solver 1 P0 0 fs bs None 12 PrimalS in
    r_rval r = false /\ r_status r = StOptimal /\ r_sol r = None.
Proof. exists fs_inf, bs_opt. vm_compute. repeat split. Qed.

Theorem driver_infeasible_refuted :
  exists fs bs, let r := exact_solver 1 P0 0 fs bs None 12 PrimalS in
    r_rval r = false /\ r_status r = StInfeasible /\ r_y r = None /\ feasible inf_none P0 (fun _ => 0).
Proof. exists fs_opt, bs_inf. split; [vm_compute; reflexivity|]. split; [vm_compute; reflexivity|]. split; [vm_compute; reflexivity|]. exact P0_feasible. Qed.
