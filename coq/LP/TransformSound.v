(* Each reformulation of Transform.v establishes an lp_equiv: maps between the feasible
   sets and an affine, sign-aware map on objective values.  From an lp_equiv follow the
   three statements of C15: optimum <-> optimum (values related), infeasible <-> infeasible,
   unbounded <-> unbounded. *)
From QSX Require Export LP.Transform.
From Coq Require Import Permutation.
Local Open Scope Q_scope.

Definition vmap (neg : bool) (b v : Q) : Q := (if neg then - v else v) + b.
Definition vinv (neg : bool) (b w : Q) : Q := if neg then - (w - b) else w - b.

Record lp_equiv (M : Q) (U U' : ulp) (phi psi : (nat -> Q) -> nat -> Q) (neg : bool) (b : Q) : Prop := {
  eq_sense : u_max U' = xorb neg (u_max U);
  eq_fwd : forall x, ufeasible M U x -> ufeasible M U' (phi x) /\ uobj U' (phi x) == vmap neg b (uobj U x);
  eq_bwd : forall x', ufeasible M U' x' -> ufeasible M U (psi x') /\ uobj U (psi x') == vinv neg b (uobj U' x')
}.

Section Consequences.
  Variables (M : Q) (U U' : ulp) (phi psi : (nat -> Q) -> nat -> Q) (neg : bool) (b : Q).
  Hypothesis E : lp_equiv M U U' phi psi neg b.

  Theorem equiv_optimum x v : uis_optimum M U x v -> uis_optimum M U' (phi x) (vmap neg b v).
  Proof.
    intros (F & Ev & Best). destruct (eq_fwd _ _ _ _ _ _ _ E x F) as [F' Eo].
    split; [exact F'|]. split.
    - rewrite Eo. unfold vmap. destruct neg; rewrite Ev; reflexivity.
    - intros x' Fx'. destruct (eq_bwd _ _ _ _ _ _ _ E x' Fx') as [Fp Ep].
      pose proof (Best _ Fp) as Hb. unfold uno_worse in *. rewrite (eq_sense _ _ _ _ _ _ _ E).
      unfold vmap, vinv in *. destruct neg; destruct (u_max U); simpl; rewrite Ep in Hb; lra.
  Qed.

  Theorem equiv_optimum_back x' w : uis_optimum M U' x' w -> uis_optimum M U (psi x') (vinv neg b w).
  Proof.
    intros (F & Ev & Best). destruct (eq_bwd _ _ _ _ _ _ _ E x' F) as [F' Eo].
    split; [exact F'|]. split.
    - rewrite Eo. unfold vinv. destruct neg; rewrite Ev; reflexivity.
    - intros x Fx. destruct (eq_fwd _ _ _ _ _ _ _ E x Fx) as [Fp Ep].
      pose proof (Best _ Fp) as Hb. unfold uno_worse in *. rewrite (eq_sense _ _ _ _ _ _ _ E) in Hb.
      unfold vmap, vinv in *. destruct neg; destruct (u_max U); simpl in *; rewrite Ep in Hb; lra.
  Qed.

  Theorem equiv_infeasible : uinfeasible M U <-> uinfeasible M U'.
  Proof.
    split; intros H x F.
    - destruct (eq_bwd _ _ _ _ _ _ _ E x F) as [F' _]. exact (H _ F').
    - destruct (eq_fwd _ _ _ _ _ _ _ E x F) as [F' _]. exact (H _ F').
  Qed.

  Theorem equiv_unbounded : uunbounded M U -> uunbounded M U'.
  Proof.
    intros [(x0 & F0) Hk]. split.
    - exists (phi x0). exact (proj1 (eq_fwd _ _ _ _ _ _ _ E x0 F0)).
    - intros k. destruct (Hk (vinv neg b k)) as (x & F & Hlt).
      destruct (eq_fwd _ _ _ _ _ _ _ E x F) as [F' Eo]. exists (phi x). split; [exact F'|].
      rewrite (eq_sense _ _ _ _ _ _ _ E). unfold vmap, vinv in *.
      destruct neg; destruct (u_max U); simpl in *; rewrite Eo; lra.
  Qed.

  Theorem equiv_unbounded_back : uunbounded M U' -> uunbounded M U.
  Proof.
    intros [(x0 & F0) Hk]. split.
    - exists (psi x0). exact (proj1 (eq_bwd _ _ _ _ _ _ _ E x0 F0)).
    - intros k. destruct (Hk (vmap neg b k)) as (x & F & Hlt).
      destruct (eq_bwd _ _ _ _ _ _ _ E x F) as [F' Eo]. exists (psi x). split; [exact F'|].
      rewrite (eq_sense _ _ _ _ _ _ _ E) in Hlt. unfold vmap, vinv in *.
      destruct neg; destruct (u_max U); simpl in *; rewrite Eo; lra.
  Qed.
End Consequences.

(* composition: the answer map of a chain of reformulations is the composition of the maps *)
Theorem lp_equiv_trans M U1 U2 U3 p1 q1 n1 b1 p2 q2 n2 b2 :
  lp_equiv M U1 U2 p1 q1 n1 b1 -> lp_equiv M U2 U3 p2 q2 n2 b2 ->
  lp_equiv M U1 U3 (fun x => p2 (p1 x)) (fun x => q1 (q2 x)) (xorb n1 n2) ((if n2 then - b1 else b1) + b2).
Proof.
  intros E1 E2. constructor.
  - rewrite (eq_sense _ _ _ _ _ _ _ E2), (eq_sense _ _ _ _ _ _ _ E1). destruct n1, n2, (u_max U1); reflexivity.
  - intros x F. destruct (eq_fwd _ _ _ _ _ _ _ E1 x F) as [F1 O1].
    destruct (eq_fwd _ _ _ _ _ _ _ E2 _ F1) as [F2 O2]. split; [exact F2|].
    rewrite O2. unfold vmap in *. destruct n1, n2; simpl; rewrite O1; ring.
  - intros x F. destruct (eq_bwd _ _ _ _ _ _ _ E2 x F) as [F1 O1].
    destruct (eq_bwd _ _ _ _ _ _ _ E1 _ F1) as [F2 O2]. split; [exact F2|].
    rewrite O2. unfold vinv in *. destruct n1, n2; simpl; rewrite O1; ring.
Qed.

(* ---- feasibility through Forall over the rows --------------------------------- *)

Lemma row_ok_row_sat M U x i : row_ok M U x i <-> row_sat M (un U) x (urowi U i).
Proof. unfold row_ok, row_sat, uact, ract. reflexivity. Qed.

Lemma ufeasible_Forall M U x :
  ufeasible M U x <-> Forall (row_sat M (un U) x) (u_rows U) /\ ubounds_ok M U x.
Proof.
  unfold ufeasible. split; intros [H1 H2]; split; try exact H2.
  - apply Forall_forall. intros r Hr. destruct (In_nth _ _ durow Hr) as (i & Hi & Ei).
    rewrite <- Ei. apply row_ok_row_sat. apply H1. exact Hi.
  - intros i Hi. apply row_ok_row_sat. rewrite Forall_forall in H1. apply H1. apply nth_In. exact Hi.
Qed.

(* generic: replace the rows by an equivalent list of rows *)
Theorem rows_equiv M U rows' :
  (forall x, ubounds_ok M U x ->
     (Forall (row_sat M (un U) x) (u_rows U) <-> Forall (row_sat M (un U) x) rows')) ->
  lp_equiv M U {| u_max := u_max U; u_cols := u_cols U; u_rows := rows' |} (fun x => x) (fun x => x) false 0.
Proof.
  intros H. set (U' := {| u_max := u_max U; u_cols := u_cols U; u_rows := rows' |}).
  assert (B : forall x, ubounds_ok M U x <-> ubounds_ok M U' x) by (intros; reflexivity).
  assert (O : forall x, uobj U' x == uobj U x) by (intros; reflexivity).
  constructor.
  - unfold U'. simpl. destruct (u_max U); reflexivity.
  - intros x F. apply ufeasible_Forall in F. destruct F as [F1 F2]. split.
    + apply ufeasible_Forall. split; [|exact F2]. apply (H x F2). exact F1.
    + rewrite O. unfold vmap. ring.
  - intros x F. apply ufeasible_Forall in F. destruct F as [F1 F2]. split.
    + apply ufeasible_Forall. split; [|exact F2]. apply (H x F2). exact F1.
    + rewrite <- O. unfold vinv. ring.
Qed.

(* ---- instances ---------------------------------------------------------------- *)

Theorem dup_row_equiv M U i : lp_equiv M U (dup_row i U) (fun x => x) (fun x => x) false 0.
Proof.
  apply rows_equiv. intros x _. rewrite Forall_app. split.
  - intros H. split; [exact H|]. constructor; [|constructor].
    destruct (Nat.lt_ge_cases i (length (u_rows U))) as [Hi|Hi].
    + rewrite Forall_forall in H. apply H. apply nth_In. exact Hi.
    + rewrite nth_overflow by exact Hi. unfold row_sat, ract. simpl.
      apply sumn_0. intros; ring.
  - intros [H _]. exact H.
Qed.

Theorem perm_rows_equiv M U p : is_perm (um U) p = true ->
  lp_equiv M U (perm_rows p U) (fun x => x) (fun x => x) false 0.
Proof.
  intros Hp. apply rows_equiv. intros x _.
  unfold is_perm in Hp. apply andb_true_iff in Hp. destruct Hp as [Hp Hnd]. apply andb_true_iff in Hp. destruct Hp as [Hl Hr].
  apply Nat.eqb_eq in Hl. rewrite forallb_forall in Hr.
  assert (ND : NoDup p).
  { clear - Hnd. induction p as [|a p IH]; [constructor|]. simpl in Hnd. apply andb_true_iff in Hnd. destruct Hnd as [H1 H2].
    constructor; [|apply IH; exact H2]. intros C. apply negb_true_iff in H1.
    assert (G : forall l, In a l -> mem_nat a l = true).
    { induction l as [|b l IHl]; intros Hin; [destruct Hin|]. simpl. destruct Hin as [->|Hin]; [rewrite Nat.eqb_refl; reflexivity|].
      rewrite (IHl Hin). apply orb_true_r. }
    rewrite (G p C) in H1. discriminate. }
  assert (Pm : Permutation p (seq 0 (um U))).
  { apply NoDup_Permutation_bis; [exact ND| rewrite seq_length; lia|].
    intros a Ha. apply in_seq. pose proof (Hr a Ha) as L. apply Nat.ltb_lt in L. lia. }
  assert (Erows : u_rows U = map (fun i => nth i (u_rows U) durow) (seq 0 (um U))).
  { unfold um. clear. induction (u_rows U) as [|r rs IH] using rev_ind; [reflexivity|].
    rewrite app_length. simpl. rewrite Nat.add_1_r, seq_S, map_app. simpl.
    rewrite app_nth2 by lia. rewrite Nat.sub_diag. simpl. f_equal.
    rewrite IH at 1. apply map_ext_in. intros a Ha. apply in_seq in Ha. rewrite app_nth1 by lia. reflexivity. }
  rewrite Erows at 1.
  split; intros H; eapply Permutation_Forall; try exact H; apply Permutation_map; [symmetry|]; exact Pm.
Qed.

Lemma weaken_row_implied M n x r d : row_sat M n x r -> row_sat M n x (weaken_row d r).
Proof.
  unfold row_sat, weaken_row, ract. pose proof (Qabs_nonneg d) as Hd.
  destruct (ur_sense r); simpl; rarith; intros H; try lra; try (destruct H as [H _]; lra).
Qed.

Theorem add_redundant_equiv M U i d : (i < um U)%nat ->
  lp_equiv M U (add_redundant i d U) (fun x => x) (fun x => x) false 0.
Proof.
  intros Hi. apply rows_equiv. intros x _. rewrite Forall_app. split.
  - intros H. split; [exact H|]. constructor; [|constructor]. apply weaken_row_implied.
    rewrite Forall_forall in H. apply H. apply nth_In. exact Hi.
  - intros [H _]. exact H.
Qed.

Theorem split_eq_equiv M U i : lp_equiv M U (split_eq i U) (fun x => x) (fun x => x) false 0.
Proof.
  apply rows_equiv. intros x _. revert i. induction (u_rows U) as [|r rs IH]; intros i; [destruct i; simpl; reflexivity|].
  destruct i as [|i]; simpl.
  - destruct (ur_sense r) eqn:Es; try reflexivity.
    split; intros H.
    + inversion H; subst. constructor; [|constructor; [|assumption]];
        match goal with H1 : row_sat _ _ _ r |- _ => unfold row_sat, ract in *; rewrite Es in H1; simpl; lra end.
    + inversion H; subst. match goal with H2 : Forall _ (_ :: rs) |- _ => inversion H2; subst end.
      constructor; [|assumption].
      unfold row_sat, ract in *. rewrite Es. simpl in *. lra.
  - split; intros H; inversion H; subst; constructor; try assumption; apply (IH i); assumption.
Qed.

Lemma ract_scale n l r x : ract n {| ur_sense := ur_sense r; ur_rhs := 0; ur_range := 0; ur_ent := scale_ent l (ur_ent r) |} x == l * ract n r x.
Proof.
  unfold ract. simpl. rewrite <- sumn_scale. apply sumn_ext. intros j _.
  assert (E : coefAt (scale_ent l (ur_ent r)) j == l * coefAt (ur_ent r) j).
  { induction (ur_ent r) as [|[k v] e IH]; simpl; [ring|]. rewrite IH. destruct (Nat.eqb k j); rarith; ring. }
  rewrite E. ring.
Qed.

Lemma scale_row_sat M n x r l : ~ l == 0 ->
  (ur_sense r = SR -> ~ ur_range r == M /\ ~ ur_range (scale_row l r) == M) ->
  (row_sat M n x r <-> row_sat M n x (scale_row l r)).
Proof.
  intros Hl HR. unfold scale_row.
  assert (A : forall s rh rg, ract n {| ur_sense := s; ur_rhs := rh; ur_range := rg; ur_ent := scale_ent l (ur_ent r) |} x == l * ract n r x).
  { intros. etransitivity; [|apply (ract_scale n l r x)]. reflexivity. }
  destruct (Qltb 0 l) eqn:Epos.
  - apply Qltb_lt in Epos. unfold row_sat. cbn [ur_sense ur_rhs ur_range].
    destruct (ur_sense r) eqn:Es; rewrite A; rarith; try (split; intros; nra).
    destruct (HR eq_refl) as [H1 H2]. unfold scale_row in H2. replace (Qltb 0 l) with true in H2 by (symmetry; apply Qltb_lt; exact Epos).
    cbn [ur_range] in H2. rewrite rmul_ok in H2.
    split; intros [G1 [G2|G2]]; try contradiction; split; try nra; right; nra.
  - apply Qltb_false in Epos. assert (Hneg : l < 0) by (destruct (Qlt_le_dec l 0); [assumption|exfalso; apply Hl; lra]).
    unfold row_sat. destruct (ur_sense r) eqn:Es; cbn [ur_sense ur_rhs ur_range]; rewrite A; rarith; try (split; intros; nra).
    destruct (HR eq_refl) as [H1 H2]. unfold scale_row in H2. replace (Qltb 0 l) with false in H2 by (symmetry; apply Qltb_false; lra).
    rewrite Es in H2. cbn [ur_range] in H2. rewrite rmul_ok in H2.
    split; intros [G1 [G2|G2]]; try contradiction; split; try nra; right; nra.
Qed.

Theorem scale_row_equiv M U i l U' : scale_row_lp M i l U = Some U' ->
  lp_equiv M U U' (fun x => x) (fun x => x) false 0.
Proof.
  unfold scale_row_lp. destruct (Qeq_bool l 0) eqn:E0; [discriminate|].
  set (r := nth i (u_rows U) durow).
  destruct (match ur_sense r with SR => _ | _ => false end) eqn:Eg; [discriminate|].
  intros H. inversion H; subst U'; clear H. apply rows_equiv. intros x _.
  assert (Hl : ~ l == 0) by (intros C; apply Qeq_bool_iff in C; congruence).
  assert (HR : ur_sense r = SR -> ~ ur_range r == M /\ ~ ur_range (scale_row l r) == M).
  { intros Es. rewrite Es in Eg. apply orb_false_iff in Eg. destruct Eg as [G1 G2].
    split; intros C; apply Qeq_bool_iff in C; congruence. }
  unfold r in *. clear r Eg E0. revert i HR. induction (u_rows U) as [|r0 rs IH]; intros i HR; [destruct i; simpl; reflexivity|].
  destruct i as [|i]; simpl in *.
  - split; intros H; inversion H; subst; constructor; try assumption; apply (scale_row_sat M (un U) x r0 l Hl HR); assumption.
  - split; intros H; inversion H; subst; constructor; try assumption; apply (IH i HR); assumption.
Qed.

Lemma nth_map_lt {A B} (f : A -> B) l : forall j d d', (j < length l)%nat -> nth j (map f l) d' = f (nth j l d).
Proof.
  induction l as [|a l IH]; intros [|j] d d' H; simpl in *; try lia; [reflexivity|]. apply IH. lia.
Qed.

(* ---- objective negation ------------------------------------------------------- *)

Theorem neg_obj_equiv M U : lp_equiv M U (neg_obj U) (fun x => x) (fun x => x) true 0.
Proof.
  assert (N : un (neg_obj U) = un U) by (unfold un, neg_obj; simpl; apply map_length).
  assert (C : forall j, ucolj (neg_obj U) j = {| uc_obj := - uc_obj (ucolj U j); uc_lo := uc_lo (ucolj U j); uc_up := uc_up (ucolj U j) |}
              \/ ((un U <= j)%nat)).
  { intros j. destruct (Nat.lt_ge_cases j (un U)) as [H|H]; [left|right; exact H].
    unfold ucolj, neg_obj. simpl.
    rewrite (nth_map_lt (fun c => {| uc_obj := - uc_obj c; uc_lo := uc_lo c; uc_up := uc_up c |}) (u_cols U) j ducol ducol H). reflexivity. }
  assert (F : forall x, ufeasible M U x <-> ufeasible M (neg_obj U) x).
  { intros x. unfold ufeasible, ubounds_ok, row_ok, uact, um, urowi. rewrite N. cbn [u_rows neg_obj].
    split; intros [H1 H2]; (split; [exact H1|]); intros j Hj; destruct (C j) as [E|E]; try lia;
      specialize (H2 j Hj); rewrite E in *; exact H2. }
  assert (O : forall x, uobj (neg_obj U) x == - uobj U x).
  { intros x. unfold uobj. rewrite N. rewrite <- sumn_opp. apply sumn_ext. intros j Hj.
    destruct (C j) as [E|E]; [|lia]. rewrite E. simpl. ring. }
  constructor.
  - reflexivity.
  - intros x Fx. split; [apply F; exact Fx|]. rewrite O. unfold vmap. ring.
  - intros x Fx. split; [apply F; exact Fx|]. unfold vinv. rewrite O. ring.
Qed.

(* ---- affine substitution of the variables ---------------------------------------- *)

Lemma uact_ext U x y i : (forall j, x j == y j) -> uact U x i == uact U y i.
Proof. intros H. unfold uact. apply sumn_ext. intros j _. rewrite (H j). reflexivity. Qed.

Lemma uobj_ext U x y : (forall j, x j == y j) -> uobj U x == uobj U y.
Proof. intros H. unfold uobj. apply sumn_ext. intros j _. rewrite (H j). reflexivity. Qed.

Lemma ufeasible_ext M U x y : (forall j, x j == y j) -> ufeasible M U x -> ufeasible M U y.
Proof.
  intros H [F1 F2]. split.
  - intros i Hi. specialize (F1 i Hi). unfold row_ok in *.
    destruct (ur_sense (urowi U i)); rewrite <- (uact_ext U x y i H); exact F1.
  - intros j Hj. specialize (F2 j Hj). rewrite <- (H j). exact F2.
Qed.

Lemma length_sub_cols M cols : forall al tl, length al = length cols -> length tl = length cols ->
  length (sub_cols M cols al tl) = length cols.
Proof.
  induction cols as [|c cs IH]; intros [|a al] [|t tl] H1 H2; simpl in *; try discriminate; [reflexivity|].
  rewrite IH by lia. reflexivity.
Qed.

Lemma nth_sub_cols M cols : forall al tl j, length al = length cols -> length tl = length cols -> (j < length cols)%nat ->
  nth j (sub_cols M cols al tl) ducol =
  {| uc_obj := rmul (uc_obj (nth j cols ducol)) (nth j al 1);
     uc_lo := sub_bound_lo M (nth j al 1) (nth j tl 0) (uc_lo (nth j cols ducol)) (uc_up (nth j cols ducol));
     uc_up := sub_bound_up M (nth j al 1) (nth j tl 0) (uc_lo (nth j cols ducol)) (uc_up (nth j cols ducol)) |}.
Proof.
  induction cols as [|c cs IH]; intros [|a al] [|t tl] j H1 H2 Hj; simpl in *; try discriminate; try lia.
  destruct j as [|j]; [reflexivity|]. apply IH; lia.
Qed.

Lemma forallb3_nth {A B C} (f : A -> B -> C -> bool) l m k da db dc j :
  forallb3 f l m k = true -> (j < length l)%nat -> f (nth j l da) (nth j m db) (nth j k dc) = true.
Proof.
  revert m k j; induction l as [|a l IH]; intros [|b m] [|c k] j H Hj; simpl in *; try discriminate; try lia.
  apply andb_true_iff in H. destruct H as [H1 H2]. destruct j as [|j]; [exact H1|]. apply IH; [exact H2|lia].
Qed.

Lemma coefAt_sub_ent al e j : coefAt (sub_ent al e) j == coefAt e j * nth j al 1.
Proof.
  induction e as [|[k v] e IH]; simpl; [ring|]. rewrite IH.
  destruct (Nat.eqb_spec k j) as [->|Hne]; rarith; ring.
Qed.

Lemma ent_dot_sumn n e t : ind_lt n e = true -> ent_dot e t == sumn n (fun j => coefAt e j * nth j t 0).
Proof.
  induction e as [|[k v] e IH]; intros H; simpl.
  - symmetry. apply sumn_0. intros; ring.
  - simpl in H. apply andb_true_iff in H. destruct H as [Hk He]. apply Nat.ltb_lt in Hk.
    rarith. rewrite IH by exact He.
    assert (E : sumn n (fun j => (if Nat.eqb k j then v else 0) * nth j t 0) == v * nth k t 0).
    { etransitivity.
      - apply (sumn_single n k); [exact Hk|]. intros i _ Hne. destruct (Nat.eqb_spec k i); [congruence|ring].
      - cbv beta. rewrite Nat.eqb_refl. reflexivity. }
    rewrite <- E. rewrite <- sumn_add. apply sumn_ext. intros j _. ring.
Qed.

(* division helpers *)
Lemma div_le_pos u a x : 0 < a -> (u / a <= x <-> u <= a * x).
Proof. intros Ha. assert (E : u == (u / a) * a) by (field; lra). split; intros H; nra. Qed.
Lemma le_div_pos u a x : 0 < a -> (x <= u / a <-> a * x <= u).
Proof. intros Ha. assert (E : u == (u / a) * a) by (field; lra). split; intros H; nra. Qed.
Lemma div_le_neg u a x : a < 0 -> (u / a <= x <-> a * x <= u).
Proof. intros Ha. assert (E : u == (u / a) * a) by (field; lra). split; intros H; nra. Qed.
Lemma le_div_neg u a x : a < 0 -> (x <= u / a <-> u <= a * x).
Proof. intros Ha. assert (E : u == (u / a) * a) by (field; lra). split; intros H; nra. Qed.

Lemma sub_lo_pos M a t lo up x : 0 < a ->
  Qeq_bool (sub_bound_lo M a t lo up) (- M) = (if Qltb 0 a then Qeq_bool lo (- M) else Qeq_bool up M) ->
  ((sub_bound_lo M a t lo up == - M \/ sub_bound_lo M a t lo up <= x) <-> (lo == - M \/ lo <= a * x + t)).
Proof.
  intros Ha. unfold sub_bound_lo. replace (Qltb 0 a) with true by (symmetry; apply Qltb_lt; exact Ha).
  destruct (Qeq_bool lo (- M)) eqn:E; intros G.
  - apply Qeq_bool_iff in E. split; intros _; left; [exact E|reflexivity].
  - assert (N1 : ~ lo == - M) by (intros C; apply Qeq_bool_iff in C; congruence).
    assert (N2 : ~ rdiv (rsub lo t) a == - M) by (intros C; apply Qeq_bool_iff in C; congruence).
    rewrite rdiv_ok, rsub_ok in *. rewrite (div_le_pos _ a x Ha).
    split; intros [H|H]; try contradiction; right; lra.
Qed.
Lemma sub_up_pos M a t lo up x : 0 < a ->
  Qeq_bool (sub_bound_up M a t lo up) M = (if Qltb 0 a then Qeq_bool up M else Qeq_bool lo (- M)) ->
  ((sub_bound_up M a t lo up == M \/ x <= sub_bound_up M a t lo up) <-> (up == M \/ a * x + t <= up)).
Proof.
  intros Ha. unfold sub_bound_up. replace (Qltb 0 a) with true by (symmetry; apply Qltb_lt; exact Ha).
  destruct (Qeq_bool up M) eqn:E; intros G.
  - apply Qeq_bool_iff in E. split; intros _; left; [exact E|reflexivity].
  - assert (N1 : ~ up == M) by (intros C; apply Qeq_bool_iff in C; congruence).
    assert (N2 : ~ rdiv (rsub up t) a == M) by (intros C; apply Qeq_bool_iff in C; congruence).
    rewrite rdiv_ok, rsub_ok in *. rewrite (le_div_pos _ a x Ha).
    split; intros [H|H]; try contradiction; right; lra.
Qed.
Lemma sub_lo_neg M a t lo up x : a < 0 ->
  Qeq_bool (sub_bound_lo M a t lo up) (- M) = (if Qltb 0 a then Qeq_bool lo (- M) else Qeq_bool up M) ->
  ((sub_bound_lo M a t lo up == - M \/ sub_bound_lo M a t lo up <= x) <-> (up == M \/ a * x + t <= up)).
Proof.
  intros Ha. unfold sub_bound_lo. replace (Qltb 0 a) with false by (symmetry; apply Qltb_false; lra).
  destruct (Qeq_bool up M) eqn:E; intros G.
  - apply Qeq_bool_iff in E. split; intros _; left; [exact E|reflexivity].
  - assert (N1 : ~ up == M) by (intros C; apply Qeq_bool_iff in C; congruence).
    assert (N2 : ~ rdiv (rsub up t) a == - M) by (intros C; apply Qeq_bool_iff in C; congruence).
    rewrite rdiv_ok, rsub_ok in *. rewrite (div_le_neg _ a x Ha).
    split; intros [H|H]; try contradiction; right; lra.
Qed.
Lemma sub_up_neg M a t lo up x : a < 0 ->
  Qeq_bool (sub_bound_up M a t lo up) M = (if Qltb 0 a then Qeq_bool up M else Qeq_bool lo (- M)) ->
  ((sub_bound_up M a t lo up == M \/ x <= sub_bound_up M a t lo up) <-> (lo == - M \/ lo <= a * x + t)).
Proof.
  intros Ha. unfold sub_bound_up. replace (Qltb 0 a) with false by (symmetry; apply Qltb_false; lra).
  destruct (Qeq_bool lo (- M)) eqn:E; intros G.
  - apply Qeq_bool_iff in E. split; intros _; left; [exact E|reflexivity].
  - assert (N1 : ~ lo == - M) by (intros C; apply Qeq_bool_iff in C; congruence).
    assert (N2 : ~ rdiv (rsub lo t) a == M) by (intros C; apply Qeq_bool_iff in C; congruence).
    rewrite rdiv_ok, rsub_ok in *. rewrite (le_div_neg _ a x Ha).
    split; intros [H|H]; try contradiction; right; lra.
Qed.

Section Subst.
  Variables (M : Q) (al tl : list Q) (U U' : ulp).
  Hypothesis S : subst_vars M al tl U = Some U'.
  Let n := un U.
  Let a j := nth j al 1.
  Let t j := nth j tl 0.
  Definition sub_phi (x : nat -> Q) (j : nat) : Q := (x j - t j) / a j.
  Definition sub_psi (x' : nat -> Q) (j : nat) : Q := a j * x' j + t j.

  Lemma subst_parts :
    length al = n /\ length tl = n /\ wf_ulp U = true /\
    forallb3 (sub_ok_col M) (u_cols U) (sub_cols M (u_cols U) al tl) al = true /\
    U' = {| u_max := u_max U; u_cols := sub_cols M (u_cols U) al tl; u_rows := map (sub_row al tl) (u_rows U) |}.
  Proof.
    unfold subst_vars in S. destruct (_ && _) eqn:G in S; [|discriminate].
    inversion S. repeat (apply andb_true_iff in G; destruct G as [G ?]).
    apply Nat.eqb_eq in G. repeat match goal with H : Nat.eqb _ _ = true |- _ => apply Nat.eqb_eq in H end.
    repeat split; assumption.
  Qed.

  Lemma a_nonzero j : ~ a j == 0.
  Proof.
    destruct subst_parts as (La & Lt & _ & Ok & _).
    destruct (Nat.lt_ge_cases j n) as [Hj|Hj].
    - pose proof (forallb3_nth _ _ _ _ ducol ducol 1 j Ok Hj) as E. unfold sub_ok_col in E.
      apply andb_true_iff in E. destruct E as [E _]. apply andb_true_iff in E. destruct E as [E _].
      apply negb_true_iff in E. intros C. apply Qeq_bool_iff in C. unfold a in C. congruence.
    - unfold a. rewrite nth_overflow by lia. discriminate.
  Qed.

  Lemma psi_phi x j : sub_psi (sub_phi x) j == x j.
  Proof. unfold sub_psi, sub_phi. field. apply a_nonzero. Qed.
  Lemma phi_psi x j : sub_phi (sub_psi x) j == x j.
  Proof. unfold sub_psi, sub_phi. field. apply a_nonzero. Qed.

  Lemma un_U' : un U' = n.
  Proof.
    destruct subst_parts as (La & Lt & _ & _ & ->). unfold un. simpl.
    apply length_sub_cols; assumption.
  Qed.

  Lemma ucolj_U' j : (j < n)%nat ->
    ucolj U' j = {| uc_obj := rmul (uc_obj (ucolj U j)) (a j);
                    uc_lo := sub_bound_lo M (a j) (t j) (uc_lo (ucolj U j)) (uc_up (ucolj U j));
                    uc_up := sub_bound_up M (a j) (t j) (uc_lo (ucolj U j)) (uc_up (ucolj U j)) |}.
  Proof.
    intros Hj. destruct subst_parts as (La & Lt & _ & _ & ->). unfold ucolj. simpl.
    apply nth_sub_cols; assumption.
  Qed.

  Lemma obj_psi x' : uobj U (sub_psi x') == uobj U' x' + sumn n (fun j => uc_obj (ucolj U j) * t j).
  Proof.
    unfold uobj. rewrite un_U'. fold n. rewrite <- sumn_add. apply sumn_ext. intros j Hj.
    rewrite ucolj_U' by exact Hj. cbn [uc_obj]. rarith. unfold sub_psi. ring.
  Qed.

  Lemma row_psi x' r : ind_lt n (ur_ent r) = true ->
    ract n r (sub_psi x') == ract n (sub_row al tl r) x' + ent_dot (ur_ent r) tl.
  Proof.
    intros Hw. unfold ract. cbn [sub_row ur_ent]. rewrite (ent_dot_sumn n _ _ Hw). rewrite <- sumn_add.
    apply sumn_ext. intros j _. rewrite coefAt_sub_ent. unfold sub_psi, a, t. ring.
  Qed.

  Lemma row_sat_psi x' r : ind_lt n (ur_ent r) = true ->
    (row_sat M n (sub_psi x') r <-> row_sat M n x' (sub_row al tl r)).
  Proof.
    intros Hw. pose proof (row_psi x' r Hw) as E. unfold row_sat. cbn [sub_row ur_sense ur_rhs ur_range].
    destruct (ur_sense r); rewrite E; rarith; split; intros H; try lra;
      try (destruct H as [H1 [H2|H2]]; (split; [lra|]); [left; exact H2|right; lra]).
  Qed.

  Lemma bounds_psi x' j : (j < n)%nat ->
    ((uc_lo (ucolj U j) == - M \/ uc_lo (ucolj U j) <= sub_psi x' j) /\
     (uc_up (ucolj U j) == M \/ sub_psi x' j <= uc_up (ucolj U j)))
    <->
    ((uc_lo (ucolj U' j) == - M \/ uc_lo (ucolj U' j) <= x' j) /\
     (uc_up (ucolj U' j) == M \/ x' j <= uc_up (ucolj U' j))).
  Proof.
    intros Hj. destruct subst_parts as (La & Lt & _ & Ok & _).
    pose proof (forallb3_nth _ _ _ _ ducol ducol 1 j Ok Hj) as E. unfold sub_ok_col in E.
    fold (ucolj U j) in E.
    assert (Ec : nth j (sub_cols M (u_cols U) al tl) ducol = ucolj U' j).
    { destruct subst_parts as (_ & _ & _ & _ & ->). reflexivity. }
    rewrite Ec in E. fold (a j) in E.
    apply andb_true_iff in E. destruct E as [E E3]. apply andb_true_iff in E. destruct E as [E1 E2].
    apply eqb_prop in E2. apply eqb_prop in E3.
    pose proof (a_nonzero j) as Ha. rewrite (ucolj_U' j Hj) in *. cbn [uc_lo uc_up] in *.
    unfold sub_psi. fold (a j) (t j).
    destruct (Qlt_le_dec 0 (a j)) as [Epos|Epos].
    - rewrite (sub_lo_pos M (a j) (t j) _ _ (x' j) Epos E2).
      rewrite (sub_up_pos M (a j) (t j) _ _ (x' j) Epos E3). reflexivity.
    - assert (Hneg : a j < 0) by (destruct (Qlt_le_dec (a j) 0); [assumption|exfalso; apply Ha; lra]).
      rewrite (sub_lo_neg M (a j) (t j) _ _ (x' j) Hneg E2).
      rewrite (sub_up_neg M (a j) (t j) _ _ (x' j) Hneg E3). tauto.
  Qed.

  Lemma feasible_psi x' : ufeasible M U (sub_psi x') <-> ufeasible M U' x'.
  Proof.
    destruct subst_parts as (La & Lt & Wf & Ok & EU).
    rewrite !ufeasible_Forall. rewrite un_U'. fold n.
    assert (ER : Forall (row_sat M n (sub_psi x')) (u_rows U) <-> Forall (row_sat M n x') (u_rows U')).
    { rewrite EU. cbn [u_rows]. unfold wf_ulp in Wf. rewrite forallb_forall in Wf. fold n in Wf.
      rewrite Forall_map. split; intros H; rewrite Forall_forall in *; intros r Hr;
        apply (row_sat_psi x' r (Wf r Hr)); apply H; exact Hr. }
    assert (EB : ubounds_ok M U (sub_psi x') <-> ubounds_ok M U' x').
    { unfold ubounds_ok. rewrite un_U'. fold n. split; intros H j Hj; apply (bounds_psi x' j Hj); apply H; exact Hj. }
    rewrite ER, EB. reflexivity.
  Qed.

  Theorem subst_vars_equiv :
    lp_equiv M U U' sub_phi sub_psi false (- sumn n (fun j => uc_obj (ucolj U j) * t j)).
  Proof.
    constructor.
    - destruct subst_parts as (_ & _ & _ & _ & ->). simpl. destruct (u_max U); reflexivity.
    - intros x F.
      assert (F2 : ufeasible M U (sub_psi (sub_phi x))).
      { apply (ufeasible_ext M U x); [|exact F]. intros j. symmetry. apply psi_phi. }
      split; [apply feasible_psi; exact F2|].
      pose proof (obj_psi (sub_phi x)) as O. rewrite (uobj_ext U _ x (psi_phi x)) in O.
      unfold vmap. rewrite O. ring.
    - intros x' F. split; [apply feasible_psi; exact F|].
      rewrite obj_psi. unfold vinv. ring.
  Qed.
End Subst.

(* ---- column permutation ------------------------------------------------------------- *)

Lemma qsum_perm l l' : Permutation l l' -> qsum l == qsum l'.
Proof.
  induction 1 as [|a l l' _ IH|a b l|l l' l'' _ IH1 _ IH2]; simpl; rarith.
  - reflexivity.
  - rewrite IH. reflexivity.
  - ring.
  - rewrite IH1. exact IH2.
Qed.

Lemma is_perm_spec n p : is_perm n p = true -> length p = n /\ NoDup p /\ Permutation p (seq 0 n).
Proof.
  intros Hp. unfold is_perm in Hp. apply andb_true_iff in Hp. destruct Hp as [Hp Hnd]. apply andb_true_iff in Hp. destruct Hp as [Hl Hr].
  apply Nat.eqb_eq in Hl. rewrite forallb_forall in Hr.
  assert (ND : NoDup p).
  { clear - Hnd. induction p as [|a p IH]; [constructor|]. simpl in Hnd. apply andb_true_iff in Hnd. destruct Hnd as [H1 H2].
    constructor; [|apply IH; exact H2]. intros C. apply negb_true_iff in H1.
    assert (G : forall l, In a l -> mem_nat a l = true).
    { induction l as [|b l IHl]; intros Hin; [destruct Hin|]. simpl. destruct Hin as [->|Hin]; [rewrite Nat.eqb_refl; reflexivity|].
      rewrite (IHl Hin). apply orb_true_r. }
    rewrite (G p C) in H1. discriminate. }
  split; [exact Hl|]. split; [exact ND|].
  apply NoDup_Permutation_bis; [exact ND| rewrite seq_length; lia|].
  intros a Ha. apply in_seq. pose proof (Hr a Ha) as L. apply Nat.ltb_lt in L. lia.
Qed.

Lemma map_nth_seq {A} (l : list A) d : map (fun k => nth k l d) (seq 0 (length l)) = l.
Proof.
  induction l as [|a l IH] using rev_ind; [reflexivity|].
  rewrite app_length. simpl. rewrite Nat.add_1_r, seq_S, map_app. simpl.
  rewrite app_nth2 by lia. rewrite Nat.sub_diag. simpl. f_equal.
  rewrite <- IH at 2. apply map_ext_in. intros k Hk. apply in_seq in Hk. rewrite app_nth1 by lia. reflexivity.
Qed.

(* reindexing a sum along a permutation *)
Lemma sumn_reindex n p (f : nat -> Q) : is_perm n p = true ->
  sumn n (fun k => f (nth k p O)) == sumn n f.
Proof.
  intros Hp. destruct (is_perm_spec n p Hp) as (Hl & _ & Pm).
  rewrite <- (qsum_map_seq n (fun k => f (nth k p O))), <- (qsum_map_seq n f).
  rewrite <- (map_map (fun k => nth k p O) f). rewrite <- Hl at 1. rewrite map_nth_seq.
  apply qsum_perm. apply Permutation_map. exact Pm.
Qed.

Lemma index_of_nth p : NoDup p -> forall k, (k < length p)%nat -> index_of (nth k p O) p = k.
Proof.
  induction 1 as [|a p Hna _ IH]; intros k Hk; simpl in Hk; [lia|].
  destruct k as [|k]; simpl; [rewrite Nat.eqb_refl; reflexivity|].
  destruct (Nat.eqb_spec a (nth k p O)) as [E|_].
  - exfalso. apply Hna. rewrite E. apply nth_In. lia.
  - rewrite IH by lia. reflexivity.
Qed.

Lemma nth_index_of p j : In j p -> nth (index_of j p) p O = j /\ (index_of j p < length p)%nat.
Proof.
  induction p as [|a p IH]; intros Hin; [destruct Hin|]. simpl.
  destruct (Nat.eqb_spec a j) as [->|Hne]; [split; [reflexivity|lia]|].
  destruct Hin as [E|Hin]; [contradiction|]. destruct (IH Hin) as [H1 H2]. split; [exact H1|lia].
Qed.

Lemma coefAt_perm_ent n p e k : is_perm n p = true -> ind_lt n e = true -> (k < n)%nat ->
  coefAt (perm_ent p e) k == coefAt e (nth k p O).
Proof.
  intros Hp. destruct (is_perm_spec n p Hp) as (Hl & ND & Pm).
  induction e as [|[j v] e IH]; intros He Hk; simpl; [reflexivity|].
  simpl in He. apply andb_true_iff in He. destruct He as [Hj He]. apply Nat.ltb_lt in Hj.
  rewrite (IH He Hk).
  assert (Hin : In j p) by (apply (Permutation_in _ (Permutation_sym Pm)); apply in_seq; lia).
  destruct (nth_index_of p j Hin) as [N1 N2].
  destruct (Nat.eqb_spec (index_of j p) k) as [E|Hne]; destruct (Nat.eqb_spec j (nth k p O)) as [E'|Hne']; try reflexivity.
  - exfalso. apply Hne'. rewrite <- E. symmetry. exact N1.
  - exfalso. apply Hne. rewrite E'. apply index_of_nth; [exact ND|lia].
Qed.

Section PermCols.
  Variables (M : Q) (p : list nat) (U U' : ulp).
  Hypothesis S : perm_cols p U = Some U'.
  Let n := un U.
  Definition pc_phi (x : nat -> Q) (k : nat) : Q := x (nth k p O).
  Definition pc_psi (x' : nat -> Q) (j : nat) : Q := x' (index_of j p).

  Lemma pc_parts : is_perm n p = true /\ wf_ulp U = true /\
    U' = {| u_max := u_max U; u_cols := map (fun k => nth k (u_cols U) ducol) p;
            u_rows := map (fun r => {| ur_sense := ur_sense r; ur_rhs := ur_rhs r; ur_range := ur_range r;
                                       ur_ent := perm_ent p (ur_ent r) |}) (u_rows U) |}.
  Proof.
    unfold perm_cols in S. destruct (is_perm (un U) p && wf_ulp U) eqn:G; [|discriminate].
    apply andb_true_iff in G. destruct G as [G1 G2]. inversion S. repeat split; assumption.
  Qed.

  Lemma pc_un : un U' = n.
  Proof.
    destruct pc_parts as (Hp & _ & ->). destruct (is_perm_spec n p Hp) as (Hl & _). unfold un. simpl. rewrite map_length. exact Hl.
  Qed.

  Lemma pc_col k : (k < n)%nat -> ucolj U' k = ucolj U (nth k p O).
  Proof.
    intros Hk. destruct pc_parts as (Hp & _ & ->). destruct (is_perm_spec n p Hp) as (Hl & _).
    unfold ucolj. simpl. rewrite (nth_map_lt (fun k0 => nth k0 (u_cols U) ducol) p k O ducol) by lia. reflexivity.
  Qed.

  Lemma pc_ract x r : ind_lt n (ur_ent r) = true ->
    ract n {| ur_sense := ur_sense r; ur_rhs := ur_rhs r; ur_range := ur_range r; ur_ent := perm_ent p (ur_ent r) |} (pc_phi x)
    == ract n r x.
  Proof.
    intros Hw. destruct pc_parts as (Hp & _). unfold ract. cbn [ur_ent].
    rewrite <- (sumn_reindex n p (fun j => coefAt (ur_ent r) j * x j) Hp).
    apply sumn_ext. intros k Hk. rewrite (coefAt_perm_ent n p _ k Hp Hw Hk). unfold pc_phi. reflexivity.
  Qed.

  Lemma pc_feasible x : ufeasible M U x <-> ufeasible M U' (pc_phi x).
  Proof.
    destruct pc_parts as (Hp & Wf & EU). rewrite !ufeasible_Forall. rewrite pc_un. fold n.
    assert (ER : Forall (row_sat M n x) (u_rows U) <-> Forall (row_sat M n (pc_phi x)) (u_rows U')).
    { rewrite EU. cbn [u_rows]. rewrite Forall_map. unfold wf_ulp in Wf. rewrite forallb_forall in Wf. fold n in Wf.
      split; intros H; rewrite Forall_forall in *; intros r Hr; specialize (H r Hr);
        unfold row_sat in *; cbn [ur_sense ur_rhs ur_range] in *;
        pose proof (pc_ract x r (Wf r Hr)) as E; destruct (ur_sense r); rewrite ?E in *; try exact H;
        rewrite <- ?E; exact H. }
    assert (EB : ubounds_ok M U x <-> ubounds_ok M U' (pc_phi x)).
    { unfold ubounds_ok. rewrite pc_un. fold n. destruct (is_perm_spec n p Hp) as (Hl & ND & Pm). split; intros H.
      - intros k Hk. rewrite (pc_col k Hk). unfold pc_phi. apply H.
        assert (Hin : In (nth k p O) (seq 0 n)) by (apply (Permutation_in _ Pm); apply nth_In; lia).
        apply in_seq in Hin. lia.
      - intros j Hj. assert (Hin : In j p) by (apply (Permutation_in _ (Permutation_sym Pm)); apply in_seq; lia).
        destruct (nth_index_of p j Hin) as [N1 N2]. rewrite Hl in N2.
        specialize (H (index_of j p) N2). rewrite (pc_col _ N2) in H. unfold pc_phi in H. rewrite N1 in H. exact H. }
    rewrite ER, EB. reflexivity.
  Qed.

  Lemma pc_obj x : uobj U' (pc_phi x) == uobj U x.
  Proof.
    destruct pc_parts as (Hp & _). unfold uobj. rewrite pc_un. fold n.
    rewrite <- (sumn_reindex n p (fun j => uc_obj (ucolj U j) * x j) Hp).
    apply sumn_ext. intros k Hk. rewrite (pc_col k Hk). unfold pc_phi. reflexivity.
  Qed.

  Lemma pc_phi_psi x' k : (k < n)%nat -> pc_phi (pc_psi x') k = x' k.
  Proof.
    intros Hk. destruct pc_parts as (Hp & _). destruct (is_perm_spec n p Hp) as (Hl & ND & _).
    unfold pc_phi, pc_psi. rewrite index_of_nth by (try exact ND; lia). reflexivity.
  Qed.

  Lemma ufeasible_ext_lt x y : (forall k, (k < un U')%nat -> x k == y k) -> ufeasible M U' x -> ufeasible M U' y.
  Proof.
    intros H [F1 F2]. split.
    - intros i Hi. specialize (F1 i Hi). unfold row_ok in *.
      assert (E : uact U' x i == uact U' y i) by (unfold uact; apply sumn_ext; intros j Hj; rewrite (H j Hj); reflexivity).
      destruct (ur_sense (urowi U' i)); rewrite <- E; exact F1.
    - intros j Hj. specialize (F2 j Hj). rewrite <- (H j Hj). exact F2.
  Qed.

  Theorem perm_cols_equiv : lp_equiv M U U' pc_phi pc_psi false 0.
  Proof.
    constructor.
    - destruct pc_parts as (_ & _ & ->). simpl. destruct (u_max U); reflexivity.
    - intros x F. split; [apply pc_feasible; exact F|]. rewrite pc_obj. unfold vmap. ring.
    - intros x' F.
      assert (F2 : ufeasible M U' (pc_phi (pc_psi x'))).
      { apply (ufeasible_ext_lt x'); [|exact F]. intros k Hk. rewrite pc_un in Hk. rewrite pc_phi_psi by exact Hk. reflexivity. }
      split; [apply pc_feasible; exact F2|].
      rewrite <- pc_obj. unfold vinv.
      assert (E : uobj U' (pc_phi (pc_psi x')) == uobj U' x').
      { unfold uobj. apply sumn_ext. intros k Hk. rewrite pc_un in Hk. rewrite pc_phi_psi by exact Hk. reflexivity. }
      rewrite E. ring.
  Qed.
End PermCols.
