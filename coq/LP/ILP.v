(* Internal form of an LP as the library stores it:  A z = b,  l <= z <= u,
   objective c.z (min or max), columns sparse.  A bound may be "infinite"
   according to a pair of boolean predicates (the rational sentinel of the mpq
   instantiation, or nothing at all for the literal reading). *)
From QSX Require Export Base.QSum.
Local Open Scope Q_scope.

Record icol := { ic_obj : Q; ic_lo : Q; ic_up : Q; ic_ent : list (nat * Q) }.
Record ilp := { i_max : bool; i_cols : list icol; i_rhs : list Q }.

Definition dcol : icol := {| ic_obj := 0; ic_lo := 0; ic_up := 0; ic_ent := [] |}.
Definition ncols (P : ilp) := length (i_cols P).
Definition nrows (P : ilp) := length (i_rhs P).
Definition col (P : ilp) (j : nat) : icol := nth j (i_cols P) dcol.
Definition Aij (P : ilp) (i j : nat) : Q := coefAt (ic_ent (col P j)) i.
Definition rhs (P : ilp) (i : nat) : Q := qnth (i_rhs P) i.

(* which bound values mean "no bound" *)
Record infp := { inflo : Q -> bool; infup : Q -> bool }.
Definition inf_none : infp := {| inflo := fun _ => false; infup := fun _ => false |}.
Definition inf_sentinel (M : Q) : infp :=
  {| inflo := fun l => Qeq_bool l (- M); infup := fun u => Qeq_bool u M |}.

Section Sem.
  Variable I : infp.
  Variable P : ilp.

  Definition rowact (z : nat -> Q) (i : nat) : Q := sumn (ncols P) (fun j => Aij P i j * z j).
  Definition objval (z : nat -> Q) : Q := sumn (ncols P) (fun j => ic_obj (col P j) * z j).

  Definition bounds_ok (z : nat -> Q) : Prop :=
    forall j, (j < ncols P)%nat ->
      (inflo I (ic_lo (col P j)) = true \/ ic_lo (col P j) <= z j) /\
      (infup I (ic_up (col P j)) = true \/ z j <= ic_up (col P j)).

  Definition feasible (z : nat -> Q) : Prop :=
    (forall i, (i < nrows P)%nat -> rowact z i == rhs P i) /\ bounds_ok z.

  Definition no_worse (v w : Q) : Prop := if i_max P then w <= v else v <= w.

  Definition is_optimum (z : nat -> Q) (v : Q) : Prop :=
    feasible z /\ objval z == v /\ forall z', feasible z' -> no_worse v (objval z').

  Definition infeasible : Prop := forall z, ~ feasible z.

  Definition unbounded : Prop :=
    (exists z, feasible z) /\
    forall k : Q, exists z, feasible z /\ (if i_max P then k < objval z else objval z < k).
End Sem.

(* all row indices of all columns are < nrows *)
Definition wf_ilp (P : ilp) : bool := forallb (fun c => ind_lt (nrows P) (ic_ent c)) (i_cols P).

Lemma wf_ilp_col P j : wf_ilp P = true -> ind_lt (nrows P) (ic_ent (col P j)) = true.
Proof.
  intros H. unfold wf_ilp in H. rewrite forallb_forall in H.
  unfold col. destruct (Nat.lt_ge_cases j (ncols P)) as [Hj|Hj].
  - apply H. apply nth_In. exact Hj.
  - rewrite nth_overflow by exact Hj. reflexivity.
Qed.

(* the basic identity: c.z = dz.z + y.(A z) *)
Definition dzf (P : ilp) (y : nat -> Q) (j : nat) : Q :=
  ic_obj (col P j) - sumn (nrows P) (fun i => Aij P i j * y i).

Lemma obj_split P y z :
  objval P z == sumn (ncols P) (fun j => dzf P y j * z j)
              + sumn (nrows P) (fun i => y i * rowact P z i).
Proof.
  unfold objval, dzf, rowact.
  assert (E : sumn (nrows P) (fun i => y i * sumn (ncols P) (fun j => Aij P i j * z j))
           == sumn (ncols P) (fun j => sumn (nrows P) (fun i => Aij P i j * y i) * z j)).
  { etransitivity.
    - apply sumn_ext. intros i _. symmetry. apply sumn_scale.
    - rewrite sumn_swap. apply sumn_ext. intros j _.
      rewrite <- sumn_scale_r. apply sumn_ext. intros i _. ring. }
  rewrite E. rewrite <- sumn_add. apply sumn_ext. intros j _. ring.
Qed.
