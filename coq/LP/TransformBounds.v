(* C15: one more family of reformulations - a finite bound of a column moved into an explicit
   constraint row (x_j <= u  resp.  x_j >= l) while the column's bound becomes infinite.  Same feasible
   set, same objective: an instance of lp_equiv with identity maps. *)
From QSX Require Import LP.Transform LP.TransformSound.
From Coq Require Import Lia Lqa.
Local Open Scope Q_scope.

Fixpoint map_nth_col (f : ucol -> ucol) (j : nat) (cols : list ucol) : list ucol :=
  match cols, j with
  | [], _ => []
  | c :: cs, O => f c :: cs
  | c :: cs, S k => c :: map_nth_col f k cs
  end.

Definition drop_up (M : Q) (c : ucol) : ucol := {| uc_obj := uc_obj c; uc_lo := uc_lo c; uc_up := M |}.
Definition drop_lo (M : Q) (c : ucol) : ucol := {| uc_obj := uc_obj c; uc_lo := - M; uc_up := uc_up c |}.

(* None when the column does not exist or the bound is already infinite *)
Definition bound_to_row (M : Q) (upper : bool) (j : nat) (U : ulp) : option ulp :=
  if (j <? un U)%nat then
    let c := ucolj U j in
    if upper then
      if Qeq_bool (uc_up c) M then None
      else Some {| u_max := u_max U; u_cols := map_nth_col (drop_up M) j (u_cols U);
                   u_rows := u_rows U ++ [ {| ur_sense := SL; ur_rhs := uc_up c; ur_range := 0; ur_ent := [(j, 1)] |} ] |}
    else
      if Qeq_bool (uc_lo c) (- M) then None
      else Some {| u_max := u_max U; u_cols := map_nth_col (drop_lo M) j (u_cols U);
                   u_rows := u_rows U ++ [ {| ur_sense := SG; ur_rhs := uc_lo c; ur_range := 0; ur_ent := [(j, 1)] |} ] |}
  else None.

(* ---- proofs -------------------------------------------------------------------------------- *)

Lemma map_nth_col_length f : forall j cols, length (map_nth_col f j cols) = length cols.
Proof. intros j cols; revert j; induction cols as [|c cs IH]; intros [|j]; simpl; auto. Qed.

Lemma map_nth_col_nth f : forall j cols k d, (j < length cols)%nat ->
  nth k (map_nth_col f j cols) d = if Nat.eqb k j then f (nth j cols d) else nth k cols d.
Proof.
  intros j cols; revert j; induction cols as [|c cs IH]; intros [|j] k d H; simpl in *; try lia.
  - destruct k; reflexivity.
  - destruct k as [|k]; [reflexivity|]. simpl. apply IH. lia.
Qed.

Lemma single_act n j x : (j < n)%nat -> sumn n (fun k => coefAt [(j, 1)] k * x k) == x j.
Proof.
  intros Hj. rewrite (sumn_single n j); [|exact Hj|].
  - simpl. rewrite Nat.eqb_refl. ring.
  - intros i _ Hi. simpl. destruct (Nat.eqb j i) eqn:E; [apply Nat.eqb_eq in E; congruence|ring].
Qed.

Section BoundToRow.
  Variables (M : Q) (U U' : ulp) (j : nat) (f : ucol -> ucol) (r : urow).
  Hypothesis Hj : (j < un U)%nat.
  Hypothesis HU' : U' = {| u_max := u_max U; u_cols := map_nth_col f j (u_cols U); u_rows := u_rows U ++ [r] |}.
  Hypothesis Hobj : forall c, uc_obj (f c) = uc_obj c.

  Lemma b2r_un : un U' = un U.
  Proof using Hj HU' Hobj. rewrite HU'. unfold un. simpl. apply map_nth_col_length. Qed.

  Lemma b2r_um : um U' = S (um U).
  Proof using Hj HU' Hobj. rewrite HU'. unfold um. simpl. rewrite app_length. simpl. lia. Qed.

  Lemma b2r_col k : ucolj U' k = if Nat.eqb k j then f (ucolj U j) else ucolj U k.
  Proof using Hj HU' Hobj. rewrite HU'. unfold ucolj. simpl. apply map_nth_col_nth. exact Hj. Qed.

  Lemma b2r_row_old i : (i < um U)%nat -> urowi U' i = urowi U i.
  Proof using Hj HU' Hobj. intros Hi. rewrite HU'. unfold urowi. simpl. apply app_nth1. exact Hi. Qed.

  Lemma b2r_row_new : urowi U' (um U) = r.
  Proof using Hj HU' Hobj. rewrite HU'. unfold urowi, um. simpl. rewrite app_nth2 by lia. rewrite Nat.sub_diag. reflexivity. Qed.

  Lemma b2r_obj x : uobj U' x == uobj U x.
  Proof using Hj HU' Hobj.
    unfold uobj. rewrite b2r_un. apply sumn_ext. intros k _. rewrite b2r_col.
    destruct (Nat.eqb k j) eqn:E; [|reflexivity]. apply Nat.eqb_eq in E. subst k. rewrite Hobj. reflexivity.
  Qed.

  Lemma b2r_act_old x i : (i < um U)%nat -> uact U' x i == uact U x i.
  Proof using Hj HU' Hobj. intros Hi. unfold uact. rewrite b2r_un, (b2r_row_old i Hi). reflexivity. Qed.

  Lemma b2r_row_ok_old x i : (i < um U)%nat -> (row_ok M U' x i <-> row_ok M U x i).
  Proof using Hj HU' Hobj.
    intros Hi. unfold row_ok. rewrite (b2r_row_old i Hi). pose proof (b2r_act_old x i Hi) as A.
    destruct (ur_sense (urowi U i)); rewrite A; reflexivity.
  Qed.
End BoundToRow.

Theorem bound_to_row_equiv M upper j U U' : bound_to_row M upper j U = Some U' ->
  lp_equiv M U U' (fun x => x) (fun x => x) false 0.
Proof.
  unfold bound_to_row. destruct (Nat.ltb_spec j (un U)) as [Hj|]; [|discriminate].
  destruct upper.
  - destruct (Qeq_bool (uc_up (ucolj U j)) M) eqn:EM; [discriminate|]. intros E. inversion E as [HU']. clear E.
    assert (NM : ~ uc_up (ucolj U j) == M) by (intros X; apply Qeq_bool_iff in X; congruence).
    set (r := {| ur_sense := SL; ur_rhs := uc_up (ucolj U j); ur_range := 0; ur_ent := [(j, 1)] |}) in *.
    symmetry in HU'. rewrite <- HU'.
    assert (Ho : forall c, uc_obj (drop_up M c) = uc_obj c) by reflexivity.
    pose proof (b2r_un U U' j (drop_up M) r Hj HU' Ho) as N.
    pose proof (b2r_um U U' j (drop_up M) r Hj HU' Ho) as Mm.
    pose proof (b2r_col U U' j (drop_up M) r Hj HU' Ho) as C.
    pose proof (b2r_row_new U U' j (drop_up M) r Hj HU' Ho) as Rn.
    assert (An : forall x, uact U' x (um U) == x j).
    { intros x. unfold uact. rewrite N, Rn. simpl ur_ent. apply single_act. exact Hj. }
    assert (F : forall x, ufeasible M U x <-> ufeasible M U' x).
    { intros x. unfold ufeasible. split; intros [R B].
      - split.
        + intros i Hi. rewrite Mm in Hi. destruct (Nat.eq_dec i (um U)) as [->|Ne].
          * unfold row_ok. rewrite Rn. simpl. rewrite An. destruct (B j Hj) as [_ [X|X]]; [contradiction|exact X].
          * apply (b2r_row_ok_old M U U' j (drop_up M) r Hj HU' Ho); [lia|]. apply R. lia.
        + intros k Hk. rewrite N in Hk. rewrite C. destruct (Nat.eqb k j) eqn:E.
          * apply Nat.eqb_eq in E. subst k. simpl. split; [exact (proj1 (B j Hj))|left; reflexivity].
          * exact (B k Hk).
      - split.
        + intros i Hi. apply (b2r_row_ok_old M U U' j (drop_up M) r Hj HU' Ho); [exact Hi|]. apply R. rewrite Mm. lia.
        + intros k Hk. destruct (Nat.eq_dec k j) as [->|Ne].
          * split.
            -- assert (Hk' : (j < un U')%nat) by (rewrite N; exact Hj). pose proof (proj1 (B j Hk')) as X. rewrite C, Nat.eqb_refl in X. exact X.
            -- right. assert (Hi : (um U < um U')%nat) by (rewrite Mm; lia). pose proof (R (um U) Hi) as X.
               unfold row_ok in X. rewrite Rn in X. simpl in X. rewrite An in X. exact X.
          * assert (Hk' : (k < un U')%nat) by (rewrite N; exact Hk). pose proof (B k Hk') as X. rewrite C in X.
            destruct (Nat.eqb k j) eqn:E; [apply Nat.eqb_eq in E; contradiction|exact X]. }
    pose proof (b2r_obj U U' j (drop_up M) r Hj HU' Ho) as O.
    constructor.
    + rewrite HU'. cbn [u_max xorb]. destruct (u_max U); reflexivity.
    + intros x Fx. split; [apply F; exact Fx|]. rewrite O. unfold vmap. ring.
    + intros x Fx. split; [apply F; exact Fx|]. rewrite <- O. unfold vinv. ring.
  - destruct (Qeq_bool (uc_lo (ucolj U j)) (- M)) eqn:EM; [discriminate|]. intros E. inversion E as [HU']. clear E.
    assert (NM : ~ uc_lo (ucolj U j) == - M) by (intros X; apply Qeq_bool_iff in X; congruence).
    set (r := {| ur_sense := SG; ur_rhs := uc_lo (ucolj U j); ur_range := 0; ur_ent := [(j, 1)] |}) in *.
    symmetry in HU'. rewrite <- HU'.
    assert (Ho : forall c, uc_obj (drop_lo M c) = uc_obj c) by reflexivity.
    pose proof (b2r_un U U' j (drop_lo M) r Hj HU' Ho) as N.
    pose proof (b2r_um U U' j (drop_lo M) r Hj HU' Ho) as Mm.
    pose proof (b2r_col U U' j (drop_lo M) r Hj HU' Ho) as C.
    pose proof (b2r_row_new U U' j (drop_lo M) r Hj HU' Ho) as Rn.
    assert (An : forall x, uact U' x (um U) == x j).
    { intros x. unfold uact. rewrite N, Rn. simpl ur_ent. apply single_act. exact Hj. }
    assert (F : forall x, ufeasible M U x <-> ufeasible M U' x).
    { intros x. unfold ufeasible. split; intros [R B].
      - split.
        + intros i Hi. rewrite Mm in Hi. destruct (Nat.eq_dec i (um U)) as [->|Ne].
          * unfold row_ok. rewrite Rn. simpl. rewrite An. destruct (B j Hj) as [[X|X] _]; [contradiction|exact X].
          * apply (b2r_row_ok_old M U U' j (drop_lo M) r Hj HU' Ho); [lia|]. apply R. lia.
        + intros k Hk. rewrite N in Hk. rewrite C. destruct (Nat.eqb k j) eqn:E.
          * apply Nat.eqb_eq in E. subst k. simpl. split; [left; reflexivity|exact (proj2 (B j Hj))].
          * exact (B k Hk).
      - split.
        + intros i Hi. apply (b2r_row_ok_old M U U' j (drop_lo M) r Hj HU' Ho); [exact Hi|]. apply R. rewrite Mm. lia.
        + intros k Hk. destruct (Nat.eq_dec k j) as [->|Ne].
          * split.
            -- right. assert (Hi : (um U < um U')%nat) by (rewrite Mm; lia). pose proof (R (um U) Hi) as X.
               unfold row_ok in X. rewrite Rn in X. simpl in X. rewrite An in X. exact X.
            -- assert (Hk' : (j < un U')%nat) by (rewrite N; exact Hj). pose proof (proj2 (B j Hk')) as X. rewrite C, Nat.eqb_refl in X. exact X.
          * assert (Hk' : (k < un U')%nat) by (rewrite N; exact Hk). pose proof (B k Hk') as X. rewrite C in X.
            destruct (Nat.eqb k j) eqn:E; [apply Nat.eqb_eq in E; contradiction|exact X]. }
    pose proof (b2r_obj U U' j (drop_lo M) r Hj HU' Ho) as O.
    constructor.
    + rewrite HU'. cbn [u_max xorb]. destruct (u_max U); reflexivity.
    + intros x Fx. split; [apply F; exact Fx|]. rewrite O. unfold vmap. ring.
    + intros x Fx. split; [apply F; exact Fx|]. rewrite <- O. unfold vinv. ring.
Qed.

(* well-formedness is preserved: the new row refers to an existing column *)
Lemma bound_to_row_wf M upper j U U' : bound_to_row M upper j U = Some U' -> wf_ulp U = true -> wf_ulp U' = true.
Proof.
  unfold bound_to_row. destruct (Nat.ltb_spec j (un U)) as [Hj|]; [|discriminate].
  assert (G : forall f r, ind_lt (un U) (ur_ent r) = true -> wf_ulp U = true ->
              wf_ulp {| u_max := u_max U; u_cols := map_nth_col f j (u_cols U); u_rows := u_rows U ++ [r] |} = true).
  { intros f r Hr W. unfold wf_ulp, un in *. simpl. rewrite map_nth_col_length. rewrite forallb_app. rewrite W. simpl. rewrite Hr. reflexivity. }
  assert (S1 : ind_lt (un U) [(j, 1)] = true).
  { simpl. apply Nat.ltb_lt in Hj. rewrite Hj. reflexivity. }
  destruct upper.
  - destruct (Qeq_bool (uc_up (ucolj U j)) M); [discriminate|]. intros E W. inversion E. apply G; assumption.
  - destruct (Qeq_bool (uc_lo (ucolj U j)) (- M)); [discriminate|]. intros E W. inversion E. apply G; assumption.
Qed.

Example bound_to_row_ex :
  let U := {| u_max := true; u_cols := [ {| uc_obj := 1; uc_lo := 0; uc_up := 4 |} ];
              u_rows := [ {| ur_sense := SL; ur_rhs := 10; ur_range := 0; ur_ent := [(O, 2)] |} ] |} in
  option_map (fun V => (map uc_up (u_cols V), length (u_rows V))) (bound_to_row 1000 true 0 U) = Some ([1000], 2%nat).
Proof. vm_compute. reflexivity. Qed.
