(* An LP has at most one of the three definitive natures, and at most one optimal
   value; unboundedness certificates are sound.  Together with the soundness of
   check_kkt / check_farkas this makes every certified classification THE truth. *)
From QSX Require Export LP.CertSound.
Local Open Scope Q_scope.

Section Unique.
  Variable I : infp.
  Variable P : ilp.

  Definition has_optimum (v : Q) : Prop := exists z, is_optimum I P z v.

  Theorem optimum_value_unique v w : has_optimum v -> has_optimum w -> v == w.
  Proof.
    intros (z1 & F1 & E1 & B1) (z2 & F2 & E2 & B2).
    pose proof (B1 z2 F2) as H1. pose proof (B2 z1 F1) as H2. unfold no_worse in *.
    destruct (i_max P); rewrite E2 in H1; rewrite E1 in H2; apply Qle_antisym; assumption.
  Qed.

  Theorem optimum_not_infeasible v : has_optimum v -> ~ infeasible I P.
  Proof. intros (z & F & _) H. exact (H z F). Qed.

  Theorem unbounded_not_infeasible : unbounded I P -> ~ infeasible I P.
  Proof. intros [(z & F) _] H. exact (H z F). Qed.

  Theorem optimum_not_unbounded v : has_optimum v -> ~ unbounded I P.
  Proof.
    intros (z & F & E & B) [_ U]. destruct (U v) as (z' & F' & Hlt).
    pose proof (B z' F') as H. unfold no_worse in H.
    destruct (i_max P); exact (Qlt_not_le _ _ Hlt H).
  Qed.
End Unique.

(* ---- rays -------------------------------------------------------------------- *)

Lemma rowact_lin P z d t i :
  rowact P (fun j => z j + t * d j) i == rowact P z i + t * rowact P d i.
Proof.
  unfold rowact. rewrite <- sumn_scale, <- sumn_add. apply sumn_ext. intros j _. ring.
Qed.

Lemma objval_lin P z d t :
  objval P (fun j => z j + t * d j) == objval P z + t * objval P d.
Proof.
  unfold objval. rewrite <- sumn_scale, <- sumn_add. apply sumn_ext. intros j _. ring.
Qed.

Theorem check_ray_sound I P z0 d : check_ray I P z0 d = true -> unbounded I P.
Proof.
  intros CK. unfold check_ray in CK. qb.
  repeat match goal with H : Nat.eqb _ _ = true |- _ => apply Nat.eqb_eq in H end.
  match goal with H : length z0 = ncols P |- _ => rename H into Lz end.
  match goal with H : length d = ncols P |- _ => rename H into Ld end.
  match goal with H : forallb2 (bound_ok I) _ _ = true |- _ => rename H into Hb end.
  match goal with H : forallb2 (ray_col_ok I) _ _ = true |- _ => rename H into Hr end.
  match goal with H : forallb (fun i => Qeq_bool (rowact_l _ z0 i) _) _ = true |- _ => rename H into Hrow end.
  match goal with H : forallb (fun i => Qeq_bool (rowact_l _ d i) 0) _ = true |- _ => rename H into Hrd end.
  match goal with H : (if i_max P then _ else _) = true |- _ => rename H into Hobj end.
  set (zf := qnth z0). set (df := qnth d).
  assert (Feas : forall t, 0 <= t -> feasible I P (fun j => zf j + t * df j)).
  { intros t Ht. split.
    - intros i Hi. rewrite rowact_lin.
      pose proof (forallb_seq _ _ Hrow i Hi) as E1. pose proof (forallb_seq _ _ Hrd i Hi) as E2.
      cbv beta in E1, E2. qb. rewrite rowact_l_ok in E1, E2 by assumption.
      fold zf in E1. fold df in E2. rewrite E1, E2. unfold rhs. ring.
    - intros j Hj. pose proof (forallb2_nth _ _ _ dcol 0 j Hb Hj) as B1.
      pose proof (forallb2_nth _ _ _ dcol 0 j Hr Hj) as B2.
      unfold bound_ok in B1. unfold ray_col_ok in B2. fold (col P j) in B1, B2.
      fold (qnth z0 j) in B1. fold (qnth d j) in B2. fold (zf j) in B1. fold (df j) in B2.
      apply andb_true_iff in B1. apply andb_true_iff in B2. destruct B1 as [B1l B1u]. destruct B2 as [B2l B2u].
      split.
      + apply orb_true_iff in B1l. apply orb_true_iff in B2l.
        destruct B1l as [B1l|B1l]; [left; exact B1l|]. destruct B2l as [B2l|B2l]; [left; exact B2l|].
        right. qb. nra.
      + apply orb_true_iff in B1u. apply orb_true_iff in B2u.
        destruct B1u as [B1u|B1u]; [left; exact B1u|]. destruct B2u as [B2u|B2u]; [left; exact B2u|].
        right. qb. nra. }
  split.
  - exists zf. assert (E : forall j, zf j + 0 * df j == zf j) by (intros; ring).
    destruct (Feas 0 (Qle_refl 0)) as [F1 F2]. split.
    + intros i Hi. rewrite <- (F1 i Hi). unfold rowact. apply sumn_ext. intros j _. rewrite E. reflexivity.
    + intros j Hj. destruct (F2 j Hj) as [A B]. rewrite E in A, B. split; assumption.
  - intros k. set (cz := objval P zf). set (cd := objval P df).
    assert (Ecd : objval_l (i_cols P) d == cd) by (apply objval_l_ok; assumption).
    destruct (i_max P) eqn:MX.
    + qb. rewrite Ecd in Hobj.
      set (t := Qabs ((k - cz) / cd) + 1).
      assert (Ht : 0 <= t) by (unfold t; pose proof (Qabs_nonneg ((k - cz) / cd)); lra).
      exists (fun j => zf j + t * df j). split; [apply Feas; exact Ht|].
      rewrite objval_lin. fold cz cd.
      assert (Hq : (k - cz) / cd <= Qabs ((k - cz) / cd)) by apply Qle_Qabs.
      assert (Hm : (k - cz) == ((k - cz) / cd) * cd) by (field; lra).
      unfold t. nra.
    + qb. rewrite Ecd in Hobj.
      set (t := Qabs ((cz - k) / (- cd)) + 1).
      assert (Ht : 0 <= t) by (unfold t; pose proof (Qabs_nonneg ((cz - k) / (- cd))); lra).
      exists (fun j => zf j + t * df j). split; [apply Feas; exact Ht|].
      rewrite objval_lin. fold cz cd.
      assert (Hq : (cz - k) / (- cd) <= Qabs ((cz - k) / (- cd))) by apply Qle_Qabs.
      assert (Hm : (cz - k) == ((cz - k) / (- cd)) * (- cd)) by (field; lra).
      unfold t. nra.
Qed.
