(* Control flow of QSexact_solver (exact.c) as a function of two oracles about
   which NOTHING is assumed:
     float_solve  level start_basis algo   the double (level 0) / mpf (levels 1..12)
                                           simplex, including the optional primal
                                           re-solve after INFEASIBLE
     basis_status basis                    QSexact_basis_status: the rational simplex
                                           started from that basis
   The exact tests opt_test / infeas_test are the models of OptTest.v. *)
From QSX Require Export LP.OptTest.
From Coq Require Import ZArith.
Local Open Scope Q_scope.

Inductive algo := PrimalS | DualS.

(* status codes are kept symbolic; the numeric values are tied to the source by
   Gen/Consts.v and only matter for printing *)
Inductive lpstat := StOptimal | StInfeasible | StUnbounded | StObjLimit | StUnsolved | StOther (code : Z) | StZero.

Definition is_opt (s : lpstat) : bool := match s with StOptimal => true | _ => false end.
Definition is_inf (s : lpstat) : bool := match s with StInfeasible => true | _ => false end.

Record fout := {
  f_fail : bool;                 (* *_ILLeditor_solve returned non-zero *)
  f_status : lpstat;             (* status after the optional QSopt_primal re-solve *)
  f_iter : nat;                  (* total iteration count *)
  f_x : list Q;                  (* x array converted to rationals (all internal columns) *)
  f_y : list Q;                  (* pi array converted to rationals *)
  f_basis : basis;               (* QSget_basis *)
  f_infeas : option (list Q)     (* QSget_infeas_array converted; None = the call failed *)
}.

Record eout := {
  e_fail : bool;                 (* any EGcallD failure inside/after QSexact_basis_status *)
  e_status : lpstat;
  e_x : list Q; e_y : list Q;    (* mpq_QSget_x_array / _pi_array *)
  e_infeas : option (list Q)     (* mpq_QSget_infeas_array; None = failed (EGcallD -> error) *)
}.

Inductive exit_label :=
| ExitTest (level : nat)         (* float answer passed the exact test *)
| ExitRetest (level : nat)       (* answer of the rational re-solve passed the exact test *)
| ExitObjLimit (level : nat)
| ExitError (level : nat)
| ExitLadderExhausted.

Record dres := {
  r_rval : bool;                 (* true = non-zero return value *)
  r_status : lpstat;
  r_sol : option sol;            (* cache + x,y handed out by optimal_output *)
  r_y : option (list Q);         (* y handed out by infeasible_output *)
  r_exit : exit_label
}.

Record dstate := {
  st_status : lpstat;
  st_last_status : lpstat;
  st_last_iter : nat;
  st_basis : option basis
}.

Section Driver.
  (* the two exact tests; instantiated below with the models of OptTest.v, kept
     abstract here so that recorded decision traces of the real driver can be
     replayed with table-driven tests *)
  Variable otest : basis -> list Q -> list Q -> option sol.
  Variable itest : list Q -> bool.
  Variable float_solve : nat -> option basis -> algo -> fout.
  Variable basis_status : basis -> eout.
  Variable ebasis : option basis.          (* caller basis, None when absent or nstruct = 0 *)
  Variable max_iter : nat.                 (* QS_EXACT_MAX_ITER *)

  (* what happens with the answer of one floating point solve; shared by the
     double stage and every mpf stage *)
  Definition handle (lvl : nat) (o : fout) (st : dstate) : dstate + dres :=
    match f_status o with
    | StOptimal =>
      match otest (f_basis o) (f_x o) (f_y o) with
      | Some s => inr {| r_rval := false; r_status := StOptimal; r_sol := Some s; r_y := None; r_exit := ExitTest lvl |}
      | None =>
        let e := basis_status (f_basis o) in
        if e_fail e then inr {| r_rval := true; r_status := e_status e; r_sol := None; r_y := None; r_exit := ExitError lvl |}
        else if is_opt (e_status e) then
          match otest (f_basis o) (e_x e) (e_y e) with
          | Some s => inr {| r_rval := false; r_status := StOptimal; r_sol := Some s; r_y := None; r_exit := ExitRetest lvl |}
          | None => inl {| st_status := StUnsolved; st_last_status := StUnsolved; st_last_iter := f_iter o;
                           st_basis := Some (f_basis o) |}
          end
        else inl {| st_status := e_status e; st_last_status := StOptimal; st_last_iter := f_iter o;
                    st_basis := Some (f_basis o) |}
      end
    | StInfeasible =>
      match f_infeas o with
      | None =>
        (* no certificate array: double stage goto MPF_PRECISION, mpf stage goto NEXT_PRECISION *)
        inl {| st_status := StInfeasible; st_last_status := StInfeasible; st_last_iter := f_iter o;
               st_basis := st_basis st |}
      | Some y =>
        if itest y
        then inr {| r_rval := false; r_status := StInfeasible; r_sol := None; r_y := Some y; r_exit := ExitTest lvl |}
        else
          let e := basis_status (f_basis o) in
          if e_fail e then inr {| r_rval := true; r_status := e_status e; r_sol := None; r_y := None; r_exit := ExitError lvl |}
          else if is_inf (e_status e) then
            match e_infeas e with
            | None => inr {| r_rval := true; r_status := StInfeasible; r_sol := None; r_y := None; r_exit := ExitError lvl |}
            | Some y' =>
              if itest y'
              then inr {| r_rval := false; r_status := StInfeasible; r_sol := None; r_y := Some y'; r_exit := ExitRetest lvl |}
              else inl {| st_status := StUnsolved; st_last_status := StUnsolved; st_last_iter := f_iter o;
                          st_basis := Some (f_basis o) |}
            end
          else inl {| st_status := e_status e; st_last_status := StInfeasible; st_last_iter := f_iter o;
                      st_basis := Some (f_basis o) |}
      end
    | StObjLimit =>
      inr {| r_rval := true; r_status := StObjLimit; r_sol := None; r_y := None; r_exit := ExitObjLimit lvl |}
    | other =>
      inl {| st_status := other; st_last_status := other; st_last_iter := f_iter o; st_basis := st_basis st |}
    end.

  Definition dbl_stage (a : algo) : dstate + dres :=
    let st0 := {| st_status := StZero; st_last_status := StZero; st_last_iter := O; st_basis := None |} in
    let o := float_solve O ebasis a in
    if f_fail o then inl st0 else handle O o st0.

  Definition mpf_stage (lvl : nat) (st : dstate) : dstate + dres :=
    let last := match st_last_iter st with O => StUnsolved | _ => st_last_status st end in
    let reuse := is_opt last || is_inf last in
    let start := if reuse then match st_basis st with Some b => Some b | None => ebasis end else None in
    let a := if reuse then match start with Some _ => DualS | None => PrimalS end else PrimalS in
    (* the kept basis is consumed (freed) when it is loaded *)
    let st' := {| st_status := st_status st; st_last_status := last; st_last_iter := st_last_iter st;
                  st_basis := if reuse then None else st_basis st |} in
    let o := float_solve lvl start a in
    if f_fail o then inl st' else handle lvl o st'.

  Fixpoint mpf_loop (lvls : list nat) (st : dstate) : dres :=
    match lvls with
    | [] =>
      (* every precision tried: OPTIMAL / INFEASIBLE left behind without certificate become UNSOLVED *)
      {| r_rval := false;
         r_status := if is_opt (st_status st) || is_inf (st_status st) then StUnsolved else st_status st;
         r_sol := None; r_y := None; r_exit := ExitLadderExhausted |}
    | l :: ls => match mpf_stage l st with inl st' => mpf_loop ls st' | inr r => r end
    end.

  Definition exact_solver_gen (a : algo) : dres :=
    match dbl_stage a with
    | inr r => r
    | inl st => mpf_loop (seq 1 max_iter) st
    end.
End Driver.

Definition exact_solver (M : Q) (P : ilp) (ns : nat) := exact_solver_gen (opt_test P ns) (infeas_test M P).
