(* C04 at model level: two runs of the exact driver under ANY two configurations
   (two arbitrary pairs of oracles, start algorithms, warm-start bases) cannot
   disagree on a certified answer. *)
From QSX Require Export LP.DriverSound LP.Unique.
Local Open Scope Q_scope.

Lemma feasible_lit_any I P z : feasible inf_none P z -> feasible I P z.
Proof.
  intros [Fr Fb]. split; [exact Fr|]. intros j Hj. destruct (Fb j Hj) as [[A|A] [B|B]];
    try discriminate. split; right; assumption.
Qed.

Section Agree.
  Variables (M : Q) (P : ilp) (ns : nat).
  Hypothesis W : wf_ilp P = true.
  Hypothesis WL : wf_logicals (skipn ns (i_cols P)) 0 = true.
  Variables (fs1 fs2 : nat -> option basis -> algo -> fout) (bs1 bs2 : basis -> eout).
  Variables (eb1 eb2 : option basis) (mi1 mi2 : nat) (a1 a2 : algo).
  Let r1 := exact_solver M P ns fs1 bs1 eb1 mi1 a1.
  Let r2 := exact_solver M P ns fs2 bs2 eb2 mi2 a2.

  Theorem optimal_values_agree :
    r_rval r1 = false -> r_status r1 = StOptimal -> r_rval r2 = false -> r_status r2 = StOptimal ->
    exists s1 s2, r_sol r1 = Some s1 /\ r_sol r2 = Some s2 /\ sval s1 == sval s2.
  Proof.
    intros H1 H2 H3 H4.
    destruct (driver_optimal_sound M P ns fs1 bs1 eb1 mi1 a1 H1 H2) as (s1 & B1 & p1 & d1 & E1 & T1).
    destruct (driver_optimal_sound M P ns fs2 bs2 eb2 mi2 a2 H3 H4) as (s2 & B2 & p2 & d2 & E2 & T2).
    exists s1, s2. split; [exact E1|]. split; [exact E2|].
    apply (optimum_value_unique inf_none P).
    - eexists. exact (opt_test_sound_lit P ns B1 p1 d1 s1 W WL T1).
    - eexists. exact (opt_test_sound_lit P ns B2 p2 d2 s2 W WL T2).
  Qed.

  Theorem optimal_infeasible_exclusive :
    r_rval r1 = false -> r_status r1 = StOptimal -> r_rval r2 = false -> r_status r2 = StInfeasible -> False.
  Proof.
    intros H1 H2 H3 H4.
    destruct (driver_optimal_sound M P ns fs1 bs1 eb1 mi1 a1 H1 H2) as (s1 & B1 & p1 & d1 & E1 & T1).
    destruct (driver_infeasible_sound M P ns fs2 bs2 eb2 mi2 a2 H3 H4) as (y & _ & T2).
    destruct (opt_test_sound_lit P ns B1 p1 d1 s1 W WL T1) as (F & _).
    exact (infeas_test_sound M P y W T2 _ (feasible_lit_any _ _ _ F)).
  Qed.
End Agree.
