(* The library's exact optimality test only accepts genuine certificates:
   opt_test P ns B ps ds = Some s  implies  check_kkt (literal bounds) on the
   clamped vectors the test stored in the cache; with no component on a
   sentinel bound also check_kkt for the reading "sentinel = no bound". *)
From QSX Require Export LP.OptTest LP.CertSound LP.User.
Local Open Scope Q_scope.

(* ---- small list facts ----------------------------------------------------- *)

Lemma forallb2_intro {A B} (f : A -> B -> bool) l m da db :
  length l = length m -> (forall j, (j < length l)%nat -> f (nth j l da) (nth j m db) = true) ->
  forallb2 f l m = true.
Proof.
  revert m; induction l as [|a l IH]; intros [|b m] HL H; simpl in *; try discriminate; [reflexivity|].
  apply andb_true_iff. split.
  - apply (H O). lia.
  - apply IH; [lia|]. intros j Hj. apply (H (S j)). lia.
Qed.

Lemma forallb_seq_intro f n : (forall i, (i < n)%nat -> f i = true) -> forallb f (seq 0 n) = true.
Proof. intros H. apply forallb_forall. intros i Hi. apply in_seq in Hi. apply H. lia. Qed.

Lemma qsum_map_ext {A} (f g : A -> Q) l : (forall c, In c l -> f c == g c) -> qsum (map f l) == qsum (map g l).
Proof.
  induction l as [|a l IH]; intros H; [reflexivity|]. cbn [map qsum fold_right]. rarith.
  rewrite (H a) by (left; reflexivity). apply Qplus_comp; [reflexivity|]. apply IH.
  intros c Hc. apply H. right. exact Hc.
Qed.

Lemma set_vals_spec f cs sts vs r : set_vals f cs sts vs = Some r ->
  length r = length cs /\ length vs = length cs /\
  forall j, (j < length cs)%nat -> f (nth j cs dcol) (nth j sts BOther) (nth j vs 0) = Some (nth j r 0).
Proof.
  revert sts vs r; induction cs as [|c cs IH]; intros [|st sts] [|v vs] r H; simpl in H; try discriminate.
  - inversion H. repeat split; intros; simpl in *; lia.
  - destruct (f c st v) as [a|] eqn:E; [|discriminate].
    destruct (set_vals f cs sts vs) as [r'|] eqn:E'; [|discriminate].
    inversion H; subst. destruct (IH _ _ _ E') as (L1 & L2 & N). simpl. repeat split; try lia.
    intros [|j] Hj; [exact E|]. apply N. lia.
Qed.

Lemma clamp_bounds lo up v : lo <= up -> lo <= clamp lo up v /\ clamp lo up v <= up.
Proof.
  intros H. unfold clamp. destruct (Qltb up v) eqn:E1.
  - split; [exact H|apply Qle_refl].
  - destruct (Qltb v lo) eqn:E2.
    + split; [apply Qle_refl|exact H].
    + apply Qltb_false in E1. apply Qltb_false in E2. split; assumption.
Qed.

Lemma set_struct_bounds c st v a : set_struct c st v = Some a -> ic_lo c <= a /\ a <= ic_up c.
Proof.
  unfold set_struct. destruct (Qltb (ic_up c) (ic_lo c)) eqn:E; [discriminate|].
  apply Qltb_false in E. destruct st; intros H; inversion H; subst;
    try (apply clamp_bounds; exact E); split; try apply Qle_refl; exact E.
Qed.

(* ---- the row loop ---------------------------------------------------------- *)

Lemma fix_slacks_spec lcols : forall rst s0 rhs act i0 s,
  fix_slacks lcols rst s0 rhs act i0 = Some s ->
  length s = length lcols /\ length rhs = length lcols /\
  forall k, (k < length lcols)%nat ->
    exists i d, ic_ent (nth k lcols dcol) = [(i, d)] /\
      act (i0 + k)%nat + d * nth k s 0 == nth k rhs 0 /\
      ic_lo (nth k lcols dcol) <= nth k s 0 /\ nth k s 0 <= ic_up (nth k lcols dcol).
Proof.
  induction lcols as [|c cs IH]; intros [|st sts] [|v vs] [|b bs] act i0 s H; simpl in H; try discriminate.
  - inversion H. repeat split; intros; simpl in *; lia.
  - destruct (ic_ent c) as [|[i d] [|? ?]] eqn:Ee; try discriminate.
    set (num2 := rsub b (act i0)) in *.
    destruct (match st with
              | BBasic => if Qeq_bool d 0 then None else Some (rdiv num2 d)
              | _ => if Qeq_bool (rmul v d) num2 then Some v else None end) as [w|] eqn:Ew; [|discriminate].
    destruct (Qltb w (ic_lo c) || Qltb (ic_up c) w) eqn:Eb; [discriminate|].
    destruct (fix_slacks cs sts vs bs act (S i0)) as [r|] eqn:Er; [|discriminate].
    inversion H; subst s. destruct (IH _ _ _ _ _ _ Er) as (L1 & L2 & N).
    apply orb_false_iff in Eb. destruct Eb as [Eb1 Eb2]. apply Qltb_false in Eb1. apply Qltb_false in Eb2.
    simpl. repeat split; try lia.
    intros [|k] Hk.
    + exists i, d. split; [exact Ee|]. split; [|split; assumption].
      rewrite Nat.add_0_r. simpl.
      assert (Hw : d * w == num2).
      { destruct st; try (destruct (Qeq_bool (rmul v d) num2) eqn:E; [|discriminate];
                          inversion Ew; subst w; apply Qeq_bool_iff in E; rewrite rmul_ok in E; rewrite <- E; ring).
        destruct (Qeq_bool d 0) eqn:E0; [discriminate|]. inversion Ew; subst w.
        rewrite rdiv_ok. assert (~ d == 0) by (intros C; apply Qeq_bool_iff in C; congruence). field. assumption. }
      rewrite Hw. unfold num2. rewrite rsub_ok. ring.
    + destruct (N k ltac:(lia)) as (i' & d' & E1 & E2 & E3 & E4).
      exists i', d'. split; [exact E1|]. split; [|split; assumption].
      replace (i0 + S k)%nat with (S i0 + k)%nat by lia. exact E2.
Qed.

(* activity of a block of singleton columns sitting in rows i0, i0+1, ... *)
Lemma rowact_l_logicals lcols : forall s i0 i,
  wf_logicals lcols i0 = true -> length s = length lcols ->
  rowact_l lcols s i ==
    if (Nat.leb i0 i && Nat.ltb i (i0 + length lcols))%bool
    then coefAt (ic_ent (nth (i - i0) lcols dcol)) i * nth (i - i0) s 0 else 0.
Proof.
  induction lcols as [|c cs IH]; intros [|v vs] i0 i W L; simpl in L; try discriminate.
  - simpl. destruct (Nat.leb i0 i && Nat.ltb i (i0 + 0))%bool eqn:E; [|reflexivity].
    apply andb_true_iff in E. destruct E as [E1 E2]. apply Nat.leb_le in E1. apply Nat.ltb_lt in E2. lia.
  - cbn [wf_logicals] in W. apply andb_true_iff in W. destruct W as [W1 W2].
    destruct (ic_ent c) as [|[k d] [|? ?]] eqn:Ee; try discriminate. apply Nat.eqb_eq in W1. subst k.
    cbn [rowact_l]. rarith. rewrite (IH vs (S i0) i W2) by lia. rewrite Ee. cbn [coefAt length].
    destruct (Nat.eqb_spec i0 i) as [->|Hne].
    + rewrite Nat.leb_refl. replace (Nat.ltb i (i + S (length cs))) with true by (symmetry; apply Nat.ltb_lt; lia).
      replace (Nat.leb (S i) i) with false by (symmetry; apply Nat.leb_gt; lia).
      rewrite Nat.sub_diag. simpl. rewrite Ee. simpl. rewrite Nat.eqb_refl. ring.
    + destruct (Nat.leb i0 i) eqn:E1.
      * apply Nat.leb_le in E1. replace (Nat.leb (S i0) i) with true by (symmetry; apply Nat.leb_le; lia).
        replace (i0 + S (length cs))%nat with (S i0 + length cs)%nat by lia.
        rewrite !andb_true_l. destruct (Nat.ltb i (S i0 + length cs)) eqn:E2.
        -- replace (i - i0)%nat with (S (i - S i0)) by lia. cbn [nth]. ring.
        -- ring.
      * apply Nat.leb_gt in E1. replace (Nat.leb (S i0) i) with false by (symmetry; apply Nat.leb_gt; lia).
        simpl. ring.
Qed.

Lemma rowact_l_app a : forall b x s i, length x = length a ->
  rowact_l (a ++ b) (x ++ s) i == rowact_l a x i + rowact_l b s i.
Proof.
  induction a as [|c a IH]; intros b [|v x] s i L; simpl in L; try discriminate.
  - simpl. ring.
  - cbn [app rowact_l]. rarith. rewrite IH by lia. ring.
Qed.

Lemma wf_logicals_idx l : forall i0 j, wf_logicals l i0 = true -> (j < length l)%nat ->
  forall k d, ic_ent (nth j l dcol) = [(k, d)] -> k = (i0 + j)%nat.
Proof.
  induction l as [|c l IH]; intros i0 j Wl Hj k0 d0 Ee; simpl in Hj; [lia|].
  cbn [wf_logicals] in Wl. apply andb_true_iff in Wl. destruct Wl as [W1 W2].
  destruct j as [|j].
  - simpl in Ee. rewrite Ee in W1. apply Nat.eqb_eq in W1. lia.
  - simpl in Ee. rewrite (IH (S i0) j W2 ltac:(lia) k0 d0 Ee). lia.
Qed.

(* ---- main theorem ----------------------------------------------------------- *)

Section OptTestSound.
  Variables (P : ilp) (ns : nat) (B : basis) (ps ds : list Q) (s : sol).
  Hypothesis W : wf_ilp P = true.
  Hypothesis WL : wf_logicals (skipn ns (i_cols P)) 0 = true.
  Hypothesis T : opt_test P ns B ps ds = Some s.

  Let scols := firstn ns (i_cols P).
  Let lcols := skipn ns (i_cols P).
  Let z := sx s ++ sslack s.

  Lemma opt_test_parts :
    ncols P = (ns + nrows P)%nat /\ length ds = nrows P /\ spi s = ds /\
    length (sx s) = ns /\ length (sslack s) = nrows P /\ length scols = ns /\ length lcols = nrows P /\
    (forall j, (j < ns)%nat -> ic_lo (nth j scols dcol) <= nth j (sx s) 0 /\ nth j (sx s) 0 <= ic_up (nth j scols dcol)) /\
    (forall k, (k < nrows P)%nat -> exists i d, ic_ent (nth k lcols dcol) = [(i, d)] /\
        rowact_l scols (sx s) k + d * nth k (sslack s) 0 == nth k (i_rhs P) 0 /\
        ic_lo (nth k lcols dcol) <= nth k (sslack s) 0 /\ nth k (sslack s) 0 <= ic_up (nth k lcols dcol)) /\
    forallb2 (fun c v => cs_ok (i_max P) c v (dz_l ds c)) (i_cols P) z = true /\
    sval s = objval_l (i_cols P) z /\
    objval_l (i_cols P) z ==
      radd (dot_l ds (i_rhs P)) (qsum (map (fun c => dterm_c (i_max P) c (dz_l ds c)) (i_cols P))).
  Proof.
    unfold opt_test in T. fold scols lcols in T.
    destruct (negb _) eqn:G in T; [discriminate|]. apply negb_false_iff in G. qb.
    repeat match goal with H : Nat.eqb _ _ = true |- _ => apply Nat.eqb_eq in H end.
    destruct (set_vals set_struct scols (cstat B) (firstn ns ps)) as [x|] eqn:E1; [|discriminate].
    destruct (set_vals set_logical lcols (rstat B) (skipn ns ps)) as [s0|] eqn:E2; [|discriminate].
    destruct (fix_slacks lcols (rstat B) s0 (i_rhs P) (rowact_l scols x) 0) as [sl|] eqn:E3; [|discriminate].
    destruct (forallb2 _ (i_cols P) (x ++ sl)) eqn:E4; [|discriminate].
    destruct (Qeq_bool _ _) eqn:E5 in T; [|discriminate].
    inversion T; subst s; clear T. cbn [sx spi sslack sval src] in *.
    destruct (set_vals_spec _ _ _ _ _ E1) as (Lx & _ & Nx).
    destruct (fix_slacks_spec _ _ _ _ _ _ _ E3) as (Ls & Lr & Ns).
    assert (Lsc : length scols = ns).
    { unfold scols. rewrite firstn_length. unfold ncols in *. lia. }
    assert (Llc : length lcols = nrows P).
    { unfold lcols. rewrite skipn_length. unfold ncols in *. lia. }
    repeat split; try assumption; try lia.
    - destruct (set_struct_bounds _ _ _ _ (Nx j ltac:(lia))) as [A1 _]. exact A1.
    - destruct (set_struct_bounds _ _ _ _ (Nx j ltac:(lia))) as [_ A2]. exact A2.
    - intros k Hk. destruct (Ns k ltac:(lia)) as (i & d & A1 & A2 & A3 & A4).
      exists i, d. simpl in A2. repeat split; assumption.
    - apply Qeq_bool_iff in E5. exact E5.
  Qed.

  Lemma cols_split : i_cols P = scols ++ lcols.
  Proof. unfold scols, lcols. symmetry. apply firstn_skipn. Qed.

  Lemma z_nth_struct j : (j < ns)%nat -> nth j z 0 = nth j (sx s) 0 /\ col P j = nth j scols dcol.
  Proof.
    intros Hj. destruct opt_test_parts as (_ & _ & _ & Lx & _ & Lsc & _).
    unfold z, col. rewrite cols_split. rewrite !app_nth1 by lia. split; reflexivity.
  Qed.

  Lemma z_nth_log k : (k < nrows P)%nat ->
    nth (ns + k) z 0 = nth k (sslack s) 0 /\ col P (ns + k) = nth k lcols dcol.
  Proof.
    intros Hk. destruct opt_test_parts as (_ & _ & _ & Lx & _ & Lsc & _).
    unfold z, col. rewrite cols_split. rewrite !app_nth2 by lia.
    replace (ns + k - length (sx s))%nat with k by lia.
    replace (ns + k - length scols)%nat with k by lia. split; reflexivity.
  Qed.

  Lemma opt_test_bounds j : (j < ncols P)%nat ->
    ic_lo (col P j) <= nth j z 0 /\ nth j z 0 <= ic_up (col P j).
  Proof.
    intros Hj. destruct opt_test_parts as (Nc & _ & _ & _ & _ & _ & _ & Bs & Bl & _).
    destruct (Nat.lt_ge_cases j ns) as [H|H].
    - destruct (z_nth_struct j H) as [-> ->]. apply Bs. exact H.
    - replace j with (ns + (j - ns))%nat by lia.
      destruct (z_nth_log (j - ns) ltac:(lia)) as [-> ->].
      destruct (Bl (j - ns)%nat ltac:(lia)) as (i & d & _ & _ & A3 & A4). split; assumption.
  Qed.

  Lemma opt_test_rows i : (i < nrows P)%nat -> rowact_l (i_cols P) z i == nth i (i_rhs P) 0.
  Proof.
    intros Hi. destruct opt_test_parts as (Nc & _ & _ & Lx & Lsl & Lsc & Llc & _ & Bl & _).
    unfold z. rewrite cols_split. rewrite rowact_l_app by lia.
    rewrite (rowact_l_logicals lcols (sslack s) 0 i WL) by lia.
    rewrite Llc. simpl Nat.leb. rewrite Nat.add_0_l.
    replace (Nat.ltb i (nrows P)) with true by (symmetry; apply Nat.ltb_lt; exact Hi).
    simpl andb. rewrite Nat.sub_0_r.
    destruct (Bl i Hi) as (k & d & E & A & _).
    (* the single entry sits in row i *)
    assert (Hk : coefAt (ic_ent (nth i lcols dcol)) i == d).
    { rewrite E. rewrite (wf_logicals_idx lcols O i WL ltac:(lia) k d E). simpl. rewrite Nat.eqb_refl. ring. }
    rewrite Hk. exact A.
  Qed.

  Lemma cs_dual_ok c v d : cs_ok (i_max P) c v d = true -> dual_ok inf_none (i_max P) c v d = true.
  Proof.
    unfold cs_ok, dual_ok, pushes_lo, pushes_up. cbn [inflo infup inf_none negb andb].
    intros H. apply andb_true_iff in H. destruct H as [H1 H2].
    apply andb_true_iff. split.
    - destruct (if i_max P then Qltb d 0 else Qltb 0 d) eqn:E; [|reflexivity]. simpl.
      apply Qeq_bool_iff in H1. rewrite rmul_ok, rsub_ok in H1. apply Qeq_bool_iff.
      assert (Hd : ~ d == 0).
      { destruct (i_max P); apply Qltb_lt in E; intros C; rewrite C in E; exact (Qlt_irrefl _ E). }
      destruct (Qmult_integral _ _ H1) as [A|A]; [|contradiction]. lra.
    - destruct (if i_max P then Qltb 0 d else Qltb d 0) eqn:E; [|reflexivity]. simpl.
      apply Qeq_bool_iff in H2. rewrite rmul_ok, rsub_ok in H2. apply Qeq_bool_iff.
      assert (Hd : ~ d == 0).
      { destruct (i_max P); apply Qltb_lt in E; intros C; rewrite C in E; exact (Qlt_irrefl _ E). }
      destruct (Qmult_integral _ _ H2) as [A|A]; [|contradiction]. lra.
  Qed.

  Lemma dterm_eq c d : dterm_c (i_max P) c d == dual_term (i_max P) c d.
  Proof.
    unfold dterm_c, dual_term, pushes_lo.
    destruct (if i_max P then Qltb d 0 else Qltb 0 d) eqn:E1; [reflexivity|].
    destruct (if i_max P then Qltb 0 d else Qltb d 0) eqn:E2; [reflexivity|].
    rewrite rmul_ok.
    assert (d == 0).
    { destruct (i_max P); apply Qltb_false in E1; apply Qltb_false in E2; apply Qle_antisym; assumption. }
    rewrite H. ring.
  Qed.

  Theorem opt_test_kkt_lit : check_kkt inf_none P z (spi s) (sval s) = true.
  Proof.
    destruct opt_test_parts as (Nc & Ld & Epi & Lx & Lsl & Lsc & Llc & _ & _ & CS & Ev & Eobj).
    assert (Lz : length z = ncols P) by (unfold z; rewrite app_length; lia).
    unfold check_kkt. rewrite W, Epi. simpl andb.
    rewrite Lz, Ld, !Nat.eqb_refl. simpl andb.
    repeat (apply andb_true_iff; split).
    - apply forallb_seq_intro. intros i Hi. apply Qeq_bool_iff. apply opt_test_rows. exact Hi.
    - apply (forallb2_intro _ _ _ dcol 0); [unfold ncols in Lz; lia|].
      intros j Hj. unfold bound_ok. cbn [inflo infup inf_none orb].
      destruct (opt_test_bounds j Hj) as [A1 A2]. fold (col P j).
      apply andb_true_iff. split; apply Qle_bool_iff; assumption.
    - apply (forallb2_intro _ _ _ dcol 0); [unfold ncols in Lz; lia|].
      intros j Hj. apply cs_dual_ok.
      exact (forallb2_nth _ _ _ dcol 0 j CS Hj).
    - apply Qeq_bool_iff. rewrite Ev. reflexivity.
    - apply Qeq_bool_iff. rewrite Ev, Eobj. rewrite !radd_ok. apply Qplus_comp; [reflexivity|].
      apply qsum_map_ext. intros c _. symmetry. apply dterm_eq.
  Qed.

  Corollary opt_test_sound_lit : is_optimum inf_none P (qnth z) (sval s).
  Proof. apply (check_kkt_sound inf_none P z (spi s) (sval s)). exact opt_test_kkt_lit. Qed.
End OptTestSound.

Theorem opt_test_sound_inf M P ns B ps ds s :
  wf_ilp P = true -> wf_logicals (skipn ns (i_cols P)) 0 = true ->
  opt_test P ns B ps ds = Some s ->
  no_sentinel M P (sx s ++ sslack s) = true ->
  is_optimum (inf_sentinel M) P (qnth (sx s ++ sslack s)) (sval s).
Proof.
  intros W WL T NS. apply (check_kkt_sound (inf_sentinel M) P _ (spi s) (sval s)).
  apply kkt_lit_to_inf; [|exact NS]. exact (opt_test_kkt_lit P ns B ps ds s W WL T).
Qed.

(* ---- the infeasibility test is the Farkas checker ---------------------------- *)

Theorem infeas_test_farkas M P y :
  wf_ilp P = true -> infeas_test M P y = true -> check_farkas (inf_sentinel M) P y = true.
Proof.
  intros W H. unfold infeas_test in H. unfold check_farkas.
  apply andb_true_iff in H. destruct H as [H H3]. apply andb_true_iff in H. destruct H as [H1 H2].
  rewrite W, H1. simpl andb. apply andb_true_iff. split.
  - rewrite forallb_forall in *. intros c Hc. pose proof (H2 c Hc) as E.
    unfold inf_col_ok in E. unfold farkas_col_ok. cbn [inflo infup inf_sentinel].
    set (r := - dot_sparse (ic_ent c) y) in *.
    apply andb_true_iff in E. destruct E as [E1 E2].
    apply andb_true_iff. split.
    + destruct (Qltb r 0) eqn:Er; [|reflexivity]. simpl.
      destruct (Qeq_bool (ic_up c) M); [|reflexivity]. simpl in E1.
      apply negb_true_iff in E1. apply negb_false_iff in E1. apply Qeq_bool_iff in E1.
      apply Qltb_lt in Er. rewrite E1 in Er. exfalso. exact (Qlt_irrefl _ Er).
    + destruct (Qltb 0 r) eqn:Er; [|reflexivity]. simpl.
      destruct (Qeq_bool (ic_lo c) (- M)); [|reflexivity]. simpl in E2.
      destruct (Qltb r 0) eqn:Er2.
      * apply Qltb_lt in Er. apply Qltb_lt in Er2. exfalso. exact (Qlt_irrefl _ (Qlt_trans _ _ _ Er Er2)).
      * apply negb_true_iff in E2. apply negb_false_iff in E2. apply Qeq_bool_iff in E2.
        apply Qltb_lt in Er. rewrite E2 in Er. exfalso. exact (Qlt_irrefl _ Er).
  - exact H3.
Qed.

Corollary infeas_test_sound M P y :
  wf_ilp P = true -> infeas_test M P y = true -> infeasible (inf_sentinel M) P.
Proof. intros W H. apply (check_farkas_sound _ _ y). apply infeas_test_farkas; assumption. Qed.

(* ---- non-vacuity: the premises of the theorems above are satisfiable ---------- *)
(* max 3x + 2y + 4z,  3x + 2y + z <= 12,  5y + 3z <= 10,  x,y,z >= 0  (the LP of the repository's test) *)
Definition Mx : Q := 1000000 # 1.
Definition U_ex : ulp :=
  {| u_max := true;
     u_cols := [ {| uc_obj := 3; uc_lo := 0; uc_up := Mx |}; {| uc_obj := 2; uc_lo := 0; uc_up := Mx |};
                 {| uc_obj := 4; uc_lo := 0; uc_up := Mx |} ];
     u_rows := [ {| ur_sense := SL; ur_rhs := 12; ur_range := 0; ur_ent := [(0%nat, 3); (1%nat, 2); (2%nat, 1)] |};
                 {| ur_sense := SL; ur_rhs := 10; ur_range := 0; ur_ent := [(1%nat, 5); (2%nat, 3)] |} ] |}.
Definition B_ex : basis := {| cstat := [BBasic; BLower; BBasic]; rstat := [BLower; BLower] |}.

Example opt_test_accepts :
  exists s, opt_test (to_internal Mx U_ex) 3 B_ex [26 # 9; 0; 10 # 3; 0; 0] [1; 1] = Some s /\
            Qeq_bool (sval s) 22 = true /\ no_sentinel Mx (to_internal Mx U_ex) (sx s ++ sslack s) = true.
Proof. eexists. split; [vm_compute; reflexivity|]. split; vm_compute; reflexivity. Qed.

(* a perturbed primal point is rejected *)
Example opt_test_rejects :
  opt_test (to_internal Mx U_ex) 3 B_ex [3; 0; 10 # 3; 0; 0] [1; 1] = None.
Proof. vm_compute. reflexivity. Qed.

(* a genuine Farkas vector is accepted: x + y <= 1 and x + y >= 2 with x, y >= 0 *)
Definition U_inf : ulp :=
  {| u_max := false;
     u_cols := [ {| uc_obj := 1; uc_lo := 0; uc_up := Mx |}; {| uc_obj := 1; uc_lo := 0; uc_up := Mx |} ];
     u_rows := [ {| ur_sense := SL; ur_rhs := 1; ur_range := 0; ur_ent := [(0%nat, 1); (1%nat, 1)] |};
                 {| ur_sense := SG; ur_rhs := 2; ur_range := 0; ur_ent := [(0%nat, 1); (1%nat, 1)] |} ] |}.
Example infeas_test_accepts : infeas_test Mx (to_internal Mx U_inf) [-1; 1] = true.
Proof. vm_compute. reflexivity. Qed.
Example infeas_test_rejects : infeas_test Mx (to_internal Mx U_inf) [1; 1] = false.
Proof. vm_compute. reflexivity. Qed.
