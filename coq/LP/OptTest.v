(* Model of the library's own exact acceptance tests (exact.c):
     QSexact_optimal_test      -> opt_test
     QSexact_infeasible_test   -> infeas_test
   over the normalised internal form (structural columns first, then one logical
   per row in row order).  Arrays become lists, `goto CLEANUP` with rval = 0
   becomes None; nothing else is changed: clamping of basic/free columns,
   non-basic columns set to their bound, recomputation of basic logicals by
   division, equality test for non-basic rows, bound test of logicals,
   complementary slackness products, p_obj = d_obj, cache contents. *)
From QSX Require Export LP.Cert.
Local Open Scope Q_scope.

Inductive bstat := BLower | BBasic | BUpper | BFree | BOther.
Record basis := { cstat : list bstat; rstat : list bstat }.
Record sol := { sx : list Q; spi : list Q; src : list Q; sslack : list Q; sval : Q }.

(* mpq_cmp (p, up) > 0 -> up ; else mpq_cmp (p, lo) < 0 -> lo *)
Definition clamp (lo up v : Q) : Q := if Qltb up v then up else if Qltb v lo then lo else v.

Definition set_struct (c : icol) (st : bstat) (v : Q) : option Q :=
  if Qltb (ic_up c) (ic_lo c) then None else
  match st with
  | BFree | BBasic => Some (clamp (ic_lo c) (ic_up c) v)
  | BUpper => Some (ic_up c)
  | BLower => Some (ic_lo c)
  | BOther => None
  end.

Definition set_logical (c : icol) (st : bstat) (v : Q) : option Q :=
  if Qltb (ic_up c) (ic_lo c) then None else
  match st with
  | BBasic => Some (clamp (ic_lo c) (ic_up c) v)
  | BUpper => Some (ic_up c)
  | BLower => Some (ic_lo c)
  | BFree | BOther => None
  end.

Fixpoint set_vals (f : icol -> bstat -> Q -> option Q) (cs : list icol) (sts : list bstat) (vs : list Q)
  : option (list Q) :=
  match cs, sts, vs with
  | c :: cs', st :: sts', v :: vs' =>
    match f c st v, set_vals f cs' sts' vs' with
    | Some a, Some r => Some (a :: r)
    | _, _ => None
    end
  | [], [], [] => Some []
  | _, _, _ => None
  end.

(* second loop over the rows: basic logicals are recomputed, non-basic ones must
   satisfy their row exactly; then the bounds of the logical are tested *)
Fixpoint fix_slacks (lcols : list icol) (rst : list bstat) (s0 rhs : list Q) (act : nat -> Q) (i : nat)
  : option (list Q) :=
  match lcols, rst, s0, rhs with
  | c :: cs, st :: sts, v :: vs, b :: bs =>
    match ic_ent c with
    | [(_, d)] =>                                    (* EXIT (matcnt != 1, "Imposible!") *)
      let num2 := rsub b (act i) in
      let sv := match st with
                | BBasic => if Qeq_bool d 0 then None (* mpq_div by zero *) else Some (rdiv num2 d)
                | _ => if Qeq_bool (rmul v d) num2 then Some v else None
                end in
      match sv with
      | Some w =>
        if Qltb w (ic_lo c) || Qltb (ic_up c) w then None
        else match fix_slacks cs sts vs bs act (S i) with
             | Some r => Some (w :: r)
             | None => None
             end
      | None => None
      end
    | _ => None
    end
  | [], [], [], [] => Some []
  | _, _, _, _ => None
  end.

Definition pushes_lo (mx : bool) (d : Q) : bool := if mx then Qltb d 0 else Qltb 0 d.
Definition pushes_up (mx : bool) (d : Q) : bool := if mx then Qltb 0 d else Qltb d 0.

(* complementary slackness products of the C code *)
Definition cs_ok (mx : bool) (c : icol) (v d : Q) : bool :=
  (if pushes_lo mx d then Qeq_bool (rmul (rsub v (ic_lo c)) d) 0 else true) &&
  (if pushes_up mx d then Qeq_bool (rmul (rsub v (ic_up c)) d) 0 else true).

Definition dterm_c (mx : bool) (c : icol) (d : Q) : Q :=
  if pushes_lo mx d then rmul d (ic_lo c) else rmul d (ic_up c).

Definition is_basic (s : bstat) : bool := match s with BBasic => true | _ => false end.
(* qsbasis_to_illbasis: the number of basic entries must equal the number of rows *)
Definition count_basic (B : basis) : nat :=
  length (filter is_basic (cstat B)) + length (filter is_basic (rstat B)).

Definition opt_test (P : ilp) (ns : nat) (B : basis) (ps ds : list Q) : option sol :=
  let m := nrows P in
  let scols := firstn ns (i_cols P) in
  let lcols := skipn ns (i_cols P) in
  if negb (Nat.eqb (length (cstat B)) ns && Nat.eqb (length (rstat B)) m && Nat.eqb (count_basic B) m &&
           Nat.eqb (ncols P) (ns + m) && Nat.eqb (length ps) (ns + m) && Nat.eqb (length ds) m)
  then None else
  match set_vals set_struct scols (cstat B) (firstn ns ps),
        set_vals set_logical lcols (rstat B) (skipn ns ps) with
  | Some x, Some s0 =>
    match fix_slacks lcols (rstat B) s0 (i_rhs P) (rowact_l scols x) 0 with
    | Some s =>
      let z := x ++ s in
      if forallb2 (fun c v => cs_ok (i_max P) c v (dz_l ds c)) (i_cols P) z then
        let p_obj := objval_l (i_cols P) z in
        let d_obj := radd (dot_l ds (i_rhs P))
                          (qsum (map (fun c => dterm_c (i_max P) c (dz_l ds c)) (i_cols P))) in
        if Qeq_bool p_obj d_obj then
          Some {| sx := x; spi := ds; src := map (dz_l ds) scols; sslack := s; sval := p_obj |}
        else None
      else None
    | None => None
    end
  | _, _ => None
  end.

(* every logical column is a singleton sitting in its own row *)
Fixpoint wf_logicals (lcols : list icol) (i : nat) : bool :=
  match lcols with
  | [] => true
  | c :: cs => match ic_ent c with [(k, _)] => Nat.eqb k i | _ => false end && wf_logicals cs (S i)
  end.

(* ---- QSexact_infeasible_test ------------------------------------------------ *)
(* per column: num1 = -(A^T y)_j ; < 0 goes to du, otherwise to dl; a non-zero du
   (dl) on an infinite upper (lower) bound fails; d_obj = y.b + dl*lo + du*up > 0 *)
Definition inf_col_ok (M : Q) (c : icol) (y : list Q) : bool :=
  let r := Qopp (dot_sparse (ic_ent c) y) in
  let du := if Qltb r 0 then r else 0 in
  let dl := if Qltb r 0 then 0 else r in
  negb (Qeq_bool (ic_up c) M && negb (Qeq_bool du 0)) &&
  negb (Qeq_bool (ic_lo c) (- M) && negb (Qeq_bool dl 0)).

Definition inf_col_term (c : icol) (y : list Q) : Q :=
  let r := Qopp (dot_sparse (ic_ent c) y) in
  if Qltb r 0 then rmul r (ic_up c) else rmul r (ic_lo c).

Definition infeas_test (M : Q) (P : ilp) (y : list Q) : bool :=
  Nat.eqb (length y) (nrows P) &&
  forallb (fun c => inf_col_ok M c y) (i_cols P) &&
  Qltb 0 (radd (dot_l y (i_rhs P)) (qsum (map (fun c => inf_col_term c y) (i_cols P)))).
