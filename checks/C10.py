#!/usr/bin/env python3
"""C10  Files are read as the exact problem their text denotes."""
import sys, os
sys.path.insert(0, os.path.dirname(os.path.abspath(__file__)))
from io_common import *
import io_gen as G


def probe_variant():
    """which number scanner does the library have: 0 = as found (p/0 raises SIGFPE, '/' may start a literal), 1 = patched"""
    rc, out, err = run_io("CASE p\nNUMF 1/0\nNUMF /1\n")
    l = [x.split() for x in out.splitlines() if x.startswith("NUM ")]
    if len(l) == 2 and l[0][1] == "CRASH":
        return 0
    if len(l) == 2 and l[0][1] == "0" and l[1][1] == "0":
        return 1
    return None


def part_numbers(ck, variant):
    """Num model vs mpq_EGlpNumReadStrXc (value + consumed length) on grammar literals and one-edit neighbours;
    literals also against their independently computed value"""
    rng = ck.rng
    n = 30000 if ck.thorough() else 2500
    strs = []
    for i in range(n):
        t, v = G.gen_lit(rng, big=(i % 10 == 0))
        strs.append((t + G.tail_for(rng), len(t), v))
        for _ in range(2):
            m = G.one_edit(rng, t)
            if G.exp_digits_ok(m):
                strs.append((m + G.tail_for(rng), None, None))
    for s in ["1/0", "/", "1/", "-/3", "0/0", "1/0.0", "1/0e5", "/1abc", "/x", ".", "+", "-", "e5", "1e", "1e+", "1.e.5", "1e5.5", "1/2/3", "--1", "1..2", "٣", "1 2", ""]:
        strs.append((s, None, None))
    # forked only when a division is involved (the only way the scanner can fault in scope)
    chunks = [strs[i::16] for i in range(16)]
    cases = [("n%d" % k, "CASE n%d\n" % k + "".join("%s %s\n" % ("NUMF" if "/" in s else "NUM", enc(s.encode("utf-8", "replace"))) for s, _, _ in ch)) for k, ch in enumerate(chunks)]
    M, outs, crashes, _ = run_io_cases(cases, tag="C10n")
    if crashes:
        raise Fail("harness died in the number correspondence: %s" % crashes[0][2][-300:])
    q = []
    for k, ch in enumerate(chunks):
        for j, (s, _, _) in enumerate(ch):
            q.append("Q n%d.%d num %d %s" % (k, j, variant, enc(s.encode("utf-8", "replace"))))
    ans = run_model_par("drv_io", q)
    bad, ncrash, nlit, nedit = [], 0, 0, 0
    for k, ch in enumerate(chunks):
        lines = [t for t in outs["n%d" % k] if t[0] == "NUM"]
        for j, (s, n_, v) in enumerate(ch):
            c, a = lines[j], ans.get("n%d.%d" % (k, j))
            ck.count(("num", s), nontrivial=(a is not None and a[0] != "0"))
            if c[1] == "CRASH":
                ncrash += 1
                ok = a is not None and a[1] == "FAULT:DivZero" and c[2] == "sig8"
            else:
                ok = a is not None and [c[1], c[2]] == a
                if ok and n_ is not None:
                    nlit += 1
                    ok = int(c[1]) == n_ and F(c[2]) == v
                elif ok:
                    nedit += 1
            if not ok:
                bad.append((s, c, a, n_, v))
    ck.cov["numbers"] = dict(strings=len(strs), literals_checked_against_independent_value=nlit, one_edit_neighbours=nedit,
                             div_zero_crashes_predicted_by_model=ncrash, scanner_variant=("as found" if variant == 0 else "patched"), disagreements=len(bad))
    for (s, c, a, n_, v) in bad[:3]:
        txt = "string %r: library %s, model %s%s" % (s, c[1:], a, "" if n_ is None else ", spelled value %s length %d" % (v, n_))
        if n_ is not None and c[1] != "CRASH" and not (int(c[1]) == n_ and F(c[2]) == v):
            ck.violation("literal.txt", "NUM %s\n# %s\n" % (enc(s), txt), "literal not read as the rational it spells: " + txt, match=dict(kind="literal-value"))
        else:
            ck.violation("numcorr.txt", "NUM %s\n# %s\n" % (enc(s), txt), "correspondence Num.read_num vs mpq_EGlpNumReadStrXc broke: " + txt,
                         no_input=True, match=dict(kind="corr-num"))
    ck.sample(dict(kind="literal", text=strs[0][0], value=str(strs[0][2]), consumed=strs[0][1]))
    return len(bad)


def part_files(ck, fmt):
    rng = ck.rng
    n = (4000 if ck.thorough() else 260)
    cases, known, texts = [], {}, {}
    for i in range(n):
        cid = "%s%d" % (fmt[0].lower(), i)
        if fmt == "LP":
            K = G.gen_known(rng, "LP", big=(i % 2 == 0))
            t, fl = G.render_lp(rng, K, colon_in_comment=(i % 9 == 0), final_newline=(i % 7 != 0))
        else:
            K, spec = G.gen_known_mps(rng, big=(i % 2 == 0))
            t, fl = G.render_mps(rng, K, spec, dollar=(i % 8 == 0))
            t = t if i % 7 != 0 else t[:-1]
        known[cid], texts[cid] = (K, fl), t
        cases.append((cid, "CASE %s\nPUT f %s\nREAD h0 f %s\nDUMPO h0\nSOLVE h0\n" % (cid, enc(t), fmt) if G.magnitude_ok(K) else
                      "CASE %s\nPUT f %s\nREAD h0 f %s\nDUMPO h0\n" % (cid, enc(t), fmt)))
    scripts = dict(cases)
    M, outs, crashes, _ = run_io_cases(cases, tag="C10f")
    crashed = {c[0] for c in crashes}
    q, got, fails = ["M " + M], {}, []
    for cid, (K, fl) in known.items():
        toks = outs.get(cid)
        if cid in crashed or toks is None:
            fails.append((cid, "the reader crashed on a valid file"))
            continue
        ops = split_ops(toks)
        r = [o for o in ops if o[0][0] == "READ"]
        d = [o for o in ops if o[0][0] == "P"]
        if not r or r[0][0][1] != "OK" or not d:
            fails.append((cid, "valid file rejected: %s" % [dec(t[3]).strip() for t in (r[0][1] if r else []) if t[0] == "E" and t[1] in ("0", "2", "4")][:2]))
            continue
        P = dump_of(d[0])
        rows = list(K["rows"])
        if "row_order" in fl:
            rows = sorted(rows, key=lambda x: fl["row_order"].index(x[0]))
        if len(P["rows"]) == len(rows):
            for i in fl.get("unnamed", []):
                if re.match(r"^[cC]\d+(_\d+)?$", P["rows"][i][0]) and P["rows"][i][0] not in [x[0] for x in rows]:
                    rows[i] = (P["rows"][i][0],) + tuple(rows[i][1:])       # generated name of an unnamed row
        K2 = dict(K)
        K2["rows"] = rows
        got[cid] = (K2, P)
        q.append(equiv_query(cid, K2, P))
    ans = run_model_par("drv_io", q)
    for cid, (K2, P) in got.items():
        ck.count((fmt, texts[cid]))
        if ans.get(cid) != ["true"] or len(K2["rows"]) != len(P["rows"]) or len(K2["cols"]) != len(P["cols"]) or K2["max"] != P["max"]:
            fails.append((cid, "the problem delivered differs from the problem the text denotes"))
    hist = {}
    for cid, what in fails:
        K, fl = known[cid]
        kind = "unexplained"
        ui0 = fmt == "MPS" and any(c[4] and c[3] == 0 for c in K["cols"]) and re.search(r"^ UI .*", texts[cid], re.M)
        if fmt == "LP" and fl.get("int_kw") == "INT":
            kind = "lp-int-keyword"
        elif fmt == "LP" and fl.get("colon_comment"):
            kind = "comment-colon"
        elif fmt == "LP" and re.search(r"[A-Za-z0-9_!\"#$%&(),;.?@`'{}|~/]\\", texts[cid]):
            kind = "comment-after-name"
        elif not texts[cid].endswith("\n"):
            kind = "no-final-newline"
        elif ui0 and "differs" in what:
            kind = "mps-ui-zero"
        elif fmt == "MPS" and fl.get("dollar"):
            kind = "mps-dollar-comment"
        hist[kind] = hist.get(kind, 0) + 1
        ck.violation("file_%s.txt" % cid, scripts[cid] + "\n# %s\n# text:\n%s\n# denotes:\n%s\n" % (what, texts[cid], problem_text(K)),
                     "%s file %s: %s" % (fmt, cid, what), match=dict(kind=kind))
    if fmt == "MPS":
        # a last line that lacks its coefficient and its newline must not pick up text of the previous line
        t = "NAME t\nROWS\n N obj\n L r1\nCOLUMNS\n y r1 1\n y obj 12345678\n x obj"
        rc, out, err = run_io("CASE stale\nPUT f %s\nREAD h0 f MPS\nDUMPO h0\n" % enc(t))
        ops = split_ops(split_cases(out)[1].get("stale", []))
        rd = [o for o in ops if o[0][0] == "READ"]
        ck.count(("MPS", t))
        if rd and rd[0][0][1] == "OK":
            P = dump_of([o for o in ops if o[0][0] == "P"][0])
            ck.violation("file_stale.txt", "PUT f %s\nREAD h0 f MPS\nDUMPO h0\n# text:\n%s\n" % (enc(t), t),
                         "MPS file whose last line ' x obj' has no coefficient and no newline is accepted; columns read: %s" % [(c[0], str(c[1])) for c in P["cols"]],
                         match=dict(kind="mps-next-field"))
            hist["mps-next-field"] = hist.get("mps-next-field", 0) + 1
    good = [c for c in got if c not in {f[0] for f in fails}]
    for cid in good[:2]:
        ck.sample(dict(kind=fmt + " file", text=texts[cid][:700], denotes=problem_text(known[cid][0])[:500]))
    ck.cov["files_" + fmt] = dict(rendered=n, compared=len(got), failing_by_family=hist,
                                  without_final_newline=sum(1 for c in known if not texts[c].endswith("\n")))
    return len(got)


def part_lp_reader_model(ck, variant):
    """tie of the LP reader model (IO/LpRead.read_lp_res, extracted) to mpq_QSget_prob: rendered files, token-mutated
    files (mostly rejected) and files written by the library; both must reject, or both deliver problems that are
    equiv_by_name in both directions with equal counts"""
    sys.set_int_max_str_digits(0)
    rng = ck.rng
    n = (3000 if ck.thorough() else 240)
    cases, texts, kind = [], {}, {}
    for i in range(n):
        cid = "r%d" % i
        if i % 3 == 2:
            P = G.gen_problem(rng, "LP", big=(i % 2 == 0)) if i % 4 else G.gen_problem_kwbounds(rng, "LP")
            texts[cid], kind[cid] = None, "written by the library"
            cases.append((cid, "\n".join(["CASE %s" % cid, load_block(0, P), "WRITE h0 f LP", "CAT f", "READ h0 f LP", "DUMPO h0"]) + "\n"))
            continue
        K = G.gen_known(rng, "LP", big=(i % 2 == 0))
        t, fl = G.render_lp(rng, K, colon_in_comment=(i % 9 == 0), final_newline=(i % 7 != 0))
        kind[cid] = "rendered"
        if i % 3 == 1:
            t = G.mutate_tokens(rng, t)
            kind[cid] = "token-mutated"
            if not G.exp_digits_ok(t):
                t = "max\n x\nst\n x <= 1e5\nend\n"
        texts[cid] = t.encode("latin-1", "replace")
        cases.append((cid, "CASE %s\nPUT f %s\nREAD h0 f LP\nDUMPO h0\n" % (cid, enc(texts[cid]))))
    scripts = dict(cases)
    M, outs, crashes, _ = run_io_cases(cases, tag="C10r")
    crashed = {c[0] for c in crashes}
    q = ["M " + M]
    lib = {}
    for cid in kind:
        toks = outs.get(cid)
        if cid in crashed or toks is None:
            continue          # a crash of the reader is C11's business; not a basis for the comparison
        ops = split_ops(toks)
        r = [o for o in ops if o[0][0] == "READ"]
        d = [o for o in ops if o[0][0] == "P"]
        if texts[cid] is None:
            c = [o for o in ops if o[0][0] == "CAT"]
            tb = cat_bytes(c[0]) if c else None
            if tb is None:
                continue
            texts[cid] = tb
        if b"\x00" in texts[cid] or len(texts[cid]) > 300000:
            continue
        if r and r[0][0][1] == "OK" and d:
            P = dump_of(d[0])
            lib[cid] = P
            q.append("Q %s lpread %d %s\n%s" % (cid, variant, enc(texts[cid]), slp_block(P)))
        else:
            lib[cid] = None
            q.append("Q %s lpread %d %s\nNONE" % (cid, variant, enc(texts[cid])))
    ans = run_model_par("drv_io", q)
    hist, bad = {}, []
    for cid in lib:
        a = ans.get(cid)
        ck.count(("lpread", texts[cid]), nontrivial=(a is not None and a[0] == "OK"))
        key = "%s: %s" % (kind[cid], "accepted by both" if (a and a[0] == "OK" and lib[cid] is not None) else "rejected by both" if (a and a[0] != "OK" and lib[cid] is None) else "DISAGREE")
        hist[key] = hist.get(key, 0) + 1
        if a is None or len(a) < 2 or a[1] != "true" or a[0] in ("FUEL", "FLT"):
            bad.append((cid, a))
    ck.cov["lp_reader_correspondence"] = dict(files=len(lib), outcome_histogram=hist, disagreements=len(bad))
    for cid, a in bad[:3]:
        ck.violation("lpread_%s.txt" % cid, scripts[cid] + "\n# model answer (outcome, agree, ncols, nrows): %s\n# library: %s\n# text:\n%s\n" % (
                         a, "rejected" if lib[cid] is None else problem_text(lib[cid]), texts[cid].decode("latin-1")),
                     "LP reader model (IO/LpRead.read_lp_res) and mpq_QSget_prob disagree on %s file %s: model %s, library %s" % (
                         kind[cid], cid, a, "rejected the file" if lib[cid] is None else "delivered a problem"),
                     match=dict(kind="corr-lpread"))
    return len(lib)


def mps_tie_cases(rng, n, G):
    """(cid, kind, text or None, script) for the MPS reader tie: independently rendered files, token-mutated files, library-written files"""
    out = []
    for j, (nm, t) in enumerate(G.mps_accept_probes()):
        tb = t.encode("latin-1")
        out.append(("p%d" % j, "probe " + nm, tb, "CASE p%d\nPUT f %s\nREAD h0 f MPS\nDUMPO h0\n" % (j, enc(tb))))
    for j, (nm, t) in enumerate(sorted(G.mps_reason_files().items())):
        tb = t.encode("latin-1")
        out.append(("q%d" % j, "reason " + nm, tb, "CASE q%d\nPUT f %s\nREAD h0 f MPS\nDUMPO h0\n" % (j, enc(tb))))
    for i in range(n):
        cid = "m%d" % i
        if i % 3 == 2:
            P = G.gen_problem(rng, "MPS", big=(i % 2 == 0)) if i % 4 else G.gen_problem_kwbounds(rng, "MPS")
            out.append((cid, "written by the library", None,
                        "\n".join(["CASE %s" % cid, load_block(0, P), "WRITE h0 f MPS", "CAT f", "READ h0 f MPS", "DUMPO h0"]) + "\n"))
            continue
        K, spec = G.gen_known_mps(rng, big=(i % 2 == 0))
        t, fl = G.render_mps(rng, K, spec, dollar=(i % 8 == 0))
        kind = "rendered"
        if i % 7 == 0:
            t = t[:-1]
        if i % 3 == 1:
            t = G.mutate_tokens_mps(rng, t)
            kind = "token-mutated"
            if not G.exp_digits_ok(t):
                t = "NAME t\nROWS\n N obj\n L r\nCOLUMNS\n x r 1e5 obj 1\nENDATA\n"
        tb = t.encode("latin-1", "replace")
        out.append((cid, kind, tb, "CASE %s\nPUT f %s\nREAD h0 f MPS\nDUMPO h0\n" % (cid, enc(tb))))
    return out


def part_mps_reader_model(ck, variant):
    """tie of the MPS reader model (IO/MpsRead.read_mps_res, extracted) to mpq_QSget_prob (.., "MPS"): independently rendered files,
    token-mutated files (mostly rejected) and files written by the library; both must reject, or both deliver problems that are
    equiv_by_name in both directions with equal counts"""
    sys.set_int_max_str_digits(0)
    n = (3000 if ck.thorough() else 300)
    cs = mps_tie_cases(ck.rng, n, G)
    kind = {c[0]: c[1] for c in cs}
    texts = {c[0]: c[2] for c in cs}
    cases = [(c[0], c[3]) for c in cs]
    scripts = dict(cases)
    M, outs, crashes, _ = run_io_cases(cases, tag="C10m")
    crashed = {c[0] for c in crashes}
    q = ["M " + M]
    lib = {}
    for cid in kind:
        toks = outs.get(cid)
        if cid in crashed or toks is None:
            continue          # a crash of the reader is C11's business; not a basis for the comparison
        ops = split_ops(toks)
        r = [o for o in ops if o[0][0] == "READ"]
        d = [o for o in ops if o[0][0] == "P"]
        if texts[cid] is None:
            c = [o for o in ops if o[0][0] == "CAT"]
            tb = cat_bytes(c[0]) if c else None
            if tb is None:
                continue
            texts[cid] = tb
        if len(texts[cid]) > 300000:
            continue
        if r and r[0][0][1] == "OK" and d:
            P = dump_of(d[0])
            lib[cid] = P
            q.append("Q %s mpsread %d %s\n%s" % (cid, variant, enc(texts[cid]), slp_block(P)))
        else:
            lib[cid] = None
            q.append("Q %s mpsread %d %s\nNONE" % (cid, variant, enc(texts[cid])))
    ans = run_model_par("drv_io", q)
    hist, bad, reasons = {}, [], {}
    for cid in lib:
        a = ans.get(cid)
        ck.count(("mpsread", texts[cid]), nontrivial=(a is not None and a[0] == "OK"))
        key = "%s: %s" % (kind[cid].split(" ")[0] if kind[cid].startswith(("probe ", "reason ")) else kind[cid],
                          "accepted by both" if (a and a[0] == "OK" and lib[cid] is not None) else "rejected by both" if (a and a[0] != "OK" and lib[cid] is None) else "DISAGREE")
        hist[key] = hist.get(key, 0) + 1
        if a and a[0].startswith("ERR:"):
            reasons[a[0][4:]] = reasons.get(a[0][4:], 0) + 1
        if a is None or len(a) < 2 or a[1] != "true" or a[0] in ("FUEL", "FLT"):
            bad.append((cid, a))
        elif kind[cid].startswith("reason ") and a[0] != "ERR:" + kind[cid][7:]:
            bad.append((cid, a + ["(expected rejection reason %s)" % kind[cid][7:]]))
        elif kind[cid].startswith("probe ") and a[0] != "OK":
            bad.append((cid, a + ["(a probe that the reader accepts)"]))
    ck.cov["mps_reader_correspondence"] = dict(files=len(lib), outcome_histogram=hist, model_rejection_reasons=reasons, disagreements=len(bad))
    for cid, a in bad[:3]:
        ck.violation("mpsread_%s.txt" % cid, scripts[cid] + "\n# model answer (outcome, agree, ncols, nrows): %s\n# library: %s\n# text:\n%s\n" % (
                         a, "rejected" if lib[cid] is None else problem_text(lib[cid]), texts[cid].decode("latin-1")),
                     "MPS reader model (IO/MpsRead.read_mps_res) and mpq_QSget_prob disagree on %s file %s: model %s, library %s" % (
                         kind[cid], cid, a, "rejected the file" if lib[cid] is None else "delivered a problem"),
                     match=dict(kind="corr-mpsread"))
    return len(lib)


def main():
    ck = Check("C10", "proof")
    build_repo()
    pr = ck.proofs()
    variant = probe_variant()
    if variant is None:
        ck.violation("probe.txt", "NUMF 1/0\nNUMF /1\n", "the number scanner matches neither model variant on the probe strings", no_input=True, match=dict(kind="corr-num"))
        variant = 0
    part_numbers(ck, variant)
    part_lp_reader_model(ck, variant)
    part_mps_reader_model(ck, variant)
    nl = part_files(ck, "LP")
    nm = part_files(ck, "MPS")
    if not pr["ok"]:
        ck.violation("proof.txt", pr["log"], "proof obligation(s) of Properties_C10.v no longer check: %s" % pr["failed"], no_input=not ck.violations)
    ck.cov["rule"] = ("part 1: literals of the reader's grammar (sign, integer digits, fraction, exponent, /denominator; up to 1200 digits) with their value computed "
                      "independently in Python, and strings one edit away: mpq_EGlpNumReadStrXc vs extracted Num.read_num_gen (value and consumed length); "
                      "part 2: independent Python renderers of LP and MPS text from known rational problems varying keyword spellings/case, blanks, line breaks, "
                      "comments (\\, *, $), explicit +, omitted coefficient 1, repeated and zero terms, all number spellings, bound statement forms incl. implicit "
                      "defaults, RANGES of both signs, BV/UI/LI/MI/PL/FR/FX bounds, RHS on the objective, blank set names, missing final newline; real reader -> "
                      "dump -> equiv_by_name with equal row/column counts; non-trivial = string consumed / file compared; distinct by text")
    ck.cov["rule"] += ("; part 0: extracted LP reader model IO/LpRead.read_lp_res vs mpq_QSget_prob on rendered files, token-mutated files (mostly rejected) and "
                       "files written by the library: both reject, or both deliver problems equiv_by_name in both directions with equal counts"
                       "; part 0b: the same for the extracted MPS reader model IO/MpsRead.read_mps_res on independently rendered MPS files, token- and line-mutated files "
                       "(section keywords, markers, SOS blocks, REFROW / OBJNAME insertions, set names, '$', number-like names, indentation), library-written files, "
                       "32 hand-written probes of reader quirks (all accepted) and one file per rejection reason of the model (40; the model must name that reason)")
    ck.cov["not_covered"] = ("the file-level statement is proved for the LP reader MODEL and the writer's layout family only (C10_lp_written_file_partial, "
                             "C10_lp_expr_any_wrapping); for the other lexical freedoms (keyword spellings, comments, explicit '+', repeated terms, decimal / exponent "
                             "spellings inside files, several bound statements per line) the model is compared with the library file by file, not proved; "
                             "the LP reader model is proved total (C10_lp_reader_total) and to depend on the bytes only through the cut lines (C10_lp_reader_cut, C10_lp_reader_bytes); the MPS reader model (IO/MpsRead.v) is proved total (C10_mps_reader_total), to read bytes as lines (C10_mps_reader_bytes) and to read the writer's layout (C10_mps_written_file_partial = C09_mps_roundtrip); the other lexical freedoms of MPS files are covered by the correspondence reader model = library, not by a theorem; blanks between 'inf' and '<=' are required by the reader and always rendered; SOS / REFROW not rendered")
    ck.assumptions = ["Coq kernel; extraction; OCaml", "renderers of checks/io_gen.py are independent of the Coq development", "harness h_io.c"]
    cleanup_scratch()
    ck.finish(trusted_base=["coqc 8.16.1 kernel", "OCaml extraction", "harness/h_io.c + checks/io_common.py + checks/io_gen.py + checks/C10.py"])


main_guard(main)
