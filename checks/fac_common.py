"""Shared pieces of the C12 / C13 checks (h_fac <-> drv_fac)."""
import itertools
from fractions import Fraction as F
from gen_lp import *

NEUTRAL_G = 3          # PRIMAL_FEASIBLE: a value of the uninitialised pstatus that does not disturb the dual flags


def sense_string(lp):
    return "".join(r[1] for r in lp["rows"]) or "-"


def enumerate_bases(lp, bad_row_status=True):
    """every choice of m basic entries among n+m, every at-lower / at-upper / free assignment of the rest.
    Rows: '0' always; '2' for every row (an error for a non-ranged row: explores the rejection path) when bad_row_status."""
    n, m = len(lp["cols"]), len(lp["rows"])
    for bas in itertools.combinations(range(n + m), m):
        bs = set(bas)
        nbc = [j for j in range(n) if j not in bs]
        nbr = [i for i in range(m) if (n + i) not in bs]
        ropts = []
        for i in nbr:
            ropts.append("02" if (bad_row_status or lp["rows"][i][1] == "R") else "0")
        for cch in itertools.product("023", repeat=len(nbc)):
            for rch in itertools.product(*ropts):
                cs = ["1"] * n
                rs = ["1"] * m
                for j, c in zip(nbc, cch):
                    cs[j] = c
                for i, c in zip(nbr, rch):
                    rs[i] = c
                yield "".join(cs) or "-", "".join(rs) or "-"


def touches_sentinel(lp, cs, rs):
    """a non-basic column is put at a bound that is the sentinel (at-lower with lower = -inf, at-upper with upper = inf):
    the basic solution then contains the 160-digit sentinel, which makes the model arithmetic slow; such bases are sampled"""
    n, m = len(lp["cols"]), len(lp["rows"])
    for j in range(min(n, len(cs))):
        if (cs[j] == "0" and lp["cols"][j][2] == NINF) or (cs[j] == "2" and lp["cols"][j][3] == INF):
            return True
    for i in range(min(m, len(rs) if rs != "-" else 0)):
        if rs[i] == "2" and lp["rows"][i][1] in "LG":
            return True
    return False


def random_basis(rng, lp, valid=True):
    n, m = len(lp["cols"]), len(lp["rows"])
    idx = list(range(n + m))
    rng.shuffle(idx)
    bs = set(idx[:m])
    cs, rs = [], []
    for j in range(n):
        if j in bs:
            cs.append("1")
        else:
            lo, up = lp["cols"][j][2], lp["cols"][j][3]
            if valid:
                opts = ([] if lo == NINF else ["0"]) + ([] if up == INF else ["2"])
                cs.append(rng.choice(opts) if opts else "3")
            else:
                cs.append(rng.choice("023"))
    for i in range(m):
        if (n + i) in bs:
            rs.append("1")
        else:
            rs.append(rng.choice("02") if lp["rows"][i][1] == "R" else "0")
    return "".join(cs) or "-", "".join(rs) or "-"


class FacOut:
    """parsed output lines of one h_fac case"""
    def __init__(self, toks):
        self.lines = toks
        self.ilp = [t for t in toks if t[0] in ("ILP", "C", "B")]
        self.ulp = [t for t in toks if t[0] in ("ULP", "UC", "UR")]
        self.ops = [t for t in toks if t[0] not in ("ILP", "C", "B", "ULP", "UC", "UR")]
        self.lp_ok = any(t[0] == "LP" and t[1] == "OK" for t in toks)

    def ilp_text(self, which=0):
        """the which-th ILP block"""
        blocks, cur = [], None
        for t in self.lines:
            if t[0] == "ILP":
                cur = [t]
                blocks.append(cur)
            elif t[0] in ("C", "B") and cur is not None:
                cur.append(t)
        return "\n".join(" ".join(t) for t in blocks[which]) if len(blocks) > which else None

    def dims(self):
        h = self.ilp[0]
        return int(h[2]), int(h[3]), int(h[4])


def basis_query(qid, kind, ilp_text, sense, cs, rs):
    return "Q %s %s\n%s\nSENSE %s\nBAS %s %s" % (qid, kind, ilp_text, sense, cs, rs)


# ----------------------------------------------------------------------------- small LPs for the exhaustive part

def small_lp_family(rng, count):
    """LPs with at most 3 rows and 4 columns; bounds of every shape, all senses, MIN/MAX, duplicate and zero columns
    (singular bases), degenerate vertices."""
    out = []
    k = 0
    while len(out) < count:
        k += 1
        m = rng.choice([1, 2, 2, 3, 3])
        n = rng.choice([1, 2, 3, 3, 4]) if m < 3 else rng.choice([2, 3, 4])
        r = k % 6
        if r in (0, 1):
            lp = random_lp(rng, m, n, rng.choice(["small", "small", "frac"]), name="s%d" % k)
        elif r == 2:
            lp = planted_lp(rng, m, n, rng.choice(["small", "frac"]), name="sp%d" % k)
        elif r == 3:
            # duplicate / proportional / zero columns: many singular bases
            lp = random_lp(rng, m, n, "small", name="sd%d" % k)
            if n >= 2:
                cols, rows = lp["cols"], lp["rows"]
                a, b = rng.sample(range(n), 2)
                f = rng.choice([F(1), F(2), F(-1), F(0)])
                new_rows = []
                for (nm, s, rhs, rg, ent) in rows:
                    d = dict(ent)
                    if a in d and f != 0:
                        d[b] = d[a] * f
                    else:
                        d.pop(b, None)
                    new_rows.append((nm, s, rhs, rg, sorted(d.items())))
                lp["rows"] = new_rows
        elif r == 4:
            lp = degenerate(rng, k=rng.randint(1, 2), name="sg%d" % k)
            lp["rows"] = lp["rows"][:3]
            if len(lp["cols"]) > 4:
                continue
        else:
            lp = random_lp(rng, m, n, "small", name="sr%d" % k)
            # make sure ranged rows and free / fixed columns occur
            rows = list(lp["rows"])
            i = rng.randrange(len(rows))
            nm, s, rhs, rg, ent = rows[i]
            rows[i] = (nm, "R", rhs, F(rng.randint(0, 3)), ent)
            lp["rows"] = rows
            cols = list(lp["cols"])
            j = rng.randrange(len(cols))
            nmc, o, lo, up = cols[j]
            cols[j] = (nmc, o) + rng.choice([(NINF, INF), (1, 1), (0, 0), (NINF, 2)])
            lp["cols"] = cols
        if len(lp["cols"]) <= 4 and len(lp["rows"]) <= 3:
            out.append(lp)
    return out


def dense_from_cols(n, cols):
    """cols: list of dict row->Fraction; returns dense row-major list of lists"""
    return [[cols[j].get(i, F(0)) for j in range(n)] for i in range(n)]


def model_weight(lp):
    """rough cost of one exact basis evaluation in the extracted model (binary-list arithmetic): digits^2 * m^3"""
    dig = 1
    for c in lp["cols"]:
        for v in c[1:]:
            if not isinstance(v, str):
                dig = max(dig, len(str(F(v).numerator)) + len(str(F(v).denominator)))
    for r in lp["rows"]:
        for v in [r[2], r[3]] + [x for _, x in r[4]]:
            dig = max(dig, len(str(F(v).numerator)) + len(str(F(v).denominator)))
    return dig * dig * max(1, len(lp["rows"])) ** 3


MODEL_WEIGHT_LIMIT = 150000


def left_null_vector(rows):
    """untrusted helper (exact, Fractions): a non-zero y with y A = 0, or None when A is non-singular.
    Its answer is only used as a certificate that the extracted checker verifies."""
    n = len(rows)
    # eliminate on [A | I] row-wise
    aug = [list(map(F, rows[i])) + [F(1) if i == j else F(0) for j in range(n)] for i in range(n)]
    piv_rows = []
    for i in range(n):
        r = aug[i]
        for (c, p) in piv_rows:
            if r[c] != 0:
                f = r[c] / p[c]
                r = [a - f * b for a, b in zip(r, p)]
        c = next((j for j in range(n) if r[j] != 0), None)
        if c is None:
            return r[n:]
        piv_rows.append((c, r))
        aug[i] = r
    return None


def inverse_matrix(rows):
    """untrusted helper (exact, Fractions): the inverse of a square matrix, or None when it is singular.
    Its answer is only used as a certificate that the extracted checker verifies (check_sing_report)."""
    n = len(rows)
    aug = [list(map(F, rows[i])) + [F(1) if i == j else F(0) for j in range(n)] for i in range(n)]
    for c in range(n):
        p = next((i for i in range(c, n) if aug[i][c] != 0), None)
        if p is None:
            return None
        aug[c], aug[p] = aug[p], aug[c]
        pv = aug[c][c]
        aug[c] = [x / pv for x in aug[c]]
        for i in range(n):
            if i != c and aug[i][c] != 0:
                f = aug[i][c]
                aug[i] = [a - f * b for a, b in zip(aug[i], aug[c])]
    return [r[n:] for r in aug]


def repaired_matrix(rows, singr, singc):
    """the matrix ILLbasis_factor goes on with after a singular report: column singc[i] := unit column of row singr[i]"""
    n = len(rows)
    new = [r[:] for r in rows]
    for r_, c_ in zip(singr, singc):
        for i in range(n):
            new[i][c_] = F(1) if i == r_ else F(0)
    return new


# ----------------------------------------------------------------------------- model runs under a time budget

def budget_model_queries(qs, M, budget, per_chunk=60.0, chunk_weight=60000, jobs=16, drv="drv_fac"):
    """Run the extracted model on the query blocks `qs` (strings starting with 'Q <id> ...') under a wall-clock budget.
    Queries are packed into chunks of bounded text size, every chunk is one process with its own
    time limit; answers printed before a kill are kept (the driver flushes after every answer).
    Returns (answers {id: tokens}, missing [ids in submission order])."""
    import subprocess, time, os, threading
    from concurrent.futures import ThreadPoolExecutor
    from lib import VERIF, build_model
    if not qs:
        return {}, []
    build_model()
    exe = os.path.join(VERIF, "ocaml", "gen", drv)
    ids = [q.split(None, 2)[1] for q in qs]
    order = sorted(range(len(qs)), key=lambda i: -len(qs[i]))      # long queries start first (they run beside the many short ones)
    chunks, cur, w = [], [], 0
    for i in order:
        if cur and w + len(qs[i]) > chunk_weight:
            chunks.append(cur)
            cur, w = [], 0
        cur.append(i)
        w += len(qs[i])
    if cur:
        chunks.append(cur)
    if os.environ.get("QSX_DUMP_ALLQ"):
        open(os.environ["QSX_DUMP_ALLQ"], "a").write("M %s\n" % M + "\n".join(qs) + "\n")
    deadline = time.time() + budget
    ans, lock = {}, threading.Lock()

    def one(ch):
        left = deadline - time.time()
        if left <= 1:
            return
        txt = "M %s\n" % M + "\n".join(qs[i] for i in ch) + "\n"
        p = subprocess.Popen([exe], stdin=subprocess.PIPE, stdout=subprocess.PIPE, stderr=subprocess.DEVNULL, text=True)
        try:
            out, _ = p.communicate(txt, timeout=min(per_chunk, left))
        except subprocess.TimeoutExpired:
            p.kill()
            out, _ = p.communicate()
        with lock:
            for line in (out or "").splitlines():
                t = line.split()
                if len(t) >= 2 and t[0] == "A":
                    ans[t[1]] = t[2:]
    with ThreadPoolExecutor(max_workers=jobs) as ex:
        list(ex.map(one, chunks))
    missing = [ids[i] for i in range(len(qs)) if ids[i] not in ans]
    if missing and os.environ.get("QSX_DUMP_MISSING"):
        open(os.environ["QSX_DUMP_MISSING"], "a").write("M %s\n" % M + "\n".join(qs[i] for i in range(len(qs)) if ids[i] not in ans) + "\n")
    return ans, missing


def py_solves_ok(mat, kind, a, x):
    """untrusted quick multiply-back with Python fractions: kind 'FT': mat x = a ; 'BT': x mat = a.
    Returns the index of the first equation that fails, or None."""
    n = len(mat)
    xs = [F(t) for t in x]
    if len(xs) != n:
        return 0
    if kind == "FT":
        for i in range(n):
            row = mat[i]
            if sum((row[j] * xs[j] for j in range(n) if row[j] != 0 and xs[j] != 0), F(0)) != a[i]:
                return i
    else:
        for j in range(n):
            if sum((xs[i] * mat[i][j] for i in range(n) if xs[i] != 0 and mat[i][j] != 0), F(0)) != a[j]:
                return j
    return None
