#!/usr/bin/env python3
"""C09  MPS output reads back as the same problem, and LP and MPS renderings agree."""
import sys, os
sys.path.insert(0, os.path.dirname(os.path.abspath(__file__)))
from io_common import *
import io_gen as G


def main():
    ck = Check("C09", "proof")
    build_repo()
    pr = ck.proofs()
    run_roundtrip_check(ck, "MPS", pr, G)
    ck.cov["rule"] = ("problems as in C08 (names that MPS cannot express at all - blanks, leading $ or * - excluded) plus columns/rows named like the writer's set names "
                      "(RHS RANGE BOUND ...): write MPS -> read -> equiv_by_name (Coq-extracted) with the native RANGES representation; second generation; "
                      "LP rendering of the same problem and lp_mps_agree; chains MPS->LP->MPS and LP->MPS->LP; .gz/.bz2 targets; QSexact_solver on both sides; "
                      "bound statements of the written BOUNDS section vs encode_bounds (FX FR MI PL LO UP); non-trivial = comparison reached; distinct by problem text + stage")
    ck.cov["rule"] += ("; every MPS file written by the library is compared byte for byte with the extracted IO/MpsWrite.write_mps applied to the column-wise dump "
                       "of the problem (storage order of the matrix, lp->objname, intmarker / rangeval allocated or not); every LP file with IO/LpWrite.write_lp")
    ck.cov["rule"] += ("; theorem instances: wf_coreb / setnames_okb (proved sound for wf_mps / wf_core) and the extracted read_mps (write_mps P) are evaluated on the "
                       "column-wise dump of every generated problem before its first MPS write - C09_mps_roundtrip (or C09_mps_roundtrip_fixed when the library has "
                       "mps_setname_clash.diff, probed) must hold whenever the precondition does, and the model's round-trip outcome must equal the library's on every case; "
                       "the witnesses of C09_mps_setname_clash_refuted / _rhs_refuted are replayed on the library every run")
    ck.cov["not_covered"] = ("C09_mps_roundtrip is a theorem about the line-level models IO/MpsWrite.write_mps and IO/MpsRead.read_mps; their equality with the C code is "
                             "checked (writer: bytes of every written file; reader: outcome on rendered / mutated / written / probe files in C10), not proved; "
                             "files with a line of >= 131069 bytes are outside C09_mps_roundtrip_bytes; MPS-specific input shapes (negative RHS on N rows, RANGES of both "
                             "signs on L/G/E, BV/UI/LI bounds, OBJSENSE spellings, several pairs per record, blank set names) are not produced by the writer: they are read from "
                             "independently rendered files in C10 and judged by the reader correspondence, not by a theorem; SOS sets and REFROW are modelled in the reader "
                             "(acceptance) but the writer model has none (the API cannot create them); lp_mps_agree and the LP<->MPS chains are explored")
    ck.assumptions = ["Coq kernel; extraction (ExtrOcamlBasic, ExtrOcamlString); OCaml", "harness h_io.c dumps through the query API", "names interned to N by checks/io_common.py"]
    ck.finish(trusted_base=["coqc 8.16.1 kernel", "OCaml extraction", "harness/h_io.c + checks/io_common.py + checks/C09.py"])


main_guard(main)
