#!/usr/bin/env python3
"""C09  MPS output reads back as the same problem, and LP and MPS renderings agree."""
import sys, os
sys.path.insert(0, os.path.dirname(os.path.abspath(__file__)))
from io_common import *
import io_gen as G


def main():
    ck = Check("C09", "exploration")
    build_repo()
    pr = ck.proofs()
    run_roundtrip_check(ck, "MPS", pr, G)
    ck.cov["rule"] = ("problems as in C08 (names that MPS cannot express at all - blanks, leading $ or * - excluded) plus columns/rows named like the writer's set names "
                      "(RHS RANGE BOUND ...): write MPS -> read -> equiv_by_name (Coq-extracted) with the native RANGES representation; second generation; "
                      "LP rendering of the same problem and lp_mps_agree; chains MPS->LP->MPS and LP->MPS->LP; .gz/.bz2 targets; QSexact_solver on both sides; "
                      "bound statements of the written BOUNDS section vs encode_bounds (FX FR MI PL LO UP); non-trivial = comparison reached; distinct by problem text + stage")
    ck.cov["not_covered"] = ("no model of the MPS section state machine / field splitting (explored only); MPS-specific input shapes (negative RHS on N rows, RANGES of "
                             "both signs on L/G/E, BV/UI/LI bounds, OBJSENSE sections) are read from independently rendered files in C10 and then round-tripped there")
    ck.assumptions = ["Coq kernel; extraction (ExtrOcamlBasic, ExtrOcamlString); OCaml", "harness h_io.c dumps through the query API", "names interned to N by checks/io_common.py"]
    ck.finish(trusted_base=["coqc 8.16.1 kernel", "OCaml extraction", "harness/h_io.c + checks/io_common.py + checks/C09.py"])


main_guard(main)
