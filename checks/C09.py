#!/usr/bin/env python3
"""C09  MPS output reads back as the same problem, and LP and MPS renderings agree."""
import sys, os
sys.path.insert(0, os.path.dirname(os.path.abspath(__file__)))
from io_common import *
import io_gen as G


def main():
    ck = Check("C09", "exploration")
    build_repo()
    pr = ck.proofs()
    run_roundtrip_check(ck, "MPS", pr, G)
    ck.cov["rule"] = ("problems as in C08 (names that MPS cannot express at all - blanks, leading $ or * - excluded) plus columns/rows named like the writer's set names "
                      "(RHS RANGE BOUND ...): write MPS -> read -> equiv_by_name (Coq-extracted) with the native RANGES representation; second generation; "
                      "LP rendering of the same problem and lp_mps_agree; chains MPS->LP->MPS and LP->MPS->LP; .gz/.bz2 targets; QSexact_solver on both sides; "
                      "bound statements of the written BOUNDS section vs encode_bounds (FX FR MI PL LO UP); non-trivial = comparison reached; distinct by problem text + stage")
    ck.cov["rule"] += ("; every MPS file written by the library is compared byte for byte with the extracted IO/MpsWrite.write_mps applied to the column-wise dump "
                       "of the problem (storage order of the matrix, lp->objname, intmarker / rangeval allocated or not); every LP file with IO/LpWrite.write_lp")
    ck.cov["not_covered"] = ("no model of the MPS READER (fields, set names, section state machine): C09_mps_sections_roundtrip_partial is about the sections as data "
                             "(reader-side semantics of Ranges.v / Bounds.v / markers applied to what the writer model builds), the file-level statement "
                             "read_mps (write_mps P) ~ P is explored; MPS-specific input shapes (negative RHS on N rows, RANGES of both signs on L/G/E, BV/UI/LI bounds, "
                             "OBJSENSE sections) are read from independently rendered files in C10; SOS sets and REFROW are not modelled")
    ck.assumptions = ["Coq kernel; extraction (ExtrOcamlBasic, ExtrOcamlString); OCaml", "harness h_io.c dumps through the query API", "names interned to N by checks/io_common.py"]
    ck.finish(trusted_base=["coqc 8.16.1 kernel", "OCaml extraction", "harness/h_io.c + checks/io_common.py + checks/C09.py"])


main_guard(main)
