"""Shared machinery of the per-property checks.

Every check: build /repo's working tree (hooks on) -> regenerate Gen/ and re-make
the Coq development -> re-check the property's theorem file and collect
`Print Assumptions` -> correspondence between model and implementation ->
exploration with verified oracles -> evidence file, exit status.
"""
import json, os, random, re, subprocess, sys, time, hashlib, shutil

VERIF = os.path.dirname(os.path.dirname(os.path.abspath(__file__)))
COQ = os.path.join(VERIF, "coq")
# QSX_OUT / QSX_EVIDENCE redirect replays and evidence (used by tools/eval_seed.sh: runs against a seeded change
# must not touch the evidence of the real tree)
OUT = os.environ.get("QSX_OUT") or os.path.join(VERIF, "out")
EVID = os.environ.get("QSX_EVIDENCE") or os.path.join(VERIF, "evidence")
KNOWN = os.path.join(VERIF, "known_findings.json")
FORBIDDEN = r"\b(Admitted|admit|Axiom|Parameter|Conjecture|Admit Obligations|Unset Guard Checking|bypass_check|type-in-type|impredicative-set|Unset Universe Checking|Unset Positivity Checking)\b"


class Fail(Exception):
    pass


def sh(cmd, timeout=None, input=None, env=None, cwd=None):
    e = dict(os.environ)
    if env:
        e.update(env)
    return subprocess.run(cmd, shell=isinstance(cmd, str), stdout=subprocess.PIPE, stderr=subprocess.PIPE,
                          input=input, timeout=timeout, env=e, cwd=cwd, text=True, errors="replace")


# ----------------------------------------------------------------------------- builds

_build_dir = None


def build_repo():
    """Scratch build of /repo's current working tree (cached by source hash, outside /repo and /verif)."""
    global _build_dir
    if _build_dir:
        return _build_dir
    r = sh([os.path.join(VERIF, "tools", "build_repo.sh")], timeout=1800)
    if r.returncode != 0:
        raise Fail("build of /repo failed:\n" + r.stderr[-3000:])
    _build_dir = r.stdout.strip().splitlines()[-1]
    return _build_dir


_model_built = False


def build_model():
    """make the Coq development (incremental), extract, link OCaml drivers."""
    global _model_built
    if _model_built:
        return
    r = sh([os.path.join(VERIF, "tools", "build_model.sh")], timeout=3600)
    if r.returncode != 0:
        raise Fail("model build failed:\n" + r.stdout[-2000:] + r.stderr[-3000:])
    _model_built = True
    return r.stderr


def coq_audit():
    """No Admitted/Axiom/... anywhere in the development.  Returns list of offending lines."""
    bad = []
    # the development = the files listed in _CoqProject (nothing else is compiled or can be required) + the property files
    listed = set(l.strip() for l in open(os.path.join(COQ, "_CoqProject")) if l.strip().endswith(".v"))
    for root, _, files in os.walk(COQ):
        for f in files:
            if f.endswith(".v"):
                p = os.path.join(root, f)
                rel = os.path.relpath(p, COQ)
                if rel not in listed and not rel.startswith("Props" + os.sep) and not rel.startswith("Gen" + os.sep) and not rel.startswith("Extract" + os.sep):
                    continue
                txt = open(p, errors="replace").read()
                # strip comments (non-nested is enough for our files; nested handled by loop)
                prev = None
                while prev != txt:
                    prev = txt
                    txt = re.sub(r"\(\*[^*(]*(?:(?:\*(?!\))|\((?!\*))[^*(]*)*\*\)", " ", txt)
                depth = 0       # Section / Module Type nesting: a Variable / Hypothesis / Context outside a Section declares an axiom
                for i, line in enumerate(txt.splitlines(), 1):
                    if re.search(FORBIDDEN, line):
                        bad.append("%s:%d: %s" % (os.path.relpath(p, VERIF), i, line.strip()))
                    if re.match(r"\s*Section\s+\w+\s*\.", line):
                        depth += 1
                    elif re.match(r"\s*End\s+\w+\s*\.", line) and depth > 0:
                        depth -= 1
                    elif depth == 0 and re.match(r"\s*(Variables?|Hypothes[ie]s|Context)\b", line):
                        bad.append("%s:%d: outside a Section: %s" % (os.path.relpath(p, VERIF), i, line.strip()))
    return bad


def check_props(pid, extra_files=()):
    """Re-compile Props/Properties_<pid>.v (statements closed by `exact`), collect Print Assumptions.
    Returns dict(obligations, discharged, theorems=[(name, assumptions)], log, ok, failed=[names])."""
    rel = os.path.join("Props", "Properties_%s.v" % pid)
    path = os.path.join(COQ, rel)
    res = dict(obligations=0, discharged=0, theorems=[], log="", ok=False, failed=[], file=rel)
    if not os.path.exists(path):
        res["log"] = "missing " + rel
        return res
    src = open(path).read()
    names = re.findall(r"^\s*(?:Theorem|Lemma|Corollary)\s+(\w+)", src, re.M)
    res["obligations"] = len(names)
    r = sh(["coqc", "-Q", COQ, "QSX", path], timeout=1200, cwd=COQ)
    res["log"] = (r.stdout + r.stderr)[-6000:]
    if r.returncode == 0:
        # parse assumptions: blocks separated per Print Assumptions in order
        blocks = re.split(r"(?m)^(?=Closed under the global context|Axioms:)", r.stdout)
        blocks = [b.strip() for b in blocks if b.strip()]
        for i, n in enumerate(names):
            res["theorems"].append((n, blocks[i] if i < len(blocks) else "?"))
        res["discharged"] = len(names)
        res["ok"] = True
    else:
        # find which theorem failed: compile prefix-wise is expensive; report first error line
        m = re.search(r'line (\d+)', r.stderr)
        failed = None
        if m:
            ln = int(m.group(1))
            upto = "\n".join(src.splitlines()[:ln])
            prev = re.findall(r"^\s*(?:Theorem|Lemma|Corollary)\s+(\w+)", upto, re.M)
            failed = prev[-1] if prev else None
        res["failed"] = [failed or "?"]
        # theorems before the failing one are discharged
        if failed in names:
            res["discharged"] = names.index(failed)
    # dependencies must be compiled files: the .vo of every QSX import must be newer than its .v
    stale = []
    for dep in re.findall(r"QSX\s+Require\s+(?:Import|Export)\s+([\w\. ]+)\.", src.replace("From QSX Require", "QSX Require")):
        for m_ in dep.split():
            vp = os.path.join(COQ, m_.replace(".", "/") + ".v")
            if os.path.exists(vp) and (not os.path.exists(vp + "o") or os.path.getmtime(vp + "o") < os.path.getmtime(vp)):
                stale.append(m_)
    if stale:
        res["ok"] = False
        res["failed"] = res["failed"] + ["stale:" + s for s in stale]
    return res


# ----------------------------------------------------------------------------- running

def run_harness(name, script, timeout=600, asan=False, env=None, args=()):
    b = build_repo()
    exe = os.path.join(b, name + ("_asan" if asan else ""))
    e = {"ASAN_OPTIONS": "detect_leaks=0:abort_on_error=0:exitcode=99", "UBSAN_OPTIONS": "print_stacktrace=1:halt_on_error=1"}
    if env:
        e.update(env)
    try:
        r = sh([exe] + list(args), timeout=timeout, input=script, env=e)
        return r.returncode, r.stdout, r.stderr
    except subprocess.TimeoutExpired as ex:
        return -999, (ex.stdout or b"").decode(errors="replace") if isinstance(ex.stdout, bytes) else (ex.stdout or ""), "TIMEOUT"


def run_model(name, queries, timeout=2400, jobs=16):
    """Run the extracted model driver on a query text.  Queries (blocks starting with a line `Q ...`)
    are independent, so they are spread over `jobs` processes; header lines (before the first Q) go to all."""
    build_model()
    exe = os.path.join(VERIF, "ocaml", "gen", name)
    lines = queries.split("\n")
    header, blocks, cur = [], [], None
    for ln in lines:
        if ln.startswith("Q "):
            cur = [ln]
            blocks.append(cur)
        elif cur is None:
            header.append(ln)
        else:
            cur.append(ln)
    njobs = max(1, min(jobs, len(blocks) // 8 if len(blocks) >= 16 else 1))
    # balance by size
    order = sorted(range(len(blocks)), key=lambda i: -sum(len(x) for x in blocks[i]))
    chunks = [[] for _ in range(njobs)]
    for k, i in enumerate(order):
        chunks[k % njobs].append(i)
    texts = ["\n".join(header + [l for i in ch for l in blocks[i]]) + "\n" for ch in chunks]

    def one(txt):
        r = sh([exe], timeout=timeout, input=txt)
        return r
    from concurrent.futures import ThreadPoolExecutor
    with ThreadPoolExecutor(max_workers=njobs) as ex:
        rs = list(ex.map(one, texts))
    ans = {}
    for r in rs:
        if r.returncode != 0:
            os.makedirs(OUT, exist_ok=True)
            open(os.path.join(OUT, "last_failed_queries.txt"), "w").write(queries)
            raise Fail("model driver %s failed: %s" % (name, r.stderr[-2000:]))
        for line in r.stdout.splitlines():
            t = line.split()
            if len(t) >= 2 and t[0] == "A":
                ans[t[1]] = t[2:]
    return ans


def split_cases(out):
    """Harness output -> {case id: [token lists]}, plus header M."""
    cases, cur, M = {}, None, None
    for line in out.splitlines():
        t = line.split()
        if not t:
            continue
        if t[0] == "M" and M is None and len(t) == 2:
            M = t[1]
        elif t[0] == "CASE":
            cur = t[1]
            cases[cur] = []
        elif cur is not None:
            cases[cur].append(t)
    return M, cases


# ----------------------------------------------------------------------------- findings / evidence / exit

def load_known(pid):
    if not os.path.exists(KNOWN):
        return []
    d = json.load(open(KNOWN))
    return [f for f in d.get("findings", []) if f.get("property") == pid and f.get("state", "open") == "open"]


class Check:
    def __init__(self, pid, level):
        self.pid = pid
        self.level = level
        self.tier = os.environ.get("VERIF_TIER") or (sys.argv[1] if len(sys.argv) > 1 and sys.argv[1] in ("quick", "thorough") else "quick")
        self.seed = int(os.environ.get("VERIF_SEED", "20260930"))
        self.rng = random.Random(self.seed)
        self.t0 = time.time()
        self.violations = []      # (replay_path, text, no_input)
        self.known_hits = []
        self.cov = dict(evaluations=0, distinct_nontrivial=0, rule="", samples=[])
        self.assumptions = []
        self.known = load_known(pid)
        self._distinct = set()
        os.makedirs(os.path.join(OUT, "replay", pid), exist_ok=True)
        os.makedirs(EVID, exist_ok=True)

    def thorough(self):
        return self.tier == "thorough"

    def count(self, key, nontrivial=True):
        """count one evaluated case; key identifies distinctness"""
        self.cov["evaluations"] += 1
        if nontrivial:
            h = hashlib.sha1(repr(key).encode()).hexdigest()
            self._distinct.add(h)

    def sample(self, s, limit=6):
        if len(self.cov["samples"]) < limit:
            self.cov["samples"].append(s)

    def replay_path(self, name):
        return os.path.join(OUT, "replay", self.pid, name)

    def violation(self, name, content, text, no_input=False, match=None):
        """record a violation; `match` is the dict compared with known findings"""
        for k in self.known:
            km = k.get("match", {})
            if match is not None and all(match.get(a) == b for a, b in km.items()) and km:
                self.known_hits.append((k, text))
                return False
        p = self.replay_path(name)
        with open(p, "w") as f:
            f.write(content)
        self.violations.append((p, text, no_input))
        return True

    def proofs(self, pid=None):
        """run the proof part; a broken obligation is recorded in self.proof and handled by caller"""
        build_model()
        self.proof = check_props(pid or self.pid)
        bad = coq_audit()
        self.proof["audit"] = bad
        if bad:
            self.proof["ok"] = False
            self.proof["failed"] = self.proof.get("failed", []) + ["audit"]
        self.cov["obligations"] = self.proof["obligations"]
        self.cov["discharged"] = self.proof["discharged"] if not bad else 0
        self.cov["checker_cmd"] = "tools/build_model.sh (coq_makefile + make, full .vo) ; coqc -Q coq QSX coq/%s" % self.proof["file"]
        self.cov["theorems"] = [dict(name=n, assumptions=a) for n, a in self.proof["theorems"]]
        return self.proof

    def finish(self, trusted_base=None, extra=None):
        self.cov["distinct_nontrivial"] = len(self._distinct)
        if trusted_base is not None:
            self.cov["trusted_base"] = trusted_base
        if extra:
            self.cov.update(extra)
        ev = dict(property_id=self.pid, tier=self.tier, seed=self.seed, level=self.level, coverage=self.cov,
                  assumptions=self.assumptions, wall_s=round(time.time() - self.t0, 2), violations=len(self.violations))
        if self.known_hits:
            ev["known_findings_hit"] = [k.get("id") for k, _ in self.known_hits]
        with open(os.path.join(EVID, self.pid + ".json"), "w") as f:
            json.dump(ev, f, indent=1, default=str)
        seen = set()
        for k, text in self.known_hits:
            if k.get("id") not in seen:
                seen.add(k.get("id"))
                print("KNOWN-FINDING: property=%s %s" % (self.pid, k.get("text", text)))
        for p, text, no_input in self.violations[:20]:
            print("# " + text.replace("\n", " ")[:400])
            print("VIOLATION property=%s replay=%s%s" % (self.pid, p, " no-failing-input-found" if no_input else ""))
        sys.stdout.flush()
        sys.exit(1 if self.violations else 0)


def main_guard(fn):
    try:
        fn()
    except Fail as e:
        print("CHECK-ERROR: " + str(e), file=sys.stderr)
        sys.exit(2)


# ----------------------------------------------------------------------------- parallel case running

def run_cases(harness, cases, asan=False, per_case_timeout=60, jobs=16, env=None, max_timeouts=6):
    """cases: list of (cid, script_text).  Runs them in chunks on `jobs` processes.
    Returns (M, {cid: token lines}, crashes=[(cid, rc, stderr_tail)])."""
    from concurrent.futures import ThreadPoolExecutor
    if not cases:
        return None, {}, []
    nchunks = max(1, min(len(cases), jobs * 2))
    chunks = [cases[i::nchunks] for i in range(nchunks)]

    timeouts = []        # once a few cases have hung the point is made: do not sit out hundreds of time limits

    def run_chunk(ch):
        if len(timeouts) >= max_timeouts:
            return []
        # a chunk normally needs well under a second per case; a generous but finite budget, then one by one
        budget = min(per_case_timeout * len(ch) + 30, 60 + 3 * len(ch) * (4 if asan else 1))
        rc, out, err = run_harness(harness, "".join(s for _, s in ch), timeout=budget, asan=asan, env=env)
        if rc == 0:
            return [(out, None)]
        if len(ch) == 1:
            return [(out, (ch[0][0], rc, (err if len(err) <= 6000 else err[:2500] + "\n[...]\n" + err[-3500:])))]
        res = []
        for c in ch:
            if len(timeouts) >= max_timeouts:
                break
            rc1, out1, err1 = run_harness(harness, c[1], timeout=per_case_timeout, asan=asan, env=env)
            if rc1 == -999:
                timeouts.append(c[0])
            res.append((out1, None if rc1 == 0 else (c[0], rc1, (err1 if len(err1) <= 6000 else err1[:2500] + "\n[...]\n" + err1[-3500:]))))
        return res

    M, allc, crashes = None, {}, []
    with ThreadPoolExecutor(max_workers=jobs) as ex:
        for res in ex.map(run_chunk, chunks):
            for out, crash in res:
                m, cs = split_cases(out)
                M = M or m
                allc.update(cs)
                if crash:
                    crashes.append(crash)
    # a time limit hit while 16 chunks share the machine (and whatever else runs on it) says nothing about the library yet:
    # every such case gets a second run ALONE with four times the budget; only what times out again (or fails then) is reported
    redo = [c for c in crashes if c[1] == -999]
    if redo:
        byid = dict(cases)
        keep = [c for c in crashes if c[1] != -999]
        for cid, rc, err in redo[:max_timeouts]:
            rc1, out1, err1 = run_harness(harness, byid[cid], timeout=max(4 * per_case_timeout, 240), asan=asan, env=env)
            m, cs = split_cases(out1)
            M = M or m
            allc.update(cs)
            if rc1 != 0:
                keep.append((cid, rc1, (err1 if len(err1) <= 6000 else err1[:2500] + "\n[...]\n" + err1[-3500:])))
        crashes = keep + redo[max_timeouts:]
    return M, allc, crashes
